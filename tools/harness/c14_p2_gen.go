// generated: static list of the 11 poseidon2 packages
package main

import (
	p2_bn254 "github.com/consensys/gnark-crypto/ecc/bn254/fr/poseidon2"
	p2fr_bn254 "github.com/consensys/gnark-crypto/ecc/bn254/fr"
	p2_bls12_381 "github.com/consensys/gnark-crypto/ecc/bls12-381/fr/poseidon2"
	p2fr_bls12_381 "github.com/consensys/gnark-crypto/ecc/bls12-381/fr"
	p2_bls12_377 "github.com/consensys/gnark-crypto/ecc/bls12-377/fr/poseidon2"
	p2fr_bls12_377 "github.com/consensys/gnark-crypto/ecc/bls12-377/fr"
	p2_bw6_761 "github.com/consensys/gnark-crypto/ecc/bw6-761/fr/poseidon2"
	p2fr_bw6_761 "github.com/consensys/gnark-crypto/ecc/bw6-761/fr"
	p2_bls24_315 "github.com/consensys/gnark-crypto/ecc/bls24-315/fr/poseidon2"
	p2fr_bls24_315 "github.com/consensys/gnark-crypto/ecc/bls24-315/fr"
	p2_bls24_317 "github.com/consensys/gnark-crypto/ecc/bls24-317/fr/poseidon2"
	p2fr_bls24_317 "github.com/consensys/gnark-crypto/ecc/bls24-317/fr"
	p2_bw6_633 "github.com/consensys/gnark-crypto/ecc/bw6-633/fr/poseidon2"
	p2fr_bw6_633 "github.com/consensys/gnark-crypto/ecc/bw6-633/fr"
	p2_grumpkin "github.com/consensys/gnark-crypto/ecc/grumpkin/fr/poseidon2"
	p2fr_grumpkin "github.com/consensys/gnark-crypto/ecc/grumpkin/fr"
	p2_koalabear "github.com/consensys/gnark-crypto/field/koalabear/poseidon2"
	p2fr_koalabear "github.com/consensys/gnark-crypto/field/koalabear"
	p2_babybear "github.com/consensys/gnark-crypto/field/babybear/poseidon2"
	p2fr_babybear "github.com/consensys/gnark-crypto/field/babybear"
	p2_goldilocks "github.com/consensys/gnark-crypto/field/goldilocks/poseidon2"
	p2fr_goldilocks "github.com/consensys/gnark-crypto/field/goldilocks"
	"github.com/consensys/gnark-crypto/hash"
)

var p2Pkgs = []p2Pkg{
	mkP2[p2fr_bn254.Element]("bn254", "bn254_fr", hash.POSEIDON2_BN254,
		func(t, rf, rp int) p2Perm[p2fr_bn254.Element] { return p2_bn254.NewPermutation(t, rf, rp) },
		func(t, rf, rp int) [][]p2fr_bn254.Element { return p2_bn254.NewParameters(t, rf, rp).RoundKeys },
		func() (int, int, int) { p := p2_bn254.GetDefaultParameters(); return p.Width, p.NbFullRounds, p.NbPartialRounds },
		p2_bn254.NewMerkleDamgardHasher),
	mkP2[p2fr_bls12_381.Element]("bls12-381", "bls12_381_fr", hash.POSEIDON2_BLS12_381,
		func(t, rf, rp int) p2Perm[p2fr_bls12_381.Element] { return p2_bls12_381.NewPermutation(t, rf, rp) },
		func(t, rf, rp int) [][]p2fr_bls12_381.Element { return p2_bls12_381.NewParameters(t, rf, rp).RoundKeys },
		func() (int, int, int) { p := p2_bls12_381.GetDefaultParameters(); return p.Width, p.NbFullRounds, p.NbPartialRounds },
		p2_bls12_381.NewMerkleDamgardHasher),
	mkP2[p2fr_bls12_377.Element]("bls12-377", "bls12_377_fr", hash.POSEIDON2_BLS12_377,
		func(t, rf, rp int) p2Perm[p2fr_bls12_377.Element] { return p2_bls12_377.NewPermutation(t, rf, rp) },
		func(t, rf, rp int) [][]p2fr_bls12_377.Element { return p2_bls12_377.NewParameters(t, rf, rp).RoundKeys },
		func() (int, int, int) { p := p2_bls12_377.GetDefaultParameters(); return p.Width, p.NbFullRounds, p.NbPartialRounds },
		p2_bls12_377.NewMerkleDamgardHasher),
	mkP2[p2fr_bw6_761.Element]("bw6-761", "bw6_761_fr", hash.POSEIDON2_BW6_761,
		func(t, rf, rp int) p2Perm[p2fr_bw6_761.Element] { return p2_bw6_761.NewPermutation(t, rf, rp) },
		func(t, rf, rp int) [][]p2fr_bw6_761.Element { return p2_bw6_761.NewParameters(t, rf, rp).RoundKeys },
		func() (int, int, int) { p := p2_bw6_761.GetDefaultParameters(); return p.Width, p.NbFullRounds, p.NbPartialRounds },
		p2_bw6_761.NewMerkleDamgardHasher),
	mkP2[p2fr_bls24_315.Element]("bls24-315", "bls24_315_fr", hash.POSEIDON2_BLS24_315,
		func(t, rf, rp int) p2Perm[p2fr_bls24_315.Element] { return p2_bls24_315.NewPermutation(t, rf, rp) },
		func(t, rf, rp int) [][]p2fr_bls24_315.Element { return p2_bls24_315.NewParameters(t, rf, rp).RoundKeys },
		func() (int, int, int) { p := p2_bls24_315.GetDefaultParameters(); return p.Width, p.NbFullRounds, p.NbPartialRounds },
		p2_bls24_315.NewMerkleDamgardHasher),
	mkP2[p2fr_bls24_317.Element]("bls24-317", "bls24_317_fr", hash.POSEIDON2_BLS24_317,
		func(t, rf, rp int) p2Perm[p2fr_bls24_317.Element] { return p2_bls24_317.NewPermutation(t, rf, rp) },
		func(t, rf, rp int) [][]p2fr_bls24_317.Element { return p2_bls24_317.NewParameters(t, rf, rp).RoundKeys },
		func() (int, int, int) { p := p2_bls24_317.GetDefaultParameters(); return p.Width, p.NbFullRounds, p.NbPartialRounds },
		p2_bls24_317.NewMerkleDamgardHasher),
	mkP2[p2fr_bw6_633.Element]("bw6-633", "bw6_633_fr", hash.POSEIDON2_BW6_633,
		func(t, rf, rp int) p2Perm[p2fr_bw6_633.Element] { return p2_bw6_633.NewPermutation(t, rf, rp) },
		func(t, rf, rp int) [][]p2fr_bw6_633.Element { return p2_bw6_633.NewParameters(t, rf, rp).RoundKeys },
		func() (int, int, int) { p := p2_bw6_633.GetDefaultParameters(); return p.Width, p.NbFullRounds, p.NbPartialRounds },
		p2_bw6_633.NewMerkleDamgardHasher),
	mkP2[p2fr_grumpkin.Element]("grumpkin", "grumpkin_fr", hash.POSEIDON2_GRUMPKIN,
		func(t, rf, rp int) p2Perm[p2fr_grumpkin.Element] { return p2_grumpkin.NewPermutation(t, rf, rp) },
		func(t, rf, rp int) [][]p2fr_grumpkin.Element { return p2_grumpkin.NewParameters(t, rf, rp).RoundKeys },
		func() (int, int, int) { p := p2_grumpkin.GetDefaultParameters(); return p.Width, p.NbFullRounds, p.NbPartialRounds },
		p2_grumpkin.NewMerkleDamgardHasher),
	mkP2[p2fr_koalabear.Element]("koalabear", "koalabear", hash.POSEIDON2_KOALABEAR,
		func(t, rf, rp int) p2Perm[p2fr_koalabear.Element] { return p2_koalabear.NewPermutation(t, rf, rp) },
		func(t, rf, rp int) [][]p2fr_koalabear.Element { return p2_koalabear.NewParameters(t, rf, rp).RoundKeys },
		func() (int, int, int) { p := p2_koalabear.GetDefaultParameters(); return p.Width, p.NbFullRounds, p.NbPartialRounds },
		p2_koalabear.NewMerkleDamgardHasher),
	mkP2[p2fr_babybear.Element]("babybear", "babybear", hash.POSEIDON2_BABYBEAR,
		func(t, rf, rp int) p2Perm[p2fr_babybear.Element] { return p2_babybear.NewPermutation(t, rf, rp) },
		func(t, rf, rp int) [][]p2fr_babybear.Element { return p2_babybear.NewParameters(t, rf, rp).RoundKeys },
		func() (int, int, int) { p := p2_babybear.GetDefaultParameters(); return p.Width, p.NbFullRounds, p.NbPartialRounds },
		p2_babybear.NewMerkleDamgardHasher),
	mkP2[p2fr_goldilocks.Element]("goldilocks", "goldilocks", hash.POSEIDON2_GOLDILOCKS,
		func(t, rf, rp int) p2Perm[p2fr_goldilocks.Element] { return p2_goldilocks.NewPermutation(t, rf, rp) },
		func(t, rf, rp int) [][]p2fr_goldilocks.Element { return p2_goldilocks.NewParameters(t, rf, rp).RoundKeys },
		func() (int, int, int) { p := p2_goldilocks.GetDefaultParameters(); return p.Width, p.NbFullRounds, p.NbPartialRounds },
		p2_goldilocks.NewMerkleDamgardHasher),
}
