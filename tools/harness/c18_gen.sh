#!/bin/sh
# regenerates c18_<curve>.go from c18_curve.go.tmpl (run inside tools/harness)
set -e
cd "$(dirname "$0")"
for spec in bn254:bn254:BN254 bls12-377:bls12_377:BLS12_377 bls12-381:bls12_381:BLS12_381 bls24-315:bls24_315:BLS24_315 \
            bls24-317:bls24_317:BLS24_317 bw6-633:bw6_633:BW6_633 bw6-761:bw6_761:BW6_761; do
  path=${spec%%:*}; rest=${spec#*:}; id=${rest%%:*}; hash=${rest#*:}
  sed -e "s/__PATH__/$path/g" -e "s/__NAME__/$path/g" -e "s/__HASH__/$hash/g" -e "s/__ID__/$id/g" c18_curve.go.tmpl > c18_$id.go
  gofmt -w c18_$id.go
done
