//go:build verif

package main

// C04 — ops that need the verif overlay (hooks/mkoverlay_c04.py): the unexported partitionScalars of every curve
// package and internal/parallel.Execute, compared digit by digit / range by range with Model/MSM.lean.
//
//	C04 PART  <curve> <c> <s>                         digits of one scalar (chunk 0 first)
//	C04 PARTN <curve> <r> <c> <nbTasks> <seed> <n>    flat digit array of n scalars derived from the seed
//	C04 EXEC  <n> <maxCpus>                           ranges of parallel.Execute(n, work, maxCpus)
//	C04 EXECD <n> <numCPU>                            ranges of parallel.Execute(n, work)

import (
	"math/big"
	"runtime"
	"strconv"
	"strings"

	bls12377 "github.com/consensys/gnark-crypto/ecc/bls12-377"
	bls12377fr "github.com/consensys/gnark-crypto/ecc/bls12-377/fr"
	bls12381 "github.com/consensys/gnark-crypto/ecc/bls12-381"
	bls12381fr "github.com/consensys/gnark-crypto/ecc/bls12-381/fr"
	bls24315 "github.com/consensys/gnark-crypto/ecc/bls24-315"
	bls24315fr "github.com/consensys/gnark-crypto/ecc/bls24-315/fr"
	bls24317 "github.com/consensys/gnark-crypto/ecc/bls24-317"
	bls24317fr "github.com/consensys/gnark-crypto/ecc/bls24-317/fr"
	bn254 "github.com/consensys/gnark-crypto/ecc/bn254"
	bn254fr "github.com/consensys/gnark-crypto/ecc/bn254/fr"
	bw6633 "github.com/consensys/gnark-crypto/ecc/bw6-633"
	bw6633fr "github.com/consensys/gnark-crypto/ecc/bw6-633/fr"
	bw6761 "github.com/consensys/gnark-crypto/ecc/bw6-761"
	bw6761fr "github.com/consensys/gnark-crypto/ecc/bw6-761/fr"
	grumpkin "github.com/consensys/gnark-crypto/ecc/grumpkin"
	grumpkinfr "github.com/consensys/gnark-crypto/ecc/grumpkin/fr"
	secp256k1 "github.com/consensys/gnark-crypto/ecc/secp256k1"
	secp256k1fr "github.com/consensys/gnark-crypto/ecc/secp256k1/fr"
)

type c04PartFn func(ss []*big.Int, c uint64, nbTasks int) []uint16

func c04MkPart[E any, PE c04Fr[E]](f func([]E, uint64, int) []uint16) c04PartFn {
	return func(ss []*big.Int, c uint64, nbTasks int) []uint16 {
		es := make([]E, len(ss))
		for i := range ss {
			PE(&es[i]).SetBigInt(ss[i])
		}
		return f(es, c, nbTasks)
	}
}

var c04Parts = map[string]c04PartFn{
	"bn254":     c04MkPart[bn254fr.Element](bn254.VerifPartitionScalars),
	"bls12-377": c04MkPart[bls12377fr.Element](bls12377.VerifPartitionScalars),
	"bls12-381": c04MkPart[bls12381fr.Element](bls12381.VerifPartitionScalars),
	"bls24-315": c04MkPart[bls24315fr.Element](bls24315.VerifPartitionScalars),
	"bls24-317": c04MkPart[bls24317fr.Element](bls24317.VerifPartitionScalars),
	"bw6-633":   c04MkPart[bw6633fr.Element](bw6633.VerifPartitionScalars),
	"bw6-761":   c04MkPart[bw6761fr.Element](bw6761.VerifPartitionScalars),
	"grumpkin":  c04MkPart[grumpkinfr.Element](grumpkin.VerifPartitionScalars),
	"secp256k1": c04MkPart[secp256k1fr.Element](secp256k1.VerifPartitionScalars),
}

// _innerMsmG1 / _innerMsmG2 of every group with the caller's window (api "inner" of the MSMX lines, c04x.go)
var c04InnerFns = map[string]func(points, scalars any, c uint64, nbTasks int) any{
	"bn254/g1": func(p, s any, c uint64, t int) any {
		return bn254.VerifInnerMsmG1(c, p.([]bn254.G1Affine), s.([]bn254fr.Element), t)
	},
	"bn254/g2": func(p, s any, c uint64, t int) any {
		return bn254.VerifInnerMsmG2(c, p.([]bn254.G2Affine), s.([]bn254fr.Element), t)
	},
	"bls12-377/g1": func(p, s any, c uint64, t int) any {
		return bls12377.VerifInnerMsmG1(c, p.([]bls12377.G1Affine), s.([]bls12377fr.Element), t)
	},
	"bls12-377/g2": func(p, s any, c uint64, t int) any {
		return bls12377.VerifInnerMsmG2(c, p.([]bls12377.G2Affine), s.([]bls12377fr.Element), t)
	},
	"bls12-381/g1": func(p, s any, c uint64, t int) any {
		return bls12381.VerifInnerMsmG1(c, p.([]bls12381.G1Affine), s.([]bls12381fr.Element), t)
	},
	"bls12-381/g2": func(p, s any, c uint64, t int) any {
		return bls12381.VerifInnerMsmG2(c, p.([]bls12381.G2Affine), s.([]bls12381fr.Element), t)
	},
	"bls24-315/g1": func(p, s any, c uint64, t int) any {
		return bls24315.VerifInnerMsmG1(c, p.([]bls24315.G1Affine), s.([]bls24315fr.Element), t)
	},
	"bls24-315/g2": func(p, s any, c uint64, t int) any {
		return bls24315.VerifInnerMsmG2(c, p.([]bls24315.G2Affine), s.([]bls24315fr.Element), t)
	},
	"bls24-317/g1": func(p, s any, c uint64, t int) any {
		return bls24317.VerifInnerMsmG1(c, p.([]bls24317.G1Affine), s.([]bls24317fr.Element), t)
	},
	"bls24-317/g2": func(p, s any, c uint64, t int) any {
		return bls24317.VerifInnerMsmG2(c, p.([]bls24317.G2Affine), s.([]bls24317fr.Element), t)
	},
	"bw6-633/g1": func(p, s any, c uint64, t int) any {
		return bw6633.VerifInnerMsmG1(c, p.([]bw6633.G1Affine), s.([]bw6633fr.Element), t)
	},
	"bw6-633/g2": func(p, s any, c uint64, t int) any {
		return bw6633.VerifInnerMsmG2(c, p.([]bw6633.G2Affine), s.([]bw6633fr.Element), t)
	},
	"bw6-761/g1": func(p, s any, c uint64, t int) any {
		return bw6761.VerifInnerMsmG1(c, p.([]bw6761.G1Affine), s.([]bw6761fr.Element), t)
	},
	"bw6-761/g2": func(p, s any, c uint64, t int) any {
		return bw6761.VerifInnerMsmG2(c, p.([]bw6761.G2Affine), s.([]bw6761fr.Element), t)
	},
	"grumpkin/g1": func(p, s any, c uint64, t int) any {
		return grumpkin.VerifInnerMsmG1(c, p.([]grumpkin.G1Affine), s.([]grumpkinfr.Element), t)
	},
	"secp256k1/g1": func(p, s any, c uint64, t int) any {
		return secp256k1.VerifInnerMsmG1(c, p.([]secp256k1.G1Affine), s.([]secp256k1fr.Element), t)
	},
}

func c04Digits(d []uint16) string {
	if len(d) == 0 {
		return "-"
	}
	var sb strings.Builder
	for i, v := range d {
		if i > 0 {
			sb.WriteByte(',')
		}
		sb.WriteString(strconv.FormatUint(uint64(v), 16))
	}
	return sb.String()
}

func c04ShimExec(a []string) string {
	switch a[0] {
	case "PART":
		if len(a) != 4 {
			return "bad-op"
		}
		f, ok := c04Parts[a[1]]
		if !ok {
			return "bad-op"
		}
		return c04Digits(f([]*big.Int{parseBig(a[3])}, uint64(c04ParseInt(a[2])), 1))
	case "PARTN":
		if len(a) != 7 {
			return "bad-op"
		}
		f, ok := c04Parts[a[1]]
		if !ok {
			return "bad-op"
		}
		seed, _ := strconv.ParseUint(a[5], 16, 64)
		_, S := c04Vectors(parseBig(a[2]), seed, c04ParseInt(a[6]), 0)
		return c04Digits(f(S, uint64(c04ParseInt(a[3])), c04ParseInt(a[4])))
	case "EXEC", "EXECD":
		if len(a) != 3 {
			return "bad-op"
		}
		var rs [][2]int
		if a[0] == "EXEC" {
			rs = bn254.VerifExecuteRanges(c04ParseInt(a[1]), c04ParseInt(a[2]))
		} else {
			rs = bn254.VerifExecuteRanges(c04ParseInt(a[1]))
		}
		if len(rs) == 0 {
			return "-"
		}
		out := make([]string, len(rs))
		for i, r := range rs {
			out[i] = strconv.FormatInt(int64(r[0]), 16) + "," + strconv.FormatInt(int64(r[1]), 16)
		}
		return join(out)
	}
	return "bad-op"
}

func c04ShimGen(g *gen) {
	one := big.NewInt(1)
	for _, curve := range []string{"bn254", "bls12-377", "bls12-381", "bls24-315", "bls24-317", "bw6-633", "bw6-761", "grumpkin", "secp256k1"} {
		grp := c04Groups[curve+"/g1"]
		r := grp.r
		bits := r.BitLen()
		maxC := 16
		if curve == "secp256k1" && !c04Crash {
			maxC = 15 // c=16 is not supported by this instance (the statistics pass indexes bitSetC15 out of range)
		}
		for c := 2; c <= maxC; c++ {
			lat := []*big.Int{big.NewInt(0), big.NewInt(1), big.NewInt(2),
				new(big.Int).Sub(r, one), new(big.Int).Sub(r, big.NewInt(2)), new(big.Int).Rsh(r, 1)}
			nbChunks := (bits + c - 1) / c
			js := []int{1, 2, nbChunks / 2, nbChunks - 2, nbChunks - 1, 64 / c, 64/c + 1, 128 / c, 192/c + 1}
			for _, j := range js {
				if j < 0 || (!g.thorough() && g.rng.intn(3) != 0) {
					continue
				}
				p := new(big.Int).Lsh(one, uint(c*j))
				lat = append(lat, new(big.Int).Sub(p, one), p, new(big.Int).Add(p, one))
				if c*j >= 1 {
					h := new(big.Int).Lsh(one, uint(c*j-1)) // half: first digit that borrows
					lat = append(lat, h, new(big.Int).Sub(h, one), new(big.Int).Add(h, new(big.Int).Lsh(h, uint(c))))
				}
			}
			for _, k := range []int{63, 64, 65, 127, 128, 129, bits - 2, bits - 1} {
				p := new(big.Int).Lsh(one, uint(k))
				lat = append(lat, new(big.Int).Sub(p, one), p, new(big.Int).Add(p, one))
			}
			for i := 0; i < g.budget(4, 40); i++ {
				lat = append(lat, g.rng.bigBelow(r))
			}
			// all windows equal to 2^(c-1) (carry everywhere) and to 2^c - 1
			rep := func(w *big.Int) *big.Int {
				v := new(big.Int)
				for j := 0; j < nbChunks; j++ {
					v.Lsh(v, uint(c))
					v.Or(v, w)
				}
				return v.Mod(v, r)
			}
			lat = append(lat, rep(new(big.Int).Lsh(one, uint(c-1))), rep(new(big.Int).Sub(new(big.Int).Lsh(one, uint(c)), one)),
				rep(new(big.Int).Sub(new(big.Int).Lsh(one, uint(c-1)), one)))
			for _, s := range lat {
				s = new(big.Int).Mod(s, r)
				g.emit("C04 PART %s %x %s", curve, c, hexBig(s))
			}
			for _, n := range []int{0, 1, 2, 17, g.budget(40, 300)} {
				if !g.thorough() && g.rng.intn(4) != 0 {
					continue
				}
				t := []int{1, 2, 3, 16, 100, runtime.NumCPU()}[g.rng.intn(6)]
				g.emit("C04 PARTN %s %s %x %x %x %x", curve, hexBig(r), c, t, g.rng.u64(), n)
			}
		}
	}
	ks := []int{-5, -1, 0, 1, 2, 3, 4, 5, 7, 8, 15, 16, 17, 31, 32, 33, 100, 511, 512, 513, 1000, 100000}
	for n := 0; n <= g.budget(20, 70); n++ {
		for _, k := range ks {
			g.emit("C04 EXEC %x %s", n, c04HexInt(k))
		}
		g.emit("C04 EXECD %x %x", n, runtime.NumCPU())
	}
	for i := 0; i < g.budget(60, 600); i++ {
		n := g.rng.intn(1 << uint(1+g.rng.intn(20)))
		g.emit("C04 EXEC %x %s", n, c04HexInt(ks[g.rng.intn(len(ks))]))
		g.emit("C04 EXEC %x %s", n, c04HexInt(1+g.rng.intn(600)))
		g.emit("C04 EXECD %x %x", n, runtime.NumCPU())
	}
}
