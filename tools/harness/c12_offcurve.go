// C12 — ECDSA public keys that are NOT on the curve, handed to Verify through the exported field PublicKey.A (op ECVOC = ECV, separate
// tag for the replays). PublicKey.SetBytes validates a key, but `A` is exported: a caller (or a struct literal) can hold any pair of
// coordinates. The Jacobian formulas never use the coefficient b, so an off-curve point (x, y) is processed on the curve
// y² = x³ + ax + b' through it, a curve that may have small subgroups. Specification (Model/Sig.lean ECParams.verifyPK): refused.
//
//	(a) neighbours of an honest key with an honest signature: (x, y+1), (x+1, y), (x, 0), (0, y), (y, x), random pairs, G moved off;
//	(b) keys of ORDER 2 on their own curve: (x0, 0) for random x0 (2·(x0, 0) = O with these formulas). [u2](x0, 0) is O whenever the
//	    digits of u2 cancel, then U = [u1]G and ANY (r, s) with r = x([k]G), s = e/k verifies under it - a signature by nobody.
//	    A fixed number of such forgeries per curve and hash (the verdict of the unrepaired code depends on the digits of u2);
//	    and with e = 0 (nil hash, zero digest) r = x0 mod n: U = [u2](x0, 0) itself.
package main

import (
	"crypto/sha256"
	"math/big"
)

func genEcOffCurve(g *gen, e *ecAPI, p ecParams, sk []byte, qx, qy *big.Int) {
	c := bigCurve{p.p, p.a, p.b}
	one := big.NewInt(1)
	fb := p.frBytes
	emit := func(hname string, x, y *big.Int, sig, msg []byte) {
		x = new(big.Int).Mod(x, p.p)
		y = new(big.Int).Mod(y, p.p)
		if c.onCurve(&bigPt{x, y}) || (x.Sign() == 0 && y.Sign() == 0) {
			return // by accident on the curve (or the encoding of infinity): not this class
		}
		e.emitVT(g, "ECVOC", hname, x, y, sig, msg)
	}
	// (a) honest signature, key moved off the curve
	for hi, hname := range []string{"sha256", "nil", "mimc"} {
		if hname == "mimc" && !g.thorough() {
			continue
		}
		msg := g.rng.bytes(fb)
		if hname == "mimc" {
			msg = c12Msg(g, 2*e.mimcSize, true, e.mimcSize, e.mimcQ)
		}
		sig, err := e.sign(sk, msg, c12Hash(hname, e.mimc))
		if err != nil {
			panic(err)
		}
		keys := [][2]*big.Int{{qx, new(big.Int).Add(qy, one)}, {new(big.Int).Add(qx, one), qy}, {qx, big.NewInt(0)}, {big.NewInt(0), qy},
			{qy, qx}, {g.rng.bigBelow(p.p), g.rng.bigBelow(p.p)}, {p.gx, new(big.Int).Sub(p.gy, one)}}
		for i, k := range keys {
			if g.thorough() || hi == 0 || i%2 == 0 {
				emit(hname, k[0], k[1], sig, msg)
			}
		}
	}
	// (b) keys of order 2 on their own curve with forged signatures
	sigOf := func(r, s *big.Int) []byte { return cat(beBytes(r, fb), beBytes(s, fb)) }
	for _, hname := range []string{"nil", "sha256"} {
		for i := 0; i < g.budget(6, 24); i++ {
			x0 := new(big.Int).Add(g.rng.bigBelow(new(big.Int).Sub(p.p, one)), one)
			msg := g.rng.bytes(fb)
			digest := msg
			if hname == "sha256" {
				d := sha256.Sum256(msg)
				digest = d[:]
			}
			ev := new(big.Int).Mod(e.hashToInt(digest), p.n)
			k := new(big.Int).Add(g.rng.bigBelow(new(big.Int).Sub(p.n, one)), one)
			rx, _ := e.smulG(k)
			r := new(big.Int).Mod(rx, p.n)
			s := new(big.Int).ModInverse(k, p.n)
			s.Mul(s, ev).Mod(s, p.n)
			if r.Sign() == 0 || s.Sign() == 0 {
				continue
			}
			emit(hname, x0, big.NewInt(0), sigOf(r, s), msg)
		}
	}
	for i := 0; i < g.budget(4, 16); i++ { // e = 0: U = [r/s](x0, 0)
		x0 := new(big.Int).Add(g.rng.bigBelow(new(big.Int).Sub(p.p, one)), one)
		r := new(big.Int).Mod(x0, p.n)
		s := new(big.Int).Add(g.rng.bigBelow(new(big.Int).Sub(p.n, one)), one)
		if r.Sign() == 0 {
			continue
		}
		emit("nil", x0, big.NewInt(0), sigOf(r, s), make([]byte, fb))
	}
}
