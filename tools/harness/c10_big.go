package main

// C10 — large transforms (op `C10 big`): sizes 2^11 … 2^22, where the packages split the recursion over goroutines for many
// levels, split single stages with parallel.Execute, and where the koalabear/babybear AVX-512 routines run on long rows.
// The input vector is given by a formula (LCG stream, see c10bigInput) and the answer is two weighted digests of the whole output
// vector plus four sampled entries, so a line stays short; the Lean side runs the SAME model (`FFT`/`FFTInverse` of Model/FFT.lean)
// on the same vector.

import (
	"math/big"
	"math/bits"
	"strconv"
)

const (
	c10lcgA = 6364136223846793005
	c10lcgC = 1442695040888963407
	c10m61  = (uint64(1) << 61) - 1
)

// element i of the input: x_{i+1} = x_i·A + C mod 2^64 (x_0 = seed), h = x_{i+1} >> 16
//
//	mode d (dense)  : h·K mod q
//	mode s (sparse) : h mod 16 = 0 → q−1, 1 → 1, 2 → h·K mod q, otherwise 0
//	mode c (const)  : K
//	mode 1 (delta)  : K at position seed mod n, 0 elsewhere
func c10bigInput(q, k *big.Int, mode byte, seed uint64, n int, set func(i int, v *big.Int)) uint64 {
	x := seed
	h, t := new(big.Int), new(big.Int)
	qm1 := new(big.Int).Sub(q, big.NewInt(1))
	one, zero := big.NewInt(1), big.NewInt(0)
	kq := new(big.Int).Mod(k, q)
	for i := 0; i < n; i++ {
		x = x*c10lcgA + c10lcgC
		hv := x >> 16
		switch mode {
		case 'd':
			h.SetUint64(hv)
			set(i, t.Mod(t.Mul(h, k), q))
		case 's':
			switch hv % 16 {
			case 0:
				set(i, qm1)
			case 1:
				set(i, one)
			case 2:
				h.SetUint64(hv)
				set(i, t.Mod(t.Mul(h, k), q))
			default:
				set(i, zero)
			}
		case 'c':
			set(i, kq)
		default:
			if uint64(i) == seed%uint64(n) {
				set(i, kq)
			} else {
				set(i, zero)
			}
		}
	}
	return x
}

func c10mulmod61(a, b uint64) uint64 {
	hi, lo := bits.Mul64(a, b)
	_, r := bits.Div64(hi, lo, c10m61) // a, b < 2^61 ⇒ hi < 2^58 < m61
	return r
}

// "<d1> <d2> <s0>,<s1>,<s2>,<s3>":  d1 = Σ (i+1)·(out[i] mod M),  d2 = Σ ((i+1)² mod M)·(out[i] mod M)  (mod M = 2^61−1),
// s_k = out[p_k], p_k = (x >> 16) mod n along the continued LCG stream
func (p *c10pkg[E, P, D]) BigTransform(kind string, c c10cfg, mode byte, seed uint64, k *big.Int) string {
	n := 1 << c.logn
	a := make([]E, n)
	x := c10bigInput(p.modulus, k, mode, seed, n, func(i int, v *big.Int) { P(&a[i]).SetBigInt(v) })
	p.apply(p.domain(c), kind, c, a)
	var d1, d2 uint64
	t, m := new(big.Int), new(big.Int).SetUint64(c10m61)
	small := p.modulus.BitLen() <= 61
	for i := range a {
		var o uint64
		if small {
			o = P(&a[i]).Uint64()
		} else {
			o = t.Mod(P(&a[i]).BigInt(t), m).Uint64()
		}
		w := uint64(i+1) % c10m61
		d1 = (d1 + c10mulmod61(w, o)) % c10m61
		d2 = (d2 + c10mulmod61(c10mulmod61(w, w), o)) % c10m61
	}
	s := strconv.FormatUint(d1, 16) + " " + strconv.FormatUint(d2, 16) + " "
	for j := 0; j < 4; j++ {
		x = x*c10lcgA + c10lcgC
		if j > 0 {
			s += ","
		}
		s += hexBig(p.big(a[(x>>16)%uint64(n)]))
	}
	return s
}

// big <kind> <field> <q> <omega> <logn> <dif|dit> <coset> <precomp> <nbTasks> <g> <custom> <mode> <seed> <K>
func execC10big(a []string) string {
	if len(a) != 14 || (a[0] != "fft" && a[0] != "inv" && a[0] != "roundtrip" && a[0] != "rtinv") {
		return "bad-op"
	}
	f, ok := c10fields[a[1]]
	if !ok {
		return "bad-op"
	}
	logn, ok1 := c10hexInt(a[4])
	nb, ok2 := c10hexInt(a[8])
	seed, err := strconv.ParseUint(a[12], 16, 64)
	if !ok1 || !ok2 || err != nil || logn > 24 || (a[5] != "dif" && a[5] != "dit") || len(a[11]) != 1 {
		return "bad-op"
	}
	mode := a[11][0]
	if mode != 'd' && mode != 's' && mode != 'c' && mode != '1' {
		return "bad-op"
	}
	c := c10cfg{logn: logn, dif: a[5] == "dif", coset: a[6] == "1", precomp: a[7] == "1", nb: nb}
	g := parseBig(a[9])
	if a[10] == "1" {
		c.shift = g
	} else if g.Cmp(f.MulGen()) != 0 {
		return "bad-op"
	}
	if parseBig(a[2]).Cmp(f.Q()) != 0 || parseBig(a[3]).Cmp(f.Omega(logn)) != 0 {
		return "bad-op"
	}
	return f.BigTransform(a[0], c, mode, seed, parseBig(a[13]))
}

func (g *gen) c10big(kind string, f c10field, c c10cfg, mode byte) {
	gs, custom := f.MulGen(), "0"
	if c.shift != nil {
		gs, custom = c.shift, "1"
	}
	dec := "dit"
	if c.dif {
		dec = "dif"
	}
	g.emit("C10 big %s %s %s %s %x %s %s %s %x %s %s %c %x %s", kind, f.Name(), hexBig(f.Q()), hexBig(f.Omega(c.logn)), c.logn, dec,
		boolStr(c.coset), boolStr(c.precomp), c.nb, hexBig(gs), custom, mode, g.rng.u64(), hexBig(g.rng.bigBelow(f.Q())))
}

// task counts for the large sizes: 1 = no goroutine at all, powers of two = maxSplits 1,2,3,…, non powers of two = uneven
// parallel.Execute chunks, 0 = default (NumCPU)
var c10bigTasks = []int{2, 4, 8, 16, 0, 3, 64, 1, 5, 512}

// (h) large transforms. The per-stage work of the top stages is m = 2^(logn−1−stage) butterflies: at these sizes the top
// stages are split over goroutines / parallel.Execute chunks of ≥ 2^12 butterflies and the assembly rows are long.
//
//	koalabear, babybear (own AVX-512 kernels): every size 11 … 16, at 2^17 tables × both decimations × forward/inverse with a
//	  splitting task count (matrix), 2^18 once; thorough: matrix with and without tables for 2^17 … 2^20, 2^21, koalabear 2^22.
//	goldilocks: every size 11 … 16, 2^17 once; thorough: matrices 2^17, 2^18, two each of 2^19, 2^20.
//	the 7 scalar-field packages (one template): sizes 11 … 13 and one of 14/15/16 each; thorough: matrices 15 … 17, 2^18 once, bn254 2^20.
func genC10big(g *gen) {
	kinds := []string{"fft", "inv", "fft", "inv", "roundtrip", "rtinv"}
	modes := []byte{'d', 'd', 'd', 's', 'c', '1'}
	k := 0
	for _, name := range c10order {
		f := c10fields[name]
		shiftOrNil := func() *big.Int {
			if g.rng.intn(3) == 0 {
				s := g.rng.bigBelow(f.Q())
				if s.Sign() == 0 {
					s.SetInt64(1)
				}
				return s
			}
			return nil
		}
		rnd := func(logn int) c10cfg {
			return c10cfg{logn: logn, dif: g.rng.coin(), coset: g.rng.coin(), precomp: g.rng.coin(),
				nb: c10bigTasks[g.rng.intn(len(c10bigTasks))], shift: shiftOrNil()}
		}
		one := func(logn int) {
			g.c10big(kinds[g.rng.intn(len(kinds))], f, rnd(logn), modes[g.rng.intn(len(modes))])
		}
		// a splitting configuration (≥ 2 tasks), dense input
		split := func(logn int, precomp bool) {
			c := rnd(logn)
			c.nb, c.precomp = c10bigTasks[g.rng.intn(5)], precomp
			g.c10big(kinds[g.rng.intn(2)], f, c, 'd')
		}
		// the configuration class of a large size, deterministically: both decimations × (forward, inverse) with a
		// task count that splits (≥ 2), dense input
		matrix := func(logn int, precomp bool) {
			for j := 0; j < 4; j++ {
				c := c10cfg{logn: logn, dif: j&1 == 1, coset: g.rng.coin(), precomp: precomp, nb: c10bigTasks[g.rng.intn(5)]}
				g.c10big(kinds[j/2], f, c, 'd')
			}
		}
		switch name {
		case "koalabear", "babybear":
			for logn := 11; logn <= 16; logn++ {
				one(logn)
				if logn >= 14 {
					split(logn, true)
				}
			}
			matrix(17, true)
			if g.thorough() {
				for logn := 17; logn <= 20; logn++ {
					matrix(logn, false)
					if logn > 17 {
						matrix(logn, true)
					}
					one(logn)
					one(logn)
				}
				split(21, false)
				split(21, true)
				if name == "koalabear" {
					split(22, false)
				}
			} else {
				split(18, g.rng.coin())
			}
		case "goldilocks":
			for logn := 11; logn <= 16; logn++ {
				one(logn)
			}
			if g.thorough() {
				for logn := 17; logn <= 18; logn++ {
					matrix(logn, true)
					matrix(logn, false)
					one(logn)
				}
				for logn := 19; logn <= 20; logn++ {
					split(logn, true)
					split(logn, false)
				}
			} else {
				split(17, true)
			}
		default:
			for logn := 11; logn <= 13; logn++ {
				one(logn)
			}
			if g.thorough() {
				one(14)
				for logn := 15; logn <= 17; logn++ {
					matrix(logn, true)
					one(logn)
					one(logn)
				}
				split(18, g.rng.coin())
				if name == "bn254" {
					split(20, true)
					split(20, false)
				}
			} else {
				split(14+k%3, true)
				k++
			}
		}
	}
	g.emit("C10 big fft koalabear 1 1 0 dif 0 1 1 5 0 d 1")
	g.emit("C10 big frob")
}
