//go:build !verif

package main

// without the verif overlay the unexported partitionScalars / parallel.Execute are not reachable
func c04ShimExec(a []string) string { return "bad-op" }
func c04ShimGen(g *gen)             {}

var c04InnerFns = map[string]func(points, scalars any, c uint64, nbTasks int) any{}
