package main

// GENERATED from c18_curve.go.tmpl by c18_gen.sh (one copy per pairing curve) — edit the template.
// C18 sessions for curve bls24-317: shared argument objects + the exported entry point applied to them.

import (
	"bytes"
	"crypto/sha256"
	"encoding/hex"
	"math/big"
	"reflect"
	"sort"
	"sync/atomic"

	"github.com/consensys/gnark-crypto/ecc"
	curve "github.com/consensys/gnark-crypto/ecc/bls24-317"
	"github.com/consensys/gnark-crypto/ecc/bls24-317/fflonk"
	"github.com/consensys/gnark-crypto/ecc/bls24-317/fp"
	"github.com/consensys/gnark-crypto/ecc/bls24-317/fr"
	"github.com/consensys/gnark-crypto/ecc/bls24-317/fr/fft"
	"github.com/consensys/gnark-crypto/ecc/bls24-317/fr/fri"
	"github.com/consensys/gnark-crypto/ecc/bls24-317/fr/iop"
	"github.com/consensys/gnark-crypto/ecc/bls24-317/fr/mimc"
	"github.com/consensys/gnark-crypto/ecc/bls24-317/fr/pedersen"
	"github.com/consensys/gnark-crypto/ecc/bls24-317/fr/permutation"
	"github.com/consensys/gnark-crypto/ecc/bls24-317/fr/plookup"
	"github.com/consensys/gnark-crypto/ecc/bls24-317/fr/polynomial"
	"github.com/consensys/gnark-crypto/ecc/bls24-317/fr/poseidon2"
	"github.com/consensys/gnark-crypto/ecc/bls24-317/kzg"
	"github.com/consensys/gnark-crypto/ecc/bls24-317/shplonk"
	"github.com/consensys/gnark-crypto/ecc/bls24-317/twistededwards"
	fhash "github.com/consensys/gnark-crypto/field/hash"
	ghash "github.com/consensys/gnark-crypto/hash"
)

// Shapes >= 16 (`C18 par …` lines) are the sizes ABOVE the thresholds at which an entry point switches to its goroutine /
// parallel.Execute implementation (c18Par(shape)); the low 4 bits vary the size among such sizes.
func init() {
	const name = "bls24-317"
	reg := func(entry string, mk c18Maker) { c18Makers[entry+"/"+name] = mk }
	_, _, g1, g2 := curve.Generators()

	rfr := func(r *rng) (e fr.Element) { e.SetBigInt(r.bigBits(fr.Bits + 64)); return }
	rfrs := func(r *rng, n int) []fr.Element {
		s := make([]fr.Element, n)
		for i := range s {
			s[i] = rfr(r)
		}
		return s
	}
	rG1 := func(r *rng, n int) []curve.G1Affine { return curve.BatchScalarMultiplicationG1(&g1, rfrs(r, n)) }
	rG2 := func(r *rng, n int) []curve.G2Affine { return curve.BatchScalarMultiplicationG2(&g2, rfrs(r, n)) }
	frBytes := func(r *rng) []byte { e := rfr(r); b := e.Bytes(); return b[:] }
	// slice arguments as WINDOWS of larger buffers (see c18Win)
	wfrs := func(r *rng, n int) []fr.Element { return c18Win(r, rfrs(r, n)) }
	wG1 := func(r *rng, n int) []curve.G1Affine { return c18Win(r, rG1(r, n)) }
	wG2 := func(r *rng, n int) []curve.G2Affine { return c18Win(r, rG2(r, n)) }

	// ---- pairings with precomputed lines -------------------------------------------------------------------------
	mkPair := func(which int) c18Maker {
		return func(r *rng, shape int) *c18Sess {
			n := c18Pick(shape, 1, 2, 4, func() int { return 1 + r.intn(3) }) // 1 pair = the minimal product
			P, Q := rG1(r, n), rG2(r, n)
			if shape == 1 && which != 2 { // a pair with the point at infinity on one side
				P[r.intn(n)] = curve.G1Affine{}
			}
			if which == 2 || (which == 3 && shape > 2 && r.coin()) {
				// e(aG1, bG2) · e(-abG1, G2) = 1
				n = 2
				a, b := rfr(r), rfr(r)
				var ab fr.Element
				ab.Mul(&a, &b).Neg(&ab)
				P = curve.BatchScalarMultiplicationG1(&g1, []fr.Element{a, ab})
				Q = []curve.G2Affine{curve.BatchScalarMultiplicationG2(&g2, []fr.Element{b})[0], g2}
			}
			lines := c18SliceOf(curve.PrecomputeLines(Q[0]), n)
			for i := range Q {
				lines[i] = curve.PrecomputeLines(Q[i])
			}
			P, Q, lines = c18Win(r, P), c18Win(r, Q), c18Win(r, lines)
			s := &c18Sess{args: []c18Arg{{"P", &P}, {"lines", &lines}}}
			switch which {
			case 0:
				s.call = func() string { res, err := curve.PairFixedQ(P, lines); return s.out(&res) + c18Err(err) }
			case 1:
				s.call = func() string { res, err := curve.MillerLoopFixedQ(P, lines); return s.out(&res) + c18Err(err) }
			case 2:
				s.call = func() string { ok, err := curve.PairingCheckFixedQ(P, lines); return boolStr(ok) + c18Err(err) }
			default:
				s.args = []c18Arg{{"P", &P}, {"Q", &Q}}
				s.call = func() string {
					res, err := curve.Pair(P, Q)
					ok, err2 := curve.PairingCheck(P, Q)
					return s.out(&res) + c18Err(err) + boolStr(ok) + c18Err(err2)
				}
			}
			return s
		}
	}
	reg("pairfixedq", mkPair(0))
	reg("millerloopfixedq", mkPair(1))
	reg("pairingcheckfixedq", mkPair(2))
	reg("pair", mkPair(3))

	// ---- KZG with a shared SRS ------------------------------------------------------------------------------------
	mkKzg := func(which int) c18Maker {
		return func(r *rng, shape int) *c18Sess {
			// shapes: 0 = smallest SRS (2), ONE polynomial of degree 1; 1 = ONE constant polynomial; 2 = ONE full-size
			// polynomial; 3 = two polynomials; otherwise 1..4 polynomials of random sizes
			size := c18Pick(shape, 2, 4, 16, func() int { return 8 << r.intn(3) })
			if c18Par(shape) { // Commit: a multi-exponentiation over >= 128 points; BatchOpenSinglePoint: parallel folding
				size = 128 << (shape & 1)
			}
			alpha := r.bigBits(200)
			if c18Par(shape) && which == 4 && shape&1 == 0 {
				// long polynomials (the workers of the folding loop must run long enough to overlap) on the balanced SRS
				// of NewSRS(size, -1), which costs nothing to build
				size, alpha = 2048, big.NewInt(-1)
			}
			srs, err := kzg.NewSRS(uint64(size), alpha)
			if err != nil {
				panic(err)
			}
			nb := 1
			if shape == 3 {
				nb = 2
			} else if shape > 3 {
				nb = 1 + r.intn(4)
			}
			if c18Par(shape) && which == 4 { // the folding (parallel.Execute per polynomial) needs at least two polynomials
				nb = 2 + r.intn(3)
			}
			polys := make([][]fr.Element, nb)
			digests := make([]kzg.Digest, nb)
			proofs := make([]kzg.OpeningProof, nb)
			points := wfrs(r, nb)
			for i := range polys {
				polys[i] = wfrs(r, c18Pick(shape, 2, 1, size, func() int { return size - r.intn(3) }))
				digests[i], _ = kzg.Commit(polys[i], srs.Pk)
				proofs[i], _ = kzg.Open(polys[i], points[i], srs.Pk)
			}
			if r.intn(4) == 0 { // an invalid proof: the error path must be repeatable too
				proofs[nb-1].ClaimedValue = rfr(r)
			}
			polys, digests, proofs = c18Win(r, polys), c18Win(r, digests), c18Win(r, proofs)
			nbTasks := 1 + r.intn(5)
			if c18Par(shape) && r.coin() {
				nbTasks = 0 // the default: 2 x NumCPU tasks
			}
			s := &c18Sess{}
			switch which {
			case 0:
				s.args = []c18Arg{{"commitment", &digests[nb-1]}, {"proof", &proofs[nb-1]}, {"point", &points[nb-1]}, {"srs", srs}}
				s.call = func() string { return c18Err(kzg.Verify(&digests[nb-1], &proofs[nb-1], points[nb-1], srs.Vk)) }
			case 1:
				s.args = []c18Arg{{"digests", &digests}, {"proofs", &proofs}, {"points", &points}, {"srs", srs}}
				s.call = func() string { return c18Err(kzg.BatchVerifyMultiPoints(digests, proofs, points, srs.Vk)) }
			case 2:
				s.args = []c18Arg{{"p", &polys[0]}, {"point", &points[0]}, {"srs", srs}}
				s.call = func() string {
					pr, err := kzg.Open(polys[0], points[0], srs.Pk)
					// (same key, another polynomial and point: the first proof stays what it was)
					pr2, err2 := kzg.Open(polys[nb-1], points[nb-1], srs.Pk)
					return s.out(&pr) + c18Err(err) + s.out(&pr2) + c18Err(err2)
				}
			case 3:
				s.args = []c18Arg{{"p", &polys[0]}, {"srs", srs}}
				s.call = func() string {
					if nbTasks == 0 {
						d, err := kzg.Commit(polys[0], srs.Pk)
						return s.out(&d) + c18Err(err)
					}
					d, err := kzg.Commit(polys[0], srs.Pk, nbTasks)
					return s.out(&d) + c18Err(err)
				}
			default:
				// the batch entry points (one point): polynomials is a slice of slices, all of it is snapshotted
				data := [][]byte{frBytes(r)}
				if r.coin() {
					data = nil
				}
				data = c18Win2(r, data)
				s.args = []c18Arg{{"polynomials", &polys}, {"digests", &digests}, {"point", &points[0]}, {"srs", srs}, {"dataTranscript", &data}}
				s.call = func() string {
					pr, err := kzg.BatchOpenSinglePoint(polys, digests, points[0], sha256.New(), srs.Pk, data...)
					hpr := s.out(&pr) // (before the verifier and the folder see the proof: they must leave it alone)
					ver := s.again(func() string {
						return c18Err(kzg.BatchVerifySinglePoint(digests, &pr, points[0], sha256.New(), srs.Vk, data...))
					})
					fpr, fd, err2 := kzg.FoldProof(digests, &pr, points[0], sha256.New(), data...)
					return hpr + c18Mark(deepHash(&pr) == hpr, "verifier-changed-proof") + c18Err(err) + ver + s.out(&fpr) + s.out(&fd) + c18Err(err2)
				}
			}
			return s
		}
	}
	reg("kzgverify", mkKzg(0))
	reg("kzgbatchverify", mkKzg(1))
	reg("kzgopen", mkKzg(2))
	reg("kzgcommit", mkKzg(3))
	reg("kzgbatchopen", mkKzg(4))

	// ---- multi-exponentiation on shared point / scalar slices -----------------------------------------------------
	reg("multiexp", func(r *rng, shape int) *c18Sess {
		n := c18Pick(shape, 1, 2, 513, func() int {
			if r.intn(3) == 0 {
				return 100 + r.intn(300)
			}
			return 1 + r.intn(40)
		})
		if c18Par(shape) { // the recursive split of the msm; even sub-shapes: more than 4096 points, i.e. window sizes
			// c >= 10 (chunk statistics computed by parallel.Execute, batch-affine buckets, overweight chunks split in two)
			n = 700 + 150*(shape&3) + r.intn(100)
			if shape&1 == 0 {
				n = 4200 + r.intn(300)
			}
		}
		points, scalars := wG1(r, n), wfrs(r, n)
		n2 := n
		if n2 > 24 {
			n2 = 24
		}
		points2 := wG2(r, n2)
		cfg := ecc.MultiExpConfig{NbTasks: []int{0, 1, 2, 3, 5, 16}[r.intn(6)]}
		if c18Par(shape) {
			cfg.NbTasks = []int{0, 0, 16, 5, 32, 3}[r.intn(6)]
		}
		s := &c18Sess{args: []c18Arg{{"points", &points}, {"scalars", &scalars}, {"pointsG2", &points2}}}
		s.call = func() string {
			var a curve.G1Affine
			_, err := a.MultiExp(points, scalars, cfg)
			var j curve.G1Jac
			_, err1 := j.MultiExp(points, scalars, cfg)
			var ja curve.G1Affine
			ja.FromJacobian(&j)
			var b curve.G2Affine
			_, err2 := b.MultiExp(points2, scalars[:n2], cfg)
			return s.out(&a) + s.out(&ja) + s.out(&b) + c18Err(err) + c18Err(err1) + c18Err(err2)
		}
		return s
	})

	// ---- FFT / FFTInverse on a shared Domain ----------------------------------------------------------------------
	reg("fft", func(r *rng, shape int) *c18Sess {
		// shapes: 0, 1 = domains of size 1 and 2; 2, 3, 4 = ONE large domain (2^10..2^12; precomputed / shifted / without
		// precomputation) for many concurrent callers; otherwise sizes 4..1024, any kind
		n := c18Pick(shape, 1, 2, 1024, func() int { return 4 << r.intn(9) })
		kind := r.intn(3)
		if shape >= 2 && shape <= 4 {
			n = 1024 << (r.intn(5) / 2 * r.intn(2)) // 2^10 mostly, 2^11, 2^12
			kind = []int{0, 2, 1}[shape-2]
		}
		if c18Par(shape) { // BuildExpTable goes parallel for tables of >= 1409 entries (16 CPUs); butterflies for m > 16
			n = 2048 << (shape & 1)
			kind = (shape >> 1) % 3
		}
		shift := rfr(r)
		var d *fft.Domain
		switch kind {
		case 0:
			d = fft.NewDomain(uint64(n))
		case 1:
			d = fft.NewDomain(uint64(n), fft.WithoutPrecompute())
		default:
			d = fft.NewDomain(uint64(n), fft.WithShift(shift))
		}
		a := wfrs(r, n)
		nbTasks := 1 + r.intn(8)
		if c18Par(shape) {
			nbTasks = []int{0, 16, 4, 0}[r.intn(4)] // 0 = the default (NumCPU)
		}
		if shape >= 2 && shape <= 4 && r.coin() {
			nbTasks = 1
		}
		// every transform x decimation x coset combination on the SAME domain; concurrent callers start at different
		// combinations so that different code paths of the shared domain overlap in time
		one := func(j int) string {
			b := c18Clone(a)
			dec := fft.DIF
			if j&1 == 1 {
				dec = fft.DIT
			}
			var opts []fft.Option
			if nbTasks > 0 {
				opts = append(opts, fft.WithNbTasks(nbTasks))
			}
			if j&2 != 0 {
				opts = append(opts, fft.OnCoset())
			}
			if j&4 == 0 {
				d.FFT(b, dec, opts...)
			} else {
				d.FFTInverse(b, dec, opts...)
			}
			return deepHash(&b)
		}
		var turn atomic.Uint64
		var s *c18Sess
		run := func(rot int) string {
			var res [8]string
			for j := 0; j < 8; j++ {
				k := (j*5 + rot) % 8
				res[k] = one(k)
			}
			out := ""
			for _, x := range res {
				out += x
			}
			// round trips and the exported tables of the domain
			b := c18Clone(a)
			rt := []fft.Option{fft.OnCoset()}
			if nbTasks > 0 {
				rt = append(rt, fft.WithNbTasks(nbTasks))
			}
			d.FFT(b, fft.DIF, rt...)
			d.FFTInverse(b, fft.DIT, rt...)
			ct, err := d.CosetTable()
			cti, err1 := d.CosetTableInv()
			// (the coset tables are handed out by the shared domain: retained, compared again after the later transforms)
			out += boolStr(deepHash(&b) == deepHash(&a)) + s.out(&ct) + c18Err(err) + s.out(&cti) + c18Err(err1)
			if c18Par(shape) {
				// the constructor and the exported table builder are entry points too: same arguments, same tables
				var d2 *fft.Domain
				switch kind {
				case 0:
					d2 = fft.NewDomain(uint64(n))
				case 1:
					d2 = fft.NewDomain(uint64(n), fft.WithoutPrecompute())
				default:
					d2 = fft.NewDomain(uint64(n), fft.WithShift(shift))
				}
				tbl := make([]fr.Element, n-n/8+3)
				fft.BuildExpTable(shift, tbl)
				out += s.out(d2) + s.out(&tbl)
			}
			return out
		}
		s = &c18Sess{args: []c18Arg{{"domain", d}, {"a", &a}, {"shift", &shift}}}
		s.call = func() string { return run(0) }
		s.concCall = func() string { return run(int(turn.Add(1) * 3)) }
		return s
	})

	// ---- hashers from the registry --------------------------------------------------------------------------------
	reg("mimc", c18HashMaker(ghash.MIMC_BLS24_317, fr.Bytes, frBytes, true))
	reg("poseidon2", c18HashMaker(ghash.POSEIDON2_BLS24_317, fr.Bytes, frBytes, false))
	reg("mdhasher", c18MDMaker(func() ghash.Compressor { return poseidon2.NewPermutation(2, 6, 50) }, fr.Bytes, frBytes))

	// ---- batch group operations -----------------------------------------------------------------------------------
	reg("batchscalarmul", func(r *rng, shape int) *c18Sess {
		n := c18Pick(shape, 1, 2, 300, func() int { return 1 + r.intn(120) })
		if c18Par(shape) { // several scalars per worker of parallel.Execute
			n = 200 + 50*(shape&3) + r.intn(50)
		}
		base, base2 := rG1(r, 1)[0], rG2(r, 1)[0]
		scalars := wfrs(r, n)
		if r.intn(3) == 0 || shape == 1 {
			scalars[r.intn(n)].SetZero()
		}
		n2 := n
		if n2 > 16 {
			n2 = 16
			if c18Par(shape) {
				n2 = 48
			}
		}
		s := &c18Sess{args: []c18Arg{{"base", &base}, {"baseG2", &base2}, {"scalars", &scalars}}}
		s.call = func() string {
			a := curve.BatchScalarMultiplicationG1(&base, scalars)
			b := curve.BatchScalarMultiplicationG2(&base2, scalars[:n2])
			return s.out(&a) + s.out(&b)
		}
		return s
	})
	reg("batchjactoaff", func(r *rng, shape int) *c18Sess {
		n := c18Pick(shape, 1, 2, 1025, func() int { return 1 + r.intn(200) })
		if c18Par(shape) {
			n = 1000 + 300*(shape&3) + r.intn(300)
		}
		aff := rG1(r, n)
		points := c18Win(r, make([]curve.G1Jac, n))
		for i := range points {
			points[i].FromAffine(&aff[i])
			var z, z2, z3 fp.Element
			z.SetBigInt(r.bigBits(fp.Bits + 64))
			if z.IsZero() {
				z.SetOne()
			}
			z2.Square(&z)
			z3.Mul(&z2, &z)
			points[i].X.Mul(&points[i].X, &z2)
			points[i].Y.Mul(&points[i].Y, &z3)
			points[i].Z.Mul(&points[i].Z, &z)
		}
		if r.intn(3) == 0 || shape == 1 {
			points[r.intn(n)].Z.SetZero() // infinity
		}
		s := &c18Sess{args: []c18Arg{{"points", &points}}}
		s.call = func() string { a := curve.BatchJacobianToAffineG1(points); return s.out(&a) }
		return s
	})

	// ---- iop.Polynomial conversions on clones of a shared polynomial ----------------------------------------------
	reg("iop", func(r *rng, shape int) *c18Sess {
		n := c18Pick(shape, 1, 2, 512, func() int { return 4 << r.intn(6) })
		if c18Par(shape) {
			n = 1024 << (shape & 1)
		}
		d := fft.NewDomain(uint64(n))
		coeffs := wfrs(r, n)
		P := iop.NewPolynomial(&coeffs, iop.Form{Basis: iop.Canonical, Layout: iop.Regular})
		x := rfr(r)
		nbTasks := 1 + r.intn(4)
		s := &c18Sess{args: []c18Arg{{"p", P}, {"domain", d}, {"x", &x}}}
		s.call = func() string {
			q := P.Clone()
			if c18Par(shape) { // the default number of tasks (NumCPU)
				q.ToLagrange(d).ToRegular()
			} else {
				q.ToLagrange(d, nbTasks).ToRegular()
			}
			h1 := deepHash(q)
			if c18Par(shape) {
				q.ToCanonical(d).ToRegular()
			} else {
				q.ToCanonical(d, nbTasks).ToRegular()
			}
			h2 := deepHash(q)
			q2 := P.Clone()
			if n > 1 { // (on a domain of size 1 ToLagrangeCoset reads cosetTable[1]: index out of range, reported under C20)
				q2.ToLagrangeCoset(d)
			}
			h3 := s.out(q2)
			q3 := P.Clone().ToBitReverse()
			v, v3 := P.Evaluate(x), q3.Evaluate(x)
			// (clones handed out by the shared polynomial: q2, q3 and a plain clone are retained)
			return h1 + h2 + h3 + s.out(q3) + s.out(P.Clone()) + s.out(&v) + s.out(&v3)
		}
		return s
	})

	// ---- fr.Vector operations with a fresh destination ------------------------------------------------------------
	reg("vector", func(r *rng, shape int) *c18Sess {
		n := c18Pick(shape, 1, 0, 2, func() int { return 1 + r.intn(70) })
		if c18Par(shape) { // AsyncReadFrom converts the elements on NumCPU goroutines
			n = 4000 + 1000*(shape&3) + r.intn(1000) // (long enough for the workers to overlap in time)
		}
		a, b, c := fr.Vector(wfrs(r, n)), fr.Vector(wfrs(r, n)), rfr(r)
		s := &c18Sess{args: []c18Arg{{"a", &a}, {"b", &b}, {"c", &c}}}
		s.call = func() string {
			m := n
			if c18Par(shape) { // (the element-wise operations have no parallel path: a prefix is enough)
				m = 100
			}
			res := make(fr.Vector, m)
			out := ""
			res.Add(a[:m], b[:m])
			out += deepHash(&res)
			res.Sub(a[:m], b[:m])
			out += deepHash(&res)
			res.Mul(a[:m], b[:m])
			out += deepHash(&res)
			res.ScalarMul(a[:m], &c)
			out += deepHash(&res)
			sum, ip := a.Sum(), a.InnerProduct(b)
			// serialisation round trips (ReadFrom / AsyncReadFrom fill a fresh vector)
			var buf bytes.Buffer
			_, err := a.WriteTo(&buf)
			enc := buf.Bytes()
			var a2, a3 fr.Vector
			_, err1 := a2.ReadFrom(bytes.NewReader(enc))
			_, err2, ch := a3.AsyncReadFrom(bytes.NewReader(enc))
			err3 := <-ch
			out += s.out(&enc) + c18Err(err) + s.out(&a2) + c18Err(err1) + s.out(&a3) + c18Err(err2) + c18Err(err3)
			return out + s.out(&sum) + s.out(&ip)
		}
		return s
	})

	// ---- Encoder / Decoder ----------------------------------------------------------------------------------------
	reg("codec", func(r *rng, shape int) *c18Sess {
		n := c18Pick(shape, 1, 2, 100, func() int { return 1 + r.intn(40) })
		if c18Par(shape) { // the decoder decompresses slices of points with parallel.Execute
			n = 150 + 50*(shape&3) + r.intn(50)
		}
		ps, qs, es := wG1(r, n), wG2(r, c18Pick(shape, 1, 1, 2, func() int { return 1 + r.intn(4) })), wfrs(r, n)
		raw := r.coin()
		encode := func() []byte {
			var buf bytes.Buffer
			var enc *curve.Encoder
			if raw {
				enc = curve.NewEncoder(&buf, curve.RawEncoding())
			} else {
				enc = curve.NewEncoder(&buf)
			}
			for _, v := range []any{ps, qs, es, &ps[0], &qs[0], &es[0]} {
				if err := enc.Encode(v); err != nil {
					panic(err)
				}
			}
			return buf.Bytes()
		}
		data := c18Win(r, encode())
		s := &c18Sess{args: []c18Arg{{"g1", &ps}, {"g2", &qs}, {"fr", &es}, {"data", &data}}}
		s.call = func() string {
			b := encode()
			hb := sha256.Sum256(b)
			dec := curve.NewDecoder(bytes.NewReader(data))
			var ps2 []curve.G1Affine
			var qs2 []curve.G2Affine
			var es2 []fr.Element
			var p curve.G1Affine
			var q curve.G2Affine
			var e fr.Element
			out := hex.EncodeToString(hb[:8])
			for _, v := range []any{&ps2, &qs2, &es2, &p, &q, &e} {
				out += c18Err(dec.Decode(v))
			}
			return out + s.out(&ps2) + s.out(&qs2) + s.out(&es2) + s.out(&p) + s.out(&q) + s.out(&e)
		}
		return s
	})

	// ---- lazily initialised twisted Edwards parameters --------------------------------------------------------------
	reg("edwards", func(r *rng, shape int) *c18Sess {
		s := &c18Sess{concFirst: true}
		s.call = func() string {
			p := twistededwards.GetEdwardsCurve()
			res := deepHash(&p)
			// the caller owns the returned copy: scribble on it, later calls must be unaffected
			p.A.SetZero()
			p.D.SetOne()
			p.Cofactor.SetZero()
			p.Base.X.SetOne()
			bits := p.Order.Bits()
			for i := range bits {
				bits[i] = 0
			}
			p.Order.SetBits(bits)
			p.Order.Add(&p.Order, big.NewInt(7))
			return res
		}
		return s
	})

	// ---- polynomial.Pool shared by callers ------------------------------------------------------------------------
	reg("polypool", func(r *rng, shape int) *c18Sess {
		nv := c18Pick(shape, 1, 2, 8, func() int { return 2 + r.intn(5) })
		m := polynomial.MultiLin(wfrs(r, 1<<nv))
		coords := wfrs(r, nv)
		pool := polynomial.NewPool(1<<nv, 1<<(nv+2))
		s := &c18Sess{args: []c18Arg{{"m", &m}, {"coordinates", &coords}}}
		s.call = func() string {
			v := m.Evaluate(coords, &pool)
			// a pooled slice that the user fully overwrites before reading
			sc := pool.Make(1 << nv)
			var sum fr.Element
			for i := range sc {
				sc[i].Add(&m[i], &coords[i%nv])
			}
			for i := range sc {
				sum.Add(&sum, &sc[i])
			}
			for i := range sc {
				sc[i].SetUint64(0xdeadbeef) // what a later Get may see
			}
			pool.Dump(sc)
			cl := pool.Clone(m)
			h := deepHash(&cl)
			pool.Dump(cl)
			return deepHash(&v) + deepHash(&sum) + h
		}
		return s
	})

	// ---- argument systems: provers and builders ---------------------------------------------------------------------
	// Every input (tables, witnesses, polynomials, digests, points, keys) is snapshotted. The vectors come in ARBITRARY
	// order (or decreasing / increasing / with repeated values), in sizes that are exactly a power of two ("nothing to
	// pad") as well as sizes that are not.
	newSRS := func(r *rng, size int) *kzg.SRS {
		if size < 2 {
			size = 2
		}
		srs, err := kzg.NewSRS(ecc.NextPowerOfTwo(uint64(size)), r.bigBits(200))
		if err != nil {
			panic(err)
		}
		return srs
	}
	rvec := func(r *rng, n, kind int) fr.Vector {
		v := fr.Vector(wfrs(r, n))
		switch kind {
		case 1: // decreasing
			sort.Sort(v)
			for i, j := 0, n-1; i < j; i, j = i+1, j-1 {
				v[i], v[j] = v[j], v[i]
			}
		case 2: // increasing
			sort.Sort(v)
		case 3: // repeated values
			for i := range v {
				if r.coin() {
					v[i] = v[r.intn(n)]
				}
			}
		}
		return v
	}
	// sizes (table, witness) of a lookup: 0, 1 = the two smallest tables that fill their domain exactly; 2 = a large
	// such table; 3 = a table that is padded; 4 = a witness at least as long as the table (the domain follows the witness)
	lookupSizes := func(r *rng, shape int) (nt, nf int) {
		switch {
		case shape == 0:
			return 2, 1
		case shape == 1:
			return 4, 3
		case shape == 2:
			return 16, 9
		case shape == 3:
			return 12, 5
		case shape == 4:
			return 8, 8
		case c18Par(shape):
			return 128, 50 + r.intn(70)
		}
		if r.coin() { // a power of two, witness shorter: nothing to pad
			nt = 4 << r.intn(3)
			return nt, 1 + r.intn(nt-1)
		}
		return 3 + r.intn(14), 1 + r.intn(17)
	}
	reg("plookupvec", func(r *rng, shape int) *c18Sess {
		nt, nf := lookupSizes(r, shape)
		t := rvec(r, nt, []int{0, 0, 0, 1, 3, 2}[r.intn(6)])
		f := c18Win(r, make(fr.Vector, nf))
		for i := range f {
			f[i] = t[r.intn(nt)]
		}
		if shape > 4 && r.intn(5) == 0 { // a witness outside the table: the rejected proof must be repeatable too
			f[r.intn(nf)] = rfr(r)
		}
		dom := nt
		if nt <= nf {
			dom = nf + 1
		}
		srs := newSRS(r, 4*int(ecc.NextPowerOfTwo(uint64(dom))))
		s := &c18Sess{args: []c18Arg{{"f", &f}, {"t", &t}, {"srs", srs}}}
		s.call = func() string {
			proof, err := plookup.ProveLookupVector(srs.Pk, f, t)
			hp := s.out(&proof) // (before the verifier sees the proof: it must leave it alone)
			ver := s.again(func() string { return c18Err(plookup.VerifyLookupVector(srs.Vk, proof)) })
			return hp + c18Mark(deepHash(&proof) == hp, "verifier-changed-proof") + c18Err(err) + ver
		}
		return s
	})
	reg("plookuptab", func(r *rng, shape int) *c18Sess {
		nt, nf := lookupSizes(r, shape)
		if c18Par(shape) {
			nt, nf = 64, 20+r.intn(40)
		}
		rows := c18Pick(shape, 1, 2, 3, func() int { return 1 + r.intn(3) })
		t := make([]fr.Vector, rows)
		for i := range t {
			t[i] = rvec(r, nt, []int{0, 0, 1, 3}[r.intn(4)])
		}
		f := make([]fr.Vector, rows)
		for i := range f {
			f[i] = c18Win(r, make(fr.Vector, nf))
		}
		f, t = c18Win(r, f), c18Win(r, t)
		for j := 0; j < nf; j++ {
			k := r.intn(nt)
			for i := range f {
				f[i][j] = t[i][k]
			}
		}
		dom := nt
		if nt <= nf {
			dom = nf + 1
		}
		srs := newSRS(r, 4*int(ecc.NextPowerOfTwo(uint64(dom))))
		s := &c18Sess{args: []c18Arg{{"f", &f}, {"t", &t}, {"srs", srs}}}
		s.call = func() string {
			proof, err := plookup.ProveLookupTables(srs.Pk, f, t)
			hp := s.out(&proof)
			ver := s.again(func() string { return c18Err(plookup.VerifyLookupTables(srs.Vk, proof)) })
			return hp + c18Mark(deepHash(&proof) == hp, "verifier-changed-proof") + c18Err(err) + ver
		}
		return s
	})
	reg("permutation", func(r *rng, shape int) *c18Sess {
		n := c18Pick(shape, 2, 4, 32, func() int { return 2 << r.intn(5) })
		if c18Par(shape) {
			n = 128
		}
		t1 := rvec(r, n, []int{0, 0, 1, 3, 2}[r.intn(5)])
		t2 := c18Win(r, make(fr.Vector, n))
		for i, j := range c18Perm(r, n) {
			t2[i] = t1[j]
		}
		if shape > 2 && r.intn(5) == 0 {
			t2[r.intn(n)] = rfr(r) // not a permutation
		}
		srs := newSRS(r, 4*n)
		s := &c18Sess{args: []c18Arg{{"t1", &t1}, {"t2", &t2}, {"srs", srs}}}
		s.call = func() string {
			proof, err := permutation.Prove(srs.Pk, t1, t2)
			hp := s.out(&proof)
			ver := s.again(func() string { return c18Err(permutation.Verify(srs.Vk, proof)) })
			return hp + c18Mark(deepHash(&proof) == hp, "verifier-changed-proof") + c18Err(err) + ver
		}
		return s
	})
	reg("fri", func(r *rng, shape int) *c18Sess {
		n := c18Pick(shape, 2, 4, 64, func() int { return 2 << r.intn(6) })
		if c18Par(shape) { // the evaluation domain has rho x n points
			n = 256 << (shape & 1)
		}
		p := wfrs(r, n)
		pos := uint64(r.intn(n))
		pos2 := uint64(r.intn(n))
		s := &c18Sess{args: []c18Arg{{"p", &p}}}
		// the Iopp owns a (stateful) hash: every call takes its own, the polynomial is the shared object
		s.call = func() string {
			iopp := fri.RADIX_2_FRI.New(uint64(n), sha256.New())
			pp, err := iopp.BuildProofOfProximity(p)
			op, err1 := iopp.Open(p, pos)
			hp := s.out(&pp) + s.out(&op)
			ver := s.again(func() string {
				return c18Err(iopp.VerifyProofOfProximity(pp)) + c18Err(iopp.VerifyOpening(pos, op, pp))
			})
			hp1 := deepHash(&pp) + deepHash(&op)
			// the SAME Iopp builds and opens again (same polynomial, another position): the proofs handed out first stay
			pp2, err4 := iopp.BuildProofOfProximity(p)
			op2, err5 := iopp.Open(p, pos2)
			ver2 := s.again(func() string {
				return c18Err(iopp.VerifyProofOfProximity(pp2)) + c18Err(iopp.VerifyOpening(pos2, op2, pp2))
			})
			return hp + c18Mark(hp1 == hp, "verifier-changed-proof") + c18Mark(deepHash(&pp)+deepHash(&op) == hp, "second-proof-changed-first") +
				c18Err(err) + c18Err(err1) + ver + s.out(&pp2) + s.out(&op2) + c18Err(err4) + c18Err(err5) + ver2
		}
		return s
	})
	reg("shplonk", func(r *rng, shape int) *c18Sess {
		nb := c18Pick(shape, 1, 2, 4, func() int { return 1 + r.intn(3) })
		maxSize := c18Pick(shape, 2, 1, 16, func() int { return 2 + r.intn(10) })
		if c18Par(shape) {
			nb, maxSize = 3, 128
		}
		polys := make([][]fr.Element, nb)
		points := make([][]fr.Element, nb)
		digests := make([]kzg.Digest, nb)
		total := 0
		for i := range polys {
			polys[i] = wfrs(r, 1+r.intn(maxSize))
			if shape <= 2 || c18Par(shape) {
				polys[i] = wfrs(r, maxSize)
			}
			points[i] = rvec(r, c18Pick(shape, 1, 2, 3, func() int { return 1 + r.intn(3) }), []int{0, 1}[r.intn(2)])
			total += len(points[i])
		}
		srs := newSRS(r, maxSize+total+4)
		for i := range polys {
			digests[i], _ = kzg.Commit(polys[i], srs.Pk)
		}
		data := [][]byte{frBytes(r)}
		if r.coin() {
			data = nil
		}
		polys, digests, points, data = c18Win(r, polys), c18Win(r, digests), c18Win(r, points), c18Win2(r, data)
		s := &c18Sess{args: []c18Arg{{"polynomials", &polys}, {"digests", &digests}, {"points", &points}, {"srs", srs}, {"dataTranscript", &data}}}
		s.call = func() string {
			proof, err := shplonk.BatchOpen(polys, digests, points, sha256.New(), srs.Pk, data...)
			hp := s.out(&proof)
			ver := s.again(func() string {
				return c18Err(shplonk.BatchVerify(proof, digests, points, sha256.New(), srs.Vk, data...))
			})
			return hp + c18Mark(deepHash(&proof) == hp, "verifier-changed-proof") + c18Err(err) + ver
		}
		return s
	})
	reg("fflonk", func(r *rng, shape int) *c18Sess {
		nbSets := c18Pick(shape, 1, 2, 3, func() int { return 1 + r.intn(3) })
		p := make([][][]fr.Element, nbSets)
		points := make([][]fr.Element, nbSets)
		maxFolded, total := 0, 0
		for i := range p {
			p[i] = make([][]fr.Element, c18Pick(shape, 1, 2, 4, func() int { return 1 + r.intn(5) }))
			m := 0
			for j := range p[i] {
				p[i][j] = wfrs(r, c18Pick(shape, 2, 1, 8, func() int { return 1 + r.intn(10) }))
				if c18Par(shape) {
					p[i][j] = wfrs(r, 40+r.intn(8))
				}
				if len(p[i][j]) > m {
					m = len(p[i][j])
				}
			}
			if f := m * int(ecc.NextPowerOfTwo(uint64(len(p[i])))); f > maxFolded {
				maxFolded = f
			}
			points[i] = rvec(r, c18Pick(shape, 1, 2, 2, func() int { return 1 + r.intn(3) }), 0)
			total += len(points[i]) * int(ecc.NextPowerOfTwo(uint64(len(p[i]))))
		}
		srs := newSRS(r, maxFolded+total+4)
		digests := make([]kzg.Digest, nbSets)
		for i := range p {
			digests[i], _ = fflonk.FoldAndCommit(p[i], srs.Pk)
		}
		data := [][]byte{frBytes(r)}
		if r.coin() {
			data = nil
		}
		for i := range p {
			p[i] = c18Win(r, p[i])
		}
		p, digests, points, data = c18Win(r, p), c18Win(r, digests), c18Win(r, points), c18Win2(r, data)
		s := &c18Sess{args: []c18Arg{{"p", &p}, {"digests", &digests}, {"points", &points}, {"srs", srs}, {"dataTranscript", &data}}}
		s.call = func() string {
			fo := fflonk.Fold(p[0])
			d0, err0 := fflonk.FoldAndCommit(p[nbSets-1], srs.Pk)
			proof, err := fflonk.BatchOpen(p, digests, points, sha256.New(), srs.Pk, data...)
			hp := s.out(&proof)
			ver := s.again(func() string {
				return c18Err(fflonk.BatchVerify(proof, digests, points, sha256.New(), srs.Vk, data...))
			})
			return s.out(&fo) + s.out(&d0) + c18Err(err0) + hp + c18Mark(deepHash(&proof) == hp, "verifier-changed-proof") + c18Err(err) + ver
		}
		return s
	})
	reg("pedersen", func(r *rng, shape int) *c18Sess {
		// keys built by hand from the seed (Setup draws sigma from crypto/rand): Basis, sigma·Basis, G, -sigma·G
		nb := c18Pick(shape, 1, 2, 3, func() int { return 1 + r.intn(3) })
		var sigma, sigmaNeg big.Int
		e := rfr(r)
		e.BigInt(&sigma)
		sigmaNeg.Neg(&sigma)
		var vk pedersen.VerifyingKey
		vk.G = rG2(r, 1)[0]
		vk.GSigmaNeg.ScalarMultiplication(&vk.G, &sigmaNeg)
		pks := make([]pedersen.ProvingKey, nb)
		values := make([][]fr.Element, nb)
		bases := make([][]curve.G1Affine, nb)
		for i := range pks {
			n := c18Pick(shape, 1, 2, 8, func() int { return 1 + r.intn(6) })
			if c18Par(shape) {
				n = 40 + r.intn(20)
			}
			bases[i] = wG1(r, n)
			pks[i].Basis = c18Clone(bases[i])
			pks[i].BasisExpSigma = make([]curve.G1Affine, n)
			for j := range bases[i] {
				pks[i].BasisExpSigma[j].ScalarMultiplication(&bases[i][j], &sigma)
			}
			values[i] = wfrs(r, n)
		}
		pks, values, bases = c18Win(r, pks), c18Win(r, values), c18Win(r, bases)
		coeff := rfr(r)
		// a key over OTHER bases with the lengths of key 0 (what a key file written elsewhere decodes to)
		other := pedersen.ProvingKey{Basis: rG1(r, len(bases[0])), BasisExpSigma: rG1(r, len(bases[0]))}
		vks := make([]pedersen.VerifyingKey, nb)
		for i := range vks {
			vks[i] = vk
		}
		s := &c18Sess{args: []c18Arg{{"pk", &pks}, {"vk", &vk}, {"vks", &vks}, {"values", &values}, {"combinationCoeff", &coeff}, {"bases", &bases}, {"other", &other}}}
		s.call = func() string {
			out := ""
			coms := make([]curve.G1Affine, nb)
			poks := make([]curve.G1Affine, nb)
			for i := range pks {
				var err, err1 error
				coms[i], err = pks[i].Commit(values[i])
				poks[i], err1 = pks[i].ProveKnowledge(values[i])
				out += s.out(&coms[i]) + c18Err(err) + s.out(&poks[i]) + c18Err(err1)
			}
			out += c18Err(vk.Verify(coms[nb-1], poks[nb-1]))
			bp, err := pedersen.BatchProve(pks, values, coeff)
			var err1 error
			if nb&1 == 1 {
				err1 = pedersen.BatchVerifyMultiVk(vks, coms, poks, coeff)
			} else {
				err1 = pedersen.BatchVerifyMultiVk(vks, coms, []curve.G1Affine{bp}, coeff)
			}
			out += s.out(&bp) + c18Err(err) + c18Err(err1)
			// Setup is randomised: only its consistency and the purity of `bases` are observed
			spk, svk, err3 := pedersen.Setup(bases, pedersen.WithG2Point(vk.G))
			ok := err3 == nil && len(spk) == nb && svk.G == vk.G
			if ok {
				c, e1 := spk[0].Commit(values[0])
				ok = e1 == nil && c == coms[0]
			}
			// ARGUMENTS OF AN EARLIER CALL: the key returned by Setup is now the documented DESTINATION of ReadFrom (it
			// decodes another key of the same shape); `bases`, the argument of the earlier Setup call, is not
			if err3 == nil && len(spk) == nb {
				var buf bytes.Buffer
				_, e2 := other.WriteTo(&buf)
				_, e3 := spk[0].ReadFrom(&buf)
				out += c18Err(e2) + c18Err(e3) + s.out(&spk[0])
			}
			return out + boolStr(ok)
		}
		return s
	})
	reg("iopratio", func(r *rng, shape int) *c18Sess {
		// the builders convert their inputs to Lagrange form in place when they are not (documented); inputs already in
		// Lagrange form (regular or bit reversed layout) are read only
		n := c18Pick(shape, 2, 4, 64, func() int { return 4 << r.intn(5) })
		if c18Par(shape) { // BuildRatioCopyConstraint splits the work above n = 116, every other builder per NumCPU
			n = 1024 << (shape & 1)
		}
		m := c18Pick(shape, 1, 2, 3, func() int { return 1 + r.intn(3) })
		d := fft.NewDomain(uint64(n))
		mkPoly := func(v []fr.Element, bitrev bool) *iop.Polynomial {
			if bitrev {
				fft.BitReverse(v)
				return iop.NewPolynomial(&v, iop.Form{Basis: iop.Lagrange, Layout: iop.BitReverse})
			}
			return iop.NewPolynomial(&v, iop.Form{Basis: iop.Lagrange, Layout: iop.Regular})
		}
		num := make([]*iop.Polynomial, m)
		den := make([]*iop.Polynomial, m)
		bitrev := shape > 2 && r.coin()
		all := wfrs(r, n*m)
		for i := range num {
			num[i] = mkPoly(c18Clone(all[i*n:(i+1)*n]), bitrev)
		}
		perm := c18Perm(r, n*m)
		sigma := make([]int64, n*m)
		for i := range den {
			v := make([]fr.Element, n)
			for j := range v {
				v[j] = all[perm[i*n+j]]
				sigma[i*n+j] = int64(perm[i*n+j])
			}
			den[i] = mkPoly(v, bitrev)
		}
		beta, gamma := rfr(r), rfr(r)
		form := iop.Form{Basis: []iop.Basis{iop.Lagrange, iop.Canonical}[r.intn(2)], Layout: []iop.Layout{iop.Regular, iop.BitReverse}[r.intn(2)]}
		// a quotient: h = f(entries) on the coset of the big domain, divided by X^n - 1
		f := func(_ int, x ...fr.Element) fr.Element {
			var a fr.Element
			a.Square(&x[0]).Mul(&a, &x[len(x)-1]).Add(&a, &x[0])
			return a
		}
		domains := [2]*fft.Domain{d, fft.NewDomain(uint64(4 * n))}
		ents := make([]*iop.Polynomial, m)
		for i := range ents {
			ents[i] = num[i].Clone()
			ents[i].ToCanonical(domains[0]).ToRegular().ToLagrangeCoset(domains[1]).ToRegular()
		}
		h, err := iop.Evaluate(f, nil, iop.Form{Layout: iop.BitReverse, Basis: iop.LagrangeCoset}, ents...)
		if err != nil {
			panic(err)
		}
		s := &c18Sess{args: []c18Arg{{"numerator", &num}, {"denominator", &den}, {"permutation", &sigma}, {"beta", &beta}, {"gamma", &gamma},
			{"domain", d}, {"domains", &domains}, {"x", &ents}, {"a", h}}}
		s.call = func() string {
			z1, err1 := iop.BuildRatioShuffledVectors(num, den, beta, form, d)
			z2, err2 := iop.BuildRatioCopyConstraint(num, sigma, beta, gamma, form, d)
			h2, err3 := iop.Evaluate(f, nil, iop.Form{Layout: iop.BitReverse, Basis: iop.LagrangeCoset}, ents...)
			q, err4 := iop.DivideByXMinusOne(h, domains)
			return s.out(z1) + c18Err(err1) + s.out(z2) + c18Err(err2) + s.out(h2) + c18Err(err3) + s.out(q) + c18Err(err4)
		}
		return s
	})
	reg("kzglagrange", func(r *rng, shape int) *c18Sess {
		// ToLagrangeG1: its butterflies go parallel for m >= 8. NewSRS: same (size, alpha) -> same SRS
		size := c18Pick(shape, 2, 4, 32, func() int { return 2 << r.intn(5) })
		if c18Par(shape) {
			size = 64
		}
		alpha := r.bigBits(200)
		if shape > 2 && r.intn(4) == 0 {
			alpha = big.NewInt(-1) // the balanced SRS (filled by parallel.Execute)
			size = size * 8
		}
		srs, err := kzg.NewSRS(uint64(size), alpha)
		if err != nil {
			panic(err)
		}
		coeffs := c18Win(r, c18Clone(srs.Pk.G1))
		s := &c18Sess{args: []c18Arg{{"coeffs", &coeffs}, {"alpha", alpha}}}
		s.call = func() string {
			lag, err := kzg.ToLagrangeG1(coeffs)
			srs2, err1 := kzg.NewSRS(uint64(size), alpha)
			return s.out(&lag) + c18Err(err) + s.out(srs2) + c18Err(err1)
		}
		return s
	})
	reg("polynomial", func(r *rng, shape int) *c18Sess {
		n1 := c18Pick(shape, 1, 2, 40, func() int { return 1 + r.intn(20) })
		n2 := c18Pick(shape, 1, 1, 33, func() int { return 1 + r.intn(20) })
		p1, p2 := polynomial.Polynomial(wfrs(r, n1)), polynomial.Polynomial(wfrs(r, n2))
		c := rfr(r)
		nv := c18Pick(shape, 1, 2, 6, func() int { return 1 + r.intn(5) })
		if c18Par(shape) { // FoldParallel: blocks of the table folded by the workers of a shared utils.WorkerPool
			nv = 11 + shape&1
		}
		ml := polynomial.MultiLin(wfrs(r, 1<<nv))
		q, hh := wfrs(r, nv), wfrs(r, nv)
		vals := wfrs(r, c18Pick(shape, 1, 2, 9, func() int { return 1 + r.intn(9) }))
		s := &c18Sess{args: []c18Arg{{"p1", &p1}, {"p2", &p2}, {"c", &c}, {"m", &ml}, {"q", &q}, {"h", &hh}, {"v", &vals}}}
		s.call = func() string {
			var sum, dif, sc polynomial.Polynomial
			sum.Add(p1, p2)
			dif.Sub(p1, p2)
			sc.Scale(&c, p1)
			ev := p1.Eval(&c)
			cl := p1.Clone()
			cl.AddConstantInPlace(&c) // the clone is the caller's
			out := s.out(&sum) + s.out(&dif) + s.out(&sc) + s.out(&ev) + s.out(&cl) + boolStr(p1.Equal(p2)) + p1.Text(10)
			mc := ml.Clone()
			mc.Fold(c)
			mp := ml.Clone()
			task := mp.FoldParallel(c)
			c18WorkerPool().Submit(len(mp), task, 1+len(mp)/37).Wait()
			out += c18Mark(deepHash(&mp) == deepHash(&mc), "foldparallel-differs-from-fold")
			var eq polynomial.MultiLin = make([]fr.Element, 1<<nv)
			eq[0].SetOne()
			eq.Eq(q)
			msum, ee := ml.Sum(), polynomial.EvalEq(q, hh)
			ip := polynomial.InterpolateOnRange(vals)
			return out + s.out(&mc) + s.out(&eq) + s.out(&msum) + s.out(&ee) + s.out(&ip)
		}
		return s
	})

	// ---- exponentiations / scalar multiplications that SHARE one *big.Int --------------------------------------------
	// The scalar objects k, k2 are read-only arguments used by every caller at the same time: zero, small negative, huge
	// negative and random signed values. Besides the before/after snapshots an OBSERVER goroutine (c18Sess.watch) compares
	// the shared scalars with their copies while the callers run.
	reg("scalarexp", func(r *rng, shape int) *c18Sess {
		k, k2 := c18Scalar(r, shape, fr.Bits), c18Scalar(r, 3+r.intn(8), fr.Bits)
		P, Q := rG1(r, 2), rG2(r, 1)
		gt, err := curve.Pair(P[:1], Q)
		if err != nil {
			panic(err)
		}
		x := rfr(r)
		var y fp.Element
		y.SetBigInt(r.bigBits(fp.Bits + 64))
		var pj curve.G1Jac
		pj.FromAffine(&P[0])
		var qj curve.G2Jac
		qj.FromAffine(&Q[0])
		ed := twistededwards.GetEdwardsCurve()
		var ea twistededwards.PointAffine
		ea.ScalarMultiplication(&ed.Base, r.bigBits(100))
		var ep twistededwards.PointProj
		ep.FromAffine(&ea)
		var ee twistededwards.PointExtended
		ee.FromAffine(&ea)
		s := &c18Sess{args: []c18Arg{{"k", k}, {"k2", k2}, {"x", &gt}, {"P", &P}, {"Q", &Q}, {"pj", &pj}, {"qj", &qj}, {"fr", &x}, {"fp", &y},
			{"ea", &ea}, {"ep", &ep}, {"ee", &ee}}}
		s.watch = c18ScalarWatch(k, k2)
		sub := func(f func() string) string { return c18SafeCall(f) + "|" } // (a panic of one entry point does not hide the others)
		s.call = func() string {
			return sub(func() string { var z curve.GT; z.Exp(gt, k); return s.out(&z) }) +
				sub(func() string { var z curve.GT; z.ExpGLV(gt, k); return s.out(&z) }) +
				sub(func() string { var z curve.GT; z.CyclotomicExp(gt, k); return s.out(&z) }) +
				sub(func() string { var z curve.G1Jac; z.ScalarMultiplication(&pj, k); return s.out(&z) }) +
				sub(func() string { var z curve.G1Affine; z.ScalarMultiplication(&P[0], k); return s.out(&z) }) +
				sub(func() string { var z curve.G1Jac; z.ScalarMultiplicationBase(k); return s.out(&z) }) +
				sub(func() string { var z curve.G1Jac; z.JointScalarMultiplication(&P[0], &P[1], k, k2); return s.out(&z) }) +
				sub(func() string { var z curve.G1Jac; z.JointScalarMultiplicationBase(&P[1], k2, k); return s.out(&z) }) +
				sub(func() string { var z curve.G2Jac; z.ScalarMultiplication(&qj, k); return s.out(&z) }) +
				sub(func() string { var z curve.G2Affine; z.ScalarMultiplication(&Q[0], k); return s.out(&z) }) +
				sub(func() string { var z curve.G2Affine; z.ScalarMultiplicationBase(k); return s.out(&z) }) +
				sub(func() string { var z fr.Element; z.Exp(x, k); return s.out(&z) }) +
				sub(func() string { var z fp.Element; z.Exp(y, k); return s.out(&z) }) +
				sub(func() string { var z twistededwards.PointAffine; z.ScalarMultiplication(&ea, k); return s.out(&z) }) +
				sub(func() string { var z twistededwards.PointProj; z.ScalarMultiplication(&ep, k); return s.out(&z) }) +
				sub(func() string { var z twistededwards.PointExtended; z.ScalarMultiplication(&ee, k); return s.out(&z) })
		}
		return s
	})

	// ---- hashing to the fields and to the curve: msg and dst are WINDOWS of larger buffers -----------------------------
	reg("hashto", func(r *rng, shape int) *c18Sess {
		msg := c18Win(r, r.bytes(c18Pick(shape, 0, 1, 300, func() int { return r.intn(100) })))
		dst := c18Win(r, r.bytes(c18Pick(shape, 1, 16, 255, func() int { return 1 + r.intn(60) })))
		count := 1 + r.intn(3)
		s := &c18Sess{args: []c18Arg{{"msg", &msg}, {"dst", &dst}}}
		s.call = func() string {
			e1, err1 := fr.Hash(msg, dst, count)
			e2, err2 := fp.Hash(msg, dst, count)
			p1, err3 := curve.HashToG1(msg, dst)
			p2, err4 := curve.EncodeToG1(msg, dst)
			q1, err5 := curve.HashToG2(msg, dst)
			q2, err6 := curve.EncodeToG2(msg, dst)
			x, err7 := fhash.ExpandMsgXmd(msg, dst, 16*count+len(msg)%7)
			return s.out(&e1) + c18Err(err1) + s.out(&e2) + c18Err(err2) + s.out(&p1) + c18Err(err3) + s.out(&p2) + c18Err(err4) +
				s.out(&q1) + c18Err(err5) + s.out(&q2) + c18Err(err6) + s.out(&x) + c18Err(err7)
		}
		return s
	})
}

func c18FreshTable_bls24_317() map[string]c18FreshMaker {
	// ---- first use of a lazily initialised global, concurrently, in a fresh process (`C18 fresh …`) ----------------
	// The makers must NOT touch the global they are about (the child process calls them before the barrier), and this
	// function must not call the library at all: it runs during the initialisation of the package-level variables of
	// the harness (c18FreshEarly), before every init() function.
	t := map[string]c18FreshMaker{}
	regFresh := func(global string, mk c18FreshMaker) { t[global+"/bls24-317"] = mk }
	rfr := func(r *rng) (e fr.Element) { e.SetBigInt(r.bigBits(fr.Bits + 64)); return }
	rfrs := func(r *rng, n int) []fr.Element {
		s := make([]fr.Element, n)
		for i := range s {
			s[i] = rfr(r)
		}
		return s
	}
	frBytes := func(r *rng) []byte { e := rfr(r); b := e.Bytes(); return b[:] }
	regFresh("mimc", func(r *rng) []func() string {
		var msg []byte
		for i := 1 + r.intn(3); i > 0; i-- {
			msg = append(msg, frBytes(r)...)
		}
		return []func() string{
			func() string { h := ghash.MIMC_BLS24_317.New(); h.Write(msg); return hex.EncodeToString(h.Sum(nil)) },
			func() string { d, err := mimc.Sum(msg); return hex.EncodeToString(d) + c18Err(err) },
			func() string { h := mimc.NewMiMC(); h.Write(msg[:fr.Bytes]); return hex.EncodeToString(h.Sum(nil)) },
			func() string { c := mimc.GetConstants(); return deepHash(&c) },
		}
	})
	regFresh("poseidon2", func(r *rng) []func() string {
		var msg []byte
		for i := 1 + r.intn(3); i > 0; i-- {
			msg = append(msg, frBytes(r)...)
		}
		return []func() string{
			func() string {
				h := ghash.POSEIDON2_BLS24_317.New()
				h.Write(msg)
				return hex.EncodeToString(h.Sum(nil))
			},
			func() string { return deepHash(poseidon2.GetDefaultParameters()) },
			func() string {
				h := poseidon2.NewMerkleDamgardHasher()
				h.Write(msg)
				return hex.EncodeToString(h.Sum(nil))
			},
		}
	})
	regFresh("edwards", func(r *rng) []func() string {
		// arbitrary coordinates (a curve point cannot be made without the parameters): the formulas are total
		p1 := twistededwards.PointAffine{X: rfr(r), Y: rfr(r)}
		p2 := twistededwards.PointAffine{X: rfr(r), Y: rfr(r)}
		k := r.bigBits(90)
		yb := frBytes(r)
		return []func() string{
			func() string { p := twistededwards.GetEdwardsCurve(); return deepHash(&p) },
			func() string {
				var q twistededwards.PointAffine
				q.Add(&p1, &p2)
				return deepHash(&q) + boolStr(p1.IsOnCurve())
			},
			func() string {
				var q twistededwards.PointAffine
				q.ScalarMultiplication(&p1, k)
				return deepHash(&q)
			},
			func() string {
				var a, b twistededwards.PointExtended
				a.FromAffine(&p1)
				b.FromAffine(&p2)
				a.Add(&a, &b)
				b.ScalarMultiplication(&b, k)
				return deepHash(&a) + deepHash(&b)
			},
			func() string {
				var a, b twistededwards.PointProj
				a.FromAffine(&p1)
				b.FromAffine(&p2)
				a.Add(&a, &b)
				b.MixedAdd(&b, &p1)
				return deepHash(&a) + deepHash(&b)
			},
			func() string {
				var q twistededwards.PointAffine
				_, err := q.SetBytes(yb)
				return deepHash(&q) + c18Err(err) + boolStr(q.IsOnCurve())
			},
		}
	})
	regFresh("lagrange", func(r *rng) []func() string {
		mk := func(n int) func() string {
			v := rfrs(r, n)
			return func() string {
				p := polynomial.InterpolateOnRange(v)
				h := deepHash(&p)
				for i := range p { // the caller owns the result
					p[i].SetUint64(0xdead)
				}
				return h
			}
		}
		return []func() string{mk(5), mk(5), mk(2), mk(9), mk(1), mk(5)}
	})
	regFresh("bigintpool", func(r *rng) []func() string {
		x := rfr(r)
		var gt curve.GT
		c18FillFp(reflect.ValueOf(&gt).Elem(), reflect.TypeOf(fp.Element{}), func(v reflect.Value) {
			var e fp.Element
			e.SetBigInt(r.bigBits(fp.Bits + 64))
			v.Set(reflect.ValueOf(e))
		})
		k := r.bigBits(70)
		kneg := new(big.Int).Neg(k)
		return []func() string{
			func() string { var z curve.GT; z.Exp(gt, kneg); return deepHash(&z) },
			func() string { e := x; return e.Text(10) + e.String() },
			func() string { var z fr.Element; z.Exp(x, kneg); return deepHash(&z) },
			func() string { var z curve.GT; z.Exp(gt, k); return deepHash(&z) },
		}
	})
	return t
}
