package main

// C17a adapter, part 3 (permutation, plookup, mpcsetup). TEMPLATE, see c17a_gen.sh.

import (
	"bytes"
	"crypto/sha256"
	"encoding/binary"
	"math/big"
	"strconv"

	curve "github.com/consensys/gnark-crypto/ecc/bn254"
	"github.com/consensys/gnark-crypto/ecc/bn254/fr"
	"github.com/consensys/gnark-crypto/ecc/bn254/fr/fft"
	"github.com/consensys/gnark-crypto/ecc/bn254/fr/permutation"
	"github.com/consensys/gnark-crypto/ecc/bn254/fr/plookup"
	"github.com/consensys/gnark-crypto/ecc/bn254/kzg"
	"github.com/consensys/gnark-crypto/ecc/bn254/mpcsetup"
	fiatshamir "github.com/consensys/gnark-crypto/fiat-shamir"
)

// deriveRandomness of permutation.go / plookup (unexported there)
func (c17C_bn254) deriveG1(fs *fiatshamir.Transcript, name string, pts ...*curve.G1Affine) fr.Element {
	for _, p := range pts {
		buf := p.RawBytes()
		if err := fs.Bind(name, buf[:]); err != nil {
			panic(err)
		}
	}
	b, err := fs.ComputeChallenge(name)
	if err != nil {
		panic(err)
	}
	var r fr.Element
	r.SetBytes(b)
	return r
}

func (c c17C_bn254) showFrs(l []fr.Element) string {
	bl := make([]*big.Int, len(l))
	for i := range l {
		bl[i] = new(big.Int)
		l[i].BigInt(bl[i])
	}
	return showL(bl)
}

// ------------------------------------------------------------------------------------------- permutation

type c17Perm_bn254 struct {
	size         *int
	g            *fr.Element
	t1, t2, z, q *kzg.Digest
	batched      *kzg.BatchOpeningProof
	shifted      *kzg.OpeningProof
}

func (c17C_bn254) permFields(p *permutation.Proof) c17Perm_bn254 {
	return c17Perm_bn254{
		size: c17Field[int](p, "size"), g: c17Field[fr.Element](p, "g"),
		t1: c17Field[kzg.Digest](p, "t1"), t2: c17Field[kzg.Digest](p, "t2"), z: c17Field[kzg.Digest](p, "z"), q: c17Field[kzg.Digest](p, "q"),
		batched: c17Field[kzg.BatchOpeningProof](p, "batchedProof"), shifted: c17Field[kzg.OpeningProof](p, "shiftedProof"),
	}
}

func (c c17C_bn254) permChallenges(x c17Perm_bn254) (eps, om, eta fr.Element) {
	fs := fiatshamir.NewTranscript(sha256.New(), "epsilon", "omega", "eta")
	eps = c.deriveG1(fs, "epsilon", x.t1, x.t2)
	om = c.deriveG1(fs, "omega", x.z)
	eta = c.deriveG1(fs, "eta", x.q)
	return
}

// applies the mutation; returns the expected status of the two KZG relations (batched, shifted) and ok
func (c c17C_bn254) permMutate(a kvs, x c17Perm_bn254, o c17Perm_bn254) (kb, ks, ok bool) {
	m, i := a.big("m"), a.int("i")
	mG, mF := c.g1(m), c.fr(m)
	kb, ks, ok = true, true, true
	switch a["mut"] {
	case "none":
	case "t1Set":
		*x.t1, kb, ks = mG, false, false
	case "t2Set":
		*x.t2, kb, ks = mG, false, false
	case "zSet":
		*x.z, kb, ks = mG, false, false
	case "qSet":
		*x.q, kb, ks = mG, false, false
	case "t1Other":
		*x.t1, kb, ks = *o.t1, false, false
	case "t2Other":
		*x.t2, kb, ks = *o.t2, false, false
	case "zOther":
		*x.z, kb, ks = *o.z, false, false
	case "qOther":
		*x.q, kb, ks = *o.q, false, false
	case "swapT":
		*x.t1, *x.t2 = *x.t2, *x.t1
		kb, ks = false, false
	case "hSet":
		x.batched.H, kb = mG, false
	case "hOther":
		x.batched.H, kb = o.batched.H, false
	case "hsSet":
		x.shifted.H, ks = mG, false
	case "hsOther":
		x.shifted.H, ks = o.shifted.H, false
	case "cvSet":
		x.batched.ClaimedValues[i], kb = mF, false
	case "cvAdd":
		x.batched.ClaimedValues[i].Add(&x.batched.ClaimedValues[i], &mF)
		kb = false
	case "cvOther":
		x.batched.ClaimedValues[i], kb = o.batched.ClaimedValues[i], false
	case "svSet":
		x.shifted.ClaimedValue, ks = mF, false
	case "svAdd":
		x.shifted.ClaimedValue.Add(&x.shifted.ClaimedValue, &mF)
		ks = false
	case "svOther":
		x.shifted.ClaimedValue, ks = o.shifted.ClaimedValue, false
	case "sizeDouble":
		*x.size *= 2
	case "sizeHalf":
		*x.size /= 2
	case "sizeZero":
		*x.size = 0
	case "gSet":
		*x.g, ks = mF, false
	case "gNeg":
		x.g.Neg(x.g)
		ks = false
	case "gSq":
		x.g.Square(x.g)
		ks = false
	case "idPair":
		// cv[0] += m, cv[3] += m·cv[2]/(ηⁿ − 1): the polynomial identity still holds, only the KZG opening is wrong
		_, _, eta := c.permChallenges(x)
		var t, d fr.Element
		t.Exp(eta, big.NewInt(int64(*x.size)))
		var one fr.Element
		one.SetOne()
		t.Sub(&t, &one).Inverse(&t)
		d.Mul(&mF, &x.batched.ClaimedValues[2]).Mul(&d, &t)
		x.batched.ClaimedValues[0].Add(&x.batched.ClaimedValues[0], &mF)
		x.batched.ClaimedValues[3].Add(&x.batched.ClaimedValues[3], &d)
		kb = false
	default:
		ok = false
	}
	return
}

// ---- dense polynomials (coefficient slices, low degree first) for the CONSISTENT forgeries

func (c17C_bn254) frGen() *big.Int {
	var b big.Int
	g := fft.GeneratorFullMultiplicativeGroup()
	g.BigInt(&b)
	return &b
}

func (c17C_bn254) pAdd(a, b []fr.Element) []fr.Element {
	if len(a) < len(b) {
		a, b = b, a
	}
	r := append([]fr.Element{}, a...)
	for i := range b {
		r[i].Add(&r[i], &b[i])
	}
	return r
}
func (c17C_bn254) pScale(a []fr.Element, k fr.Element) []fr.Element {
	r := make([]fr.Element, len(a))
	for i := range a {
		r[i].Mul(&a[i], &k)
	}
	return r
}
func (c c17C_bn254) pSub(a, b []fr.Element) []fr.Element {
	var m1 fr.Element
	m1.SetOne()
	m1.Neg(&m1)
	return c.pAdd(a, c.pScale(b, m1))
}
func (c17C_bn254) pMul(a, b []fr.Element) []fr.Element {
	if len(a) == 0 || len(b) == 0 {
		return nil
	}
	r := make([]fr.Element, len(a)+len(b)-1)
	var t fr.Element
	for i := range a {
		for j := range b {
			t.Mul(&a[i], &b[j])
			r[i+j].Add(&r[i+j], &t)
		}
	}
	return r
}

// k − p
func (c c17C_bn254) pConstMinus(k fr.Element, p []fr.Element) []fr.Element {
	return c.pSub([]fr.Element{k}, p)
}

// p(gX)
func (c17C_bn254) pShiftArg(p []fr.Element, g fr.Element) []fr.Element {
	r := make([]fr.Element, len(p))
	var gi fr.Element
	gi.SetOne()
	for i := range p {
		r[i].Mul(&p[i], &gi)
		gi.Mul(&gi, &g)
	}
	return r
}

// the polynomial of degree < len(xs) through (xs[i], ys[i]) (pairwise distinct xs), by Lagrange's formula
func (c c17C_bn254) pInterp(xs, ys []fr.Element) []fr.Element {
	n := len(xs)
	res := make([]fr.Element, n)
	for i := 0; i < n; i++ {
		num := []fr.Element{{}}
		num[0].SetOne()
		var den, t fr.Element
		den.SetOne()
		for k := 0; k < n; k++ {
			if k == i {
				continue
			}
			var lin [2]fr.Element
			lin[0].Neg(&xs[k])
			lin[1].SetOne()
			num = c.pMul(num, lin[:])
			t.Sub(&xs[i], &xs[k])
			den.Mul(&den, &t)
		}
		den.Inverse(&den)
		den.Mul(&den, &ys[i])
		res = c.pAdd(res, c.pScale(num, den))[:n]
	}
	return res
}

// a / (Xⁿ − 1); exact = the remainder is zero
func (c17C_bn254) pDivXnMinus1(a []fr.Element, n int) (q []fr.Element, exact bool) {
	a = append([]fr.Element{}, a...)
	if len(a) > n {
		q = make([]fr.Element, len(a)-n)
	}
	for i := len(a) - 1; i >= n; i-- {
		q[i-n] = a[i]
		a[i-n].Add(&a[i-n], &a[i])
		a[i].SetZero()
	}
	for i := range a {
		if !a[i].IsZero() {
			return nil, false
		}
	}
	if len(q) == 0 {
		q = make([]fr.Element, 1)
	}
	return q, true
}

// the m-th roots of unity 1, w, w², … (w = gen^((r−1)/m)); ok = false when m ∤ r − 1
func (c c17C_bn254) rootsOfUnity(m int) ([]fr.Element, bool) {
	rm1 := fr.Modulus()
	rm1.Sub(rm1, big.NewInt(1))
	if m < 1 || new(big.Int).Mod(rm1, big.NewInt(int64(m))).Sign() != 0 {
		return nil, false
	}
	var w fr.Element
	w.Exp(fft.GeneratorFullMultiplicativeGroup(), new(big.Int).Div(rm1, big.NewInt(int64(m))))
	h := make([]fr.Element, m)
	h[0].SetOne()
	for i := 1; i < m; i++ {
		h[i].Mul(&h[i-1], &w)
	}
	return h, true
}

// CONSISTENT FORGERY under a prover-supplied parameter: a complete permutation proof for the vectors t1, t2 (values on the
// m-th roots of unity H, natural order) in which size := m and g := fg are GIVEN (any field element, any m | r−1) and every
// other component is derived honestly for that parameter: commitments of t1, t2, an accumulator z with z(1) = 1 and
// z(g·x)(ε − t2(x)) = z(x)(ε − t1(x)) on H, the exact quotient q by X^m − 1, the verifier's own Fiat-Shamir challenges,
// genuine KZG openings at η and g·η. Every check of Verify passes except, possibly, the check of the parameter itself.
//
//	g ∈ H (order d | m): z is propagated along the orbit of 1 (closure is required: the two vectors agree as multisets on
//	  the orbit of 1) and is 0 on every other orbit (where t1, t2 are then arbitrary);
//	g ∉ H, g ≠ 0: z is free on H (seeded by sd) and z(g·x) is solved for; g = 0: z(0) is solved from z(1) = 1.
//
// ok = false: no such proof (closure fails / a zero denominator).
func (c c17C_bn254) permForge(srs *kzg.SRS, t1v, t2v []fr.Element, m int, g, sd fr.Element) (proof permutation.Proof, ok bool) {
	H, okH := c.rootsOfUnity(m)
	if !okH || len(t1v) != m || len(t2v) != m {
		return proof, false
	}
	x := c.permFields(&proof)
	*x.size, *x.g = m, g
	ct1, ct2 := c.pInterp(H, t1v), c.pInterp(H, t2v)
	var err error
	if *x.t1, err = kzg.Commit(ct1, srs.Pk); err != nil {
		return proof, false
	}
	if *x.t2, err = kzg.Commit(ct2, srs.Pk); err != nil {
		return proof, false
	}
	fs := fiatshamir.NewTranscript(sha256.New(), "epsilon", "omega", "eta")
	eps := c.deriveG1(fs, "epsilon", x.t1, x.t2)
	var one fr.Element
	one.SetOne()
	ratio := make([]fr.Element, m) // (ε − t1(x_i)) / (ε − t2(x_i))
	for i := 0; i < m; i++ {
		var n, d fr.Element
		n.Sub(&eps, &t1v[i])
		d.Sub(&eps, &t2v[i])
		if d.IsZero() || n.IsZero() {
			return proof, false
		}
		ratio[i].Div(&n, &d)
	}
	xs := append([]fr.Element{}, H...)
	ys := make([]fr.Element, m)
	ys[0] = one
	k := -1
	for i := range H {
		if H[i].Equal(&g) {
			k = i
		}
	}
	switch {
	case k >= 0: // g = w^k
		for idx := 0; ; {
			var v fr.Element
			v.Mul(&ys[idx], &ratio[idx])
			idx = (idx + k) % m
			if idx == 0 {
				if !v.Equal(&one) {
					return proof, false
				}
				break
			}
			ys[idx] = v
		}
	case g.IsZero():
		var z0 fr.Element
		z0.Set(&ratio[0]) // z(0)(ε − t2(1)) = z(1)(ε − t1(1)), z(1) = 1
		for i := 1; i < m; i++ {
			ys[i].Div(&z0, &ratio[i])
		}
		xs, ys = append(xs, fr.Element{}), append(ys, z0)
	default:
		for i := 0; i < m; i++ {
			if i > 0 {
				ys[i].SetUint64(uint64(i))
				ys[i].Add(&ys[i], &sd)
				if ys[i].IsZero() {
					ys[i] = one
				}
			}
			var gx, v fr.Element
			gx.Mul(&g, &H[i])
			v.Mul(&ys[i], &ratio[i])
			xs, ys = append(xs, gx), append(ys, v)
		}
	}
	cz := c.pInterp(xs, ys)
	if *x.z, err = kzg.Commit(cz, srs.Pk); err != nil {
		return proof, false
	}
	om := c.deriveG1(fs, "omega", x.z)
	l0 := make([]fr.Element, m)
	for i := range l0 {
		l0[i] = one
	}
	num := c.pSub(c.pMul(c.pShiftArg(cz, g), c.pConstMinus(eps, ct2)), c.pMul(cz, c.pConstMinus(eps, ct1)))
	num = c.pAdd(num, c.pScale(c.pMul(l0, c.pSub(cz, []fr.Element{one})), om))
	cq, exact := c.pDivXnMinus1(num, m)
	if !exact {
		return proof, false
	}
	if *x.q, err = kzg.Commit(cq, srs.Pk); err != nil {
		return proof, false
	}
	eta := c.deriveG1(fs, "eta", x.q)
	if *x.batched, err = kzg.BatchOpenSinglePoint([][]fr.Element{ct1, ct2, cz, cq}, []kzg.Digest{*x.t1, *x.t2, *x.z, *x.q}, eta, sha256.New(), srs.Pk); err != nil {
		return proof, false
	}
	var geta fr.Element
	geta.Mul(&eta, &g)
	if *x.shifted, err = kzg.Open(cz, geta, srs.Pk); err != nil {
		return proof, false
	}
	return proof, true
}

func (c c17C_bn254) permutation(a kvs, derive bool) string {
	srs, err := kzg.NewSRS(uint64(a.int("n")), a.big("tau"))
	if err != nil {
		return "err"
	}
	if a["mut"] == "consist" {
		proof, ok := c.permForge(srs, c.frs(bigL(a["t1"])), c.frs(bigL(a["t2"])), a.int("fm"), c.fr(a.big("fg")), c.fr(a.big("m")))
		if !ok {
			if derive {
				return "proved=0"
			}
			return "err"
		}
		if derive {
			x := c.permFields(&proof)
			eps, om, eta := c.permChallenges(x)
			return "proved=1 size=" + strconv.FormatInt(int64(*x.size), 16) + " g=" + c.frHex(*x.g) + " cv=" + c.showFrs(x.batched.ClaimedValues) +
				" sv=" + c.frHex(x.shifted.ClaimedValue) + " eps=" + c.frHex(eps) + " om=" + c.frHex(om) + " eta=" + c.frHex(eta) + " kb=1 ks=1"
		}
		return c17Verdict(permutation.Verify(srs.Vk, proof))
	}
	proof, err := permutation.Prove(srs.Pk, c.frs(bigL(a["t1"])), c.frs(bigL(a["t2"])))
	if err != nil {
		if derive {
			return "proved=0"
		}
		return "err"
	}
	x := c.permFields(&proof)
	o := x
	var other permutation.Proof
	if t1b := bigL(a["t1b"]); len(t1b) > 0 {
		if other, err = permutation.Prove(srs.Pk, c.frs(t1b), c.frs(bigL(a["t2b"]))); err == nil {
			o = c.permFields(&other)
		}
	}
	kb, ks, ok := c.permMutate(a, x, o)
	if !ok {
		return "bad-op"
	}
	if derive {
		eps, om, eta := c.permChallenges(x)
		return "proved=1 size=" + strconv.FormatInt(int64(*x.size), 16) + " g=" + c.frHex(*x.g) + " cv=" + c.showFrs(x.batched.ClaimedValues) +
			" sv=" + c.frHex(x.shifted.ClaimedValue) + " eps=" + c.frHex(eps) + " om=" + c.frHex(om) + " eta=" + c.frHex(eta) + " kb=" + c17bs(kb) + " ks=" + c17bs(ks)
	}
	return c17Verdict(permutation.Verify(srs.Vk, proof))
}

// ----------------------------------------------------------------------------------------------- plookup

type c17Plk_bn254 struct {
	size               *uint64
	g                  *fr.Element
	h1, h2, t, z, f, h *kzg.Digest
	batched, shifted   *kzg.BatchOpeningProof
}

func (c17C_bn254) plkFields(p *plookup.ProofLookupVector) c17Plk_bn254 {
	return c17Plk_bn254{
		size: c17Field[uint64](p, "size"), g: c17Field[fr.Element](p, "g"),
		h1: c17Field[kzg.Digest](p, "h1"), h2: c17Field[kzg.Digest](p, "h2"), t: c17Field[kzg.Digest](p, "t"),
		z: c17Field[kzg.Digest](p, "z"), f: c17Field[kzg.Digest](p, "f"), h: c17Field[kzg.Digest](p, "h"),
		batched: &p.BatchedProof, shifted: &p.BatchedProofShifted,
	}
}

func (c c17C_bn254) plkChallenges(x c17Plk_bn254) (beta, gamma, alpha, nu fr.Element) {
	fs := fiatshamir.NewTranscript(sha256.New(), "beta", "gamma", "alpha", "nu")
	beta = c.deriveG1(fs, "beta", x.t, x.f, x.h1, x.h2)
	gamma = c.deriveG1(fs, "gamma")
	alpha = c.deriveG1(fs, "alpha", x.z)
	nu = c.deriveG1(fs, "nu", x.h)
	return
}

func (c c17C_bn254) plkMutate(a kvs, x c17Plk_bn254, o c17Plk_bn254) (kb, ks, ok bool) {
	m, i := a.big("m"), a.int("i")
	mG, mF := c.g1(m), c.fr(m)
	kb, ks, ok = true, true, true
	digs := map[string][2]*kzg.Digest{"h1": {x.h1, o.h1}, "h2": {x.h2, o.h2}, "t": {x.t, o.t}, "z": {x.z, o.z}, "f": {x.f, o.f}, "h": {x.h, o.h}}
	mut := a["mut"]
	for name, d := range digs {
		if mut == name+"Set" {
			*d[0] = mG
			return false, false, true
		}
		if mut == name+"Other" {
			*d[0] = *d[1]
			return false, false, true
		}
	}
	switch mut {
	case "none":
	case "bHSet":
		x.batched.H, kb = mG, false
	case "bHOther":
		x.batched.H, kb = o.batched.H, false
	case "sHSet":
		x.shifted.H, ks = mG, false
	case "sHOther":
		x.shifted.H, ks = o.shifted.H, false
	case "cvSet":
		x.batched.ClaimedValues[i], kb = mF, false
	case "cvAdd":
		x.batched.ClaimedValues[i].Add(&x.batched.ClaimedValues[i], &mF)
		kb = false
	case "cvOther":
		x.batched.ClaimedValues[i], kb = o.batched.ClaimedValues[i], false
	case "scvSet":
		x.shifted.ClaimedValues[i], ks = mF, false
	case "scvAdd":
		x.shifted.ClaimedValues[i].Add(&x.shifted.ClaimedValues[i], &mF)
		ks = false
	case "scvOther":
		x.shifted.ClaimedValues[i], ks = o.shifted.ClaimedValues[i], false
	case "sizeDouble":
		*x.size *= 2
	case "sizeHalf":
		*x.size /= 2
	case "gSet":
		*x.g, ks = mF, false
	case "gNeg":
		x.g.Neg(x.g)
		ks = false
	case "gSq":
		x.g.Square(x.g)
		ks = false
	case "idPair":
		// f(ν) += m and h(ν) adjusted so that the quotient identity still holds; only the KZG opening is wrong
		beta, gamma, _, nu := c.plkChallenges(x)
		var one, gn1, v, w, A, d, t fr.Element
		one.SetOne()
		gn1.Exp(*x.g, big.NewInt(int64(*x.size-1)))
		v.Add(&one, &beta)
		w.Mul(&v, &gamma)
		A.Mul(&beta, &x.shifted.ClaimedValues[2]).Add(&A, &x.batched.ClaimedValues[2]).Add(&A, &w)
		d.Sub(&nu, &gn1).Mul(&d, &x.batched.ClaimedValues[3]).Mul(&d, &v).Mul(&d, &mF).Mul(&d, &A)
		t.Exp(nu, big.NewInt(int64(*x.size))).Sub(&t, &one).Inverse(&t)
		d.Mul(&d, &t)
		x.batched.ClaimedValues[4].Add(&x.batched.ClaimedValues[4], &mF)
		x.batched.ClaimedValues[5].Add(&x.batched.ClaimedValues[5], &d)
		kb = false
	default:
		ok = false
	}
	return
}

// a / (X − r); exact = the remainder is zero
func (c17C_bn254) pDivLin(a []fr.Element, r fr.Element) (q []fr.Element, exact bool) {
	if len(a) == 0 {
		return make([]fr.Element, 1), true
	}
	q = make([]fr.Element, len(a))
	var carry, t fr.Element
	for i := len(a) - 1; i >= 0; i-- {
		carry.Mul(&carry, &r).Add(&carry, &a[i])
		q[i] = carry
	}
	// q[i] holds the Horner prefix: quotient coefficient i−1 is q[i], the remainder is q[0]
	if !q[0].IsZero() {
		return nil, false
	}
	_ = t
	q = q[1:]
	if len(q) == 0 {
		q = make([]fr.Element, 1)
	}
	return q, true
}

func (c17C_bn254) frIndex(l []fr.Element, x fr.Element) int {
	for i := range l {
		if l[i].Equal(&x) {
			return i
		}
	}
	return -1
}

// CONSISTENT FORGERY of a plookup VECTOR proof under the prover-supplied (size, g) = (m, g): f, t are given by their values
// fv, tv on the m-th roots of unity H (natural order 1, w, w², …), every other component is derived for that parameter so that
// every check of VerifyLookupVector passes except, possibly, the check of the parameter itself. With G = g^(m−1) the
// verifier's identity needs  h1(G) = h2(g^m),  z(G) = 1,  z(1) = 1  and, for x ∈ H∖{G},  z(x)·A(x) = z(g·x)·B(x)  where
// A = (1+β)(γ+f)(γ(1+β) + t + β·t(gX)),  B = (γ(1+β) + h1 + β·h1(gX))(γ(1+β) + h2 + β·h2(gX)).
//
//	g ∈ H of order d: on the orbit O of 1 an honest plookup instance of size d (f|O ⊂ t|O is required; h1, h2 = the two
//	  halves of the sorted concatenation), z propagated along O (closure z(G) = 1 is checked) and z = 0 off O, where f, t
//	  are then arbitrary;
//	g ∉ H, g ≠ 0: z free on H (seeded by sd), z(g·x) solved for, h1 gets the extra interpolation condition at G;
//	g = 0: needs f(1) = t(1); t, h1, h2 take that value at 0, z(0) = 1, z(x) = B(x)/A(x).
//
// ok = false: no such proof.
func (c c17C_bn254) plkForge(srs *kzg.SRS, fv, tv []fr.Element, m int, g, sd fr.Element) (proof plookup.ProofLookupVector, ok bool) {
	H, okH := c.rootsOfUnity(m)
	if !okH || m < 2 || len(fv) != m || len(tv) != m {
		return proof, false
	}
	x := c.plkFields(&proof)
	*x.size, *x.g = uint64(m), g
	var one, G, gn, zero fr.Element
	one.SetOne()
	G.Exp(g, big.NewInt(int64(m-1)))
	gn.Mul(&G, &g)
	k := c.frIndex(H, g)
	h1v, h2v := append([]fr.Element{}, tv...), append([]fr.Element{}, tv...)
	fv, tv = append([]fr.Element{}, fv...), append([]fr.Element{}, tv...)
	var cf, ct, ch1, ch2 []fr.Element
	var orbit []int
	switch {
	case k >= 0:
		seen := make([]bool, m)
		for idx := 0; !seen[idx]; idx = (idx + k) % m {
			seen[idx] = true
			orbit = append(orbit, idx)
		}
		d := len(orbit)
		used := make([]bool, d)
		var s []fr.Element
		for j := 0; j < d; j++ {
			s = append(s, tv[orbit[j]])
			for i := 0; i < d-1; i++ {
				if !used[i] && fv[orbit[i]].Equal(&tv[orbit[j]]) {
					used[i] = true
					s = append(s, fv[orbit[i]])
				}
			}
		}
		if len(s) != 2*d-1 {
			return proof, false // some looked-up value of the orbit is not in the table of the orbit
		}
		for j := 0; j < d; j++ {
			h1v[orbit[j]], h2v[orbit[j]] = s[j], s[d-1+j]
		}
		cf, ct, ch1, ch2 = c.pInterp(H, fv), c.pInterp(H, tv), c.pInterp(H, h1v), c.pInterp(H, h2v)
	case g.IsZero():
		if !fv[0].Equal(&tv[0]) {
			return proof, false
		}
		h1v[0], h2v[0] = tv[0], tv[0]
		H0 := append(append([]fr.Element{}, H...), zero)
		cf = c.pInterp(H, fv)
		ct = c.pInterp(H0, append(tv, tv[0]))
		ch1 = c.pInterp(H0, append(h1v, tv[0]))
		ch2 = c.pInterp(H0, append(h2v, tv[0]))
	default:
		cf, ct, ch2 = c.pInterp(H, fv), c.pInterp(H, tv), c.pInterp(H, h2v)
		target := c.evalPoly(ch2, gn)
		if iG := c.frIndex(H, G); iG >= 0 {
			h1v[iG] = target
			ch1 = c.pInterp(H, h1v)
		} else {
			ch1 = c.pInterp(append(append([]fr.Element{}, H...), G), append(h1v, target))
		}
	}
	var err error
	commit := func(d *kzg.Digest, p []fr.Element) bool {
		*d, err = kzg.Commit(p, srs.Pk)
		return err == nil
	}
	if !commit(x.t, ct) || !commit(x.f, cf) || !commit(x.h1, ch1) || !commit(x.h2, ch2) {
		return proof, false
	}
	fs := fiatshamir.NewTranscript(sha256.New(), "beta", "gamma", "alpha", "nu")
	beta := c.deriveG1(fs, "beta", x.t, x.f, x.h1, x.h2)
	gamma := c.deriveG1(fs, "gamma")
	var v, w fr.Element
	v.Add(&one, &beta)
	w.Mul(&v, &gamma)
	// w + p(x) + β·p(g·x)
	comb := func(p []fr.Element, pt fr.Element) fr.Element {
		var gx, r fr.Element
		gx.Mul(&g, &pt)
		r = c.evalPoly(p, gx)
		r.Mul(&r, &beta)
		e := c.evalPoly(p, pt)
		r.Add(&r, &e).Add(&r, &w)
		return r
	}
	ratio := func(pt fr.Element) (fr.Element, bool) { // A(pt)/B(pt)
		var A, B fr.Element
		A = c.evalPoly(cf, pt)
		A.Add(&A, &gamma).Mul(&A, &v)
		tt := comb(ct, pt)
		A.Mul(&A, &tt)
		B = comb(ch1, pt)
		hh := comb(ch2, pt)
		B.Mul(&B, &hh)
		if A.IsZero() || B.IsZero() {
			return A, false
		}
		A.Div(&A, &B)
		return A, true
	}
	xs := append([]fr.Element{}, H...)
	ys := make([]fr.Element, m)
	ys[0] = one
	switch {
	case k >= 0:
		for j := 0; j+1 < len(orbit); j++ {
			q, okq := ratio(H[orbit[j]])
			if !okq {
				return proof, false
			}
			ys[orbit[j+1]].Mul(&ys[orbit[j]], &q)
		}
		if !ys[orbit[len(orbit)-1]].Equal(&one) {
			return proof, false
		}
	case g.IsZero():
		for i := 1; i < m; i++ {
			q, okq := ratio(H[i])
			if !okq {
				return proof, false
			}
			ys[i].Inverse(&q)
		}
		if q, okq := ratio(H[0]); !okq || !q.Equal(&one) {
			return proof, false
		}
		xs, ys = append(xs, zero), append(ys, one)
	default:
		iG := c.frIndex(H, G)
		var xstar fr.Element
		xstar.Div(&G, &g)
		iS := c.frIndex(H, xstar)
		if iS == 0 {
			return proof, false
		}
		for i := 1; i < m; i++ {
			ys[i].SetUint64(uint64(i))
			ys[i].Add(&ys[i], &sd)
			if ys[i].IsZero() {
				ys[i] = one
			}
		}
		if iG >= 0 {
			ys[iG] = one
		}
		if iS > 0 {
			q, okq := ratio(H[iS])
			if !okq {
				return proof, false
			}
			ys[iS].Inverse(&q)
		}
		for i := 0; i < m; i++ {
			if i == iG {
				continue
			}
			q, okq := ratio(H[i])
			if !okq {
				return proof, false
			}
			var gx, val fr.Element
			gx.Mul(&g, &H[i])
			val.Mul(&ys[i], &q)
			xs, ys = append(xs, gx), append(ys, val)
		}
		if iG < 0 && iS < 0 {
			xs, ys = append(xs, G), append(ys, one)
		}
	}
	cz := c.pInterp(xs, ys)
	if !commit(x.z, cz) {
		return proof, false
	}
	alpha := c.deriveG1(fs, "alpha", x.z)
	// h = α³(h1 − h2(gX))/(X−G) + α²(z−1)/(X−G) + α(z−1)/(X−1) + (X−G)(z·A − z(gX)·B)/(X^m − 1)
	zm1 := c.pSub(cz, []fr.Element{one})
	tA, e1 := c.pDivLin(c.pSub(ch1, c.pShiftArg(ch2, g)), G)
	tB, e2 := c.pDivLin(zm1, G)
	tC, e3 := c.pDivLin(zm1, one)
	if !e1 || !e2 || !e3 {
		return proof, false
	}
	lin := func(p []fr.Element) []fr.Element { // w + p + β·p(gX)
		return c.pAdd(c.pAdd([]fr.Element{w}, p), c.pScale(c.pShiftArg(p, g), beta))
	}
	pA := c.pScale(c.pMul(c.pAdd([]fr.Element{gamma}, cf), lin(ct)), v)
	pB := c.pMul(lin(ch1), lin(ch2))
	var mG fr.Element
	mG.Neg(&G)
	P := c.pMul([]fr.Element{mG, one}, c.pSub(c.pMul(cz, pA), c.pMul(c.pShiftArg(cz, g), pB)))
	tD, e4 := c.pDivXnMinus1(P, m)
	if !e4 {
		return proof, false
	}
	var a2, a3 fr.Element
	a2.Square(&alpha)
	a3.Mul(&a2, &alpha)
	chh := c.pAdd(c.pAdd(c.pScale(tA, a3), c.pScale(tB, a2)), c.pAdd(c.pScale(tC, alpha), tD))
	if !commit(x.h, chh) {
		return proof, false
	}
	nu := c.deriveG1(fs, "nu", x.h)
	if *x.batched, err = kzg.BatchOpenSinglePoint([][]fr.Element{ch1, ch2, ct, cz, cf, chh}, []kzg.Digest{*x.h1, *x.h2, *x.t, *x.z, *x.f, *x.h}, nu, sha256.New(), srs.Pk); err != nil {
		return proof, false
	}
	var gnu fr.Element
	gnu.Mul(&nu, &g)
	if *x.shifted, err = kzg.BatchOpenSinglePoint([][]fr.Element{ch1, ch2, ct, cz}, []kzg.Digest{*x.h1, *x.h2, *x.t, *x.z}, gnu, sha256.New(), srs.Pk); err != nil {
		return proof, false
	}
	return proof, true
}

func (c c17C_bn254) plookup(a kvs, derive bool) string {
	srs, err := kzg.NewSRS(uint64(a.int("n")), a.big("tau"))
	if err != nil {
		return "err"
	}
	if a["kind"] == "table" {
		return c.plookupTable(a, srs, derive)
	}
	if a["mut"] == "consist" {
		proof, ok := c.plkForge(srs, c.frs(bigL(a["f"])), c.frs(bigL(a["t"])), a.int("fm"), c.fr(a.big("fg")), c.fr(a.big("m")))
		if !ok {
			if derive {
				return "proved=0"
			}
			return "err"
		}
		if derive {
			x := c.plkFields(&proof)
			beta, gamma, alpha, nu := c.plkChallenges(x)
			return "proved=1 size=" + strconv.FormatUint(*x.size, 16) + " g=" + c.frHex(*x.g) + " cv=" + c.showFrs(x.batched.ClaimedValues) +
				" scv=" + c.showFrs(x.shifted.ClaimedValues) + " beta=" + c.frHex(beta) + " gamma=" + c.frHex(gamma) + " alpha=" + c.frHex(alpha) +
				" nu=" + c.frHex(nu) + " kb=1 ks=1"
		}
		return c17Verdict(plookup.VerifyLookupVector(srs.Vk, proof))
	}
	proof, err := plookup.ProveLookupVector(srs.Pk, c.frs(bigL(a["f"])), c.frs(bigL(a["t"])))
	if err != nil {
		if derive {
			return "proved=0"
		}
		return "err"
	}
	x := c.plkFields(&proof)
	o := x
	var other plookup.ProofLookupVector
	if fb := bigL(a["fb"]); len(fb) > 0 {
		if other, err = plookup.ProveLookupVector(srs.Pk, c.frs(fb), c.frs(bigL(a["tb"]))); err == nil {
			o = c.plkFields(&other)
		}
	}
	kb, ks, ok := c.plkMutate(a, x, o)
	if !ok {
		return "bad-op"
	}
	if derive {
		beta, gamma, alpha, nu := c.plkChallenges(x)
		return "proved=1 size=" + strconv.FormatUint(*x.size, 16) + " g=" + c.frHex(*x.g) + " cv=" + c.showFrs(x.batched.ClaimedValues) +
			" scv=" + c.showFrs(x.shifted.ClaimedValues) + " beta=" + c.frHex(beta) + " gamma=" + c.frHex(gamma) + " alpha=" + c.frHex(alpha) +
			" nu=" + c.frHex(nu) + " kb=" + c17bs(kb) + " ks=" + c17bs(ks)
	}
	return c17Verdict(plookup.VerifyLookupVector(srs.Vk, proof))
}

// lookup tables: f, t given by rows. The expected status of each named check travels in the op line (asserted by the
// generator from the mutation): cf = folded f commitment, perm = inner permutation proof, bind = the permutation proof
// is about (folded ts, foldedProof.t), vec = inner vector proof.
func (c c17C_bn254) plookupTable(a kvs, srs *kzg.SRS, derive bool) string {
	rows := func(l [][]*big.Int) []fr.Vector {
		r := make([]fr.Vector, len(l))
		for i := range l {
			r[i] = c.frs(l[i])
		}
		return r
	}
	proof, err := plookup.ProveLookupTables(srs.Pk, rows(bigLL(a["f"])), rows(bigLL(a["t"])))
	if err != nil {
		return "err"
	}
	fs := c17Field[[]kzg.Digest](&proof, "fs")
	ts := c17Field[[]kzg.Digest](&proof, "ts")
	folded := c17Field[plookup.ProofLookupVector](&proof, "foldedProof")
	perm := c17Field[permutation.Proof](&proof, "permutationProof")
	m, i := a.big("m"), a.int("i")
	mG := c.g1(m)
	var other plookup.ProofLookupTables
	haveOther := false
	if fb := bigLL(a["fb"]); len(fb) > 0 {
		if other, err = plookup.ProveLookupTables(srs.Pk, rows(fb), rows(bigLL(a["tb"]))); err == nil {
			haveOther = true
		}
	}
	switch a["mut"] {
	case "none":
	case "fsSet":
		(*fs)[i] = mG
	case "tsSet":
		(*ts)[i] = mG
	case "fsOther":
		(*fs)[i] = (*c17Field[[]kzg.Digest](&other, "fs"))[i]
	case "tsOther":
		(*ts)[i] = (*c17Field[[]kzg.Digest](&other, "ts"))[i]
	case "permOther": // an internally consistent but unrelated permutation proof
		*perm = *c17Field[permutation.Proof](&other, "permutationProof")
	case "permFresh": // an honest permutation proof about two unrelated vectors
		pa := c.frs(bigL(a["pa"]))
		pb := make([]fr.Element, len(pa))
		for k := range pa {
			pb[len(pa)-1-k] = pa[k]
		}
		p, err := permutation.Prove(srs.Pk, pa, pb)
		if err != nil {
			return "err"
		}
		*perm = p
	case "foldedOther":
		*folded = *c17Field[plookup.ProofLookupVector](&other, "foldedProof")
	case "innerOther": // both inner proofs from the other table: only the f-binding (and nothing for t) links them to fs, ts
		*folded = *c17Field[plookup.ProofLookupVector](&other, "foldedProof")
		*perm = *c17Field[permutation.Proof](&other, "permutationProof")
	case "tableSwap": // proof of the OTHER statement presented with this statement's table commitments ts
		*fs = *c17Field[[]kzg.Digest](&other, "fs")
		*folded = *c17Field[plookup.ProofLookupVector](&other, "foldedProof")
		*perm = *c17Field[permutation.Proof](&other, "permutationProof")
	case "dropTs":
		*ts = (*ts)[:len(*ts)-1]
	default:
		return "bad-op"
	}
	_ = haveOther
	return c17Verdict(plookup.VerifyLookupTables(srs.Vk, proof))
}

// ---------------------------------------------------------------------------------------------- mpcsetup

func (c c17C_bn254) mpcClone(s *kzg.MpcSetup) kzg.MpcSetup {
	var bb bytes.Buffer
	if _, err := s.WriteTo(&bb); err != nil {
		panic(err)
	}
	var r kzg.MpcSetup
	if _, err := r.ReadFrom(&bb); err != nil {
		panic(err)
	}
	return r
}

func (c c17C_bn254) mpcHash(s *kzg.MpcSetup) []byte {
	h := sha256.New()
	if _, err := s.WriteTo(h); err != nil {
		panic(err)
	}
	return h.Sum(nil)
}

// serialised kzg.MpcSetup from explicit components (layout of MpcSetup.WriteTo)
func (c c17C_bn254) mpcBytes(com curve.G1Affine, pok curve.G2Affine, g1tail []curve.G1Affine, g2 curve.G2Affine, chal []byte) []byte {
	var bb bytes.Buffer
	enc := curve.NewEncoder(&bb)
	if err := enc.Encode(&com); err != nil {
		panic(err)
	}
	if err := enc.Encode(&pok); err != nil {
		panic(err)
	}
	if err := binary.Write(&bb, binary.BigEndian, uint64(len(g1tail)+1)); err != nil {
		panic(err)
	}
	enc = curve.NewEncoder(&bb)
	for i := range g1tail {
		if err := enc.Encode(&g1tail[i]); err != nil {
			panic(err)
		}
	}
	if err := enc.Encode(&g2); err != nil {
		panic(err)
	}
	if err := enc.Encode(chal); err != nil {
		panic(err)
	}
	return bb.Bytes()
}

func (c c17C_bn254) mpcPowers(tau *big.Int, n int) []curve.G1Affine {
	r := fr.Modulus()
	res := make([]curve.G1Affine, 0, n)
	acc := new(big.Int).Set(tau)
	for i := 1; i < n; i++ {
		res = append(res, c.g1(acc))
		acc = new(big.Int).Mul(acc, tau)
		acc.Mod(acc, r)
	}
	return res
}

// pokBase of mpcsetup.go (unexported there)
func (c c17C_bn254) mpcPokBase(com curve.G1Affine, challenge []byte, dst byte) curve.G2Affine {
	var buf bytes.Buffer
	buf.Write(com.Marshal())
	buf.Write(challenge)
	p, err := curve.HashToG2(buf.Bytes(), []byte{dst})
	if err != nil {
		panic(err)
	}
	return p
}

func (c c17C_bn254) mpcsetup(a kvs) string {
	r := fr.Modulus()
	switch a["kind"] {
	case "chain": // honest Contribute chain: every step must verify
		prev := kzg.InitializeSetup(a.int("n")) // a fresh setup cannot be serialised (empty challenge): build it twice
		p := kzg.InitializeSetup(a.int("n"))
		for s := 0; s < a.int("k"); s++ {
			p.Contribute()
			next := c.mpcClone(&p) // what a verifier receives
			if err := prev.Verify(&next); err != nil {
				return "0"
			}
			prev = c.mpcClone(&p)
		}
		return "1"
	case "step": // prev = SRS of trapdoor t0; next = contribution x (all discrete logs known), then the mutation
		n := a.int("n")
		t0, x, m, i := a.big("t0"), a.big("x"), a.big("m"), a.int("i")
		var prev kzg.MpcSetup
		if _, err := prev.ReadFrom(bytes.NewReader(c.mpcBytes(c.g1(big.NewInt(1)), c.g2(big.NewInt(1)), c.mpcPowers(t0, n), c.g2(t0), make([]byte, 32)))); err != nil {
			return "err"
		}
		chal := c.mpcHash(&prev)
		t1 := new(big.Int).Mul(t0, x)
		t1.Mod(t1, r)
		com := c.g1(x)
		g1tail := c.mpcPowers(t1, n)
		g2 := c.g2(t1)
		pokOf := func(com curve.G1Affine, x *big.Int, chal []byte) curve.G2Affine {
			base := c.mpcPokBase(com, append([]byte("KZG Setup"), chal...), 0)
			var p curve.G2Affine
			p.ScalarMultiplication(&base, x)
			return p
		}
		pok := pokOf(com, x, chal)
		nextChal := chal
		mG := c.g1(m)
		switch a["mut"] {
		case "none":
		case "g1Set":
			g1tail[i-1] = mG
		case "g1Add":
			g1tail[i-1].Add(&g1tail[i-1], &mG)
		case "g1Zero":
			g1tail[i-1] = curve.G1Affine{}
		case "g1Other": // powers of an unrelated trapdoor
			g1tail = c.mpcPowers(m, n)
		case "g1Swap":
			g1tail[0], g1tail[len(g1tail)-1] = g1tail[len(g1tail)-1], g1tail[0]
		case "g2Set":
			g2 = c.g2(m)
		case "srsOther": // a consistent SRS for another contribution m, proof for x
			tm := new(big.Int).Mul(t0, m)
			tm.Mod(tm, r)
			g1tail, g2 = c.mpcPowers(tm, n), c.g2(tm)
		case "comSet":
			com = mG
		case "comZero":
			com = curve.G1Affine{}
		case "pokSet":
			pok = c.g2(m)
		case "pokOther": // proof of knowledge of another contribution m (for the same commitment)
			pok = pokOf(com, m, chal)
		case "proofOther": // a complete valid update proof for another contribution m
			com = mG
			pok = pokOf(com, m, chal)
		case "chal":
			nextChal = sha256.New().Sum([]byte("other"))[:32]
		case "sizeUp":
			g1tail = c.mpcPowers(t1, n+1)
		case "sizeDown":
			g1tail = c.mpcPowers(t1, n-1)
		case "nosub": // see below: the honest contribution is tampered in memory
		default:
			return "bad-op"
		}
		var next kzg.MpcSetup
		if _, err := next.ReadFrom(bytes.NewReader(c.mpcBytes(com, pok, g1tail, g2, nextChal))); err != nil {
			return "0" // rejected at deserialisation
		}
		if a["mut"] == "nosub" {
			// SUBGROUP MEMBERSHIP of every element of the contribution: sub1 = flags of [x]₁ … [x^{n−1}]₁, sub2 of [x]₂, subc / subp
			// of the update proof's commitment (G1) and proof of knowledge (G2). Flag 0: a point of cofactor order is added to
			// the honest element IN MEMORY (the default Decoder would refuse it): on the curve, every pairing equation of the
			// ceremony still holds for a G1 element (e(P + T, Q) = e(P, Q)), only the explicit subgroup check can reject it.
			sub1 := bigL(a["sub1"])
			srs := c17Field[kzg.SRS](&next, "srs")
			proof := c17Field[mpcsetup.UpdateProof](&next, "proof")
			if len(sub1) != len(srs.Pk.G1)-1 {
				return "bad-op"
			}
			seed := int(new(big.Int).Mod(m, big.NewInt(5)).Int64())
			addT1 := func(p *curve.G1Affine) bool {
				t, ok := c.torsionG1(seed)
				if ok {
					p.Add(p, &t)
				}
				return ok && p.IsOnCurve() && !p.IsInSubGroup()
			}
			addT2 := func(p *curve.G2Affine) bool {
				t, ok := c.torsionG2(seed)
				if ok {
					p.Add(p, &t)
				}
				return ok && p.IsOnCurve() && !p.IsInSubGroup()
			}
			for k := range sub1 {
				if sub1[k].Sign() == 0 && !addT1(&srs.Pk.G1[k+1]) {
					return "bad-op"
				}
			}
			if a.big("sub2").Sign() == 0 && !addT2(&srs.Vk.G2[1]) {
				return "bad-op"
			}
			if a.big("subc").Sign() == 0 {
				// the proof of knowledge is redone for the tampered commitment (its base is a hash of the commitment): the
				// forger knows x, and e(C + T, R') = e(G₁, [x]R')
				pc := c17Field[curve.G1Affine](proof, "contributionCommitment")
				if !addT1(pc) {
					return "bad-op"
				}
				*c17Field[curve.G2Affine](proof, "contributionPok") = pokOf(*pc, x, chal)
			}
			if a.big("subp").Sign() == 0 && !addT2(c17Field[curve.G2Affine](proof, "contributionPok")) {
				return "bad-op"
			}
		}
		return c17Verdict(prev.Verify(&next))
	case "update": // mpcsetup.UpdateValues / UpdateProof.Verify on explicit representations
		as, bs := bigL(a["a"]), bigL(a["b"])
		x, m, i := a.big("x"), a.big("m"), a.int("i")
		prev1, prev2 := c.g1s(as), make([]curve.G2Affine, len(bs))
		for k := range bs {
			prev2[k] = c.g2(bs[k])
		}
		next1 := append([]curve.G1Affine{}, prev1...)
		next2 := append([]curve.G2Affine{}, prev2...)
		chal, dst := []byte("challenge-"+a["c"]), byte(7)
		xf := c.fr(x)
		var reps []any
		if len(next1) > 0 {
			reps = append(reps, next1)
		}
		if len(next2) > 0 {
			reps = append(reps, next2)
		}
		proof := mpcsetup.UpdateValues(&xf, chal, dst, reps...)
		mG := c.g1(m)
		switch a["mut"] {
		case "none":
		case "n1Set":
			next1[i] = mG
		case "n1Scale":
			next1[i].ScalarMultiplication(&next1[i], m)
		case "n2Set":
			next2[i] = c.g2(m)
		case "n2Scale":
			next2[i].ScalarMultiplication(&next2[i], m)
		case "allScale":
			for k := range next1 {
				next1[k].ScalarMultiplication(&next1[k], m)
			}
			for k := range next2 {
				next2[k].ScalarMultiplication(&next2[k], m)
			}
		case "n1Swap":
			next1[0], next1[len(next1)-1] = next1[len(next1)-1], next1[0]
		case "n1Cancel":
			j := (i + 1) % len(next1)
			next1[i].Add(&next1[i], &mG)
			next1[j].Sub(&next1[j], &mG)
		case "n2Cancel":
			j := (i + 1) % len(next2)
			m2 := c.g2(m)
			next2[i].Add(&next2[i], &m2)
			next2[j].Sub(&next2[j], &m2)
		case "chal":
			chal = []byte("another challenge")
		case "dst":
			dst = 8
		case "proofOther": // a valid proof for another contribution on the same data
			mf := c.fr(m)
			t1 := append([]curve.G1Affine{}, prev1...)
			t2 := append([]curve.G2Affine{}, prev2...)
			var rp []any
			if len(t1) > 0 {
				rp = append(rp, t1)
			}
			if len(t2) > 0 {
				rp = append(rp, t2)
			}
			proof = mpcsetup.UpdateValues(&mf, chal, dst, rp...)
		case "nosub": // subc / subp = 0: the proof's commitment (G1) / proof of knowledge (G2) gets a component of cofactor order
			seed := int(new(big.Int).Mod(m, big.NewInt(5)).Int64())
			if a.big("subc").Sign() == 0 {
				t, ok := c.torsionG1(seed)
				if !ok {
					return "bad-op"
				}
				p := c17Field[curve.G1Affine](&proof, "contributionCommitment")
				p.Add(p, &t)
				// the proof of knowledge redone for the tampered commitment (its base is a hash of the commitment)
				base := c.mpcPokBase(*p, chal, dst)
				c17Field[curve.G2Affine](&proof, "contributionPok").ScalarMultiplication(&base, x)
			}
			if a.big("subp").Sign() == 0 {
				t, ok := c.torsionG2(seed)
				if !ok {
					return "bad-op"
				}
				p := c17Field[curve.G2Affine](&proof, "contributionPok")
				p.Add(p, &t)
			}
		default:
			return "bad-op"
		}
		var upd []mpcsetup.ValueUpdate
		if len(next1) > 0 {
			upd = append(upd, mpcsetup.ValueUpdate{Previous: prev1, Next: next1})
		}
		if len(next2) > 0 {
			upd = append(upd, mpcsetup.ValueUpdate{Previous: prev2, Next: next2})
		}
		return c17Verdict(proof.Verify(chal, dst, upd...))
	case "ratio": // mpcsetup.SameRatioMany on explicit slices
		var sl []any
		for _, s := range bigLL(a["g1"]) {
			sl = append(sl, c.g1s(s))
		}
		for _, s := range bigLL(a["g2"]) {
			t := make([]curve.G2Affine, len(s))
			for k := range s {
				t[k] = c.g2(s[k])
			}
			sl = append(sl, t)
		}
		return c17Verdict(mpcsetup.SameRatioMany(sl...))
	}
	return "bad-op"
}
