package main

// C11 — "partial vanishing" forgeries (same op lines `verify` / `reuse` / `batch1` / `multi`).
//
// Verify checks e(A, G₂)·e(B, [τ]G₂) = 1 with A = [v]G₁ − [z]H − C and B = H (up to sign): in the exponent a + τ·b = 0 with
// a = v − z·h − c, b = h. A verifier that decides on ONE operand (accepts when A = O, or when H = O, skips a pair whose
// G1 or G2 member is the identity, drops identity points before the Miller loop and forgets the partner, …) is wrong exactly
// on the tuples where one operand vanishes and the other does not:
//   first operand zero:   c = v − z·h with h ≠ 0 (publicly computable for ANY commitment and ANY false value v' at z ≠ 0:
//                         H = [−1/z](C − [v']G₁); at z = 0: c = v, H arbitrary)  — false iff τ·h ≠ 0;
//   second operand zero:  h = 0 with c ≠ v                                        — always false;
//   τ = 0 ([τ]G₂ = O):    the relation degenerates to a = 0                       — contrast cases, both verdicts;
//   both operands zero:   h = 0, c = v                                            — true (constant polynomials).
// The same tuples go through `reuse` (one key, mixed sequence), BatchVerifySinglePoint (the FOLDED operands vanish: γ is
// known to the forger, h := −(Σγⁱcᵢ − Σγⁱvᵢ)/z) and BatchVerifyMultiPoints (one claim: delegates to Verify; k ≥ 2 claims:
// EVERY claim has its first operand zero, so the folded first operand vanishes for every λ, while Σλₖhₖ ≠ 0 for the λ on
// the line; resp. every hₖ = 0 with some cₖ ≠ vₖ). The model's verdict is `verify` of Model/KZG.lean on the line's scalars.

import (
	"math/big"
	"strings"
)

func genC11Vanish(g *gen, name string, c kzgCurve, tauTok func() (string, *big.Int), distinctLams func(int) []*big.Int) {
	r := c.modulus()
	f := zr{r}
	rnd := func() *big.Int { return g.rng.bigBelow(r) }
	one := big.NewInt(1)
	rm1 := new(big.Int).Sub(r, one)
	nz := func() *big.Int { // non-zero scalar: boundary values a third of the time
		switch g.rng.intn(6) {
		case 0:
			return big.NewInt(int64(1 + g.rng.intn(3)))
		case 1:
			return new(big.Int).Sub(rm1, big.NewInt(int64(g.rng.intn(2))))
		}
		for {
			if x := rnd(); x.Sign() != 0 {
				return x
			}
		}
	}
	anyS := func() *big.Int {
		if g.rng.intn(5) == 0 {
			return big.NewInt(int64(g.rng.intn(3)))
		}
		return rnd()
	}
	// a trapdoor token with τ ≠ 0 most of the time (the forgeries need τ·h ≠ 0); τ = 0 comes through tauTok as contrast
	tauNZ := func() (string, *big.Int) {
		for {
			tt, tau := tauTok()
			if f.norm(tau).Sign() != 0 {
				return tt, tau
			}
		}
	}

	// kinds of single tuples
	const (
		firstZero    = iota // c = v − z·h, h ≠ 0, z ≠ 0 (h and v free)
		firstZeroFor        // the public forgery: c, v' free, h = −(c − v')/z, z ≠ 0
		firstZeroZ0         // z = 0: c = v, h ≠ 0
		firstZeroZT         // z = τ: c = v − τ·h, h ≠ 0
		secondZero          // h = 0, c ≠ v
		bothZero            // h = 0, c = v (accepted)
		nKinds
	)
	tupleV := func(tau *big.Int, kind int) (cc, h, v, z *big.Int) {
		v, z, h = anyS(), nz(), nz()
		switch kind {
		case firstZero:
			cc = f.sub(v, f.mul(z, h))
		case firstZeroFor:
			cc = anyS()
			for f.sub(cc, v).Sign() == 0 {
				cc = rnd()
			}
			h = f.mul(f.sub(v, cc), f.inv(z))
		case firstZeroZ0:
			z = new(big.Int)
			cc = v
		case firstZeroZT:
			z = f.norm(tau)
			cc = f.sub(v, f.mul(z, h))
		case secondZero:
			h = new(big.Int)
			z = anyS()
			cc = f.add(v, nz())
		default:
			h = new(big.Int)
			z = anyS()
			cc = v
		}
		return
	}

	// ---------------------------------------------------------------- verify
	for it := 0; it < g.budget(5, 30)*nKinds; it++ {
		kind := it % nKinds
		tt, tau := tauNZ()
		if it%(nKinds+1) == nKinds { // contrast: any τ of the lattice (0 included: [τ]G₂ = O, first-operand-zero tuples are TRUE)
			tt, tau = tauTok()
		}
		if it/nKinds == 1 {
			tt, tau = "0", new(big.Int)
		}
		cc, h, v, z := tupleV(tau, kind)
		if it%7 == 6 { // unreduced scalars
			v = new(big.Int).Add(v, r)
			z = new(big.Int).Add(z, r)
		}
		g.emit("C11 verify %s %s %s %s %s %s", name, tt, hexBig(cc), hexBig(h), hexBig(v), hexBig(z))
	}
	// τ = 0 and the first operand NOT zero, h ≠ 0: only the second pair degenerates (rejected)
	for it := 0; it < g.budget(2, 8); it++ {
		cc, h, v, z := anyS(), nz(), anyS(), anyS()
		if f.add(f.sub(cc, v), f.mul(z, h)).Sign() == 0 {
			cc = f.add(cc, one)
		}
		g.emit("C11 verify %s 0 %s %s %s %s", name, hexBig(cc), hexBig(h), hexBig(v), hexBig(z))
	}

	// ---------------------------------------------------------------- reuse: one key, vanishing-operand tuples between true ones
	for it := 0; it < g.budget(2, 10); it++ {
		tt, tau := tauNZ()
		n := 3 + g.rng.intn(g.budget(4, 10))
		var toks []string
		for j := 0; j < n; j++ {
			var cc, h, v, z *big.Int
			if g.rng.intn(3) == 0 { // a true claim
				h, v, z = anyS(), anyS(), anyS()
				cc = f.add(v, f.mul(f.sub(tau, z), h))
			} else {
				cc, h, v, z = tupleV(tau, g.rng.intn(nKinds))
			}
			toks = append(toks, showBigList([]*big.Int{cc, h, v, z}))
		}
		g.emit("C11 reuse %s %s %s", name, tt, join(toks))
	}

	// ---------------------------------------------------------------- batch1: the FOLDED operands
	for it := 0; it < g.budget(12, 60); it++ {
		tt, _ := tauNZ()
		if it%6 == 5 {
			tt, _ = tauTok()
		}
		n := 1 + it%6
		kind := (it / 6) % 3 // 0: first folded operand zero (z ≠ 0); 1: z = 0, cᵢ = vᵢ, h ≠ 0; 2: h = 0, folded c ≠ folded v
		if n == 1 && g.rng.coin() {
			kind = it % 3
		}
		cs, vs := make([]*big.Int, n), make([]*big.Int, n)
		for i := range cs {
			cs[i], vs[i] = anyS(), anyS()
			if kind == 1 {
				cs[i] = vs[i]
			}
		}
		z, h := nz(), nz()
		if kind == 1 {
			z = new(big.Int)
		}
		ds := make([]any, n)
		for i := range ds {
			ds[i] = c.g1(cs[i])
		}
		gm := c.gamma(z, ds, vs)
		fc, fv, gi := new(big.Int), new(big.Int), big.NewInt(1)
		for i := range cs {
			fc = f.add(fc, f.mul(gi, cs[i]))
			fv = f.add(fv, f.mul(gi, vs[i]))
			gi = f.mul(gi, gm)
		}
		switch kind {
		case 0:
			h = f.mul(f.sub(fv, fc), f.inv(z)) // fv − z·h − fc = 0   (h = 0 iff the folded claim has fc = fv: a contrast case)
		case 2:
			h = new(big.Int)
		}
		g.emit("C11 batch1 %s %s %s %s %s %s %s", name, tt, hexBig(gm), hexBig(z), hexBig(h), showBigList(cs), showBigList(vs))
	}

	// ---------------------------------------------------------------- multi
	// one claim: BatchVerifyMultiPoints delegates to Verify
	for kind := 0; kind < nKinds; kind++ {
		tt, tau := tauNZ()
		cc, h, v, z := tupleV(tau, kind)
		g.emit("C11 multi %s %s %s %s %s:%s %s", name, tt, showBigList(distinctLams(1)), hexBig(cc), hexBig(h), hexBig(v), hexBig(z))
	}
	// k ≥ 2 claims: every claim with the same operand zero
	for it := 0; it < g.budget(10, 50); it++ {
		n := 2 + it%5
		tt, tau := tauNZ()
		second := it%3 == 2 // all quotients zero, some value wrong: the folded SECOND operand vanishes
		for try := 0; try < 20; try++ {
			cs, hs, vs, zs := make([]*big.Int, n), make([]*big.Int, n), make([]*big.Int, n), make([]*big.Int, n)
			wrong := g.rng.intn(n)
			for k := 0; k < n; k++ {
				switch {
				case second && (k == wrong || g.rng.intn(3) == 0):
					cs[k], hs[k], vs[k], zs[k] = tupleV(tau, secondZero)
				case second:
					cs[k], hs[k], vs[k], zs[k] = tupleV(tau, bothZero)
				case k == wrong || g.rng.intn(4) != 0:
					cs[k], hs[k], vs[k], zs[k] = tupleV(tau, []int{firstZero, firstZeroFor, firstZeroZ0, firstZeroZT}[g.rng.intn(4)])
				default: // first operand zero AND true (h = 0, c = v)
					cs[k], hs[k], vs[k], zs[k] = tupleV(tau, bothZero)
				}
			}
			lams := distinctLams(n)
			// the combination on the line must see it: Σ λₖ eₖ ≠ 0 with eₖ = cₖ − vₖ − (τ − zₖ)hₖ
			tot := new(big.Int)
			for k := 0; k < n; k++ {
				e := f.sub(f.sub(cs[k], vs[k]), f.mul(f.sub(tau, zs[k]), hs[k]))
				tot = f.add(tot, f.mul(lams[k], e))
			}
			if tot.Sign() == 0 {
				continue
			}
			hv := make([]string, n)
			for k := range hv {
				hv[k] = hexBig(hs[k]) + ":" + hexBig(vs[k])
			}
			g.emit("C11 multi %s %s %s %s %s %s", name, tt, showBigList(lams), showBigList(cs), strings.Join(hv, ","), showBigList(zs))
			break
		}
	}
}
