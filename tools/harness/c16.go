package main

import (
	"bytes"
	"crypto/sha256"
	"encoding/binary"
	"fmt"
	"hash"
	"hash/fnv"
	"strconv"
	"strings"
	"unsafe"

	"github.com/consensys/gnark-crypto/accumulator/merkletree"
	"github.com/consensys/gnark-crypto/field/koalabear/vortex"
)

// C16 — Merkle trees. Ops (see Model/Merkle.lean `handle`):
//   C16 acc sha256 <n> <i> <seed>                 -> root numLeaves proofSet verdict        (byte for byte)
//   C16 accroot sha256 <n> <seed>                 -> root root                              (Lean: stack machine, RFC recursion)
//   C16 acct sha256 <n> <i> <seed> <kind> <a>     -> verdict after one tampering            (Lean: symbolic hash)
//   C16 accd sha256 <i|x> P:<leaf> S:<h>:<l,l,..> R:<seg>:<bytes> ... -> per-op status, Prove/Root, equal-to-flat flag
//   C16 vx <n> <i> <pattern> <seed> <kind> <a>    -> Open status + Verify verdict (Poseidon2) (Lean: symbolic hash)
//   C16 vxi <n> <p> <pattern> <seed> <j,j,..>     -> Open(p) status + one Verify verdict per index j (leaf / proof / root of position p)
//   C16 accti sha256 <n> <i> <seed> <j:m,j:m,..>  -> one VerifyProof verdict per (index j, numLeaves m) with the proof of (n, i)
//   C16 accr sha256 <i|x> <seg> <bytes>           -> ReaderRoot (x) / BuildReaderProof (i) over a stream cut into seg-byte leaves
// accd history tokens: P:<leaf> Push, S:<h>:<leaves> PushSubTree(h, root of the cached tree over the leaves), R:<seg>:<bytes>
// ReadAll, I:<idx> SetIndex (ok / err:notempty), and the OBSERVATION calls Or = Root() (answer: root) and Op = Prove() +
// VerifyProof (answer: root numLeaves proofSet verdict); every observation is written out when it is made.

// Capacity independence (values, not capacities, determine every answer): every slice handed to the library is, depending
// on a mode derived from the op line (0 plain make/append, 1 cap == len, 2 cap = next power of two, 3 larger, 4 FLAT: all
// slices of the line are cut one after the other, without gaps, out of ONE buffer and keep the whole rest of the buffer as
// spare capacity - what a decoder of a serialised proof / a cache of sub-tree roots produces), a sub-slice
// of a larger backing array whose bytes before the slice and between len and cap are poisoned with non-zero data; after
// the op the backing arrays are compared with their snapshots: the library must neither read (answer changes: caught by
// the model / by the reference build) nor write (`wrote-caller-memory`) outside [0,len). Vortex: BuildMerkleTree on the
// poisoned sub-slice must give exactly the Levels of the tree built from a fresh exact copy (`cap-dependent:<mode>`).

func init() {
	executors["C16"] = execC16
	generators["C16"] = genC16
}

func c16Hash(name string) hash.Hash {
	if name == "sha256" {
		return sha256.New()
	}
	return nil
}

func c16Leaf(seed, j uint64) []byte {
	b := make([]byte, 8, 12)
	binary.BigEndian.PutUint64(b, seed+j)
	for k := uint64(0); k < j%4; k++ {
		b = append(b, 0xab)
	}
	return b
}

func c16RootHex(r []byte) string {
	if r == nil {
		return "nil"
	}
	return hexBytes(r)
}

func c16ProofHex(ps [][]byte) string {
	if len(ps) == 0 {
		return "nil"
	}
	s := make([]string, len(ps))
	for i, p := range ps {
		s[i] = hexBytes(p)
	}
	return strings.Join(s, ",")
}

func c16Prove(h hash.Hash, t *merkletree.Tree, p *c16Pool) string {
	root, ps, pi, nl := t.Prove()
	v := merkletree.VerifyProof(h, p.sub(root), p.set(ps), pi, nl)
	return fmt.Sprintf("%s %x %s %s", c16RootHex(root), nl, c16ProofHex(ps), boolStr(v))
}

func c16U(s string) uint64 {
	v, err := strconv.ParseUint(s, 16, 64)
	if err != nil {
		panic("bad-int")
	}
	return v
}

func c16I(s string) int {
	neg := strings.HasPrefix(s, "-")
	v := int(c16U(strings.TrimPrefix(s, "-")))
	if neg {
		return -v
	}
	return v
}

// ---- poisoned backing arrays ---------------------------------------------------------------------------------------

type c16Hdr struct {
	p    *byte
	l, c int
}

type c16Pool struct {
	mode   int
	flat   []byte // mode 4: the buffer being cut (also registered in bufs/snaps)
	flatI  int    // its position in bufs
	off    int
	bufs   [][]byte
	snaps  [][]byte
	outers [][][]byte // full-capacity views of the outer proof-set slices
	hdrs   [][]c16Hdr
}

func c16Mode(a []string) int {
	h := fnv.New32a()
	for _, x := range a {
		h.Write([]byte(x))
		h.Write([]byte{' '})
	}
	return int(h.Sum32()>>3) % 5
}

func c16Pow2(n int) int {
	p := 1
	for p < n {
		p *= 2
	}
	return p
}

func c16SpareCap(mode, n int) int {
	switch mode {
	case 1:
		return n
	case 2:
		if c := c16Pow2(n); c > n {
			return c
		}
		return 2*n + 1
	}
	return 2*c16Pow2(n) + 3
}

// sub returns a slice equal to d (same bytes, same nil-ness) living inside a larger poisoned array
func (p *c16Pool) sub(d []byte) []byte {
	if p == nil || p.mode == 0 || d == nil {
		return d
	}
	n := len(d)
	if p.mode == 4 {
		if p.flat == nil || p.off+n > len(p.flat)-8 {
			sz := 1 << 14
			if sz < 2*n+64 {
				sz = 2*n + 64
			}
			p.flat = make([]byte, sz)
			for i := range p.flat {
				p.flat[i] = byte(0x5b^(i*13)) | 1
			}
			p.off = 5
			p.flatI = len(p.bufs)
			p.bufs = append(p.bufs, p.flat)
			p.snaps = append(p.snaps, append([]byte{}, p.flat...))
		}
		copy(p.flat[p.off:], d)
		copy(p.snaps[p.flatI][p.off:], d)
		r := p.flat[p.off : p.off+n : len(p.flat)]
		p.off += n
		return r
	}
	c := c16SpareCap(p.mode, n)
	buf := make([]byte, 3+c+5)
	for i := range buf {
		buf[i] = byte(0xa5^(i*7)) | 1
	}
	copy(buf[3:], d)
	p.bufs = append(p.bufs, buf)
	p.snaps = append(p.snaps, append([]byte{}, buf...))
	return buf[3 : 3+n : 3+c]
}

// set: the outer slice has spare capacity too, filled with junk entries
func (p *c16Pool) set(ps [][]byte) [][]byte {
	if p == nil || p.mode == 0 || ps == nil {
		return ps
	}
	n := len(ps)
	c := c16SpareCap(p.mode, n)
	outer := make([][]byte, c)
	for i := range outer {
		if i < n {
			outer[i] = p.sub(ps[i])
		} else {
			outer[i] = p.sub(bytes.Repeat([]byte{byte(0x30 + i)}, 32))
		}
	}
	hd := make([]c16Hdr, c)
	for i, x := range outer {
		hd[i] = c16Hdr{unsafe.SliceData(x), len(x), cap(x)}
	}
	p.outers = append(p.outers, outer)
	p.hdrs = append(p.hdrs, hd)
	return outer[:n:c]
}

// intact: nothing the library was handed (nor the memory around it) has been modified
func (p *c16Pool) intact() bool {
	if p == nil {
		return true
	}
	for i := range p.bufs {
		if !bytes.Equal(p.bufs[i], p.snaps[i]) {
			return false
		}
	}
	for i, o := range p.outers {
		for j, x := range o {
			if (c16Hdr{unsafe.SliceData(x), len(x), cap(x)}) != p.hdrs[i][j] {
				return false
			}
		}
	}
	return true
}

func (p *c16Pool) done(res string) string {
	if !p.intact() {
		return fmt.Sprintf("wrote-caller-memory:mode%d", p.mode)
	}
	return res
}

func c16Sum(h hash.Hash, parts ...[]byte) []byte {
	h.Reset()
	for _, p := range parts {
		h.Write(p)
	}
	return h.Sum(nil)
}

func cloneSet(ps [][]byte) [][]byte {
	out := make([][]byte, len(ps))
	for i := range ps {
		out[i] = append([]byte{}, ps[i]...)
	}
	return out
}

func execC16Tamper(h hash.Hash, leafOf func(seed, j uint64) []byte, n, i, seed uint64, kind string, a uint64, p *c16Pool) string {
	t := merkletree.New(h)
	t.SetIndex(i)
	for j := uint64(0); j < n; j++ {
		t.Push(p.sub(leafOf(seed, j)))
	}
	root, ps0, pi, nl := t.Prove()
	root = append([]byte(nil), root...)
	if len(root) == 0 {
		root = nil
	}
	ps := cloneSet(ps0)
	junk := bytes.Repeat([]byte{0x5a}, 32)
	if h.Size() != 32 || h.BlockSize() != 64 { // an algebraic hasher: a digest it can absorb
		junk = c16Sum(h, root)
	}
	ns := uint64(0) // number of siblings
	if len(ps) > 0 {
		ns = uint64(len(ps) - 1)
	}
	switch kind {
	case "none":
	case "root":
		if root != nil {
			root[0] ^= 1
		}
	case "rootnil":
		root = nil
	case "leaf":
		if len(ps) > 0 && len(ps[0]) > 0 {
			ps[0][a%uint64(len(ps[0]))] ^= 1
		}
	case "leafapp":
		if len(ps) > 0 {
			ps[0] = append(ps[0], 0)
		}
	case "sib":
		if ns > 0 {
			ps[1+a%ns][0] ^= 1
		}
	case "sibswap":
		if a+1 < ns {
			ps[1+a], ps[2+a] = ps[2+a], ps[1+a]
		}
	case "idx":
		pi = a
	case "drop":
		if ns > 0 {
			k := 1 + a%ns
			ps = append(ps[:k], ps[k+1:]...)
		}
	case "dropleaf":
		if len(ps) > 0 {
			ps = ps[1:]
		}
	case "app":
		if len(ps) > 0 {
			ps = append(ps, junk)
		}
	case "dup":
		if ns > 0 {
			ps = append(ps, append([]byte{}, ps[len(ps)-1]...))
		}
	case "appleaf":
		if len(ps) > 0 {
			ps = append(ps, c16Sum(h, ps[0]))
		}
	case "empty":
		ps = nil
	case "leafnc": // bytes an algebraic hasher cannot absorb (not a canonical field element / not whole blocks)
		if len(ps) > 0 {
			ps[0] = bytes.Repeat([]byte{0xff}, h.BlockSize())
		}
	case "sibnc":
		if ns > 0 {
			k := 1 + a%ns
			ps[k] = bytes.Repeat([]byte{0xff}, len(ps[k]))
		}
	case "leaflen":
		if len(ps) > 0 {
			ps[0] = append(ps[0], 1, 1, 1)
		}
	case "rootnc":
		if root != nil {
			root = bytes.Repeat([]byte{0xff}, len(root))
		}
	case "collapse":
		if i+1 == n && a > 0 && a <= ns {
			sum := c16Sum(h, ps[0])
			for k := uint64(1); k < a; k++ {
				sum = c16Sum(h, ps[k], sum)
			}
			x := append(append([]byte{}, ps[a]...), sum...)
			ps = append([][]byte{x}, ps[a+1:]...)
		}
	default:
		return "bad-op"
	}
	return boolStr(merkletree.VerifyProof(h, p.sub(root), p.set(ps), pi, nl))
}

// alias = true (`acca`): the caller REUSES its memory. Every slice handed to the library (leaf data, sub-tree roots) is
// overwritten as soon as the call has returned, every slice the library returned (roots, proof sets and their elements) is
// kept together with a deep copy made at that moment; `Ov` compares all of them with their copies and re-verifies the kept
// proofs against the kept roots, `Om` overwrites everything that was returned so far (the caller owns what it was given).
func execC16Decomp(h hash.Hash, idx string, ops []string, p *c16Pool, alias bool) string {
	type kept struct {
		root, rootC []byte
		ps, psC     [][]byte
		pi, nl      uint64
		proof       bool
	}
	var keep []*kept
	scribble := func(b []byte) {
		if alias {
			for i := range b {
				b[i] = 0xee ^ byte(i)
			}
		}
	}
	t := merkletree.New(h)
	flatT := merkletree.New(h)
	proofTree := idx != "x"
	if proofTree {
		t.SetIndex(c16U(idx))
		flatT.SetIndex(c16U(idx))
	}
	var outs []string
	for _, op := range ops {
		f := strings.Split(op, ":")
		switch {
		case f[0] == "Or" && len(f) == 1: // observation: Root()
			r := t.Root()
			if alias {
				keep = append(keep, &kept{root: r, rootC: append([]byte(nil), r...)})
			}
			outs = append(outs, c16RootHex(r))
		case f[0] == "Op" && len(f) == 1: // observation: Prove() and VerifyProof of what it returned
			if !proofTree {
				outs = append(outs, "bad-op") // (Prove panics by contract without SetIndex)
				continue
			}
			if alias {
				root, ps, pi, nl := t.Prove()
				keep = append(keep, &kept{root: root, rootC: append([]byte(nil), root...), ps: ps, psC: cloneSet(ps), pi: pi, nl: nl, proof: true})
				v := merkletree.VerifyProof(h, root, ps, pi, nl)
				outs = append(outs, fmt.Sprintf("%s %x %s %s", c16RootHex(root), nl, c16ProofHex(ps), boolStr(v)))
				continue
			}
			outs = append(outs, c16Prove(h, t, p))
		case f[0] == "Ov" && len(f) == 1 && alias: // everything returned so far still has the value it was returned with
			res := "same"
			for k, x := range keep {
				ok := bytes.Equal(x.root, x.rootC) && len(x.ps) == len(x.psC)
				for j := 0; ok && j < len(x.ps); j++ {
					ok = bytes.Equal(x.ps[j], x.psC[j])
				}
				if ok && x.proof && len(x.psC) > 0 {
					ok = merkletree.VerifyProof(h, x.root, x.ps, x.pi, x.nl)
				}
				if !ok {
					res = fmt.Sprintf("changed:%d", k)
					break
				}
			}
			outs = append(outs, res)
		case f[0] == "Om" && len(f) == 1 && alias: // the caller overwrites what it was given
			for _, x := range keep {
				for i := range x.root {
					x.root[i] ^= 0xff
				}
				for j := range x.ps {
					for i := range x.ps[j] {
						x.ps[j][i] ^= 0xff
					}
				}
				for j := range x.ps {
					x.ps[j] = nil
				}
			}
			keep = nil
			outs = append(outs, "ok")
		case f[0] == "I" && len(f) == 2:
			i := c16U(f[1])
			if err := t.SetIndex(i); err != nil {
				outs = append(outs, "err:notempty")
				continue
			}
			if flatT.SetIndex(i) != nil {
				outs = append(outs, "desync")
				continue
			}
			proofTree = true
			outs = append(outs, "ok")
		case f[0] == "P" && len(f) == 2:
			d := parseBytes(f[1])
			in := p.sub(d)
			if alias {
				in = append(make([]byte, 0, len(d)+3), d...)
			}
			t.Push(in)
			scribble(in)
			flatT.Push(append([]byte{}, d...))
			outs = append(outs, "ok")
		case f[0] == "S" && len(f) == 3:
			var ls [][]byte
			for _, x := range strings.Split(f[2], ",") {
				ls = append(ls, parseBytes(x))
			}
			sub := merkletree.New(c16Hash("sha256"))
			for _, l := range ls {
				sub.Push(l)
			}
			r := sub.Root()
			if r == nil {
				outs = append(outs, "bad-op")
				continue
			}
			rin := p.sub(r)
			err := t.PushSubTree(int(c16U(f[1])), rin)
			scribble(rin)
			if err != nil {
				if strings.Contains(err.Error(), "shouldn't contain") {
					outs = append(outs, "err:contains")
				} else if strings.Contains(err.Error(), "larger than") {
					outs = append(outs, "err:toolarge")
				} else {
					outs = append(outs, "err:other")
				}
				continue
			}
			for _, l := range ls {
				flatT.Push(l)
			}
			outs = append(outs, "ok")
		case f[0] == "R" && (len(f) == 3 || len(f) == 4):
			seg := int(c16U(f[1]))
			if seg == 0 {
				outs = append(outs, "bad-op")
				continue
			}
			b := parseBytes(f[2])
			spec := "full"
			if len(f) == 4 {
				spec = f[3]
			}
			rd, stop, good := c16Reader(spec, p.sub(b))
			if !good {
				outs = append(outs, "bad-op")
				continue
			}
			err := t.ReadAll(rd, seg)
			stop()
			if err != nil {
				outs = append(outs, "err:other")
				continue
			}
			for k := 0; k < len(b); k += seg {
				e := k + seg
				if e > len(b) {
					e = len(b)
				}
				flatT.Push(b[k:e])
			}
			outs = append(outs, "ok")
		default:
			outs = append(outs, "bad-op")
		}
	}
	if !proofTree {
		r, rf := t.Root(), flatT.Root()
		outs = append(outs, c16RootHex(r), boolStr(bytes.Equal(r, rf) && (r == nil) == (rf == nil)))
	} else {
		a, b := c16Prove(h, t, p), c16Prove(h, flatT, nil)
		outs = append(outs, a, boolStr(a == b))
	}
	return join(outs)
}

// one VerifyProof verdict per (index, numLeaves) pair, all with the root and proof set Prove returned for (n, i)
func execC16AccIdx(h hash.Hash, n, i, seed uint64, pairs string, p *c16Pool) string {
	t := merkletree.New(h)
	t.SetIndex(i)
	for j := uint64(0); j < n; j++ {
		t.Push(p.sub(c16Leaf(seed, j)))
	}
	root, ps0, _, _ := t.Prove()
	root = append([]byte(nil), root...)
	if len(root) == 0 {
		root = nil
	}
	ps := cloneSet(ps0)
	if ps0 == nil {
		ps = nil
	}
	var outs []string
	for _, pr := range strings.Split(pairs, ",") {
		jm := strings.Split(pr, ":")
		if len(jm) != 2 {
			return "bad-op"
		}
		outs = append(outs, boolStr(merkletree.VerifyProof(h, p.sub(root), p.set(ps), c16U(jm[0]), c16U(jm[1]))))
	}
	return join(outs)
}

func vxHashOf(seed, id uint64) vortex.Hash {
	var h vortex.Hash
	if id == 0 {
		return h
	}
	r := newRng(seed*1000003 + id)
	for k := range h {
		h[k].SetUint64(r.u64())
	}
	return h
}

func vxLeafID(pat string, j int) uint64 {
	switch pat {
	case "z":
		return 0
	case "m":
		return uint64(j % 3)
	case "e":
		return 1
	}
	return uint64(j + 1)
}

// vxBuildIn builds the tree from leaves living at pool[1:1+n] with the capacity of the mode, everything else poisoned
func vxBuildIn(orig []vortex.Hash, seed uint64, mode int) (*vortex.MerkleTree, []vortex.Hash, string) {
	n := len(orig)
	c := c16SpareCap(mode, n)
	pool := make([]vortex.Hash, 1+c+2)
	poison := vxHashOf(seed^0x9e3779b97f4a7c15, 1000)
	for j := range pool {
		pool[j] = poison
		pool[j][j%8].SetUint64(uint64(j) + 12345)
	}
	copy(pool[1:], orig)
	snap := append([]vortex.Hash{}, pool...)
	leaves := pool[1 : 1+n : 1+c]
	mt := vortex.BuildMerkleTree(leaves)
	for j := range pool {
		if pool[j] != snap[j] {
			if j >= 1 && j < 1+n {
				return mt, leaves, "mutated-input"
			}
			return mt, leaves, fmt.Sprintf("wrote-caller-memory:mode%d", mode)
		}
	}
	return mt, leaves, ""
}

var vxCache struct {
	key  string
	orig []vortex.Hash
	ref  *vortex.MerkleTree
}

func vxSameLevels(a, b *vortex.MerkleTree) bool {
	if len(a.Levels) != len(b.Levels) {
		return false
	}
	for l := range a.Levels {
		if len(a.Levels[l]) != len(b.Levels[l]) {
			return false
		}
		for k := range a.Levels[l] {
			if a.Levels[l][k] != b.Levels[l][k] {
				return false
			}
		}
	}
	return true
}

func execC16Vx(n int, i int, pat string, seed uint64, kind string, a int, mode int) string {
	if n <= 0 {
		return "bad-op"
	}
	// (the leaves and the reference tree of the last (n, pattern, seed) are kept: consecutive lines share them; both are
	// only read afterwards)
	key := fmt.Sprintf("%d %s %d", n, pat, seed)
	if vxCache.key != key {
		o := make([]vortex.Hash, n)
		for j := range o {
			o[j] = vxHashOf(seed, vxLeafID(pat, j))
		}
		vxCache.key, vxCache.orig = key, o
		vxCache.ref = vortex.BuildMerkleTree(append(make([]vortex.Hash, 0, n), o...))
	}
	orig, ref := vxCache.orig, vxCache.ref
	// reference: a fresh exact allocation; then the same leaves as a sub-slice of a poisoned array (all three
	// capacities on the honest line of every (n, i), the capacity drawn from the line otherwise)
	var mt *vortex.MerkleTree
	var leaves []vortex.Hash
	modes := []int{mode}
	if kind == "none" {
		modes = []int{1 + mode%3, 1 + (mode+1)%3, mode}
	}
	for _, m := range modes {
		var bad string
		if mt, leaves, bad = vxBuildIn(orig, seed, m); bad != "" {
			return bad
		}
		if !vxSameLevels(mt, ref) {
			return fmt.Sprintf("cap-dependent:mode%d", m)
		}
	}
	proof, err := mt.Open(i)
	if err != nil {
		return "err:range"
	}
	pf := append(vortex.MerkleProof{}, proof...)
	var leaf vortex.Hash // (Open accepts i < 0 when depth = 0: no leaf to read then)
	if i >= 0 && i < len(mt.Levels[len(mt.Levels)-1]) {
		leaf = mt.Levels[len(mt.Levels)-1][i]
	}
	root := mt.Root()
	junk := vxHashOf(seed, 777777)
	idx := i
	an := a
	if an < 0 {
		an = 0
	}
	switch kind {
	case "none":
	case "leaf":
		leaf = junk
	case "leafother":
		leaf = leaves[an%n]
	case "leafzero":
		leaf = vortex.Hash{}
	case "root":
		root = junk
	case "sib":
		if len(pf) > 0 {
			pf[an%len(pf)] = junk
		}
	case "sibleaf":
		if len(pf) > 0 {
			pf[an%len(pf)] = leaf
		}
	case "idx", "idxpad":
		idx = a
	case "droplast":
		if len(pf) > 0 {
			pf = pf[:len(pf)-1]
		}
	case "dropfirst":
		if len(pf) > 0 {
			pf = pf[1:]
		}
	case "app":
		pf = append(pf, junk)
	case "dup":
		if len(pf) > 0 {
			pf = append(pf, pf[len(pf)-1])
		} else {
			pf = append(pf, leaf)
		}
	case "lift":
		if len(pf) > 0 {
			if i%2 == 1 {
				leaf = vortex.CompressPoseidon2(pf[0], leaf)
			} else {
				leaf = vortex.CompressPoseidon2(leaf, pf[0])
			}
			pf = pf[1:]
			idx = i / 2
		}
	default:
		return "bad-op"
	}
	return "ok " + boolStr(pf.Verify(idx, leaf, root) == nil)
}

// the leaf, proof and root of position p presented at every index of the list
func execC16VxIdx(n, p int, pat string, seed uint64, list string, mode int) string {
	if n <= 0 {
		return "bad-op"
	}
	orig := make([]vortex.Hash, n)
	for j := range orig {
		orig[j] = vxHashOf(seed, vxLeafID(pat, j))
	}
	mt, _, bad := vxBuildIn(orig, seed, mode)
	if bad != "" {
		return bad
	}
	proof, err := mt.Open(p)
	if err != nil {
		return "err:range"
	}
	var leaf vortex.Hash
	if p >= 0 && p < len(mt.Levels[len(mt.Levels)-1]) {
		leaf = mt.Levels[len(mt.Levels)-1][p]
	}
	root := mt.Root()
	outs := []string{"ok"}
	for _, x := range strings.Split(list, ",") {
		pf := append(make(vortex.MerkleProof, 0, len(proof)+mode), proof...)
		outs = append(outs, boolStr(pf.Verify(c16I(x), leaf, root) == nil))
		for k := range pf {
			if pf[k] != proof[k] {
				return "wrote-caller-memory:proof"
			}
		}
	}
	return join(outs)
}

// `vxa`: the caller reuses the slice it built the tree from: BuildMerkleTree, then the input is overwritten, then Open(i) and
// Verify of the committed leaf against Root()
func execC16VxAlias(n, i int, pat string, seed uint64) string {
	if n <= 0 {
		return "bad-op"
	}
	in := make([]vortex.Hash, n, n+n%3)
	for j := range in {
		in[j] = vxHashOf(seed, vxLeafID(pat, j))
	}
	orig := append([]vortex.Hash{}, in...)
	mt := vortex.BuildMerkleTree(in)
	root0 := mt.Root()
	for j := range in {
		in[j] = vxHashOf(seed^0x55aa, uint64(j)+4242)
	}
	proof, err := mt.Open(i)
	if err != nil {
		return "err:range"
	}
	var leaf vortex.Hash
	if i >= 0 && i < n {
		leaf = orig[i]
	}
	return "ok " + boolStr(proof.Verify(i, leaf, mt.Root()) == nil && mt.Root() == root0)
}

func execC16(a []string) string {
	if len(a) < 2 {
		return "bad-op"
	}
	switch {
	case a[0] == "acc" && len(a) == 5:
		h := c16Hash(a[1])
		if h == nil {
			return "bad-op"
		}
		n, i, seed := c16U(a[2]), c16U(a[3]), c16U(a[4])
		p := &c16Pool{mode: c16Mode(a)}
		t := merkletree.New(h)
		t.SetIndex(i)
		for j := uint64(0); j < n; j++ {
			t.Push(p.sub(c16Leaf(seed, j)))
		}
		return p.done(c16Prove(h, t, p))
	case a[0] == "accroot" && len(a) == 4:
		h := c16Hash(a[1])
		if h == nil {
			return "bad-op"
		}
		n, seed := c16U(a[2]), c16U(a[3])
		p := &c16Pool{mode: c16Mode(a)} // ReaderRoot over fixed segments is not applicable (variable leaf sizes): plain pushes
		if p.mode == 0 {
			p.mode = 4
		}
		t := merkletree.New(h)
		for j := uint64(0); j < n; j++ {
			t.Push(p.sub(c16Leaf(seed, j)))
		}
		r := c16RootHex(t.Root())
		return p.done(r + " " + r)
	case a[0] == "acct" && len(a) == 7:
		h, lf := c16HashAny(a[1])
		if h == nil {
			return "bad-op"
		}
		p := &c16Pool{mode: c16Mode(a)}
		return p.done(execC16Tamper(h, lf, c16U(a[2]), c16U(a[3]), c16U(a[4]), a[5], c16U(a[6]), p))
	case a[0] == "accb" && len(a) == 6:
		return execC16Bad(a[1], c16U(a[2]), c16U(a[3]), c16U(a[4]), parseBytes(a[5]))
	case a[0] == "accrb" && len(a) == 4:
		return execC16BadReader(a[1], int(c16U(a[2])), parseBytes(a[3]))
	case a[0] == "accd" && len(a) >= 3:
		h := c16Hash(a[1])
		if h == nil {
			return "bad-op"
		}
		p := &c16Pool{mode: c16Mode(a)}
		return p.done(execC16Decomp(h, a[2], a[3:], p, false))
	case a[0] == "acca" && len(a) >= 3:
		h := c16Hash(a[1])
		if h == nil {
			return "bad-op"
		}
		return execC16Decomp(h, a[2], a[3:], nil, true)
	case a[0] == "vxa" && len(a) == 5:
		return execC16VxAlias(int(c16U(a[1])), c16I(a[2]), a[3], c16U(a[4]))
	case a[0] == "accr" && (len(a) == 5 || len(a) == 6):
		h := c16Hash(a[1])
		seg := int(c16U(a[3]))
		if h == nil || seg == 0 {
			return "bad-op"
		}
		p := &c16Pool{mode: c16Mode(a)}
		b := p.sub(parseBytes(a[4]))
		spec := "full"
		if len(a) == 6 {
			spec = a[5]
		}
		rd, stop, good := c16Reader(spec, b)
		if !good {
			return "bad-op"
		}
		defer stop()
		if a[2] == "x" {
			r, err := merkletree.ReaderRoot(rd, h, seg)
			if err != nil {
				return p.done("err:other")
			}
			return p.done(c16RootHex(r))
		}
		i := c16U(a[2])
		r, ps, nl, err := merkletree.BuildReaderProof(rd, h, seg, i)
		if err != nil {
			if len(ps) != 0 || !strings.Contains(err.Error(), "not reached") {
				return p.done("err:other")
			}
			return p.done(fmt.Sprintf("err:notreached %s %x", c16RootHex(r), nl))
		}
		v := merkletree.VerifyProof(h, p.sub(r), p.set(ps), i, nl)
		return p.done(fmt.Sprintf("%s %x %s %s", c16RootHex(r), nl, c16ProofHex(ps), boolStr(v)))
	case a[0] == "accti" && len(a) == 6:
		h := c16Hash(a[1])
		if h == nil {
			return "bad-op"
		}
		p := &c16Pool{mode: c16Mode(a)}
		return p.done(execC16AccIdx(h, c16U(a[2]), c16U(a[3]), c16U(a[4]), a[5], p))
	case a[0] == "vxi" && len(a) == 6:
		return execC16VxIdx(int(c16U(a[1])), c16I(a[2]), a[3], c16U(a[4]), a[5], 1+c16Mode(a)%3)
	case a[0] == "vx" && len(a) == 7:
		return execC16Vx(int(c16U(a[1])), c16I(a[2]), a[3], c16U(a[4]), a[5], c16I(a[6]), 1+c16Mode(a)%3)
	}
	return "bad-op"
}

var c16AccKinds = []string{"none", "root", "rootnil", "leaf", "leafapp", "sib", "sibswap", "idx", "drop", "dropleaf", "app", "dup", "appleaf", "empty", "collapse"}
var c16VxKinds = []string{"none", "leaf", "leafother", "leafzero", "root", "sib", "sibleaf", "idx", "droplast", "dropfirst", "app", "dup", "lift"}

func genC16(g *gen) {
	N := g.budget(130, 1100)
	full := g.budget(130, 200) // all i < n up to here, sampled above
	sampleIdx := func(n int) []int {
		if n <= full {
			out := make([]int, n)
			for i := range out {
				out[i] = i
			}
			return out
		}
		set := map[int]bool{0: true, n - 1: true, n / 2: true}
		for p := 1; p < n; p *= 2 {
			if 2*p >= n || g.rng.intn(4) == 0 { // the largest power of two below n always, the others sometimes
				set[p] = true
				set[p-1] = true
			}
		}
		for k := 0; k < 4; k++ {
			set[g.rng.intn(n)] = true
		}
		var out []int
		for i := 0; i < n; i++ {
			if set[i] {
				out = append(out, i)
			}
		}
		return out
	}
	// A1. honest accumulator, byte for byte (SHA-256): roots for every n, proofs for sampled i
	g.emit("C16 accroot sha256 0 1")
	for n := 1; n <= N; n++ {
		seed := g.rng.intn(1 << 30)
		g.emit("C16 accroot sha256 %x %x", n, seed)
	}
	shaN := g.budget(40, 130)
	for n := 1; n <= shaN; n++ {
		seed := g.rng.intn(1 << 30)
		for i := 0; i < n; i++ {
			g.emit("C16 acc sha256 %x %x %x", n, i, seed)
		}
		g.emit("C16 acc sha256 %x %x %x", n, n, seed) // index never reached
		g.emit("C16 acc sha256 %x %x %x", n, n+5, seed)
	}
	for n := shaN + 1; n <= N; n += 1 + n/40 {
		seed := g.rng.intn(1 << 30)
		for _, i := range []int{0, n - 1, g.rng.intn(n)} {
			g.emit("C16 acc sha256 %x %x %x", n, i, seed)
		}
	}
	g.emit("C16 acc sha256 0 0 1")
	g.emit("C16 acc sha256 0 3 1")
	// A2. every n, every (sampled) i: honest verdict + every single-component tampering (verdicts)
	for n := 1; n <= N; n++ {
		seed := g.rng.intn(1 << 30)
		for _, i := range sampleIdx(n) {
			g.emit("C16 acct sha256 %x %x %x none 0", n, i, seed)
			// every other index with the same n (small n), otherwise neighbours, out of range
			if n <= 24 {
				for j := 0; j <= n+2; j++ {
					if j != i {
						g.emit("C16 acct sha256 %x %x %x idx %x", n, i, seed, j)
					}
				}
			} else {
				for _, j := range []int{i + 1, i - 1, i ^ 1, i ^ 2, n, n + 1, i + n, g.rng.intn(n), 1 << 40} {
					if j >= 0 && j != i && (i == 0 || i == n-1 || g.rng.intn(3) == 0) {
						g.emit("C16 acct sha256 %x %x %x idx %x", n, i, seed, j)
					}
				}
			}
			g.emit("C16 accti sha256 %x %x %x %s", n, i, seed, c16AccLattice(n, i))
			kinds := c16AccKinds
			special := i == 0 || i == n-1 || i == n/2 || i&(i-1) == 0 || i&(i+1) == 0
			if n > full {
				special = (i == 0 || i == n-1) && n%4 == 1
			}
			if n > 32 && !special {
				kinds = []string{c16AccKinds[g.rng.intn(len(c16AccKinds))], c16AccKinds[g.rng.intn(len(c16AccKinds))]}
			}
			for _, k := range kinds {
				switch k {
				case "none", "idx":
				case "sib", "drop", "sibswap":
					for a := 0; a < 11; a++ {
						if n <= 24 || a < 2 || g.rng.intn(6) == 0 {
							g.emit("C16 acct sha256 %x %x %x %s %x", n, i, seed, k, a)
						}
					}
				case "collapse":
					if i == n-1 {
						for a := 1; a < 11; a++ {
							g.emit("C16 acct sha256 %x %x %x %s %x", n, i, seed, k, a)
						}
					}
				case "leaf":
					g.emit("C16 acct sha256 %x %x %x %s %x", n, i, seed, k, g.rng.intn(12))
				default:
					g.emit("C16 acct sha256 %x %x %x %s 0", n, i, seed, k)
				}
			}
		}
		// index not reached: nil proof
		g.emit("C16 accti sha256 %x %x %x %s", n, n, seed, c16AccLattice(n, n))
		g.emit("C16 acct sha256 %x %x %x none 0", n, n, seed)
		g.emit("C16 acct sha256 %x %x %x idx 0", n, n+1, seed)
	}
	// A3. decompositions into Push / PushSubTree / ReadAll
	c16GenDecomp(g)
	// A4. the reader front ends through every reader chunking
	c16GenReaders(g)
	// A5. callers that reuse their memory
	c16GenAlias(g)
	// A6. the algebraic hashers (MiMC, Poseidon2): tampering verdicts, leaves the hasher cannot absorb
	c16GenAlg(g)
	// B. Vortex
	VN := g.budget(130, 1100)
	for n := 1; n <= VN; n++ {
		seed := g.rng.intn(1 << 30)
		depth := 0
		for (1 << depth) < n {
			depth++
		}
		pow := 1 << depth
		pats := []string{"d"}
		if n <= 20 {
			pats = []string{"d", "z", "m", "e"}
		}
		for _, pat := range pats {
			var idxs []int
			if n <= full {
				for i := 0; i < pow; i++ { // includes the padding positions n..pow-1
					if i <= n || n <= 40 || i == pow-1 {
						idxs = append(idxs, i)
					}
				}
			} else {
				idxs = append(sampleIdx(n), n, pow-1)
			}
			for _, i := range idxs {
				g.emit("C16 vx %x %x %s %x none 0", n, i, pat, seed)
				g.emit("C16 vxi %x %x %s %x %s", n, i, pat, seed, c16VxLattice(n, depth, i))
				if i >= n {
					continue
				}
				rich := n <= 16 || ((i == 0 || i == n-1) && n <= full) || g.rng.intn(12) == 0
				for _, k := range c16VxKinds {
					switch k {
					case "none":
					case "idx":
						js := []int{i ^ 1, i + 1, i + pow, i + 2*pow, i - pow, -i - 1, n, pow, i + pow/2}
						if n <= 12 {
							js = js[:0]
							for j := -pow; j < 2*pow; j++ {
								js = append(js, j)
							}
						}
						for _, j := range js {
							if j != i && (rich || (j == i+pow && i%4 == 1)) {
								s := fmt.Sprintf("%x", j)
								if j < 0 {
									s = fmt.Sprintf("-%x", -j)
								}
								kd := "idx"
								if j >= n && j < pow {
									kd = "idxpad" // a padding position: verifies with the zero leaf (recorded known finding); every OTHER wrongly accepted index must stay an alarm
								}
								g.emit("C16 vx %x %x %s %x %s %s", n, i, pat, seed, kd, s)
							}
						}
					case "sib", "sibleaf", "leafother":
						if rich {
							for a := 0; a < depth+1 && a < 4; a++ {
								g.emit("C16 vx %x %x %s %x %s %x", n, i, pat, seed, k, a)
							}
						}
					default:
						if rich || k == "droplast" || k == "app" {
							g.emit("C16 vx %x %x %s %x %s 0", n, i, pat, seed, k)
						}
					}
				}
			}
			g.emit("C16 vx %x %x %s %x none 0", n, pow, pat, seed)   // Open out of range
			g.emit("C16 vx %x %x %s %x none 0", n, pow+3, pat, seed) // Open out of range
			for _, q := range []int{pow + 1, 2 * pow, 2*pow - 1, 2*pow + 1, -1, -2, -pow, -pow - 1, 1 << 31, 1 << 32, 1<<32 + 1, 1 << 62, int(^uint(0) >> 1), -int(^uint(0)>>1) - 1, -int(^uint(0) >> 1)} {
				g.emit("C16 vxi %x %s %s %x 0,%s", n, c16SInt(q), pat, seed, c16SInt(q)) // Open at the boundaries / extremes of int
			}
		}
		if n <= 8 || n%37 == 0 {
			g.emit("C16 vx %x -1 d %x none 0", n, seed) // negative index
		}
	}
	// malformed stream
	g.emit("C16")
	g.emit("C16 acc md5 1 0 1")
	g.emit("C16 acct sha256 3 1 1 nosuch 0")
	g.emit("C16 vx 0 0 d 1 none 0")
	g.emit("C16 vx 3 1 d 1 nosuch 0")
	g.emit("C16 accd sha256 0 Q:00")
	g.emit("C16 accd sha256 0 R:0:00")
	g.emit("C16 accr sha256 0 0 00")
	g.emit("C16 accr md5 0 1 00")
	g.emit("C16 accr sha256 0 1 00 nosuch")
	g.emit("C16 accr sha256 0 1 00 chunk=0")
}

func c16SInt(j int) string {
	if j < 0 {
		return fmt.Sprintf("-%x", uint64(-j)) // (MinInt64: -j wraps to itself, magnitude 2^63)
	}
	return fmt.Sprintf("%x", j)
}

// Vortex index lattice for the leaf / proof of position p in a tree of n leaves (depth d, 2^d padded positions): p itself
// when it is a committed leaf, then p + k*2^d for positive and negative k (same low bits as p), the boundaries 2^d, 2^d +- 1,
// 2*2^d, -1, the other powers of two next to the depth, p with one higher bit set (2^31, 2^32, 2^62), and the extremes of
// int. Positions n <= j < 2^d (padding positions of the same tree) are left to the `vx ... idx` lines (known finding).
func c16VxLattice(n, d, p int) string {
	pow := 1 << d
	const maxI, minI = int(^uint(0) >> 1), -int(^uint(0)>>1) - 1
	js := []int{p}
	for _, k := range []int{1, -1, 2, -2, 3, -3, 4, 7, 8, -8} {
		js = append(js, p+k*pow)
	}
	js = append(js, pow, pow+1, pow-1, 2*pow, 2*pow-1, 2*pow+1, 3*pow, -1, -2, -pow, -pow-1, -pow+1, -2*pow, pow/2, pow+pow/2, n, n+pow, 0, 1)
	for _, e := range []int{d + 1, d + 2, 8, 16, 31, 32, 33, 62} {
		js = append(js, p+1<<e, p-1<<e, 1<<e, 1<<e-1, -(1 << e))
	}
	js = append(js, maxI, maxI-1, maxI-(pow-1)+p, maxI-pow+1+p-pow, minI, minI+1, minI+p, minI+pow, minI+pow+p)
	seen := map[int]bool{}
	var out []string
	for _, j := range js {
		if seen[j] || (j >= n && j < pow) || (j == p && p >= n) {
			continue
		}
		seen[j] = true
		out = append(out, c16SInt(j))
	}
	return strings.Join(out, ",")
}

// accumulator (index, numLeaves) lattice for the proof of index i in a tree of n leaves: numLeaves = n with the index at
// n, n +- 1, 2^k and 2^k +- 1, i with one bit flipped / added, i + k*2^depth, the extremes of uint64; index = i with
// numLeaves at i, i + 1, n +- 1, 2^k, 2^k +- 1, huge; both moved together (index = numLeaves, numLeaves - 1)
func c16AccLattice(n, i int) string {
	d := 0
	for (1 << d) < n {
		d++
	}
	pow := uint64(1) << d
	N, I := uint64(n), uint64(i)
	type pr struct{ j, m uint64 }
	ps := []pr{{I, N}}
	idx := []uint64{N, N - 1, N + 1, N + 2, I + 1, I - 1, I + N, I + pow, I + 2*pow, I - pow, 0, 1, 1 << 31, 1 << 32, 1<<32 + I, 1<<63 + I, 1 << 63, ^uint64(0), ^uint64(0) - 1, ^uint64(0) - pow + 1 + I}
	for k := 0; k <= d+1; k++ {
		b := uint64(1) << k
		idx = append(idx, b, b-1, b+1, I^b, I+b, I-b)
	}
	for _, j := range idx {
		ps = append(ps, pr{j, N})
	}
	nums := []uint64{I, I + 1, I + 2, N - 1, N + 1, N + 2, 2 * N, 2*N + 1, 0, 1, 1 << 32, 1 << 63, ^uint64(0)}
	for k := 0; k <= d+1; k++ {
		b := uint64(1) << k
		nums = append(nums, b, b-1, b+1, N+b, N-b)
	}
	for _, m := range nums {
		ps = append(ps, pr{I, m})
	}
	for _, m := range []uint64{N + 1, N - 1, pow, pow + 1, 2 * pow} {
		ps = append(ps, pr{m, m}, pr{m - 1, m})
	}
	seen := map[pr]bool{}
	var out []string
	for _, x := range ps {
		if seen[x] {
			continue
		}
		seen[x] = true
		out = append(out, fmt.Sprintf("%x:%x", x.j, x.m))
	}
	return strings.Join(out, ",")
}

// all compositions of n leaves into Push (1), PushSubTree (aligned or not, power-of-two sizes) and ReadAll runs
func c16GenDecomp(g *gen) {
	leafHex := func(k int) string { return hexBytes([]byte{byte(k), byte(k * 7), 0x11}) }
	maxN := g.budget(7, 9)
	var rec func(n, used int, prefix []string)
	// observation calls at EVERY point of the history (before the first op, after every op), then one observation alone
	// after each proper prefix (so that a later answer can only depend on that one earlier observation), doubled and mixed
	// observations (Root / Prove idempotent, neither disturbs the other)
	inter := func(ops []string, obs ...string) string {
		out := append([]string{}, obs...)
		for _, o := range ops {
			out = append(append(out, o), obs...)
		}
		return join(out)
	}
	single := func(ops []string, j int, obs ...string) string {
		out := append([]string{}, ops[:j]...)
		out = append(out, obs...)
		return join(append(out, ops[j:]...))
	}
	emitAll := func(n int, ops []string) {
		g.emit("C16 accd sha256 x %s", join(ops))
		g.emit("C16 accd sha256 x %s", inter(ops, "Or"))
		for j := 1; j < len(ops); j++ {
			if n <= 5 || g.rng.intn(4) == 0 {
				g.emit("C16 accd sha256 x %s", single(ops, j, "Or"))
			}
		}
		if g.rng.intn(4) == 0 {
			g.emit("C16 accd sha256 x %s", inter(ops, "Or", "Or"))
		}
		for i := 0; i <= n; i++ {
			if n <= 5 || i == 0 || i == n-1 || g.rng.intn(3) == 0 {
				g.emit("C16 accd sha256 %x %s", i, join(ops))
				g.emit("C16 accd sha256 %x %s", i, inter(ops, "Op"))
				switch g.rng.intn(4) {
				case 0:
					g.emit("C16 accd sha256 %x %s", i, inter(ops, "Or"))
				case 1:
					g.emit("C16 accd sha256 %x %s", i, inter(ops, "Op", "Or", "Op"))
				}
				for j := 1; j < len(ops); j++ {
					if n <= 4 || g.rng.intn(6) == 0 {
						g.emit("C16 accd sha256 %x %s", i, single(ops, j, []string{"Op", "Or"}[g.rng.intn(2)]))
					}
				}
			}
		}
	}
	rec = func(n, used int, prefix []string) {
		if used == n {
			emitAll(n, prefix)
			return
		}
		// Push
		rec(n, used+1, append(append([]string{}, prefix...), "P:"+leafHex(used)))
		// PushSubTree of 2^h leaves (declared height h), also misaligned / too large (error paths)
		for h := 0; used+(1<<h) <= n; h++ {
			var ls []string
			for k := 0; k < 1<<h; k++ {
				ls = append(ls, leafHex(used+k))
			}
			rec(n, used+(1<<h), append(append([]string{}, prefix...), fmt.Sprintf("S:%x:%s", h, strings.Join(ls, ","))))
		}
		// ReadAll of r ≥ 2 equal-size leaves in one stream (3-byte segments)
		for r := 2; used+r <= n && r <= 4; r++ {
			var b []byte
			for k := 0; k < r; k++ {
				b = append(b, byte(used+k), byte((used+k)*7), 0x11)
			}
			rec(n, used+r, append(append([]string{}, prefix...), "R:3:"+hexBytes(b)))
		}
	}
	for n := 1; n <= maxN; n++ {
		rec(n, 0, nil)
	}
	// ReadAll with a short last segment, segment sizes 1..5, empty stream
	for it := 0; it < g.budget(150, 1500); it++ {
		ln := g.rng.intn(40)
		seg := 1 + g.rng.intn(5)
		b := g.rng.bytes(ln)
		nl := (ln + seg - 1) / seg
		idx := "x"
		if g.rng.intn(4) != 0 {
			idx = fmt.Sprintf("%x", g.rng.intn(nl+2))
		}
		ops := []string{fmt.Sprintf("R:%x:%s", seg, hexBytes(b))}
		if g.rng.coin() {
			ops = append(ops, "P:"+hexBytes(g.rng.bytes(g.rng.intn(4))))
		}
		if g.rng.coin() {
			ops = append(ops, fmt.Sprintf("R:%x:%s", 1+g.rng.intn(5), hexBytes(g.rng.bytes(g.rng.intn(9)))))
		}
		g.emit("C16 accd sha256 %s %s", idx, join(ops))
	}
	// the reader front ends: ReaderRoot / BuildReaderProof over every stream length 0..24 x segment size 1..5 (every index
	// incl. the first unreached ones), and longer random streams
	for ln := 0; ln <= 24; ln++ {
		b := g.rng.bytes(ln)
		for seg := 1; seg <= 5; seg++ {
			nl := (ln + seg - 1) / seg
			g.emit("C16 accr sha256 x %x %s", seg, hexBytes(b))
			for i := 0; i <= nl+1; i++ {
				if ln <= 12 || i == 0 || i >= nl-1 || g.rng.intn(3) == 0 {
					g.emit("C16 accr sha256 %x %x %s", i, seg, hexBytes(b))
				}
			}
		}
	}
	for it := 0; it < g.budget(100, 1000); it++ {
		ln := 25 + g.rng.intn(400)
		seg := 1 + g.rng.intn(40)
		b := hexBytes(g.rng.bytes(ln))
		g.emit("C16 accr sha256 x %x %s", seg, b)
		g.emit("C16 accr sha256 %x %x %s", g.rng.intn((ln+seg-1)/seg+2), seg, b)
	}
	// random larger decompositions with cached sub-trees at random heights (valid and refused)
	for it := 0; it < g.budget(300, 6000); it++ {
		var ops []string
		cnt := 0
		for len(ops) < 2+g.rng.intn(10) {
			switch g.rng.intn(3) {
			case 0:
				ops = append(ops, "P:"+hexBytes(g.rng.bytes(1+g.rng.intn(3))))
				cnt++
			case 1:
				h := g.rng.intn(4)
				m := 1 << h
				if g.rng.intn(8) == 0 {
					m = 1 + g.rng.intn(6) // wrong number of leaves for the declared height
				}
				var ls []string
				for k := 0; k < m; k++ {
					ls = append(ls, hexBytes(g.rng.bytes(1+g.rng.intn(3))))
				}
				ops = append(ops, fmt.Sprintf("S:%x:%s", h, strings.Join(ls, ",")))
				cnt += m
			case 2:
				ops = append(ops, fmt.Sprintf("R:%x:%s", 1+g.rng.intn(3), hexBytes(g.rng.bytes(g.rng.intn(7)))))
				cnt += 2
			}
		}
		idx := "x"
		if g.rng.intn(5) != 0 {
			idx = fmt.Sprintf("%x", g.rng.intn(cnt+2))
		}
		g.emit("C16 accd sha256 %s %s", idx, join(ops))
		// the same history with observations at every point / at random points
		obs := "Op"
		if idx == "x" {
			obs = "Or"
		}
		g.emit("C16 accd sha256 %s %s", idx, inter(ops, obs))
		var sp []string
		for _, o := range ops {
			sp = append(sp, o)
			switch g.rng.intn(4) {
			case 0:
				sp = append(sp, obs)
			case 1:
				sp = append(sp, "Or")
			}
		}
		g.emit("C16 accd sha256 %s %s", idx, join(sp))
	}
	// SetIndex in the history: before the first leaf (the last one wins), after leaves (refused, state unchanged), on a
	// tree that was observed while empty; small trees exhaustively over (index, second index, position of the late SetIndex)
	for n := 1; n <= 4; n++ {
		var ps []string
		for k := 0; k < n; k++ {
			ps = append(ps, "P:"+leafHex(k))
		}
		for a := 0; a <= n; a++ {
			for b := 0; b <= n; b++ {
				g.emit("C16 accd sha256 x Or I:%x Op Or I:%x Op %s", a, b, inter(ps, "Op"))
				g.emit("C16 accd sha256 %x I:%x %s", a, b, inter(ps, "Op"))
				for j := 1; j <= n; j++ {
					g.emit("C16 accd sha256 %x %s", a, single(ps, j, fmt.Sprintf("I:%x", b), "Op"))
					g.emit("C16 accd sha256 x %s", single(ps, j, "Or", fmt.Sprintf("I:%x", b), "Or"))
				}
			}
		}
		g.emit("C16 accd sha256 x %s", inter(ps, "Op")) // Prove without SetIndex: not a history of the property (bad-op)
	}
	// valid histories of larger trees: Push / aligned PushSubTree of 2^h leaves (h <= 5) not containing the proof index /
	// ReadAll, up to ~140 leaves, observed at every point and at random points
	for it := 0; it < g.budget(120, 1200); it++ {
		total := 1 + g.rng.intn(140)
		if it%4 == 0 {
			total = 1 + g.rng.intn(12)
		}
		pi := g.rng.intn(total + 1)
		proof := g.rng.intn(4) != 0
		var ops []string
		c := 0
		for c < total {
			maxh := 0
			for maxh < 5 && c%(2<<maxh) == 0 && c+(2<<maxh) <= total {
				maxh++
			}
			switch r := g.rng.intn(10); {
			case r < 5 && c+1<<maxh <= total:
				h := maxh
				if g.rng.intn(3) == 0 {
					h = g.rng.intn(maxh + 1)
				}
				if proof && pi >= c && pi < c+1<<h {
					ops = append(ops, "P:"+leafHex(c))
					c++
					continue
				}
				var ls []string
				for k := 0; k < 1<<h; k++ {
					ls = append(ls, leafHex(c+k))
				}
				ops = append(ops, fmt.Sprintf("S:%x:%s", h, strings.Join(ls, ",")))
				c += 1 << h
			case r == 5 && c+2 <= total:
				m := 2 + g.rng.intn(3)
				if c+m > total {
					m = total - c
				}
				var b []byte
				for k := 0; k < m; k++ {
					b = append(b, byte(c+k), byte((c+k)*7), 0x11)
				}
				ops = append(ops, "R:3:"+hexBytes(b))
				c += m
			default:
				ops = append(ops, "P:"+leafHex(c))
				c++
			}
		}
		idx, obs := "x", "Or"
		if proof {
			idx, obs = fmt.Sprintf("%x", pi), "Op"
		}
		g.emit("C16 accd sha256 %s %s", idx, join(ops))
		g.emit("C16 accd sha256 %s %s", idx, inter(ops, obs))
		for rep := 0; rep < 2; rep++ {
			var sp []string
			for _, o := range ops {
				sp = append(sp, o)
				if g.rng.intn(5) == 0 || (rep == 1 && strings.HasPrefix(o, "S:") && g.rng.coin()) {
					sp = append(sp, []string{obs, "Or"}[g.rng.intn(2)])
				}
			}
			g.emit("C16 accd sha256 %s %s", idx, join(sp))
		}
	}
}
