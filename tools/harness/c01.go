package main

import (
	"math/big"
	"strings"
)

func init() {
	executors["C01"] = func(a []string) string {
		if len(a) < 2 {
			return "bad-op"
		}
		f, ok := fields[a[0]]
		if !ok {
			return "bad-op"
		}
		return f.Op(a[1], a[2:])
	}
	generators["C01"] = genC01
}

// boundary lattice of raw values < q for a field (every carry / borrow / final-subtraction boundary)
func fieldLattice(f fieldAPI, r *rng, nrand int) []*big.Int {
	q := f.Q()
	w := uint(f.WordBits())
	n := f.Limbs()
	one := big.NewInt(1)
	R := new(big.Int).Lsh(one, w*uint(n))
	var out []*big.Int
	seen := map[string]bool{}
	add := func(v *big.Int) {
		if v.Sign() < 0 || v.Cmp(q) >= 0 {
			return
		}
		k := v.Text(16)
		if !seen[k] {
			seen[k] = true
			out = append(out, new(big.Int).Set(v))
		}
	}
	sub := func(a *big.Int, k int64) *big.Int { return new(big.Int).Sub(a, big.NewInt(k)) }
	add(big.NewInt(0))
	add(big.NewInt(1))
	add(big.NewInt(2))
	add(sub(q, 1))
	add(sub(q, 2))
	h := new(big.Int).Rsh(q, 1)
	add(h)
	add(sub(h, -1))
	add(sub(h, 1))
	rm := new(big.Int).Mod(R, q)
	add(rm)
	add(sub(rm, 1))
	add(sub(rm, -1))
	add(new(big.Int).Sub(q, rm))
	for i := 1; i <= n; i++ {
		p := new(big.Int).Lsh(one, w*uint(i))
		add(sub(p, 1))
		add(p)
		add(sub(p, -1))
		p2 := new(big.Int).Lsh(one, w*uint(i)-1)
		add(p2)
		add(sub(p2, 1))
	}
	// q with one limb perturbed, q with low limbs zeroed / saturated
	mask := new(big.Int).Sub(new(big.Int).Lsh(one, w), one)
	for i := 0; i < n; i++ {
		d := new(big.Int).Lsh(one, w*uint(i))
		add(new(big.Int).Sub(q, d))
		add(new(big.Int).Add(q, d))
		lowz := new(big.Int).AndNot(q, new(big.Int).Lsh(mask, w*uint(i)))
		add(lowz)
		add(new(big.Int).Or(q, new(big.Int).Lsh(mask, w*uint(i))))
		add(new(big.Int).Mod(new(big.Int).Or(q, new(big.Int).Lsh(mask, w*uint(i))), q))
	}
	for i := 0; i < nrand; i++ {
		add(r.bigBelow(q))
	}
	return out
}

func hexList(vs []*big.Int) string {
	if len(vs) == 0 {
		return "-"
	}
	ss := make([]string, len(vs))
	for i, v := range vs {
		ss[i] = hexBig(v)
	}
	return strings.Join(ss, ",")
}

func signedHex(v *big.Int) string {
	if v.Sign() < 0 {
		return "-" + new(big.Int).Neg(v).Text(16)
	}
	return v.Text(16)
}

func genC01(g *gen) {
	for _, name := range fieldNames {
		genC01Field(g, fields[name])
	}
}

func genC01Field(g *gen, f fieldAPI) {
	n := f.Name()
	q := f.Q()
	lat := fieldLattice(f, g.rng, g.budget(6, 40))
	R := new(big.Int).Lsh(big.NewInt(1), uint(f.WordBits()*f.Limbs()))
	toMont := func(v *big.Int) *big.Int { t := new(big.Int).Mul(v, R); return t.Mod(t, q) }
	pick := func() *big.Int {
		if g.rng.intn(3) == 0 {
			return lat[g.rng.intn(len(lat))]
		}
		return g.rng.bigBelow(q)
	}
	// unary ops on the whole lattice
	for _, op := range []string{"square", "neg", "double", "halve", "inv", "mulby3", "mulby5", "mulby13", "legendre", "lexlargest", "iszero", "isone", "bitlen", "sqrt"} {
		for _, x := range lat {
			g.emit("C01 %s %s %s", n, op, hexBig(x))
		}
	}
	g.emit("C01 %s one", n)
	// binary ops: lattice × lattice (sampled in quick), then random
	stride := g.budget(3, 1)
	k := 0
	for _, op := range []string{"add", "sub", "mul", "div", "butterfly", "cmp", "equal"} {
		for i, x := range lat {
			for j, y := range lat {
				k++
				if i != j && k%stride != 0 {
					continue
				}
				if op == "div" && k%(stride*25) != 0 { // inversion is the expensive op for the model
					continue
				}
				g.emit("C01 %s %s %s %s", n, op, hexBig(x), hexBig(y))
			}
		}
		for i := 0; i < g.budget(50, 2000); i++ {
			g.emit("C01 %s %s %s %s", n, op, hexBig(pick()), hexBig(pick()))
		}
	}
	for _, c := range []string{"0", "1", "2", "-1"} {
		g.emit("C01 %s select %s %s %s", n, c, hexBig(pick()), hexBig(pick()))
	}
	// word-structured CANONICAL values (the comparisons work limb by limb on the regular form): pairs that agree on all words
	// above word j and differ in word j, with the words below j ordered the other way (or equal / extreme), both orders, for
	// every j; and values that agree with (q-1)/2 above word j for LexicographicallyLargest
	{
		w := uint(f.WordBits())
		nl := f.Limbs()
		wmask := new(big.Int).Sub(new(big.Int).Lsh(big.NewInt(1), w), big.NewInt(1))
		setWord := func(v *big.Int, j int, x *big.Int) *big.Int {
			r := new(big.Int).AndNot(v, new(big.Int).Lsh(wmask, w*uint(j)))
			return r.Or(r, new(big.Int).Lsh(new(big.Int).And(x, wmask), w*uint(j)))
		}
		below := func(v *big.Int) *big.Int { // force < q keeping the low words: halve the top word until it fits
			r := new(big.Int).Set(v)
			for r.Cmp(q) >= 0 {
				top := new(big.Int).Rsh(r, w*uint(nl-1))
				r = setWord(r, nl-1, top.Rsh(top, 1))
			}
			return r
		}
		half := new(big.Int).Rsh(new(big.Int).Sub(q, big.NewInt(1)), 1)
		tops := []*big.Int{big.NewInt(0), g.rng.bigBelow(q), new(big.Int).Sub(q, big.NewInt(1)), half}
		for j := 0; j < nl; j++ {
			for ti, c := range tops {
				if ti == 0 {
					c = big.NewInt(0)
				}
				u := new(big.Int).And(g.rng.bigBits(int(w)), wmask)
				for _, dv := range []int64{1, 2, -1} {
					var v *big.Int
					if dv < 0 {
						v = new(big.Int).And(g.rng.bigBits(int(w)), wmask)
					} else {
						v = new(big.Int).And(new(big.Int).Add(u, big.NewInt(dv)), wmask)
					}
					a, b := setWord(c, j, u), setWord(c, j, v)
					// words below j: a gets the larger tail when its word j is the smaller one (and vice versa), then equal tails
					for _, tail := range []int{0, 1, 2} {
						for k := 0; k < j; k++ {
							switch tail {
							case 0:
								a, b = setWord(a, k, wmask), setWord(b, k, big.NewInt(0))
							case 1:
								a, b = setWord(a, k, big.NewInt(0)), setWord(b, k, wmask)
							default:
								t := g.rng.bigBits(int(w))
								a, b = setWord(a, k, t), setWord(b, k, t)
							}
						}
						a2, b2 := below(a), below(b)
						for _, op := range []string{"cmp", "equal"} {
							g.emit("C01 %s %s %s %s", n, op, hexBig(toMont(a2)), hexBig(toMont(b2)))
							g.emit("C01 %s %s %s %s", n, op, hexBig(toMont(b2)), hexBig(toMont(a2)))
						}
					}
				}
			}
			// LexicographicallyLargest: equal to (q-1)/2 above word j, word j off by ±1, tails 0 / max / random
			hw := new(big.Int).And(new(big.Int).Rsh(half, w*uint(j)), wmask)
			for _, d := range []int64{-1, 0, 1} {
				x := setWord(half, j, new(big.Int).Add(hw, big.NewInt(d)))
				for _, tail := range []int{0, 1, 2, 3} {
					y := new(big.Int).Set(x)
					for k := 0; k < j; k++ {
						switch tail {
						case 0:
							y = setWord(y, k, big.NewInt(0))
						case 1:
							y = setWord(y, k, wmask)
						case 2:
							y = setWord(y, k, g.rng.bigBits(int(w)))
						}
					}
					if y.Cmp(q) < 0 && y.Sign() >= 0 {
						g.emit("C01 %s lexlargest %s", n, hexBig(toMont(y)))
					}
				}
			}
		}
	}
	// exponents: 0, ±1, ±2, ±(q-1), ±q, ±(q-2), 2^k, 2^k-1, long random, negative
	qm1 := new(big.Int).Sub(q, big.NewInt(1))
	exps := []*big.Int{big.NewInt(0), big.NewInt(1), big.NewInt(-1), big.NewInt(2), big.NewInt(-2), big.NewInt(3), qm1, new(big.Int).Neg(qm1), q, new(big.Int).Neg(q),
		new(big.Int).Sub(q, big.NewInt(2)), new(big.Int).Lsh(big.NewInt(1), 64), new(big.Int).Sub(new(big.Int).Lsh(big.NewInt(1), 64), big.NewInt(1)),
		new(big.Int).Lsh(big.NewInt(1), 63), new(big.Int).Lsh(big.NewInt(1), 300)}
	for i := 0; i < g.budget(3, 20); i++ {
		e := g.rng.bigBits(1 + g.rng.intn(g.budget(700, 3000)))
		if g.rng.coin() {
			e.Neg(e)
		}
		exps = append(exps, e)
	}
	bases := []*big.Int{big.NewInt(0), toMont(big.NewInt(1)), toMont(big.NewInt(2)), toMont(qm1), pick(), pick()}
	for _, e := range exps {
		for _, b := range bases {
			g.emit("C01 %s exp %s %s", n, hexBig(b), signedHex(e))
		}
	}
	// squares and non-squares for sqrt / legendre
	nr := big.NewInt(2)
	for big.Jacobi(nr, q) != -1 {
		nr.Add(nr, big.NewInt(1))
	}
	for i := 0; i < g.budget(10, 200); i++ {
		v := g.rng.bigBelow(q)
		sq := new(big.Int).Mul(v, v)
		sq.Mod(sq, q)
		nsq := new(big.Int).Mul(sq, nr)
		nsq.Mod(nsq, q)
		g.emit("C01 %s sqrt %s", n, hexBig(toMont(sq)))
		g.emit("C01 %s sqrt %s", n, hexBig(toMont(nsq)))
		g.emit("C01 %s legendre %s", n, hexBig(toMont(sq)))
		g.emit("C01 %s legendre %s", n, hexBig(toMont(nsq)))
	}
	// batch inversion and vectors of every length 0..L (zeros at every position)
	maxLen := g.budget(20, 70)
	for l := 0; l <= maxLen; l++ {
		mk := func() []*big.Int {
			v := make([]*big.Int, l)
			for i := range v {
				v[i] = pick()
				if g.rng.intn(5) == 0 {
					v[i] = big.NewInt(0)
				}
			}
			return v
		}
		a, b := mk(), mk()
		g.emit("C01 %s batchinv %s", n, hexList(a))
		g.emit("C01 %s vadd %s %s", n, hexList(a), hexList(b))
		g.emit("C01 %s vsub %s %s", n, hexList(a), hexList(b))
		g.emit("C01 %s vmul %s %s", n, hexList(a), hexList(b))
		g.emit("C01 %s vscalarmul %s %s", n, hexList(a), hexBig(pick()))
		g.emit("C01 %s vsum %s", n, hexList(a))
		g.emit("C01 %s vinner %s %s", n, hexList(a), hexList(b))
	}
	// operand lengths that differ: every path must panic (documented), whatever the kernel/generic dispatch
	for _, ll := range [][2]int{{0, 1}, {1, 0}, {3, 4}, {16, 17}, {17, 16}, {0, 16}, {32, 0}} {
		mkl := func(l int) []*big.Int {
			v := make([]*big.Int, l)
			for i := range v {
				v[i] = pick()
			}
			return v
		}
		a, b := mkl(ll[0]), mkl(ll[1])
		for _, op := range []string{"vadd", "vsub", "vmul", "vinner"} {
			g.emit("C01 %s %s %s %s", n, op, hexList(a), hexList(b))
		}
	}
	if g.thorough() {
		for _, l := range []int{255, 256, 257, 511, 512, 513, 1023, 1024, 1025, 4099} {
			v := make([]*big.Int, l)
			w := make([]*big.Int, l)
			for i := range v {
				v[i], w[i] = pick(), pick()
			}
			g.emit("C01 %s vadd %s %s", n, hexList(v), hexList(w))
			g.emit("C01 %s vmul %s %s", n, hexList(v), hexList(w))
			g.emit("C01 %s vsum %s", n, hexList(v))
			g.emit("C01 %s vinner %s %s", n, hexList(v), hexList(w))
			g.emit("C01 %s vscalarmul %s %s", n, hexList(v), hexBig(pick()))
			g.emit("C01 %s batchinv %s", n, hexList(v))
		}
	}
}
