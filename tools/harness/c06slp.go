package main

// C06slp — correspondence of the TRANSLATED tower defs (tools/goslp/slp.go -> Gen/Tower/*.lean) with the Go methods
// they were translated from, for EVERY alias pattern the translator emitted (C19 second line).
//
//   C06slp <pkg> <lean def> <pattern> <hex…>
//     pkg      bn254 | bls12_381 | … | koalabear …
//     lean def E12.Mul_z_eq_y …       (base name up to the first '_' = Go receiver type + method)
//     pattern  block index per position (receiver first), e.g. 0,1,0  = receiver aliases the 2nd argument
//     hex…     initial value of every block in order of first occurrence, flattened in Go field order
//   answer: [value result] ++ final value of every block, flattened; booleans as 0/1.
//
// The op list comes from the translator (Gen/Tower/exec_ops.txt): nothing is hand-picked. Methods are called by
// reflection on the exported GT alias of each curve (its field types give the lower tower levels).

import (
	"bufio"
	"math/big"
	"os"
	"reflect"
	"strings"

	bls12377 "github.com/consensys/gnark-crypto/ecc/bls12-377"
	bls12381 "github.com/consensys/gnark-crypto/ecc/bls12-381"
	bls24315 "github.com/consensys/gnark-crypto/ecc/bls24-315"
	bls24317 "github.com/consensys/gnark-crypto/ecc/bls24-317"
	"github.com/consensys/gnark-crypto/ecc/bn254"
	bw6633 "github.com/consensys/gnark-crypto/ecc/bw6-633"
	bw6761 "github.com/consensys/gnark-crypto/ecc/bw6-761"
	bbext "github.com/consensys/gnark-crypto/field/babybear/extensions"
	glext "github.com/consensys/gnark-crypto/field/goldilocks/extensions"
	kbext "github.com/consensys/gnark-crypto/field/koalabear/extensions"
)

var slpRoots = map[string]reflect.Type{
	"bn254":      reflect.TypeOf(bn254.GT{}),
	"bls12_381":  reflect.TypeOf(bls12381.GT{}),
	"bls12_377":  reflect.TypeOf(bls12377.GT{}),
	"bls24_315":  reflect.TypeOf(bls24315.GT{}),
	"bls24_317":  reflect.TypeOf(bls24317.GT{}),
	"bw6_761":    reflect.TypeOf(bw6761.GT{}),
	"bw6_633":    reflect.TypeOf(bw6633.GT{}),
	"koalabear":  reflect.TypeOf(kbext.E4{}),
	"babybear":   reflect.TypeOf(bbext.E4{}),
	"goldilocks": reflect.TypeOf(glext.E2{}),
}

// type name -> type, for every struct reachable from the root (E12 -> E6 -> E2 -> Element)
var slpTypes = map[string]map[string]reflect.Type{}

func slpCollect(m map[string]reflect.Type, t reflect.Type) {
	if t.Kind() == reflect.Array && t.Name() == "Element" {
		m["Element"] = t
		return
	}
	if t.Kind() != reflect.Struct || m[t.Name()] != nil {
		return
	}
	m[t.Name()] = t
	for i := 0; i < t.NumField(); i++ {
		slpCollect(m, t.Field(i).Type)
	}
}

func isElement(t reflect.Type) bool { return t.Kind() == reflect.Array && t.Name() == "Element" }

// number of base-field coordinates of a field-like type
func slpSize(t reflect.Type) int {
	switch {
	case isElement(t):
		return 1
	case t.Kind() == reflect.Struct:
		n := 0
		for i := 0; i < t.NumField(); i++ {
			n += slpSize(t.Field(i).Type)
		}
		return n
	case t.Kind() == reflect.Array:
		return t.Len() * slpSize(t.Elem())
	}
	return 0
}

func slpFill(v reflect.Value, xs *[]*big.Int) {
	t := v.Type()
	switch {
	case isElement(t):
		x := big.NewInt(0)
		if len(*xs) > 0 {
			x, *xs = (*xs)[0], (*xs)[1:]
		}
		v.Addr().MethodByName("SetBigInt").Call([]reflect.Value{reflect.ValueOf(x)})
	case t.Kind() == reflect.Struct:
		for i := 0; i < t.NumField(); i++ {
			slpFill(v.Field(i), xs)
		}
	case t.Kind() == reflect.Array:
		for i := 0; i < t.Len(); i++ {
			slpFill(v.Index(i), xs)
		}
	}
}

func slpFlat(v reflect.Value, out *[]string) {
	t := v.Type()
	switch {
	case isElement(t):
		var b big.Int
		p := reflect.New(t)
		p.Elem().Set(v)
		p.MethodByName("BigInt").Call([]reflect.Value{reflect.ValueOf(&b)})
		*out = append(*out, hexBig(&b))
	case t.Kind() == reflect.Struct:
		for i := 0; i < t.NumField(); i++ {
			slpFlat(v.Field(i), out)
		}
	case t.Kind() == reflect.Array:
		for i := 0; i < t.Len(); i++ {
			slpFlat(v.Index(i), out)
		}
	case t.Kind() == reflect.Bool:
		*out = append(*out, boolStr(v.Bool()))
	}
}

type slpOp struct {
	pkg, def, key string
	pat           []int
	types         []string
}

func slpMethod(pkg, key string) (reflect.Type, reflect.Method, bool) {
	tm := slpTypes[pkg]
	parts := strings.SplitN(key, ".", 2)
	if tm == nil || len(parts) != 2 || tm[parts[0]] == nil {
		return nil, reflect.Method{}, false
	}
	rt := tm[parts[0]]
	m, ok := reflect.PointerTo(rt).MethodByName(parts[1])
	return rt, m, ok
}

func execC06slp(a []string) string {
	if len(a) < 3 {
		return "bad-op"
	}
	pkg, def := a[0], a[1]
	key := def
	if i := strings.Index(def, "_"); i >= 0 {
		key = def[:i]
	}
	_, m, ok := slpMethod(pkg, key)
	if !ok {
		return "bad-op"
	}
	var pat []int
	for _, s := range strings.Split(a[2], ",") {
		pat = append(pat, int(parseBig(s).Int64()))
	}
	mt := m.Type // receiver is In(0)
	if mt.NumIn() != len(pat) {
		return "bad-op"
	}
	var xs []*big.Int
	for _, h := range a[3:] {
		xs = append(xs, parseBig(h))
	}
	// one cell per block
	cells := map[int]reflect.Value{}
	var order []int
	args := make([]reflect.Value, len(pat))
	for i, b := range pat {
		pt := mt.In(i)
		if pt.Kind() != reflect.Pointer {
			return "bad-op"
		}
		c, seen := cells[b]
		if !seen {
			c = reflect.New(pt.Elem())
			slpFill(c.Elem(), &xs)
			cells[b] = c
			order = append(order, b)
		} else if c.Type() != pt {
			return "bad-op"
		}
		args[i] = c
	}
	res := m.Func.Call(args)
	var out []string
	if len(res) == 1 {
		r := res[0]
		switch {
		case r.Kind() == reflect.Bool:
			slpFlat(r, &out)
			return join(out)
		case r.Kind() == reflect.Pointer:
			fresh := !r.IsNil()
			for _, c := range cells {
				if c.Type() == r.Type() && c.Pointer() == r.Pointer() {
					fresh = false
				}
			}
			if fresh {
				slpFlat(r.Elem(), &out)
			}
		default:
			slpFlat(r, &out)
		}
	}
	for _, b := range order {
		slpFlat(cells[b].Elem(), &out)
	}
	return join(out)
}

func slpLoadOps() []slpOp {
	dir := os.Getenv("GV_GEN_DIR")
	if dir == "" {
		dir = "/verif/lean/GnarkVerif/Gen"
	}
	f, err := os.Open(dir + "/Tower/exec_ops.txt")
	if err != nil {
		return nil
	}
	defer f.Close()
	var ops []slpOp
	sc := bufio.NewScanner(f)
	for sc.Scan() {
		w := strings.Fields(sc.Text())
		if len(w) != 5 {
			continue
		}
		op := slpOp{pkg: w[0], def: w[1], key: w[2], types: strings.Split(w[4], ",")}
		for _, s := range strings.Split(w[3], ",") {
			op.pat = append(op.pat, int(parseBig(s).Int64()))
		}
		ops = append(ops, op)
	}
	return ops
}

// values: boundary lattice of the base field + random
func slpValue(g *gen, q *big.Int, special bool) *big.Int {
	if special {
		switch g.rng.intn(6) {
		case 0:
			return big.NewInt(0)
		case 1:
			return big.NewInt(1)
		case 2:
			return new(big.Int).Sub(q, big.NewInt(1))
		case 3:
			return big.NewInt(2)
		case 4:
			return new(big.Int).Rsh(q, 1)
		}
	}
	return g.rng.bigBelow(q)
}

func genC06slp(g *gen) {
	ops := slpLoadOps()
	if len(ops) == 0 {
		g.emit("C06slp missing-exec_ops")
		return
	}
	reps := g.budget(2, 12)
	for _, op := range ops {
		_, m, ok := slpMethod(op.pkg, op.key)
		if !ok || m.Type.NumIn() != len(op.pat) {
			continue // not reachable through the exported API (unexported helper, package-level function)
		}
		mod := slpModulus(op.pkg)
		// sizes of the blocks in order of first occurrence
		seen := map[int]bool{}
		var sizes []int
		bad := false
		for i, b := range op.pat {
			if seen[b] {
				continue
			}
			seen[b] = true
			pt := m.Type.In(i)
			if pt.Kind() != reflect.Pointer {
				bad = true
				break
			}
			sizes = append(sizes, slpSize(pt.Elem()))
		}
		if bad {
			continue
		}
		pat := make([]string, len(op.pat))
		for i, b := range op.pat {
			pat[i] = hexBig(big.NewInt(int64(b)))
		}
		// r%3 = 0: fully random; 1: many boundary coordinates (zero sub-coordinates, 1, -1 …); 2: limb-level boundaries —
		// consecutive coordinates (the A0, A1 of every E2) equal / differing only in the low Montgomery limbs / one apart,
		// Montgomery representations with 0, 1, 2^w−1 limbs (carry and borrow chains of the assembly kernels)
		for r := 0; r < reps+(reps+1)/2; r++ {
			var coords []string
			for _, n := range sizes {
				if r%3 == 2 {
					coords = append(coords, slpLimbCoords(g, op.pkg, mod, n)...)
					continue
				}
				for k := 0; k < n; k++ {
					coords = append(coords, hexBig(slpValue(g, mod, r%3 == 1 && g.rng.intn(3) > 0)))
				}
			}
			g.emit("C06slp %s %s %s %s", op.pkg, op.def, strings.Join(pat, ","), join(coords))
		}
	}
}

// word size and number of words of the base-field Element of a package
func slpWords(pkg string) (w, limbs int) {
	et := slpTypes[pkg]["Element"]
	return et.Elem().Bits(), et.Len()
}

// an integer m < q whose words are 0, 1, 2^w−1, 2^w−2 or random (m is the Montgomery representation of the value returned)
func slpMontBoundary(g *gen, q *big.Int, w, limbs int) *big.Int {
	m := new(big.Int)
	if g.rng.intn(6) == 0 { // just below the modulus
		return m.Sub(q, big.NewInt(int64(1+g.rng.intn(3))))
	}
	max := new(big.Int).Sub(new(big.Int).Lsh(big.NewInt(1), uint(w)), big.NewInt(1))
	for i := 0; i < limbs; i++ {
		var l *big.Int
		switch g.rng.intn(6) {
		case 0, 1:
			l = new(big.Int)
		case 2:
			l = big.NewInt(1)
		case 3:
			l = new(big.Int).Set(max)
		case 4:
			l = new(big.Int).Sub(max, big.NewInt(1))
		default:
			l = g.rng.bigBits(w)
		}
		m.Or(m, l.Lsh(l, uint(i*w)))
	}
	for m.Cmp(q) >= 0 { // clear the top bits until m < q
		m.SetBit(m, m.BitLen()-1, 0)
	}
	return m
}

// n coordinates, generated in consecutive pairs (a0, a1) related at the limb level
func slpLimbCoords(g *gen, pkg string, q *big.Int, n int) []string {
	w, limbs := slpWords(pkg)
	R := new(big.Int).Lsh(big.NewInt(1), uint(w*limbs))
	rinv := new(big.Int).ModInverse(R, q)
	fromMont := func(m *big.Int) *big.Int { v := new(big.Int).Mul(m, rinv); return v.Mod(v, q) }
	out := make([]string, 0, n)
	for len(out) < n {
		var a0, a1 *big.Int
		if g.rng.coin() {
			a1 = g.rng.bigBelow(q)
		} else {
			a1 = fromMont(slpMontBoundary(g, q, w, limbs))
		}
		switch g.rng.intn(5) {
		case 0:
			a0 = new(big.Int).Set(a1)
		case 1, 2: // Montgomery representations differ by d, |d| < 2^(w·(limbs−1)): the top limb of the difference is 0 or −1
			var d *big.Int
			switch g.rng.intn(5) {
			case 0:
				d = big.NewInt(1)
			case 1:
				d = new(big.Int).Lsh(big.NewInt(1), uint(w))
			case 2:
				d = new(big.Int).Sub(new(big.Int).Lsh(big.NewInt(1), uint(w)), big.NewInt(1))
			case 3:
				d = new(big.Int).Sub(new(big.Int).Lsh(big.NewInt(1), uint(w*(limbs-1))), big.NewInt(1))
			default:
				d = g.rng.bigBits(1 + g.rng.intn(w*(limbs-1)+1))
			}
			if g.rng.coin() {
				d.Neg(d)
			}
			a0 = new(big.Int).Add(a1, fromMont(new(big.Int).Mod(d, q)))
			a0.Mod(a0, q)
		case 3:
			a0 = fromMont(slpMontBoundary(g, q, w, limbs))
		default: // one apart as field elements
			a0 = new(big.Int).Add(a1, big.NewInt(int64(1-2*g.rng.intn(2))))
			a0.Mod(a0, q)
		}
		if g.rng.coin() {
			a0, a1 = a1, a0
		}
		out = append(out, hexBig(a0))
		if len(out) < n {
			out = append(out, hexBig(a1))
		}
	}
	return out
}

var slpMods = map[string]*big.Int{}

func slpModulus(pkg string) *big.Int {
	if q := slpMods[pkg]; q != nil {
		return q
	}
	// q = (0 - 1) + 1 computed through the Element API: BigInt(-1) + 1
	et := slpTypes[pkg]["Element"]
	e := reflect.New(et)
	e.MethodByName("SetOne").Call(nil)
	e.MethodByName("Neg").Call([]reflect.Value{e})
	var b big.Int
	e.MethodByName("BigInt").Call([]reflect.Value{reflect.ValueOf(&b)})
	b.Add(&b, big.NewInt(1))
	slpMods[pkg] = &b
	return &b
}

func init() {
	for p, t := range slpRoots {
		slpTypes[p] = map[string]reflect.Type{}
		slpCollect(slpTypes[p], t)
	}
	executors["C06slp"] = execC06slp
	generators["C06slp"] = genC06slp
}
