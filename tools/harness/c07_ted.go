package main

// C07 — point codec of the twisted-Edwards packages (ecc/<curve>/twistededwards/point.go and bandersnatch; adapters:
// the edInst table of the C12 harness): PointAffine.Bytes / Marshal, SetBytes / Unmarshal.
//
//	C07 ted <inst> enc <x>;<y>     Bytes() (cross-checked with Marshal())                      → <hex>
//	C07 ted <inst> dec <hex>       SetBytes (cross-checked with Unmarshal)                     → ok <x>;<y> <consumed> | err:<class>
//
// acceptance set of the property: canonical ordinate (y < q), an abscissa exists, the point is on the curve, no sign
// bit on x = 0; every accepted string re-encodes to itself.

import (
	"bytes"
	"fmt"
	"math/big"
	"sort"
)

func execC07Ted(a []string) string {
	if len(a) != 4 {
		return "bad-op"
	}
	api := edInst[a[1]]
	if api == nil {
		return "bad-op"
	}
	switch a[2] {
	case "enc":
		var x, y big.Int
		if _, err := fmt.Sscanf(a[3], "%x;%x", &x, &y); err != nil {
			return "bad-op"
		}
		b := api.compress(&x, &y)
		if !bytes.Equal(b, api.ptMarshal(&x, &y)) {
			return "inconsistent:marshal"
		}
		return hexBytes(b)
	case "dec":
		buf := parseBytes(a[3])
		n, x, y, err := api.ptSetBytes(buf)
		x2, y2, err2 := api.ptUnmarshal(buf)
		if (err == nil) != (err2 == nil) || (err == nil && (x.Cmp(x2) != 0 || y.Cmp(y2) != 0)) {
			return "inconsistent:unmarshal"
		}
		if err != nil {
			// a refused string whose ordinate is not canonical is reported as such whatever reason the library gives
			// (the model tests canonicity first; both refuse)
			if r := c07Err(err); r != "err:short" && len(buf) >= api.params().size {
				P := api.params()
				le := append([]byte{}, buf[:P.size]...)
				for i, j := 0, P.size-1; i < j; i, j = i+1, j-1 {
					le[i], le[j] = le[j], le[i]
				}
				le[0] &= 0x7f
				if new(big.Int).SetBytes(le).Cmp(P.q) >= 0 {
					return "err:noncanon"
				}
			}
			return c07Err(err)
		}
		return fmt.Sprintf("ok %x;%x %x", x, y, n)
	}
	return "bad-op"
}

func genC07Ted(g *gen) {
	names := make([]string, 0, len(edInst))
	for n := range edInst {
		names = append(names, n)
	}
	sort.Strings(names)
	rg := g.rng
	for _, name := range names {
		api := edInst[name]
		P := api.params()
		q, size := P.q, P.size
		top := new(big.Int).Lsh(big.NewInt(1), uint(8*size-1)) // the sign bit
		le := func(v *big.Int) []byte {                          // little-endian, size bytes
			b := make([]byte, size)
			v.FillBytes(b)
			for i, j := 0, size-1; i < j; i, j = i+1, j-1 {
				b[i], b[j] = b[j], b[i]
			}
			return b
		}
		frame := func(y *big.Int, sign bool) []byte {
			v := new(big.Int).Set(y)
			if sign {
				v.Add(v, top)
			}
			return le(v)
		}
		dec := func(b []byte) { g.emit("C07 ted %s dec %s", name, hexBytes(b)) }
		// x² = (1-y²)/(a-d·y²) has a root
		hasX := func(y *big.Int) bool {
			y2 := new(big.Int).Mul(y, y)
			num := new(big.Int).Sub(big.NewInt(1), y2)
			den := new(big.Int).Sub(P.a, new(big.Int).Mul(P.d, y2))
			den.Mod(den, q)
			if den.Sign() == 0 {
				return false
			}
			r := num.Mul(num, den.ModInverse(den, q))
			r.Mod(r, q)
			return r.Sign() == 0 || big.Jacobi(r, q) == 1
		}
		// 1. points of the curve: identity, base point, multiples, the point of order 2, random multiples
		ks := []*big.Int{big.NewInt(0), big.NewInt(1), big.NewInt(2), new(big.Int).Sub(P.order, big.NewInt(1))}
		for i := 0; i < g.budget(6, 30); i++ {
			ks = append(ks, rg.bigBelow(P.order))
		}
		type pt struct{ x, y *big.Int }
		pts := []pt{{new(big.Int), new(big.Int).Sub(q, big.NewInt(1))}} // (0,-1)
		for _, k := range ks {
			x, y := api.smul(P.bx, P.by, k)
			pts = append(pts, pt{x, y})
		}
		for _, p := range pts {
			g.emit("C07 ted %s enc %x;%x", name, p.x, p.y)
			e := api.compress(p.x, p.y)
			dec(e)
			dec(append(append([]byte{}, e...), rg.bytes(1+rg.intn(4))...))
			for _, k := range []int{0, 1, size / 2, size - 1} {
				dec(e[:k])
			}
			// the other sign bit: the opposite point (for x = 0: a second spelling of the same point)
			f := append([]byte{}, e...)
			f[size-1] ^= 0x80
			dec(f)
			// y + q when it fits below the sign bit: a non-canonical spelling of the same ordinate
			if w := new(big.Int).Add(p.y, q); w.Cmp(top) < 0 {
				dec(frame(w, e[size-1]&0x80 != 0))
			}
		}
		// 2. ordinates: every residue class of interest, both sign bits
		ys := []*big.Int{big.NewInt(0), big.NewInt(1), big.NewInt(2), new(big.Int).Sub(q, big.NewInt(1)), new(big.Int).Sub(q, big.NewInt(2)),
			new(big.Int).Set(q), new(big.Int).Add(q, big.NewInt(1)), new(big.Int).Sub(top, big.NewInt(1))}
		nNo, nYes := 0, 0
		for nNo < g.budget(8, 40) || nYes < g.budget(8, 40) {
			y := rg.bigBelow(q)
			if hasX(y) {
				if nYes++; nYes > g.budget(8, 40) {
					continue
				}
			} else if nNo++; nNo > g.budget(8, 40) {
				continue
			}
			ys = append(ys, y)
		}
		for _, y := range ys {
			if y.Cmp(top) < 0 {
				dec(frame(y, false))
				dec(frame(y, true))
			}
		}
		// 3. random bytes of assorted lengths
		for i := 0; i < g.budget(8, 40); i++ {
			dec(rg.bytes([]int{0, 1, size - 1, size, size, size + 3}[rg.intn(6)]))
		}
	}
}
