#!/usr/bin/env python3
# generates c07_curves.go (adapters of the C07 harness over the curve packages that have a marshal.go)
# usage: python3 c07_gen.py > c07_curves.go
CURVES = [
    # name, package dir, layout (0 raw, 2, 3), a, g2 kind, stream, full type set
    ("bn254", "bn254", 2, 0, "e2", True, True),
    ("bls12-377", "bls12-377", 3, 0, "e2", True, True),
    ("bls12-381", "bls12-381", 3, 0, "e2", True, True),
    ("bls24-315", "bls24-315", 3, 0, "e4", True, True),
    ("bls24-317", "bls24-317", 3, 0, "e4", True, True),
    ("bw6-633", "bw6-633", 3, 0, "fp", True, True),
    ("bw6-761", "bw6-761", 3, 0, "fp", True, True),
    ("grumpkin", "grumpkin", 2, 0, None, True, True),
    ("stark-curve", "stark-curve", 2, 1, None, True, False),
    ("secp256k1", "secp256k1", 0, 0, None, False, False),
]

COMPS = {
    "fp": ["{c}"],
    "e2": ["{c}.A0", "{c}.A1"],
    "e4": ["{c}.B0.A0", "{c}.B0.A1", "{c}.B1.A0", "{c}.B1.A1"],
}


def comps(kind, c):
    return ", ".join("&" + s.format(c=c) for s in COMPS[kind])


def group(id, G, kind, a, layout, stream):
    has_comp = layout != 0
    o = []
    w = o.append
    w(f"\t{{")
    w(f"\t\tg := &c07Group{{name: \"{G}\", nc: {len(COMPS[kind])}, hasComp: {str(has_comp).lower()}}}")
    w(f"\t\txs := func(p *{id}.{G}Affine) []*{id}fp.Element {{ return []*{id}fp.Element{{{comps(kind, 'p.X')}}} }}")
    w(f"\t\tys := func(p *{id}.{G}Affine) []*{id}fp.Element {{ return []*{id}fp.Element{{{comps(kind, 'p.Y')}}} }}")
    w(f"\t\tfromPt := func(q c07Pt) {id}.{G}Affine {{")
    w(f"\t\t\tvar p {id}.{G}Affine")
    w(f"\t\t\tif q.inf {{ return p }}")
    w(f"\t\t\tfor i, e := range xs(&p) {{ e.SetBigInt(q.x[i]) }}")
    w(f"\t\t\tfor i, e := range ys(&p) {{ e.SetBigInt(q.y[i]) }}")
    w(f"\t\t\treturn p")
    w(f"\t\t}}")
    w(f"\t\ttoPt := func(p *{id}.{G}Affine) c07Pt {{")
    w(f"\t\t\tif p.X.IsZero() && p.Y.IsZero() {{ return c07Pt{{inf: true}} }}")
    w(f"\t\t\tvar q c07Pt")
    w(f"\t\t\tfor _, e := range xs(p) {{ q.x = append(q.x, e.BigInt(new(big.Int))) }}")
    w(f"\t\t\tfor _, e := range ys(p) {{ q.y = append(q.y, e.BigInt(new(big.Int))) }}")
    w(f"\t\t\treturn q")
    w(f"\t\t}}")
    if has_comp:
        w(f"\t\tg.enc = func(q c07Pt) []byte {{ p := fromPt(q); b := p.Bytes(); return b[:] }}")
        w(f"\t\tg.sizeC = {id}.SizeOf{G}AffineCompressed")
    else:
        w(f"\t\tg.sizeC = {id}.SizeOf{G}AffineCompressed")
    w(f"\t\tg.encRaw = func(q c07Pt) []byte {{ p := fromPt(q); b := p.RawBytes(); return b[:] }}")
    if has_comp:
        w(f"\t\tg.marshal = func(q c07Pt) []byte {{ p := fromPt(q); return p.Marshal() }}")
        w(f"\t\tg.unmarshal = func(b []byte) (c07Pt, error) {{ var p {id}.{G}Affine; err := p.Unmarshal(b); return toPt(&p), err }}")
    w(f"\t\tg.setBytes = func(b []byte) (c07Pt, int, error) {{ var p {id}.{G}Affine; n, err := p.SetBytes(b); return toPt(&p), n, err }}")
    # curve coefficient from the generator: b = y² - x³ - a·x
    w(f"\t\tgens := func() {id}.{G}Affine {{")
    if G == "G1":
        if kind_has_g2(id):
            w(f"\t\t\t_, _, g1, _ := {id}.Generators(); return g1")
        else:
            w(f"\t\t\t_, g1 := {id}.Generators(); return g1")
    else:
        w(f"\t\t\t_, _, _, g2 := {id}.Generators(); return g2")
    w(f"\t\t}}")
    w(f"\t\tgen := gens()")
    w(f"\t\tbco := gen.Y")
    w(f"\t\tbco.Square(&gen.Y)")
    w(f"\t\ttmp := gen.X")
    w(f"\t\ttmp.Square(&gen.X).Mul(&tmp, &gen.X)")
    w(f"\t\tbco.Sub(&bco, &tmp)")
    if a == 1:
        w(f"\t\tbco.Sub(&bco, &gen.X)")
    w(f"\t\tg.gen = func() c07Pt {{ p := gens(); return toPt(&p) }}")
    w(f"\t\tg.bcoeff = func() []*big.Int {{ var p {id}.{G}Affine; p.X = bco; return toCompsBig{id}(xs(&p)) }}")
    w(f"\t\tg.lift = func(x []*big.Int) (c07Pt, bool) {{")
    w(f"\t\t\tvar p {id}.{G}Affine")
    w(f"\t\t\tfor i, e := range xs(&p) {{ e.SetBigInt(x[i]) }}")
    w(f"\t\t\ty2 := p.X")
    w(f"\t\t\ty2.Square(&p.X).Mul(&y2, &p.X)")
    if a == 1:
        w(f"\t\t\ty2.Add(&y2, &p.X)")
    w(f"\t\t\ty2.Add(&y2, &bco)")
    w(f"\t\t\tif y2.Legendre() == -1 {{ return c07Pt{{}}, false }}")
    w(f"\t\t\tp.Y.Sqrt(&y2)")
    w(f"\t\t\tq := c07Pt{{}}")
    w(f"\t\t\tfor _, e := range xs(&p) {{ q.x = append(q.x, e.BigInt(new(big.Int))) }}")
    w(f"\t\t\tfor _, e := range ys(&p) {{ q.y = append(q.y, e.BigInt(new(big.Int))) }}")
    w(f"\t\t\treturn q, true")
    w(f"\t\t}}")
    w(f"\t\tg.onCurve = func(q c07Pt) bool {{ p := fromPt(q); return p.IsOnCurve() }}")
    w(f"\t\tg.inSub = func(q c07Pt) bool {{ p := fromPt(q); return p.IsInSubGroup() }}")
    w(f"\t\tg.mul = func(q c07Pt, k *big.Int) c07Pt {{")
    w(f"\t\t\tp := fromPt(q)")
    w(f"\t\t\tvar base, acc {id}.{G}Jac")
    w(f"\t\t\tbase.FromAffine(&p)")
    w(f"\t\t\tvar inf {id}.{G}Affine")
    w(f"\t\t\tacc.FromAffine(&inf)")
    w(f"\t\t\tfor i := k.BitLen() - 1; i >= 0; i-- {{")
    w(f"\t\t\t\tacc.DoubleAssign()")
    w(f"\t\t\t\tif k.Bit(i) == 1 {{ acc.AddAssign(&base) }}")
    w(f"\t\t\t}}")
    w(f"\t\t\tvar r {id}.{G}Affine")
    w(f"\t\t\tr.FromJacobian(&acc)")
    w(f"\t\t\treturn toPt(&r)")
    w(f"\t\t}}")
    # receivers holding a value (decode histories on single points): every curve
    w(f"\t\tg.mkPtr = func(q c07Pt) any {{ p := fromPt(q); return &p }}")
    w(f"\t\tg.newPtr = func() any {{ return new({id}.{G}Affine) }}")
    w(f"\t\tg.ptrVal = func(v any) c07Pt {{ return toPt(v.(*{id}.{G}Affine)) }}")
    if stream:
        w(f"\t\tg.mkSlice = func(qs []c07Pt) any {{ s := make([]{id}.{G}Affine, len(qs)); for i := range qs {{ s[i] = fromPt(qs[i]) }}; return s }}")
        w(f"\t\tg.mkSlicePtr = func(qs []c07Pt) any {{ s := make([]{id}.{G}Affine, len(qs)); for i := range qs {{ s[i] = fromPt(qs[i]) }}; return &s }}")
        w(f"\t\tg.newSlicePtr = func() any {{ return new([]{id}.{G}Affine) }}")
        w(f"\t\tg.sliceVal = func(v any) []c07Pt {{ s := *(v.(*[]{id}.{G}Affine)); r := make([]c07Pt, len(s)); for i := range s {{ r[i] = toPt(&s[i]) }}; return r }}")
    w(f"\t\tc.{G.lower()} = g")
    w(f"\t}}")
    return "\n".join(o)


_G2 = {}


def kind_has_g2(id):
    return _G2[id]


def field(id, f):
    F = f  # fr / fp
    o = []
    w = o.append
    w(f"\tc.{F} = &c07Field{{")
    w(f"\t\tbytes: {id}{F}.Bytes,")
    w(f"\t\tmodulus: {id}{F}.Modulus(),")
    w(f"\t\tmkPtr: func(v *big.Int) any {{ var e {id}{F}.Element; c07SetRaw{id}{F}(&e, v); return &e }},")
    w(f"\t\tnewPtr: func() any {{ return new({id}{F}.Element) }},")
    w(f"\t\tptrVal: func(v any) *big.Int {{ return v.(*{id}{F}.Element).BigInt(new(big.Int)) }},")
    w(f"\t\tmkSlice: func(vs []*big.Int) any {{ s := make([]{id}{F}.Element, len(vs)); for i := range vs {{ s[i].SetBigInt(vs[i]) }}; return s }},")
    w(f"\t\tnewSlicePtr: func() any {{ return new([]{id}{F}.Element) }},")
    w(f"\t\tsliceVal: func(v any) []*big.Int {{ s := *(v.(*[]{id}{F}.Element)); r := make([]*big.Int, len(s)); for i := range s {{ r[i] = s[i].BigInt(new(big.Int)) }}; return r }},")
    w(f"\t\tmkVec: func(vs []*big.Int) any {{ s := make({id}{F}.Vector, len(vs)); for i := range vs {{ s[i].SetBigInt(vs[i]) }}; return s }},")
    w(f"\t\tmkVecPtr: func(vs []*big.Int) any {{ s := make({id}{F}.Vector, len(vs)); for i := range vs {{ s[i].SetBigInt(vs[i]) }}; return &s }},")
    w(f"\t\tnewVecPtr: func() any {{ return new({id}{F}.Vector) }},")
    w(f"\t\tvecVal: func(v any) []*big.Int {{ s := *(v.(*{id}{F}.Vector)); r := make([]*big.Int, len(s)); for i := range s {{ r[i] = s[i].BigInt(new(big.Int)) }}; return r }},")
    w(f"\t\tmkSS: func(vs [][]*big.Int) any {{ s := make([][]{id}{F}.Element, len(vs)); for i := range vs {{ s[i] = make([]{id}{F}.Element, len(vs[i])); for j := range vs[i] {{ s[i][j].SetBigInt(vs[i][j]) }} }}; return s }},")
    w(f"\t\tnewSSPtr: func() any {{ return new([][]{id}{F}.Element) }},")
    w(f"\t\tssVal: func(v any) [][]*big.Int {{ s := *(v.(*[][]{id}{F}.Element)); r := make([][]*big.Int, len(s)); for i := range s {{ r[i] = make([]*big.Int, len(s[i])); for j := range s[i] {{ r[i][j] = s[i][j].BigInt(new(big.Int)) }} }}; return r }},")
    w(f"\t\tmkSSS: func(vs [][][]*big.Int) any {{ s := make([][][]{id}{F}.Element, len(vs)); for i := range vs {{ s[i] = make([][]{id}{F}.Element, len(vs[i])); for j := range vs[i] {{ s[i][j] = make([]{id}{F}.Element, len(vs[i][j])); for k := range vs[i][j] {{ s[i][j][k].SetBigInt(vs[i][j][k]) }} }} }}; return s }},")
    w(f"\t\tnewSSSPtr: func() any {{ return new([][][]{id}{F}.Element) }},")
    w(f"\t\tsssVal: func(v any) [][][]*big.Int {{ s := *(v.(*[][][]{id}{F}.Element)); r := make([][][]*big.Int, len(s)); for i := range s {{ r[i] = make([][]*big.Int, len(s[i])); for j := range s[i] {{ r[i][j] = make([]*big.Int, len(s[i][j])); for k := range s[i][j] {{ r[i][j][k] = s[i][j][k].BigInt(new(big.Int)) }} }} }}; return r }},")
    w(f"\t}}")
    return "\n".join(o)


def main():
    out = []
    w = out.append
    w("// Code generated by c07_gen.py; DO NOT EDIT. Adapters of the C07 harness over the curve packages with a marshal.go.")
    w("package main")
    w("")
    w("import (")
    w('\t"io"')
    w('\t"math/big"')
    w("")
    for (name, pkg, layout, a, g2, stream, full) in CURVES:
        id = name.replace("-", "")
        w(f'\t{id} "github.com/consensys/gnark-crypto/ecc/{pkg}"')
        w(f'\t{id}fp "github.com/consensys/gnark-crypto/ecc/{pkg}/fp"')
        w(f'\t{id}fr "github.com/consensys/gnark-crypto/ecc/{pkg}/fr"')
    w(")")
    w("")
    w("var _ io.Reader")
    w("")
    for (name, pkg, layout, a, g2, stream, full) in CURVES:
        id = name.replace("-", "")
        _G2[id] = g2 is not None
        w(f"func toCompsBig{id}(es []*{id}fp.Element) []*big.Int {{")
        w(f"\tr := make([]*big.Int, len(es))")
        w(f"\tfor i, e := range es {{ r[i] = e.BigInt(new(big.Int)) }}")
        w(f"\treturn r")
        w(f"}}")
        for F in ("fr", "fp"):
            w(f"func c07SetRaw{id}{F}(e *{id}{F}.Element, v *big.Int) {{ e.SetBigInt(v) }}")
        w("")
        w(f"func init() {{")
        w(f"\tc := &c07Curve{{name: \"{name}\", fpName: \"{name.replace('-', '_')}_fp\", frName: \"{name.replace('-', '_')}_fr\", layout: {layout}, a: {a}, hasStream: {str(stream).lower()}, fullTypes: {str(full).lower()}}}")
        w(group(id, "G1", "fp", a, layout, stream))
        if g2:
            w(group(id, "G2", g2, 0, layout, stream))
            # tower non-residues: u² (E2), v² (E4)
            if g2 in ("e2", "e4"):
                w(f"\t{{")
                w(f"\t\tvar p {id}.G2Affine")
                if g2 == "e2":
                    w(f"\t\tp.X.A1.SetOne()")
                    w(f"\t\tu := p.X")
                    w(f"\t\tu.Square(&p.X)")
                    w(f"\t\tc.nonres = append(c.nonres, []*big.Int{{u.A0.BigInt(new(big.Int)), u.A1.BigInt(new(big.Int))}})")
                else:
                    w(f"\t\tp.X.B0.A1.SetOne()")
                    w(f"\t\tu := p.X")
                    w(f"\t\tu.Square(&p.X)")
                    w(f"\t\tc.nonres = append(c.nonres, []*big.Int{{u.B0.A0.BigInt(new(big.Int)), u.B0.A1.BigInt(new(big.Int)), u.B1.A0.BigInt(new(big.Int)), u.B1.A1.BigInt(new(big.Int))}})")
                    w(f"\t\tvar q {id}.G2Affine")
                    w(f"\t\tq.X.B1.A0.SetOne()")
                    w(f"\t\tv := q.X")
                    w(f"\t\tv.Square(&q.X)")
                    w(f"\t\tc.nonres = append(c.nonres, []*big.Int{{v.B0.A0.BigInt(new(big.Int)), v.B0.A1.BigInt(new(big.Int)), v.B1.A0.BigInt(new(big.Int)), v.B1.A1.BigInt(new(big.Int))}})")
                w(f"\t}}")
        w(field(id, "fr"))
        w(field(id, "fp"))
        if stream:
            w(f"\tc.newDecoder = func(r io.Reader, sub bool) (func(any) error, func() int64) {{")
            w(f"\t\tvar d *{id}.Decoder")
            w(f"\t\tif sub {{ d = {id}.NewDecoder(r) }} else {{ d = {id}.NewDecoder(r, {id}.NoSubgroupChecks()) }}")
            w(f"\t\treturn d.Decode, d.BytesRead")
            w(f"\t}}")
            w(f"\tc.newEncoder = func(wr io.Writer, raw bool) (func(any) error, func() int64) {{")
            w(f"\t\tvar e *{id}.Encoder")
            w(f"\t\tif raw {{ e = {id}.NewEncoder(wr, {id}.RawEncoding()) }} else {{ e = {id}.NewEncoder(wr) }}")
            w(f"\t\treturn e.Encode, e.BytesWritten")
            w(f"\t}}")
        w(f"\tc07Curves[\"{name}\"] = c")
        w(f"\tc07CurveNames = append(c07CurveNames, \"{name}\")")
        w(f"}}")
        w("")
    print("\n".join(out))


main()
