#!/bin/sh
# C18 supporting evidence (NOT a proof tie): run C18 op lines under the Go race detector.
# usage: c18_race.sh <ops-file> <workdir>      (needs CGO_ENABLED=1 + a C compiler; prints "skipped" otherwise)
# Two builds: default (assembly field arithmetic is invisible to the race detector) and -tags purego (everything visible).
set -e
cd "$(dirname "$0")"
OPS=$1; W=$2; mkdir -p "$W"
export GOFLAGS=-mod=mod GOPROXY=off GOSUMDB=off GOTOOLCHAIN=local CGO_ENABLED=1
if ! go build -race -o "$W/gvharness-race" . 2>"$W/race-build.err"; then echo "skipped: go build -race unavailable"; exit 0; fi
go build -race -tags purego -o "$W/gvharness-race-purego" .
# entry-point lines and the `par` lines (entry points above the size threshold of their parallel implementation)
grep -E '^C18 (par )?[a-z0-9]+ [a-z0-9-]+ [0-9a-f]+ [0-9a-f]+ [0-9a-f]+ [0-9a-f]+$' "$OPS" > "$W/race-ops.txt" || true
for b in gvharness-race gvharness-race-purego; do
  rm -f "$W/$b.log."*
  GORACE="log_path=$W/$b.log halt_on_error=0" "$W/$b" -mode exec < "$W/race-ops.txt" > "$W/$b.out" 2>/dev/null || true
  echo "== $b: $(cat "$W/$b.log."* 2>/dev/null | grep -c 'WARNING: DATA RACE') race reports; racing library functions:"
  cat "$W/$b.log."* 2>/dev/null | grep -A8 -E '^(Write|Previous write|Read|Previous read) at' | grep -E '^\s+github' |
    grep -v '/fp\.\|/fr\.\|fptower' | sed -E 's/\(\).*//; s/^\s+//' | sort | uniq -c | sort -rn | head -25
done
