package main

// C04 — engineered inputs: explicit window values ("digit programs"), cancellation classes, batch-affine scheduler
// orderings; process isolation of the ops that start library goroutines.
//
// op line:  C04 MSMX <curve> <g1|g2> <aff|jac> <tower> <p> <a> <b> <r> <Gx> <Gy> <seed> <n> <c> <nbTasks> <gomaxprocs> <numCPU> <tail> <wlo> <whi> <prog>
//
// <aff|jac> = MultiExp of the affine / Jacobian receiver; `inner` = _innerMsmG1 / _innerMsmG2 run with the window <c> of the
// line through the verif-tagged overlay shim (the body of MultiExp below the choice of the window): a few hundred
// scripted points reach the batch-affine processor of every window, see c04Queue.
//
// prog = comma separated items  <body>[~][#j][@m | ^k][*rep]   (all numbers hex)
//   body  w | lo:hi       window value, or the sweep lo..hi (inclusive, descending when lo > hi)
//   ~                     the signed digit is −w (the processor SUBTRACTS the point from bucket w): the scalar is
//                         2^(c·whi) − w·Σ 2^(c·k) resp. (with #j) 2^(c·(j+1)) − w·2^(c·j): digit +1 in the window above
//   #j                    only window j carries the value (default: every window of [wlo, whi): the scalar is w·Σ 2^(c·k))
//   @m                    the point is [m·a0]G, m signed (default: the pairwise distinct point [a0 + i·d]G, i = position)
//   ^k                    the point is −[a0 + (i−k)·d]G: the opposite of the point k positions earlier
//   *rep                  the item rep times
// tail = 1 repeats the program cyclically up to n entries; 0 leaves the other scalars zero. Entries with value 0 and the
// entries of the tail have the point G and the scalar 0. (a0, d) are the first two draws of the splitmix64 stream <seed>.
// The model (Model/MSM.lean, xVectors) builds the same (a_i, s_i) and answers [Σ a_i·s_i mod r]G.

import (
	"bufio"
	"fmt"
	"io"
	"math/big"
	"os"
	"os/exec"
	"runtime"
	"strconv"
	"strings"
	"sync"
	"time"
)

// ---------------------------------------------------------------- program → input

type c04XEntry struct {
	w    int
	win  int      // -1: all windows of [wlo, whi)
	m    *big.Int // nil: generic point
	back int      // -1: none
	neg  bool     // digit −w
}

func c04SplitSuffix(s string, ch string) (string, string, bool) {
	p := strings.Split(s, ch)
	if len(p) == 2 {
		return p[0], p[1], true
	}
	return s, "", false
}

func c04ParseProg(prog string) []c04XEntry {
	if prog == "-" {
		return nil
	}
	var out []c04XEntry
	for _, it := range strings.Split(prog, ",") {
		rep := 1
		e := c04XEntry{win: -1, back: -1}
		if b, x, ok := c04SplitSuffix(it, "*"); ok {
			it, rep = b, c04ParseInt(x)
		}
		if b, x, ok := c04SplitSuffix(it, "^"); ok {
			it, e.back = b, c04ParseInt(x)
		}
		if b, x, ok := c04SplitSuffix(it, "@"); ok {
			it = b
			e.m, _ = new(big.Int).SetString(x, 16)
			if e.m == nil {
				e.m = new(big.Int)
			}
		}
		if b, x, ok := c04SplitSuffix(it, "#"); ok {
			it, e.win = b, c04ParseInt(x)
		}
		if strings.HasSuffix(it, "~") {
			it, e.neg = strings.TrimSuffix(it, "~"), true
		}
		var ws []int
		if lo, hi, ok := c04SplitSuffix(it, ":"); ok {
			l, h := c04ParseInt(lo), c04ParseInt(hi)
			if l <= h {
				for w := l; w <= h; w++ {
					ws = append(ws, w)
				}
			} else {
				for w := l; w >= h; w-- {
					ws = append(ws, w)
				}
			}
		} else {
			ws = []int{c04ParseInt(it)}
		}
		for k := 0; k < rep; k++ {
			for _, w := range ws {
				f := e
				f.w = w
				out = append(out, f)
			}
		}
	}
	return out
}

func c04RepUnit(c, lo, hi int) *big.Int {
	v := new(big.Int)
	for k := lo; k < hi; k++ {
		v.SetBit(v, c*k, 1)
	}
	return v
}

func c04MkInputX(r *big.Int, seed uint64, n, c, tail, wlo, whi int, prog string) *c04Input {
	limbs := (r.BitLen() + 63) / 64
	sm := &c04sm{s: seed}
	a0 := sm.nextFr(limbs, r)
	d := sm.nextFr(limbs, r)
	E := c04ParseProg(prog)
	L := len(E)
	rep := c04RepUnit(c, wlo, whi)
	in := &c04Input{A0: []*big.Int{a0}, D: d, prog: true, src: make([]int, n), sgn: make([]int8, n),
		A: make([]*big.Int, n), S: make([]*big.Int, n), nbase: 1}
	one := new(big.Int).Mod(big.NewInt(1), r)
	zero := new(big.Int)
	scal := map[[3]int]*big.Int{}
	for i := 0; i < n; i++ {
		var e *c04XEntry
		if L > 0 {
			if tail == 1 {
				e = &E[i%L]
			} else if i < L {
				e = &E[i]
			}
		}
		in.sgn[i] = 1
		if e == nil || e.w == 0 {
			in.A[i], in.S[i], in.src[i] = one, zero, -1
			continue
		}
		switch {
		case e.m != nil:
			v := new(big.Int).Mul(e.m, a0)
			in.A[i], in.src[i] = v.Mod(v, r), -1
		default:
			idx, sg := i, int8(1)
			if e.back >= 0 {
				idx, sg = i-e.back, -1
				if idx < 0 {
					idx = 0
				}
			}
			v := new(big.Int).Mul(big.NewInt(int64(idx)), d)
			v.Add(v, a0).Mod(v, r)
			if sg < 0 {
				v.Sub(r, v).Mod(v, r)
			}
			in.A[i], in.src[i], in.sgn[i] = v, idx, sg
			if idx+1 > in.nbase {
				in.nbase = idx + 1
			}
		}
		key := [3]int{e.w, e.win, 0}
		if e.neg {
			key[2] = 1
		}
		s, ok := scal[key]
		if !ok {
			top := whi
			if e.win >= 0 {
				s = new(big.Int).Lsh(big.NewInt(int64(e.w)), uint(c*e.win))
				top = e.win + 1
			} else {
				s = new(big.Int).Mul(big.NewInt(int64(e.w)), rep)
			}
			if e.neg {
				s.Sub(new(big.Int).Lsh(big.NewInt(1), uint(c*top)), s)
			}
			s.Mod(s, r)
			scal[key] = s
		}
		in.S[i] = s
	}
	return in
}

// one guarded call of MultiExp / Fold: panic → "panic", no return within c04Timeout(n) → "timeout"
func c04Guarded(g *c04Group, api string, in *c04Input, n, nbTasks, gmp int) string {
	ch := make(chan string, 1)
	go func() {
		defer func() {
			if r := recover(); r != nil {
				ch <- "panic"
			}
		}()
		ch <- g.run(api, in, nbTasks, gmp)
	}()
	select {
	case res := <-ch:
		return res
	case <-time.After(c04Timeout(n)):
		// the call did not return (lost token / deadlock): same answer as the per-op watchdog of main.go.
		// Its goroutines stay blocked; the GOMAXPROCS it may have changed is put back for the following ops.
		c04Hangs++
		runtime.GOMAXPROCS(runtime.NumCPU())
		return "timeout"
	}
}

func c04ExecX(a []string) string {
	if len(a) != 21 {
		return "bad-op"
	}
	g, ok := c04Groups[a[1]+"/"+a[2]]
	if !ok || (a[3] != "aff" && a[3] != "jac" && a[3] != "inner") {
		return "bad-op"
	}
	seed, _ := strconv.ParseUint(a[11], 16, 64)
	n := c04ParseInt(a[12])
	in := c04MkInputX(g.r, seed, n, c04ParseInt(a[13]), c04ParseInt(a[17]), c04ParseInt(a[18]), c04ParseInt(a[19]), a[20])
	api := a[3]
	if api == "inner" {
		api = "inner:" + a[13]
	}
	return c04Guarded(g, api, in, n, c04ParseInt(a[14]), c04ParseInt(a[15]))
}

// ---------------------------------------------------------------- process isolation
//
// A panic in a goroutine started by the library (chunk processors, parallel.Execute workers) cannot be recovered by the
// caller: it ends the process. MSM / MSMX / BSM lines are therefore answered by a child process (the same binary in exec
// mode, one long-lived worker); when the worker dies on a line, that line is answered "crash" and a new worker serves
// the following lines, so that exactly the op that killed it is reported. GV_C04_NOISO=1 runs everything in-process.

type c04Child struct {
	cmd *exec.Cmd
	in  io.WriteCloser
	out *bufio.Reader
}

var (
	c04WorkerMu sync.Mutex
	c04Worker   *c04Child
	c04IsChild  = os.Getenv("GV_C04_CHILD") != ""
	c04NoIso    = os.Getenv("GV_C04_NOISO") != ""
)

func c04Spawn() *c04Child {
	exe, err := os.Executable()
	if err != nil {
		return nil
	}
	cmd := exec.Command(exe, "-mode", "exec")
	cmd.Env = append(os.Environ(), "GV_C04_CHILD=1")
	cmd.Stderr = os.Stderr
	in, err1 := cmd.StdinPipe()
	out, err2 := cmd.StdoutPipe()
	if err1 != nil || err2 != nil || cmd.Start() != nil {
		return nil
	}
	return &c04Child{cmd: cmd, in: in, out: bufio.NewReaderSize(out, 1<<16)}
}

func (c *c04Child) kill() {
	c.in.Close()
	c.cmd.Process.Kill()
	c.cmd.Wait()
}

func c04Isolated(a []string, n int) string {
	c04WorkerMu.Lock()
	defer c04WorkerMu.Unlock()
	if c04Worker == nil {
		if c04Worker = c04Spawn(); c04Worker == nil {
			return "crash:spawn"
		}
	}
	w := c04Worker
	if _, err := io.WriteString(w.in, "C04 "+strings.Join(a, " ")+"\n"); err != nil {
		w.kill()
		c04Worker = nil
		return "crash"
	}
	type ans struct {
		s   string
		err error
	}
	ch := make(chan ans, 1)
	go func() {
		s, err := w.out.ReadString('\n')
		ch <- ans{s, err}
	}()
	d := c04Timeout(n) + 5*time.Second
	if d > 176*time.Second {
		d = 176 * time.Second
	}
	select {
	case r := <-ch:
		if r.err != nil || !strings.HasSuffix(r.s, "\n") {
			w.kill() // the worker died while answering this line
			c04Worker = nil
			return "crash"
		}
		return strings.TrimRight(r.s, "\n")
	case <-time.After(d):
		w.kill()
		c04Worker = nil
		return "timeout"
	}
}

// ---------------------------------------------------------------- generators

var c04Batch = map[int]int{10: 80, 11: 150, 12: 200, 13: 350, 14: 400, 15: 500, 16: 640}

func (g *gen) c04EmitX(grp *c04Group, api string, n, c, nbTasks, gmp, tail, wlo, whi int, prog string) {
	if prog == "" {
		prog = "-"
	}
	g.emit("C04 MSMX %s %s %s %s %x %x %x %s %s %x %x %x %x %s", grp.curve, grp.grp, api, grp.params, g.rng.u64(), n, c,
		c04HexInt(nbTasks), c04HexInt(gmp), runtime.NumCPU(), tail, wlo, whi, prog)
}

// number of entries of a program
func c04ProgLen(prog string) int { return len(c04ParseProg(prog)) }

// the program followed by its mirror image (same values, opposite points): the exact sum is infinity
func c04Mirror(prog string) string {
	L := c04ProgLen(prog)
	items := strings.Split(prog, ",")
	out := make([]string, 0, 2*len(items))
	out = append(out, items...)
	for _, it := range items {
		rep := ""
		if b, x, ok := c04SplitSuffix(it, "*"); ok {
			it, rep = b, "*"+x
		}
		out = append(out, fmt.Sprintf("%s^%x%s", it, L, rep))
	}
	return strings.Join(out, ",")
}

// (8) cancellation classes: the exact sum (or a partial sum at one level of the reduction: bucket, running sum, chunk
// total, merge of the two halves of an overweight chunk, Horner accumulator, recursive halves) is the point at infinity
// although the operands of the last addition are not. Every group, both MultiExp entry points, Fold.
func (g *gen) c04Cancel(grp *c04Group, gi int) {
	ncpu := runtime.NumCPU()
	bits := grp.r.BitLen()
	main := grp.curve == "bn254" && grp.grp == "g1"
	heavy := strings.HasPrefix(grp.curve, "bw6") || strings.HasPrefix(grp.curve, "bls24") || grp.grp == "g2"
	apis := []string{"aff", "jac"}
	api := func() string { return apis[g.rng.intn(2)] }
	pick := func(l []int) int { return l[g.rng.intn(len(l))] }
	tasks := []int{1, 1, 2, 3, ncpu - 1, ncpu, 0, 16, 1024}
	// (the model side cross-checks every window on inputs of at most 12 points: ~0.1 s per line, hence few of those)
	nsmall := []int{2, 13, 16, 17, 33, 64, 65, 130, 200}
	sample := func(k int) bool { return g.thorough() || main || g.rng.intn(k) == 0 }
	emitS := func(grp *c04Group, api string, n, shape, nbTasks, gmp, _ int) {
		g.c04Emit(grp, api, n, shape, nbTasks, gmp, n)
	}

	// (a) exact sum = infinity through the last addition of the reduction, on top of every multiset shape
	for _, b := range []int{0, 1, 2, 3, 4, 8, 9, 10, 11, 13, 14} {
		if b != 0 && !sample(4) {
			continue
		}
		for _, a := range apis {
			emitS(grp, a, pick(nsmall), 0x5000+b, pick(tasks), 0, -1)
		}
	}
	// … with n at every window (one task: c = bestC(n))
	maxN := g.budget(21000, 50000) // larger windows: MSMX lines of (d), where only a few points are active
	if heavy {
		maxN = g.budget(4200, 21000)
	}
	if main {
		maxN = g.budget(21000, 1<<20)
	}
	for ci, c := range grp.cs {
		n0 := c04FirstN(grp.cs, c)
		if (c != grp.cs[0] && n0 == 0) || n0+70 > maxN {
			continue
		}
		if !g.thorough() && !main && c >= 9 && (ci+gi)%3 != 0 {
			continue // the reference points of the larger inputs dominate the quick tier: one window in three
		}
		emitS(grp, apis[(gi+c)%2], n0+g.rng.intn(64), 0x5000, 1, 0, -1)
		if g.thorough() || main {
			emitS(grp, apis[(gi+c+1)%2], n0+g.rng.intn(64), 0x5000+pick([]int{0, 1, 2, 10, 11, 13}), pick(tasks), 0, -1)
		}
	}
	// (b) [P, P] with [s, −s]; second half = −(first half) (recursive halves cancel when the call splits: NbTasks ≥ 16,
	//     n > 128); Fold over [P, −P/t]
	for _, n := range []int{2, 3, 13, 16, 33, 64, 131, 300} {
		if !sample(3) {
			continue
		}
		emitS(grp, api(), n, 15, pick(tasks), 0, -1)
		t := pick(tasks)
		if n > 128 {
			t = pick([]int{16, 1024, 0, ncpu})
		}
		emitS(grp, api(), n, 16, t, 0, -1)
		emitS(grp, []string{"fold", "foldjac"}[g.rng.intn(2)], n, 17, pick(tasks), 0, -1)
	}
	// (c) explicit window values: cancellation at one chosen level, window j
	for _, n := range []int{4, 13, 40, 300, 1500} {
		if (n > 300 && !sample(2)) || (n == 4 && !g.thorough() && !main) {
			continue
		}
		c := c04BestC(grp.cs, n)
		nb := c04NbChunks(bits, c)
		for _, j := range []int{0, 1, nb / 2, nb - 2, nb - 1} {
			if j < 0 || j >= nb {
				continue
			}
			// the top window only holds values below r >> c(nb-1)
			if j == nb-1 && new(big.Int).Lsh(big.NewInt(7), uint(c*j)).Cmp(grp.r) >= 0 {
				continue
			}
			if !sample(3) {
				continue
			}
			progs := []string{
				fmt.Sprintf("2#%x@1,1#%x@-2", j, j),                      // chunk total: total + runningSum = O at the last bucket
				fmt.Sprintf("6#%x@-1,3#%x@1,2#%x@-1,1#%x@5", j, j, j, j), // running sum = O in the middle, total = O at the end
				fmt.Sprintf("5#%x@1,5#%x@2,5#%x@-3", j, j, j),            // bucket: (P + 2P) + (−3P)
				fmt.Sprintf("5#%x@1,5#%x@1,5#%x@-2", j, j, j),            // bucket: doubling, then the opposite
				fmt.Sprintf("4#%x@1,3#%x@-2,1#%x@2", j, j, j),            // total = O in the middle (4P − 6P + 2P)
			}
			if j+1 < nb && (j+1 < nb-1 || new(big.Int).Lsh(big.NewInt(2), uint(c*(j+1))).Cmp(grp.r) < 0) {
				// Horner: 2^c·(accumulator of the windows above j) = −(total of window j)
				progs = append(progs, fmt.Sprintf("1#%x@1,1#%x@-%x", j+1, j, 1<<uint(c)))
				if j > 0 {
					progs = append(progs, fmt.Sprintf("1#%x@1,1#%x@-%x,7#0,3#%x", j+1, j, 1<<uint(c), j-1)) // … then goes on from O
				}
			}
			for _, p := range progs {
				if !sample(2) {
					continue
				}
				if n < 8 && c04ProgLen(p) > n {
					continue
				}
				g.c04EmitX(grp, api(), n, c, pick([]int{1, 1, 2, ncpu, 0}), 0, 0, 0, nb-1, p)
			}
		}
		// recursive halves cancel (the call splits for NbTasks ≥ 16, n > 128)
		if n >= 300 {
			h := n / 2
			g.c04EmitX(grp, api(), n, c, pick([]int{16, 1024, 0}), 0, 0, 0, nb-1, fmt.Sprintf("5@1,0*%x,5@-1", h-1))
			m, mw := h, 1<<uint(c-1)-1
			if m > mw {
				m = mw
			}
			k := h / m
			g.c04EmitX(grp, api(), n, c, pick([]int{16, 1024, 0}), 0, 0, 0, nb-1, fmt.Sprintf("1:%x*%x,0*%x,1:%x^%x*%x", m, k, h-k*m, m, h, k))
		}
	}
	// (d) windows c ≥ 10: the two halves of an overweight chunk cancel; batch-affine reduction (affine bucket + overflow
	//     bucket + running sum) cancels; exact sum = O for n at every window up to 16 (only a few points are active)
	for ci, c := range grp.cs {
		B, ok := c04Batch[c]
		n0 := c04FirstN(grp.cs, c)
		if !ok || n0 == 0 {
			continue
		}
		if !g.thorough() && !main && (ci+gi)%4 != 0 {
			continue
		}
		nb := c04NbChunks(bits, c)
		n := n0 + 2 + g.rng.intn(32)
		h := n / 2
		for _, j := range []int{0, nb / 2, nb - 2} {
			if !g.thorough() && (g.rng.intn(3) != 0 || c >= 14 && !main) {
				continue
			}
			if g.thorough() && c >= 14 && !main && g.rng.intn(3) != 0 {
				continue
			}
			// only window j is hit: overweight, split in two halves whose totals are opposite
			g.c04EmitX(grp, api(), n, c, pick([]int{1, 2, ncpu - 1, ncpu}), 0, 0, 0, nb-1, fmt.Sprintf("3#%x@1,0*%x,3#%x@-1", j, h-1, j))
			g.c04EmitX(grp, api(), n, c, pick([]int{1, 2, ncpu - 1, ncpu}), 0, 0, 0, nb-1, fmt.Sprintf("1:%x#%x,0*%x,1:%x#%x^%x", 2*B, j, h-2*B, 2*B, j, h))
			// batch-affine processor in every window (2B distinct buckets), cancellations in the reduction of window j
			D := 2*B + 8
			prime := fmt.Sprintf("1:%x", 2*B)
			g.c04EmitX(grp, api(), n, c, 1, 0, 0, 0, nb-1, c04Mirror(prime)+fmt.Sprintf(",%x#%x@1,%x#%x@-1,%x#%x@-2,%x#%x@1,%x#%x@1", D+2, j, D+1, j, D-2, j, D-3, j, D-3, j))
			g.c04EmitX(grp, api(), n, c, 1, 0, 0, 0, nb-1, prime+fmt.Sprintf(",%x#%x@1,%x#%x@-2,%x#%x@1", D+2, j, D+1, j, D, j))
		}
		// exact sum = O, all windows
		g.c04EmitX(grp, api(), n, c, pick([]int{1, ncpu}), 0, 0, 0, nb-1, c04Mirror(fmt.Sprintf("1:%x,%x:1", 2*B, B)))
		g.c04EmitX(grp, api(), n, c, 1, 0, 0, 0, nb-1, fmt.Sprintf("9@1,9@-1,%x@5,%x@-5,1:%x", B, B+1, 2*B)+fmt.Sprintf(",1:%x^%x", 2*B, 2*B))
	}
}

// (9) adversarial orderings for the batch-affine scheduler (batch of B additions on pairwise distinct buckets, conflict
// queue, queue drained into the next batch, queue flushed to the overflow buckets when full): few distinct window values,
// many distinct points, in orders that keep the queue long / drain many entries at once / alternate conflict-free and
// conflict-only stretches. One window value per point, the same in every window below the last one, so that every chunk
// processor sees the same sequence. B, B±1 and the neighbourhood of 8B/5 and 2B are the lattice of the block sizes.
func (g *gen) c04Sched(grp *c04Group, c int, level int) {
	// level 0: three programs, 1: eight, 2: sixteen, 3: the wider parameter lattice
	ncpu := runtime.NumCPU()
	bits := grp.r.BitLen()
	B, ok := c04Batch[c]
	n0 := c04FirstN(grp.cs, c)
	if !ok || n0 == 0 {
		return
	}
	full := level >= 3
	nb := c04NbChunks(bits, c)
	maxw := 1<<uint(c-1) - 1
	pick := func(l []int) int { return l[g.rng.intn(len(l))] }
	sw := func(lo, hi int) string { return fmt.Sprintf("%x:%x", lo, hi) }
	join := func(p ...string) string { return strings.Join(p, ",") }
	type lp struct {
		lvl int
		p   string
	}
	var progs []lp
	add := func(lvl int, p string) { progs = append(progs, lp{lvl, p}) }

	// runs of one value (conflicts on a single bucket until the queue is flushed), between sweeps
	add(0, join(sw(1, 2*B), fmt.Sprintf("7*%x", 3*B), fmt.Sprintf("9*%x", B-1), sw(1, 2*B), fmt.Sprintf("b*%x", B+1), sw(2*B, 1)))
	// round-robin over d values
	ds := []int{B - 2, B - 1, B, B + 1, 3 * B / 2, 8*B/5 - 1, 8 * B / 5, 8*B/5 + 1, 2*B - 1, 2 * B, 2*B + 1}
	nd := 3
	if full {
		nd = len(ds)
	}
	off := g.rng.intn(len(ds))
	for k := 0; k < nd; k++ {
		d := ds[(off+k*4)%len(ds)]
		lvl := 2
		if k == 0 {
			lvl = 0
		}
		add(lvl, join(sw(1, 2*B+1), fmt.Sprintf("1:%x*6", d), sw(d+1, 2*B+1), fmt.Sprintf("%x:1*3", d)))
	}
	// two phases: a batch on b−1 buckets whose conflicts stay queued behind a pair on one bucket, then a batch on other
	// buckets that queues q more
	two := func(b, q int) string {
		return join(sw(1, 3*b), sw(1, b-1), sw(2, b-1), "1", "1", fmt.Sprintf("%x", b), sw(b+1, 2*b-2), sw(b+1, b+q), fmt.Sprintf("%x", 2*b-1), sw(1, 3*b))
	}
	add(0, two(B, B/2))
	add(1, two(B, B-2))
	add(1, two(B, 2))
	add(2, two(B-1, B/2))
	add(2, two(B+1, B/2))
	for _, x := range [][2]int{{B, B / 4}, {B, 3 * B / 4}, {B - 1, B - 3}, {B + 1, B - 2}, {B - 2, B / 2}, {B + 2, B / 2}} {
		add(3, two(x[0], x[1]))
	}
	// block of pairs (a, a), then sweeps
	{
		var p []string
		p = append(p, sw(1, 2*B))
		for k := 1; k <= B+1; k++ {
			p = append(p, fmt.Sprintf("%x*2", k))
		}
		p = append(p, sw(B+1, 2*B), sw(1, B), sw(B, 1))
		add(1, join(p...))
	}
	// sorted with multiplicity 3, reverse sorted sweeps, zigzag
	{
		var p []string
		for k := 1; k <= B+2; k++ {
			p = append(p, fmt.Sprintf("%x*3", k))
		}
		add(2, join(p...))
		add(2, join(sw(1, 2*B), fmt.Sprintf("%x:1*4", 2*B), fmt.Sprintf("%x:1*4", B-1)))
		d := pick([]int{B - 1, B, B + 1})
		add(2, join(sw(1, 2*B), sw(1, d), sw(d, 1), sw(1, d), sw(d, 1), sw(1, d), sw(d, 1)))
	}
	// interleaved blocks
	{
		b := pick([]int{B - 1, B, B/2 + 1})
		add(1, join(sw(1, 2*b), sw(1, b), sw(1, b), sw(b+1, 2*b), sw(b+1, 2*b), sw(1, b), sw(b+1, 2*b), sw(1, 2*b), sw(b, 1), sw(2*b, b+1)))
	}
	// random short sweeps over a small alphabet
	{
		d := pick([]int{B, 3 * B / 2, 2 * B})
		p := []string{sw(1, d)}
		for tot := d; tot < 16*B; {
			lo, hi := 1+g.rng.intn(d), 1+g.rng.intn(d)
			if hi > lo+B {
				hi = lo + B
			}
			p = append(p, sw(lo, hi))
			if hi >= lo {
				tot += hi - lo + 1
			} else {
				tot += lo - hi + 1
			}
		}
		add(2, join(p...))
	}
	// random rounds: fill u buckets, conflicts on v of them, optionally a pair on one bucket, fillers up to a full batch
	rounds := 1
	if full {
		rounds = 4
	}
	for k := 0; k < rounds; k++ {
		span := 6 * B
		if span > maxw {
			span = maxw
		}
		p := []string{sw(1, span)}
		lo := 1
		for rd := 0; rd < 6; rd++ {
			u := pick([]int{B - 1, B - 1, B - 2, B / 2})
			v := pick([]int{1, u / 2, u - 2, u - 1})
			if lo+B+1 > span {
				lo = 1
			}
			p = append(p, sw(lo, lo+u-1))
			if v > 0 {
				p = append(p, sw(lo+1, lo+v))
			}
			if g.rng.coin() {
				p = append(p, fmt.Sprintf("%x*2", lo))
			}
			p = append(p, sw(lo+u, lo+B-1))
			lo += B
		}
		add(1, join(p...))
	}

	pi := 0
	for _, x := range progs {
		if x.lvl > level {
			continue
		}
		p := x.p
		pi++
		L := c04ProgLen(p)
		n := n0 + 1 + g.rng.intn(64)
		if L > n {
			continue
		}
		exact := 2*L > n // no room for the mirror image
		t := 1
		if alt := pick([]int{1, 2, ncpu - 1, ncpu, 0}); c04LeafC(grp.cs, bits, n, alt) == c {
			t = alt
		}
		api := []string{"aff", "jac"}[g.rng.intn(2)]
		switch {
		case pi%4 == 3 || exact: // exact value (one scalar multiplication on the model side)
			g.c04EmitX(grp, api, n, c, t, 0, 0, 0, nb-1, p)
		case pi%4 == 1 && c <= 12: // the program repeated over the whole input
			g.c04EmitX(grp, api, n, c, t, 0, 1, 0, nb-1, c04Mirror(p))
		default:
			g.c04EmitX(grp, api, n, c, t, 0, 0, 0, nb-1, c04Mirror(p))
		}
	}
}

func genC04X(g *gen) {
	for gi, key := range c04Order {
		g.c04Cancel(c04Groups[key], gi)
	}
	// scheduler orderings: every window c ≥ 10 of bn254 (G1 and G2) and of two other groups per window in the quick tier,
	// of every group in the thorough tier
	var others []string
	for _, key := range c04Order {
		if !strings.HasPrefix(key, "bn254/") {
			others = append(others, key)
		}
	}
	for c := 10; c <= 16; c++ {
		for _, key := range c04Order {
			grp := c04Groups[key]
			switch {
			case g.thorough() && grp.curve == "bn254":
				g.c04Sched(grp, c, 3)
			case g.thorough() && c >= 14:
				g.c04Sched(grp, c, 1)
			case g.thorough():
				g.c04Sched(grp, c, 2)
			case key == "bn254/g1" && c <= 12:
				g.c04Sched(grp, c, 2)
			case key == "bn254/g1", key == "bn254/g2" && c <= 12:
				g.c04Sched(grp, c, 1)
			case key == "bn254/g2" && c <= 14:
				g.c04Sched(grp, c, 0)
			}
		}
		if g.thorough() {
			continue
		}
		// one other group per window (two for c ≤ 12)
		done, want := 0, 1
		if c <= 12 {
			want = 2
		}
		for k := 0; k < len(others) && done < want; k++ {
			grp := c04Groups[others[(c*5+k*7)%len(others)]]
			if _, ok := c04Batch[c]; ok && c04FirstN(grp.cs, c) > 0 {
				lvl := 1
				if c >= 14 {
					lvl = 0
				}
				g.c04Sched(grp, c, lvl)
				done++
			}
		}
	}
}
