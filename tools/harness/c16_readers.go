package main

import (
	"bufio"
	"bytes"
	"fmt"
	"io"
	"strconv"
	"strings"
	"testing/iotest"
)

// C16 — io.Reader front ends of the accumulator (ReadAll / ReaderRoot / BuildReaderProof) through readers that deliver the SAME
// byte stream in different pieces. A Read may legally return fewer bytes than asked for, (0, nil), or the last bytes together
// with io.EOF; the leaves are the seg-byte segments of the STREAM whatever the reader does.
// reader spec (last token of `accr`, 4th field of an `R:` token of accd / acca; sizes in hex):
//   full                 bytes.Reader
//   half | one | dataerr iotest.HalfReader / OneByteReader / DataErrReader (data and io.EOF in one call)
//   bufio                bufio.Reader with a 16-byte buffer (short reads when the buffer runs dry)
//   multi=a,b,..         io.MultiReader over consecutive pieces of a, b, .. bytes (the rest in a last piece): a Read never crosses a seam
//   pipe=a,b,..          io.Pipe, one Write per piece
//   chunk=a,b,..         the k-th Read returns at most size[k mod len] bytes (0 = an empty read (0, nil))
//   chunkeof=a,b,..      the same, and the call that delivers the last byte also returns io.EOF

type c16ChunkReader struct {
	data    []byte
	sizes   []int
	k       int
	withEOF bool
}

func (r *c16ChunkReader) Read(p []byte) (int, error) {
	if len(r.data) == 0 {
		return 0, io.EOF
	}
	m := r.sizes[r.k%len(r.sizes)]
	r.k++
	if m > len(p) {
		m = len(p)
	}
	if m > len(r.data) {
		m = len(r.data)
	}
	copy(p, r.data[:m])
	r.data = r.data[m:]
	if r.withEOF && len(r.data) == 0 {
		return m, io.EOF
	}
	return m, nil
}

func c16Sizes(s string) ([]int, bool) {
	var out []int
	pos := false
	for _, x := range strings.Split(s, ",") {
		u, err := strconv.ParseUint(x, 16, 64)
		if err != nil || u > 1<<20 {
			return nil, false
		}
		v := int(u)
		pos = pos || v > 0
		out = append(out, v)
	}
	return out, pos && len(out) <= 64
}

func c16Pieces(data []byte, sizes []int) [][]byte {
	var ps [][]byte
	for _, s := range sizes {
		if s > len(data) {
			s = len(data)
		}
		ps = append(ps, data[:s])
		data = data[s:]
	}
	return append(ps, data)
}

// c16Reader: the reader of the spec over data; stop() releases it (pipe writer)
func c16Reader(spec string, data []byte) (r io.Reader, stop func(), ok bool) {
	stop = func() {}
	name, arg, _ := strings.Cut(spec, "=")
	switch name {
	case "full":
		return bytes.NewReader(data), stop, arg == ""
	case "half":
		return iotest.HalfReader(bytes.NewReader(data)), stop, arg == ""
	case "one":
		return iotest.OneByteReader(bytes.NewReader(data)), stop, arg == ""
	case "dataerr":
		return iotest.DataErrReader(bytes.NewReader(data)), stop, arg == ""
	case "bufio":
		return bufio.NewReaderSize(bytes.NewReader(data), 16), stop, arg == ""
	}
	sizes, good := c16Sizes(arg)
	if !good {
		return nil, stop, false
	}
	switch name {
	case "multi":
		var rs []io.Reader
		for _, p := range c16Pieces(data, sizes) {
			rs = append(rs, bytes.NewReader(p))
		}
		return io.MultiReader(rs...), stop, true
	case "pipe":
		pr, pw := io.Pipe()
		go func() {
			for _, p := range c16Pieces(data, sizes) {
				if len(p) > 0 {
					if _, err := pw.Write(p); err != nil {
						return
					}
				}
			}
			pw.Close()
		}()
		return pr, func() { pr.Close() }, true
	case "chunk", "chunkeof":
		return &c16ChunkReader{data: data, sizes: sizes, withEOF: name == "chunkeof"}, stop, true
	}
	return nil, stop, false
}

// reader specs of the generator for a stream of ln bytes cut into seg-byte leaves
func c16ReaderSpecs(g *gen, ln, seg int) []string {
	sz := func(k, max int, zero bool) string {
		var s []string
		pos := false
		for j := 0; j < k; j++ {
			v := g.rng.intn(max + 1)
			if !zero && v == 0 {
				v = 1
			}
			pos = pos || v > 0
			s = append(s, fmt.Sprintf("%x", v))
		}
		if !pos {
			s[0] = "1"
		}
		return strings.Join(s, ",")
	}
	m := 2*seg + 2
	return []string{"half", "one", "dataerr", "bufio",
		"multi=" + sz(1+g.rng.intn(4), ln/2+1, true), "pipe=" + sz(1+g.rng.intn(4), ln/2+1, false),
		"chunk=" + sz(1+g.rng.intn(5), m, true), "chunkeof=" + sz(1+g.rng.intn(5), m, true),
		fmt.Sprintf("chunk=%x", seg+1), fmt.Sprintf("chunkeof=%x", seg), fmt.Sprintf("chunk=%x,0,1", seg-1)}
}

// every composition of ln into consecutive pieces (io.MultiReader seams), as size lists
func c16Compositions(ln int) []string {
	if ln == 0 {
		return []string{"0"}
	}
	var out []string
	for mask := 0; mask < 1<<(ln-1); mask++ {
		var s []string
		run := 1
		for b := 0; b < ln-1; b++ {
			if mask>>b&1 == 1 {
				s = append(s, fmt.Sprintf("%x", run))
				run = 1
			} else {
				run++
			}
		}
		s = append(s, fmt.Sprintf("%x", run))
		out = append(out, strings.Join(s, ","))
	}
	return out
}

func c16GenReaders(g *gen) {
	// every chunking of short streams: all compositions (seams of a MultiReader; the same cuts as Writes of a pipe for a sample)
	maxLn := g.budget(7, 10)
	for ln := 0; ln <= maxLn; ln++ {
		b := hexBytes(g.rng.bytes(ln))
		for seg := 1; seg <= 4; seg++ {
			nl := (ln + seg - 1) / seg
			for _, c := range c16Compositions(ln) {
				g.emit("C16 accr sha256 x %x %s multi=%s", seg, b, c)
				if g.rng.intn(4) == 0 {
					g.emit("C16 accr sha256 %x %x %s multi=%s", g.rng.intn(nl+1), seg, b, c)
				}
				if g.rng.intn(8) == 0 {
					g.emit("C16 accr sha256 %x %x %s pipe=%s", g.rng.intn(nl+1), seg, b, c)
				}
			}
		}
	}
	// every reader family over every stream length 0..24 x segment size 1..5 (+ longer streams, larger segments)
	for ln := 0; ln <= 24; ln++ {
		b := hexBytes(g.rng.bytes(ln))
		for seg := 1; seg <= 5; seg++ {
			nl := (ln + seg - 1) / seg
			for _, sp := range c16ReaderSpecs(g, ln, seg) {
				g.emit("C16 accr sha256 x %x %s %s", seg, b, sp)
				g.emit("C16 accr sha256 %x %x %s %s", g.rng.intn(nl+2), seg, b, sp)
			}
		}
	}
	for it := 0; it < g.budget(40, 400); it++ {
		ln := 25 + g.rng.intn(300)
		seg := 1 + g.rng.intn(40)
		b := hexBytes(g.rng.bytes(ln))
		specs := c16ReaderSpecs(g, ln, seg)
		for k := 0; k < 3; k++ {
			sp := specs[g.rng.intn(len(specs))]
			g.emit("C16 accr sha256 x %x %s %s", seg, b, sp)
			g.emit("C16 accr sha256 %x %x %s %s", g.rng.intn((ln+seg-1)/seg+2), seg, b, sp)
		}
	}
	// ReadAll through a chunking reader inside histories (after / before pushes and cached sub-trees, observed)
	for it := 0; it < g.budget(150, 1500); it++ {
		var ops []string
		cnt := 0
		for len(ops) < 1+g.rng.intn(5) {
			switch g.rng.intn(4) {
			case 0:
				ops = append(ops, "P:"+hexBytes(g.rng.bytes(1+g.rng.intn(3))))
				cnt++
			case 1:
				ops = append(ops, "Or")
			default:
				ln := g.rng.intn(14)
				seg := 1 + g.rng.intn(4)
				specs := c16ReaderSpecs(g, ln, seg)
				ops = append(ops, fmt.Sprintf("R:%x:%s:%s", seg, hexBytes(g.rng.bytes(ln)), specs[g.rng.intn(len(specs))]))
				cnt += (ln + seg - 1) / seg
			}
		}
		idx := "x"
		if g.rng.intn(4) != 0 {
			idx = fmt.Sprintf("%x", g.rng.intn(cnt+2))
		}
		g.emit("C16 accd sha256 %s %s", idx, join(ops))
	}
}

// a valid history of `total` leaves: Push / aligned PushSubTree of 2^h leaves not containing the proof index
func c16ValidHistory(g *gen, total, pi int, proof bool) []string {
	leafHex := func(k int) string { return hexBytes([]byte{byte(k), byte(k * 7), 0x11}) }
	var ops []string
	c := 0
	for c < total {
		maxh := 0
		for maxh < 4 && c%(2<<maxh) == 0 && c+(2<<maxh) <= total {
			maxh++
		}
		h := g.rng.intn(maxh + 1)
		if g.rng.coin() || c+1<<h > total || (proof && pi >= c && pi < c+1<<h) {
			ops = append(ops, "P:"+leafHex(c))
			c++
			continue
		}
		var ls []string
		for k := 0; k < 1<<h; k++ {
			ls = append(ls, leafHex(c+k))
		}
		ops = append(ops, fmt.Sprintf("S:%x:%s", h, strings.Join(ls, ",")))
		c += 1 << h
	}
	return ops
}

// `acca` / `vxa`: histories of a caller that reuses its memory: leaves pushed from one overwritten buffer, sub-tree roots
// overwritten after PushSubTree, a proof / root obtained EARLIER compared and re-verified after more leaves (Ov), returned
// values overwritten by the caller (Om) before the tree is used again; Vortex: the leaf slice overwritten after BuildMerkleTree
func c16GenAlias(g *gen) {
	leafHex := func(k int) string { return hexBytes([]byte{byte(k), byte(k * 7), 0x11}) }
	withObs := func(ops []string, every bool, obs string) []string {
		var out []string
		for _, o := range ops {
			out = append(out, o)
			if every || g.rng.intn(3) == 0 {
				out = append(out, obs)
			}
		}
		return out
	}
	maxN := g.budget(12, 20)
	for n := 1; n <= maxN; n++ {
		var ps []string
		for k := 0; k < n; k++ {
			ps = append(ps, "P:"+leafHex(k))
		}
		for i := 0; i <= n; i++ {
			g.emit("C16 acca sha256 %x %s Ov Op Ov", i, join(withObs(ps, true, "Op")))
			g.emit("C16 acca sha256 %x %s Ov", i, join(ps))
			for j := 1; j <= n; j++ { // one early proof, overwritten by its owner, then the rest of the leaves
				if n <= 6 || j == i+1 || g.rng.intn(5) == 0 {
					h := append(append(append([]string{}, ps[:j]...), "Op", "Om"), ps[j:]...)
					g.emit("C16 acca sha256 %x %s Op Or Ov", i, join(h))
					h = append(append(append([]string{}, ps[:j]...), "Op", "Ov"), ps[j:]...)
					g.emit("C16 acca sha256 %x %s Ov Op Ov", i, join(h))
				}
			}
		}
		g.emit("C16 acca sha256 x %s Ov Om Or", join(withObs(ps, true, "Or")))
	}
	for it := 0; it < g.budget(150, 1500); it++ {
		total := 1 + g.rng.intn(40)
		pi := g.rng.intn(total + 1)
		proof := g.rng.intn(4) != 0
		ops := c16ValidHistory(g, total, pi, proof)
		idx, obs := "x", "Or"
		if proof {
			idx, obs = fmt.Sprintf("%x", pi), "Op"
		}
		g.emit("C16 acca sha256 %s %s Ov %s Ov", idx, join(withObs(ops, false, obs)), obs)
		var sp []string
		for _, o := range withObs(ops, false, obs) {
			sp = append(sp, o)
			if (o == "Op" || o == "Or") && g.rng.intn(3) == 0 {
				sp = append(sp, []string{"Om", "Ov"}[g.rng.intn(2)])
			}
		}
		g.emit("C16 acca sha256 %s %s %s Ov", idx, join(sp), obs)
	}
	VN := g.budget(130, 1100)
	for n := 1; n <= VN; n++ {
		seed := g.rng.intn(1 << 30)
		for _, i := range []int{0, n - 1, g.rng.intn(n)} {
			g.emit("C16 vxa %x %x d %x", n, i, seed)
		}
	}
}
