package main

// C08 — field-element conversions: executors over the 23 field packages (generic through fieldImpl + reflection for the
// unexported byte-order types and the array-typed Bits()).

import (
	"bytes"
	"encoding/binary"
	"encoding/json"
	"errors"
	"io"
	"math/big"
	"os"
	"os/exec"
	"reflect"
	"strings"
	"testing/iotest"
	"time"
)

var c08Orders = map[string][2]any{}

type c08API interface {
	C08(op string, a []string) string
}

func init() {
	executors["C08"] = func(a []string) string {
		if len(a) < 2 {
			return "bad-op"
		}
		f, ok := fields[a[0]]
		if !ok {
			return "bad-op"
		}
		return f.(c08API).C08(a[1], a[2:])
	}
	generators["C08"] = genC08
}

type vecCodec interface {
	WriteTo(io.Writer) (int64, error)
	ReadFrom(io.Reader) (int64, error)
	AsyncReadFrom(io.Reader) (int64, error, chan error)
	MarshalBinary() ([]byte, error)
	UnmarshalBinary([]byte) error
}

func c08Err(err error) string {
	switch {
	case errors.Is(err, io.EOF) || errors.Is(err, io.ErrUnexpectedEOF):
		return "err:short"
	case strings.Contains(err.Error(), "invalid") && strings.Contains(err.Error(), "encoding"):
		return "err:invalid"
	case strings.Contains(err.Error(), "failed validation"):
		return "err:invalid"
	case strings.Contains(err.Error(), "parse") || strings.Contains(err.Error(), "too large"):
		return "err:syntax"
	}
	return "err:other"
}

// allocation cap for in-process vector reads: above it the op is answered by a child process (an attacker-chosen
// length prefix is allocated before anything is read, and a fatal runtime error cannot be recovered)
const c08AllocCap = 1 << 24

func (f *fieldImpl[T, PT, V, PV]) codec(v *V) vecCodec { return any(PV(v)).(vecCodec) }

func (f *fieldImpl[T, PT, V, PV]) orderElement(order any, b []byte) (T, error) {
	arr := reflect.New(reflect.ArrayOf(f.Bytes(), reflect.TypeOf(byte(0))))
	reflect.Copy(arr.Elem(), reflect.ValueOf(b))
	res := reflect.ValueOf(order).MethodByName("Element").Call([]reflect.Value{arr})
	z := res[0].Interface().(T)
	err, _ := res[1].Interface().(error)
	return z, err
}

func (f *fieldImpl[T, PT, V, PV]) orderPut(order any, e T) []byte {
	arr := reflect.New(reflect.ArrayOf(f.Bytes(), reflect.TypeOf(byte(0))))
	reflect.ValueOf(order).MethodByName("PutElement").Call([]reflect.Value{arr, reflect.ValueOf(e)})
	out := make([]byte, f.Bytes())
	reflect.Copy(reflect.ValueOf(out), arr.Elem())
	return out
}

func (f *fieldImpl[T, PT, V, PV]) bitsOf(x *T) []*big.Int {
	r := reflect.ValueOf(PT(x)).MethodByName("Bits").Call(nil)[0]
	out := make([]*big.Int, r.Len())
	for i := range out {
		out[i] = new(big.Int).SetUint64(r.Index(i).Uint())
	}
	return out
}

func (f *fieldImpl[T, PT, V, PV]) okRes(z *T, err error) string {
	if err != nil {
		return c08Err(err)
	}
	return "ok " + f.out(z)
}

func (f *fieldImpl[T, PT, V, PV]) vecRes(v V, n int64, err error) string {
	if err != nil {
		return c08Err(err)
	}
	return "ok " + f.outVec(v) + " " + hexBig(big.NewInt(n))
}

type c08Reader struct {
	name string
	mk   func([]byte) io.Reader
}

var c08Readers = []c08Reader{
	{"plain", func(b []byte) io.Reader { return bytes.NewReader(b) }},
	{"onebyte", func(b []byte) io.Reader { return iotest.OneByteReader(bytes.NewReader(b)) }},
	{"dataerr", func(b []byte) io.Reader { return iotest.DataErrReader(bytes.NewReader(b)) }},
	{"half", func(b []byte) io.Reader { return iotest.HalfReader(bytes.NewReader(b)) }},
}

// garbage the destination vector holds before a read
func (f *fieldImpl[T, PT, V, PV]) dirty(k int) V {
	v := make(V, k)
	for i := range v {
		PT(&v[i]).SetUint64(uint64(0xdead0000 + i))
	}
	return v
}

func (f *fieldImpl[T, PT, V, PV]) readSync(data []byte, rd c08Reader) string {
	r := f.dirty(3)
	n, err := f.codec(&r).ReadFrom(rd.mk(data))
	return f.vecRes(r, n, err)
}

func (f *fieldImpl[T, PT, V, PV]) readAsync(data []byte, rd c08Reader) string {
	r := f.dirty(3)
	n, err, ch := f.codec(&r).AsyncReadFrom(rd.mk(data))
	if err == nil {
		err = <-ch
	} else {
		<-ch // must be closed
	}
	return f.vecRes(r, n, err)
}

func (f *fieldImpl[T, PT, V, PV]) vecRead(data []byte) string {
	if len(data) >= 4 && os.Getenv("GV_C08_CHILD") == "" {
		if uint64(binary.BigEndian.Uint32(data))*uint64(f.Bytes()) > c08AllocCap {
			return c08Child("C08 " + f.Name() + " vecread " + hexBytes(data))
		}
	}
	s := f.readSync(data, c08Readers[0])
	if os.Getenv("GV_C08_CHILD") != "" { // huge prefix: every read allocates gigabytes, one reader kind is enough
		return s + " | " + f.readAsync(data, c08Readers[0])
	}
	for _, rd := range c08Readers[1:] {
		if t := f.readSync(data, rd); t != s {
			return "mismatch:sync:" + rd.name + ":" + t
		}
	}
	r := f.dirty(2)
	err := f.codec(&r).UnmarshalBinary(data)
	if (err != nil) != strings.HasPrefix(s, "err") || (err == nil && !strings.HasPrefix(s, "ok "+f.outVec(r)+" ")) {
		return "mismatch:unmarshalbinary"
	}
	a := f.readAsync(data, c08Readers[0])
	for _, rd := range c08Readers[1:] {
		if t := f.readAsync(data, rd); t != a {
			return "mismatch:async:" + rd.name + ":" + t
		}
	}
	return s + " | " + a
}

// run one op line in a child harness; a child that dies answers "crash"
func c08Child(line string) string {
	exe, err := os.Executable()
	if err != nil {
		return "child-failed"
	}
	cmd := exec.Command(exe, "-mode", "exec")
	cmd.Env = append(os.Environ(), "GV_C08_CHILD=1")
	cmd.Stdin = strings.NewReader(line + "\n")
	var out, errb bytes.Buffer
	cmd.Stdout = &out
	cmd.Stderr = &errb
	done := make(chan error, 1)
	if err := cmd.Start(); err != nil {
		return "child-failed"
	}
	go func() { done <- cmd.Wait() }()
	select {
	case err = <-done:
	case <-time.After(120 * time.Second):
		cmd.Process.Kill()
		return "crash:timeout"
	}
	if err != nil {
		switch e := errb.String(); {
		case strings.Contains(e, "out of memory") || strings.Contains(e, "cannot allocate"):
			return "crash:oom" // fatal error: runtime: out of memory (not recoverable)
		case strings.Contains(e, "panic:"):
			return "crash:panic" // panic in a goroutine the caller cannot recover from
		}
		return "crash"
	}
	return strings.TrimSpace(out.String())
}

func (f *fieldImpl[T, PT, V, PV]) C08(op string, a []string) string {
	if len(a) < 1 {
		return "bad-op"
	}
	be, le := c08Orders[f.Name()][0], c08Orders[f.Name()][1]
	nb := f.Bytes()
	var z T
	switch op {
	case "tobytes":
		x := f.arg(a[0])
		m := PT(&x).Marshal()
		bb := reflect.ValueOf(PT(&x)).MethodByName("Bytes").Call(nil)[0]
		b2 := make([]byte, nb)
		reflect.Copy(reflect.ValueOf(b2), bb)
		if !bytes.Equal(m, b2) || !bytes.Equal(m, f.orderPut(be, x)) {
			return "mismatch"
		}
		return hexBytes(m)
	case "tobytesle":
		x := f.arg(a[0])
		return hexBytes(f.orderPut(le, x))
	case "setbytes":
		b := parseBytes(a[0])
		PT(&z).SetUint64(77)
		PT(&z).SetBytes(b)
		var u, w T
		PT(&u).Unmarshal(b)
		if _, err := PT(&w).SetInterface(b); err != nil || !PT(&u).Equal(&z) || !PT(&w).Equal(&z) {
			return "mismatch"
		}
		return f.out(&z)
	case "setcanonical":
		b := parseBytes(a[0])
		err := PT(&z).SetBytesCanonical(b)
		if len(b) == nb {
			y, err2 := f.orderElement(be, b)
			if (err == nil) != (err2 == nil) || (err == nil && !PT(&y).Equal(&z)) {
				return "mismatch"
			}
		}
		return f.okRes(&z, err)
	case "lecanonical":
		b := parseBytes(a[0])
		if len(b) != nb {
			return "err:invalid" // the Go API takes *[Bytes]byte: other lengths do not type-check
		}
		y, err := f.orderElement(le, b)
		return f.okRes(&y, err)
	case "setbigint":
		v := parseSigned(a[0])
		v0 := new(big.Int).Set(v)
		PT(&z).SetUint64(77)
		PT(&z).SetBigInt(v)
		var w, u T
		if _, err := PT(&w).SetInterface(v); err != nil || !PT(&w).Equal(&z) {
			return "mismatch:iface-ptr"
		}
		if _, err := PT(&u).SetInterface(*v); err != nil || !PT(&u).Equal(&z) {
			return "mismatch:iface-val"
		}
		if v.Cmp(v0) != 0 {
			return "arg-mutated"
		}
		return f.out(&z)
	case "setint64":
		v := parseSigned(a[0])
		if !v.IsInt64() {
			return "bad-op"
		}
		PT(&z).SetInt64(v.Int64())
		var w T
		if _, err := PT(&w).SetInterface(v.Int64()); err != nil || !PT(&w).Equal(&z) {
			return "mismatch:iface"
		}
		if int64(int(v.Int64())) == v.Int64() {
			if _, err := PT(&w).SetInterface(int(v.Int64())); err != nil || !PT(&w).Equal(&z) {
				return "mismatch:iface-int"
			}
		}
		if int64(int32(v.Int64())) == v.Int64() {
			if _, err := PT(&w).SetInterface(int32(v.Int64())); err != nil || !PT(&w).Equal(&z) {
				return "mismatch:iface-int32"
			}
		}
		return f.out(&z)
	case "setuint64":
		v := parseBig(a[0])
		if !v.IsUint64() {
			return "bad-op"
		}
		PT(&z).SetUint64(v.Uint64())
		var w T
		if _, err := PT(&w).SetInterface(v.Uint64()); err != nil || !PT(&w).Equal(&z) {
			return "mismatch:iface"
		}
		if _, err := PT(&w).SetInterface(uint(v.Uint64())); err != nil || !PT(&w).Equal(&z) {
			return "mismatch:iface-uint"
		}
		return f.out(&z)
	case "text":
		if len(a) < 2 {
			return "bad-op"
		}
		x := f.arg(a[0])
		base := int(parseSigned(a[1]).Int64())
		s := PT(&x).Text(base)
		if base == 10 && PT(&x).String() != s {
			return "mismatch:string"
		}
		return s
	case "setstring":
		s := string(parseBytes(a[0]))
		PT(&z).SetUint64(77)
		r, err := PT(&z).SetString(s)
		if err != nil {
			var w T
			PT(&w).SetUint64(77)
			if r != nil || !PT(&w).Equal(&z) {
				return "mismatch:changed-on-error"
			}
			return "err:syntax"
		}
		var w T
		if _, err := PT(&w).SetInterface(s); err != nil || !PT(&w).Equal(&z) {
			return "mismatch:iface"
		}
		return "ok " + f.out(&z)
	case "json":
		x := f.arg(a[0])
		m, err := PT(&x).MarshalJSON()
		if err != nil {
			return "err:other"
		}
		var y, w T
		if err := PT(&y).UnmarshalJSON(m); err != nil || !PT(&y).Equal(&x) {
			return "mismatch:roundtrip"
		}
		m2, err := json.Marshal(PT(&x))
		if err != nil || !bytes.Equal(m, m2) {
			return "mismatch:encoding/json"
		}
		if err := json.Unmarshal(m2, PT(&w)); err != nil || !PT(&w).Equal(&x) {
			return "mismatch:encoding/json-rt"
		}
		return string(m)
	case "unjson":
		PT(&z).SetUint64(77)
		err := PT(&z).UnmarshalJSON(parseBytes(a[0]))
		return f.okRes(&z, err)
	case "bits":
		x := f.arg(a[0])
		return hexList(f.bitsOf(&x))
	case "bigint":
		x := f.arg(a[0])
		var b big.Int
		b.SetInt64(-5)
		r := PT(&x).BigInt(&b)
		if r != &b {
			return "mismatch"
		}
		return hexBig(&b)
	case "uint64":
		x := f.arg(a[0])
		return hexBig(new(big.Int).SetUint64(PT(&x).Uint64()))
	case "isuint64":
		x := f.arg(a[0])
		return boolStr(PT(&x).IsUint64())
	case "fitsoneword":
		x := f.arg(a[0])
		return boolStr(PT(&x).FitsOnOneWord())
	case "rt":
		return f.roundTrips(a[0])
	case "vecrt":
		v := f.vec(a[0])
		in := append(V{}, v...)
		var buf bytes.Buffer
		n, err := f.codec(&v).WriteTo(&buf)
		if err != nil || n != int64(buf.Len()) {
			return "mismatch:writeto-n"
		}
		mb, err := f.codec(&v).MarshalBinary()
		if err != nil || !bytes.Equal(mb, buf.Bytes()) {
			return "mismatch:marshalbinary"
		}
		for i := range v {
			if !PT(&v[i]).Equal(&in[i]) {
				return "arg-mutated"
			}
		}
		data := buf.Bytes()
		r := f.vecRead(data)
		parts := strings.Split(r, " | ")
		if len(parts) != 2 || parts[0] != parts[1] {
			return hexBytes(data) + " mismatch:" + r
		}
		return hexBytes(data) + " " + parts[0]
	case "vecread":
		return f.vecRead(parseBytes(a[0]))
	}
	return "bad-op"
}

// every conversion and back on one element: "1" or the name of the first failing round trip
func (f *fieldImpl[T, PT, V, PV]) roundTrips(raw string) string {
	x := f.arg(raw)
	be, le := c08Orders[f.Name()][0], c08Orders[f.Name()][1]
	q := f.Q()
	var y T
	var v big.Int
	PT(&x).BigInt(&v)
	if v.Sign() < 0 || v.Cmp(q) >= 0 {
		return "fail:bigint-range"
	}
	same := func(name string, err error) string {
		if err != nil || !PT(&y).Equal(&x) {
			return "fail:" + name
		}
		y = f.dirty(1)[0]
		return ""
	}
	y = f.dirty(1)[0]
	m := PT(&x).Marshal()
	if new(big.Int).SetBytes(m).Cmp(&v) != 0 || len(m) != f.Bytes() {
		return "fail:bytes-value"
	}
	if r := same("setbytescanonical", PT(&y).SetBytesCanonical(m)); r != "" {
		return r
	}
	PT(&y).SetBytes(m)
	if r := same("setbytes", nil); r != "" {
		return r
	}
	var err error
	y, err = f.orderElement(be, m)
	if r := same("bigendian", err); r != "" {
		return r
	}
	l := f.orderPut(le, x)
	for i := range l {
		if l[i] != m[len(m)-1-i] {
			return "fail:le-bytes"
		}
	}
	y, err = f.orderElement(le, l)
	if r := same("littleendian", err); r != "" {
		return r
	}
	PT(&y).SetBigInt(&v)
	if r := same("bigint", nil); r != "" {
		return r
	}
	// limbs in regular form → integer → element
	bits := f.bitsOf(&x)
	acc := new(big.Int)
	for i := len(bits) - 1; i >= 0; i-- {
		acc.Lsh(acc, uint(f.WordBits()))
		acc.Or(acc, bits[i])
	}
	if acc.Cmp(&v) != 0 {
		return "fail:bits-value"
	}
	for _, c := range []struct {
		base   int
		prefix string
	}{{10, ""}, {16, "0x"}, {16, "0X"}, {2, "0b"}, {8, "0o"}, {8, "0"}} {
		s := PT(&x).Text(c.base)
		if c.base != 10 {
			if t, ok := new(big.Int).SetString(s, c.base); !ok || t.Cmp(&v) != 0 {
				return "fail:text-value"
			}
		}
		_, err = PT(&y).SetString(c.prefix + s)
		if r := same("text"+c.prefix, err); r != "" {
			return r
		}
	}
	if _, err = PT(&y).SetString("0x" + strings.ToUpper(PT(&x).Text(16))); err != nil || !PT(&y).Equal(&x) {
		return "fail:text-upperhex"
	}
	js, err := PT(&x).MarshalJSON()
	if err != nil {
		return "fail:marshaljson"
	}
	if r := same("json", PT(&y).UnmarshalJSON(js)); r != "" {
		return r
	}
	if PT(&x).IsUint64() {
		PT(&y).SetUint64(PT(&x).Uint64())
		if r := same("uint64", nil); r != "" {
			return r
		}
	}
	if PT(&x).IsUint64() != v.IsUint64() {
		return "fail:isuint64"
	}
	if _, err = PT(&y).SetInterface(x); err != nil || !PT(&y).Equal(&x) {
		return "fail:iface-elem"
	}
	if _, err = PT(&y).SetInterface(&x); err != nil || !PT(&y).Equal(&x) {
		return "fail:iface-ptr"
	}
	return "1"
}
