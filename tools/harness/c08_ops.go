package main

// C08 generator: the lattice of the property's quantifier for every field.

import (
	"encoding/binary"
	"math/big"
	"runtime"
	"strings"
)

func c08Pad(v *big.Int, n int) []byte {
	b := v.Bytes()
	if len(b) >= n {
		return b[len(b)-n:]
	}
	return append(make([]byte, n-len(b)), b...)
}

func c08Rev(b []byte) []byte {
	r := make([]byte, len(b))
	for i := range b {
		r[len(b)-1-i] = b[i]
	}
	return r
}

func genC08(g *gen) {
	for i, name := range fieldNames {
		genC08Field(g, fields[name], i)
	}
}

func genC08Field(g *gen, f fieldAPI, idx int) {
	n := f.Name()
	q := f.Q()
	nb := f.Bytes()
	w := uint(f.WordBits())
	limbs := f.Limbs()
	one := big.NewInt(1)
	bi := func(k int64) *big.Int { return big.NewInt(k) }
	pow2 := func(k uint) *big.Int { return new(big.Int).Lsh(one, k) }
	add := func(a *big.Int, k int64) *big.Int { return new(big.Int).Add(a, bi(k)) }
	R := pow2(w * uint(limbs))
	toMont := func(v *big.Int) *big.Int { t := new(big.Int).Mul(v, R); return t.Mod(t, q) }
	maxEnc := add(pow2(uint(8*nb)), -1)

	// ---- regular values: C01 lattice + text / JSON / uint64 thresholds
	vals := fieldLattice(f, g.rng, g.budget(6, 60))
	seen := map[string]bool{}
	for _, v := range vals {
		seen[v.Text(16)] = true
	}
	addVal := func(v *big.Int) {
		if v.Sign() >= 0 && v.Cmp(q) < 0 && !seen[v.Text(16)] {
			seen[v.Text(16)] = true
			vals = append(vals, v)
		}
	}
	e15 := new(big.Int).Exp(bi(10), bi(15), nil)
	e14 := new(big.Int).Exp(bi(10), bi(14), nil)
	for _, v := range []*big.Int{bi(9), bi(10), bi(35), bi(36), bi(255), bi(256), bi(65534), bi(65535), bi(65536), bi(65537),
		add(e15, -1), e15, add(e15, 1), add(e14, -1), e14, pow2(31), pow2(32), add(pow2(32), -1), pow2(63), add(pow2(64), -1), pow2(64), add(pow2(64), 1)} {
		addVal(v)
		addVal(new(big.Int).Sub(q, v))
	}
	for i := 1; i <= nb; i++ { // byte boundaries
		addVal(pow2(uint(8 * i)))
		addVal(add(pow2(uint(8*i)), -1))
	}
	for _, v := range vals {
		x := hexBig(toMont(v))
		for _, op := range []string{"tobytes", "tobytesle", "json", "bits", "bigint", "uint64", "isuint64", "rt", "fitsoneword"} {
			g.emit("C08 %s %s %s", n, op, x)
		}
		g.emit("C08 %s fitsoneword %s", n, hexBig(v)) // FitsOnOneWord looks at the limbs it is given
		for _, b := range []int{10, 16, 2} {
			g.emit("C08 %s text %s %x", n, x, b)
		}
		g.emit("C08 %s text %s %x", n, x, 2+g.rng.intn(35))
	}
	for _, b := range []string{"3", "8", "23", "24", "1", "0", "25", "-1", "-a", "100"} { // 0x24 = 36 ok, 1/0/37/neg: documented panic
		g.emit("C08 %s text %s %s", n, hexBig(toMont(vals[g.rng.intn(len(vals))])), b)
	}

	// ---- integers: SetBigInt / SetInt64 / SetUint64
	var ints []*big.Int
	for _, k := range []int64{0, 1, 2, 3} {
		kq := new(big.Int).Mul(q, bi(k))
		for d := int64(-2); d <= 2; d++ {
			ints = append(ints, add(kq, d), new(big.Int).Neg(add(kq, d)))
		}
	}
	ks := []uint{7, 8, 9, 15, 16, 31, 32, 33, 63, 64, 65, 127, 128, uint(8*nb) - 1, uint(8 * nb), uint(8*nb) + 1, uint(16 * nb), uint(16*nb) + 1, uint(q.BitLen()), uint(q.BitLen()) - 1}
	for i := 1; i <= limbs+1; i++ {
		ks = append(ks, w*uint(i)-1, w*uint(i), w*uint(i)+1)
	}
	for _, k := range ks {
		for d := int64(-1); d <= 1; d++ {
			ints = append(ints, add(pow2(k), d), new(big.Int).Neg(add(pow2(k), d)))
		}
	}
	for i := 0; i < g.budget(10, 200); i++ {
		v := g.rng.bigBits(1 + g.rng.intn(4*8*nb+70))
		if g.rng.coin() {
			v.Neg(v)
		}
		ints = append(ints, v)
		m := new(big.Int).Mul(q, g.rng.bigBits(1+g.rng.intn(200))) // multiples of q
		if g.rng.coin() {
			m.Neg(m)
		}
		ints = append(ints, m)
	}
	for _, v := range vals {
		ints = append(ints, v)
	}
	for _, v := range ints {
		g.emit("C08 %s setbigint %s", n, signedHex(v))
	}
	i64 := []*big.Int{bi(0), bi(1), bi(-1), bi(2), bi(-2), bi(65535), bi(-65535), bi(-65536), bi(1 << 31), bi(-(1 << 31)), bi(1 << 32), bi(-(1 << 32)),
		bi(1<<63 - 1), bi(-1 << 63), bi(-1<<63 + 1), bi(1 << 62)}
	u64 := []*big.Int{bi(0), bi(1), bi(2), add(pow2(64), -1), add(pow2(64), -2), pow2(63), add(pow2(63), -1), pow2(32), add(pow2(32), -1), pow2(31)}
	for k := int64(0); k <= 8; k++ {
		for d := int64(-1); d <= 1; d++ {
			v := add(new(big.Int).Mul(q, bi(k)), d)
			i64 = append(i64, v, new(big.Int).Neg(v))
			u64 = append(u64, v)
		}
	}
	for i := 0; i < g.budget(10, 300); i++ {
		i64 = append(i64, new(big.Int).SetInt64(int64(g.rng.u64())))
		u64 = append(u64, new(big.Int).SetUint64(g.rng.u64()))
		u64 = append(u64, new(big.Int).SetUint64(g.rng.u64()>>uint(g.rng.intn(64))))
	}
	for _, v := range i64 {
		if v.IsInt64() {
			g.emit("C08 %s setint64 %s", n, signedHex(v))
		}
	}
	for _, v := range u64 {
		if v.IsUint64() {
			g.emit("C08 %s setuint64 %s", n, hexBig(v))
		}
	}

	// ---- byte strings of every length 0..2*Bytes+1
	special := []*big.Int{add(q, -1), q, add(q, 1), maxEnc, add(q, -2), bi(0), bi(1), new(big.Int).Lsh(q, 1), add(new(big.Int).Lsh(q, 8), 0)}
	mask := add(pow2(w), -1)
	for i := 0; i < limbs; i++ { // q with one limb perturbed / saturated: above and below q, still Bytes long
		d := pow2(w * uint(i))
		special = append(special, new(big.Int).Add(q, d), new(big.Int).Sub(q, d), new(big.Int).Or(q, new(big.Int).Lsh(mask, w*uint(i))))
	}
	for l := 0; l <= 2*nb+1; l++ {
		var bss [][]byte
		// quick: every length gets the zero / ff / random strings, the structured ones go to the boundary lengths and a sample
		full := g.thorough() || l <= 2 || (l >= nb-1 && l <= nb+1) || l >= 2*nb-1 || l%8 == 0 || g.rng.intn(6) == 0
		bss = append(bss, make([]byte, l), []byte(strings.Repeat("\xff", l)))
		for i := 0; i < g.budget(1, 12); i++ {
			bss = append(bss, g.rng.bytes(l))
		}
		for si, s := range special {
			if len(s.Bytes()) <= l && (full || si < 4 && l%3 == 0) {
				bss = append(bss, c08Pad(s, l))
			}
		}
		if l > 0 && full {
			b := make([]byte, l) // a single high / low bit
			b[0] = 0x80
			bss = append(bss, b)
			b = make([]byte, l)
			b[l-1] = 1
			bss = append(bss, b)
		}
		for _, b := range bss {
			g.emit("C08 %s setbytes %s", n, hexBytes(b))
			g.emit("C08 %s setcanonical %s", n, hexBytes(b))
			if l == nb || g.rng.intn(8) == 0 {
				g.emit("C08 %s lecanonical %s", n, hexBytes(c08Rev(b)))
			}
		}
	}
	for _, v := range vals { // canonical encodings of the lattice, and the same bytes read in the other order
		b := c08Pad(v, nb)
		g.emit("C08 %s setcanonical %s", n, hexBytes(b))
		g.emit("C08 %s lecanonical %s", n, hexBytes(c08Rev(b)))
		g.emit("C08 %s lecanonical %s", n, hexBytes(b))
		g.emit("C08 %s setbytes %s", n, hexBytes(b))
	}

	// ---- text
	var strs []string
	pickInt := func() *big.Int { return ints[g.rng.intn(len(ints))] }
	signed := func(v *big.Int, body string) string {
		if v.Sign() < 0 {
			return "-" + body
		}
		if g.rng.intn(4) == 0 {
			return "+" + body
		}
		return body
	}
	underscore := func(s string) string { // valid separators: between digits
		if len(s) < 2 {
			return s
		}
		i := 1 + g.rng.intn(len(s)-1)
		return s[:i] + "_" + s[i:]
	}
	for i := 0; i < g.budget(40, 600); i++ {
		v := pickInt()
		a := new(big.Int).Abs(v)
		switch g.rng.intn(9) {
		case 0:
			strs = append(strs, v.Text(10))
		case 1:
			strs = append(strs, signed(v, "0x"+a.Text(16)))
		case 2:
			strs = append(strs, signed(v, "0X"+strings.ToUpper(a.Text(16))))
		case 3:
			strs = append(strs, signed(v, "0b"+a.Text(2)), signed(v, "0B"+a.Text(2)))
		case 4:
			strs = append(strs, signed(v, "0o"+a.Text(8)), signed(v, "0O"+a.Text(8)))
		case 5:
			strs = append(strs, signed(v, "0"+a.Text(8)))
		case 6:
			strs = append(strs, signed(v, underscore(a.Text(10))), signed(v, "0x_"+underscore(a.Text(16))), signed(v, "0_"+a.Text(8)))
		case 7:
			strs = append(strs, signed(v, a.Text(10)))
		case 8: // one random byte changed / inserted / removed in a valid literal
			s := []byte(signed(v, []string{a.Text(10), "0x" + a.Text(16), "0b" + a.Text(2), "0" + a.Text(8)}[g.rng.intn(4)]))
			alphabet := "0123456789abcdefABCDEFxXoObB_-+ .eEgGzZ\x00\xc3\xa9/:@`{"
			c := alphabet[g.rng.intn(len(alphabet))]
			p := g.rng.intn(len(s) + 1)
			switch g.rng.intn(3) {
			case 0:
				s = append(s[:p:p], append([]byte{c}, s[p:]...)...)
			case 1:
				if p < len(s) {
					s[p] = c
				}
			default:
				if p < len(s) {
					s = append(s[:p:p], s[p+1:]...)
				}
			}
			strs = append(strs, string(s))
		}
	}
	strs = append(strs, "", "-", "+", "0", "-0", "+0", "00", "0x", "0X", "0b", "0o", "0x0", "0b2", "0o8", "08", "09", "07", "0_7", "0_", "_0", "_1", "1_", "1__0", "1_0", "0x_1", "0x1_", "0x__1", "0_x1", "-_1", "--1", "+-1", "-+1",
		" 1", "1 ", "1\n", "\t1", "1e5", "1.0", "1.", ".5", "0x1p4", "1/2", "0b_1", "0o_7", "0B1_0", "a", "A", "0xg", "0xG", "z", "Z", "١٢٣", "１２", "1\x00", "\x001", "0e0", "-0x0", "+0b0", "0xabcdefABCDEF", "0Xabcdef", "infinity", "NaN", "nil", "<nil>", "0x-1", "0 x1", "0x 1")
	strs = append(strs, q.Text(10), add(q, -1).Text(10), add(q, 1).Text(10), "-"+q.Text(10), "0x"+q.Text(16), strings.Repeat("9", g.budget(600, 5000)), "-"+strings.Repeat("9", 800), "0x"+strings.Repeat("f", 700), strings.Repeat("0", 300)+"7")
	for _, v := range vals {
		strs = append(strs, v.Text(10), new(big.Int).Sub(v, q).Text(10))
	}
	bits := f.(interface{ Q() *big.Int }).Q().BitLen()
	for _, s := range strs {
		g.emit("C08 %s setstring %s", n, hexBytes([]byte(s)))
		switch g.rng.intn(4) {
		case 0:
			g.emit("C08 %s unjson %s", n, hexBytes([]byte(s)))
		case 1:
			g.emit("C08 %s unjson %s", n, hexBytes([]byte(`"`+s+`"`)))
		case 2:
			g.emit("C08 %s unjson %s", n, hexBytes([]byte(`"`+s)))
		default:
			g.emit("C08 %s unjson %s", n, hexBytes([]byte(s+`"`)))
		}
	}
	for _, s := range []string{`""`, `"`, `"""`, `""1""`, `null`, `"null"`, `{}`, `[1]`, `"1" `, ` "1"`, `'1'`, `"-1"`, `-"1"`, `"0x10"`, `0x10`} {
		g.emit("C08 %s unjson %s", n, hexBytes([]byte(s)))
	}
	for d := -2; d <= 2; d++ { // the Bits*3 length guard
		l := bits*3 + d
		g.emit("C08 %s unjson %s", n, hexBytes([]byte(strings.Repeat("0", l-1)+"7")))
		g.emit("C08 %s unjson %s", n, hexBytes([]byte(`"`+strings.Repeat("0", l-3)+`7"`)))
		g.emit("C08 %s unjson %s", n, hexBytes([]byte(strings.Repeat("1", l))))
	}

	// ---- vectors
	pick := func() *big.Int {
		if g.rng.intn(3) == 0 {
			return vals[g.rng.intn(len(vals))]
		}
		return g.rng.bigBelow(q)
	}
	enc := func(vs []*big.Int, prefix uint32) []byte {
		b := make([]byte, 4, 4+len(vs)*nb)
		binary.BigEndian.PutUint32(b, prefix)
		for _, v := range vs {
			b = append(b, c08Pad(v, nb)...)
		}
		return b
	}
	bad := []*big.Int{q, add(q, 1), maxEnc}
	maxLen := g.budget(6, 24)
	for l := 0; l <= maxLen; l++ {
		vs := make([]*big.Int, l)
		ms := make([]*big.Int, l)
		for i := range vs {
			vs[i] = pick()
			ms[i] = toMont(vs[i])
		}
		g.emit("C08 %s vecrt %s", n, hexList(ms))
		data := enc(vs, uint32(l))
		// truncations: every cut in the prefix, around every entry boundary, a few random ones
		cuts := map[int]bool{0: true, 1: true, 2: true, 3: true, 4: true, len(data) - 1: true}
		for i := 0; i <= l; i++ {
			cuts[4+i*nb-1] = true
			cuts[4+i*nb+1] = true
			cuts[4+i*nb] = true
		}
		for c := range cuts {
			if c < 0 || c > len(data) {
				delete(cuts, c)
			}
		}
		for c := 0; c <= len(data); c++ { // deterministic order
			if cuts[c] && (l <= 3 || g.thorough() || g.rng.intn(3) == 0) {
				g.emit("C08 %s vecread %s", n, hexBytes(data[:c]))
			}
		}
		// trailing bytes, prefix off by one in both directions
		g.emit("C08 %s vecread %s", n, hexBytes(append(append([]byte{}, data...), g.rng.bytes(1+g.rng.intn(nb+2))...)))
		g.emit("C08 %s vecread %s", n, hexBytes(enc(vs, uint32(l+1))))
		if l > 0 {
			g.emit("C08 %s vecread %s", n, hexBytes(enc(vs, uint32(l-1))))
		}
		// an invalid entry at each position
		for i := 0; i < l; i++ {
			for bi, b := range bad {
				if bi > 0 && !g.thorough() && g.rng.intn(3) != 0 {
					continue
				}
				ws := append([]*big.Int{}, vs...)
				ws[i] = b
				d := enc(ws, uint32(l))
				g.emit("C08 %s vecread %s", n, hexBytes(d))
				if g.rng.intn(4) == 0 { // invalid entry and truncated after it / before it
					g.emit("C08 %s vecread %s", n, hexBytes(d[:len(d)-1-g.rng.intn(nb)]))
				}
			}
		}
		if l >= 2 { // two invalid entries
			ws := append([]*big.Int{}, vs...)
			ws[0], ws[l-1] = q, maxEnc
			g.emit("C08 %s vecread %s", n, hexBytes(enc(ws, uint32(l))))
		}
	}
	for _, l := range []int{g.budget(70, 300), g.budget(129, 1025)} { // longer vectors: the async reader splits the work
		vs := make([]*big.Int, l)
		ms := make([]*big.Int, l)
		for i := range vs {
			vs[i] = pick()
			ms[i] = toMont(vs[i])
		}
		g.emit("C08 %s vecrt %s", n, hexList(ms))
		for _, i := range []int{0, l / 2, l - 1, g.rng.intn(l)} {
			ws := append([]*big.Int{}, vs...)
			ws[i] = bad[g.rng.intn(len(bad))]
			g.emit("C08 %s vecread %s", n, hexBytes(enc(ws, uint32(l))))
		}
	}
	// work-splitter lattice of AsyncReadFrom: the validation / Montgomery-conversion pass is cut into t = runtime.NumCPU()
	// chunks (the private `execute` of vector.go reads NumCPU, not GOMAXPROCS: the lengths below depend on the machine the
	// check runs on). Lengths n = t*k + r for small k and EVERY remainder r in 0..t-1 (all the shapes of the chunk
	// arithmetic between t and t^2), read synchronously and asynchronously and compared with the model element-wise;
	// for a few lengths a non-canonical entry at EVERY index of the tail (the last t entries).
	{
		t := runtime.NumCPU()
		if t < 4 {
			t = 4
		}
		mk := func(l int) []*big.Int {
			vs := make([]*big.Int, l)
			for i := range vs {
				vs[i] = pick()
			}
			return vs
		}
		tail := func(vs []*big.Int) {
			l := len(vs)
			for i := l - t; i < l; i++ {
				if i < 0 {
					continue
				}
				ws := append([]*big.Int{}, vs...)
				ws[i] = bad[g.rng.intn(len(bad))]
				g.emit("C08 %s vecread %s", n, hexBytes(enc(ws, uint32(l))))
			}
		}
		// quick: k = 1 for every field and k in {2,3,5} spread over the fields (same template in the 23 packages)
		ks := []int{1, []int{2, 3, 5}[idx%3]}
		if g.thorough() {
			ks = []int{1, 2, 3, 5, 7}
		}
		for _, k := range ks {
			rt := g.rng.intn(t)
			for r := 0; r < t; r++ {
				vs := mk(t*k + r)
				g.emit("C08 %s vecread %s", n, hexBytes(enc(vs, uint32(len(vs)))))
				if (k == 1 && (g.thorough() || r == rt || r == t-1)) || (g.thorough() && r == rt) {
					tail(vs)
				} else if g.rng.coin() { // one non-canonical entry somewhere in the tail
					vs[len(vs)-1-g.rng.intn(t)] = bad[g.rng.intn(len(bad))]
					g.emit("C08 %s vecread %s", n, hexBytes(enc(vs, uint32(len(vs)))))
				}
			}
		}
		// every length up to (t+2)^2, alone and with a non-canonical last entry: the two 31-bit fields (thorough: and every
		// 6th field); bn254_fr in quick alternating valid / non-canonical last entry
		small := n == "koalabear" || n == "babybear"
		both := small || (g.thorough() && (idx%6 == 0 || n == "bn254_fr"))
		if both || n == "bn254_fr" {
			for l := 0; l <= (t+2)*(t+2); l++ {
				vs := mk(l)
				if both || l%2 == 0 {
					g.emit("C08 %s vecread %s", n, hexBytes(enc(vs, uint32(l))))
				}
				if l > 0 && (both || l%2 == 1) {
					vs[l-1] = bad[g.rng.intn(len(bad))]
					g.emit("C08 %s vecread %s", n, hexBytes(enc(vs, uint32(l))))
				}
			}
		}
	}
	for i := 0; i < g.budget(10, 100); i++ { // random bytes with a small prefix
		l := g.rng.intn(5)
		b := g.rng.bytes(4 + g.rng.intn((l+1)*nb+3))
		binary.BigEndian.PutUint32(b, uint32(l))
		g.emit("C08 %s vecread %s", n, hexBytes(b))
	}
	// length prefixes far beyond the data (in process up to the allocation cap of c08.go)
	capLen := uint32(c08AllocCap / nb)
	for _, p := range []uint32{255, 256, 65535, 65536, capLen, capLen - 1} {
		g.emit("C08 %s vecread %s", n, hexBytes(enc([]*big.Int{pick()}, p)))
		g.emit("C08 %s vecread %s", n, hexBytes(enc(nil, p)))
	}
	// attacker-chosen prefixes the readers allocate before reading anything (answered by a child process):
	// 2^32-1, and the prefixes whose byte count wraps around in uint32 arithmetic
	if g.thorough() || idx%8 == 0 || n == "bn254_fr" || n == "koalabear" {
		wrap := uint32((uint64(1) << 32) / uint64(nb))
		g.emit("C08 %s vecread %s", n, hexBytes(enc(nil, 0xffffffff)))
		g.emit("C08 %s vecread %s", n, hexBytes(enc([]*big.Int{bi(7)}, wrap+1)))
		if (uint64(1)<<32)%uint64(nb) == 0 {
			g.emit("C08 %s vecread %s", n, hexBytes(enc(nil, wrap)))
		}
	}
}
