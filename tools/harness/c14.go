package main

// C14 — algebraic hashes: MiMC (8 instances), Poseidon2 (8 curve fields + 3 small fields; permutation, Compress,
// Merkle–Damgård wrapper, registry), ring-SIS. Streaming histories of Write/Sum/Reset/State/SetState.
//
// history token grammar (shared by MiMC and Merkle–Damgård hashers):
//   W:<hex>[:<poison hex>]  Write(p) with len(p)=len(hex); cap(p)=len(p) exactly unless a poison tail is given, in which case
//                           the backing array continues with the poison bytes (spare capacity that must never be read);
//                           after the call the caller's buffer is overwritten (the hasher must not keep a reference)
//   S:<hex>[:d<dirt hex>]   Sum(b): result rendered immediately, then the returned slice is overwritten by the caller; with `d…` the
//                           spare capacity of b holds these garbage bytes (dirty destination: append may or may not land in it)
//   R                       Reset
//   T                       State(): rendered immediately, then the returned slice is overwritten by the caller
//   U:<hex>                 SetState(s), then the caller overwrites s
//   V                       st := State(); fresh hasher h2; h2.SetState(st); continue with h2
// every op is executed under its own recover: a panic is the result `panic` of that op and the history continues.

import (
	"fmt"
	stdhash "hash"
	"math/big"
	"os"
	"os/exec"
	"strings"

	bls12_377_fr "github.com/consensys/gnark-crypto/ecc/bls12-377/fr"
	bls12_381_fr "github.com/consensys/gnark-crypto/ecc/bls12-381/fr"
	bls24_315_fr "github.com/consensys/gnark-crypto/ecc/bls24-315/fr"
	bls24_317_fr "github.com/consensys/gnark-crypto/ecc/bls24-317/fr"
	bn254_fr "github.com/consensys/gnark-crypto/ecc/bn254/fr"
	bw6_633_fr "github.com/consensys/gnark-crypto/ecc/bw6-633/fr"
	bw6_761_fr "github.com/consensys/gnark-crypto/ecc/bw6-761/fr"
	grumpkin_fr "github.com/consensys/gnark-crypto/ecc/grumpkin/fr"
	mimc_bls12_377 "github.com/consensys/gnark-crypto/ecc/bls12-377/fr/mimc"
	mimc_bls12_381 "github.com/consensys/gnark-crypto/ecc/bls12-381/fr/mimc"
	mimc_bls24_315 "github.com/consensys/gnark-crypto/ecc/bls24-315/fr/mimc"
	mimc_bls24_317 "github.com/consensys/gnark-crypto/ecc/bls24-317/fr/mimc"
	mimc_bn254 "github.com/consensys/gnark-crypto/ecc/bn254/fr/mimc"
	mimc_bw6_633 "github.com/consensys/gnark-crypto/ecc/bw6-633/fr/mimc"
	mimc_bw6_761 "github.com/consensys/gnark-crypto/ecc/bw6-761/fr/mimc"
	mimc_grumpkin "github.com/consensys/gnark-crypto/ecc/grumpkin/fr/mimc"
	"github.com/consensys/gnark-crypto/hash"
)

func init() {
	executors["C14"] = execC14
	generators["C14"] = genC14
}

type stateStorer = hash.StateStorer

type mimcInst struct {
	name   string // curve, also the key of the Lean table (exponent, number of rounds)
	field  string // fields[...] name
	reg    hash.Hash
	newH   func() stateStorer
	newLE  func() stateStorer
	consts func() []big.Int
	sumFn  func([]byte) ([]byte, error)
}

var mimcs = []mimcInst{
	{"bn254", "bn254_fr", hash.MIMC_BN254, func() stateStorer { return mimc_bn254.NewMiMC() },
		func() stateStorer { return mimc_bn254.NewMiMC(mimc_bn254.WithByteOrder(bn254_fr.LittleEndian)) }, mimc_bn254.GetConstants, mimc_bn254.Sum},
	{"bls12-381", "bls12_381_fr", hash.MIMC_BLS12_381, func() stateStorer { return mimc_bls12_381.NewMiMC() },
		func() stateStorer { return mimc_bls12_381.NewMiMC(mimc_bls12_381.WithByteOrder(bls12_381_fr.LittleEndian)) }, mimc_bls12_381.GetConstants, mimc_bls12_381.Sum},
	{"bls12-377", "bls12_377_fr", hash.MIMC_BLS12_377, func() stateStorer { return mimc_bls12_377.NewMiMC() },
		func() stateStorer { return mimc_bls12_377.NewMiMC(mimc_bls12_377.WithByteOrder(bls12_377_fr.LittleEndian)) }, mimc_bls12_377.GetConstants, mimc_bls12_377.Sum},
	{"bw6-761", "bw6_761_fr", hash.MIMC_BW6_761, func() stateStorer { return mimc_bw6_761.NewMiMC() },
		func() stateStorer { return mimc_bw6_761.NewMiMC(mimc_bw6_761.WithByteOrder(bw6_761_fr.LittleEndian)) }, mimc_bw6_761.GetConstants, mimc_bw6_761.Sum},
	{"bls24-315", "bls24_315_fr", hash.MIMC_BLS24_315, func() stateStorer { return mimc_bls24_315.NewMiMC() },
		func() stateStorer { return mimc_bls24_315.NewMiMC(mimc_bls24_315.WithByteOrder(bls24_315_fr.LittleEndian)) }, mimc_bls24_315.GetConstants, mimc_bls24_315.Sum},
	{"bls24-317", "bls24_317_fr", hash.MIMC_BLS24_317, func() stateStorer { return mimc_bls24_317.NewMiMC() },
		func() stateStorer { return mimc_bls24_317.NewMiMC(mimc_bls24_317.WithByteOrder(bls24_317_fr.LittleEndian)) }, mimc_bls24_317.GetConstants, mimc_bls24_317.Sum},
	{"bw6-633", "bw6_633_fr", hash.MIMC_BW6_633, func() stateStorer { return mimc_bw6_633.NewMiMC() },
		func() stateStorer { return mimc_bw6_633.NewMiMC(mimc_bw6_633.WithByteOrder(bw6_633_fr.LittleEndian)) }, mimc_bw6_633.GetConstants, mimc_bw6_633.Sum},
	{"grumpkin", "grumpkin_fr", hash.MIMC_GRUMPKIN, func() stateStorer { return mimc_grumpkin.NewMiMC() },
		func() stateStorer { return mimc_grumpkin.NewMiMC(mimc_grumpkin.WithByteOrder(grumpkin_fr.LittleEndian)) }, mimc_grumpkin.GetConstants, mimc_grumpkin.Sum},
}

func mimcByName(n string) *mimcInst {
	for i := range mimcs {
		if mimcs[i].name == n {
			return &mimcs[i]
		}
	}
	return nil
}

func c14HexBigs(v []big.Int) string {
	if len(v) == 0 {
		return "-"
	}
	s := make([]string, len(v))
	for i := range v {
		s[i] = v[i].Text(16)
	}
	return strings.Join(s, ",")
}

func c14Clobber(b []byte) {
	for i := range b {
		b[i] ^= 0xa5
	}
}

// exactly-sized slice, optionally followed by poisoned spare capacity
func c14MkSlice(data, poison []byte) []byte {
	buf := make([]byte, len(data)+len(poison))
	copy(buf, data)
	copy(buf[len(data):], poison)
	return buf[:len(data)]
}

// one op of a history under its own recover
// alwaysClobber: overwrite every slice handed in/out after the call (MiMC); otherwise only when the token ends in `:m`
var alwaysClobber = true

func histOp(h *stdhash.Hash, fresh func() stdhash.Hash, tok string) (res string) {
	defer func() {
		if r := recover(); r != nil {
			res = "panic"
		}
	}()
	f := strings.Split(tok, ":")
	mut := alwaysClobber
	if n := len(f); n > 1 && f[n-1] == "m" && f[0] != "W" {
		mut = true
		f = f[:n-1]
	}
	switch {
	case f[0] == "W" && (len(f) == 2 || len(f) == 3):
		var poison []byte
		if len(f) == 3 {
			poison = parseBytes(f[2])
		}
		p := c14MkSlice(parseBytes(f[1]), poison)
		n, err := (*h).Write(p)
		c14Clobber(p)
		if err != nil {
			return "err"
		}
		return "ok:" + fmt.Sprintf("%x", n)
	case f[0] == "S" && (len(f) == 2 || len(f) == 3 && strings.HasPrefix(f[2], "d")):
		// dirty destination: the spare capacity of b holds garbage (`d<hex>`)
		var dirt []byte
		if len(f) == 3 {
			dirt = parseBytes(f[2][1:])
		}
		b := c14MkSlice(parseBytes(f[1]), dirt)
		out := (*h).Sum(b)
		r := hexBytes(out)
		if mut {
			c14Clobber(out)
		}
		return r
	case f[0] == "R" && len(f) == 1:
		(*h).Reset()
		return "ok"
	case f[0] == "T" && len(f) == 1:
		out := (*h).(stateStorer).State()
		r := hexBytes(out)
		if mut {
			c14Clobber(out)
		}
		return r
	case f[0] == "U" && len(f) == 2:
		s := c14MkSlice(parseBytes(f[1]), nil)
		err := (*h).(stateStorer).SetState(s)
		if mut {
			c14Clobber(s)
		}
		if err != nil {
			return "err"
		}
		return "ok"
	case f[0] == "V" && len(f) == 1:
		st := (*h).(stateStorer).State()
		h2 := fresh()
		err := h2.(stateStorer).SetState(st)
		if err != nil {
			return "err"
		}
		*h = h2
		return "ok"
	}
	return "bad-op"
}

func runHistories(fresh func() stdhash.Hash, toks []string, always bool) string {
	alwaysClobber = always
	var hs []string
	var cur []string
	h := fresh()
	flush := func() {
		hs = append(hs, strings.Join(cur, " "))
		cur = nil
		h = fresh()
	}
	for _, t := range toks {
		if t == "|" {
			flush()
			continue
		}
		cur = append(cur, histOp(&h, fresh, t))
	}
	flush()
	return strings.Join(hs, " | ")
}

func execC14(a []string) string {
	if len(a) < 1 {
		return "bad-op"
	}
	switch a[0] {
	case "fresh":
		// C14 fresh <op…>: the op is answered by a NEW process whose very first call into gnark-crypto is the entry point of
		// the op (package-level Sum, registry New, constructor, NewRSis, vortex helper): lazily initialised package state
		// (round constants, default parameters) does not exist yet. Every executor below therefore runs the entry point
		// under test BEFORE it compares the constants / keys on the line with GetConstants() / NewParameters().
		if len(a) < 2 || a[1] == "fresh" {
			return "bad-op"
		}
		cmd := exec.Command(os.Args[0], "-mode", "exec")
		cmd.Stdin = strings.NewReader("C14 " + strings.Join(a[1:], " ") + "\n")
		out, err := cmd.Output()
		if err != nil {
			return "err:spawn"
		}
		return strings.TrimSpace(string(out))
	case "mimc":
		return execMimc(a[1:])
	case "p2perm", "p2comp", "md":
		return execP2(a[0], a[1:])
	case "vx":
		return c14ExecVx(a[1:])
	case "sis", "sism", "sisd":
		return execSis(a[0], a[1:])
	case "siscover":
		return "missing-adapter"
	}
	return "bad-op"
}

// C14 mimc <ctor> <curve> <consts> tokens…
func execMimc(a []string) string {
	if len(a) < 3 {
		return "bad-op"
	}
	m := mimcByName(a[1])
	if m == nil {
		return "bad-op"
	}
	// the entry point under test runs first (it may be the first call of the process); only then are the constants on the
	// line compared with the ones the implementation uses (the model cannot run Keccak; GetConstants() initialises them)
	res := execMimc1(m, a[0], a[3:])
	if a[2] != c14HexBigs(m.consts()) {
		return "bad-consts"
	}
	return res
}

func execMimc1(m *mimcInst, ctor string, toks []string) string {
	switch ctor {
	case "new":
		return runHistories(func() stdhash.Hash { return m.newH() }, toks, true)
	case "le":
		return runHistories(func() stdhash.Hash { return m.newLE() }, toks, true)
	case "reg":
		return runHistories(func() stdhash.Hash { return m.reg.New() }, toks, true)
	case "regsize":
		// what the registry says about the digest size of its id, and what the function it constructs does
		if len(toks) != 0 {
			return "bad-op"
		}
		return c14RegSize(m.reg)
	case "fn":
		var outs []string
		for _, t := range toks {
			outs = append(outs, func() (res string) {
				defer func() {
					if r := recover(); r != nil {
						res = "panic"
					}
				}()
				msg := c14MkSlice(parseBytes(t), nil)
				out, err := m.sumFn(msg)
				if err != nil {
					return "err"
				}
				return hexBytes(out)
			}())
		}
		return join(outs)
	}
	return "bad-op"
}

// `hash.Hash.Size()` of a registry id, `Size()` of the hasher it constructs, length of the digest of the empty message
func c14RegSize(id hash.Hash) string {
	g := func(f func() int) string {
		return c14Guard(func() string { return fmt.Sprintf("%x", f()) })
	}
	return g(id.Size) + " " + g(func() int { return id.New().Size() }) + " " + g(func() int { return len(id.New().Sum(nil)) })
}

// ---------------------------------------------------------------- generation

type histAlphabet struct {
	size  int      // block size in bytes
	q     *big.Int // modulus of one element
	esize int      // bytes of one element (= size for MiMC and the curve Poseidon2; size = n·esize for small fields)
	le    bool
	md    bool // Merkle–Damgård hasher: caller-side mutations are explicit tokens (`:m`)
}

func (al *histAlphabet) elem(v *big.Int) []byte {
	b := make([]byte, al.esize)
	v.FillBytes(b)
	if al.le {
		for i, j := 0, len(b)-1; i < j; i, j = i+1, j-1 {
			b[i], b[j] = b[j], b[i]
		}
	}
	return b
}

// a block of canonical elements derived from a small counter / the rng
func (al *histAlphabet) block(r *rng, small bool) []byte {
	var out []byte
	for i := 0; i < al.size/al.esize; i++ {
		var v *big.Int
		if small {
			v = big.NewInt(int64(1 + r.intn(5)))
		} else {
			switch r.intn(8) {
			case 0:
				v = new(big.Int).Sub(al.q, big.NewInt(1))
			case 1:
				v = big.NewInt(0)
			default:
				v = r.bigBelow(al.q)
			}
		}
		out = append(out, al.elem(v)...)
	}
	return out
}

// a block with one non-canonical element (≥ q, fits the width)
func (al *histAlphabet) badBlock(r *rng) []byte {
	b := al.block(r, false)
	k := r.intn(al.size / al.esize)
	var v *big.Int
	lim := new(big.Int).Lsh(big.NewInt(1), uint(8*al.esize))
	switch r.intn(3) {
	case 0:
		v = new(big.Int).Set(al.q)
	case 1:
		v = new(big.Int).Sub(lim, big.NewInt(1))
	default:
		v = new(big.Int).Add(al.q, r.bigBelow(new(big.Int).Sub(lim, al.q)))
	}
	copy(b[k*al.esize:], al.elem(v))
	return b
}

func c14Cat(bs ...[]byte) []byte {
	var o []byte
	for _, b := range bs {
		o = append(o, b...)
	}
	return o
}

// the write lattice: 0, < block, = block, k·block, non-multiple (exact cap, and with poisoned spare capacity), non-canonical
// element first / later, valid prefix + bad tail
func (al *histAlphabet) writeTokens(r *rng, small bool) []string {
	B := func() []byte { return al.block(r, small) }
	nm := c14Cat(B(), B()[:1+r.intn(al.size-1)])
	tail := nm[al.size:]
	fill := al.block(r, true) // small canonical element(s): its low bytes complete the tail to a small (< q) value
	if al.le {
		fill = make([]byte, al.size)
	}
	return []string{
		"W:-",
		"W:" + hexBytes(B()[al.size-1:]),
		"W:" + hexBytes(B()[1:]),
		"W:" + hexBytes(B()),
		"W:" + hexBytes(c14Cat(B(), B())),
		"W:" + hexBytes(c14Cat(B(), B(), B())),
		"W:" + hexBytes(nm),
		"W:" + hexBytes(c14Cat(nm[:al.size], make([]byte, len(tail)))) + ":" + hexBytes(fill[len(tail):]),
		"W:" + hexBytes(nm) + ":" + hexBytes(c14BytesOf(0xff, 2*al.size)),
		"W:" + hexBytes(al.badBlock(r)),
		"W:" + hexBytes(c14Cat(B(), al.badBlock(r))),
		"W:" + hexBytes(c14Cat(B(), al.badBlock(r), B())),
		"W:" + hexBytes(B()) + ":" + hexBytes(c14BytesOf(0xff, al.size)),
	}
}

func c14BytesOf(v byte, n int) []byte {
	b := make([]byte, n)
	for i := range b {
		b[i] = v
	}
	return b
}

func (al *histAlphabet) otherTokens(r *rng, small bool) []string {
	st := al.block(r, small)
	if al.le { // states are always big endian
		al2 := *al
		al2.le = false
		st = al2.block(r, small)
	}
	al2 := *al
	al2.le = false
	return []string{
		"S:-",
		"S:" + hexBytes(st),
		"S:" + hexBytes(r.bytes(1+r.intn(3))),
		"R",
		"T",
		"V",
		"U:" + hexBytes(st),
		"U:" + hexBytes(al2.badBlock(r)),
		"U:" + hexBytes(st[1:]),
		"U:" + hexBytes(c14Cat(st, []byte{0})),
		"U:-",
		// caller-side mutation of the slice handed out / in (always on for MiMC, explicit for Merkle–Damgård)
		"S:-:m",
		"T:m",
		"U:" + hexBytes(st) + ":m",
		// dirty destinations: garbage in the spare capacity, enough for the digest / one byte short / far more
		"S:-:d" + hexBytes(c14BytesOf(0xee, al.size)),
		"S:" + hexBytes(r.bytes(1+r.intn(3))) + ":d" + hexBytes(r.bytes(al.size-1)) + ":m",
		"S:" + hexBytes(st) + ":d" + hexBytes(r.bytes(3*al.size)),
	}
}

// bounded-c14Exhaustive histories of length ≤ maxLen over `alphabet`; every maximal history is emitted (prefixes are
// covered because results are per op), batched `per` histories to a line
func emitHistories(g *gen, header string, hists [][]string, per int) {
	for i := 0; i < len(hists); i += per {
		j := i + per
		if j > len(hists) {
			j = len(hists)
		}
		parts := make([]string, 0, j-i)
		for _, h := range hists[i:j] {
			parts = append(parts, strings.Join(h, " "))
		}
		g.emit("%s %s", header, strings.Join(parts, " | "))
	}
}

func c14Exhaustive(alphabet []string, maxLen int) [][]string {
	var out [][]string
	var rec func(prefix []string)
	rec = func(prefix []string) {
		if len(prefix) == maxLen {
			out = append(out, append([]string{}, prefix...))
			return
		}
		for _, a := range alphabet {
			rec(append(prefix, a))
		}
	}
	rec(nil)
	return out
}

func randomHistories(g *gen, al *histAlphabet, n, maxLen int, badRate int) [][]string {
	var out [][]string
	for i := 0; i < n; i++ {
		l := 1 + g.rng.intn(maxLen)
		h := make([]string, l)
		for j := range h {
			w := al.writeTokens(g.rng, false)
			o := al.otherTokens(g.rng, false)
			switch k := g.rng.intn(100); {
			case k < badRate: // malformed stream
				bad := append(append([]string{}, w[6:]...), o[7:]...)
				if al.md {
					bad = append(append(append([]string{}, w[9:12]...), o[1], o[2]), o[7:]...)
				}
				h[j] = bad[g.rng.intn(len(bad))]
			case k < 55:
				nb := g.rng.intn(5)
				var p []byte
				for b := 0; b < nb; b++ {
					p = append(p, al.block(g.rng, false)...)
				}
				h[j] = "W:" + hexBytes(p)
				if g.rng.intn(4) == 0 {
					h[j] += ":" + hexBytes(g.rng.bytes(1+g.rng.intn(2*al.size)))
				}
			case k < 62:
				h[j] = w[1+g.rng.intn(2)]
			case al.md:
				h[j] = []string{o[0], o[0], o[3], o[4], o[5], o[6], w[6]}[g.rng.intn(7)]
			default:
				h[j] = o[g.rng.intn(7)]
			}
			if f := strings.Split(h[j], ":"); f[0] == "S" && len(f) == 2 && g.rng.intn(3) == 0 {
				h[j] += ":d" + hexBytes(g.rng.bytes(1+g.rng.intn(2*al.size)))
			}
		}
		out = append(out, h)
	}
	return out
}

func genMimc(g *gen) {
	for mi := range mimcs {
		m := &mimcs[mi]
		f := fields[m.field]
		consts := c14HexBigs(m.consts())
		for _, ctor := range []string{"new", "reg", "le"} {
			al := &histAlphabet{size: f.Bytes(), esize: f.Bytes(), q: f.Q(), le: ctor == "le"}
			hdr := fmt.Sprintf("C14 mimc %s %s %s", ctor, m.name, consts)
			// bounded-c14Exhaustive
			w := al.writeTokens(g.rng, true)
			o := al.otherTokens(g.rng, true)
			full := append(append([]string{}, w...), o...)
			var hists [][]string
			if ctor == "new" {
				hists = c14Exhaustive(full, g.budget(2, 3))
				// mostly-valid alphabets (two refusing writes among 13 / one among 9) for the longer histories
				red13 := []string{w[0], w[1], w[3], w[4], w[6], w[10], o[0], o[1], o[3], o[4], o[5], o[6], o[7]}
				red9 := []string{w[1], w[3], w[4], w[7], o[0], o[3], o[4], o[5], o[6]}
				deep := m.name == "bn254" || m.name == "bls12-377" || m.name == "bls24-317" // one per exponent 5, 17, 7
				switch {
				case g.thorough() && deep:
					hists = append(hists, c14Exhaustive(red13, 4)...)
				case g.thorough():
					hists = append(hists, c14Exhaustive(red9, 4)...)
				case m.name == "bn254":
					hists = append(hists, c14Exhaustive(red9, 4)...)
				default:
					hists = append(hists, c14Exhaustive(red9, 3)...)
				}
				if g.thorough() && m.name == "bn254" {
					hists = append(hists, c14Exhaustive(red9, 5)...)
				}
			} else {
				hists = c14Exhaustive(full, 2)
			}
			emitHistories(g, hdr, hists, 64)
			// random
			emitHistories(g, hdr, randomHistories(g, al, g.budget(150, 4000), 12, 12), 32)
		}
		// package-level Sum(msg)
		al := &histAlphabet{size: f.Bytes(), esize: f.Bytes(), q: f.Q()}
		var msgs []string
		for _, t := range al.writeTokens(g.rng, false) {
			msgs = append(msgs, strings.Split(t, ":")[1])
		}
		g.emit("C14 mimc fn %s %s %s", m.name, consts, join(msgs))
	}
}

func genC14(g *gen) {
	genMimc(g)
	genP2(g)
	c14GenVx(g)
	genSis(g)
	c14GenRegSize(g)
	c14GenFresh(g)
}

// registry metadata: `hash.Hash.Size()` of every registered id against the function the id constructs
func c14GenRegSize(g *gen) {
	for mi := range mimcs {
		m := &mimcs[mi]
		g.emit("C14 mimc regsize %s %s", m.name, c14HexBigs(m.consts()))
	}
	for pi := range p2Pkgs {
		p := &p2Pkgs[pi]
		dt, drf, drp := p.dflt()
		g.emit("C14 md regsize %s %x %x %x %s", p.name, dt, drf, drp, p.keys(dt, drf, drp))
	}
}

// every entry point of the property as the FIRST call of a fresh process (`C14 fresh <op…>`, one process per line): the
// package-level one-shot Sum, the three ways to a MiMC hasher, Permutation / Compress / the Merkle-Damgard hashers of every
// Poseidon2 package (registry, package constructor, generic constructor), the vortex helpers, NewRSis + Hash of every
// ring-SIS package. Lazily initialised package state (round constants, default parameters, FFT domains) does not exist yet.
func c14GenFresh(g *gen) {
	for mi := range mimcs {
		m := &mimcs[mi]
		f := fields[m.field]
		consts := c14HexBigs(m.consts())
		for _, ctor := range []string{"fn", "new", "reg", "le"} {
			al := &histAlphabet{size: f.Bytes(), esize: f.Bytes(), q: f.Q(), le: ctor == "le"}
			B := func() []byte { return al.block(g.rng, false) }
			if ctor == "fn" {
				g.emit("C14 fresh mimc fn %s %s %s %s %s", m.name, consts, hexBytes(c14Cat(B(), B(), B())), hexBytes(B()), hexBytes(B()[al.size-2:]))
				continue
			}
			g.emit("C14 fresh mimc %s %s %s W:%s S:- T W:%s S:- | S:-", ctor, m.name, consts, hexBytes(B()), hexBytes(c14Cat(B(), B())))
		}
	}
	for pi := range p2Pkgs {
		p := &p2Pkgs[pi]
		f := fields[p.field]
		q, eb := f.Q(), f.Bytes()
		dt, drf, drp := p.dflt()
		hdr := fmt.Sprintf("%s %x %x %x %s", p.name, dt, drf, drp, p.keys(dt, drf, drp))
		g.emit("C14 fresh p2perm %s %s %s", hdr, c14ShowBigs(c14RandVec(g, q, dt)), c14ShowBigs(c14RandVec(g, q, dt)))
		al := &histAlphabet{size: (dt / 2) * eb, esize: eb, q: q, md: true}
		B := func() []byte { return al.block(g.rng, false) }
		g.emit("C14 fresh p2comp %s %s:%s %s:%s", hdr, hexBytes(B()), hexBytes(B()), hexBytes(B()), hexBytes(B()))
		hist := func() string {
			return fmt.Sprintf("W:%s S:- T W:%s S:- | S:-", hexBytes(B()), hexBytes(c14Cat(B(), B())))
		}
		g.emit("C14 fresh md reg %s %s", hdr, hist())
		g.emit("C14 fresh md new %s %s", hdr, hist())
		if dt == 2 {
			g.emit("C14 fresh md gen:%s %s %s", hexBytes(B()), hdr, hist())
		}
		// a non-default width / round numbers: NewParameters + NewPermutation as the first call
		t2 := p2Widths(p)[1]
		g.emit("C14 fresh p2perm %s %x 2 1 %s %s", p.name, t2, p.keys(t2, 2, 1), c14ShowBigs(c14RandVec(g, q, t2)))
	}
	{
		p := p2ByName("koalabear")
		q := fields["koalabear"].Q()
		g.emit("C14 fresh vx comp %s %s:%s", p.keys(16, 6, 21), c14ShowBigs(c14RandVec(g, q, 8)), c14ShowBigs(c14RandVec(g, q, 8)))
		g.emit("C14 fresh vx hash %s %s %s %s", p.keys(24, 6, 21), c14ShowBigs(c14RandVec(g, q, 16)), c14ShowBigs(c14RandVec(g, q, 48)), c14ShowBigs(c14RandVec(g, q, 32)))
		rows := make([]string, 16)
		for j := range rows {
			rows[j] = c14ShowBigs(c14RandVec(g, q, 16))
		}
		g.emit("C14 fresh vx hash16 %s %s", p.keys(24, 6, 21), strings.Join(rows, ";"))
	}
	for pi := range sisPkgs {
		p := &sisPkgs[pi]
		f := fields[p.field]
		q := f.Q()
		type ps struct{ ld, lb, mx int }
		sets := []ps{{2, 8, 3}, {3, 16, 9}, {6, 16, 4}}
		if p.name == "koalabear" || p.name == "babybear" {
			sets = append(sets, ps{9, 16, 8}) // AVX-512 path
		}
		for _, s := range sets {
			seed := int64(g.rng.intn(1000))
			as, _, _, err := p.open(seed, s.ld, s.lb, s.mx)
			if err != nil {
				continue
			}
			v1, v2 := c14ShowBigs(c14RandVec(g, q, s.mx)), c14ShowBigs(c14RandVec(g, q, 1+g.rng.intn(s.mx)))
			g.emit("C14 fresh sis %s %x %x %x %x %s %s %s", p.name, seed, s.ld, s.lb, s.mx, as, v1, v2)
			g.emit("C14 fresh sisd %s %x %x %x %x %s %s/g %s", p.name, seed, s.ld, s.lb, s.mx, as, v2, v1)
		}
	}
}
