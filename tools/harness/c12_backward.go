// C12 — ECDSA triples constructed BACKWARDS from a chosen commitment point R (op ECVB = ECV, separate tag for the replays).
//
// Honest signing draws R = [k]G with a random k, so x(R) is uniform in [0, p): when p − n is tiny (bn254, secp256k1,
// stark-curve: ≈ 2^-125·p) the reduction "x(R) mod n" is never exercised, and neither are boundary abscissas nor boundary
// nonces.  Here R is chosen first (by abscissa, or as a boundary multiple of G), then r = x(R) mod n, any s and any
// message, and the public key is solved for: Q = r⁻¹·(s·R − e·G).  The triple satisfies the textbook equation by
// construction (re-checked below with the same independent arithmetic); the model verdict is the model's `verify`.
// All curve arithmetic of the construction is math/big (affine formulas), not the library.
package main

import (
	"crypto/sha256"
	"math/big"
)

type bigPt struct{ x, y *big.Int } // nil pointer = point at infinity

type bigCurve struct{ p, a, b *big.Int }

func (c bigCurve) onCurve(P *bigPt) bool {
	if P == nil {
		return true
	}
	l := new(big.Int).Mul(P.y, P.y)
	r := new(big.Int).Mul(P.x, P.x)
	r.Add(r, c.a).Mul(r, P.x).Add(r, c.b)
	return l.Sub(l, r).Mod(l, c.p).Sign() == 0
}

func (c bigCurve) neg(P *bigPt) *bigPt {
	if P == nil {
		return nil
	}
	y := new(big.Int).Neg(P.y)
	return &bigPt{new(big.Int).Set(P.x), y.Mod(y, c.p)}
}

func (c bigCurve) add(P, Q *bigPt) *bigPt {
	if P == nil {
		return Q
	}
	if Q == nil {
		return P
	}
	var lam *big.Int
	if P.x.Cmp(Q.x) == 0 {
		s := new(big.Int).Add(P.y, Q.y)
		if s.Mod(s, c.p).Sign() == 0 {
			return nil
		}
		num := new(big.Int).Mul(P.x, P.x)
		num.Mul(num, big.NewInt(3)).Add(num, c.a)
		den := new(big.Int).Lsh(P.y, 1)
		den.ModInverse(den.Mod(den, c.p), c.p)
		lam = num.Mul(num, den)
	} else {
		num := new(big.Int).Sub(Q.y, P.y)
		den := new(big.Int).Sub(Q.x, P.x)
		den.ModInverse(den.Mod(den, c.p), c.p)
		lam = num.Mul(num, den)
	}
	lam.Mod(lam, c.p)
	x := new(big.Int).Mul(lam, lam)
	x.Sub(x, P.x).Sub(x, Q.x).Mod(x, c.p)
	y := new(big.Int).Sub(P.x, x)
	y.Mul(y, lam).Sub(y, P.y).Mod(y, c.p)
	return &bigPt{x, y}
}

func (c bigCurve) smul(k *big.Int, P *bigPt) *bigPt {
	if k.Sign() < 0 {
		return c.smul(new(big.Int).Neg(k), c.neg(P))
	}
	var R *bigPt
	for i := k.BitLen() - 1; i >= 0; i-- {
		R = c.add(R, R)
		if k.Bit(i) == 1 {
			R = c.add(R, P)
		}
	}
	return R
}

// the point with abscissa x and the ordinate of the requested parity, if x is an abscissa of the curve
func (c bigCurve) lift(x *big.Int, odd bool) *bigPt {
	r := new(big.Int).Mul(x, x)
	r.Add(r, c.a).Mul(r, x).Add(r, c.b).Mod(r, c.p)
	y := new(big.Int).ModSqrt(r, c.p)
	if y == nil {
		return nil
	}
	if (y.Bit(0) == 1) != odd {
		y.Sub(c.p, y).Mod(y, c.p)
	}
	return &bigPt{new(big.Int).Set(x), y}
}

// first abscissa of the curve at or after (step = +1) / at or before (step = −1) x0, inside [0, p)
func (c bigCurve) liftNear(x0 *big.Int, step int64, odd bool) *bigPt {
	x := new(big.Int).Set(x0)
	for i := 0; i < 200; i++ {
		if x.Sign() < 0 || x.Cmp(c.p) >= 0 {
			return nil
		}
		if P := c.lift(x, odd); P != nil {
			return P
		}
		x.Add(x, big.NewInt(step))
	}
	return nil
}

func genEcBackward(g *gen, e *ecAPI, p ecParams) {
	c := bigCurve{p.p, p.a, p.b}
	G := &bigPt{p.gx, p.gy}
	fb := p.frBytes
	one := big.NewInt(1)
	slow := p.fpBytes > 48
	// is every point of the curve in ⟨G⟩ (cofactor 1)?  Only then may R be chosen by its abscissa.
	cof1 := true
	for _, x0 := range []int64{1, 1000} {
		if P := c.liftNear(big.NewInt(x0), 1, false); P == nil || c.smul(p.n, P) != nil {
			cof1 = false
		}
	}
	type target struct {
		R    *bigPt
		full bool // all s classes, both hashes, all neighbours
	}
	var ts []target
	addT := func(R *bigPt, full bool) {
		if R != nil {
			ts = append(ts, target{R, full})
		}
	}
	// boundary nonces (every curve): R = G, 2G, −G, −2G, and random multiples
	addT(G, false)
	addT(c.add(G, G), false)
	addT(c.neg(G), false)
	if !slow || g.thorough() {
		addT(c.neg(c.add(G, G)), false)
	}
	for i := 0; i < g.budget(1, 6); i++ {
		addT(c.smul(g.rng.bigBelow(p.n), G), i == 0)
	}
	if cof1 {
		up := func(x0 *big.Int, cnt int, full bool) {
			x := new(big.Int).Set(x0)
			for i := 0; i < cnt; i++ {
				P := c.liftNear(x, 1, g.rng.coin())
				if P == nil {
					return
				}
				addT(P, full && i < 2)
				if i == 0 { // the twin −R has the same abscissa
					addT(c.neg(P), false)
				}
				x.Add(P.x, one)
			}
		}
		down := func(x0 *big.Int, cnt int, full bool) {
			x := new(big.Int).Set(x0)
			for i := 0; i < cnt; i++ {
				P := c.liftNear(x, -1, g.rng.coin())
				if P == nil {
					return
				}
				addT(P, full && i == 0)
				x.Sub(P.x, one)
			}
		}
		up(big.NewInt(0), g.budget(2, 6), false)               // smallest abscissas: r = 1, 2, …
		down(new(big.Int).Sub(p.p, one), g.budget(2, 6), true) // largest abscissas
		if p.n.Cmp(p.p) < 0 {
			// x(R) ∈ [n, p): r = x(R) − n.  p − n ≈ 2^128 on bn254 / secp256k1, ≈ 2^190 on stark-curve
			up(p.n, g.budget(3, 10), true)                          // r = 0 (not a signature), 1, 2, …
			down(new(big.Int).Sub(p.n, one), g.budget(2, 6), false) // r = n−1, n−2, …: the largest r
			d := new(big.Int).Sub(p.p, p.n)
			for i := 0; i < g.budget(2, 10); i++ { // anywhere in the overflow window
				up(new(big.Int).Add(p.n, g.rng.bigBelow(d)), 1, false)
			}
			up(new(big.Int).Add(p.n, new(big.Int).Rsh(d, 1)), 1, false)
		}
		// limb / byte boundaries of the abscissa
		for sh := uint(64); sh < uint(p.p.BitLen()); sh += 64 {
			b := new(big.Int).Lsh(one, sh)
			up(b, 1, false)
			down(new(big.Int).Sub(b, one), 1, false)
		}
	}
	for ti, t := range ts {
		R := t.R
		r := new(big.Int).Mod(R.x, p.n)
		// s classes
		ss := []*big.Int{new(big.Int).Add(g.rng.bigBelow(new(big.Int).Sub(p.n, one)), one)}
		if t.full {
			ss = append(ss, big.NewInt(1), new(big.Int).Sub(p.n, one), big.NewInt(2))
		}
		for si, s := range ss {
			hname := []string{"nil", "sha256"}[(ti+si)%2]
			var msg []byte
			switch (ti + si) % 4 {
			case 0:
				msg = g.rng.bytes(fb)
			case 1:
				msg = g.rng.bytes(g.rng.intn(70))
			case 2:
				msg = g.rng.bytes(fb + 1 + g.rng.intn(9)) // a digest longer than the order is truncated
			case 3:
				msg = g.rng.bytes(32)
			}
			if t.full && si == 3 {
				hname, msg = "nil", make([]byte, fb) // e = 0
			}
			digest := msg
			if hname == "sha256" {
				h := sha256.Sum256(msg)
				digest = h[:]
			}
			ev := e.hashToInt(digest)
			// Q = r⁻¹·(s·R − e·G)
			var Q *bigPt
			rInv := new(big.Int).ModInverse(r, p.n)
			if rInv != nil {
				Q = c.smul(rInv, c.add(c.smul(s, R), c.neg(c.smul(ev, G))))
			} else {
				// x(R) ≡ 0 (mod n): no r makes this a signature; any key will do, both verdicts must be err:zero
				Q = c.smul(s, G)
			}
			if Q == nil {
				continue // the key "infinity" is the subject of ECVINF
			}
			if rInv != nil {
				// the equation holds by construction: s⁻¹·(e·G + r·Q) = R
				sInv := new(big.Int).ModInverse(s, p.n)
				u1 := new(big.Int).Mul(ev, sInv)
				u2 := new(big.Int).Mul(r, sInv)
				V := c.add(c.smul(u1.Mod(u1, p.n), G), c.smul(u2.Mod(u2, p.n), Q))
				if V == nil || V.x.Cmp(R.x) != 0 || V.y.Cmp(R.y) != 0 || !c.onCurve(Q) {
					panic("c12: backward construction of an ECDSA triple failed (harness bug)")
				}
			}
			sig := func(r, s *big.Int) []byte { return cat(beBytes(r, fb), beBytes(s, fb)) }
			fits := func(v *big.Int) bool { return v.Sign() >= 0 && v.BitLen() <= 8*fb }
			e.emitVT(g, "ECVB", hname, Q.x, Q.y, sig(r, s), msg) // valid (err:zero when r = 0)
			if si > 0 && !g.thorough() {
				continue
			}
			// neighbours that are not signatures
			nb := [][2]*big.Int{{new(big.Int).Add(r, one), s}, {new(big.Int).Add(r, p.n), s}}
			if t.full || g.thorough() {
				nb = append(nb, [2]*big.Int{new(big.Int).Sub(r, one), s}, [2]*big.Int{R.x, s}, [2]*big.Int{r, new(big.Int).Add(s, one)},
					[2]*big.Int{r, new(big.Int).Sub(p.n, s)}) // the last one is the malleable twin: valid
			}
			for _, w := range nb {
				if fits(w[0]) && fits(w[1]) && !(w[0].Cmp(r) == 0 && w[1].Cmp(s) == 0) {
					e.emitVT(g, "ECVB", hname, Q.x, Q.y, sig(w[0], w[1]), msg)
				}
			}
			if t.full || g.thorough() {
				nQ := c.neg(Q)
				e.emitVT(g, "ECVB", hname, nQ.x, nQ.y, sig(r, s), msg)
				if len(msg) > 0 {
					e.emitVT(g, "ECVB", hname, Q.x, Q.y, sig(r, s), flipBit(msg, g.rng.intn(8*min(len(msg), fb))))
				}
			}
		}
	}
}
