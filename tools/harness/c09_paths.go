package main

// C09 — op classes of its own (tag `C09`), answered by every configuration and by Model/CpuPath.lean:
//
//	C09 vpat  <field> <oa>,<ob>,<or> <op> <n> <pat> <A> <B> <T> <pat2> <A2> <B2> <T2>
//	    vector routines on LONG vectors given by a formula (so a line stays short): the integer sums land on / next to multiples
//	    of q (x,−x pairs, all q−1, half q−1 half 1, last entry fixed so that Σ ≡ T), operands and result are sub-slices that start
//	    <oa>/<ob>/<or> elements after a 64-byte aligned address, surrounded by guard bytes.
//	C09 fftat <off> <kind> <C10 transform line>      FFT / FFTInverse on a sub-slice starting <off> elements after a 64-byte boundary
//	C09 p2 <perm|comp|x16> <plain|seed:hex> <off> <pkg> <t> <rf> <rp> <keys> tokens…
//	    Poseidon2 instances built by NewPermutation / NewPermutationWithSeed (keys re-derived through NewParameters /
//	    NewParametersWithSeed and compared with the line) for parameter sets around the AVX-512 fast-path sets
//	C09 sis <offv> <offr> <C14 sis line>             RSis.Hash with input / output sub-slices at the given element offsets
//
// A fault inside a kernel (aligned load on an unaligned address …) is turned into the answer `panic` of that op.

import (
	"bytes"
	"fmt"
	"math/big"
	"runtime/debug"
	"strings"
	"unsafe"

	c9fr_babybear "github.com/consensys/gnark-crypto/field/babybear"
	c9p2_babybear "github.com/consensys/gnark-crypto/field/babybear/poseidon2"
	c9sis_babybear "github.com/consensys/gnark-crypto/field/babybear/sis"
	c9fr_goldilocks "github.com/consensys/gnark-crypto/field/goldilocks"
	c9p2_goldilocks "github.com/consensys/gnark-crypto/field/goldilocks/poseidon2"
	c9fr_koalabear "github.com/consensys/gnark-crypto/field/koalabear"
	c9p2_koalabear "github.com/consensys/gnark-crypto/field/koalabear/poseidon2"
	c9sis_koalabear "github.com/consensys/gnark-crypto/field/koalabear/sis"
)

func init() { executors["C09"] = execC09 }

const c09Guard = 0xA5

// a buffer filled with guard bytes and its sub-slice of n elements that starts `off` elements after a 64-byte aligned address
func c09Aligned[T any](n, off int) (buf, s []T) {
	buf = make([]T, n+off+64+16)
	i0 := 0
	for k := 0; k < 64; k++ {
		if uintptr(unsafe.Pointer(&buf[k]))%64 == 0 {
			i0 = k
			break
		}
	}
	b := c09Bytes(buf)
	for i := range b {
		b[i] = c09Guard
	}
	lo := i0 + off
	return buf, buf[lo : lo+n : lo+n]
}

func c09Bytes[T any](buf []T) []byte {
	if len(buf) == 0 {
		return nil
	}
	var z T
	return unsafe.Slice((*byte)(unsafe.Pointer(&buf[0])), len(buf)*int(unsafe.Sizeof(z)))
}

// every byte of buf outside s is still a guard byte
func c09GuardsOK[T any](buf, s []T) bool {
	b := c09Bytes(buf)
	var z T
	lo, hi := 0, 0
	if cap(s) > 0 {
		lo = int(uintptr(unsafe.Pointer(&s[:1][0])) - uintptr(unsafe.Pointer(&buf[0]))) // cap > 0: s[:1] is inside buf
		hi = lo + len(s)*int(unsafe.Sizeof(z))
	}
	for i, c := range b {
		if (i < lo || i >= hi) && c != c09Guard {
			return false
		}
	}
	return true
}

func c09Offs(s string, k int) ([]int, bool) {
	p := strings.Split(s, ",")
	if len(p) != k {
		return nil, false
	}
	o := make([]int, k)
	for i := range p {
		v, ok := c10hexInt(p[i])
		if !ok || v > 4096 {
			return nil, false
		}
		o[i] = v
	}
	return o, true
}

// ---------------------------------------------------------------------------------------------- vpat

// the vector a pattern stands for (raw limb values < q); the Lean side (CpuPath.expand) computes the same list
func c09Expand(q *big.Int, n int, pat string, A, B, T *big.Int) ([]*big.Int, bool) {
	v := make([]*big.Int, n)
	a, b := new(big.Int).Mod(A, q), new(big.Int).Mod(B, q)
	lin := func(i int) *big.Int {
		x := new(big.Int).Mul(A, big.NewInt(int64(i+1)))
		return x.Add(x, B).Mod(x, q)
	}
	switch pat {
	case "lin":
		for i := range v {
			v[i] = lin(i)
		}
	case "const":
		for i := range v {
			v[i] = a
		}
	case "half":
		for i := range v {
			v[i] = a
			if i >= n/2 {
				v[i] = b
			}
		}
	case "alt":
		for i := range v {
			v[i] = a
			if i%2 == 1 {
				v[i] = b
			}
		}
	case "pairs": // x, −x, x', −x', … : the integer sum is an exact multiple of q
		for i := range v {
			x := lin(i / 2)
			switch {
			case i%2 == 1:
				v[i] = x.Sub(q, x).Mod(x, q)
			case i == n-1:
				v[i] = new(big.Int)
			default:
				v[i] = x
			}
		}
	case "fix": // the last entry makes the sum ≡ T (mod q)
		s := new(big.Int)
		for i := range v {
			if i < n-1 {
				v[i] = lin(i)
				s.Add(s, v[i])
			} else {
				x := new(big.Int).Sub(T, s)
				v[i] = x.Mod(x, q)
			}
		}
	default:
		return nil, false
	}
	return v, true
}

// raw limbs of an element (value < 2^(bits of T)) without intermediate big.Ints
func c09SetRaw[T any](z *T, v *big.Int) {
	var zero T
	*z = zero
	if unsafe.Sizeof(zero) == 4 {
		*(*uint32)(unsafe.Pointer(z)) = uint32(v.Uint64())
		return
	}
	w := unsafe.Slice((*uint64)(unsafe.Pointer(z)), int(unsafe.Sizeof(zero))/8)
	for i, x := range v.Bits() {
		if i < len(w) {
			w[i] = uint64(x)
		}
	}
}

func (f *fieldImpl[T, PT, V, PV]) C09vpat(a []string) string {
	if len(a) != 11 {
		return "bad-op"
	}
	offs, ok := c09Offs(a[0], 3)
	n, ok1 := c10hexInt(a[2])
	if !ok || !ok1 || n > 1<<20 {
		return "bad-op"
	}
	q := f.Q()
	op := a[1]
	nb, nr := n, n // operands the routine does not have stay empty
	if op == "vsum" || op == "vscalarmul" {
		nb = 0
	}
	if op == "vsum" || op == "vinner" {
		nr = 0
	}
	va, oka := c09Expand(q, n, a[3], parseBig(a[4]), parseBig(a[5]), parseBig(a[6]))
	vb, okb := c09Expand(q, nb, a[7], parseBig(a[8]), parseBig(a[9]), parseBig(a[10]))
	if !oka || !okb {
		return "bad-op"
	}
	bufA, sa := c09Aligned[T](n, offs[0])
	bufB, sb := c09Aligned[T](nb, offs[1])
	bufR, sr := c09Aligned[T](nr, offs[2])
	for i := 0; i < n; i++ {
		c09SetRaw(&sa[i], va[i])
	}
	for i := 0; i < nb; i++ {
		c09SetRaw(&sb[i], vb[i])
	}
	snapA, snapB := bytes.Clone(c09Bytes(bufA)), bytes.Clone(c09Bytes(bufB))
	A, Bv, R := V(sa), V(sb), V(sr)
	var res string
	vecOut := false
	switch op {
	case "vadd":
		PV(&R).Add(A, Bv)
		vecOut = true
	case "vsub":
		PV(&R).Sub(A, Bv)
		vecOut = true
	case "vmul":
		PV(&R).Mul(A, Bv)
		vecOut = true
	case "vscalarmul":
		s := f.fromRaw(new(big.Int).Mod(parseBig(a[8]), q))
		PV(&R).ScalarMul(A, &s)
		vecOut = true
	case "vsum":
		s := PV(&A).Sum()
		res = f.out(&s)
	case "vinner":
		s := PV(&A).InnerProduct(Bv)
		res = f.out(&s)
	default:
		return "bad-op"
	}
	if !bytes.Equal(snapA, c09Bytes(bufA)) || !bytes.Equal(snapB, c09Bytes(bufB)) {
		return "arg-mutated"
	}
	if !c09GuardsOK(bufR, sr) {
		return "wrote-outside"
	}
	if vecOut {
		if n == 0 {
			return "-"
		}
		d, t := new(big.Int), new(big.Int)
		for i := range sr {
			d.Add(d, t.Mul(f.toRaw(&sr[i]), big.NewInt(int64(i+1))))
		}
		d.Mod(d, q)
		res = hexBig(d) + " " + f.out(&sr[0]) + " " + f.out(&sr[n-1])
	}
	return res
}

// ---------------------------------------------------------------------------------------------- fftat

func (p *c10pkg[E, P, D]) TransformAt(kind string, c c10cfg, v []*big.Int, off int) string {
	buf, a := c09Aligned[E](len(v), off)
	for i := range v {
		P(&a[i]).SetBigInt(v[i])
	}
	p.apply(p.domain(c), kind, c, a)
	if !c09GuardsOK(buf, a) {
		return "wrote-outside"
	}
	return c10vec(p.unvec(a))
}

// ---------------------------------------------------------------------------------------------- p2

type c09p2 struct {
	name string
	keys func(t, rf, rp int, seed *string) string
	perm func(t, rf, rp int, seed *string, off int, x []*big.Int) (string, error)
	comp func(t, rf, rp int, seed *string, l, r []byte) ([]byte, error)
	x16  func(t, rf, rp int, seed *string, off int, cols [][]*big.Int) string // nil: no batch permutation in the package
}

func mkC09P2[T any, PT p2Elem[T]](name string, newPerm func(t, rf, rp int, seed *string) p2Perm[T],
	newKeys func(t, rf, rp int, seed *string) [][]T, x16 func(p p2Perm[T], m *[24][16]T)) c09p2 {
	show := func(v []T) string {
		o := make([]*big.Int, len(v))
		for i := range v {
			o[i] = new(big.Int)
			PT(&v[i]).BigInt(o[i])
		}
		return c14ShowBigs(o)
	}
	r := c09p2{name: name,
		keys: func(t, rf, rp int, seed *string) string {
			ks := newKeys(t, rf, rp, seed)
			rows := make([]string, len(ks))
			for i, row := range ks {
				rows[i] = show(row)
				if len(row) == 0 {
					rows[i] = ""
				}
			}
			if len(rows) == 0 {
				return "-"
			}
			return strings.Join(rows, ";")
		},
		perm: func(t, rf, rp int, seed *string, off int, x []*big.Int) (string, error) {
			p := newPerm(t, rf, rp, seed)
			buf, in := c09Aligned[T](len(x), off)
			for i := range x {
				PT(&in[i]).SetBigInt(x[i])
			}
			if err := p.Permutation(in); err != nil {
				return "", err
			}
			if !c09GuardsOK(buf, in) {
				return "wrote-outside", nil
			}
			return show(in), nil
		},
		comp: func(t, rf, rp int, seed *string, l, r []byte) ([]byte, error) {
			return newPerm(t, rf, rp, seed).Compress(l, r)
		},
	}
	if x16 != nil {
		r.x16 = func(t, rf, rp int, seed *string, off int, cols [][]*big.Int) string {
			p := newPerm(t, rf, rp, seed)
			buf, s := c09Aligned[T](24*16, off)
			m := (*[24][16]T)(unsafe.Pointer(&s[0]))
			for c := range cols {
				for j := range cols[c] {
					PT(&m[j][c]).SetBigInt(cols[c][j])
				}
			}
			x16(p, m)
			if !c09GuardsOK(buf, s) {
				return "wrote-outside"
			}
			outs := make([]string, 16)
			for c := 0; c < 16; c++ {
				col := make([]T, 24)
				for j := range col {
					col[j] = m[j][c]
				}
				outs[c] = show(col)
			}
			return join(outs)
		}
	}
	return r
}

var c09p2s = []c09p2{
	mkC09P2[c9fr_koalabear.Element]("koalabear",
		func(t, rf, rp int, seed *string) p2Perm[c9fr_koalabear.Element] {
			if seed != nil {
				return c9p2_koalabear.NewPermutationWithSeed(t, rf, rp, *seed)
			}
			return c9p2_koalabear.NewPermutation(t, rf, rp)
		},
		func(t, rf, rp int, seed *string) [][]c9fr_koalabear.Element {
			if seed != nil {
				return c9p2_koalabear.NewParametersWithSeed(t, rf, rp, *seed).RoundKeys
			}
			return c9p2_koalabear.NewParameters(t, rf, rp).RoundKeys
		},
		func(p p2Perm[c9fr_koalabear.Element], m *[24][16]c9fr_koalabear.Element) {
			p.(*c9p2_koalabear.Permutation).Permutation16x24(m)
		}),
	mkC09P2[c9fr_babybear.Element]("babybear",
		func(t, rf, rp int, seed *string) p2Perm[c9fr_babybear.Element] {
			if seed != nil {
				return c9p2_babybear.NewPermutationWithSeed(t, rf, rp, *seed)
			}
			return c9p2_babybear.NewPermutation(t, rf, rp)
		},
		func(t, rf, rp int, seed *string) [][]c9fr_babybear.Element {
			if seed != nil {
				return c9p2_babybear.NewParametersWithSeed(t, rf, rp, *seed).RoundKeys
			}
			return c9p2_babybear.NewParameters(t, rf, rp).RoundKeys
		},
		func(p p2Perm[c9fr_babybear.Element], m *[24][16]c9fr_babybear.Element) {
			p.(*c9p2_babybear.Permutation).Permutation16x24(m)
		}),
	mkC09P2[c9fr_goldilocks.Element]("goldilocks",
		func(t, rf, rp int, seed *string) p2Perm[c9fr_goldilocks.Element] {
			if seed != nil {
				return c9p2_goldilocks.NewPermutationWithSeed(t, rf, rp, *seed)
			}
			return c9p2_goldilocks.NewPermutation(t, rf, rp)
		},
		func(t, rf, rp int, seed *string) [][]c9fr_goldilocks.Element {
			if seed != nil {
				return c9p2_goldilocks.NewParametersWithSeed(t, rf, rp, *seed).RoundKeys
			}
			return c9p2_goldilocks.NewParameters(t, rf, rp).RoundKeys
		}, nil),
}

func c09p2ByName(n string) *c09p2 {
	for i := range c09p2s {
		if c09p2s[i].name == n {
			return &c09p2s[i]
		}
	}
	return nil
}

// <perm|comp|x16> <plain|seed:hex> <off> <pkg> <t> <rf> <rp> <keys> tokens…
func c09ExecP2(a []string) string {
	if len(a) < 8 {
		return "bad-op"
	}
	var seed *string
	switch {
	case a[1] == "plain":
	case strings.HasPrefix(a[1], "seed:"):
		s := string(parseBytes(a[1][5:]))
		seed = &s
	default:
		return "bad-op"
	}
	off, ok := c10hexInt(a[2])
	p := c09p2ByName(a[3])
	if !ok || off > 4096 || p == nil {
		return "bad-op"
	}
	t, rf, rp := c14Hex(a[4]), c14Hex(a[5]), c14Hex(a[6])
	if k := c14Guard(func() string { return p.keys(t, rf, rp, seed) }); k != a[7] {
		return "bad-keys"
	}
	toks := a[8:]
	switch a[0] {
	case "perm":
		outs := make([]string, len(toks))
		for i, tok := range toks {
			outs[i] = c14Guard(func() string {
				y, err := p.perm(t, rf, rp, seed, off+i, c14ParseBigs(tok))
				if err != nil {
					return "err"
				}
				return y
			})
		}
		return join(outs)
	case "comp":
		outs := make([]string, len(toks))
		for i, tok := range toks {
			outs[i] = c14Guard(func() string {
				f := strings.Split(tok, ":")
				if len(f) != 2 {
					return "bad-op"
				}
				y, err := p.comp(t, rf, rp, seed, c14MkSlice(parseBytes(f[0]), nil), c14MkSlice(parseBytes(f[1]), nil))
				if err != nil {
					return "err"
				}
				return hexBytes(y)
			})
		}
		return join(outs)
	case "x16":
		if p.x16 == nil || t != 24 || len(toks) != 16 {
			return "bad-op"
		}
		cols := make([][]*big.Int, 16)
		for i := range cols {
			cols[i] = c14ParseBigs(toks[i])
			if len(cols[i]) != 24 {
				return "bad-op"
			}
		}
		return c14Guard(func() string { return p.x16(t, rf, rp, seed, off, cols) })
	}
	return "bad-op"
}

// ---------------------------------------------------------------------------------------------- sis

type c09sis struct {
	name, field string
	open        func(seed int64, ld, lb, mx int) (a string, hash func(v []*big.Int, offv, offr int) string, err error)
}

func mkC09Sis[T any, PT p2Elem[T]](name, field string, newR func(seed int64, ld, lb, mx int) ([][]T, func(v, res []T) error, int, error)) c09sis {
	return c09sis{name: name, field: field,
		open: func(seed int64, ld, lb, mx int) (string, func(v []*big.Int, offv, offr int) string, error) {
			A, hash, degree, err := newR(seed, ld, lb, mx)
			if err != nil {
				return "", nil, err
			}
			show := func(v []T) string {
				o := make([]*big.Int, len(v))
				for i := range v {
					o[i] = new(big.Int)
					PT(&v[i]).BigInt(o[i])
				}
				return c14ShowBigs(o)
			}
			rows := make([]string, len(A))
			for i := range A {
				rows[i] = show(A[i])
			}
			as := "-"
			if len(rows) > 0 {
				as = strings.Join(rows, ";")
			}
			return as, func(v []*big.Int, offv, offr int) string {
				bufV, in := c09Aligned[T](len(v), offv)
				for i := range v {
					PT(&in[i]).SetBigInt(v[i])
				}
				snap := bytes.Clone(c09Bytes(bufV))
				bufR, res := c09Aligned[T](degree, offr)
				if err := hash(in, res); err != nil {
					return "err"
				}
				if !bytes.Equal(snap, c09Bytes(bufV)) {
					return "arg-mutated"
				}
				if !c09GuardsOK(bufR, res) {
					return "wrote-outside"
				}
				return show(res)
			}, nil
		}}
}

var c09sises = []c09sis{
	mkC09Sis[c9fr_koalabear.Element]("koalabear", "koalabear", func(seed int64, ld, lb, mx int) ([][]c9fr_koalabear.Element, func(v, res []c9fr_koalabear.Element) error, int, error) {
		r, err := c9sis_koalabear.NewRSis(seed, ld, lb, mx)
		if err != nil {
			return nil, nil, 0, err
		}
		return r.A, r.Hash, r.Degree, nil
	}),
	mkC09Sis[c9fr_babybear.Element]("babybear", "babybear", func(seed int64, ld, lb, mx int) ([][]c9fr_babybear.Element, func(v, res []c9fr_babybear.Element) error, int, error) {
		r, err := c9sis_babybear.NewRSis(seed, ld, lb, mx)
		if err != nil {
			return nil, nil, 0, err
		}
		return r.A, r.Hash, r.Degree, nil
	}),
}

// <offv> <offr> <pkg> <seed> <logDeg> <logBound> <maxNb> <A> <v…> …
func c09ExecSis(a []string) string {
	if len(a) < 8 {
		return "bad-op"
	}
	offv, ok1 := c10hexInt(a[0])
	offr, ok2 := c10hexInt(a[1])
	var p *c09sis
	for i := range c09sises {
		if c09sises[i].name == a[2] {
			p = &c09sises[i]
		}
	}
	if !ok1 || !ok2 || offv > 4096 || offr > 4096 || p == nil {
		return "bad-op"
	}
	seed, ld, lb, mx := int64(c14Hex(a[3])), c14Hex(a[4]), c14Hex(a[5]), c14Hex(a[6])
	as, hash, err := p.open(seed, ld, lb, mx)
	if err != nil {
		return "err:new"
	}
	if as != a[7] {
		return "bad-key"
	}
	outs := make([]string, len(a)-8)
	for i, tok := range a[8:] {
		outs[i] = c14Guard(func() string { return hash(c14ParseBigs(tok), offv+i, offr+3*i) })
	}
	return join(outs)
}

// ---------------------------------------------------------------------------------------------- executor

func execC09(a []string) string {
	if len(a) < 2 {
		return "bad-op"
	}
	// a hardware fault at a non-nil address inside a kernel is a panic of this op (this goroutine), not the end of the process
	defer debug.SetPanicOnFault(debug.SetPanicOnFault(true))
	switch a[0] {
	case "vpat":
		f, ok := fields[a[1]]
		if !ok {
			return "bad-op"
		}
		return f.(interface{ C09vpat(a []string) string }).C09vpat(a[2:])
	case "fftat":
		off, ok0 := c10hexInt(a[1])
		if len(a) < 4 || !ok0 || off > 4096 {
			return "bad-op"
		}
		switch a[2] {
		case "fft", "inv", "roundtrip", "rtinv":
		default:
			return "bad-op"
		}
		f, c, v, ok := c10args(a[3:])
		if !ok {
			return "bad-op"
		}
		return f.(interface {
			TransformAt(kind string, c c10cfg, v []*big.Int, off int) string
		}).TransformAt(a[2], c, v, off)
	case "p2":
		return c09ExecP2(a[1:])
	case "sis":
		return c09ExecSis(a[1:])
	}
	return "bad-op"
}

// ---------------------------------------------------------------------------------------------- generation

// lengths around the sizes at which the vector routines switch implementation (4-word sumVec: > 112; block sizes 4/8/16;
// 31-bit Sum: dedicated kernels for 16 and 24 elements)
var c09LensAsm = []int{0, 1, 15, 16, 17, 23, 24, 25, 31, 32, 33, 111, 112, 113, 114, 127, 128, 129, 143, 144, 255, 256, 257, 511, 512, 513,
	1000, 1024, 1025, 2053}
var c09LensOther = []int{0, 17, 113, 1025}

func c09HasVecAsm(f fieldAPI) bool { return f.Limbs() == 4 || f.WordBits() == 32 }

func genC09Paths(g *gen) {
	one := big.NewInt(1)
	// ---- vector routines on long structured vectors
	for _, name := range fieldNames {
		f := fields[name]
		q := f.Q()
		qm1 := new(big.Int).Sub(q, one)
		R := new(big.Int).Lsh(one, uint(f.WordBits()*f.Limbs()))
		R.Mod(R, q)
		noffs := 16 // 4-byte elements: every 4-byte position of a cache line; wider elements: every reachable residue
		if f.WordBits() == 64 {
			noffs = 8
		}
		lens := c09LensOther
		if c09HasVecAsm(f) {
			lens = c09LensAsm
			if g.thorough() {
				lens = append(append([]int{}, lens...), 4096+17, 1<<16+3)
			}
		}
		rnd := func() *big.Int { return g.rng.bigBelow(q) }
		type spec struct {
			pat     string
			a, b, t *big.Int
		}
		zero := new(big.Int)
		cst := func(v *big.Int) spec { return spec{"const", v, zero, zero} }
		emit := func(op string, n int, x, y spec) {
			g.emit("C09 vpat %s %x,%x,%x %s %x %s %s %s %s %s %s %s %s", name, g.rng.intn(noffs), g.rng.intn(noffs), g.rng.intn(noffs), op, n,
				x.pat, hexBig(x.a), hexBig(x.b), hexBig(x.t), y.pat, hexBig(y.a), hexBig(y.b), hexBig(y.t))
		}
		targets := []*big.Int{zero, one, qm1, big.NewInt(2), new(big.Int).Sub(q, big.NewInt(2)), R}
		for li, n := range lens {
			pairs := func() spec { return spec{"pairs", rnd(), rnd(), zero} }
			lin := func() spec { return spec{"lin", rnd(), rnd(), zero} }
			fix := func(k int) spec { return spec{"fix", rnd(), rnd(), targets[k%len(targets)]} }
			none := cst(zero)
			// long vectors and fields without vector assembly: a rotating part of the pattern list (the quick tier has 4 configurations)
			part := n > 300 || !c09HasVecAsm(f)
			rot := func(k, m int) bool { return !part || g.thorough() || (k+li)%m == 0 }
			// Sum: exact multiples of q and their neighbours
			for k, x := range []spec{pairs(), fix(li), cst(qm1), {"pairs", qm1, zero, zero}, fix(li + 1), {"half", qm1, one, zero}, fix(li + 2), {"half", one, qm1, zero},
				lin(), {"alt", qm1, zero, zero}, cst(zero), cst(one)} {
				if k < 2 || rot(k, 2) {
					emit("vsum", n, x, none)
				}
			}
			// InnerProduct: Σ aᵢ·bᵢ an exact multiple of q (before the Montgomery reduction), extreme operands
			for k, xy := range [][2]spec{{pairs(), cst(R)}, {pairs(), cst(one)}, {cst(R), pairs()}, {cst(qm1), cst(qm1)}, {lin(), lin()}, {fix(li), cst(R)},
				{{"half", qm1, one, zero}, {"alt", qm1, R, zero}}, {pairs(), cst(rnd())}} {
				if k < 1 || rot(k, 3) {
					emit("vinner", n, xy[0], xy[1])
				}
			}
			for k, xy := range [][2]spec{{lin(), cst(rnd())}, {cst(qm1), cst(qm1)}, {pairs(), cst(R)}} {
				if rot(k, 3) {
					emit("vscalarmul", n, xy[0], xy[1])
				}
			}
			for oi, op := range []string{"vadd", "vsub", "vmul"} {
				for k, xy := range [][2]spec{{lin(), lin()}, {cst(qm1), cst(qm1)}, {pairs(), {"alt", qm1, one, zero}}} {
					if rot(k+oi, 3) {
						emit(op, n, xy[0], xy[1])
					}
				}
			}
		}
	}
	// ---- FFT / FFTInverse on sub-slices at every offset from a 64-byte boundary
	for _, name := range c10order {
		f := c10fields[name]
		small := f.NBytes() <= 8
		logns := []int{5, 6, 7, 8}
		noffs := 2 // 32-byte elements: 0 or 32 mod 64 (wider elements: a few residues)
		switch {
		case f.NBytes() == 4:
			logns, noffs = []int{4, 5, 6, 7, 8, 9, 10}, 16
		case f.NBytes() == 8:
			logns, noffs = []int{4, 5, 6, 7, 8, 9}, 8
		case f.NBytes() > 32:
			noffs = 4
			logns = []int{5, 6, 8}
		}
		if g.thorough() {
			logns = append(logns, logns[len(logns)-1]+1, logns[len(logns)-1]+2)
		}
		k := 0
		for _, logn := range logns {
			for _, dif := range []bool{true, false} {
				for _, kind := range []string{"fft", "inv"} {
					reps := 1
					if small {
						reps = 4
					}
					for r := 0; r < reps; r++ {
						k++
						off := 1 // 32-byte elements: 32 mod 64; otherwise every non-zero residue in turn (offset 0 is what C10 runs)
						if noffs > 2 {
							off = 1 + (k*5+r*3)%(noffs-1)
						}
						c := c10cfg{logn: logn, dif: dif, coset: g.rng.intn(3) == 0, precomp: g.rng.intn(4) != 0, nb: c10tasks[g.rng.intn(4)]}
						v := g.c10randVec(f, 1<<logn)
						gs, custom := f.MulGen(), "0"
						dec := "dit"
						if c.dif {
							dec = "dif"
						}
						g.emit("C09 fftat %x %s %s %s %s %x %s %s %s %x %s %s %s", off, kind, f.Name(), hexBig(f.Q()), hexBig(f.Omega(c.logn)), c.logn, dec,
							boolStr(c.coset), boolStr(c.precomp), c.nb, hexBig(gs), custom, c10vec(v))
					}
				}
			}
		}
	}
	// ---- Poseidon2: both constructors, parameter sets that share some but not all of (t, rF, rP) with a fast-path set
	for pi := range c09p2s {
		p := &c09p2s[pi]
		q := fields[p.name].Q()
		widths, rfs, rps := []int{16, 24}, []int{4, 6, 8}, []int{12, 13, 14, 20, 21, 22}
		if p.name == "goldilocks" {
			widths, rfs, rps = []int{8, 12}, []int{6, 8}, []int{17, 22}
		}
		if g.thorough() {
			rfs = append(rfs, 2, 10)
			rps = append(rps, 0, 1, 56)
		}
		for _, t := range widths {
			for _, rf := range rfs {
				for _, rp := range rps {
					dfl := fmt.Sprintf("Poseidon2-%s[t=%d,rF=%d,rP=%d,d=%d]", p.name, t, rf, rp, map[string]int{"koalabear": 3, "babybear": 7, "goldilocks": 7}[p.name])
					seeds := []*string{nil, nil, &dfl} // plain, random seed (filled below), the seed NewParameters derives itself
					rs := string(g.rng.bytes(1 + g.rng.intn(12)))
					seeds[1] = &rs
					for si, seed := range seeds {
						ctor := "plain"
						if seed != nil {
							ctor = "seed:" + hexBytes([]byte(*seed))
						}
						hdr := fmt.Sprintf("%s %x %s %x %x %x %s", ctor, g.rng.intn(16), p.name, t, rf, rp, p.keys(t, rf, rp, seed))
						top := make([]*big.Int, t)
						for i := range top {
							top[i] = new(big.Int).Sub(q, one)
						}
						toks := []string{c14ShowBigs(top), c14ShowBigs(c14RandVec(g, q, t)), c14ShowBigs(c14RandVec(g, q, t))}
						if si == 0 {
							toks = append(toks, c14ShowBigs(c14RandVec(g, q, t-1)))
						}
						g.emit("C09 p2 perm %s %s", hdr, join(toks))
						eb := fields[p.name].Bytes()
						enc := func(v []*big.Int) string {
							var b []byte
							for _, x := range v {
								b = append(b, x.FillBytes(make([]byte, eb))...)
							}
							return hexBytes(b)
						}
						g.emit("C09 p2 comp %s %s:%s %s:%s", hdr, enc(c14RandVec(g, q, t/2)), enc(c14RandVec(g, q, t/2)), enc(top[:t/2]), enc(top[:t/2]))
						if p.x16 != nil && t == 24 && (si != 2 || rf == 6 || rf == 8) {
							cols := make([]string, 16)
							for i := range cols {
								cols[i] = c14ShowBigs(c14RandVec(g, q, 24))
							}
							g.emit("C09 p2 x16 %s %s", hdr, join(cols))
						}
					}
				}
			}
		}
	}
	// ---- ring-SIS: the 512/16 instance (AVX-512 kernel on koalabear/babybear) and a generic one, unaligned input and output
	for pi := range c09sises {
		p := &c09sises[pi]
		q := fields[p.field].Q()
		for _, s := range [][3]int{{9, 16, 300}, {9, 8, 70}, {6, 16, 40}} {
			seed := int64(g.rng.intn(1000))
			as, _, err := p.open(seed, s[0], s[1], s[2])
			if err != nil {
				continue
			}
			var toks []string
			for _, n := range []int{256, s[2], 255, 257, 1} {
				if n <= s[2] {
					toks = append(toks, c14ShowBigs(c14RandVec(g, q, n)))
				}
			}
			g.emit("C09 sis %x %x %s %x %x %x %x %s %s", 1+g.rng.intn(15), 1+g.rng.intn(15), p.name, seed, s[0], s[1], s[2], as, join(toks))
		}
	}
	// ---- malformed
	g.emit("C09")
	g.emit("C09 vpat nofield 0,0,0 vsum 1 lin 1 1 0 const 0 0 0")
	g.emit("C09 vpat bn254_fr 0,0,0 vsum 1 nopat 1 1 0 const 0 0 0")
	g.emit("C09 vpat bn254_fr 0,0,0 vfrob 1 lin 1 1 0 const 0 0 0")
	g.emit("C09 frobnicate 1 2")
}
