package main

// C20, third generator family: op kind `obj` — what a polynomial OBJECT is made of besides its coefficient list, and what
// happened to it before. Same line shape as the other script kinds (`C20 obj <hdr> <nb> <form> <coeffs> <script>`), with the
// script tokens (executor: c20_curves.tmpl scriptD / Script, model: Model/Poly.lean step / runScript)
//
//	D<k>              (first token only) the initial object is a prefix view of a buffer with k more NON-ZERO entries
//	                  behind it (a chunk h[:n] of a larger vector, a truncated vector): dirty spare capacity
//	N<form>:<c.c.c>[+k]  a new object (k dirty entries behind it) becomes current, the previous one becomes the second object
//	H                 second object := ShallowClone of the current one (both stay alive: aliases)
//	x                 swap current and second object
//	r                 current.ReadFrom(bytes of the second object): the receiver is an object with a past
//	d<shift>          the following conversions use domains with this coset shift (fft.WithShift)
//
// Classes:
//	(a) storage: every form x sizes 2^0..2^3, built over dirty spare capacity (and over a clean one: Clone(cap), exact
//	    length), then a conversion on a domain 2x / 4x larger (Canonical, BOTH layouts: the padded polynomial is the same
//	    polynomial) or of the same size (the other forms), Evaluate before / after, every GetCoeff (i >= n included), flips,
//	    back to canonical, dump;
//	(b) used receivers: an object that has been shifted + evaluated / converted / resized, then hit by every mutator
//	    (ReadFrom of a polynomial with another (form, size, shift), Shift, SetSize, conversions, layout flips), evaluated
//	    again, in all 6 x 6 (first life, second life) forms;
//	(c) aliases: ShallowClone, then conversions / flips / grow through ONE alias, observations through the OTHER
//	    (its own shift and size), all 6 forms x 3 targets;
//	(d) coset shifts: ToLagrangeCoset on domains with a caller-chosen shift, Evaluate at points of that coset, conversions
//	    back on the same domain, ToLagrangeCoset again with ANOTHER domain on an object that already is in LagrangeCoset form
//	    (nothing is converted, so nothing may change).

import (
	"fmt"
	"math/big"
	"strings"
)

func (g *c20g) dotVec(n int) string { return strings.ReplaceAll(g.vec(n), ",", ".") }

func (g *c20g) obj(ci int) {
	tk := func(f string, v int) string { return fmt.Sprintf("%s%x", f, v) }
	cat := func(a []string, b ...string) []string { return append(append([]string{}, a...), b...) }
	E := func() string { return "E" + hexBig(g.rnd()) }
	maxm := g.budget(3, 4)
	cnt := 0

	// (a) storage
	for fi, form := range c20forms {
		for m := 0; m <= maxm; m++ {
			n := 1 << m
			if form[0] == 'k' && m == 0 {
				continue
			}
			pre := []string{}
			if form[0] == 'k' {
				pre = []string{tk("K", m)}
			}
			for _, grow := range []int{0, 1, 2} {
				if grow > 0 && form[0] != 'c' {
					continue // only a coefficient list can be padded
				}
				M := m + grow
				for ti, t := range []string{"L", "C", "K"} {
					cnt++
					if !g.thorough() && grow == 0 && (cnt+ci+fi)%3 != 0 {
						continue
					}
					x := E()
					dirty := []int{(1 << M) - n + 3, 1, 2*(1<<M) + 1}[(cnt+ci)%3]
					body := cat(pre, x, tk(t, M), x, "G", "F", []string{"R", "B"}[(cnt+ti)%2], x, tk("C", M), "R", "F", x)
					// dirty spare capacity
					g.script("obj", form, g.vec(n), cat([]string{tk("D", dirty)}, body...))
					if grow > 0 {
						// no spare capacity at all, and a clean one (Clone(capacity))
						g.script("obj", form, g.vec(n), body)
						if (cnt+ci)%2 == 0 || g.thorough() {
							g.script("obj", form, g.vec(n), cat([]string{tk("c", 1<<M)}, body...))
						}
						// two growth steps, the first through another basis; a flip between them
						if M < 6 && ((cnt+ci)%2 == 1 || g.thorough()) {
							g.script("obj", form, g.vec(n), cat([]string{tk("D", 4<<M)}, x, tk("C", M), []string{"R", "B"}[cnt%2], x, "F",
								tk(t, M+1), x, "G", tk("C", M+1), "R", "F"))
						}
					}
				}
			}
			// short canonical/regular input (length not a power of two) over dirty storage
			if form == "cr" && m >= 1 {
				x := E()
				g.script("obj", form, g.vec(n-1+n/2*((ci+m)%2)), []string{tk("D", 2*n), x, tk([]string{"L", "C", "K"}[(m+ci)%3], m+1), x, "G", "F", tk("C", m+1), "R", "F"})
			}
		}
	}

	// (b) used receivers
	shiftsFor := func(n int, k int) int64 {
		c := []int64{1, 2, 3, 5, 6, -1, -3, int64(n) + 1, 9, 7}
		return c[k%len(c)]
	}
	for f1i, f1 := range c20forms {
		for f2i, f2 := range c20forms {
			cnt++
			if !g.thorough() && (f1i+2*f2i+ci)%3 != 0 {
				continue
			}
			m1 := 1 + (cnt+ci)%3
			m2 := 1 + (cnt/3+f2i)%3
			n1, n2 := 1<<m1, 1<<m2
			s1, s2 := shiftsFor(n1, cnt+ci), shiftsFor(n2, cnt/2+f1i+1)
			x := E()
			pre1, pre2 := []string{}, []string{}
			if f1[0] == 'k' {
				pre1 = []string{tk("K", m1)}
			}
			if f2[0] == 'k' {
				pre2 = []string{tk("K", m2)}
			}
			// first life: shifted, evaluated (and converted); second life: read from the bytes of another polynomial
			life1 := cat(pre1, "S"+c20int(s1), x)
			if cnt%2 == 0 {
				life1 = append(life1, tk([]string{"L", "C", "K"}[cnt/2%3], m1), x)
			}
			second := cat([]string{"N" + f2 + ":" + g.dotVec(n2)}, pre2...)
			second = append(second, "S"+c20int(s2))
			if cnt%3 == 0 && m2 >= 1 {
				second = append(second, tk("Z", n2/2))
			}
			conv := tk([]string{"L", "C", "K"}[(cnt+f2i)%3], m2)
			toks := cat(life1, second...)
			toks = append(toks, x, "x", "r", "F", x, "G", conv, x, []string{"R", "B"}[cnt%2], x, "F")
			g.script("obj", f1, g.vec(n1), toks)
			// the receiver has been used and is read TWICE (second, then a third polynomial), evaluated in between
			if cnt%2 == 1 || g.thorough() {
				s3 := shiftsFor(n1, cnt+4)
				toks = cat(life1, second...)
				toks = append(toks, "x", "r", x, "N"+f1+":"+g.dotVec(n1))
				toks = append(toks, pre1...)
				toks = append(toks, "S"+c20int(s3), "x", "r", "F", x, "G")
				g.script("obj", f1, g.vec(n1), toks)
			}
		}
		// Shift / SetSize / conversions / flips on a used receiver, Evaluate after each
		for m := 1; m <= maxm; m++ {
			cnt++
			if !g.thorough() && (cnt+ci)%2 != 0 {
				continue
			}
			n := 1 << m
			pre := []string{}
			if f1[0] == 'k' {
				pre = []string{tk("K", m)}
			}
			x, y := E(), E()
			toks := cat(pre, "S"+c20int(shiftsFor(n, cnt)), x, "S"+c20int(shiftsFor(n, cnt+3)), x, y)
			if m >= 2 {
				toks = append(toks, tk("Z", n/2), x, tk("Z", n), x)
			}
			toks = append(toks, tk([]string{"L", "C", "K"}[cnt%3], m), x, "S"+c20int(shiftsFor(n, cnt+5)), x, []string{"R", "B"}[cnt%2], x,
				"S0", x, tk([]string{"C", "K", "L"}[cnt%3], m), "S"+c20int(-shiftsFor(n, cnt+1)), x, y, "G", "F")
			g.script("obj", f1, g.vec(n), toks)
		}
	}

	// (c) aliases
	for fi, form := range c20forms {
		for ti, t := range []string{"L", "C", "K"} {
			for m := 1; m <= maxm; m++ {
				cnt++
				if !g.thorough() && (cnt+ci)%3 != 0 {
					continue
				}
				n := 1 << m
				pre := []string{}
				if form[0] == 'k' {
					pre = []string{tk("K", m)}
				}
				x := E()
				s := shiftsFor(n, cnt+fi)
				// conversion through the original, observation through the alias (which has its own shift)
				toks := cat(pre, x, "H", "x", "S"+c20int(s), x, "x", tk(t, m), x, "x", "F", x, "G")
				// … a flip and a second conversion through the alias, observation through the original
				toks = append(toks, []string{"R", "B"}[(cnt+ti)%2], tk([]string{"K", "L", "C"}[(ti+cnt)%3], m), x, "x", "F", x, "G")
				g.script("obj", form, g.vec(n), toks)
				// growth through one alias (canonical only), the other one has the old size
				if form[0] == 'c' {
					g.script("obj", form, g.vec(n), []string{tk("D", 3*n), x, "H", tk(t, m+1), x, "x", "F", x, "G", tk("C", m+1), "R", "x", "F", x})
				}
			}
		}
	}

	// (d) coset shifts chosen by the caller
	one := big.NewInt(1)
	for fi, form := range c20forms {
		for m := 1; m <= maxm; m++ {
			cnt++
			n := 1 << m
			// shifts: small, random, a root of unity of order 2n (s^n = -1), g itself
			w2 := g.c.Gen(uint64(2 * n))
			cands := []*big.Int{big.NewInt(7), g.rnd(), w2, new(big.Int).Mul(w2, big.NewInt(3)), big.NewInt(2)}
			s := cands[(cnt+ci)%len(cands)]
			s.Mod(s, g.q)
			if s.Sign() == 0 || s.Cmp(one) == 0 {
				s = big.NewInt(7)
			}
			s2 := cands[(cnt+ci+1)%len(cands)]
			s2.Mod(s2, g.q)
			if s2.Sign() == 0 || s2.Cmp(s) == 0 {
				s2 = big.NewInt(11)
			}
			S, S2, G := "d"+hexBig(s), "d"+hexBig(s2), "d"+hexBig(g.c.MulGen())
			x := E()
			// a point of the coset s·<ω>
			cp := new(big.Int).Mul(s, g.omegaPow(m, 1+cnt%n))
			cp.Mod(cp, g.q)
			y := "E" + hexBig(cp)
			pre := []string{}
			if form[0] == 'k' {
				pre = []string{S, tk("K", m)} // created in LagrangeCoset form: values on the coset s·<ω>
			}
			// onto the coset s·<ω> and back, all on domains with the shift s
			if (cnt+ci)%2 == 0 || g.thorough() {
				toks := cat(pre, S, x, tk("K", m), x, y, "F", []string{"R", "B"}[cnt%2], x, tk([]string{"L", "C"}[cnt%2], m), x, "F", tk("K", m), x, y,
					tk("C", m), "R", "F")
				g.script("obj", form, g.vec(n), toks)
			}
			// already in LagrangeCoset form (shift s): ToLagrangeCoset with a domain of another shift (the default one, or s2)
			// converts nothing — the object must keep its values; then back on the domain it lives on
			if (cnt+ci+fi)%2 == 0 || g.thorough() {
				other := []string{G, S2}[cnt%2]
				toks := cat(pre, S, tk("K", m), x, other, tk("K", m), "F", x, y, S, tk("C", m), "R", "F", x)
				g.script("obj", form, g.vec(n), toks)
			}
			// the same starting on the default coset
			if (cnt+ci+fi)%2 == 1 || g.thorough() {
				pre0 := []string{}
				if form[0] == 'k' {
					pre0 = []string{tk("K", m)}
				}
				toks := cat(pre0, tk("K", m), x, S, tk("K", m), "F", x, G, tk("L", m), x, "F")
				g.script("obj", form, g.vec(n), toks)
			}
		}
	}
}
