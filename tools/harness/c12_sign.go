// C12 — (1) the SIGNER: ops EDSGN / ECSGN run the real Sign and then the real Verify; the model signs itself with the nonce
// on the line (EdDSA: first sizeFr bytes of blake2b-512(randSrc ‖ msg); ECDSA: AES-CTR stream keyed by
// SHA-512(scalar ‖ entropy ‖ msg), re-derived HERE, independently of the library) and the signature BYTES are compared.
// The generator constructs signatures whose scalar components have k = 1, 2, 3, … leading zero bytes, the smallest / largest
// values of each byte length, by (a) a hash.Hash whose Sum is a chosen constant (hash name `const`: S of EdDSA resp. s of
// ECDSA is solved for) and (b) a search over messages / entropy with the real SHA-256 (all arithmetic of the search is
// math/big + the library's scalar multiplication; the library's Sign is never consulted while generating).
// (2) BUFFERS LONGER THAN THE OBJECT: every SetBytes entry point (public key, private key, signature; EdDSA and ECDSA) on
// object ‖ trailing data, with every alternative encoding the point codec would accept given more bytes as prefix.
package main

import (
	"crypto/aes"
	"crypto/cipher"
	crand "crypto/rand"
	"crypto/sha256"
	"crypto/sha512"
	"fmt"
	"hash"
	"math/big"
	"os"
	"runtime"
	"sync"

	"golang.org/x/crypto/blake2b"
)

// a hash.Hash whose Sum is a constant
type constHash struct{ sum []byte }

func (c constHash) Write(p []byte) (int, error) { return len(p), nil }
func (c constHash) Sum(b []byte) []byte         { return append(b, c.sum...) }
func (c constHash) Reset()                      {}
func (c constHash) Size() int                   { return len(c.sum) }
func (c constHash) BlockSize() int              { return 1 }

func c12HashO(name string, mimc func() hash.Hash, oout string) hash.Hash {
	if name == "const" {
		return constHash{parseBytes(oout)}
	}
	return c12Hash(name, mimc)
}

// crypto/rand.Reader while an ECSGN op runs: the entropy of the line, repeated
type entropyReader struct {
	b []byte
	i int
}

func (r *entropyReader) Read(p []byte) (int, error) {
	for j := range p {
		if len(r.b) == 0 {
			p[j] = 0
			continue
		}
		p[j] = r.b[r.i%len(r.b)]
		r.i++
	}
	return len(p), nil
}

// EDSGN <hash> <sk> <nonce> <msg> <oin> <oout>
func execEdSign(e *edAPI, a []string) string {
	if len(a) != 6 {
		return "bad-op"
	}
	sk, msg := parseBytes(a[1]), parseBytes(a[3])
	_, ax, ay, _, err := e.skSetBytes(exact(sk))
	if err != nil {
		return c12Err(err)
	}
	sig, err := e.sign(exact(sk), exact(msg), c12HashO(a[0], e.mimc, a[5]))
	if err != nil {
		return c12Err(err)
	}
	return hexBytes(sig) + " " + verdict(e.verifyXY(ax, ay, exact(sig), exact(msg), c12HashO(a[0], e.mimc, a[5])))
}

// ECSGN <hash> <sk> <entropy> <k> <msg> <oin> <oout>
func execEcSign(e *ecAPI, a []string) string {
	if len(a) != 7 {
		return "bad-op"
	}
	sk, msg := parseBytes(a[1]), parseBytes(a[4])
	_, qx, qy, _, err := e.skSetBytes(exact(sk))
	if err != nil {
		return c12Err(err)
	}
	old := crand.Reader
	crand.Reader = &entropyReader{b: parseBytes(a[2])}
	sig, err := e.sign(exact(sk), exact(msg), c12HashO(a[0], e.mimc, a[6]))
	crand.Reader = old
	if err != nil {
		return c12Err(err)
	}
	return hexBytes(sig) + " " + verdict(e.verifyXY(qx, qy, exact(sig), exact(msg), c12HashO(a[0], e.mimc, a[6])))
}

// deterministic parallel search: eval(i) for i = 0, 1, 2, … is computed chunk-wise on all cores, visit(i, ·) is called
// sequentially in index order and stops the search by returning true; eval must not touch the generator's PRNG
func c12Search[T any](capTries, chunk int, eval func(i int) T, visit func(i int, v T) bool) {
	if chunk < 32 {
		chunk = 32
	}
	if chunk > 4096 {
		chunk = 4096
	}
	nw := runtime.NumCPU()
	for lo := 0; lo < capTries; lo += chunk {
		hi := lo + chunk
		if hi > capTries {
			hi = capTries
		}
		res := make([]T, hi-lo)
		var wg sync.WaitGroup
		for w := 0; w < nw; w++ {
			wg.Add(1)
			go func(w int) {
				defer wg.Done()
				for i := lo + w; i < hi; i += nw {
					res[i-lo] = eval(i)
				}
			}(w)
		}
		wg.Wait()
		if hi == capTries && os.Getenv("GV_C12_DEBUG") != "" {
			fmt.Fprintf(os.Stderr, "c12Search: cap %d reached\n", capTries)
		}
		for i := lo; i < hi; i++ {
			if visit(i, res[i-lo]) {
				if os.Getenv("GV_C12_DEBUG") != "" {
					fmt.Fprintf(os.Stderr, "c12Search: stop at %d (chunk end %d, cap %d)\n", i, hi, capTries)
				}
				return
			}
		}
	}
}

// the i-th pseudo-random string of a search (a function of the seed material `base` and i only)
func c12Derive(base []byte, i, n int) []byte {
	var out []byte
	for c := 0; len(out) < n; c++ {
		h := sha256.Sum256(cat(base, []byte{byte(i), byte(i >> 8), byte(i >> 16), byte(i >> 24), byte(c)}))
		out = append(out, h[:]...)
	}
	return out[:n]
}

func leadingZeroBytes(v *big.Int, size int) int { return size - (v.BitLen()+7)/8 }

// scalar values whose `size`-byte big-endian form has leading zero bytes: the extremes and a random member of each byte
// length, plus tiny values; all inside [1, bound-1]
func c12ScalarTargets(g *gen, bound *big.Int, size int) []*big.Int {
	one := big.NewInt(1)
	var ts []*big.Int
	add := func(v *big.Int) {
		if v.Sign() > 0 && v.Cmp(bound) < 0 {
			for _, t := range ts {
				if t.Cmp(v) == 0 {
					return
				}
			}
			ts = append(ts, v)
		}
	}
	for _, v := range []int64{1, 2, 255, 256, 65535, 65536} {
		add(big.NewInt(v))
	}
	var ks []int
	if g.thorough() {
		for k := 1; k < size; k++ {
			ks = append(ks, k)
		}
	} else {
		ks = []int{1, 2, 3, size / 2, size - 2}
	}
	for _, k := range ks {
		if k < 1 || k >= size {
			continue
		}
		top := new(big.Int).Lsh(one, uint(8*(size-k))) // 2^(8(size-k)): first value with k-1 leading zero bytes
		add(new(big.Int).Sub(top, one))                // largest with k leading zero bytes
		add(new(big.Int).Rsh(top, 8))                  // smallest with k leading zero bytes
		if k > 3 && !g.thorough() {
			continue
		}
		// random with exactly k leading zero bytes
		v := g.rng.bigBelow(top)
		if leadingZeroBytes(v, size) != k {
			v.SetBit(v, 8*(size-k)-1-g.rng.intn(8), 1)
		}
		add(v)
		{
			v2 := g.rng.bigBelow(top)
			v2.SetBit(v2, 8*(size-k)-8, 1) // top non-zero byte = 1 (+ random lower bits): just above the boundary
			for b := 8*(size-k) - 7; b < 8*(size-k); b++ {
				v2.SetBit(v2, b, 0)
			}
			add(v2)
		}
	}
	add(new(big.Int).Sub(bound, one))
	add(g.rng.bigBelow(bound))
	return ts
}

// ---------------------------------------------------------------------------------------------------------------
// EdDSA signer

func genEdSign(g *gen, e *edAPI, p edParams, sk []byte) {
	size := p.size
	_, ax, ay, _, err := e.skSetBytes(sk)
	if err != nil {
		panic(err)
	}
	scalar := new(big.Int).SetBytes(sk[size : 2*size])
	randSrc := sk[2*size : 2*size+32]
	nonce := func(msg []byte) *big.Int {
		h := blake2b.Sum512(cat(randSrc, msg))
		return new(big.Int).SetBytes(h[:size])
	}
	writes := func(r *big.Int, msg []byte) [][]byte {
		rx, ry := e.smul(p.bx, p.by, r)
		return [][]byte{beBytes(rx, size), beBytes(ry, size), beBytes(ax, size), beBytes(ay, size), msg}
	}
	emit := func(hname string, msg []byte, oin, oout string) {
		g.emit("C12 EDSGN %s %s %s %s %s %s %s", e.name, hname, hexBytes(sk), hexBig(nonce(msg)), hexBytes(msg), oin, oout)
	}
	// ordinary signatures with every kind of hash
	emit("sha256", g.rng.bytes(33), "~", "~")
	emit("sha256", []byte{}, "~", "~")
	emit("nil", g.rng.bytes(5), "~", "~")
	{
		msg := c12Msg(g, e.mimcSize, true, e.mimcSize, e.mimcQ)
		rh := &recHash{h: e.mimc()}
		rh.Reset()
		for _, w := range writes(nonce(msg), msg) {
			rh.Write(w)
		}
		rh.Sum(nil)
		oin, oout := rh.oracle()
		emit("mimc", msg, oin, oout)
	}
	emit("const", g.rng.bytes(7), "~", hexBytes(g.rng.bytes(32)))
	emit("const", g.rng.bytes(7), "~", hexBytes(g.rng.bytes(64)))  // a digest much larger than ℓ
	emit("const", g.rng.bytes(7), "~", hexBytes(make([]byte, 32))) // H = 0: S = r mod ℓ
	// (a) S chosen, H solved for:  H = (S − r)·a⁻¹ mod ℓ
	aInv := new(big.Int).ModInverse(new(big.Int).Mod(scalar, p.order), p.order)
	if aInv != nil {
		for i, s := range c12ScalarTargets(g, p.order, size) {
			msg := g.rng.bytes(1 + g.rng.intn(40))
			h := new(big.Int).Sub(s, nonce(msg))
			h.Mul(h, aInv).Mod(h, p.order)
			// check the construction
			chk := new(big.Int).Mul(h, scalar)
			chk.Add(chk, nonce(msg)).Mod(chk, p.order)
			if chk.Cmp(s) != 0 {
				panic("c12: EdDSA S construction failed (harness bug)")
			}
			dl := size
			if i%3 == 1 {
				dl = 32
			} else if i%3 == 2 {
				dl = size + 9
			}
			if h.BitLen() > 8*dl {
				dl = size
			}
			emit("const", msg, "~", hexBytes(beBytes(h, dl)))
		}
	}
	// (b) search over messages with the real SHA-256 until S has k = 1, 2 leading zero bytes more than ℓ has (thorough: also
	// k = 3 where that takes less than 600000 tries on average; (a) has every k on every curve)
	lzOrder := leadingZeroBytes(p.order, size)
	expect := int(new(big.Int).Rsh(p.order, uint(8*(size-lzOrder-1))).Int64()) + 1 // ≈ 1 / P(one more leading zero byte)
	maxK := 2
	expect *= 256
	if g.thorough() && expect*256 <= 600000 {
		maxK = 3
		expect *= 256
	}
	capTries := 4 * expect
	found := map[int]bool{}
	base := g.rng.bytes(32)
	mkMsg := func(i int) []byte { return c12Derive(base, i, 8+i%32) }
	c12Search(capTries, expect/4, func(i int) int {
		msg := mkMsg(i)
		r := nonce(msg)
		hh := sha256.New()
		for _, w := range writes(r, msg) {
			hh.Write(w)
		}
		s := new(big.Int).SetBytes(hh.Sum(nil))
		s.Mul(s, scalar).Add(s, r).Mod(s, p.order)
		return leadingZeroBytes(s, size) - lzOrder
	}, func(i, k int) bool {
		if k > maxK {
			k = maxK
		}
		if k >= 1 && !found[k] {
			found[k] = true
			emit("sha256", mkMsg(i), "~", "~")
		}
		return len(found) >= maxK
	})
}

// ---------------------------------------------------------------------------------------------------------------
// ECDSA signer

// the nonce of Sign, re-derived: AES-CTR keystream under SHA-512(scalar ‖ entropy ‖ msg)[:32], frBits/8+8 bytes,
// reduced into [1, n−1]
func ecNonce(scalar, entropy, msg []byte, frBits int, n *big.Int) *big.Int {
	md := sha512.New()
	md.Write(scalar)
	md.Write(entropy)
	md.Write(msg)
	block, err := aes.NewCipher(md.Sum(nil)[:32])
	if err != nil {
		panic(err)
	}
	b := make([]byte, frBits/8+8)
	cipher.NewCTR(block, []byte("gnark-crypto IV.")).XORKeyStream(b, b)
	k := new(big.Int).SetBytes(b)
	k.Mod(k, new(big.Int).Sub(n, big.NewInt(1)))
	return k.Add(k, big.NewInt(1))
}

func genEcSign(g *gen, e *ecAPI, p ecParams, sk []byte) {
	fb := p.frBytes
	pksz := len(sk) - fb
	scalar := sk[pksz:]
	d := new(big.Int).SetBytes(scalar)
	emit := func(hname string, entropy, msg []byte, oin, oout string) {
		k := ecNonce(scalar, entropy, msg, p.frBits, p.n)
		g.emit("C12 ECSGN %s %s %s %s %s %s %s %s", e.name, hname, hexBytes(sk), hexBytes(entropy), hexBig(k), hexBytes(msg), oin, oout)
	}
	digestInt := func(hname string, msg []byte) *big.Int {
		if hname == "sha256" {
			h := sha256.Sum256(msg)
			return e.hashToInt(h[:])
		}
		return e.hashToInt(msg)
	}
	// ordinary signatures with every kind of hash
	emit("sha256", g.rng.bytes(32), g.rng.bytes(33), "~", "~")
	emit("nil", g.rng.bytes(32), g.rng.bytes(fb), "~", "~")
	emit("nil", g.rng.bytes(32), g.rng.bytes(fb+9), "~", "~")
	emit("nil", g.rng.bytes(32), []byte{}, "~", "~")
	{
		msg := c12Msg(g, e.mimcSize, true, e.mimcSize, e.mimcQ)
		rh := &recHash{h: e.mimc()}
		rh.Reset()
		rh.Write(msg)
		rh.Sum(nil)
		oin, oout := rh.oracle()
		emit("mimc", g.rng.bytes(32), msg, oin, oout)
	}
	emit("const", g.rng.bytes(32), g.rng.bytes(7), "~", hexBytes(g.rng.bytes(32)))
	emit("const", g.rng.bytes(32), g.rng.bytes(7), "~", hexBytes(g.rng.bytes(fb+13)))
	emit("const", g.rng.bytes(32), g.rng.bytes(7), "~", hexBytes(make([]byte, fb))) // e = 0
	// (a) s chosen, e solved for:  e = s·k − r·d mod n, handed over as the constant digest (e < n < 2^frBits: HashToInt keeps it)
	for _, s := range c12ScalarTargets(g, p.n, fb) {
		entropy, msg := g.rng.bytes(32), g.rng.bytes(1+g.rng.intn(40))
		k := ecNonce(scalar, entropy, msg, p.frBits, p.n)
		rx, _ := e.smulG(k)
		r := new(big.Int).Mod(rx, p.n)
		ev := new(big.Int).Mul(s, k)
		ev.Sub(ev, new(big.Int).Mul(r, d)).Mod(ev, p.n)
		dig := beBytes(ev, fb)
		if e.hashToInt(dig).Cmp(ev) != 0 {
			continue
		}
		chk := new(big.Int).Mul(r, d)
		chk.Add(chk, ev).Mul(chk, new(big.Int).ModInverse(k, p.n)).Mod(chk, p.n)
		if chk.Cmp(s) != 0 {
			panic("c12: ECDSA s construction failed (harness bug)")
		}
		emit("const", entropy, msg, "~", hexBytes(dig))
	}
	// (b) search over the entropy with real digests until r has k = 1, 2 leading zero bytes more than n has (s is chosen in
	// (a); the s with leading zero bytes met on the way are emitted too)
	maxK := 2
	lzN := leadingZeroBytes(p.n, fb)
	expect := int(new(big.Int).Rsh(p.n, uint(8*(fb-lzN-1))).Int64()) + 1
	type key struct {
		comp byte
		k    int
	}
	found := map[key]bool{}
	foundR := 0
	capTries := 5 * expect * 256
	if lim := g.budget(400000, 2000000); capTries > lim {
		capTries = lim
	}
	msgs := [][]byte{g.rng.bytes(20), g.rng.bytes(fb), g.rng.bytes(fb + 5)}
	hnames := []string{"sha256", "nil", "nil"}
	evs := make([]*big.Int, len(msgs))
	for i := range msgs {
		evs[i] = digestInt(hnames[i], msgs[i])
	}
	base := g.rng.bytes(32)
	c12Search(capTries, expect*64, func(i int) [2]int {
		j := i % len(msgs)
		k := ecNonce(scalar, c12Derive(base, i, 32), msgs[j], p.frBits, p.n)
		rx, _ := e.smulG(k)
		r := new(big.Int).Mod(rx, p.n)
		s := new(big.Int).Mul(r, d)
		s.Add(s, evs[j]).Mul(s, new(big.Int).ModInverse(k, p.n)).Mod(s, p.n)
		if r.Sign() == 0 || s.Sign() == 0 {
			return [2]int{0, 0}
		}
		return [2]int{leadingZeroBytes(r, fb) - lzN, leadingZeroBytes(s, fb) - lzN}
	}, func(i int, v [2]int) bool {
		hit := false
		for c, kz := range v {
			if kz > maxK {
				kz = maxK
			}
			if kz >= 1 && !found[key{byte(c), kz}] {
				found[key{byte(c), kz}] = true
				hit = true
				if c == 0 {
					foundR++
				}
			}
		}
		if hit {
			emit(hnames[i%len(msgs)], c12Derive(base, i, 32), msgs[i%len(msgs)], "~", "~")
		}
		return foundR >= maxK
	})
}

// ---------------------------------------------------------------------------------------------------------------
// buffers longer than the object

// trailing data of various lengths after `obj`; `self` is appended once as a trailer too (object ‖ object)
func c12Trailers(g *gen, unit int) [][]byte {
	ff := func(n int) []byte {
		b := make([]byte, n)
		for i := range b {
			b[i] = 0xff
		}
		return b
	}
	ts := [][]byte{{}, {0}, g.rng.bytes(1), g.rng.bytes(unit - 1), g.rng.bytes(unit), make([]byte, unit), ff(unit), g.rng.bytes(unit + 1),
		g.rng.bytes(2 * unit), g.rng.bytes(3*unit + 5)}
	if g.thorough() {
		ts = append(ts, g.rng.bytes(2), g.rng.bytes(2*unit-1), g.rng.bytes(2*unit+1), make([]byte, 2*unit), ff(2*unit), g.rng.bytes(5*unit+3), g.rng.bytes(1000))
	}
	return ts
}

func genEdBuffers(g *gen, e *edAPI, p edParams, sk, sig []byte) {
	size := p.size
	pkb := sk[:size]
	for _, obj := range []struct {
		tag string
		b   []byte
	}{{"EDPKL", pkb}, {"EDSKL", sk}, {"EDSIG", sig}} {
		for _, t := range c12Trailers(g, size) {
			g.emit("C12 %s %s %s", obj.tag, e.name, hexBytes(cat(obj.b, t)))
		}
		g.emit("C12 %s %s %s", obj.tag, e.name, hexBytes(cat(obj.b, obj.b)))
		// truncations
		for _, n := range []int{0, 1, size - 1, size, size + 1, len(obj.b) - 1} {
			if n >= 0 && n < len(obj.b) {
				g.emit("C12 %s %s %s", obj.tag, e.name, hexBytes(obj.b[:n]))
			}
		}
	}
	// the private key whose randSrc / scalar is followed by data: only the first 2·size+32 bytes count
	sk2 := append([]byte{}, sk...)
	sk2[len(sk2)-1] ^= 0x5a
	g.emit("C12 EDSKL %s %s", e.name, hexBytes(cat(sk2, g.rng.bytes(size))))
	// a public key followed by a signature, a signature followed by a public key (stream parsing)
	g.emit("C12 EDPKL %s %s", e.name, hexBytes(cat(pkb, sig)))
	g.emit("C12 EDSIG %s %s", e.name, hexBytes(cat(sig, pkb)))
}

func genEcBuffers(g *gen, e *ecAPI, p ecParams, sk, sig []byte, qx, qy *big.Int) {
	fb, fpb := p.frBytes, p.fpBytes
	pksz := len(sk) - fb
	pkb := sk[:pksz]
	scalar := sk[pksz:]
	// every encoding of the key point (and of the point at infinity) the point codec knows, whatever its length
	var encs [][]byte
	encs = append(encs, pkb) // (a) the canonical one
	raw := cat(beBytes(qx, fpb), beBytes(qy, fpb))
	rawNeg := cat(beBytes(qx, fpb), beBytes(new(big.Int).Sub(p.p, qy), fpb))
	if p.maskKind != 0 {
		sh := uint(8 - p.maskKind)
		withFlag := func(b []byte, f int) []byte {
			r := append([]byte{}, b...)
			r[0] = r[0]&(0xff>>uint(p.maskKind)) | byte(f)<<sh
			return r
		}
		// (b) uncompressed X‖Y (flag 0), with −Y, with Y := 0, with X‖X; every flag value in front of X‖Y and in front of zeros
		encs = append(encs, raw, rawNeg, cat(beBytes(qx, fpb), make([]byte, fpb)), cat(beBytes(qx, fpb), beBytes(qx, fpb)))
		for f := 0; f < 1<<uint(p.maskKind); f++ {
			encs = append(encs, withFlag(raw, f))
			encs = append(encs, withFlag(make([]byte, 2*fpb), f)) // infinity forms: uncompressed / compressed, and the invalid flags
			z := withFlag(make([]byte, 2*fpb), f)
			z[2*fpb-1] = 1
			encs = append(encs, z) // infinity flag, non-zero tail
			z2 := withFlag(make([]byte, 2*fpb), f)
			z2[fpb-1] = 1
			encs = append(encs, z2) // non-zero inside the first fpBytes
		}
		// the compressed form followed by the ordinate (the two forms glued)
		encs = append(encs, cat(pkb, beBytes(qy, fpb)))
		// uncompressed form of another point of the subgroup, and of a point off the curve
		x2, y2 := e.smul(qx, qy, big.NewInt(3))
		encs = append(encs, cat(beBytes(x2, fpb), beBytes(y2, fpb)))
		encs = append(encs, cat(beBytes(x2, fpb), beBytes(qy, fpb)))
	} else {
		encs = append(encs, rawNeg, make([]byte, 2*fpb), cat(beBytes(qx, fpb), beBytes(qx, fpb)))
	}
	trailers := c12Trailers(g, fpb)
	// compressed abscissa 0 is a point of order 3 when b is a square: tag of the recorded bw6-633 finding (no ECSK twin)
	absc0 := func(b []byte) bool {
		return p.maskKind != 0 && len(b) >= pksz && b[0]&0x80 != 0 && b[0]&(0xff>>uint(p.maskKind)) == 0 && new(big.Int).SetBytes(b[1:pksz]).Sign() == 0
	}
	emitPK := func(b []byte) {
		if absc0(b) {
			g.emit("C12 ECPKT %s %s", e.name, hexBytes(b))
		} else {
			g.emit("C12 ECPKL %s %s", e.name, hexBytes(b))
		}
	}
	for ei, eb := range encs {
		for ti, t := range trailers {
			if !g.thorough() && ei > 0 && ti != 0 && ti != 1+ei%(len(trailers)-1) {
				continue // quick: the canonical form with every trailer, the others bare and with one trailer
			}
			emitPK(cat(eb, t))
			if (ei < 4 || g.thorough() || ti == 0) && !absc0(eb) {
				g.emit("C12 ECSK %s %s", e.name, hexBytes(cat(eb, scalar, t)))
			}
		}
		// (c) truncations of each form
		for _, n := range []int{0, 1, fpb - 1, fpb, fpb + 1, 2*fpb - 1} {
			if n < len(eb) && (ei < 6 || g.thorough() || n == fpb || n == 2*fpb-1) {
				emitPK(eb[:n])
			}
		}
		// the private key with the scalar cut short by the alternative (longer) point encoding
		if len(eb) > pksz && !absc0(eb) {
			g.emit("C12 ECSK %s %s", e.name, hexBytes(eb[:pksz+fb]))
		}
	}
	// signatures: exact length only
	for _, t := range trailers {
		g.emit("C12 ECSIG %s %s", e.name, hexBytes(cat(sig, t)))
	}
	g.emit("C12 ECSIG %s %s", e.name, hexBytes(cat(sig, sig)))
	g.emit("C12 ECSIG %s %s", e.name, hexBytes(cat(sig, pkb)))
	// stream parsing: key ‖ signature
	g.emit("C12 ECPKL %s %s", e.name, hexBytes(cat(pkb, sig)))
	g.emit("C12 ECSK %s %s", e.name, hexBytes(cat(sk, sig)))
	g.emit("C12 ECSK %s %s", e.name, hexBytes(cat(sk, sk)))
}
