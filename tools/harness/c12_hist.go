// C12 — HISTORIES and the ACCEPTANCE SET of the verification equation.
//
// (1) Ops EDSCR / ECSCR: a script over a store of OBJECTS (private keys, public keys, byte buffers, hash.Hash objects), executed step by
// step on the real types through the exported API (signature.Signer / signature.PublicKey + struct / field copies). The model
// interprets the same script with VALUE SEMANTICS: every accessor (Public(), the PublicKey field, Bytes(), SetBytes from a buffer,
// struct copies) yields an independent value, a write to one object changes that object only, and Sign / Verify hash exactly the
// bytes the scheme specifies whatever the hasher has absorbed before. Two generator families:
//   * aliasing histories: an object handed out by the API is written through (SetBytes with another key, a FAILING SetBytes, a
//     scribbled buffer) and the signer / verifier / serialisation of the object it came from is observed afterwards;
//   * hasher-state histories: one hash.Hash (SHA-256, MiMC) that has been written to before, or is reused across consecutive
//     Sign / Verify / SignForRecover calls in every order.
// Step grammar (one whitespace-free token per step, fields separated by ','; slots are short names; every step yields one output token):
//   bn,b,<hex>  buffer literal              bx,b   flip every byte of the buffer IN PLACE         bc,b,b2  fresh copy of a buffer
//   hn,h,<sha256|mimc>  new hasher          hw,h,b h.Write(buffer)                                 hs,h     h.Sum(nil), result dropped
//   ks,i,b  k_i.SetBytes(b) (k_i is created when absent) → n | err        kc,i,i2  k_i := *k_i2 (struct copy)
//   kp,j,i  p_j := k_i.Public()             kf,j,i p_j := copy of the field k_i.PublicKey          pc,j,j2  p_j := *p_j2
//   kb,b,i  b := k_i.Bytes() → hex          pb,b,j b := p_j.Bytes() → hex                          ps,j,b   p_j.SetBytes(b) → n | err
//   sg,b,i,h,<nonce>,bm,<oin>,<oout>        b := k_i.Sign(bm, h)  (h = hasher slot | nil | const)  → hex | err
//   sr,i,h,<nonce>,bm,<oin>,<oout>          k_i.SignForRecover(bm, h) (ECDSA with recovery)        → v:r:s
//   vf,j,bs,bm,h,<oin>,<oout>               p_j.Verify(bs, bm, h) → 1 | 0 | err                    eq,j,j2  p_j.Equal(p_j2)
//   rc,j,bd,<v>,<r>,<s>                     p_j.RecoverFrom(bd, v, r, s) (p_j created when absent) → ok | err (p_j unchanged)
// <nonce>: EdDSA the nonce (hex); ECDSA <entropy-hex>/<k-hex> (crypto/rand yields the entropy while the step runs).
//
// (2) RELATED SIGNATURES: for an honest (R, S) every member of the family {±R, ±R + T (T of small order)} × {S', ℓ−S', S'+ℓ, …}
// (S' solved with the secret scalar for the challenge of the variant, or kept from the honest triple) is submitted to Verify; the
// model decides each by the group equation (some verify: (−R, −r+h'a), (R+T, r+h'a) do). ECDSA: (±r, ±s, ±Q, ±e).
package main

import (
	crand "crypto/rand"
	"crypto/sha256"
	"fmt"
	"hash"
	"math/big"
	"strconv"
	"strings"

	"github.com/consensys/gnark-crypto/signature"
	"golang.org/x/crypto/blake2b"
	"io"
)

type sigObjAPI struct {
	newSK   func() signature.Signer
	newPK   func() signature.PublicKey
	copySK  func(signature.Signer) signature.Signer
	copyPK  func(signature.PublicKey) signature.PublicKey
	fieldPK func(signature.Signer) signature.PublicKey
	// ECDSA instances with public-key recovery only
	signForRecover func(k signature.Signer, msg []byte, h hash.Hash) (uint, *big.Int, *big.Int, error)
	recoverFrom    func(p signature.PublicKey, digest []byte, v uint, r, s *big.Int) error
}

// ---------------------------------------------------------------------------------------------------------------
// executor

type c12Store struct {
	sks  map[string]signature.Signer
	pks  map[string]signature.PublicKey
	bufs map[string][]byte
	hs   map[string]hash.Hash
}

func errOr(n int, err error) string {
	if err != nil {
		return c12Err(err)
	}
	return strconv.Itoa(n)
}

// execScript runs the steps; `ec` selects the ECDSA conventions (entropy for the nonce)
func execScript(o sigObjAPI, mimc func() hash.Hash, ec bool, steps []string) string {
	st := &c12Store{map[string]signature.Signer{}, map[string]signature.PublicKey{}, map[string][]byte{}, map[string]hash.Hash{}}
	out := make([]string, 0, len(steps))
	for _, s := range steps {
		out = append(out, st.step(o, mimc, ec, strings.Split(s, ",")))
	}
	return strings.Join(out, " ")
}

func (st *c12Store) hasher(name, oout string) hash.Hash {
	switch name {
	case "nil":
		return nil
	case "const":
		return constHash{parseBytes(oout)}
	}
	return st.hs[name]
}

func (st *c12Store) step(o sigObjAPI, mimc func() hash.Hash, ec bool, f []string) (res string) {
	defer func() {
		if r := recover(); r != nil {
			res = "panic"
		}
	}()
	need := func(n int) bool { return len(f) == n }
	switch f[0] {
	case "bn":
		if !need(3) {
			return "bad-step"
		}
		st.bufs[f[1]] = exact(parseBytes(f[2]))
		return "-"
	case "bx":
		b, ok := st.bufs[f[1]]
		if !need(2) || !ok {
			return "bad-step"
		}
		for i := range b {
			b[i] ^= 0xa5
		}
		return "-"
	case "bc":
		b, ok := st.bufs[f[2]]
		if !need(3) || !ok {
			return "bad-step"
		}
		st.bufs[f[1]] = exact(b)
		return "-"
	case "hn":
		if !need(3) {
			return "bad-step"
		}
		h := c12Hash(f[2], mimc)
		if h == nil {
			return "bad-step"
		}
		st.hs[f[1]] = h
		return "-"
	case "hw":
		h, ok := st.hs[f[1]]
		b, ok2 := st.bufs[f[2]]
		if !need(3) || !ok || !ok2 {
			return "bad-step"
		}
		if _, err := h.Write(b); err != nil {
			return c12Err(err)
		}
		return "-"
	case "hs":
		h, ok := st.hs[f[1]]
		if !need(2) || !ok {
			return "bad-step"
		}
		h.Sum(nil)
		return "-"
	case "ks":
		b, ok := st.bufs[f[2]]
		if !need(3) || !ok {
			return "bad-step"
		}
		k, ok := st.sks[f[1]]
		if !ok {
			k = o.newSK()
			st.sks[f[1]] = k
		}
		return errOr(k.SetBytes(b))
	case "kc":
		k, ok := st.sks[f[2]]
		if !need(3) || !ok {
			return "bad-step"
		}
		st.sks[f[1]] = o.copySK(k)
		return "-"
	case "kp":
		k, ok := st.sks[f[2]]
		if !need(3) || !ok {
			return "bad-step"
		}
		st.pks[f[1]] = k.Public()
		return "-"
	case "kf":
		k, ok := st.sks[f[2]]
		if !need(3) || !ok {
			return "bad-step"
		}
		st.pks[f[1]] = o.fieldPK(k)
		return "-"
	case "pc":
		p, ok := st.pks[f[2]]
		if !need(3) || !ok {
			return "bad-step"
		}
		st.pks[f[1]] = o.copyPK(p)
		return "-"
	case "kb":
		k, ok := st.sks[f[2]]
		if !need(3) || !ok {
			return "bad-step"
		}
		st.bufs[f[1]] = k.Bytes()
		return hexBytes(st.bufs[f[1]])
	case "pb":
		p, ok := st.pks[f[2]]
		if !need(3) || !ok {
			return "bad-step"
		}
		st.bufs[f[1]] = p.Bytes()
		return hexBytes(st.bufs[f[1]])
	case "ps":
		b, ok := st.bufs[f[2]]
		if !need(3) || !ok {
			return "bad-step"
		}
		p, ok := st.pks[f[1]]
		if !ok {
			p = o.newPK()
			st.pks[f[1]] = p
		}
		return errOr(p.SetBytes(b))
	case "eq":
		p, ok := st.pks[f[1]]
		p2, ok2 := st.pks[f[2]]
		if !need(3) || !ok || !ok2 {
			return "bad-step"
		}
		return boolStr(p.Equal(p2))
	case "sg", "sr":
		// sg,b,i,h,nonce,bm,oin,oout    sr,i,h,nonce,bm,oin,oout
		if f[0] == "sg" {
			if !need(8) {
				return "bad-step"
			}
		} else {
			if !need(7) {
				return "bad-step"
			}
			f = append([]string{"sr", ""}, f[1:]...)
		}
		k, ok := st.sks[f[2]]
		m, ok2 := st.bufs[f[5]]
		if !ok || !ok2 {
			return "bad-step"
		}
		h := st.hasher(f[3], f[7])
		if f[3] != "nil" && h == nil {
			return "bad-step"
		}
		if ec {
			ent := parseBytes(strings.SplitN(f[4], "/", 2)[0])
			old := crand.Reader
			crand.Reader = &entropyReader{b: ent}
			defer func() { crand.Reader = old }()
		}
		if f[0] == "sr" {
			if o.signForRecover == nil {
				return "bad-step"
			}
			v, r, s, err := o.signForRecover(k, m, h)
			if err != nil {
				return c12Err(err)
			}
			return fmt.Sprintf("%x:%s:%s", v, hexBig(r), hexBig(s))
		}
		sig, err := k.Sign(m, h)
		if err != nil {
			return c12Err(err)
		}
		st.bufs[f[1]] = sig
		return hexBytes(sig)
	case "vf": // vf,j,bs,bm,h,oin,oout
		if !need(7) {
			return "bad-step"
		}
		p, ok := st.pks[f[1]]
		sig, ok2 := st.bufs[f[2]]
		m, ok3 := st.bufs[f[3]]
		if !ok || !ok2 || !ok3 {
			return "bad-step"
		}
		h := st.hasher(f[4], f[6])
		if f[4] != "nil" && h == nil {
			return "bad-step"
		}
		return verdict(p.Verify(sig, m, h))
	case "rc": // rc,j,bd,v,r,s
		if !need(6) || o.recoverFrom == nil {
			return "bad-step"
		}
		d, ok := st.bufs[f[2]]
		if !ok {
			return "bad-step"
		}
		p, ok := st.pks[f[1]]
		if !ok {
			p = o.newPK()
			st.pks[f[1]] = p
		}
		v, _ := strconv.ParseUint(f[3], 16, 64)
		if err := o.recoverFrom(p, d, uint(v), parseSigned(f[4]), parseSigned(f[5])); err != nil {
			return c12Err(err)
		}
		return "ok"
	}
	return "bad-step"
}

// ---------------------------------------------------------------------------------------------------------------
// script builder (generator side). The scheme-specific part is `signArgs`: nonce token and MiMC oracle of Sign(msg) under `sk`.

type scrKey struct {
	sk  []byte // encoding of the private key
	pkb []byte // encoding of its public key
}

type scrGen struct {
	g        *gen
	ec       bool
	mimc     func() hash.Hash
	mimcSize int
	mimcQ    *big.Int
	// nonce token of Sign(msg) under key k (EdDSA: a function of key and message; ECDSA: fresh entropy is drawn)
	nonce func(k scrKey, msg []byte) string
	// the byte strings the scheme hashes for Sign(msg) under key k with that nonce token (the same ones for Verify of the result)
	writes func(k scrKey, nonce string, msg []byte) [][]byte
	steps  []string
	nbuf   int
}

func (s *scrGen) add(format string, a ...any) { s.steps = append(s.steps, fmt.Sprintf(format, a...)) }
func (s *scrGen) buf(b []byte) string {
	n := "b" + strconv.Itoa(s.nbuf)
	s.nbuf++
	s.add("bn,%s,%s", n, hexBytes(b))
	return n
}
func (s *scrGen) fresh() string {
	n := "b" + strconv.Itoa(s.nbuf)
	s.nbuf++
	return n
}

// the oracle a FRESH hasher of that kind gives on the specified writes (MiMC only; SHA-256 is computed by the model)
func (s *scrGen) oracle(kind string, ws [][]byte) (string, string) {
	if kind != "mimc" {
		return "~", "~"
	}
	rh := &recHash{h: s.mimc()}
	rh.Reset()
	for _, w := range ws {
		if _, err := rh.Write(w); err != nil {
			return "~", "~"
		}
	}
	rh.Sum(nil)
	return rh.oracle()
}

func (s *scrGen) msg(kind string) []byte {
	if kind == "mimc" {
		return c12Msg(s.g, s.mimcSize, true, s.mimcSize, s.mimcQ)
	}
	return s.g.rng.bytes(1 + s.g.rng.intn(40))
}

// a signature made inside a script: buffer slots of signature and message, the oracle of its challenge, nonce token and message
type sigRef struct {
	sb, mb, oin, oout string
	nonce             string
	msg               []byte
}

// sign step: k_i (holding key k) signs msg with hasher slot h of the given kind
func (s *scrGen) sign(i string, k scrKey, h, kind string, msg []byte) sigRef {
	r := sigRef{mb: s.buf(msg), nonce: s.nonce(k, msg), msg: msg}
	r.oin, r.oout = s.oracle(kind, s.writes(k, r.nonce, msg))
	r.sb = s.fresh()
	s.add("sg,%s,%s,%s,%s,%s,%s,%s", r.sb, i, h, r.nonce, r.mb, r.oin, r.oout)
	return r
}

// verify step of a signature made in the script, under the object p_j
func (s *scrGen) verifyRef(j string, r sigRef, h string) { s.add("vf,%s,%s,%s,%s,%s,%s", j, r.sb, r.mb, h, r.oin, r.oout) }

func (s *scrGen) signRecover(i string, k scrKey, h, kind string, msg []byte) {
	msgBuf := s.buf(msg)
	nc := s.nonce(k, msg)
	oin, oout := s.oracle(kind, s.writes(k, nc, msg))
	s.add("sr,%s,%s,%s,%s,%s,%s", i, h, nc, msgBuf, oin, oout)
}

func (s *scrGen) emit(tag, inst string) {
	s.g.emit("C12 %s %s %s", tag, inst, strings.Join(s.steps, " "))
	s.steps, s.nbuf = nil, 0
}

// ---- the two families, scheme-independent

// invalid / valid material for write-through
type scrWrites struct {
	other   scrKey   // another honest key
	badPK   [][]byte // public-key encodings of full length that SetBytes refuses (the decoder may have written before refusing)
	shortPK []byte
	badSK   [][]byte // private-key encodings that SetBytes refuses
}

// aliasing histories on key objects. k0 = key `a` is the object under observation.
func genScrAlias(s *scrGen, tag, inst string, a scrKey, w scrWrites, hasRecover bool, recArgs func() (d []byte, v uint, r, sv *big.Int)) {
	g := s.g
	// observation block: serialisation of k0, of a fresh Public(), a signature by k0 verified under the original key p_ref
	observe := func() {
		s.add("kb,%s,k0", s.fresh())
		s.add("kp,pz,k0")
		s.add("pb,%s,pz", s.fresh())
		s.add("eq,pz,pref")
		s.add("hn,ho,sha256")
		r := s.sign("k0", a, "ho", "sha256", s.msg("sha256"))
		s.add("hn,hv,sha256")
		s.verifyRef("pref", r, "hv")
	}
	setup := func() {
		s.add("ks,k0,%s", s.buf(a.sk))
		s.add("ps,pref,%s", s.buf(a.pkb))
	}
	// the ways of writing through a public-key object p1
	type wr struct {
		name string
		do   func(p string)
	}
	pkWrites := []wr{
		{"other", func(p string) { s.add("ps,%s,%s", p, s.buf(w.other.pkb)) }},
		{"short", func(p string) { s.add("ps,%s,%s", p, s.buf(w.shortPK)) }},
	}
	for bi := range w.badPK {
		b := w.badPK[bi]
		pkWrites = append(pkWrites, wr{"bad" + strconv.Itoa(bi), func(p string) { s.add("ps,%s,%s", p, s.buf(b)) }})
	}
	if hasRecover {
		pkWrites = append(pkWrites, wr{"recover", func(p string) {
			d, v, r, sv := recArgs()
			s.add("rc,%s,%s,%x,%s,%s", p, s.buf(d), v, hexSigned(r), hexSigned(sv))
		}})
	}
	skWrites := []wr{
		{"other", func(k string) { s.add("ks,%s,%s", k, s.buf(w.other.sk)) }},
		{"short", func(k string) { s.add("ks,%s,%s", k, s.buf(w.other.sk[:len(w.other.sk)-1])) }},
	}
	for bi := range w.badSK {
		b := w.badSK[bi]
		skWrites = append(skWrites, wr{"bad" + strconv.Itoa(bi), func(k string) { s.add("ks,%s,%s", k, s.buf(b)) }})
	}
	pick := func(ws []wr, salt int) []wr {
		if g.thorough() || len(ws) <= 2 {
			return ws
		}
		// quick: the valid write and one refused write (rotating); the rest in thorough
		return []wr{ws[0], ws[1+(salt+g.rng.intn(len(ws)-1))%(len(ws)-1)]}
	}
	// handing out a public-key object
	pkHandouts := []struct {
		name string
		do   func()
	}{
		{"Public", func() { s.add("kp,p1,k0") }},
		{"field", func() { s.add("kf,p1,k0") }},
		{"Public-copy", func() { s.add("kp,p2,k0"); s.add("pc,p1,p2") }},
		{"Public-twice", func() { s.add("kp,p1,k0"); s.add("kp,p2,k0") }},
	}
	for hi, h := range pkHandouts {
		for _, wv := range pick(pkWrites, hi) {
			setup()
			h.do()
			wv.do("p1")
			observe()
			if h.name == "Public-twice" || h.name == "Public-copy" {
				s.add("eq,p2,pref") // the sibling object is unaffected too
				s.add("pb,%s,p2", s.fresh())
			}
			s.emit(tag, inst)
		}
	}
	// a public key decoded from bytes, copied, the copy written: the original still verifies
	for _, wv := range pick(pkWrites, 1) {
		setup()
		s.add("pc,p1,pref")
		wv.do("p1")
		observe()
		s.emit(tag, inst)
	}
	// struct copy of the private key, written through SetBytes
	for _, wv := range pick(skWrites, 2) {
		setup()
		s.add("kc,k1,k0")
		wv.do("k1")
		observe()
		s.emit(tag, inst)
	}
	// and the other direction: the copy is observed after the original has been overwritten
	{
		setup()
		s.add("kc,k1,k0")
		s.add("kp,p1,k0")
		s.add("ks,k0,%s", s.buf(w.other.sk))
		s.add("kb,%s,k1", s.fresh())
		s.add("pb,%s,p1", s.fresh())
		s.add("eq,p1,pref")
		s.add("hn,ho,sha256")
		r := s.sign("k1", a, "ho", "sha256", s.msg("sha256"))
		s.add("hn,hv,sha256")
		s.verifyRef("p1", r, "hv")
		s.add("ks,k0,%s", s.buf(a.sk)) // back to the key under observation
		observe()
		s.emit(tag, inst)
	}
	// byte slices: the results of Bytes() and the arguments of SetBytes are scribbled on afterwards
	{
		setup()
		s.add("kp,p1,k0")
		b1, b2 := s.fresh(), s.fresh()
		s.add("kb,%s,k0", b1)
		s.add("pb,%s,p1", b2)
		s.add("bx,%s", b1)
		s.add("bx,%s", b2)
		s.add("pb,%s,p1", s.fresh())
		s.add("eq,p1,pref")
		observe()
		s.emit(tag, inst)
	}
	{
		skb, pkb := "", ""
		skb = s.buf(a.sk)
		pkb = s.buf(a.pkb)
		s.add("ks,k0,%s", skb)
		s.add("ps,pref,%s", pkb)
		s.add("bc,bk,%s", pkb)
		s.add("ps,p1,bk")
		s.add("bx,%s", skb)
		s.add("bx,bk")
		s.add("pb,%s,p1", s.fresh())
		s.add("eq,p1,pref")
		observe()
		s.emit(tag, inst)
	}
	// signature and message buffers: Sign twice with the first result scribbled in between (EdDSA: the same bytes again), the
	// message buffer is reused for Verify after Sign has seen it
	{
		setup()
		m := s.msg("sha256")
		s.add("hn,h1,sha256")
		r := s.sign("k0", a, "h1", "sha256", m)
		s.add("bc,bs,%s", r.sb)
		s.add("bx,%s", r.sb)
		s.add("hn,h2,sha256")
		s.add("vf,pref,bs,%s,h2,~,~", r.mb)
		s.add("hn,h3,sha256")
		s.verifyRef("pref", r, "h3") // every byte flipped: refused
		observe()
		s.emit(tag, inst)
	}
	// random interleavings over k0/k1 (key a), k2 (the other key) and public-key objects derived from them
	for it := 0; it < g.budget(2, 12); it++ {
		setup()
		s.add("ks,k2,%s", s.buf(w.other.sk))
		s.add("ps,pother,%s", s.buf(w.other.pkb))
		type pobj struct {
			name  string
			of    int // 0: key a, 1: other key, -1: unspecified (a refused write happened)
		}
		var ps []pobj
		n := 4 + g.rng.intn(5)
		for c := 0; c < n; c++ {
			switch r := g.rng.intn(6); {
			case r == 0 || len(ps) == 0:
				nm := "q" + strconv.Itoa(len(ps))
				if g.rng.coin() {
					s.add("kp,%s,k0", nm)
					ps = append(ps, pobj{nm, 0})
				} else {
					s.add("kf,%s,k2", nm)
					ps = append(ps, pobj{nm, 1})
				}
			case r == 1:
				src := ps[g.rng.intn(len(ps))]
				nm := "q" + strconv.Itoa(len(ps))
				s.add("pc,%s,%s", nm, src.name)
				ps = append(ps, pobj{nm, src.of})
			case r == 2:
				i := g.rng.intn(len(ps))
				if g.rng.coin() {
					s.add("ps,%s,%s", ps[i].name, s.buf(w.other.pkb))
					ps[i].of = 1
				} else {
					s.add("ps,%s,%s", ps[i].name, s.buf(a.pkb))
					ps[i].of = 0
				}
			case r == 3:
				i := g.rng.intn(len(ps))
				s.add("ps,%s,%s", ps[i].name, s.buf(w.badPK[g.rng.intn(len(w.badPK))]))
				ps[i].of = -1
			case r == 4:
				i := g.rng.intn(len(ps))
				if ps[i].of >= 0 {
					b := s.fresh()
					s.add("pb,%s,%s", b, ps[i].name)
					s.add("bx,%s", b)
					s.add("eq,%s,pref", ps[i].name)
					s.add("eq,pother,%s", ps[i].name)
				}
			default:
				s.add("hn,hq,sha256")
				r := s.sign("k0", a, "hq", "sha256", s.msg("sha256"))
				for _, p := range ps {
					if p.of >= 0 {
						s.verifyRef(p.name, r, "hq")
					}
				}
			}
		}
		observe()
		s.add("kb,%s,k2", s.fresh())
		s.emit(tag, inst)
	}
}

// hasher-state histories: one hash.Hash object per script
func genScrHasher(s *scrGen, tag, inst string, a, other scrKey, hasRecover bool) {
	g := s.g
	for _, kind := range []string{"sha256", "mimc"} {
		setup := func() {
			s.add("ks,k0,%s", s.buf(a.sk))
			s.add("ps,p0,%s", s.buf(a.pkb))
			s.add("ks,k1,%s", s.buf(other.sk))
			s.add("ps,p1,%s", s.buf(other.pkb))
			s.add("hn,h,%s", kind)
		}
		dirty := func() {
			n := 1 + g.rng.intn(3)
			for i := 0; i < n; i++ {
				s.add("hw,h,%s", s.buf(s.msg(kind)))
			}
		}
		// atoms on the shared hasher
		S := func() sigRef { return s.sign("k0", a, "h", kind, s.msg(kind)) }
		V := func(r sigRef) { s.verifyRef("p0", r, "h") }
		// an honest signature made with a hasher of its own, for scripts that start with Verify
		pre := func() sigRef {
			s.add("hn,hp,%s", kind)
			return s.sign("k0", a, "hp", kind, s.msg(kind))
		}
		// Verify of a well-formed signature for ANOTHER message / under ANOTHER key: the verdict is 0 and the hasher has absorbed
		// other data than the honest challenge
		Vwrong := func(r sigRef) {
			m2 := s.msg(kind)
			oin, oout := s.oracle(kind, s.writes(a, r.nonce, m2))
			s.add("vf,p0,%s,%s,h,%s,%s", r.sb, s.buf(m2), oin, oout)
			oin, oout = s.oracle(kind, s.writes(other, r.nonce, r.msg))
			s.add("vf,p1,%s,%s,h,%s,%s", r.sb, r.mb, oin, oout)
		}
		// 1. dirty hasher, then Sign, then Verify
		setup()
		dirty()
		V(S())
		s.emit(tag, inst)
		// 2. dirty hasher, then Verify
		setup()
		r0 := pre()
		dirty()
		V(r0)
		s.emit(tag, inst)
		// 3. every ordered pair / triple of Sign and Verify on one hasher
		setup()
		r1 := pre()
		V(r1)
		r2 := S() // Verify → Sign
		V(r2)     // Sign → Verify
		V(r1)     // Verify → Verify
		r3 := S()
		r4 := S() // Sign → Sign
		V(r3)
		V(r4)
		s.emit(tag, inst)
		// 4. Sum between the calls, a refused / failed verification in between, more writes in between
		setup()
		r5 := pre()
		V(r5)
		s.add("hs,h")
		r6 := S()
		Vwrong(r6)
		r7 := S()
		dirty()
		V(r7)
		dirty()
		s.add("hs,h")
		V(S())
		s.emit(tag, inst)
		// 5. two signers and two verifiers sharing the hasher
		setup()
		ro := s.sign("k1", other, "h", kind, s.msg(kind))
		r8 := S()
		s.verifyRef("p1", ro, "h")
		V(r8)
		s.emit(tag, inst)
		// 6. SignForRecover on a used hasher
		if hasRecover {
			setup()
			r9 := pre()
			V(r9)
			s.signRecover("k0", a, "h", kind, s.msg(kind))
			dirty()
			s.signRecover("k0", a, "h", kind, s.msg(kind))
			V(S())
			s.emit(tag, inst)
		}
		// random sequences
		for it := 0; it < g.budget(1, 8); it++ {
			setup()
			refs := []sigRef{pre()}
			n := 3 + g.rng.intn(5)
			for c := 0; c < n; c++ {
				switch g.rng.intn(5) {
				case 0:
					dirty()
				case 1:
					s.add("hs,h")
				case 2, 3:
					refs = append(refs, S())
				default:
					V(refs[g.rng.intn(len(refs))])
				}
			}
			V(refs[len(refs)-1])
			s.emit(tag, inst)
		}
	}
}

// ---------------------------------------------------------------------------------------------------------------
// EdDSA instantiation

func edNonce(sk []byte, size int, msg []byte) *big.Int {
	h := blake2b.Sum512(cat(sk[2*size:2*size+32], msg))
	return new(big.Int).SetBytes(h[:size])
}

func genEdHist(g *gen, e *edAPI, p edParams, sk []byte) {
	size := p.size
	sk2, err := e.genKey(rngReader{g.rng})
	if err != nil {
		panic(err)
	}
	a, other := scrKey{sk, sk[:size]}, scrKey{sk2, sk2[:size]}
	s := &scrGen{g: g, mimc: e.mimc, mimcSize: e.mimcSize, mimcQ: e.mimcQ}
	s.nonce = func(k scrKey, msg []byte) string { return hexBig(edNonce(k.sk, size, msg)) }
	s.writes = func(k scrKey, nonce string, msg []byte) [][]byte {
		_, ax, ay, _, err := e.skSetBytes(k.sk)
		if err != nil {
			panic(err)
		}
		rx, ry := e.smul(p.bx, p.by, parseBig(nonce))
		return [][]byte{beBytes(rx, size), beBytes(ry, size), beBytes(ax, size), beBytes(ay, size), msg}
	}
	// refused public keys: ordinates with no abscissa (off the curve), found by trial with the library's decoder
	var bad [][]byte
	for tries := 0; len(bad) < 2 && tries < 200; tries++ {
		b := reverse(beBytes(g.rng.bigBelow(p.q), size))
		if g.rng.coin() {
			b[size-1] |= 0x80
		}
		if _, _, _, _, err := e.pkSetBytes(b); err != nil {
			bad = append(bad, b)
		}
	}
	if len(bad) == 0 {
		panic("c12: no off-curve ordinate found")
	}
	var badSK [][]byte
	for _, b := range bad {
		badSK = append(badSK, cat(b, sk2[size:]))
	}
	w := scrWrites{other: other, badPK: bad, shortPK: other.pkb[:size-1], badSK: badSK}
	genScrAlias(s, "EDSCR", e.name, a, w, false, nil)
	genScrHasher(s, "EDSCR", e.name, a, other, false)
}

// ---------------------------------------------------------------------------------------------------------------
// ECDSA instantiation

func genEcHist(g *gen, e *ecAPI, p ecParams, sk []byte) {
	fb := p.frBytes
	pksz := len(sk) - fb
	sk2, err := e.genKey(rngReader{g.rng})
	if err != nil {
		panic(err)
	}
	a, other := scrKey{sk, sk[:pksz]}, scrKey{sk2, sk2[:pksz]}
	s := &scrGen{g: g, ec: true, mimc: e.mimc, mimcSize: e.mimcSize, mimcQ: e.mimcQ}
	s.nonce = func(k scrKey, msg []byte) string {
		ent := g.rng.bytes(32)
		return hexBytes(ent) + "/" + hexBig(ecNonce(k.sk[pksz:], ent, msg, p.frBits, p.n))
	}
	s.writes = func(k scrKey, nonce string, msg []byte) [][]byte { return [][]byte{msg} }
	// refused public keys of full length: found by trial with the library's decoder among random abscissas / coordinates, plus
	// the encodings of the point at infinity and (flag curves) the invalid flag
	var bad [][]byte
	for tries := 0; len(bad) < 2 && tries < 400; tries++ {
		var b []byte
		if p.maskKind == 0 {
			b = cat(beBytes(g.rng.bigBelow(p.p), p.fpBytes), beBytes(g.rng.bigBelow(p.p), p.fpBytes))
		} else {
			b = beBytes(g.rng.bigBelow(p.p), pksz)
			b[0] = b[0]&(0xff>>uint(p.maskKind)) | 0x80
		}
		if _, _, _, _, err := e.pkSetBytes(b); err != nil {
			bad = append(bad, b)
		}
	}
	if p.maskKind == 0 {
		bad = append(bad, make([]byte, pksz)) // (0,0): infinity
	} else {
		z := make([]byte, pksz)
		z[0] = 0x40
		if p.maskKind == 3 {
			z[0] = 0xc0
		}
		bad = append(bad, z) // compressed infinity: decoded, then refused as a key
		z2 := append([]byte{}, other.pkb...)
		if p.maskKind == 3 {
			z2[0] = z2[0]&0x1f | 0xe0 // invalid flag
			bad = append(bad, z2)
		}
	}
	var badSK [][]byte
	for i := 0; i < 2 && i < len(bad); i++ {
		badSK = append(badSK, cat(bad[i], sk2[pksz:]))
	}
	w := scrWrites{other: other, badPK: bad, shortPK: other.pkb[:pksz-1], badSK: badSK}
	hasRec := e.obj.recoverFrom != nil
	recArgs := func() ([]byte, uint, *big.Int, *big.Int) {
		d := g.rng.bytes(32)
		switch g.rng.intn(3) {
		case 0: // refused: s out of range
			return d, 0, g.rng.bigBelow(p.n), new(big.Int).Set(p.n)
		case 1: // refused: r out of range
			return d, 1, big.NewInt(0), g.rng.bigBelow(p.n)
		}
		// random (r, s): half of the abscissas have no ordinate (refused), the others recover some key (accepted)
		return d, uint(g.rng.intn(2)), new(big.Int).Add(g.rng.bigBelow(new(big.Int).Sub(p.n, big.NewInt(1))), big.NewInt(1)),
			new(big.Int).Add(g.rng.bigBelow(new(big.Int).Sub(p.n, big.NewInt(1))), big.NewInt(1))
	}
	genScrAlias(s, "ECSCR", e.name, a, w, hasRec, recArgs)
	genScrHasher(s, "ECSCR", e.name, a, other, e.obj.signForRecover != nil)
}

// ---------------------------------------------------------------------------------------------------------------
// related signatures

func genEdRelated(g *gen, e *edAPI, p edParams, sk []byte) {
	size := p.size
	_, ax, ay, _, err := e.skSetBytes(sk)
	if err != nil {
		panic(err)
	}
	scalar := new(big.Int).SetBytes(sk[size : 2*size])
	neg := func(v *big.Int) *big.Int { return new(big.Int).Mod(new(big.Int).Neg(v), p.q) }
	for _, hn := range []string{"sha256", "mimc"} {
		var msg []byte
		if hn == "mimc" {
			msg = c12Msg(g, e.mimcSize, true, e.mimcSize, e.mimcQ)
		} else {
			msg = g.rng.bytes(g.rng.intn(50))
		}
		r := edNonce(sk, size, msg)
		rx, ry := e.smul(p.bx, p.by, r)
		chal := func(x, y *big.Int) *big.Int {
			h := c12Hash(hn, e.mimc)
			for _, w := range [][]byte{beBytes(x, size), beBytes(y, size), beBytes(ax, size), beBytes(ay, size), msg} {
				if _, err := h.Write(w); err != nil {
					panic(err)
				}
			}
			return new(big.Int).SetBytes(h.Sum(nil))
		}
		solve := func(rs int64, h *big.Int) *big.Int { // ±r + h·a mod ℓ
			v := new(big.Int).Mul(h, scalar)
			v.Add(v, new(big.Int).Mul(big.NewInt(rs), r))
			return v.Mod(v, p.order)
		}
		h0 := chal(rx, ry)
		type rv struct {
			x, y *big.Int
			rs   int64
		}
		// R, −R, R + T, −(R + T) with T = (0, −1) of order two
		vars := []rv{{rx, ry, 1}, {neg(rx), ry, -1}, {neg(rx), neg(ry), 1}, {rx, neg(ry), -1}}
		for vi, v := range vars {
			rb := e.compress(v.x, v.y)
			sc := solve(v.rs, chal(v.x, v.y)) // satisfies the cofactored equation for this R
			s0 := solve(1, h0)                // the honest S
			cands := []*big.Int{sc, new(big.Int).Sub(p.order, sc), new(big.Int).Add(sc, p.order)}
			if vi > 0 {
				cands = append(cands, s0, new(big.Int).Sub(p.order, s0))
			}
			if g.thorough() {
				cands = append(cands, new(big.Int).Sub(new(big.Int).Lsh(p.order, 1), sc), new(big.Int).Add(sc, big.NewInt(1)),
					new(big.Int).Mod(new(big.Int).Lsh(sc, 1), p.order))
			}
			for _, c := range cands {
				if c.Sign() <= 0 || c.BitLen() > 8*size {
					continue
				}
				e.emitV(g, hn, ax, ay, cat(rb, beBytes(c, size)), msg)
			}
		}
		// the honest signature under −A and under A + T
		sig := cat(e.compress(rx, ry), beBytes(solve(1, h0), size))
		e.emitV(g, hn, neg(ax), ay, sig, msg)
		e.emitV(g, hn, neg(ax), neg(ay), sig, msg)
	}
}

func genEcRelated(g *gen, e *ecAPI, p ecParams, sk []byte, qx, qy *big.Int) {
	fb := p.frBytes
	for _, hn := range []string{"sha256", "mimc", "nil"} {
		var msg []byte
		switch hn {
		case "mimc":
			msg = c12Msg(g, e.mimcSize, true, e.mimcSize, e.mimcQ)
		case "nil":
			msg = g.rng.bytes(fb)
		default:
			msg = g.rng.bytes(g.rng.intn(50))
		}
		sig, err := e.sign(sk, msg, c12Hash(hn, e.mimc))
		if err != nil {
			panic(err)
		}
		R, S := new(big.Int).SetBytes(sig[:fb]), new(big.Int).SetBytes(sig[fb:])
		nR, nS := new(big.Int).Sub(p.n, R), new(big.Int).Sub(p.n, S)
		nqy := new(big.Int).Mod(new(big.Int).Neg(qy), p.p)
		for _, c := range [][2]*big.Int{{R, S}, {R, nS}, {nR, S}, {nR, nS}, {R, new(big.Int).Add(S, p.n)}, {new(big.Int).Add(R, p.n), S},
			{R, new(big.Int).Add(nS, p.n)}, {S, R}, {nS, R}} {
			if c[0].BitLen() > 8*fb || c[1].BitLen() > 8*fb {
				continue
			}
			cand := cat(beBytes(c[0], fb), beBytes(c[1], fb))
			e.emitV(g, hn, qx, qy, cand, msg)
			e.emitV(g, hn, qx, nqy, cand, msg) // under −Q
		}
		if hn == "nil" {
			// the digest −e mod n (with (r, s) and the twins): [−e/s]G + [r/s]Q is not ±R in general
			ev := e.hashToInt(msg)
			ne := new(big.Int).Mod(new(big.Int).Neg(ev), p.n)
			d2 := beBytes(ne, fb)
			if e.hashToInt(d2).Cmp(ne) == 0 {
				e.emitV(g, hn, qx, qy, sig, d2)
				e.emitV(g, hn, qx, nqy, sig, d2) // (−e, −Q): the verification point is −R, same abscissa: this one verifies
				e.emitV(g, hn, qx, nqy, cat(beBytes(R, fb), beBytes(nS, fb)), d2)
			}
		}
	}
}

var _ io.Reader = rngReader{}
var _ = sha256.New
