//go:build verif

package main

// C06: the exported slice functions of ecc/<curve>/internal/fptower (BatchInvertE*, BatchCompressTorus,
// BatchDecompressTorus, BatchDecompressKarabina), reachable only with the overlay of hooks/mkoverlay_c06.py.

import (
	bls12377 "github.com/consensys/gnark-crypto/ecc/bls12-377"
	bls12381 "github.com/consensys/gnark-crypto/ecc/bls12-381"
	bls24315 "github.com/consensys/gnark-crypto/ecc/bls24-315"
	bls24317 "github.com/consensys/gnark-crypto/ecc/bls24-317"
	"github.com/consensys/gnark-crypto/ecc/bn254"
	bw6633 "github.com/consensys/gnark-crypto/ecc/bw6-633"
	bw6761 "github.com/consensys/gnark-crypto/ecc/bw6-761"
)

func init() {
	c06Funcs["bn254"] = bn254.VerifTowerFuncs
	c06Funcs["bls12_381"] = bls12381.VerifTowerFuncs
	c06Funcs["bls12_377"] = bls12377.VerifTowerFuncs
	c06Funcs["bls24_315"] = bls24315.VerifTowerFuncs
	c06Funcs["bls24_317"] = bls24317.VerifTowerFuncs
	c06Funcs["bw6_761"] = bw6761.VerifTowerFuncs
	c06Funcs["bw6_633"] = bw6633.VerifTowerFuncs
}
