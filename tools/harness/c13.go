package main

// C13 — hash-to-field / hash-to-curve (RFC 9380): correspondence harness.
//
//	C13 xmd <msg> <dst> <len>                                   hash.ExpandMsgXmd
//	C13 h2f <field> <msg> <dst> <count>                         <field>.Hash (all 23 packages), regular values
//	C13 h2fhist <field> <dst>[/mut] <tok…> [| <tok…>]…           call histories on hash_to_field.New(dst) (c13_hist.go)
//	C13 map  <curve> <g1|g2> <tower> <p> <a> <b> <r> <u> <P>     MapToG<i>(u): P was computed at generation time; the executor
//	                                                            recomputes it (determinism), asks the library predicates and
//	                                                            checks the RFC sign convention on MapToCurve<i>(u)
//	C13 mapc <curve> <grp> <tower> <p> <a'> <b'> <svdw|sswu> <Z> <u> <Q>   MapToCurve<i>(u) = Q (before isogeny / cofactor clearing):
//	                                                            determinism, Q on y² = x³+a'x+b', sgn0(y) = sgn0(u), and for SSWU
//	                                                            x(Q) ∈ {x1(u), Z·u²·x1(u)}; u from the limb-boundary lattice
//	C13 enc|hash <curve> <grp> <tower> <p> <a> <b> <r> <msg> <dst> <P>   EncodeToG<i> / HashToG<i>, plus fp.Hash(msg,dst,m|2m)
//	C13 distinct <curve> <grp> <u1> <u2>                        X(MapToCurve(u1)) ≠ X(MapToCurve(u2)) (statistical test)
//	C13 svdw <curve> <u>                                        MapToCurve1(u) of the F_p SvdW curves, exact point
//	C13 rfc <suite> <msg> <dst> <P>                             RFC 9380 appendix J vectors (tests)
//	C13 rfcu <field> <msg> <dst> <count> <u…>                   RFC 9380 hash_to_field vectors (tests)
//	C13 rfcx <msg> <dst> <len> <bytes>                          RFC 9380 appendix K.1 expand_message_xmd vectors (tests)
//
// The Lean side answers validity lines with `1 1 1 …` computed on the point of the line with its own curve arithmetic.

import (
	"fmt"
	"math/big"
	"os"
	"reflect"
	"strings"

	fhash "github.com/consensys/gnark-crypto/field/hash"
)

// ---------- reflection helpers: an element is a tree of structs whose leaves are fp.Element arrays ----------

func c13leaves(v reflect.Value, out *[]reflect.Value) {
	if v.Kind() == reflect.Struct {
		for i := 0; i < v.NumField(); i++ {
			c13leaves(v.Field(i), out)
		}
		return
	}
	*out = append(*out, v.Addr())
}

// regular (non Montgomery) coordinates, in declaration order
func c13coords(ptr any) []*big.Int {
	var ls []reflect.Value
	c13leaves(reflect.ValueOf(ptr).Elem(), &ls)
	res := make([]*big.Int, len(ls))
	for i, l := range ls {
		r := l.MethodByName("BigInt").Call([]reflect.Value{reflect.ValueOf(new(big.Int))})
		res[i] = r[0].Interface().(*big.Int)
	}
	return res
}

func c13set(ptr any, cs []*big.Int) {
	var ls []reflect.Value
	c13leaves(reflect.ValueOf(ptr).Elem(), &ls)
	for i, l := range ls {
		v := new(big.Int)
		if i < len(cs) {
			v.Set(cs[i])
		}
		l.MethodByName("SetBigInt").Call([]reflect.Value{reflect.ValueOf(v)})
	}
}

func c13list(cs []*big.Int) string {
	s := make([]string, len(cs))
	for i, c := range cs {
		s[i] = hexBig(c)
	}
	if len(s) == 0 {
		return "-"
	}
	return strings.Join(s, ",")
}

func c13parseList(s string) []*big.Int {
	if s == "-" {
		return nil
	}
	var r []*big.Int
	for _, w := range strings.Split(s, ",") {
		r = append(r, parseBig(w))
	}
	return r
}

// RFC 9380 §4.1 sgn0 for an element of F_p^m given by its coordinates
func c13sgn0(cs []*big.Int) uint {
	sign, zero := uint(0), uint(1)
	for _, c := range cs {
		si := c.Bit(0)
		zi := uint(0)
		if c.Sign() == 0 {
			zi = 1
		}
		sign = sign | (zero & si)
		zero = zero & zi
	}
	return sign
}

// ---------- generic group adapter ----------

type c13Fld[E any] interface {
	*E
	Mul(a, b *E) *E
	Square(a *E) *E
	Add(a, b *E) *E
	Sub(a, b *E) *E
	Neg(a *E) *E
	Inverse(a *E) *E
	Sqrt(a *E) *E
	Legendre() int
	IsZero() bool
	Equal(a *E) bool
}

type c13Pt[A any] interface {
	*A
	IsOnCurve() bool
	IsInSubGroup() bool
	IsInfinity() bool
}

type c13Group struct {
	curve, grp, params string
	m                  int
	p                  *big.Int
	mapTo              func(u []*big.Int) (pt string, on, sub, sgn bool)
	mapToCurve         func(u []*big.Int) string
	enc, hash          func(msg, dst []byte) (pt string, on, sub bool, err error)
	fpHash             func(msg, dst []byte, n int) ([]*big.Int, error)
	special            func() [][]*big.Int
	// (c13_lattice.go) curve MapToCurve lands on + kind + Z; MapToCurve(u) with the harness-side checks; preimages of tv2
	cparams string
	mapC    func(u []*big.Int) (pt string, on, sgn, xin bool)
	tv2pre  func(c []*big.Int) [][]*big.Int
}

var c13Groups = map[string]*c13Group{}
var c13GroupOrder []string

func c13deref[E, A any](f func(*E) A) func(E) A { return func(u E) A { return f(&u) } }

func c13int(v int64, p *big.Int) *big.Int {
	x := big.NewInt(v)
	return x.Mod(x, p)
}

// kind "svdw": zc = coordinates of Z (small integers); kind "sswu": zf, iso from the hash_to_curve package
func c13Reg[E any, PE c13Fld[E], A any, PA c13Pt[A]](curve, grp string, p, r *big.Int, aInt int64, gen A,
	mapToG, mapToCurve func(E) A, enc, hash func(msg, dst []byte) (A, error),
	fpHash func(msg, dst []byte, n int) ([]*big.Int, error),
	kind string, zc []int64, zf func() E, iso func() (E, E), isoMap func() [4][]E) {

	var e0 E
	m := len(c13coords(&e0))
	mk := func(cs ...int64) E {
		var e E
		b := make([]*big.Int, len(cs))
		for i, c := range cs {
			b[i] = c13int(c, p)
		}
		c13set(&e, b)
		return e
	}
	ptStr := func(P *A) string {
		if PA(P).IsInfinity() {
			return "inf"
		}
		cs := c13coords(P)
		return c13list(cs[:m]) + ";" + c13list(cs[m:])
	}
	xy := func(P *A) (x, y E) {
		cs := c13coords(P)
		c13set(&x, cs[:m])
		c13set(&y, cs[m:])
		return
	}
	// curve coefficients: a small integer, b = y² − x³ − a·x from the generator
	aE := mk(aInt)
	gx, gy := xy(&gen)
	var bE, t E
	PE(&t).Square(&gx)
	PE(&t).Add(&t, &aE)
	PE(&t).Mul(&t, &gx)
	PE(&bE).Square(&gy)
	PE(&bE).Sub(&bE, &t)
	tower := "1"
	switch m {
	case 2:
		u := mk(0, 1)
		PE(&u).Square(&u)
		tower = "2:" + hexBig(c13coords(&u)[0])
	case 4:
		u := mk(0, 1, 0, 0)
		PE(&u).Square(&u)
		v := mk(0, 0, 1, 0)
		PE(&v).Square(&v)
		vc := c13coords(&v)
		tower = "4:" + hexBig(c13coords(&u)[0]) + ":" + hexBig(vc[0]) + "," + hexBig(vc[1])
	}
	g := &c13Group{curve: curve, grp: grp, m: m, p: p, fpHash: fpHash}
	g.params = tower + " " + hexBig(p) + " " + c13list(c13coords(&aE)) + " " + c13list(c13coords(&bE)) + " " + hexBig(r)
	g.mapTo = func(uc []*big.Int) (string, bool, bool, bool) {
		var u E
		c13set(&u, uc)
		P := mapToG(u)
		Q := mapToCurve(u)
		qc := c13coords(&Q)
		yZero := true
		for _, c := range qc[m:] {
			yZero = yZero && c.Sign() == 0
		}
		// RFC: y = CMOV(-y, y, sgn0(u) == sgn0(y)); a point with y = 0 keeps sgn0(y) = 0
		return ptStr(&P), PA(&P).IsOnCurve(), PA(&P).IsInSubGroup(), yZero || c13sgn0(c13coords(&u)) == c13sgn0(qc[m:])
	}
	g.mapToCurve = func(uc []*big.Int) string {
		var u E
		c13set(&u, uc)
		Q := mapToCurve(u)
		return ptStr(&Q)
	}
	wrap := func(f func(msg, dst []byte) (A, error)) func(msg, dst []byte) (string, bool, bool, error) {
		return func(msg, dst []byte) (string, bool, bool, error) {
			P, err := f(msg, dst)
			if err != nil {
				return "", false, false, err
			}
			return ptStr(&P), PA(&P).IsOnCurve(), PA(&P).IsInSubGroup(), nil
		}
	}
	g.enc, g.hash = wrap(enc), wrap(hash)
	g.special = func() [][]*big.Int {
		var res [][]*big.Int
		add := func(s *E, check func(x *E) bool) {
			// both roots of u² = s when s is a non-zero square
			if PE(s).IsZero() || PE(s).Legendre() != 1 {
				return
			}
			var u, nu E
			PE(&u).Sqrt(s)
			PE(&nu).Neg(&u)
			for _, w := range []*E{&u, &nu} {
				Q := mapToCurve(*w)
				x, _ := xy(&Q)
				if !check(&x) {
					fmt.Fprintf(os.Stderr, "c13: %s %s: input %s expected to be exceptional is not (constants of the harness out of date?)\n", curve, grp, c13list(c13coords(w)))
				}
				res = append(res, c13coords(w))
			}
		}
		switch kind {
		case "svdw":
			// tv1·tv2 = (1 − u²g(Z))(1 + u²g(Z)) = 0  ⇔  u² = ±1/g(Z); then x ∈ {−Z/2, Z}
			z := mk(zc...)
			var gz, s, ns, mz2, two E
			PE(&gz).Square(&z)
			PE(&gz).Add(&gz, &aE)
			PE(&gz).Mul(&gz, &z)
			PE(&gz).Add(&gz, &bE)
			PE(&s).Inverse(&gz)
			PE(&ns).Neg(&s)
			two = mk(2)
			PE(&mz2).Inverse(&two)
			PE(&mz2).Mul(&mz2, &z)
			PE(&mz2).Neg(&mz2)
			if os.Getenv("GV_C13_DEBUG") != "" {
				fmt.Fprintf(os.Stderr, "c13 debug %s %s: b=%s g(Z)=%s\n", curve, grp, c13list(c13coords(&bE)), c13list(c13coords(&gz)))
			}
			chk := func(x *E) bool { return PE(x).Equal(&z) || PE(x).Equal(&mz2) }
			add(&s, chk)
			add(&ns, chk)
		case "sswu":
			// tv2 = Z²u⁴ + Zu² = 0  ⇔  u = 0 or u² = −1/Z; then x1 = B'/(Z·A') on the isogenous curve, which is only
			// valid when g(B'/(Z·A')) is a square (criterion 4 of find_z_sswu); otherwise the code falls to x2 = −x1
			z := zf()
			a1, b1 := iso()
			var s E
			PE(&s).Inverse(&z)
			PE(&s).Neg(&s)
			add(&s, func(x *E) bool {
				var t, nb E
				PE(&t).Mul(x, &z)
				PE(&t).Mul(&t, &a1)
				PE(&nb).Neg(&b1)
				return PE(&t).Equal(&b1) || PE(&t).Equal(&nb)
			})
			// preimages of the kernel of a 2-isogeny (x-denominator x + d): x1(u) = −d with g'(x1) = 0, i.e.
			// t² + t = c, c = 1/(d·A'/B' − 1), t = Z·u²
			if xd := isoMap()[1]; len(xd) == 1 {
				one, two := mk(1), mk(2)
				var c, disc, sq, t, u2, zi, ti E
				PE(&c).Inverse(&b1)
				PE(&c).Mul(&c, &a1)
				PE(&c).Mul(&c, &xd[0])
				PE(&c).Sub(&c, &one)
				PE(&c).Inverse(&c)
				PE(&disc).Add(&c, &c)
				PE(&disc).Add(&disc, &disc)
				PE(&disc).Add(&disc, &one)
				if PE(&disc).Legendre() == 1 {
					PE(&sq).Sqrt(&disc)
					PE(&zi).Inverse(&z)
					PE(&ti).Inverse(&two)
					for k := 0; k < 2; k++ {
						PE(&t).Sub(&sq, &one)
						PE(&t).Mul(&t, &ti)
						PE(&u2).Mul(&t, &zi)
						// (whether the kernel abscissa is actually hit depends on the curve: no warning here)
						add(&u2, func(x *E) bool { return true })
						PE(&sq).Neg(&sq)
					}
				}
			}
		}
		return res
	}
	c13RegLattice[E, PE, A, PA](g, tower, kind, aE, bE, mk(zc...), mapToCurve, zf, iso)
	key := curve + " " + grp
	c13Groups[key] = g
	c13GroupOrder = append(c13GroupOrder, key)
}

// ---------- the 23 Hash functions ----------

func c13H[T any, PT interface {
	*T
	BigInt(*big.Int) *big.Int
}](h func(msg, dst []byte, count int) ([]T, error)) func([]byte, []byte, int) ([]*big.Int, error) {
	return func(msg, dst []byte, count int) ([]*big.Int, error) {
		es, err := h(msg, dst, count)
		if err != nil {
			return nil, err
		}
		if len(es) != count {
			return nil, fmt.Errorf("wrong-count:%d", len(es))
		}
		res := make([]*big.Int, len(es))
		for i := range es {
			res[i] = PT(&es[i]).BigInt(new(big.Int))
		}
		return res, nil
	}
}

func c13err(err error) string {
	s := err.Error()
	switch {
	case strings.Contains(s, "lenInBytes"):
		return "err:len"
	case strings.Contains(s, "domain size"):
		return "err:dst"
	}
	return "err:other:" + strings.ReplaceAll(s, " ", "_")
}

func c13showElts(es []*big.Int, err error) string {
	if err != nil {
		return c13err(err)
	}
	return "ok " + c13list(es)
}

// ---------- executors ----------

func c13flags(bs ...bool) string {
	s := make([]string, len(bs))
	for i, b := range bs {
		s[i] = boolStr(b)
	}
	return strings.Join(s, " ")
}

func c13Exec(a []string) string {
	if len(a) == 0 {
		return "bad-op"
	}
	switch a[0] {
	case "h2fhist":
		return c13ExecHist(a[1:])
	case "h2fcover":
		return "missing-adapter"
	case "xmd", "rfcx":
		if len(a) < 4 {
			return "bad-op"
		}
		n := parseBig(a[3])
		res, err := fhash.ExpandMsgXmd(parseBytes(a[1]), parseBytes(a[2]), int(n.Int64()))
		if err != nil {
			return c13err(err)
		}
		return "ok " + hexBytes(res)
	case "h2f", "rfcu":
		if len(a) < 5 {
			return "bad-op"
		}
		h, ok := c13Hash[a[1]]
		if !ok {
			return "bad-op"
		}
		return c13showElts(h(parseBytes(a[2]), parseBytes(a[3]), int(parseBig(a[4]).Int64())))
	case "map":
		if len(a) != 10 {
			return "bad-op"
		}
		g, ok := c13Groups[a[1]+" "+a[2]]
		if !ok {
			return "bad-op"
		}
		pt, on, sub, sgn := g.mapTo(c13parseList(a[8]))
		pt2, _, _, _ := g.mapTo(c13parseList(a[8]))
		return c13flags(pt == a[9] && pt2 == pt, on, sub, sgn)
	case "mapc":
		if len(a) != 11 {
			return "bad-op"
		}
		g, ok := c13Groups[a[1]+" "+a[2]]
		if !ok {
			return "bad-op"
		}
		pt, on, sgn, xin := g.mapC(c13parseList(a[9]))
		pt2, _, _, _ := g.mapC(c13parseList(a[9]))
		return c13flags(pt == a[10] && pt2 == pt, on, sgn, xin)
	case "enc", "hash":
		if len(a) != 11 {
			return "bad-op"
		}
		g, ok := c13Groups[a[1]+" "+a[2]]
		if !ok {
			return "bad-op"
		}
		f, count := g.enc, g.m
		if a[0] == "hash" {
			f, count = g.hash, 2*g.m
		}
		msg, dst := parseBytes(a[8]), parseBytes(a[9])
		pt, on, sub, err := f(msg, dst)
		if err != nil {
			return c13err(err)
		}
		pt2, _, _, _ := f(msg, dst)
		return c13flags(pt == a[10] && pt2 == pt, on, sub) + " " + c13showElts(g.fpHash(msg, dst, count))
	case "distinct":
		// X(MapToCurve(u1)) ≠ X(MapToCurve(u2)) for u1 ≠ ±u2 (statistical test: the RFC maps are at most 4-to-1)
		if len(a) != 5 {
			return "bad-op"
		}
		g, ok := c13Groups[a[1]+" "+a[2]]
		if !ok {
			return "bad-op"
		}
		x1 := strings.Split(g.mapToCurve(c13parseList(a[3])), ";")[0]
		x2 := strings.Split(g.mapToCurve(c13parseList(a[4])), ";")[0]
		return boolStr(x1 != x2)
	case "svdw":
		if len(a) != 3 {
			return "bad-op"
		}
		g, ok := c13Groups[a[1]+" g1"]
		if !ok {
			return "bad-op"
		}
		return g.mapToCurve(c13parseList(a[2]))
	case "rfc":
		if len(a) != 5 {
			return "bad-op"
		}
		w := strings.Split(a[1], ":") // curve:grp:enc|hash
		if len(w) != 3 {
			return "bad-op"
		}
		g, ok := c13Groups[w[0]+" "+w[1]]
		if !ok {
			return "bad-op"
		}
		f := g.enc
		if w[2] == "hash" {
			f = g.hash
		}
		pt, _, _, err := f(parseBytes(a[2]), parseBytes(a[3]))
		if err != nil {
			return c13err(err)
		}
		return pt
	}
	return "bad-op"
}

// ---------- generator ----------

func c13pattern(r *rng, n int) []byte {
	b := r.bytes(n)
	return b
}

func c13Gen(g *gen) {
	msgLens := []int{0, 1, 31, 32, 33, 64, 100, 1000}
	dstLens := []int{0, 1, 16, 255, 256}
	if g.thorough() {
		msgLens = append(msgLens, 55, 56, 63, 119, 120, 4096)
		dstLens = append(dstLens, 2, 31, 32, 33, 64, 254, 257, 300, 1000)
	}
	msgs := make([][]byte, len(msgLens))
	for i, n := range msgLens {
		msgs[i] = c13pattern(g.rng, n)
	}
	dsts := make([][]byte, len(dstLens))
	for i, n := range dstLens {
		dsts[i] = c13pattern(g.rng, n)
	}
	// (a1) ExpandMsgXmd directly: boundary lattice of output lengths
	lens := []int{0, 1, 31, 32, 33, 63, 64, 65, 255 * 32, 255*32 + 1, 65535}
	if g.thorough() {
		lens = append(lens, 2, 16, 20, 24, 48, 96, 127, 128, 129, 1000, 254*32, 254*32+1, 255*32-1, 65536, 100000, 1<<20)
	}

	for _, n := range lens {
		for mi, m := range msgs {
			for di, d := range dsts {

				// the 8160-byte outputs cost 255 compressions on each side: a third of the combinations in quick
				if n >= 4096 && !g.thorough() && (mi+di)%3 != 0 {
					continue
				}
				g.emit("C13 xmd %s %s %x", hexBytes(m), hexBytes(d), n)
			}
		}
	}
	for i := 0; i < g.budget(40, 2000); i++ {
		n := g.rng.intn(300)
		if g.rng.intn(8) == 0 {
			n = g.rng.intn(9000)
		}
		dl := g.rng.intn(64)
		if g.rng.intn(6) == 0 {
			dl = 250 + g.rng.intn(10)
		}
		g.emit("C13 xmd %s %s %x", hexBytes(g.rng.bytes(g.rng.intn(200))), hexBytes(g.rng.bytes(dl)), n)
	}
	// (a2) Hash of all 23 field packages
	for _, f := range fieldNames {
		if _, ok := c13Hash[f]; !ok {
			continue
		}
		L := 16 + fields[f].Bytes()
		counts := []int{0, 1, 2, 3, 4}
		for _, c := range counts {
			for mi, m := range msgs {
				for di, d := range dsts {
					if !g.thorough() && c >= 2 && (mi+di+c)%4 != 0 {
						continue
					}
					g.emit("C13 h2f %s %s %s %x", f, hexBytes(m), hexBytes(d), c)
				}
			}
		}
		// largest admissible count and the first inadmissible one
		top := 8160 / L
		for _, c := range []int{top, top + 1, 65535/L + 1} {
			g.emit("C13 h2f %s %s %s %x", f, hexBytes(msgs[2]), hexBytes(dsts[2]), c)
		}
		for i := 0; i < g.budget(2, 40); i++ {
			g.emit("C13 h2f %s %s %s %x", f, hexBytes(g.rng.bytes(g.rng.intn(150))), hexBytes(g.rng.bytes(g.rng.intn(256))), g.rng.intn(7))
		}
	}
	// (a3) call histories on the hash.Hash wrappers of the 16 hash_to_field packages (c13_hist.go)
	c13GenHist(g)
	// (b) maps, encodings and hashes of every group
	for _, key := range c13GroupOrder {
		gr := c13Groups[key]
		embed := func(v int64) []*big.Int {
			u := make([]*big.Int, gr.m)
			for i := range u {
				u[i] = new(big.Int)
			}
			u[0] = c13int(v, gr.p)
			return u
		}
		us := [][]*big.Int{embed(0), embed(1), embed(-1), embed(2)}
		if gr.m > 1 {
			u := embed(0)
			u[1] = big.NewInt(1)
			us = append(us, u)
			u = embed(1)
			u[gr.m-1] = c13int(-1, gr.p)
			us = append(us, u)
		}
		us = append(us, gr.special()...)
		for i := 0; i < g.budget(2, 40); i++ {
			u := make([]*big.Int, gr.m)
			for j := range u {
				u[j] = g.rng.bigBelow(gr.p)
			}
			us = append(us, u)
		}
		for _, u := range us {
			pt, _, _, _ := gr.mapTo(u)
			g.emit("C13 map %s %s %s %s", key, gr.params, c13list(u), pt)
		}
		{
			// random pairs, plus the first collision among a few random inputs if there is one
			seen := map[string][]*big.Int{}
			found := false
			for i := 0; i < g.budget(24, 200); i++ {
				u := make([]*big.Int, gr.m)
				for j := range u {
					u[j] = g.rng.bigBelow(gr.p)
				}
				x := strings.Split(gr.mapToCurve(u), ";")[0]
				if v, ok := seen[x]; ok && !found {
					found = true
					g.emit("C13 distinct %s %s %s", key, c13list(v), c13list(u))
				}
				seen[x] = u
				if i < g.budget(4, 40) {
					w := make([]*big.Int, gr.m)
					for j := range w {
						w[j] = g.rng.bigBelow(gr.p)
					}
					g.emit("C13 distinct %s %s %s", key, c13list(u), c13list(w))
				}
			}
		}
		c13GenLattice(g, key, gr)
		for i := 0; i < g.budget(1, 12); i++ {
			msg := g.rng.bytes([]int{0, 3, 32, 100}[(i+len(key))%4])
			dst := g.rng.bytes([]int{16, 1, 255, 0, 43}[(i+len(key))%5])
			if pt, _, _, err := gr.enc(msg, dst); err == nil {
				g.emit("C13 enc %s %s %s %s %s", key, gr.params, hexBytes(msg), hexBytes(dst), pt)
			}
			if pt, _, _, err := gr.hash(msg, dst); err == nil {
				g.emit("C13 hash %s %s %s %s %s", key, gr.params, hexBytes(msg), hexBytes(dst), pt)
			}
		}
	}
	// (c) exact image of the F_p SvdW template
	for _, curve := range []string{"bn254", "grumpkin", "secp256k1", "stark-curve"} {
		gr := c13Groups[curve+" g1"]
		us := []*big.Int{big.NewInt(0), big.NewInt(1), c13int(-1, gr.p), big.NewInt(2), c13int(-2, gr.p), big.NewInt(3)}
		for _, s := range gr.special() {
			us = append(us, s[0])
		}
		for i := 0; i < g.budget(12, 300); i++ {
			us = append(us, g.rng.bigBelow(gr.p))
		}
		us = append(us, c13LatticeBoth(gr.p, g.rng)...) // limb-boundary lattice, regular and Montgomery shaped
		for _, u := range us {
			g.emit("C13 svdw %s %s", curve, hexBig(u))
		}
	}
	// (d) published vectors (tests)
	for _, l := range c13RFC {
		g.emit("C13 %s", l)
	}
}

func c13asc(s string) string { return hexBytes([]byte(s)) }

var c13RFC []string

func init() {
	executors["C13"] = c13Exec
	generators["C13"] = c13Gen

	// RFC 9380 K.1 expand_message_xmd(SHA-256)
	dx := c13asc("QUUX-V01-CS02-with-expander-SHA256-128")
	for _, v := range [][3]string{
		{"", "20", "68a985b87eb6b46952128911f2a4412bbc302a9d759667f87f7a21d803f07235"},
		{"abc", "20", "d8ccab23b5985ccea865c6c97b6e5b8350e794e603b4b97902f53a8a0d605615"},
		{"abcdef0123456789", "20", "eff31487c770a893cfb36f912fbfcbff40d5661771ca4b2cb4eafe524333f5c1"},
		{"", "80", "af84c27ccfd45d41914fdff5df25293e221afc53d8ad2ac06d5e3e29485dadbee0d121587713a3e0dd4d5e69e93eb7cd4f5df4cd103e188cf60cb02edc3edf18eda8576c412b18ffb658e3dd6ec849469b979d444cf7b26911a08e63cf31f9dcc541708d3491184472c2c29bb749d4286b004ceb5ee6b9a7fa5b646c993f0ced"},
		{"abc", "80", "abba86a6129e366fc877aab32fc4ffc70120d8996c88aee2fe4b32d6c7b6437a647e6c3163d40b76a73cf6a5674ef1d890f95b664ee0afa5359a5c4e07985635bbecbac65d747d3d2da7ec2b8221b17b0ca9dc8a1ac1c07ea6a1e60583e2cb00058e77b7b72a298425cd1b941ad4ec65e8afc50303a22c0f99b0509b4c895f40"},
	} {
		c13RFC = append(c13RFC, fmt.Sprintf("rfcx %s %s %s %s", c13asc(v[0]), dx, v[1], v[2]))
	}
	strip := func(s string) string {
		var out []string
		for _, w := range strings.Split(s, ",") {
			out = append(out, hexBig(parseBig(strings.TrimPrefix(w, "0x"))))
		}
		return strings.Join(out, ",")
	}
	// RFC 9380 J.9.1 / J.9.2 / J.10.1 / J.10.2 (BLS12-381) and J.8.1 (secp256k1)
	g1ro := c13asc("QUUX-V01-CS02-with-BLS12381G1_XMD:SHA-256_SSWU_RO_")
	g1nu := c13asc("QUUX-V01-CS02-with-BLS12381G1_XMD:SHA-256_SSWU_NU_")
	g2ro := c13asc("QUUX-V01-CS02-with-BLS12381G2_XMD:SHA-256_SSWU_RO_")
	g2nu := c13asc("QUUX-V01-CS02-with-BLS12381G2_XMD:SHA-256_SSWU_NU_")
	kro := c13asc("QUUX-V01-CS02-with-secp256k1_XMD:SHA-256_SSWU_RO_")
	pt := func(suite, msg, dst, x, y string) {
		c13RFC = append(c13RFC, fmt.Sprintf("rfc %s %s %s %s;%s", suite, c13asc(msg), dst, strip(x), strip(y)))
	}
	pt("bls12-381:g1:hash", "", g1ro, "052926add2207b76ca4fa57a8734416c8dc95e24501772c814278700eed6d1e4e8cf62d9c09db0fac349612b759e79a1", "08ba738453bfed09cb546dbb0783dbb3a5f1f566ed67bb6be0e8c67e2e81a4cc68ee29813bb7994998f3eae0c9c6a265")
	pt("bls12-381:g1:hash", "abc", g1ro, "03567bc5ef9c690c2ab2ecdf6a96ef1c139cc0b2f284dca0a9a7943388a49a3aee664ba5379a7655d3c68900be2f6903", "0b9c15f3fe6e5cf4211f346271d7b01c8f3b28be689c8429c85b67af215533311f0b8dfaaa154fa6b88176c229f2885d")
	pt("bls12-381:g1:enc", "", g1nu, "184bb665c37ff561a89ec2122dd343f20e0f4cbcaec84e3c3052ea81d1834e192c426074b02ed3dca4e7676ce4ce48ba", "04407b8d35af4dacc809927071fc0405218f1401a6d15af775810e4e460064bcc9468beeba82fdc751be70476c888bf3")
	pt("bls12-381:g1:enc", "abc", g1nu, "009769f3ab59bfd551d53a5f846b9984c59b97d6842b20a2c565baa167945e3d026a3755b6345df8ec7e6acb6868ae6d", "1532c00cf61aa3d0ce3e5aa20c3b531a2abd2c770a790a2613818303c6b830ffc0ecf6c357af3317b9575c567f11cd2c")
	pt("bls12-381:g2:hash", "", g2ro,
		"0141ebfbdca40eb85b87142e130ab689c673cf60f1a3e98d69335266f30d9b8d4ac44c1038e9dcdd5393faf5c41fb78a,05cb8437535e20ecffaef7752baddf98034139c38452458baeefab379ba13dff5bf5dd71b72418717047f5b0f37da03d",
		"0503921d7f6a12805e72940b963c0cf3471c7b2a524950ca195d11062ee75ec076daf2d4bc358c4b190c0c98064fdd92,12424ac32561493f3fe3c260708a12b7c620e7be00099a974e259ddc7d1f6395c3c811cdd19f1e8dbf3e9ecfdcbab8d6")
	pt("bls12-381:g2:hash", "abc", g2ro,
		"02c2d18e033b960562aae3cab37a27ce00d80ccd5ba4b7fe0e7a210245129dbec7780ccc7954725f4168aff2787776e6,139cddbccdc5e91b9623efd38c49f81a6f83f175e80b06fc374de9eb4b41dfe4ca3a230ed250fbe3a2acf73a41177fd8",
		"1787327b68159716a37440985269cf584bcb1e621d3a7202be6ea05c4cfe244aeb197642555a0645fb87bf7466b2ba48,00aa65dae3c8d732d10ecd2c50f8a1baf3001578f71c694e03866e9f3d49ac1e1ce70dd94a733534f106d4cec0eddd16")
	_ = g2nu
	// hash_to_field vectors: u values of the same suites (count 2; F_p² elements are consecutive pairs)
	c13RFC = append(c13RFC, fmt.Sprintf("rfcu bls12_381_fp %s %s 4 %s", c13asc(""), g2ro, strip(
		"03dbc2cce174e91ba93cbb08f26b917f98194a2ea08d1cce75b2b9cc9f21689d80bd79b594a613d0a68eb807dfdc1cf8,05a2acec64114845711a54199ea339abd125ba38253b70a92c876df10598bd1986b739cad67961eb94f7076511b3b39a,"+
			"02f99798e8a5acdeed60d7e18e9120521ba1f47ec090984662846bc825de191b5b7641148c0dbc237726a334473eee94,145a81e418d4010cc027a68f14391b30074e89e60ee7a22f87217b2f6eb0c4b94c9115b436e6fa4607e95a98de30a435")))
	c13RFC = append(c13RFC, fmt.Sprintf("rfcu bls12_381_fp %s %s 1 %s", c13asc(""), g1nu, strip("156c8a6a2c184569d69a76be144b5cdc5141d2d2ca4fe341f011e25e3969c55ad9e9b9ce2eb833c81a908e5fa4ac5f03")))
	c13RFC = append(c13RFC, fmt.Sprintf("rfcu bls12_381_fp %s %s 1 %s", c13asc("abc"), g1nu, strip("147e1ed29f06e4c5079b9d14fc89d2820d32419b990c1c7bb7dbea2a36a045124b31ffbde7c99329c05c559af1c6cc82")))
	c13RFC = append(c13RFC, fmt.Sprintf("rfcu secp256k1_fp %s %s 2 %s", c13asc(""), kro, strip(
		"6b0f9910dd2ba71c78f2ee9f04d73b5f4c5f7fc773a701abea1e573cab002fb3,1ae6c212e08fe1a5937f6202f929a2cc8ef4ee5b9782db68b0d5799fd8f09e16")))
	c13RFC = append(c13RFC, fmt.Sprintf("rfcu secp256k1_fp %s %s 2 %s", c13asc("abc"), kro, strip(
		"128aab5d3679a1f7601e3bdf94ced1f43e491f544767e18a4873f397b08a2b61,5897b65da3b595a813d0fdcc75c895dc531be76a03518b044daaa0f2e4689e00")))
	// the RFC suite for secp256k1 is SSWU + 3-isogeny; the library maps with SvdW, so this vector can not be reproduced (finding)
	pt("secp256k1:g1:hash", "", kro, "c1cae290e291aee617ebaef1be6d73861479c48b841eaba9b7b5852ddfeb1346", "64fa678e07ae116126f08b022a94af6de15985c996c3a91b64c406a960e51067")
}
