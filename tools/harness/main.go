// gvharness: correspondence harness (tie K). For each property it (a) generates op lines from one
// PRNG seeded by VERIF_SEED and (b) executes op lines on the real gnark-crypto code in-process.
// The same lines are answered by the Lean model driver; bin/check diffs the two output streams.
package main

import (
	"bufio"
	"flag"
	"fmt"
	"os"
	"strings"
	"time"
)

// an executor answers one op line (already split in words, without the property tag)
type executor func(args []string) string

// a generator emits op lines (with the property tag as first word)
type generator func(g *gen)

var executors = map[string]executor{}
var generators = map[string]generator{}

type gen struct {
	rng   *rng
	tier  string
	out   *bufio.Writer
	count int
}

func (g *gen) emit(format string, a ...any) {
	fmt.Fprintf(g.out, format, a...)
	g.out.WriteByte('\n')
	g.count++
}
func (g *gen) thorough() bool { return g.tier == "thorough" }

// pick n for quick / thorough
func (g *gen) budget(quick, thorough int) int {
	if g.thorough() {
		return thorough
	}
	return quick
}

// opTimeout bounds one op: a call that does not return (deadlock, livelock) is answered "timeout"; its goroutine is abandoned
var opTimeout = 180 * time.Second

func safeExec(line string) string {
	done := make(chan string, 1)
	go func() { done <- safeExec1(line) }()
	select {
	case r := <-done:
		return r
	case <-time.After(opTimeout):
		return "timeout"
	}
}

func safeExec1(line string) (res string) {
	defer func() {
		if r := recover(); r != nil {
			res = "panic"
			if os.Getenv("GV_PANIC_DETAIL") != "" {
				res = fmt.Sprintf("panic:%v", r)
				res = strings.ReplaceAll(res, "\n", " ")
			}
		}
	}()
	w := strings.Fields(line)
	if len(w) == 0 {
		return "bad-op"
	}
	ex, ok := executors[w[0]]
	if !ok {
		return "bad-op"
	}
	return ex(w[1:])
}

func main() {
	mode := flag.String("mode", "gen", "gen: write op lines for -prop to stdout; exec: answer op lines from stdin")
	prop := flag.String("prop", "", "property id for gen")
	tier := flag.String("tier", "quick", "quick|thorough")
	seed := flag.Uint64("seed", 1, "PRNG seed")
	flag.Parse()
	out := bufio.NewWriterSize(os.Stdout, 1<<20)
	defer out.Flush()
	switch *mode {
	case "gen":
		gf, ok := generators[*prop]
		if !ok {
			fmt.Fprintln(os.Stderr, "no generator for", *prop)
			os.Exit(2)
		}
		gf(&gen{rng: newRng(*seed), tier: *tier, out: out})
	case "exec":
		in := bufio.NewScanner(os.Stdin)
		in.Buffer(make([]byte, 1<<20), 1<<28)
		for in.Scan() {
			out.WriteString(safeExec(in.Text()))
			out.WriteByte('\n')
			out.Flush()
		}
	default:
		os.Exit(2)
	}
}
