#!/bin/sh
# writes c10_fields.go: one adapter per FFT package, from c10_fields.tmpl (run by hand; output is checked in)
cd "$(dirname "$0")"
curves="bn254 bls12-377 bls12-381 bls24-315 bls24-317 bw6-633 bw6-761"
small="goldilocks koalabear babybear"
{
echo "// Code written by c10_fields.sh from c10_fields.tmpl; DO NOT EDIT"
echo "package main"
echo
echo "import ("
echo '	"io"'
echo
for c in $curves; do a=$(echo $c | tr -d '-'); echo "	fr_$a \"github.com/consensys/gnark-crypto/ecc/$c/fr\""; echo "	fft_$a \"github.com/consensys/gnark-crypto/ecc/$c/fr/fft\""; done
for c in $small; do echo "	fr_$c \"github.com/consensys/gnark-crypto/field/$c\""; echo "	fft_$c \"github.com/consensys/gnark-crypto/field/$c/fft\""; done
echo ")"
for c in $curves $small; do a=$(echo $c | tr -d '-'); echo; sed "s/ALIAS/$a/g; s/NAME/$c/g" c10_fields.tmpl; done
} > c10_fields.go
gofmt -l . || true
