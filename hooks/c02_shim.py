#!/usr/bin/env python3
"""C02 hook: verif-tagged shim files exporting the unexported extended-Jacobian (XYZZ) point methods.

usage: c02_shim.py <repo> <outdir>

For every ecc/<curve>/g{1,2}.go that declares g{1,2}JacExtended, a file <outdir>/c02_<curve>_g{n}.go is written and
mapped (go build -overlay) to the NON-EXISTING path <repo>/ecc/<curve>/verif_c02_g{n}.go, i.e. files are only ADDED to
the package, nothing in /repo is written or replaced. The files carry `//go:build verif`. Entries are merged into
<outdir>/overlay.json (which hooks/mkoverlay.py may have created before). The wrappers are re-derived from the working
tree on every run; a method that disappears from the source makes the harness build fail (= broken tie).
"""
import json, os, re, sys

METHODS = [("add", "q *g%dJacExtended"), ("double", "q *g%dJacExtended"), ("addMixed", "a *G%dAffine"), ("subMixed", "a *G%dAffine"),
           ("doubleMixed", "a *G%dAffine"), ("doubleNegMixed", "a *G%dAffine")]

def main(repo, outdir):
    os.makedirs(outdir, exist_ok=True)
    ov = os.path.join(outdir, "overlay.json")
    repl = {}
    if os.path.exists(ov):
        repl = json.load(open(ov)).get("Replace", {})
    ecc = os.path.join(repo, "ecc")
    n = 0
    for curve in sorted(os.listdir(ecc)):
        for g in (1, 2):
            src = os.path.join(ecc, curve, "g%d.go" % g)
            if not os.path.exists(src):
                continue
            s = open(src).read()
            if "type g%dJacExtended struct" % g not in s:
                continue
            pkg = re.search(r"^package (\w+)", s, re.M).group(1)
            out = ["//go:build verif", "", "package " + pkg, "",
                   "// exported view of the unexported extended Jacobian point (correspondence harness only)",
                   "type G%dJacExtended = g%dJacExtended" % (g, g), ""]
            for m, arg in METHODS:
                if not re.search(r"^func \(p \*g%dJacExtended\) %s\(" % (g, m), s, re.M):
                    print("c02_shim: %s lacks g%dJacExtended.%s" % (src, g, m), file=sys.stderr)
                    return 1
                a = arg % g
                out.append("func (p *g%dJacExtended) V%s(%s) *g%dJacExtended { return p.%s(%s) }" % (g, m[0].upper() + m[1:], a, g, m, a.split()[0]))
            for recv in ("Affine", "Jac"):
                if not re.search(r"^func \(p \*G%d%s\) fromJacExtended\(" % (g, recv), s, re.M):
                    print("c02_shim: %s lacks G%d%s.fromJacExtended" % (src, g, recv), file=sys.stderr)
                    return 1
                out.append("func (p *G%d%s) VFromJacExtended(q *g%dJacExtended) *G%d%s { return p.fromJacExtended(q) }" % (g, recv, g, g, recv))
            has_unsafe = re.search(r"^func \(p \*G%dJac\) unsafeFromJacExtended\(" % g, s, re.M) is not None
            out.append("const VHasUnsafeFromJacExtendedG%d = %s" % (g, "true" if has_unsafe else "false"))
            if has_unsafe:
                out.append("func (p *G%dJac) VUnsafeFromJacExtended(q *g%dJacExtended) *G%dJac { return p.unsafeFromJacExtended(q) }" % (g, g, g))
            else:
                out.append("func (p *G%dJac) VUnsafeFromJacExtended(q *g%dJacExtended) *G%dJac { return nil }" % (g, g, g))
            txt = "\n".join(out) + "\n"
            dst = os.path.join(outdir, "c02_%s_g%d.go" % (curve, g))
            if not (os.path.exists(dst) and open(dst).read() == txt):
                open(dst, "w").write(txt)
            repl[os.path.join(ecc, curve, "verif_c02_g%d.go" % g)] = dst
            n += 1
    txt = json.dumps({"Replace": repl}, indent=1)
    if not (os.path.exists(ov) and open(ov).read() == txt):
        open(ov, "w").write(txt)
    print("c02_shim: %d groups" % n)
    return 0

if __name__ == "__main__":
    sys.exit(main(sys.argv[1], sys.argv[2]))
