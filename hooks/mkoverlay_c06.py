#!/usr/bin/env python3
"""C06 hook: adds to <outdir>/overlay.json one NEW file per pairing-curve package (ecc/<curve>/verif_c06_shim.go, build
tag `verif`) that re-exports the exported package-level slice functions of ecc/<curve>/internal/fptower (BatchInvertE2…,
BatchCompressTorus, BatchDecompressTorus, BatchDecompressKarabina) as a name -> function map.  An internal package cannot be
imported by the harness; the curve package can.  Nothing is written into /repo and nothing is wrapped: the map holds the
functions themselves.  The list is re-derived from the source on every run.
Run after hooks/mkoverlay.py:  mkoverlay_c06.py <repo> <outdir>
"""
import json, os, re, sys

CURVES = ["bn254", "bls12-377", "bls12-381", "bls24-315", "bls24-317", "bw6-633", "bw6-761"]


def main(repo, outdir):
    os.makedirs(outdir, exist_ok=True)
    ov = os.path.join(outdir, "overlay.json")
    repl = {}
    if os.path.exists(ov):
        repl = json.load(open(ov)).get("Replace", {})
    for c in CURVES:
        d = os.path.join(repo, "ecc", c)
        tw = os.path.join(d, "internal", "fptower")
        if not os.path.isdir(tw):
            print("mkoverlay_c06: %s not found" % tw, file=sys.stderr)
            return 1
        pkg = None
        for fn in sorted(os.listdir(d)):
            if fn.endswith(".go") and not fn.endswith("_test.go"):
                m = re.search(r"^package (\w+)", open(os.path.join(d, fn)).read(), re.M)
                if m:
                    pkg = m.group(1)
                    break
        names = set()
        for fn in sorted(os.listdir(tw)):
            if not fn.endswith(".go") or fn.endswith("_test.go"):
                continue
            s = open(os.path.join(tw, fn)).read()
            for m in re.finditer(r"^func ([A-Z]\w*)\(([^)]*)\)", s, re.M):
                if "[]E" in m.group(2):
                    names.add(m.group(1))
        if pkg is None or not names:
            print("mkoverlay_c06: no slice functions recognised in " + tw, file=sys.stderr)
            return 1
        body = "".join('\t"%s": fptower.%s,\n' % (n, n) for n in sorted(names))
        txt = ('//go:build verif\n\npackage %s\n\nimport "github.com/consensys/gnark-crypto/ecc/%s/internal/fptower"\n\n'
               '// VerifTowerFuncs: the exported slice functions of internal/fptower (correspondence harness only)\n'
               'var VerifTowerFuncs = map[string]any{\n%s}\n') % (pkg, c, body)
        dst = os.path.join(outdir, "verif_c06_%s.go" % c.replace("-", "_"))
        if not (os.path.exists(dst) and open(dst).read() == txt):
            open(dst, "w").write(txt)
        repl[os.path.join(d, "verif_c06_shim.go")] = dst
    txt = json.dumps({"Replace": repl}, indent=1)
    if not (os.path.exists(ov) and open(ov).read() == txt):
        open(ov, "w").write(txt)
    return 0


if __name__ == "__main__":
    sys.exit(main(sys.argv[1], sys.argv[2]))
