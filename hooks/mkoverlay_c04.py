#!/usr/bin/env python3
"""C04 hook: adds to <outdir>/overlay.json one NEW file per curve package (ecc/<curve>/verif_c04_shim.go, build tag
`verif`) that exports thin wrappers around the unexported partitionScalars / computeNbChunks / lastC / _innerMsmG1 /
_innerMsmG2 (the body of MultiExp below the choice of the window: the window c is the caller's) and around
internal/parallel.Execute.  Nothing is written into /repo; the wrappers only call the existing functions.
Run after hooks/mkoverlay.py:  mkoverlay_c04.py <repo> <outdir>
"""
import json, os, re, sys

CURVES = ["bn254", "bls12-377", "bls12-381", "bls24-315", "bls24-317", "bw6-633", "bw6-761", "grumpkin", "secp256k1"]

TEMPLATE = '''//go:build verif

package %(pkg)s

import (
	"sort"
	"sync"

	"github.com/consensys/gnark-crypto/ecc"
	"github.com/consensys/gnark-crypto/ecc/%(dir)s/fr"
	"github.com/consensys/gnark-crypto/internal/parallel"
)

// VerifPartitionScalars returns the digits computed by partitionScalars (chunk-major, len(scalars) per chunk).
func VerifPartitionScalars(scalars []fr.Element, c uint64, nbTasks int) []uint16 {
	d, _ := partitionScalars(scalars, c, nbTasks)
	return d
}

// VerifChunks returns computeNbChunks(c), lastC(c).
func VerifChunks(c uint64) (uint64, uint64) { return computeNbChunks(c), lastC(c) }

// VerifExecuteRanges returns the [start,end) ranges parallel.Execute hands to its workers, sorted by start.
func VerifExecuteRanges(n int, maxCpus ...int) [][2]int {
	var mu sync.Mutex
	var out [][2]int
	parallel.Execute(n, func(s, e int) {
		mu.Lock()
		out = append(out, [2]int{s, e})
		mu.Unlock()
	}, maxCpus...)
	sort.Slice(out, func(i, j int) bool { return out[i][0] < out[j][0] })
	return out
}

// VerifInnerMsmG1 runs _innerMsmG1 (partitionScalars, chunk statistics, chunk processors, reduction) with the window c.
func VerifInnerMsmG1(c uint64, points []G1Affine, scalars []fr.Element, nbTasks int) G1Affine {
	var p G1Jac
	_innerMsmG1(&p, c, points, scalars, ecc.MultiExpConfig{NbTasks: nbTasks})
	var res G1Affine
	res.FromJacobian(&p)
	return res
}
'''

TEMPLATE_G2 = '''
// VerifInnerMsmG2 runs _innerMsmG2 with the window c.
func VerifInnerMsmG2(c uint64, points []G2Affine, scalars []fr.Element, nbTasks int) G2Affine {
	var p G2Jac
	_innerMsmG2(&p, c, points, scalars, ecc.MultiExpConfig{NbTasks: nbTasks})
	var res G2Affine
	res.FromJacobian(&p)
	return res
}
'''

SIG = "func _innerMsmG%d(p *G%dJac, c uint64, points []G%dAffine, scalars []fr.Element, config ecc.MultiExpConfig) *G%dJac"

def main(repo, outdir):
    os.makedirs(outdir, exist_ok=True)
    ov = os.path.join(outdir, "overlay.json")
    repl = {}
    if os.path.exists(ov):
        repl = json.load(open(ov)).get("Replace", {})
    for c in CURVES:
        d = os.path.join(repo, "ecc", c)
        src = os.path.join(d, "multiexp.go")
        if not os.path.exists(src):
            print("mkoverlay_c04: %s not found" % src, file=sys.stderr)
            return 1
        s = open(src).read()
        m = re.search(r"^package (\w+)", s, re.M)
        if not m or "func partitionScalars(scalars []fr.Element, c uint64, nbTasks int) ([]uint16, []chunkStat)" not in s:
            print("mkoverlay_c04: partitionScalars signature not recognised in " + src, file=sys.stderr)
            return 1
        if SIG % (1, 1, 1, 1) not in s:
            print("mkoverlay_c04: _innerMsmG1 signature not recognised in " + src, file=sys.stderr)
            return 1
        has_g2 = "func _innerMsmG2(" in s
        if has_g2 and SIG % (2, 2, 2, 2) not in s:
            print("mkoverlay_c04: _innerMsmG2 signature not recognised in " + src, file=sys.stderr)
            return 1
        if has_g2 != os.path.exists(os.path.join(d, "g2.go")):
            print("mkoverlay_c04: g2.go / _innerMsmG2 mismatch in " + d, file=sys.stderr)
            return 1
        txt = TEMPLATE % {"pkg": m.group(1), "dir": c} + (TEMPLATE_G2 if has_g2 else "")
        dst = os.path.join(outdir, "verif_c04_%s.go" % c.replace("-", "_"))
        if not (os.path.exists(dst) and open(dst).read() == txt):
            open(dst, "w").write(txt)
        repl[os.path.join(d, "verif_c04_shim.go")] = dst
    txt = json.dumps({"Replace": repl}, indent=1)
    if not (os.path.exists(ov) and open(ov).read() == txt):
        open(ov, "w").write(txt)
    return 0

if __name__ == "__main__":
    sys.exit(main(sys.argv[1], sys.argv[2]))
