#!/usr/bin/env python3
"""Builds the `go build -overlay` file used by the harness (nothing is written into /repo).

The overlay replaces utils/cpu/adx_amd64.go and utils/cpu/avx_amd64.go by copies of /repo's CURRENT files
in which the feature flags are additionally and-ed with an environment switch, so that one harness binary
can be run as {default asm, GV_NOADX=1, GV_NOAVX512=1}. The copies are re-derived from the working tree on
every run; if the expected initialiser is not found the tie is reported as broken.
"""
import json, os, re, sys

def main(repo, outdir):
    os.makedirs(outdir, exist_ok=True)
    repl = {}
    for fn, var, env in (("adx_amd64.go", "SupportADX", "GV_NOADX"), ("avx_amd64.go", "SupportAVX512", "GV_NOAVX512")):
        src = os.path.join(repo, "utils", "cpu", fn)
        s = open(src).read()
        m = re.search(r"(\t%s\s*=\s*)([^\n]+)\n" % var, s)
        if not m:
            print("mkoverlay: initialiser of %s not found in %s" % (var, src), file=sys.stderr)
            return 1
        s2 = s[:m.start()] + m.group(1) + "(" + m.group(2) + ') && os.Getenv("%s") == ""\n' % env + s[m.end():]
        s2 = s2.replace('import "golang.org/x/sys/cpu"', 'import (\n\t"os"\n\n\t"golang.org/x/sys/cpu"\n)')
        if '"os"' not in s2:
            print("mkoverlay: import block not recognised in " + src, file=sys.stderr)
            return 1
        dst = os.path.join(outdir, "verif_" + fn)
        if not (os.path.exists(dst) and open(dst).read() == s2):
            open(dst, "w").write(s2)
        repl[src] = dst
    ov = os.path.join(outdir, "overlay.json")
    txt = json.dumps({"Replace": repl}, indent=1)
    if not (os.path.exists(ov) and open(ov).read() == txt):
        open(ov, "w").write(txt)
    return 0

if __name__ == "__main__":
    sys.exit(main(sys.argv[1], sys.argv[2]))
