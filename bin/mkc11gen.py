#!/usr/bin/env python3
"""bin/mkc11gen.py — writes lean/GnarkVerif/Props/C11_gen*.lean, Props/C17_gen*.lean and Audit/C11_gen.lean, Audit/C17_gen.lean.

The theorems are about the defs that tools/goslp (slpgroup.go) regenerates from ecc/<curve>/kzg/kzg.go and
ecc/<curve>/fr/pedersen/pedersen.go on every run (Gen/Verifier/{Kzg,Pedersen}_<curve>.lean). The 7 packages are produced by
gnark-crypto from one template, so ONE proof template is instantiated 7 times; the script supplies nothing but the package
names and the argument lists for k = 1..4. Everything is re-checked by Lean against what the Go text says on that run.
"""
import os

ROOT = os.path.dirname(os.path.dirname(os.path.abspath(__file__)))
PROPS = os.path.join(ROOT, "lean", "GnarkVerif", "Props")
AUDIT = os.path.join(ROOT, "lean", "GnarkVerif", "Audit")
PKGS = ["bn254", "bls12_377", "bls12_381", "bls24_315", "bls24_317", "bw6_633", "bw6_761"]

HEAD = "/- INSTANTIATED by bin/mkc11gen.py (one proof template for the 7 packages). DO NOT EDIT: edit the script and re-run it. -/\n"
OPTS = """set_option linter.unusedSectionVars false
set_option linter.unusedVariables false
set_option linter.unusedSimpArgs false
set_option linter.unusedTactic false
set_option linter.unreachableTactic false
"""
INST = "(G := Ex r) (G2 := Unit) (S := Ex r) (L := ℕ × ℕ)"


def seq(p, k, f="{p}{i}"):
    return [f.format(p=p, i=i) for i in range(k)]


def sp(xs):
    return " ".join(xs)


def vlist(xs):
    return "[" + ", ".join(x + ".v" for x in xs) + "]"


def gpow(i):
    """the i-th entry of gammai as FoldProof builds it: 1, γ, γ*γ, (γ*γ)*γ"""
    if i == 0:
        return "1"
    t = "γ"
    for _ in range(i - 1):
        t = f"({t} * γ)" if t != "γ" else "(γ * γ)"
    return t


def lsum(terms):
    return " + ".join(terms)


def kzg_file(pkg):
    ns = f"kzg_{pkg}"
    T = []
    A = []   # theorem names for the audit

    def thm(name, text):
        A.append(name)
        T.append(text)

    # ---------------------------------------------------------------- Verify
    thm(f"C11gen_{pkg}_verify_ex", f"""/-- `kzg.Verify` as the Go text computes it, read in the exponent model, IS `Model.KZG.verify` (every input) -/
theorem C11gen_{pkg}_verify_ex (c H v z g1 : Ex r) (l : ℕ × ℕ) (q0 q1 : Unit) :
    {ns}.Verify {INST} Ex.toInt (pcFixed r) c H v z q0 q1 g1 l
      = resOfBool (verify r ⟨g1.v, l⟩ c.v H.v v.v z.v) := by
  have h : pcFixed r [(Ex.toInt v • g1 + Ex.toInt (-z) • H) - c, H] l = verify r ⟨g1.v, l⟩ c.v H.v v.v z.v := rfl
  simp only [{ns}.Verify, h, resOfBool, Res.errVerify]
  cases verify r ⟨g1.v, l⟩ c.v H.v v.v z.v <;> rfl
""")
    thm(f"C11gen_{pkg}_verify", f"""/-- the same with natural-number arguments and a model verifying key: generated `Verify` = `Model.KZG.verify` -/
theorem C11gen_{pkg}_verify (vk : VK) (c H v z : ℕ) :
    {ns}.Verify {INST} Ex.toInt (pcFixed r) ⟨c⟩ ⟨H⟩ ⟨v⟩ ⟨z⟩ () () ⟨vk.g1⟩ vk.g2
      = resOfBool (verify r vk c H v z) := C11gen_{pkg}_verify_ex r ⟨c⟩ ⟨H⟩ ⟨v⟩ ⟨z⟩ ⟨vk.g1⟩ vk.g2 () ()
""")
    thm(f"C11gen_{pkg}_verify_iff", f"""/-- exact acceptance (C11_verify_iff) now holds of the translated Go text: with the key of trapdoor τ the generated
`Verify` returns nil iff `c − v = (τ − z)·H` in `ZMod r` -/
theorem C11gen_{pkg}_verify_iff (τ c H v z : ℕ) :
    {ns}.Verify {INST} Ex.toInt (pcFixed r) ⟨c⟩ ⟨H⟩ ⟨v⟩ ⟨z⟩ () () ⟨(vkOf r τ).g1⟩ (vkOf r τ).g2 = Res.ok
      ↔ (c : ZMod r) - v = ((τ : ZMod r) - z) * H := by
  rw [C11gen_{pkg}_verify, resOfBool_ok]
  exact verify_iff r τ c H v z
""")
    thm(f"C11gen_{pkg}_verify_abstract", f"""/-- "the code computes the textbook check", no exponent model: for ANY additive commutative group `G`, any scalar type, any
`toInt` and ANY pairing check, the generated `Verify` returns nil iff the check holds of `[v]G₁ + [−z]H − C` and `H` -/
theorem C11gen_{pkg}_verify_abstract {{G G2 S L : Type}} [AddCommGroup G] [CommRing S] [BEq G2]
    (toInt : S → Int) (pcf : List G → L → Bool) (C H g1 : G) (v z : S) (q0 q1 : G2) (lines : L) :
    {ns}.Verify toInt pcf C H v z q0 q1 g1 lines = Res.ok ↔
      pcf [toInt v • g1 + toInt (-z) • H - C, H] lines = true := by
  simp only [{ns}.Verify]
  cases pcf [toInt v • g1 + toInt (-z) • H - C, H] lines <;> simp
""")
    thm(f"C11gen_{pkg}_verify_errors", f"""/-- the only error the generated `Verify` returns is ErrVerifyOpeningProof -/
theorem C11gen_{pkg}_verify_errors {{G G2 S L : Type}} [AddCommGroup G] [CommRing S] [BEq G2]
    (toInt : S → Int) (pcf : List G → L → Bool) (C H g1 : G) (v z : S) (q0 q1 : G2) (lines : L) :
    {ns}.Verify toInt pcf C H v z q0 q1 g1 lines = Res.ok ∨
      {ns}.Verify toInt pcf C H v z q0 q1 g1 lines = Res.errVerify := by
  simp only [{ns}.Verify, Res.errVerify]
  cases pcf [toInt v • g1 + toInt (-z) • H - C, H] lines <;> simp
""")
    # ---------------------------------------------------------------- the empty batch
    thm(f"C11gen_{pkg}_batchSingle_k0", f"""/-- the empty batch: `FoldProof` / `BatchVerifySinglePoint` answer ErrZeroNbDigests = the model (`C11_batchSingle_empty`) -/
theorem C11gen_{pkg}_batchSingle_k0 (γ : ℕ) (H z g1 : Ex r) (l : ℕ × ℕ) (q0 q1 : Unit) :
    ({ns}.FoldProof_k0 {INST} Ex.toInt H z).2.2.2 = Res.err "ErrZeroNbDigests" ∧
    {ns}.BatchVerifySinglePoint_k0 {INST} Ex.toInt (pcFixed r) H z q0 q1 g1 l
      = resOfVerdict (batchVerifySinglePoint r γ ⟨g1.v, l⟩ [] H.v [] z.v) := by
  constructor
  · rfl
  · simp [{ns}.BatchVerifySinglePoint_k0, {ns}.FoldProof_k0, batchVerifySinglePoint, foldProof, resOfVerdict]
""")
    thm(f"C11gen_{pkg}_multi_k0", f"""/-- no claims: `BatchVerifyMultiPoints` answers ErrZeroNbDigests = the model -/
theorem C11gen_{pkg}_multi_k0 (lams : List ℕ) (g1 : Ex r) (l : ℕ × ℕ) (q0 q1 : Unit) :
    {ns}.BatchVerifyMultiPoints_k0 {INST} Ex.toInt q0 q1 g1 l
      = resOfVerdict (batchVerifyMultiPoints r ⟨g1.v, l⟩ lams [] [] []) := by
  simp [{ns}.BatchVerifyMultiPoints_k0, batchVerifyMultiPoints, resOfVerdict]
""")
    # ---------------------------------------------------------------- fold, FoldProof, BatchVerifySinglePoint
    for k in range(1, 5):
        d, f, c, v = seq("d", k), seq("f", k), seq("c", k), seq("v", k)
        thm(f"C11gen_{pkg}_fold_k{k}_ex", f"""/-- `fold` on {k} digests = `Model.KZG.fold` -/
theorem C11gen_{pkg}_fold_k{k}_ex ({sp(d + f + c)} : Ex r) :
    {ns}.fold_k{k} {INST} Ex.toInt {sp(d + f + c)}
      = (⟨(fold r {vlist(d)} {vlist(f)} {vlist(c)}).1⟩, ⟨(fold r {vlist(d)} {vlist(f)} {vlist(c)}).2⟩, Res.ok) := by
  refine Prod.ext rfl (Prod.ext ?_ rfl)
  apply Ex.ext
  simp only [{ns}.fold_k{k}, fold, msm, add_v, mul_v, zero_v]
  ex_nat_eq r
""")
        thm(f"C11gen_{pkg}_fold_k{k}_abstract", f"""/-- `fold` on {k} digests returns (Σ [cᵢ]dᵢ, Σ fᵢ·cᵢ, nil) in every commutative group / ring -/
theorem C11gen_{pkg}_fold_k{k}_abstract {{G G2 S L : Type}} [AddCommGroup G] [CommRing S] [BEq G2] (toInt : S → Int)
    ({sp(d)} : G) ({sp(f + c)} : S) :
    {ns}.fold_k{k} (G2 := G2) (L := L) toInt {sp(d + f + c)}
      = ({lsum(f"toInt {c[i]} • {d[i]}" for i in range(k))}, {lsum(f"{f[i]} * {c[i]}" for i in range(k))}, Res.ok) := by
  simp only [{ns}.fold_k{k}, add_zero, zero_add, add_assoc]
""")
        fd = f"(fold r {vlist(d)} {vlist(v)} (gammaPowers r γ {k}))"
        thm(f"C11gen_{pkg}_foldProof_k{k}", f"""/-- `FoldProof` on {k} digests (γ = what deriveGamma returned, no transcript error) = `Model.KZG.foldProof` -/
theorem C11gen_{pkg}_foldProof_k{k} (γ : ℕ) ({sp(d)} H {sp(v)} z : Ex r) :
    foldProof r γ {vlist(d)} H.v {vlist(v)} = .ok (H.v % r, {fd}.2, {fd}.1) ∧
    {ns}.FoldProof_k{k} {INST} Ex.toInt (fun _ _ _ => ⟨γ⟩) false {sp(d)} H {sp(v)} z
      = (H, ⟨{fd}.2⟩, ⟨{fd}.1⟩, Res.ok) := by
  constructor
  · simp [foldProof]
  · simp only [{ns}.FoldProof_k{k}, C11gen_{pkg}_fold_k{k}_ex]
    simp only [Bool.false_eq_true, if_false, bne_self_eq_false]
    refine Prod.ext rfl (Prod.ext ?_ (Prod.ext ?_ rfl)) <;> apply Ex.ext <;>
      simp only [fold, msm, gammaPowers, powers, one_v, mul_v] <;> ex_nat_eq r
""")
        thm(f"C11gen_{pkg}_foldProof_k{k}_gammaErr", f"""/-- a transcript error in deriveGamma makes `FoldProof` return ErrInvalidNbDigests (as the Go text says) -/
theorem C11gen_{pkg}_foldProof_k{k}_gammaErr {{G G2 S L : Type}} [AddCommGroup G] [CommRing S] [BEq G2] (toInt : S → Int)
    (dg : S → List G → List S → S) ({sp(d)} H : G) ({sp(v)} z : S) :
    ({ns}.FoldProof_k{k} (G2 := G2) (L := L) toInt dg true {sp(d)} H {sp(v)} z).2.2.2 = Res.err "ErrInvalidNbDigests" := by
  simp only [{ns}.FoldProof_k{k}, if_true]
""")
        thm(f"C11gen_{pkg}_batchSingle_k{k}", f"""/-- `BatchVerifySinglePoint` on {k} digests = `Model.KZG.batchVerifySinglePoint` (same γ) -/
theorem C11gen_{pkg}_batchSingle_k{k} (γ : ℕ) ({sp(d)} H {sp(v)} z g1 : Ex r) (l : ℕ × ℕ) (q0 q1 : Unit) :
    {ns}.BatchVerifySinglePoint_k{k} {INST} Ex.toInt (fun _ _ _ => ⟨γ⟩) false (pcFixed r) {sp(d)} H {sp(v)} z q0 q1 g1 l
      = resOfVerdict (batchVerifySinglePoint r γ ⟨g1.v, l⟩ {vlist(d)} H.v {vlist(v)} z.v) := by
  simp only [{ns}.BatchVerifySinglePoint_k{k}, (C11gen_{pkg}_foldProof_k{k} r γ {sp(d)} H {sp(v)} z).2, batchVerifySinglePoint,
    (C11gen_{pkg}_foldProof_k{k} r γ {sp(d)} H {sp(v)} z).1, bne_self_eq_false, Bool.false_eq_true, if_false,
    C11gen_{pkg}_verify_ex, resOfVerdict]
  congr 1
  apply verify_congr <;> ex_cast_eq
""")
        gam = [gpow(i) for i in range(k)]
        thm(f"C11gen_{pkg}_batchSingle_k{k}_abstract", f"""/-- abstract level: `BatchVerifySinglePoint` on {k} digests is `Verify` of the folded digest Σ [γⁱ]dᵢ and folded value Σ vᵢ·γⁱ, γ = deriveGamma(point, digests, values) -/
theorem C11gen_{pkg}_batchSingle_k{k}_abstract {{G G2 S L : Type}} [AddCommGroup G] [CommRing S] [BEq G2] (toInt : S → Int)
    (pcf : List G → L → Bool) (dg : S → List G → List S → S) ({sp(d)} H g1 : G) ({sp(v)} z : S) (q0 q1 : G2) (lines : L) :
    {ns}.BatchVerifySinglePoint_k{k} toInt dg false pcf {sp(d)} H {sp(v)} z q0 q1 g1 lines
      = (let γ := dg z [{", ".join(d)}] [{", ".join(v)}]
         {ns}.Verify toInt pcf ({lsum(f"toInt {gam[i]} • {d[i]}" for i in range(k))}) H ({lsum(f"{v[i]} * {gam[i]}" for i in range(k))}) z q0 q1 g1 lines) := by
  simp only [{ns}.BatchVerifySinglePoint_k{k}, {ns}.FoldProof_k{k}, C11gen_{pkg}_fold_k{k}_abstract, Bool.false_eq_true, if_false,
    bne_self_eq_false]
""")
    # ---------------------------------------------------------------- BatchVerifyMultiPoints
    thm(f"C11gen_{pkg}_multi_k1", f"""/-- `BatchVerifyMultiPoints` on one claim is `Verify` = the model's verdict (no random number is drawn) -/
theorem C11gen_{pkg}_multi_k1 (lams : List ℕ) (d0 h0 v0 z0 g1 : Ex r) (l : ℕ × ℕ) (q0 q1 : Unit) :
    {ns}.BatchVerifyMultiPoints_k1 {INST} Ex.toInt (pcFixed r) d0 h0 v0 z0 q0 q1 g1 l
      = resOfVerdict (batchVerifyMultiPoints r ⟨g1.v, l⟩ lams [d0.v] [(h0.v, v0.v)] [z0.v]) := by
  simp only [{ns}.BatchVerifyMultiPoints_k1, C11gen_{pkg}_verify_ex]
  simp [batchVerifyMultiPoints, resOfVerdict]
""")
    for k in range(2, 4):
        d, h, v, z = seq("d", k), seq("h", k), seq("v", k), seq("z", k)
        lam = seq("lam", k)
        hv = [x for i in range(k) for x in (h[i], v[i])]
        rnd = " ".join(f"⟨{lam[i]}⟩ false" for i in range(1, k))
        thm(f"C11gen_{pkg}_multi_k{k}", f"""/-- `BatchVerifyMultiPoints` on {k} claims with the random numbers λ₁.. handed in (λ₀ = 1 is set by the code, whatever
`lam0` is; no randomness error) = `Model.KZG.batchVerifyMultiPoints` with the same λ -/
theorem C11gen_{pkg}_multi_k{k} ({sp(lam)} : ℕ) ({sp(d + hv + z)} g1 : Ex r) (l : ℕ × ℕ) (q0 q1 : Unit) :
    {ns}.BatchVerifyMultiPoints_k{k} {INST} Ex.toInt {rnd} (pcFixed r) {sp(d + hv + z)} q0 q1 g1 l
      = resOfVerdict (batchVerifyMultiPoints r ⟨g1.v, l⟩ [{", ".join(lam)}] {vlist(d)} [{", ".join(f"({h[i]}.v, {v[i]}.v)" for i in range(k))}] {vlist(z)}) := by
  simp only [{ns}.BatchVerifyMultiPoints_k{k}, C11gen_{pkg}_fold_k{k}_ex, bne_self_eq_false, Bool.false_eq_true, if_false]
  simp [batchVerifyMultiPoints, multiFold, resOfVerdict, resOfBool, pcFixed, Res.errVerify]
  apply ite_verdict_congr
  apply pairingCheck2_congr <;> (simp only [fold, msm] <;> ex_cast_eq)
""")
        L = ["1"] + [f"lam{i}" for i in range(1, k)]
        rnda = " ".join(f"lam{i} false" for i in range(1, k))
        thm(f"C11gen_{pkg}_multi_k{k}_abstract", f"""/-- abstract level, {k} claims: with λ₀ = 1 and the drawn λ₁.., the code accepts iff the pairing check holds of
`Σ[λᵢ]dᵢ − [Σ vᵢλᵢ]G₁ + Σ[λᵢzᵢ]Hᵢ` and `−Σ[λᵢ]Hᵢ` -/
theorem C11gen_{pkg}_multi_k{k}_abstract {{G G2 S L : Type}} [AddCommGroup G] [CommRing S] [BEq G2] (toInt : S → Int)
    (pcf : List G → L → Bool) ({sp(L[1:])} : S) ({sp(d + h)} g1 : G) ({sp(v + z)} : S) (q0 q1 : G2) (lines : L) :
    {ns}.BatchVerifyMultiPoints_k{k} toInt {rnda} pcf {sp(d + hv + z)} q0 q1 g1 lines = Res.ok ↔
      pcf [({lsum(f"toInt {L[i]} • {d[i]}" for i in range(k))}) - toInt ({lsum(f"{v[i]} * {L[i]}" for i in range(k))}) • g1
            + ({lsum(f"toInt ({L[i]} * {z[i]}) • {h[i]}" for i in range(k))}),
           -({lsum(f"toInt {L[i]} • {h[i]}" for i in range(k))})] lines = true := by
  simp only [{ns}.BatchVerifyMultiPoints_k{k}, C11gen_{pkg}_fold_k{k}_abstract, Bool.false_eq_true, if_false, bne_self_eq_false,
    add_zero, add_assoc]
  cases pcf _ lines <;> simp
""")
        thm(f"C11gen_{pkg}_multi_k{k}_rndErr", f"""/-- a failing `SetRandom` makes the code return that error before anything is checked -/
theorem C11gen_{pkg}_multi_k{k}_rndErr {{G G2 S L : Type}} [AddCommGroup G] [CommRing S] [BEq G2] (toInt : S → Int)
    (pcf : List G → L → Bool) ({sp(L[1:])} : S) ({" ".join(f"e{i}" for i in range(2, k))}{" " if k > 2 else ""}: Bool) ({sp(d + h)} g1 : G) ({sp(v + z)} : S) (q0 q1 : G2) (lines : L) :
    {ns}.BatchVerifyMultiPoints_k{k} toInt lam1 true {" ".join(f"lam{i} e{i}" for i in range(2, k))} pcf {sp(d + hv + z)} q0 q1 g1 lines = Res.err "SetRandom" := by
  simp only [{ns}.BatchVerifyMultiPoints_k{k}, if_true]
""" if k > 2 else f"""/-- a failing `SetRandom` makes the code return that error before anything is checked -/
theorem C11gen_{pkg}_multi_k{k}_rndErr {{G G2 S L : Type}} [AddCommGroup G] [CommRing S] [BEq G2] (toInt : S → Int)
    (pcf : List G → L → Bool) (lam1 : S) ({sp(d + h)} g1 : G) ({sp(v + z)} : S) (q0 q1 : G2) (lines : L) :
    {ns}.BatchVerifyMultiPoints_k{k} toInt lam1 true pcf {sp(d + hv + z)} q0 q1 g1 lines = Res.err "SetRandom" := by
  simp only [{ns}.BatchVerifyMultiPoints_k{k}, if_true]
""")
    body = HEAD + f"""import GnarkVerif.Proofs.VerifierGen
import GnarkVerif.Gen.Verifier.Kzg_{pkg}
import Mathlib.Algebra.Group.Basic
import Mathlib.Algebra.Ring.Defs
import Mathlib.Tactic.Abel
import Mathlib.Tactic.Ring
/-
C11, tie T for the group-level code of ecc/{pkg.replace("_", "-")}/kzg/kzg.go: Verify, fold, FoldProof, BatchVerifySinglePoint (1..4 digests),
BatchVerifyMultiPoints (1..3 claims) as REGENERATED from the Go text (Gen/Verifier/Kzg_{pkg}.lean).
`_ex` / unmarked theorems: the generated def, read in the exponent model (`Proofs/VerifierGen.lean`: G = S = naturals mod r,
[s]P = s·P, PairingCheckFixedQ [A, B] vk.Lines = (A·g2₀ + B·g2₁ ≡ 0)), EQUALS the hand model `Model/KZG.lean` on every input, so every
theorem of Props/C11.lean about `verify` / `foldProof` / `batchVerifySinglePoint` / `batchVerifyMultiPoints` holds of the translated text.
`_abstract` theorems: the same defs over ANY commutative group and ANY pairing check compute the textbook operands.
-/
{OPTS}
open GV.KZG GV.Gen.Verifier GV.VerifierGen
namespace GV.C11gen
variable (r : ℕ) [NeZero r]

""" + "\n".join(T) + "\nend GV.C11gen\n"
    open(os.path.join(PROPS, f"C11_gen_{pkg}.lean"), "w").write(body)
    return A


PINST = "(G := Ex q) (G2 := Ex2 q) (S := Ex q) (L := Unit)"


def ped_file(pkg):
    ns = f"pedersen_{pkg}"
    T = []
    A = []

    def thm(name, text):
        A.append(name)
        T.append(text)

    thm(f"C17gen_{pkg}_ped_verify", f"""/-- `(*VerifyingKey).Verify` as the Go text computes it, read in the exponent model with every point in the subgroup,
IS `Model.ArgPairing.pedVerify` run with the driver's dictionary `fp q` (every input) -/
theorem C17gen_{pkg}_ped_verify (vkG vkS : Ex2 q) (C pok : Ex q) :
    {ns}.VerifyingKey_Verify {PINST} Ex.toInt (fun _ => true) (pcP q) vkG vkS C pok
      = resOfPed (pedVerify (fp q) ⟨vkG.v, vkS.v⟩ C.v pok.v) := by
  have h : pcP q [C, pok] [vkS, vkG] = pedVerify (fp q) ⟨vkG.v, vkS.v⟩ C.v pok.v := rfl
  simp only [{ns}.VerifyingKey_Verify, h, resOfPed]
  cases pedVerify (fp q) ⟨vkG.v, vkS.v⟩ C.v pok.v <;> rfl
""")
    thm(f"C17gen_{pkg}_ped_verify_abstract", f"""/-- abstract level: for ANY group, subgroup predicate and pairing check the code returns nil iff both points pass the
subgroup check and the pairing check holds of (commitment, proof) against (vk.GSigmaNeg, vk.G) -/
theorem C17gen_{pkg}_ped_verify_abstract {{G G2 S L : Type}} [AddCommGroup G] [CommRing S] [BEq G2] (toInt : S → Int)
    (isg : G → Bool) (pc : List G → List G2 → Bool) (vkG vkS : G2) (C pok : G) :
    {ns}.VerifyingKey_Verify (L := L) toInt isg pc vkG vkS C pok = Res.ok ↔
      (isg C = true ∧ isg pok = true ∧ pc [C, pok] [vkS, vkG] = true) := by
  simp only [{ns}.VerifyingKey_Verify]
  cases isg C <;> cases isg pok <;> cases pc [C, pok] [vkS, vkG] <;> simp
""")
    thm(f"C17gen_{pkg}_ped_verify_subgroup", f"""/-- a point outside the subgroup is rejected whatever the pairing check says -/
theorem C17gen_{pkg}_ped_verify_subgroup {{G G2 S L : Type}} [AddCommGroup G] [CommRing S] [BEq G2] (toInt : S → Int)
    (isg : G → Bool) (pc : List G → List G2 → Bool) (vkG vkS : G2) (C pok : G) (h : isg C = false ∨ isg pok = false) :
    {ns}.VerifyingKey_Verify (L := L) toInt isg pc vkG vkS C pok = Res.err "subgroup check failed" := by
  simp only [{ns}.VerifyingKey_Verify]
  rcases h with h | h <;> simp [h]
""")
    for k in range(1, 4):
        for npok in ([k] if k == 1 else [k, 1]):
            name = f"BatchVerifyMultiVk_k{k}" if npok == k else f"BatchVerifyMultiVk_n{k}_{k}_1"
            tag = f"k{k}" if npok == k else f"k{k}_folded"
            g, sg, c, pk = seq("g", k), seq("s", k), seq("c", k), seq("p", npok)
            vkargs = [x for i in range(k) for x in (g[i], sg[i])]
            vks = "[" + ", ".join(f"⟨{g[i]}.v, {sg[i]}.v⟩" for i in range(k)) + "]"
            cases = " <;> ".join(f"cases hg{i} : (fp q).beq {g[i]}.v g0.v" for i in range(1, k))
            cases_line = (f"  {cases}\n  all_goals first | (simp; done) | skip\n" if k > 1 else "")
            thm(f"C17gen_{pkg}_ped_batch_{tag}", f"""/-- `BatchVerifyMultiVk` on {k} keys / commitments and {npok} proof(s) of knowledge{"" if npok == k else " (the folded proof)"}, every point in the subgroup:
the Go text accepts iff `Model.ArgPairing.pedBatchVerify` (dictionary `fp q`) accepts -/
theorem C17gen_{pkg}_ped_batch_{tag} ({sp(vkargs)} : Ex2 q) ({sp(c + pk)} co : Ex q) :
    {ns}.{name} {PINST} Ex.toInt (fun _ => true) (pcP q) {sp(vkargs + c + pk)} co = Res.ok
      ↔ pedBatchVerify (fp q) {vks} {vlist(c)} {vlist(pk)} co.v = some true := by
  have hb : ∀ a b : Ex2 q, (a != b) = !(fp q).beq a.v b.v := fun _ _ => rfl
  have h0 : (fp q).beq g0.v g0.v = true := by simp [fp_beq_decide]
  simp only [{ns}.{name}, hb, Bool.not_true, Bool.false_eq_true, if_false]
  simp only [pedBatchVerify, List.length_cons, List.length_nil, ne_eq, not_true_eq_false, false_and, and_false, if_false,
    List.any_cons, List.any_nil, h0, Bool.not_true, Bool.false_or, Bool.or_false, reduceCtorEq, OfNat.ofNat_ne_one,
    Nat.reduceAdd, Nat.reduceEqDiff]
{cases_line}  simp only [Bool.not_true, Bool.false_eq_true, if_false, Option.some.injEq, Bool.or_self, Bool.or_false]
  apply res_ok_iff_of_eq
  apply fp_pairingCheck_congr
  simp only [List.map, ArgPairing.dot, scaleByPowers, ArgPairing.fold, powersFrom, List.length, List.cons_append,
    List.nil_append, smul_v, add_v, mul_v, one_v, zero_v]
  simp only [cast_fp_add, cast_fp_mul, cast_fp_zero, cast_fp_one, cast_addm, cast_mulm, cast_one_mod, Nat.cast_zero]
  ring
""")
            # abstract statement: the raw shape of the operands the code builds
            rp = ["", "co"]
            for i in range(2, k):
                rp.append(f"{rp[-1]} * co" if i == 2 else f"{rp[-1]} * co")
            g1ops = [c[0]] + [f"toInt ({rp[i]}) • {c[i]}" for i in range(1, k)]
            fs = ["(1 : S)"]
            for i in range(1, npok):
                fs.append(f"{fs[-1]} * co")
            foldsum = "(0 : G)"
            for i in range(npok - 1, -1, -1):
                foldsum = f"toInt ({fs[i]}) • {pk[i]} + {foldsum}"
                if i > 0:
                    foldsum = "(" + foldsum + ")"
            conds = [f"isg {c[0]} = true"]
            for i in range(1, k):
                conds += [f"isg {c[i]} = true", f"({g[i]} != g0) = false"]
            conds += [f"isg {x} = true" for x in pk]
            thm(f"C17gen_{pkg}_ped_batch_{tag}_abstract", f"""/-- abstract level ({k} keys, {npok} proof(s)): nil iff every subgroup check passes, every vk[i].G equals vk[0].G and the pairing check
holds of (C₀, [r]C₁, [r²]C₂…, Σ[rⁱ]pokᵢ) against (GSigmaNeg₀, …, G₀), r = combinationCoeff -/
theorem C17gen_{pkg}_ped_batch_{tag}_abstract {{G G2 S L : Type}} [AddCommGroup G] [CommRing S] [BEq G2] (toInt : S → Int)
    (isg : G → Bool) (pc : List G → List G2 → Bool) ({sp(vkargs)} : G2) ({sp(c + pk)} : G) (co : S) :
    {ns}.{name} (L := L) toInt isg pc {sp(vkargs + c + pk)} co = Res.ok ↔
      ({" ∧ ".join(conds)} ∧
        pc [{", ".join(g1ops)}, {foldsum}] [{", ".join(sg)}, g0] = true) := by
  simp only [{ns}.{name}]
  split_ifs <;> simp_all
""")
    body = HEAD + f"""import GnarkVerif.Proofs.VerifierGenPed
import GnarkVerif.Gen.Verifier.Pedersen_{pkg}
import Mathlib.Algebra.Group.Basic
import Mathlib.Algebra.Ring.Defs
import Mathlib.Tactic.Ring
import Mathlib.Tactic.SplitIfs
/-
C17 (Pedersen), tie T for ecc/{pkg.replace("_", "-")}/fr/pedersen/pedersen.go: (*VerifyingKey).Verify and BatchVerifyMultiVk (1..3 keys; one proof of
knowledge per key, or one folded proof) as REGENERATED from the Go text (Gen/Verifier/Pedersen_{pkg}.lean).
Unmarked theorems: the generated def, read in the exponent model with the driver's dictionary `fp q` (Proofs/VerifierGenPed.lean; every
point passes `IsInSubGroup`, which is vacuous in that model), accepts exactly when `Model/ArgPairing.lean` `pedVerify` / `pedBatchVerify`
does — so `C17a_ped_*` (for `fp q`: `lawful_fp`) hold of the translated text. `_abstract`: the operands over ANY group / pairing check.
-/
{OPTS}
open GV GV.Alg GV.KZG GV.Gen.Verifier GV.VerifierGen GV.ArgPairing
namespace GV.C17gen
variable (q : ℕ) [NeZero q]

""" + "\n".join(T) + "\nend GV.C17gen\n"
    open(os.path.join(PROPS, f"C17_gen_{pkg}.lean"), "w").write(body)
    return A


def main():
    pnames = []
    for pkg in PKGS:
        pnames += ped_file(pkg)
    open(os.path.join(PROPS, "C17_gen.lean"), "w").write(
        HEAD + "".join(f"import GnarkVerif.Props.C17_gen_{p}\n" for p in PKGS) +
        "/-\nC17 tie T (Pedersen verifiers, group level): see Props/C17_gen_<curve>.lean. This root module only collects the 7 instances.\n-/\n")
    open(os.path.join(AUDIT, "C17_gen.lean"), "w").write(
        "import GnarkVerif.Props.C17_gen\nopen GV.C17gen\n" + "".join(f"#print axioms {n}\n" for n in pnames))
    print(f"C17_gen: {len(pnames)} theorems in {len(PKGS)} files")
    names = []
    for pkg in PKGS:
        names += kzg_file(pkg)
    root = HEAD + "".join(f"import GnarkVerif.Props.C11_gen_{p}\n" for p in PKGS) + """/-
C11 tie T (group level): see Props/C11_gen_<curve>.lean. This root module only collects the 7 instances.
-/
"""
    open(os.path.join(PROPS, "C11_gen.lean"), "w").write(root)
    open(os.path.join(AUDIT, "C11_gen.lean"), "w").write(
        "import GnarkVerif.Props.C11_gen\nopen GV.C11gen\n" + "".join(f"#print axioms {n}\n" for n in names))
    print(f"C11_gen: {len(names)} theorems in {len(PKGS)} files")


if __name__ == "__main__":
    main()
