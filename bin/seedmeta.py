#!/usr/bin/env python3
"""bin/seedmeta.py — (re)writes seeded/<id>/meta.json from notes.md + result.txt (what it breaks, what it needs, what was run)"""
import os, re, json, sys
ROOT = os.path.dirname(os.path.dirname(os.path.abspath(__file__)))
sd = os.path.join(ROOT, "seeded")
rows = []
for d in sorted(os.listdir(sd)):
    p = os.path.join(sd, d)
    if not os.path.isdir(p): continue
    prop = d.split("-")[0][:3]
    notes = open(os.path.join(p, "notes.md")).read() if os.path.exists(os.path.join(p, "notes.md")) else ""
    res = open(os.path.join(p, "result.txt")).read() if os.path.exists(os.path.join(p, "result.txt")) else ""
    old = json.load(open(os.path.join(p, "meta.json"))) if os.path.exists(os.path.join(p, "meta.json")) else {}
    title = next((l.strip("# ").strip() for l in notes.split("\n") if l.startswith("#")), old.get("breaks", ""))
    def section(*names):
        for n in names:
            m = re.search(r"^#+\s*[^\n]*" + n + r"[^\n]*\n(.*?)(?=^#+\s|\Z)", notes, re.S | re.M | re.I)
            if m: return " ".join(m.group(1).split())[:900]
        return ""
    files = sorted(set(re.findall(r"^\+\+\+ b/(\S+)", open(os.path.join(p, "patch.diff")).read(), re.M))) if os.path.exists(os.path.join(p, "patch.diff")) else []
    nviol = len(re.findall(r"^VIOLATION", res, re.M))
    checks = re.findall(r"^=== (\S+) on", res, re.M)
    replay = re.findall(r"^(C\d\d \S.*)$", res, re.M)
    meta = {
        "property": prop, "title": title, "files_changed": files,
        "breaks": section("which part", "breaks", "property") or old.get("breaks", title),
        "needs": section("needs", "manifest", "trigger") or old.get("needs", ""),
        "existing_tests_run": section("existing tests", "tests run") or "see notes.md",
        "demo": "demo file(s) in this directory; command in notes.md (fails with the patch, passes without it: run by the seeding agent; the patch itself was re-applied to a scratch worktree by bin/seedtest)",
        "ran": "bin/seedtest seeded/%s/patch.diff %s" % (d, " ".join(checks) or prop),
        "detected": nviol > 0,
        "detected_by": (old.get("detected_by") if old.get("detected_by") and nviol == 0 else ("%s check: %d VIOLATION line(s)" % (" ".join(checks) or prop, nviol) if nviol else "NOT detected by the quick tier (see DESIGN.md 8.4)")),
        "replay_example": (replay[0][:300] if replay else ""),
    }
    json.dump(meta, open(os.path.join(p, "meta.json"), "w"), indent=1)
    rows.append((d, nviol > 0, title[:90]))
for r in rows: print("%-8s %-5s %s" % (r[0], "HIT" if r[1] else "MISS", r[2]))
print(sum(1 for r in rows if r[1]), "/", len(rows), "detected")
