#!/usr/bin/env python3
"""Instantiate the C02 (tie T) proof scripts for every curve package from the masters.

The point formulas of gnark-crypto are generated from one Go template, so the proof script of one package works
verbatim for the others; only the module / namespace names and the way the constant b is wired into
G?Jac.IsOnCurve differ.  Masters (hand-written, edit these):
    lean/GnarkVerif/Props/C02_gen_bn254.lean      bn254 G1 -> G1 of the other short-Weierstrass packages, G2 over Fp (bw6)
    lean/GnarkVerif/Props/C02_gen_bn254_g2.lean   bn254 G2 -> G2 over E2 (bls12-381, bls12-377) and over E4 (bls24-315/317)
    lean/GnarkVerif/Props/C02_gen_te_bn254.lean   bn254 twisted Edwards -> the other 7 twisted Edwards packages
    lean/GnarkVerif/Props/C02_gen_stark.lean      stark-curve (a = 1), hand-written, not instantiated
Output: lean/GnarkVerif/Props/C02_gen_<name>.lean (checked in; re-run this script after editing a master),
lean/GnarkVerif/Props/C02_gen.lean (imports all of them) and lean/GnarkVerif/Audit/C02_gen.lean.  Nothing here is trusted: every instantiated file is checked by Lean.
"""
import os
import re
import sys

ROOT = os.path.dirname(os.path.dirname(os.path.abspath(__file__)))
PROPS = os.path.join(ROOT, "lean", "GnarkVerif", "Props")
AUDIT = os.path.join(ROOT, "lean", "GnarkVerif", "Audit")

# (file suffix, Lean namespace, module, group, b as wired into Jac.IsOnCurve (None = parameter bCurveCoeff), comment)
G1 = [
    ("bls12_381", "bls12_381", "Bls12_381", "4", "two doublings"),
    ("bls12_377", "bls12_377", "Bls12_377", "1", "b = 1: no multiplication"),
    ("bls24_315", "bls24_315", "Bls24_315", "1", "b = 1: no multiplication"),
    ("bls24_317", "bls24_317", "Bls24_317", "4", "two doublings"),
    ("bw6_761", "bw6_761", "Bw6_761", "-1", "negation"),
    ("bw6_633", "bw6_633", "Bw6_633", "4", "two doublings"),
    ("grumpkin", "grumpkin", "Grumpkin", None, "Mul by the package variable bCurveCoeff"),
    ("secp256k1", "secp256k1", "Secp256k1", None, "Mul by the package variable bCurveCoeff"),
]
# G2 with coordinates in Fp: same template with G2 names
G2FP = [
    ("bw6_761_g2", "bw6_761", "Bw6_761", "4", "two doublings"),
    ("bw6_633_g2", "bw6_633", "Bw6_633", "8", "three doublings"),
]
# G2 with coordinates in E2 (master: bn254)
G2E2 = [
    ("bls12_381_g2", "bls12_381", "Bls12_381"),
    ("bls12_377_g2", "bls12_377", "Bls12_377"),
]
TE = [
    ("te_bls12_381", "te_bls12_381", "Te_bls12_381"),
    ("te_bandersnatch", "te_bandersnatch", "Te_bandersnatch"),
    ("te_bls12_377", "te_bls12_377", "Te_bls12_377"),
    ("te_bls24_315", "te_bls24_315", "Te_bls24_315"),
    ("te_bls24_317", "te_bls24_317", "Te_bls24_317"),
    ("te_bw6_761", "te_bw6_761", "Te_bw6_761"),
    ("te_bw6_633", "te_bw6_633", "Te_bw6_633"),
]


def header(master, what):
    return ("/- INSTANTIATED by bin/mkc02gen.py from Props/%s (%s). DO NOT EDIT: edit the master and re-run the script.\n"
            "   Every statement below is checked by Lean against the defs regenerated from the Go source. -/\n" % (master, what))


def theorems(text):
    return re.findall(r"^theorem (C02gen_\w+)", text, re.M)


def inst_sw(master, suffix, ns, mod, b, note, g2):
    s = master
    s = s.replace("GnarkVerif.Gen.Curve.Bn254Alias", "GnarkVerif.Gen.Curve.%sAlias" % mod)
    s = s.replace("GV.Gen.Curve.bn254", "GV.Gen.Curve." + ns)
    s = s.replace("bn254 G1", "%s %s" % (ns, "G2 (coordinates in Fp)" if g2 else "G1"))
    s = s.replace("/repo/ecc/bn254/g1.go", "/repo/ecc/%s/%s.go" % (ns.replace("_", "-"), "g2" if g2 else "g1"))
    s = s.replace("Gen/Curve/Bn254.lean", "Gen/Curve/%s.lean" % mod)
    if b is None:
        s = s.replace("theorem G1Jac.IsOnCurve_iff (p : G1Jac F) :", "theorem G1Jac.IsOnCurve_iff (p : G1Jac F) (bc : F) :")
        s = s.replace("theorem C02gen_G1Jac_IsOnCurve (p : G1Jac F) :", "theorem C02gen_G1Jac_IsOnCurve (p : G1Jac F) (bc : F) :")
        s = s.replace("G1Jac.IsOnCurve p = true", "G1Jac.IsOnCurve p bc = true")
        s = s.replace("jacIsOnCurve 3 ", "jacIsOnCurve bc ")
        s = s.replace("(sw 0 (3 : F))", "(sw 0 bc)")
    else:
        s = s.replace("jacIsOnCurve 3 ", "jacIsOnCurve (%s) " % b)
        s = s.replace("(sw 0 (3 : F))", "(sw 0 (%s : F))" % b)
    s = s.replace("(b = 3 is hard-wired by `fp.MulBy3`)", "(b = %s: %s)" % (b if b is not None else "bCurveCoeff", note))
    if g2:
        s = s.replace("G1", "G2").replace("g1", "g2")
    return header("C02_gen_bn254.lean", "bn254 G1") + s


BETA = {"bls12_381": "(-1 : F)", "bls12_377": "(-5 : F)"}


def inst_simple(master, mname, what, suffix, ns, mod, frm_mod, frm_ns):
    s = master
    s = s.replace("import GnarkVerif.Props.C06\n", "import GnarkVerif.Props.C06_%s\n" % ns)
    s = s.replace(frm_mod, mod).replace(frm_ns, ns)
    if ns in BETA:
        s = s.replace("QuadExt.NonSquare (-1 : F)", "QuadExt.NonSquare " + BETA[ns])
    if ns == "te_bandersnatch":
        s = s.replace("def coeffA (F : Type) [Field F] : F := -1", "def coeffA (F : Type) [Field F] : F := -5")
        s = s.replace("a = -1", "a = -5")
    if ns.startswith("te_"):
        s = s.replace("/repo/ecc/bn254/twistededwards", "/repo/ecc/" + {"te_bandersnatch": "bls12-381/bandersnatch"}.get(ns, ns[3:].replace("_", "-") + "/twistededwards"))
    # the non-vacuity examples stay in the master only
    i = s.find("/-! ### non-vacuity")
    if i >= 0:
        s = s[:i] + s[s.index("end GV.Gen.Curve.", i):]
    return header(mname, what) + s


E4_COORD = '''theorem E2.IsZero_iff (z : E2 F) : E2.IsZero z = true ↔ z.spec = 0 := by
  simp only [E2.IsZero, decide_eq_true_eq, Bool.and_eq_true]
  constructor
  · rintro ⟨h0, h1⟩; ext <;> simp [h0, h1]
  · intro h; exact ⟨by simpa using congrArg QuadExt.a0 h, by simpa using congrArg QuadExt.a1 h⟩

theorem E2.Equal_iff (z x : E2 F) : E2.Equal z x = true ↔ z.spec = x.spec := by
  simp only [E2.Equal, decide_eq_true_eq, Bool.and_eq_true]
  constructor
  · rintro ⟨h0, h1⟩; ext <;> simp [h0, h1]
  · intro h; exact ⟨by simpa using congrArg QuadExt.a0 h, by simpa using congrArg QuadExt.a1 h⟩

theorem E4.IsZero_iff (z : E4 F) : E4.IsZero z = true ↔ z.spec = 0 := by
  simp only [E4.IsZero, E2.IsZero_iff, Bool.and_eq_true]
  constructor
  · rintro ⟨h0, h1⟩; ext : 1 <;> simp [h0, h1]
  · intro h; exact ⟨by simpa using congrArg QuadExt.a0 h, by simpa using congrArg QuadExt.a1 h⟩

theorem E4.Equal_iff (z x : E4 F) : E4.Equal z x = true ↔ z.spec = x.spec := by
  simp only [E4.Equal, E2.Equal_iff, Bool.and_eq_true]
  constructor
  · rintro ⟨h0, h1⟩; ext : 1 <;> simp [h0, h1]
  · intro h; exact ⟨by simpa using congrArg QuadExt.a0 h, by simpa using congrArg QuadExt.a1 h⟩

theorem E4.Equal_false_iff (z x : E4 F) : E4.Equal z x = false ↔ ¬z.spec = x.spec := by
  rw [← E4.Equal_iff, Bool.not_eq_true]

theorem E4.Inverse_spec' (x : E4 F) : (E4.Inverse x).1.spec = (x.spec)⁻¹ := E4.Inverse_spec x

theorem E4.spec_eq_iff (x y : E4 F) : x = y ↔ x.spec = y.spec := ⟨fun h => h ▸ rfl, fun h => E4.spec_injective h⟩
'''

G2E4 = [("bls24_315_g2", "bls24_315", "Bls24_315", "(13 : F)"), ("bls24_317_g2", "bls24_317", "Bls24_317", "(-1 : F)")]


def inst_e4(master, suffix, ns, mod, beta):
    s = master
    i, j = s.index("-- [coord"), s.index("-- coord]")
    s = s[:i] + "@@COORD@@" + s[j + len("-- coord]"):]
    s = s.replace("import GnarkVerif.Props.C06\n", "import GnarkVerif.Props.C06_%s\n" % ns)
    s = s.replace("Bn254", mod).replace("bn254", ns)
    s = s.replace("E2", "E4").replace("Fp2", "Fp4").replace("K2", "K4")
    s = s.replace("[QuadExt.NonSquare (-1 : F)]", "[QuadExt.NonSquare %s] [QuadExt.NonSquare (xi : Fp2 F)]" % beta)
    s = s.replace("(coordinates in E4)", "(coordinates in E4 = E2[v]/(v² − ξ))")
    s = s.replace("@@COORD@@", E4_COORD)
    k = s.find("/-! ### non-vacuity")
    if k >= 0:
        s = s[:k] + s[s.index("end GV.Gen.Curve.", k):]
    return header("C02_gen_bn254_g2.lean", "bn254 G2, coordinate field E2 -> E4") + s


def write(path, content):
    old = open(path).read() if os.path.exists(path) else None
    if old != content:
        open(path, "w").write(content)


def main():
    audit = []  # (module, namespace, theorem)
    m = open(os.path.join(PROPS, "C02_gen_bn254.lean")).read()
    audit += [("C02_gen_bn254", "GV.Gen.Curve.bn254", t) for t in theorems(m)]
    for suffix, ns, mod, b, note in G1:
        out = inst_sw(m, suffix, ns, mod, b, note, False)
        write(os.path.join(PROPS, "C02_gen_%s.lean" % suffix), out)
        audit += [("C02_gen_" + suffix, "GV.Gen.Curve." + ns, t) for t in theorems(out)]
    for suffix, ns, mod, b, note in G2FP:
        out = inst_sw(m, suffix, ns, mod, b, note, True)
        write(os.path.join(PROPS, "C02_gen_%s.lean" % suffix), out)
        audit += [("C02_gen_" + suffix, "GV.Gen.Curve." + ns, t) for t in theorems(out)]
    for mname, what, lst, frm_mod, frm_ns in (("C02_gen_bn254_g2.lean", "bn254 G2", G2E2, "Bn254", "bn254"),
                                                ("C02_gen_te_bn254.lean", "bn254 twisted Edwards", TE, "Te_bn254", "te_bn254")):
        p = os.path.join(PROPS, mname)
        if not os.path.exists(p):
            continue
        mm = open(p).read()
        nsm = re.search(r"^namespace (\S+)", mm, re.M).group(1)
        audit += [(mname[:-5], nsm, t) for t in theorems(mm)]
        for suffix, ns, mod in lst:
            out = inst_simple(mm, mname, what, suffix, ns, mod, frm_mod, frm_ns)
            write(os.path.join(PROPS, "C02_gen_%s.lean" % suffix), out)
            audit += [("C02_gen_" + suffix, nsm.replace(frm_ns, ns), t) for t in theorems(out)]
    mm = open(os.path.join(PROPS, "C02_gen_bn254_g2.lean")).read()
    for suffix, ns, mod, beta in G2E4:
        out = inst_e4(mm, suffix, ns, mod, beta)
        write(os.path.join(PROPS, "C02_gen_%s.lean" % suffix), out)
        audit += [("C02_gen_" + suffix, "GV.Gen.Curve." + ns, t) for t in theorems(out)]
    # hand-written extra files list their own theorems
    for extra in ("C02_gen_stark",):
        p = os.path.join(PROPS, extra + ".lean")
        if os.path.exists(p):
            mm = open(p).read()
            nsm = re.search(r"^namespace (\S+)", mm, re.M).group(1)
            audit += [(extra, nsm, t) for t in theorems(mm)]
    mods = []
    for mod, _, _ in audit:
        if mod not in mods:
            mods.append(mod)
    a = "import GnarkVerif.Props.C02_gen\n"
    a += "/- axiom audit of the C02 (tie T) theorems; written by bin/mkc02gen.py -/\n"
    a += "".join("#print axioms %s.%s\n" % (ns, t) for _, ns, t in audit)
    write(os.path.join(AUDIT, "C02_gen.lean"), a)
    # aggregate module: Props/C02_gen_all imports every instantiated file
    agg = "".join("import GnarkVerif.Props.%s\n" % x for x in mods)
    agg += ("/- C02 (tie T): the group-law theorems about the point formulas that tools/goslp regenerates from the Go source on\n"
            "   every run (Gen/Curve/*.lean). This module only imports the per-package files; written by bin/mkc02gen.py.\n"
            "   %d files, %d theorems `C02gen_*` (listed with their axioms in Audit/C02_gen.lean). -/\n" % (len(mods), len(audit)))
    write(os.path.join(PROPS, "C02_gen.lean"), agg)
    print("mkc02gen: %d files, %d theorems" % (len(mods), len(audit)))


if __name__ == "__main__":
    sys.exit(main())
