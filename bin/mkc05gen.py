#!/usr/bin/env python3
"""Instantiate the C05 (tie T) step-refinement proof script for the other pairing packages from the bn254 master.

The Miller-loop step functions of gnark-crypto (`(*g2Proj).doubleStep`, `addMixedStep`, `lineCompute` / `tangentLine`,
`(*G2Affine).doubleStep`, `addStep`, `doubleAndAddStep`) are the same formulas in every package; what differs is the
order in which `lineEvaluation` stores the three coefficients, the name of the line-only function and the way the twist
coefficient b' is multiplied in.  Master (hand-written, edit this): lean/GnarkVerif/Props/C05_gen_bn254.lean.
The final-exponentiation files Props/C05_gen_<name>_fe.lean are hand-written per curve (different programs).
Output: lean/GnarkVerif/Props/C05_gen_<name>.lean, lean/GnarkVerif/Props/C05_gen.lean (imports all),
lean/GnarkVerif/Audit/C05_gen.lean.  Nothing here is trusted: every instantiated file is checked by Lean.
"""
import os
import re

ROOT = os.path.dirname(os.path.dirname(os.path.abspath(__file__)))
PROPS = os.path.join(ROOT, "lean", "GnarkVerif", "Props")
AUDIT = os.path.join(ROOT, "lean", "GnarkVerif", "Audit")

TANGENT_EQ = '''/-- `tangentLine`: the line of `doubleStep`, the point is left unchanged -/
theorem g2Proj.tangentLine_eq (p : g2Proj F) (b : K2 F) (hbt : ∀ t : E2 F, (E2.MulBybTwistCurveCoeff t).1.spec = b * t.spec) :
    (g2Proj.tangentLine p).1 = p ∧
    (g2Proj.tangentLine p).2.specT = projDoubleLine b p.x.spec p.y.spec p.z.spec := by
  refine ⟨rfl, ?_⟩; gv_step [g2Proj.tangentLine, hbt]
'''
TANGENT = '''/-- **tangentLine** returns the line of `doubleStep` and leaves `p` unchanged -/
theorem C05gen_tangentLine (p : g2Proj F) :
    (g2Proj.tangentLine p).2 = (g2Proj.doubleStep p).2 ∧ (g2Proj.tangentLine p).1 = p :=
  ⟨rfl, rfl⟩
'''
BTWIST = '''/-- the twist coefficient b' the generated code multiplies by: the image of 1 under the generated `E2.MulBybTwistCurveCoeff` -/
def bTwist : K2 F := (E2.MulBybTwistCurveCoeff (E2.mk (1 : F) 0)).1.spec

/-- `hbt` holds with b' = `bTwist` (for every field F: the generated body is multiplication by a constant) -/
theorem MulBybTwistCurveCoeff_spec (t : E2 F) : (E2.MulBybTwistCurveCoeff t).1.spec = bTwist * t.spec := by
  ext <;> simp [bTwist, E2.MulBybTwistCurveCoeff, %s] <;> ring
'''
BTWIST_377 = '''/-- the twist coefficient b' = 1/u the generated code multiplies by: the image of 1 under the generated `E2.MulBybTwistCurveCoeff` -/
def bTwist : K2 F := (E2.MulBybTwistCurveCoeff (E2.mk (1 : F) 0)).1.spec

/-- `hbt` holds with b' = `bTwist` as soon as the generated literal of `Fp.MulByNonResidueInv` is (−5)⁻¹ in F (true in
    characteristic p: `C05gen_bls12_377_btwist_facts`; (A0 + A1·u) ↦ A1 + (A0·c)·u is NOT Fp2-linear for another c) -/
theorem MulBybTwistCurveCoeff_spec (hc : (-5 : F) * (Fp.MulByNonResidueInv (1 : F)).1 = 1) (t : E2 F) :
    (E2.MulBybTwistCurveCoeff t).1.spec = bTwist * t.spec := by
  simp only [Fp.MulByNonResidueInv, one_mul] at hc
  ext <;> simp only [bTwist, E2.MulBybTwistCurveCoeff, Fp.MulByNonResidueInv, E2.Set, gv_alias, E2.spec_a0, E2.spec_a1,
    QuadExt.mul_a0, QuadExt.mul_a1, one_mul, zero_mul, zero_add, add_zero]
  · linear_combination (-t.A1) * hc
  · ring
'''
NONVAC_377 = '''local instance : QuadExt.NonSquare (-5 : ℚ) := ⟨fun x h => by
  have h' : x.a0 * x.a0 + 5 * (x.a1 * x.a1) = 0 := by
    have := h; simp only [QuadExt.norm] at this; linarith
  have h0 : x.a0 = 0 := by nlinarith [mul_self_nonneg x.a0, mul_self_nonneg x.a1]
  have h1 : x.a1 = 0 := by nlinarith [mul_self_nonneg x.a0, mul_self_nonneg x.a1]
  ext <;> simp [h0, h1]⟩
'''

COORD_E4 = '''theorem K4_two : (2 : K4 F) = ⟨⟨2, 0⟩, 0⟩ := by
  rw [← one_add_one_eq_two]
  ext <;> simp <;> norm_num

/-- char K4 ≠ 2 when char F ≠ 2 -/
theorem two_ne_zero_K4 (h2 : (2 : F) ≠ 0) : (2 : K4 F) ≠ 0 := by
  intro h; apply h2; rw [K4_two] at h; simpa using congrArg (fun x : K4 F => x.a0.a0) h

/-- `E4.Halve` halves (in the field K4) -/
theorem E4.Halve_spec (x : E4 F) : (E4.Halve x).spec = x.spec / 2 := by
  by_cases h2 : (2 : F) = 0
  · have h2' : (2 : K4 F) = 0 := by rw [K4_two]; ext <;> simp [h2]
    have h11 : ((1 : F) + 1) = 0 := by rw [one_add_one_eq_two]; exact h2
    rw [h2', div_zero]
    ext <;> simp [E4.Halve, h11]
  · rw [eq_div_iff (two_ne_zero_K4 h2), K4_two]
    ext <;> simp [E4.Halve, one_add_one_eq_two, h2]

theorem E4.Div_spec' (x y : E4 F) : (E4.Div x y).1.spec = x.spec / y.spec := by
  rw [E4.Div_spec, div_eq_mul_inv]; rfl
'''
BTWIST_E4 = '''/- `hbt` stays a hypothesis for this package: the generated `E4.MulBybTwistCurveCoeff` multiplies by b' only in characteristic p
   (its body uses the literal (ξ)⁻¹ of `E2.MulByNonResidueInv`). -/
'''

# name, module, Go directory, β of E2 = Fp[u]/(u² − β), swap r0/r2, line-only function is tangentLine, simp set for bTwist
CURVES = [
    dict(ns="bls12_381", mod="Bls12_381", dir="bls12-381", beta="-1", swap=True, tangent=True,
         btw=BTWIST % "E2.Double, doubleE2, gv_alias"),
    dict(ns="bls12_377", mod="Bls12_377", dir="bls12-377", beta="-5", swap=False, tangent=False,
         btw=BTWIST_377),
    dict(ns="bls24_315", mod="Bls24_315", dir="bls24-315", beta="13", swap=False, tangent=False, e4=True, btw=BTWIST_E4),
    dict(ns="bls24_317", mod="Bls24_317", dir="bls24-317", beta="-1", swap=True, tangent=True, e4=True, btw=BTWIST_E4),
]


def region(text, name, new):
    a, b = "-- [%s\n" % name, "-- %s]\n" % name
    i, j = text.index(a), text.index(b)
    return text[:i + len(a)] + new + text[j:]


def instantiate(master, c):
    t = master.replace("This file is the MASTER of bin/mkc05gen.py (regions",
                       "INSTANTIATED by bin/mkc05gen.py from the master Props/C05_gen_@M@.lean — DO NOT EDIT: edit the master and re-run\nthe script (regions")
    e4 = c.get("e4", False)
    if e4:
        t = region(t, "coord2", "@@COORD@@")
        t = region(t, "dadd1", "")
        t = region(t, "dadd2", "")
        t = region(t, "nonvac", "")
        t = t.replace("`G2Affine.doubleAndAddStep`, ", "").replace(", affDoubleAndAddStep", "")
    if c["tangent"]:
        t = region(t, "line2eq", TANGENT_EQ)
        t = region(t, "line2", TANGENT)
        t = t.replace("`g2Proj.lineCompute`", "`g2Proj.tangentLine`")
    t = t.replace("/repo/ecc/bn254", "/repo/ecc/" + c["dir"])
    t = t.replace("Bn254", c["mod"]).replace("bn254", c["ns"])
    if e4:
        t = t.replace("[QuadExt.NonSquare (-1 : F)]", "[QuadExt.NonSquare (%s : F)] [QuadExt.NonSquare (xi : Fp2 F)]" % c["beta"])
        t = t.replace("E2", "E4").replace("Fp2 F = Fp[u]/(u²+1)", "Fp4 F").replace("K2", "K4")
        t = t.replace("[QuadExt.NonSquare (xi : Fp4 F)]", "[QuadExt.NonSquare (xi : Fp2 F)]").replace("@@COORD@@", COORD_E4)
    t = t.replace("(-1 : F)", "(%s : F)" % c["beta"]).replace("@M@", "bn" + "254")
    t = region(t, "btwist", c["btw"])
    if c["beta"] != "-1" and not e4:
        i = t.index("local instance : QuadExt.NonSquare")
        j = t.index("example : ProjRep")
        t = t[:i] + NONVAC_377 + "\n" + t[j:]
        t = t.replace("K2 = ℚ(i)", "K2 = ℚ(√%s)" % c["beta"])
    if c["swap"]:
        t = re.sub(r"\br0\b", "\0", t)
        t = re.sub(r"\br2\b", "r0", t)
        t = t.replace("\0", "r2")
    return t


def theorems(text):
    return re.findall(r"^theorem (C05gen_\w+)", text, re.M)


def main():
    master = open(os.path.join(PROPS, "C05_gen_bn254.lean")).read()
    names = ["bn254"] + [c["ns"] for c in CURVES]
    for c in CURVES:
        open(os.path.join(PROPS, "C05_gen_%s.lean" % c["ns"]), "w").write(instantiate(master, c))
    mods, audit = [], ["import GnarkVerif.Props.C05_gen",
                       "/- axiom audit of the C05 (tie T) step-refinement theorems; written by bin/mkc05gen.py -/"]
    n = 0
    for ns in names:
        for suf in ("", "_fe"):
            f = os.path.join(PROPS, "C05_gen_%s%s.lean" % (ns, suf))
            if not os.path.exists(f):
                continue
            mods.append("C05_gen_%s%s" % (ns, suf))
            txt = open(f).read()
            for th in theorems(txt):
                audit.append("#print axioms GV.Gen.Pairing.%s.%s" % (ns, th))
                n += 1
            for th in re.findall(r"^theorem (GTLaws\.pExpt\w*)", txt, re.M):
                audit.append("#print axioms GV.Gen.Pairing.%s.%s" % (ns, th))
                n += 1
    top = "".join("import GnarkVerif.Props.%s\n" % m for m in mods)
    top += ("/- C05 (tie T): step refinement of the optimised pairing code — theorems about the defs that tools/goslp regenerates from\n"
            "   ecc/<curve>/pairing.go on every run (Gen/Pairing/*.lean). This module only imports the per-package files; written by\n"
            "   bin/mkc05gen.py. %d files, %d theorems `C05gen_*` (listed with their axioms in Audit/C05_gen.lean).\n"
            "   Generic algebra: Proofs/PairingGen.lean. -/\n" % (len(mods), n))
    open(os.path.join(PROPS, "C05_gen.lean"), "w").write(top)
    open(os.path.join(AUDIT, "C05_gen.lean"), "w").write("\n".join(audit) + "\n")
    print("mkc05gen: %d files, %d theorems" % (len(mods), n))


if __name__ == "__main__":
    main()
