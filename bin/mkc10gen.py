#!/usr/bin/env python3
"""bin/mkc10gen.py — writes lean/GnarkVerif/Props/C10_gen*.lean and Audit/C10_gen.lean.

The theorems are about the defs that tools/goslp (slpfft.go) regenerates from the fft packages' Go sources on every run
(Gen/FFT/<Pkg>.lean): the unrolled butterfly kernels `kerDIFNP_32generic`, `kerDITNP_32generic`, `kerDIFNP_256generic`,
`kerDITNP_256generic` and the complete transforms `difFFT` / `ditFFT` specialised to fixed sizes (nbTasks = 1) with and without
precomputed twiddles. The script instantiates two theorems per generated target:
  <target>_go            generated def = the Go-shaped list program of Proofs/C10Gen.lean        (checked by the kernel, `kernel_rfl`)
  C10gen_<pkg>_<target>  with the table `buildTwiddles` builds and w^(n/2) = -1: generated def = DFT (Model/FFT.lean's `dft`)
The only data it takes from the generated files are the NAMES and BINDERS of the target defs (Gen/FFT/summary.json and the
`def` lines); everything is re-checked by Lean, and the files it writes are static: a change of the Go text changes the
regenerated def and breaks the `_go` theorem.
"""
import json, os, re

ROOT = os.path.dirname(os.path.dirname(os.path.abspath(__file__)))
GEN = os.path.join(ROOT, "lean", "GnarkVerif", "Gen", "FFT")
PROPS = os.path.join(ROOT, "lean", "GnarkVerif", "Props")
AUDIT = os.path.join(ROOT, "lean", "GnarkVerif", "Audit")

# package, Go directory, log2 of the kernel sizes (Model.kernelsOf)
PKGS = [("bn254", "ecc/bn254/fr/fft", [5, 8]), ("bls12_381", "ecc/bls12-381/fr/fft", [5, 8]),
        ("bls12_377", "ecc/bls12-377/fr/fft", [5, 8]), ("bls24_315", "ecc/bls24-315/fr/fft", [5, 8]),
        ("bls24_317", "ecc/bls24-317/fr/fft", [5, 8]), ("bw6_761", "ecc/bw6-761/fr/fft", [5, 8]),
        ("bw6_633", "ecc/bw6-633/fr/fft", [5, 8]), ("goldilocks", "field/goldilocks/fft", [5, 8]),
        ("koalabear", "field/koalabear/fft", [8]), ("babybear", "field/babybear/fft", [8])]

MAX_STRUCT = 32  # slp.go maxStructArr: longer arrays are functions of the index

HEAD = "/- INSTANTIATED by bin/mkc10gen.py from the target list of Gen/FFT/summary.json. DO NOT EDIT: edit the script and re-run it. -/\n"
OPTS = """set_option linter.unusedSectionVars false
set_option linter.unusedVariables false
"""


def mod(n):
    return n[0].upper() + n[1:]


def log2(n):
    return n.bit_length() - 1


def binders(line):
    """names of the explicit binders of a generated `def` line, in order"""
    i = line.index("{F : Type}") + len("{F : Type}")
    out, depth, start = [], 0, None
    j = i
    while j < len(line):
        c = line[j]
        if depth == 0 and line.startswith(" : ", j) and start is None:
            break
        if c == "(":
            if depth == 0:
                start = j
            depth += 1
        elif c == ")":
            depth -= 1
            if depth == 0:
                out.append(line[start + 1:j].split(" : ")[0])
                start = None
        elif c == "[" and depth == 0:
            j = line.index("]", j)
        j += 1
    return out


def arr_ty(n):
    return f"Arr{n} R" if n <= MAX_STRUCT else "Nat → R"


def arr_list(n, t):
    return f"{t}.toList" if n <= MAX_STRUCT else f"ofFn {n} {t}"


def lenprf(n):
    return "rfl" if n <= MAX_STRUCT else "(by simp)"


def tw_rows(card):
    rows, h = [], card // 2
    while h >= 1:
        rows.append(1 + h)
        h //= 2
    return rows


def tolists_def(card):
    rows = tw_rows(card)
    items = ", ".join(arr_list(n, f"t.r{i}") for i, n in enumerate(rows))
    return (f"/-- the rows of a `Tw{card}` (the table of a domain of cardinality {card}: {len(rows)} rows of {rows} entries) -/\n"
            f"def Tw{card}.toLists (t : Tw{card} R) : List (List R) := [{items}]\n")


def tw_literal(card, w, q):
    """the table buildTwiddles w (log2 card) over ZMod q as a structure literal (small cards only)"""
    rows = []
    for i, n in enumerate(tw_rows(card)):
        assert n <= MAX_STRUCT
        rows.append("⟨" + ", ".join(str(pow(w, j * 2 ** i, q)) for j in range(n)) + "⟩")
    return "⟨" + ", ".join(rows) + "⟩"


def pkg_file(pkg, godir, kers):
    ns = f"GV.Gen.FFT.{pkg}"
    gen = open(os.path.join(GEN, mod(pkg) + ".lean")).read()
    sig = {}
    for m in re.finditer(r"^def (\S+) \{F : Type\}.*$", gen, re.M):
        sig[m.group(1)] = binders(m.group(0))
    targets = json.load(open(os.path.join(GEN, "summary.json")))[pkg]["translated"]
    KERS = "[" + ", ".join(map(str, kers)) + "]"
    cards, body, thms = set(), [], []
    for t in targets:
        mk = re.fullmatch(r"ker(DIF|DIT)NP_(\d+)generic_n(\d+)_tw(\d+)_0", t)
        mf = re.fullmatch(r"(dif|dit)FFT_n(\d+)_tw(\d+)_(0|3)_0_m1_1", t)
        assert mk or mf, t
        bs = sig[t]
        if mk:
            d, K, n, card = mk.group(1), int(mk.group(2)), int(mk.group(3)), int(mk.group(4))
            assert K == n == card and bs == ["a", "twiddles"], (t, bs)
            k = log2(K)
            cards.add(card)
            lhs = arr_list(n, f"({t} a tw).1")
            al = arr_list(n, "a")
            go = f"goKer{d} (kerRows tw.toLists 0 {k}) {k} 1 ({al})"
            spec = f"bitReverse {k} (dft w ({al}))" if d == "DIF" else f"dft w (bitReverse {k} ({al}))"
            what = ("the DFT in bit-reversed order" if d == "DIF" else "the DFT, in natural order, of the bit-reversal of its input (DIT: the input is expected in bit-reversed order)")
            g, c = f"ker{d}_{K}_go", f"C10gen_{pkg}_ker{d}_{K}"
            body.append(f"""/-- `ker{d}NP_{K}generic(a, twiddles, 0)` as translated from the Go text is the Go-shaped stage list (every entry, by evaluation) -/
theorem {g} (a : {arr_ty(n)}) (tw : Tw{card} R) :
    {lhs} = {go} := by kernel_rfl

/-- C10gen ({pkg}): the unrolled {K}-point {d} kernel computes {what}, for every commutative ring, every `w` with
    `w^{K // 2} = -1` and the twiddle table `buildTwiddles` builds for `w` -/
theorem {c} (a : {arr_ty(n)}) (tw : Tw{card} R) (w : R)
    (htw : tw.toLists = buildTwiddles w {k}) (hw : PrimRoot w {k}) :
    {lhs} = {spec} := by
  rw [{g}, htw]
  exact goKer{d}_tw_dft _ {k - 1} w (twOK_build w {k}) _ {lenprf(n)} hw
""")
            thms += [g, c]
            continue
        d, n, card, tss = mf.group(1), int(mf.group(2)), int(mf.group(3)), int(mf.group(4))
        D = d.upper()
        m = log2(n)
        assert card == (n if tss == 0 else max(n >> 3, 1)), t
        cards.add(card)
        assert set(bs) <= {"a", "w", "twiddles"} and bs[0] == "a", (t, bs)
        args = " ".join({"a": "a", "w": "w", "twiddles": "tw"}[b] for b in bs)
        lhs = arr_list(n, f"({t} {args}).1")
        al = arr_list(n, "a")
        F = "Dif" if d == "dif" else "Dit"
        go = f"go{F}FFT {KERS} tw.toLists {tss} {m} w 0 ({al})"
        spec = f"bitReverse {m} (dft w ({al}))" if d == "dif" else f"dft w (bitReverse {m} ({al}))"
        sfx = "" if tss == 0 else "_np"
        g, c = f"{d}FFT_{n}{sfx}_go", f"C10gen_{pkg}_{d}FFT_{n}{sfx}"
        if tss == 0:
            table, twok = f"buildTwiddles w {m}", f"twOK_build w {m}"
            mode = "precomputed twiddles (`twiddlesStartStage = 0`)"
        else:
            table, twok = f"buildTwiddles (pw w (2^3)) ({m} - 3)", f"twOK_build3 w {m}"
            mode = ("no precomputed twiddles (`twiddlesStartStage = 3`: three stages with `innerD%sWithoutTwiddles`, then the table of `w^8`)" % D[:2] + D[2:])
        lemma = f"go{F}FFT_eq_dft" + ("" if d == "dif" else "'")
        what = ("the DFT in bit-reversed order" if d == "dif" else "the DFT, in natural order, of the bit-reversal of its input")
        body.append(f"""/-- `{d}FFT` on {n} elements, `nbTasks = 1`, {mode}: the def translated from the Go text is the Go-shaped recursion -/
theorem {g} (a : {arr_ty(n)}) (w : R) (tw : Tw{card} R) :
    {lhs} = {go} := by kernel_rfl

/-- C10gen ({pkg}): `{d}FFT` on {n} elements computes {what} (`w^{max(n // 2, 1)} = -1`, table as the domain builds it) -/
theorem {c} (a : {arr_ty(n)}) (w : R) (tw : Tw{card} R)
    (htw : tw.toLists = {table}) (hw : PrimRoot w {m}) :
    {lhs} = {spec} := by
  rw [{g}, htw]
  exact {lemma} {KERS} _ {tss} {m} w _ {lenprf(n)} ({twok}) hw
""")
        thms += [g, c]
    tl = "\n".join(tolists_def(c) for c in sorted(cards))
    # non-vacuity: ZMod 17, w = 3 (3^8 = -1): a table of a 16-point domain exists, hypotheses hold, and the statement is not trivial
    ex = f"""/-- a concrete instance (non-vacuity): `ZMod 17`, `w = 3` of order 16 -/
def exTw16 : Tw16 (ZMod 17) := {tw_literal(16, 3, 17)}
example : exTw16.toLists = buildTwiddles (3 : ZMod 17) 4 ∧ PrimRoot (3 : ZMod 17) 4 :=
  ⟨by decide, by show (3 : ZMod 17)^(2^3) = -1; decide⟩
example : (difFFT_n16_tw16_0_0_m1_1 ⟨1, 2, 3, 4, 5, 6, 7, 8, 9, 10, 11, 12, 13, 14, 15, 16⟩ 3 exTw16).1.toList
    = bitReverse 4 (dft (3 : ZMod 17) [1, 2, 3, 4, 5, 6, 7, 8, 9, 10, 11, 12, 13, 14, 15, 16]) := by decide
example : (difFFT_n16_tw16_0_0_m1_1 ⟨1, 2, 3, 4, 5, 6, 7, 8, 9, 10, 11, 12, 13, 14, 15, 16⟩ 3 exTw16).1.toList
    ≠ [1, 2, 3, 4, 5, 6, 7, 8, 9, 10, 11, 12, 13, 14, 15, 16] := by decide
"""
    txt = HEAD + f"""import GnarkVerif.Proofs.C10Gen
import GnarkVerif.Gen.FFT.{mod(pkg)}
import Mathlib.Data.ZMod.Basic
/-
C10 (tie T) — the FFT of /repo/{godir}: the unrolled kernels and the complete transforms on small sizes, as the Go code computes them.
Every theorem is about a def of Gen/FFT/{mod(pkg)}.lean, REGENERATED by tools/goslp (slpfft.go) from fft.go / kernel_purego.go on every run:
loops unrolled, `a[lo:hi]` sub-slices copied in and out, `fr.Butterfly` = (a+b, a−b), `Vector.Mul` element-wise, recursion of
`difFFT` / `ditFFT` unrolled with `nbTasks = 1`; arrays of at most 32 elements are the structures `ArrN` (`toList`), longer ones functions
of the index (`ofFn n`); the twiddle table is the structure `TwN` of its rows (`toLists`).
`*_go`: generated def = Go-shaped list program (Proofs/C10Gen.lean), checked entry by entry by the kernel, no hypothesis;
`C10gen_*`: hence the DFT of Model/FFT.lean (the `dft` / `bitReverse` of Props/C10.lean) over every commutative ring.
-/
{OPTS}namespace {ns}
open GV.FFT
variable {{R : Type}} [CommRing R]

{tl}
""" + "\n".join(body) + "\n" + ex + f"\nend {ns}\n"
    return txt, [f"{ns}.{t}" for t in thms]


ROOT_THMS = """
namespace GV.FFT
variable {R : Type} [CommRing R]

/-- C10gen (generic link, DIF): the Go-shaped recursion the generated `difFFT` defs are equal to (`*_go`) is the model's `difFFT`
    whenever the rows of the twiddle table start with 1 — every size, every table, every stage -/
theorem C10gen_go_difFFT_is_model (kers : List Nat) (tw : List (List R)) (tss m : Nat) (w : R) (stage : Nat) (a : List R)
    (h : HeadsOK tw tss stage m) : goDifFFT kers tw tss m w stage a = difFFT kers tw tss m w stage a :=
  goDifFFT_eq kers tw tss m w stage a h

/-- C10gen (generic link, DIT) -/
theorem C10gen_go_ditFFT_is_model (kers : List Nat) (tw : List (List R)) (tss m : Nat) (w : R) (stage : Nat) (a : List R)
    (h : HeadsOK tw tss stage m) : goDitFFT kers tw tss m w stage a = ditFFT kers tw tss m w stage a :=
  goDitFFT_eq kers tw tss m w stage a h

/-- C10gen (generic link to `Domain.FFT` of the model, hence to `C10_FFT_DIF` / `C10_FFT_DIT`): on the tables the domain passes
    down, the Go-shaped recursions ARE `FFT(·, DIF)` / `FFT(·, DIT)` without coset -/
theorem C10gen_go_is_FFT (kers : List Nat) (d : Domain R) (a : List R) (ha : a.length = 2^d.m) :
    goDifFFT kers (tables d d.gen).1 (tables d d.gen).2 d.m d.gen 0 a = FFT kers d true false a ∧
    goDitFFT kers (tables d d.gen).1 (tables d d.gen).2 d.m d.gen 0 a = FFT kers d false false a :=
  ⟨goDifFFT_tables kers d a ha, goDitFFT_tables kers d a ha⟩

/-- C10gen (generic link, kernels): the Go-shaped stage lists are the model's kernels when the rows start with 1 -/
theorem C10gen_go_kernels_are_model (k : Nat) (rows : List (List R)) (c : Nat) (a : List R)
    (h : ∀ j, j < k → (rows.getD j []).head? = some 1) :
    goKerDIF rows k c a = kerDIF rows k c a ∧ goKerDIT rows k c a = kerDIT rows k c a :=
  ⟨goKerDIF_eq k rows h c a, goKerDIT_eq k rows h c a⟩

/-- the hypothesis of the links holds for the tables of every domain (non-vacuity) -/
example (d : Domain R) : HeadsOK (tables d d.gen).1 (tables d d.gen).2 0 d.m := (tables_ok d d.gen).heads

end GV.FFT
"""


def main():
    imports, audits = [], []
    for pkg, godir, kers in PKGS:
        t, th = pkg_file(pkg, godir, kers)
        open(os.path.join(PROPS, f"C10_gen_{pkg}.lean"), "w").write(t)
        imports.append(f"C10_gen_{pkg}")
        audits += th
    generic = ["GV.FFT.C10gen_go_difFFT_is_model", "GV.FFT.C10gen_go_ditFFT_is_model", "GV.FFT.C10gen_go_is_FFT",
               "GV.FFT.C10gen_go_kernels_are_model"]
    audits += generic
    root = "".join(f"import GnarkVerif.Props.{m}\n" for m in imports)
    root += ("/- C10 (tie T): the theorems about the FFT kernels and small complete transforms that tools/goslp regenerates from the Go\n"
             "   source on every run (Gen/FFT/*.lean). This module imports the per-package files (written by bin/mkc10gen.py) and states the\n"
             "   generic links between the Go-shaped list programs and Model/FFT.lean.\n"
             f"   {len(imports)} packages, {len(audits)} theorems (listed with their axioms in Audit/C10_gen.lean). -/\n")
    root += ROOT_THMS
    open(os.path.join(PROPS, "C10_gen.lean"), "w").write(root)
    open(os.path.join(AUDIT, "C10_gen.lean"), "w").write(
        "import GnarkVerif.Props.C10_gen\n/- axiom audit of the C10 (tie T) theorems; written by bin/mkc10gen.py -/\n" +
        "".join(f"#print axioms {t}\n" for t in audits))
    print(len(imports), "packages,", len(audits), "theorems")


if __name__ == "__main__":
    main()
