#!/usr/bin/env python3
"""bin/mkc12sign.py — writes lean/GnarkVerif/Props/C12_sign_gen.lean and Audit/C12_sign_gen.lean.

The theorems are about the defs that tools/goslp (slpsign.go on top of slpgroup.go + slpsig.go) regenerates from
ecc/<curve>/twistededwards/eddsa/{eddsa,marshal}.go (+ bandersnatch) on every run (Gen/Verifier/EddsaSig_<curve>.lean). The 8 packages
come from one gnark-crypto template: per package the script instantiates `generated = template (Proofs/SigSignGen.lean) at the model's
size and modulus` (proved by `rfl`, so any changed statement breaks it) and the corollaries of the generic theorems. The script supplies
nothing but the package names.
"""
import os

ROOT = os.path.dirname(os.path.dirname(os.path.abspath(__file__)))
PROPS = os.path.join(ROOT, "lean", "GnarkVerif", "Props")
AUDIT = os.path.join(ROOT, "lean", "GnarkVerif", "Audit")
EDDSA = ["bn254", "bls12_377", "bls12_381", "bandersnatch", "bls24_315", "bls24_317", "bw6_633", "bw6_761"]
CLS = "{G Fp : Type} [Add G] [Sub G] [Neg G] [Zero G] [SMul Int G] [Add Fp] [Sub Fp] [Mul Fp] [Inv Fp] [Zero Fp] [BEq Fp]"
HYP = """(sq : Nat → Option Nat) (edA edD edCofactor : Fp) (edBase : G)
    (dec : Bytes → G) (decErr : Bytes → Res) (onC : G → Bool) (φ : G → Nat × Nat)
    (hdec : ∀ b, φ (dec b) = (PP).decompress sq b) (honC : ∀ X, onC X = (PP).onCurve (φ X))
    (herr : ∀ b : Bytes, b.length = (PP).size → (decErr b = Res.ok ↔ (PP).hasX sq b = true)) (R0 : G) (s0 buf : Bytes) (hs : s0.length = (PP).size)"""
ARGS = "sq edA edD edCofactor edBase dec decErr onC φ hdec honC herr R0 s0 buf hs"

HEADER = """/- INSTANTIATED by bin/mkc12sign.py (one proof template for all packages). DO NOT EDIT: edit the script and re-run it. -/
import GnarkVerif.Proofs.SigSignGen
IMPORTS
import GnarkVerif.Model.SigParams
/-
C12, tie T for the EdDSA signature codec: `(*Signature).SetBytes` of the 8 eddsa packages as REGENERATED from the Go text of
ecc/<curve>/twistededwards/eddsa/marshal.go (+ bandersnatch) on every run (Gen/Verifier/EddsaSig_<curve>.lean, tools/goslp/slpsign.go).

TRANSLATED statement by statement: the length test, the byte-REVERSAL loop `bufCopy[sizeFr-1-i] = buf[i]` (unrolled, index bounds
checked by the translator), `bufCopy[0] &= mUnmask`, the big-endian reading of the unmasked ordinate and of S, the tests
y = 0, y >= fr.Modulus() (the field of definition), S = 0, S >= cp.Order in the order of the Go text, sig.R.SetBytes(buf[:sizeFr]) and its
error, IsOnCurve (reported with n = sizeFr), the copy of S, the returned byte count.
PARAMETERS (not looked into): `pointSetBytes` / `pointSetBytesErr` (twistededwards PointAffine.SetBytes: receiver after the call and its
error), `isOnCurve`, the curve parameters `edOrder` (+ edA, edD, edCofactor, edBase, unused); big.Int SetBytes / Cmp are exact integers.
HYPOTHESES of the model theorems, stated explicitly: an abstraction map φ : G → ℕ × ℕ with `φ (pointSetBytes b) = EdParams.decompress sq b`
(the model's decompression; C07's territory), `isOnCurve X = EdParams.onCurve (φ X)`, `pointSetBytesErr b = nil ↔ EdParams.hasX sq b` for buffers of exactly
sizeFr bytes (the Go function fails on short buffers and, since gnark-crypto 5916472, when the ordinate has no abscissa), and `edOrder` = the model's order. `_model` instantiates them with the
model's own dictionary (so they are satisfiable).

`_shape`: generated def = template of Proofs/SigSignGen.lean at this package's size / modulus (`rfl`; a changed statement breaks it).
`_setbytes`: generated = the answer read off `EdParams.sigParse` (Model/Sig.lean) on EVERY buffer: error names in the order of the Go
text, (0, err) with the receiver untouched on every error but errNotOnCurve ((sizeFr, err), R already overwritten), (2·sizeFr, nil) otherwise.
`_setbytes_ok` / `_setbytes_err`: exact acceptance and consumed length: sigParse accepts (k, R, s) ⇒ n = k = 2·sizeFr = len(buf),
φ(sig.R) = R, sig.S = buf[sizeFr:] with big-endian value s; sigParse rejects with e ⇒ a non-nil error, the Go error named by e
(for e = noSqrt: the error of PointAffine.SetBytes itself, handed on), sig.S untouched.

KNOWN FINDINGS not hidden by this: SetBytes bounds the ordinate under the sign bit by fr.Modulus() and refuses y = 0, but a PUBLIC KEY's
ordinate is never range-checked (PublicKey.SetBytes is not translated here; see bin/kf_data.py C12) — the theorem says nothing about keys.
NOT translated yet: Sign, Signature.Bytes, PublicKey.SetBytes / Bytes (so no Bytes ∘ SetBytes round trip and no completeness of generated
Sign/Verify here; the model-level statements are C12_eddsa_* of Props/C12.lean).
-/
set_option linter.unusedVariables false
open GV GV.Sig GV.Gen.Verifier GV.SigGen GV.SigSignGen
namespace GV.C12sign
"""

PER = """
/-! ### eddsa_CC -/

/-- `fr.Modulus()` as re-read on this run is the model's field of definition; the loop count / sizes are the model's `size` -/
theorem C12sign_CC_modulus : NS.frModulus = ((PP).q : Int) ∧ 0 < (PP).size := ⟨rfl, by decide⟩

theorem C12sign_CC_setbytes_shape CLS :
    NS.Signature_SetBytes (G := G) (Fp := Fp) = edSigSetBytesT (PP).size ((PP).q : Int) := rfl

theorem C12sign_CC_setbytes CLS HYP :
    NS.Signature_SetBytes edA edD edCofactor ((PP).order : Int) edBase dec decErr onC R0 s0 buf = edSigExpected (PP) sq dec decErr R0 s0 buf := by
  rw [C12sign_CC_setbytes_shape]
  exact edSigSetBytesT_spec (PP) (by decide) ARGS

theorem C12sign_CC_setbytes_ok CLS HYP
    (k : Nat) (R : Nat × Nat) (s : Nat) (h : (PP).sigParse sq buf = .ok (k, R, s)) :
    NS.Signature_SetBytes edA edD edCofactor ((PP).order : Int) edBase dec decErr onC R0 s0 buf
        = (((2 * (PP).size : Nat) : Int), Res.ok, dec (buf.take (PP).size), buf.drop (PP).size) ∧
      buf.length = 2 * (PP).size ∧ k = 2 * (PP).size ∧ φ (dec (buf.take (PP).size)) = R ∧ beToNat (buf.drop (PP).size) = s ∧
      (buf.drop (PP).size).length = (PP).size := by
  rw [C12sign_CC_setbytes_shape]
  exact edSigSetBytesT_ok (PP) (by decide) ARGS k R s h

theorem C12sign_CC_setbytes_err CLS HYP
    (e : Err) (h : (PP).sigParse sq buf = .error e) :
    (e ≠ .noSqrt → (NS.Signature_SetBytes edA edD edCofactor ((PP).order : Int) edBase dec decErr onC R0 s0 buf).2.1 = Res.err (edErrName e)) ∧
    (NS.Signature_SetBytes edA edD edCofactor ((PP).order : Int) edBase dec decErr onC R0 s0 buf).2.1 ≠ Res.ok ∧
    (NS.Signature_SetBytes edA edD edCofactor ((PP).order : Int) edBase dec decErr onC R0 s0 buf).2.2.2 = s0 := by
  rw [C12sign_CC_setbytes_shape]
  have t := edSigSetBytesT_err (PP) (by decide) ARGS e h
  exact ⟨t.1, t.2.1, t.2.2.1⟩

/-- non-vacuity: the hypotheses hold for the model's own dictionary, for every buffer -/
theorem C12sign_CC_setbytes_model (sm : Nat → Nat × Nat → Nat × Nat) (sq : Nat → Option Nat)
    (edA edD edCofactor : EF (PP).q) (edBase R0 : EdG (PP) sm) (s0 buf : Bytes) (hs : s0.length = (PP).size) :
    NS.Signature_SetBytes (G := EdG (PP) sm) (Fp := EF (PP).q) edA edD edCofactor ((PP).order : Int) edBase
        (fun b => ⟨(PP).decompress sq b⟩) (edDecErr (PP) sq) (fun X => (PP).onCurve X.p) R0 s0 buf
      = edSigExpected (PP) sq (fun b => (⟨(PP).decompress sq b⟩ : EdG (PP) sm)) (edDecErr (PP) sq) R0 s0 buf := by
  rw [C12sign_CC_setbytes_shape]
  exact edSigSetBytesT_model (PP) (by decide) sm sq edA edD edCofactor edBase R0 s0 buf hs
"""


def main():
    names = []
    body = HEADER.replace("IMPORTS", "\n".join(f"import GnarkVerif.Gen.Verifier.EddsaSig_{c}" for c in EDDSA))
    for c in EDDSA:
        P = f"SigParams.ed_{c}"
        body += (PER.replace("HYP", HYP).replace("ARGS", ARGS).replace("CLS", CLS).replace("NS", f"eddsasig_{c}")
                 .replace("PP", P).replace("CC", c))
        names += [f"C12sign_{c}_{t}" for t in ["modulus", "setbytes_shape", "setbytes", "setbytes_ok", "setbytes_err", "setbytes_model"]]
    body += "\nend GV.C12sign\n"
    open(os.path.join(PROPS, "C12_sign_gen.lean"), "w").write(body)
    open(os.path.join(AUDIT, "C12_sign_gen.lean"), "w").write(
        "import GnarkVerif.Props.C12_sign_gen\nopen GV.C12sign GV.SigSignGen\n" +
        "".join(f"#print axioms {n}\n" for n in
                ["revFill_full", "beToNat_unmask", "edSigSetBytesT_spec", "edSigSetBytesT_ok", "edSigSetBytesT_err", "edSigSetBytesT_model"] + names))
    print(f"C12_sign_gen: {len(names)} theorems for {len(EDDSA)} packages")


if __name__ == "__main__":
    main()
