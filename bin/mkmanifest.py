#!/usr/bin/env python3
"""writes MANIFEST.json from bin/manifest_data.py (kept as code so that it is always schema-valid)"""
import json, os, sys
ROOT = os.path.dirname(os.path.dirname(os.path.abspath(__file__)))
sys.path.insert(0, os.path.join(ROOT, "bin"))
from manifest_data import CHECKS, NOT_APPLICABLE
allp = [json.loads(l)["id"] for l in open(os.path.join(ROOT, "properties.jsonl"))]
checks = []
for pid in allp:
    if pid not in CHECKS:
        continue
    c = CHECKS[pid]
    checks.append({
        "property_id": pid,
        "quick_cmd": "bin/check %s --tier quick" % pid,
        "thorough_cmd": "bin/check %s --tier thorough" % pid,
        "evidence_file": "/verif/evidence/%s.json" % pid,
        "replay_cmd_template": "bin/check %s --replay {path}" % pid,
        "engine": "lean4-proof+correspondence",
        "level_claimed": {"category": "proof", "text": c["text"], "design_ref": "DESIGN.md §3 " + pid},
        "level_note": c["note"],
        "technique": c["technique"],
    })
na = [{"property_id": p, "reason": NOT_APPLICABLE.get(p, "check not built yet (work in progress; the design in DESIGN.md §3 applies)")} for p in allp if p not in CHECKS]
m = {
    "version": 1,
    "setup_cmd": "bin/setup",
    "hooks": {"guard": "verif", "enable": "go build -tags verif -overlay /verif/hooks/overlay.json (shim files live in /verif/hooks, nothing is committed into /repo)",
              "baseline_off_cmd": json.load(open("/root/.vp/BASELINE.json"))["cmd"] if os.path.exists("/root/.vp/BASELINE.json") else "cd /repo && go test ./...",
              "source_commits": [], "add_only": True},
    "engines": [{"name": "lean4-proof+correspondence", "path": "/verif/bin/check", "serves_properties": [c["property_id"] for c in checks],
                 "kind_free_text": "Lean 4 theorems about executable models (lean/GnarkVerif), tied to /repo by a regenerating translator (tools/goslp) and by a differential correspondence harness (tools/harness vs lean_exe gvdriver)"}],
    "checks": checks,
    "notes": "See DESIGN.md. known_findings.json lists genuine defects (fixed by fix: commits in /repo, or recorded).",
    "not_applicable": na,
}
json.dump(m, open(os.path.join(ROOT, "MANIFEST.json"), "w"), indent=1)
print("checks:", [c["property_id"] for c in checks], "not claimed:", len(na))
