#!/usr/bin/env python3
"""Writes lean/GnarkVerif/Props/C02_subgroup_<curve>.lean (fast subgroup tests / cofactor clearing of the translated
g1.go / g2.go against Mathlib's group of points) and Audit/C02_subgroup.lean + Props/C02_subgroup.lean from the templates
below. Props/C02_subgroup_bls12_381.lean is the hand-written master the templates were derived from (G1 of bls12-381).
Run from the root of the tree:  python3 bin/mkc02sub.py
The per-family parts are: the group-level criterion the Go text computes, the composition proof of the SPEC, and the
integer N(x, lam) with `criterion <=> N . P = 0` on points where phi acts as [lam] (kernel-checked: r | N)."""
import os
ROOT = os.path.join(os.path.dirname(os.path.abspath(__file__)), "..", "lean", "GnarkVerif")

HEADER = '''/- WRITTEN by bin/mkc02sub.py (templates in the script). DO NOT EDIT: edit the script and re-run it. -/
import GnarkVerif.Proofs.Subgroup
@IMPORTS@
import GnarkVerif.Gen.CurveConsts
import GnarkVerif.Gen.Fields
import Mathlib.Tactic.NormNum.Pow
import Mathlib.Tactic.Module
/-
C02 (tie T) — @NS@: the FAST SUBGROUP TESTS `IsInSubGroup` (and `ClearCofactor` where it is straight-line) of
/repo/ecc/@DIR@/g1.go, g2.go as tools/goslp regenerates them from the Go text on every run (Gen/Curve/@MOD@.lean), against
Mathlib's group `(sw 0 b).Point` with the representation relation of Props/C02_gen. See Props/C02_subgroup_bls12_381.lean
for the reading of the theorem names (`_mulBySeed`, `_phi`, `_IsInSubGroup_spec` = SPEC, `_complete` / `_on_generated` =
FORWARD direction, `FastTestSound` = the published converse as a named hypothesis used by `_sound` only).
@NOTE@
-/
set_option linter.unusedSectionVars false
set_option linter.unusedVariables false
namespace GV.Gen.Curve.@NS@
open GV.Curve GV.C02 GV.CurveGen GV.Subgroup WeierstrassCurve

/-- the regenerated seed literal, the GLV eigenvalue and the group order of the package -/
abbrev seed : ℤ := GV.Gen.CurveConsts.@NS@.xGen
abbrev lam : ℤ := GV.Gen.CurveConsts.@NS@.lambdaGLV
abbrev rOrd : ℤ := (GV.Gen.@NS@_fr.q : ℤ)
'''

PRELUDE = '''
/-! ## @G@ -/
section @g@
variable {F : Type} [Field F] [DecidableEq F] {b : F} {P Q : (sw 0 b).Point}

theorem @J@.rep_add (hc : (2 : F) ≠ 0) {p q : @J@ F} {m n : ℤ} (hp : p.Rep b (m • Q)) (hq : q.Rep b (n • Q)) :
    (@J@.AddAssign p q).1.Rep b ((m + n) • Q) := by
  rw [add_smul]; exact C02gen_@J@_AddAssign hc hp hq
theorem @J@.rep_sub (hc : (2 : F) ≠ 0) {p q : @J@ F} {m n : ℤ} (hp : p.Rep b (m • Q)) (hq : q.Rep b (n • Q)) :
    (@J@.SubAssign p q).1.Rep b ((m - n) • Q) := by
  rw [sub_smul]; exact C02gen_@J@_SubAssign hc hp hq
theorem @J@.rep_dbl (hc : (2 : F) ≠ 0) {q : @J@ F} {m : ℤ} (hq : q.Rep b (m • Q)) :
    (@J@.Double q).1.Rep b ((2 * m) • Q) := by
  rw [two_mul, add_smul]; exact C02gen_@J@_Double hc hq
theorem @J@.rep_dbl' (hc : (2 : F) ≠ 0) {q : @J@ F} {m : ℤ} (hq : q.Rep b (m • Q)) :
    (@J@.Double_p_eq_q q).Rep b ((2 * m) • Q) := by
  rw [@J@.Double_p_eq_q_alias]; exact @J@.rep_dbl hc hq
theorem @J@.rep_neg {q : @J@ F} {m : ℤ} (hq : q.Rep b (m • Q)) : (@J@.Neg q).1.Rep b ((-m) • Q) := by
  rw [neg_smul]; exact C02gen_@J@_Neg hq
theorem @J@.rep_set {q : @J@ F} {m : ℤ} (hq : q.Rep b (m • Q)) : (@J@.Set q).1.Rep b (m • Q) := hq
theorem @J@.rep_repeat {f : @J@ F → @J@ F}
    (hf : ∀ (st : @J@ F) (m : ℤ), st.Rep b (m • Q) → (f st).Rep b ((2 * m) • Q))
    (n : ℕ) {q : @J@ F} {m : ℤ} (hq : q.Rep b (m • Q)) : (Nat.repeat f n q).Rep b ((2 ^ n * m) • Q) := by
  induction n with
  | zero => simpa [Nat.repeat] using hq
  | succ k ih =>
    have := hf _ _ ih
    rw [show (2 : ℤ) ^ (k + 1) * m = 2 * (2 ^ k * m) by ring]
    exact this
theorem @J@.rep_cast {q : @J@ F} {m n : ℤ} (hq : q.Rep b (m • Q)) (h : m = n) : q.Rep b (n • Q) := h ▸ hq

/-- one Go statement of a `mulBySeed` chain -/
macro "gv_seed_step_@g@" hc:term : tactic => `(tactic| first
  | exact @J@.rep_add $hc (by assumption) (by assumption)
  | exact @J@.rep_sub $hc (by assumption) (by assumption)
  | exact @J@.rep_dbl $hc (by assumption)
  | exact @J@.rep_dbl' $hc (by assumption)
  | exact @J@.rep_neg (by assumption)
  | exact @J@.rep_set (by assumption)
  | exact @J@.rep_repeat (fun _ _ h => @J@.rep_dbl' $hc h) _ (by assumption))
'''

SEED_CHAIN = '''
section
attribute [local irreducible] @J@.AddAssign @J@.SubAssign @J@.Double @J@.Set @J@.Double_p_eq_q @J@.Neg

/-- the translated `p.mulBySeed(q)` (addition chain of the Go text, walked forward one Go temporary at a time with the C02_gen
group-law theorems): a representative of `xGen • Q` -/
theorem C02sub_@J@_mulBySeed (hc : (2 : F) ≠ 0) {q : @J@ F} (hq : q.Rep b Q) :
    (@J@.mulBySeed q).1.Rep b (seed • Q) := by
  have h1 : q.Rep b ((1 : ℤ) • Q) := by rwa [one_smul]
  clear hq
  unfold @J@.mulBySeed
  extract_lets
  gv_each_let x hx : @J@.Rep b x ((_ : ℤ) • Q) => gv_seed_step_@g@ hc
  exact @J@.rep_cast (by assumption) (by decide +kernel)
end

theorem C02sub_@J@_mulBySeed_inplace (hc : (2 : F) ≠ 0) {q : @J@ F} (hq : q.Rep b Q) :
    (@J@.mulBySeed_p_eq_q q).Rep b (seed • Q) := by
  rw [@J@.mulBySeed_p_eq_q_alias]; exact C02sub_@J@_mulBySeed hc hq
'''

SEED_WINDOWED = '''
/-- SPECIFICATION of the primitive `mulWindowed(q, &xGen)` (this package implements `mulBySeed` as `p.mulWindowed(q, &xGen)`;
the window loop over a big.Int is a hand model tied by K, C03 `mulWindowed`): the result represents `xGen • Q`.
A HYPOTHESIS of every theorem of this section (`hW`). -/
def @J@.SeedSpec (b : F) (W : @J@ F → @J@ F) : Prop :=
  ∀ (q : @J@ F) (Q : (sw 0 b).Point), q.Rep b Q → (W q).Rep b (seed • Q)

theorem C02sub_@J@_mulBySeed {W : @J@ F → @J@ F} (hW : @J@.SeedSpec b W) (hc : (2 : F) ≠ 0) {q : @J@ F} (hq : q.Rep b Q) :
    (@J@.mulBySeed q W).1.Rep b (seed • Q) := hW q Q hq

theorem C02sub_@J@_mulBySeed_inplace {W : @J@ F → @J@ F} (hW : @J@.SeedSpec b W) (hc : (2 : F) ≠ 0) {q : @J@ F}
    (hq : q.Rep b Q) : (@J@.mulBySeed_p_eq_q q W).Rep b (seed • Q) := by
  rw [@J@.mulBySeed_p_eq_q_alias]; exact C02sub_@J@_mulBySeed hW hc hq
'''

PHI = '''
/-- the translated `phi`: X ← X·@ROOT@ represents φ(P), φ(x, y) = (x·ω, y) (`Subgroup.phiPt`, additive: `Subgroup.phiPt_add`) -/
theorem C02sub_@J@_phi {ω : F} (hω : ω ^ 3 = 1) {q : @J@ F} (hq : q.Rep b Q) :
    (@J@.phi q ω).1.Rep b (phiPt b ω hω Q) := JacPt.phi hω hq

theorem C02sub_@J@_Neg_inplace {q : @J@ F} (hq : q.Rep b Q) : (@J@.Neg_p_eq_q q).Rep b (-Q) := by
  rw [@J@.Neg_p_eq_q_alias]; exact C02gen_@J@_Neg hq
'''

TEST = '''
/-! ### the subgroup test -/

/-- the group-level criterion the Go text computes: @CRITDOC@ -/
def @G@Criterion (b ω : F) (hω : ω ^ 3 = 1) (P : (sw 0 b).Point) : Prop :=
  @CRIT@

/-- SPEC of `(*@J@).IsInSubGroup`: on every representative of a curve point (any Z-scaling, infinity included), exactly
`IsOnCurve ∧ criterion` -/
theorem C02sub_@J@_IsInSubGroup_spec (hc : (2 : F) ≠ 0) {ω : F} (hω : ω ^ 3 = 1)@WB@ {p : @J@ F} (hp : p.Rep b P) :
    @J@.IsInSubGroup p@WA@ ω = true ↔ (@J@.IsOnCurve p = true ∧ @G@Criterion b ω hω P) := by
@SPECBODY@
  unfold @J@.IsInSubGroup @G@Criterion
  cases hon : @J@.IsOnCurve p
  · simp
  · simpa using h5

/-- `(*@A@).IsInSubGroup` = `FromAffine`, then the Jacobian test -/
theorem C02sub_@A@_IsInSubGroup_spec (hc : (2 : F) ≠ 0) {ω : F} (hω : ω ^ 3 = 1)@WB@ {a : @A@ F} (ha : a.Rep b P) :
    @A@.IsInSubGroup a@WA@ ω = true ↔ (@J@.IsOnCurve (@J@.FromAffine a).1 = true ∧ @G@Criterion b ω hω P) := by
  unfold @A@.IsInSubGroup
  exact C02sub_@J@_IsInSubGroup_spec hc hω@HWA@ (C02gen_@J@_FromAffine ha)

/-- on a point of order dividing r' on which φ acts as [lam'], the criterion holds as soon as r' ∣ N(xGen, lam')
(N = the integer the Go text evaluates; φ is additive) -/
theorem @g@Criterion_of_eigen (hc : (2 : F) ≠ 0) {ω : F} (hω : ω ^ 3 = 1) {r' lam' : ℤ}
    (hdiv : r' ∣ @NEXPR@) (hr : r' • P = 0) (hφ : phiPt b ω hω P = lam' • P) : @G@Criterion b ω hω P := by
  have h0 : (@NEXPR@) • P = 0 := zsmul_eq_zero_of_dvd hr hdiv
  unfold @G@Criterion
@FWDBODY@

/-- the constant fact behind the forward direction: r ∣ N(xGen, lambdaGLV) (regenerated `xGen`, `lambdaGLV`, `fr.q`) -/
theorem C02sub_@g@_seed_lambda_r : (@NCONST@) % rOrd = 0 := by decide +kernel

/-- FORWARD (completeness of the test): an r-torsion point on which φ acts as [λ] passes -/
theorem C02sub_@J@_IsInSubGroup_complete (hc : (2 : F) ≠ 0) {ω : F} (hω : ω ^ 3 = 1)@WB@ {p : @J@ F} (hp : p.Rep b P)
    (hon : @J@.IsOnCurve p = true) (hr : rOrd • P = 0) (hφ : phiPt b ω hω P = lam • P) :
    @J@.IsInSubGroup p@WA@ ω = true :=
  (C02sub_@J@_IsInSubGroup_spec hc hω@HWA@ hp).mpr
    ⟨hon, @g@Criterion_of_eigen hc hω (Int.dvd_of_emod_eq_zero C02sub_@g@_seed_lambda_r) hr hφ⟩

/-- … hence every element of the cyclic group generated by a G with r • G = 0 and φ G = λ • G passes (φ additive; for the
package generator the two premises are the `decide +kernel` facts `C03gen.@NS@.@g@_on_curve_and_order_r`, `glv_@g@` of the
executable curve model) -/
theorem C02sub_@J@_IsInSubGroup_on_generated (hc : (2 : F) ≠ 0) {ω : F} (hω : ω ^ 3 = 1)@WB@ {G : (sw 0 b).Point}
    (hrG : rOrd • G = 0) (hφG : phiPt b ω hω G = lam • G) (k : ℤ) {p : @J@ F} (hp : p.Rep b (k • G))
    (hon : @J@.IsOnCurve p = true) : @J@.IsInSubGroup p@WA@ ω = true :=
  C02sub_@J@_IsInSubGroup_complete hc hω@HWA@ hp hon (torsion_on_cyclic hrG k)
    (eigen_on_cyclic (phiHom b ω hc hω) hφG k)

/-- CONVERSE (soundness of the criterion) — the PUBLISHED result, NOT proved here (@REF@): the points satisfying the
criterion are r-torsion. A hypothesis with a name; nothing but `C02sub_@J@_IsInSubGroup_sound` uses it.@SOUNDNOTE@ -/
def @G@FastTestSound (b ω : F) (hω : ω ^ 3 = 1) : Prop := ∀ P : (sw 0 b).Point, @G@Criterion b ω hω P → rOrd • P = 0

theorem C02sub_@J@_IsInSubGroup_sound (hc : (2 : F) ≠ 0) {ω : F} (hω : ω ^ 3 = 1)@WB@ (hs : @G@FastTestSound b ω hω)
    {p : @J@ F} (hp : p.Rep b P) (h : @J@.IsInSubGroup p@WA@ ω = true) : rOrd • P = 0 :=
  hs P ((C02sub_@J@_IsInSubGroup_spec hc hω@HWA@ hp).mp h).2
'''

ORDER3 = '''
/-! ### the known finding, kernel-checked: the order-3 points (0, ±√b) pass the test -/

/-- 3 ∣ N(xGen, 1): on a point fixed by φ the test only sees the order modulo 3 -/
theorem C02sub_@g@_seed_mod3 : (@N1CONST@) % 3 = 0 := by decide +kernel

/-- KNOWN FINDING (ecc/@DIR@ @G@, see known_findings.json / C07): for every y with y² = b the point P = (0, y) has order 3, is
NOT in the r-torsion, and every on-curve representative of it PASSES the translated `IsInSubGroup` (φ fixes P, so the test
evaluates [N(x, 1)]P with 3 ∣ N(x, 1)). In particular `@G@FastTestSound` is FALSE on this curve whenever b is a square. -/
theorem C02sub_@J@_order3_point_passes (hc : (2 : F) ≠ 0) {ω : F} (hω : ω ^ 3 = 1)@WB@ {y : F} (hy : y ^ 2 = b) (hb : b ≠ 0) :
    ∃ h : (sw 0 b).Nonsingular 0 y,
      (3 : ℤ) • (Affine.Point.some 0 y h) = 0 ∧ ¬ rOrd • (Affine.Point.some 0 y h) = 0 ∧
      @G@Criterion b ω hω (Affine.Point.some 0 y h) ∧
      ∀ p : @J@ F, p.Rep b (Affine.Point.some 0 y h) → @J@.IsOnCurve p = true → @J@.IsInSubGroup p@WA@ ω = true := by
  have hy0 : y ≠ 0 := by rintro rfl; exact hb (by rw [← hy]; ring)
  have h : (sw 0 b).Nonsingular 0 y := by
    rw [Affine.nonsingular_iff]
    refine ⟨?_, Or.inr ?_⟩
    · rw [sw_equation_iff]; simp only [OnCurve]; rw [hy]; ring
    · simp only [sw]
      intro h2
      have : 2 * y = 0 := by linear_combination h2
      exact hy0 ((mul_eq_zero.mp this).resolve_left hc)
  refine ⟨h, ?_⟩
  set P := Affine.Point.some 0 y h with hP
  have hφ : phiPt b ω hω P = (1 : ℤ) • P := by
    rw [one_smul, hP, phiPt_some]; exact some_congr _ _ (zero_mul ω) rfl
  have h2 : P + P = -P := by
    obtain ⟨h3, e3⟩ := C02_tangent_is_group_double hc h hy0
    obtain ⟨h', e'⟩ := neg_some_sw h
    rw [hP, e3, e']
    exact some_congr _ _ (by simp [tangent]) (by simp [tangent])
  have h3 : (3 : ℤ) • P = 0 := by
    have e : (3 : ℤ) • P = (P + P) + P := by module
    rw [e, h2, neg_add_cancel]
  have hcrit : @G@Criterion b ω hω P :=
    @g@Criterion_of_eigen hc hω (Int.dvd_of_emod_eq_zero C02sub_@g@_seed_mod3) h3 hφ
  refine ⟨h3, ?_, hcrit, fun p hp hon => (C02sub_@J@_IsInSubGroup_spec hc hω@HWA@ hp).mpr ⟨hon, hcrit⟩⟩
  intro hr
  obtain ⟨k, hk⟩ : ∃ k : ℤ, rOrd = 3 * k + 1 := ⟨rOrd / 3, by decide +kernel⟩
  rw [hk, add_smul, mul_comm, mul_smul, h3, smul_zero, zero_add, one_smul] at hr
  exact absurd hr (by rw [hP]; intro h0; cases h0)
'''

CLEAR = '''
/-! ### cofactor clearing -/

/-- `(*@J@).ClearCofactor`: @CCDOC@ -/
theorem C02sub_@J@_ClearCofactor (hc : (2 : F) ≠ 0)@WB@ {q : @J@ F} (hq : q.Rep b Q) :
    (@J@.ClearCofactor q@WA@).1.Rep b ((@CCN@) • Q) := by
@CCBODY@

/-- … which lies in the r-torsion when (@CCN@)·r kills the point (the exponent of E(F_p); hypothesis) -/
theorem C02sub_@J@_ClearCofactor_torsion (hc : (2 : F) ≠ 0)@WB@ {q : @J@ F} (hq : q.Rep b Q)
    (hexp : ((@CCN@) * rOrd) • Q = 0) :
    ∃ R : (sw 0 b).Point, (@J@.ClearCofactor q@WA@).1.Rep b R ∧ rOrd • R = 0 :=
  ⟨_, C02sub_@J@_ClearCofactor hc@HWA@ hq, by rw [← mul_smul, mul_comm]; exact hexp⟩
'''

FAMILIES = {
    "bls12": dict(
        CRITDOC="−[x²]φ(P) = P", CRIT="-(seed • seed • phiPt b ω hω P) = P",
        SPECBODY="  have h5 := C02gen_@J@_Equal (C02sub_@J@_Neg_inplace (@MSI@ (@MSI@ (C02sub_@J@_phi hω hp)))) hp",
        NEXPR="-(seed * seed * lam') - 1", NCONST="-(seed * seed * lam) - 1", N1CONST="-(seed * seed * 1) - 1",
        FWDBODY="  rw [hφ, ← sub_eq_zero]\n  have key : -(seed • seed • lam' • P) - P = (-(seed * seed * lam') - 1) • P := by module\n  rw [key]; exact h0",
        REF="Scott 2021, \"A note on group membership tests for G1, G2 and GT on BLS pairing-friendly curves\", §3; Bowe 2019"),
    "bls24": dict(
        CRITDOC="[x⁴]φ(P) + P = O (exit `res.Z.IsZero()`)", CRIT="seed • seed • seed • seed • phiPt b ω hω P + P = 0",
        SPECBODY="  have h4 := C02gen_@J@_AddAssign hc (@MSI@ (@MSI@ (@MSI@ (@MSI@ (C02sub_@J@_phi hω hp))))) hp\n  have h5 := decide_eq_true_iff.trans (JacPt.Z_eq_zero_iff h4)",
        NEXPR="seed * seed * seed * seed * lam' + 1", NCONST="seed * seed * seed * seed * lam + 1", N1CONST="seed * seed * seed * seed * 1 + 1",
        FWDBODY="  rw [hφ]\n  have key : seed • seed • seed • seed • lam' • P + P = (seed * seed * seed * seed * lam' + 1) • P := by module\n  rw [key]; exact h0",
        REF="Scott 2021 §3 (BLS24: φ(P) = −[x⁴]P)"),
    "bw6_761": dict(
        CRITDOC="−([x]P + P) = [x²]([x]φ(P) − φ(P)) + φ(P)",
        CRIT="-(seed • P + P) = seed • seed • (seed • phiPt b ω hω P - phiPt b ω hω P) + phiPt b ω hω P",
        SPECBODY="  have hf := C02sub_@J@_phi hω hp\n  have hres := C02gen_@J@_AddAssign hc (@MSI@ (@MSI@ (C02gen_@J@_SubAssign hc (@MS@ hf) hf))) hf\n  have h5 := C02gen_@J@_Equal (C02sub_@J@_Neg_inplace (C02gen_@J@_AddAssign hc (@MS@ hp) hp)) hres",
        NEXPR="-(seed + 1) - (seed * seed * (seed * lam' - lam') + lam')", NCONST="-(seed + 1) - (seed * seed * (seed * lam - lam) + lam)",
        N1CONST="-(seed + 1) - (seed * seed * (seed * 1 - 1) + 1)",
        FWDBODY="  rw [hφ, ← sub_eq_zero]\n  have key : -(seed • P + P) - (seed • seed • (seed • lam' • P - lam' • P) + lam' • P) = (-(seed + 1) - (seed * seed * (seed * lam' - lam') + lam')) • P := by module\n  rw [key]; exact h0",
        REF="El Housni–Guillevic 2022, \"Families of SNARK-friendly 2-chains of elliptic curves\", §3.3 (BW6 subgroup membership)"),
    "bw6_633": dict(
        CRITDOC="φ(P − [x]P) − [x]P + [x⁴]P + [x⁵]P = O (exit `r.Z.IsZero()`)",
        CRIT="phiPt b ω hω (P - seed • P) - seed • P + seed • seed • seed • seed • P + seed • seed • seed • seed • seed • P = 0",
        SPECBODY="  have huP := @MS@ hp\n  have hu4 := @MSI@ (@MSI@ (@MS@ huP))\n  have hu5 := @MS@ hu4\n  have hq := C02gen_@J@_SubAssign hc (C02gen_@J@_Set hp) huP\n  have hr := C02gen_@J@_AddAssign hc (C02gen_@J@_AddAssign hc (C02gen_@J@_SubAssign hc (C02sub_@J@_phi hω hq) huP) hu4) hu5\n  have h5 := decide_eq_true_iff.trans (JacPt.Z_eq_zero_iff hr)",
        NEXPR="lam' - seed * lam' - seed + seed * seed * seed * seed + seed * seed * seed * seed * seed",
        NCONST="lam - seed * lam - seed + seed * seed * seed * seed + seed * seed * seed * seed * seed",
        N1CONST="1 - seed * 1 - seed + seed * seed * seed * seed + seed * seed * seed * seed * seed",
        FWDBODY="  have e1 : phiPt b ω hω (P - seed • P) = lam' • P - seed • lam' • P := by\n    have := map_sub (phiHom b ω hc hω) P (seed • P)\n    rw [map_zsmul] at this\n    simpa [hφ] using this\n  rw [e1]\n  have key : lam' • P - seed • lam' • P - seed • P + seed • seed • seed • seed • P + seed • seed • seed • seed • seed • P = (lam' - seed * lam' - seed + seed * seed * seed * seed + seed * seed * seed * seed * seed) • P := by module\n  rw [key]; exact h0",
        REF="El Housni–Guillevic 2022 §3.3 (BW6 subgroup membership)"),
}

CC = {
    "plus": dict(CCDOC="`res.mulBySeed(q).AddAssign(q)` = [xGen + 1]Q", CCN="seed + 1",
                 CCBODY="  have h := C02gen_@J@_AddAssign hc (@MS@ hq) hq\n  rw [add_smul, one_smul]\n  exact h"),
    "minus": dict(CCDOC="`res.mulBySeed(q).Neg(&res).AddAssign(q)` = [1 − xGen]Q", CCN="-seed + 1",
                  CCBODY="  have h := C02gen_@J@_AddAssign hc (C02sub_@J@_Neg_inplace (@MS@ hq)) hq\n  rw [add_smul, one_smul, neg_smul]\n  exact h"),
}

PRIME = '''
/-! ## prime-order group: `IsInSubGroup` is `IsOnCurve` (exact given that the group of points has prime order r) -/
section prime
variable {F : Type} [Field F] [DecidableEq F]
theorem C02sub_G1Jac_IsInSubGroup_eq (p : G1Jac F)@PB@ : G1Jac.IsInSubGroup p@PA@ = G1Jac.IsOnCurve p@PA@ := rfl
theorem C02sub_G1Affine_IsInSubGroup_eq (p : G1Affine F) (b : F) : G1Affine.IsInSubGroup p b = @AFFRHS@ := rfl
end prime
'''

# (namespace, dir, module, [(group, family, windowed, clear, order3)], prime-order G1?, note)
CURVES = [
    ("bls12_377", "bls12-377", "Bls12_377", [("G1", "bls12", False, "minus", False)], None, ""),
    ("bls24_315", "bls24-315", "Bls24_315", [("G1", "bls24", True, "plus", False)], None, ""),
    ("bls24_317", "bls24-317", "Bls24_317", [("G1", "bls24", True, "minus", False)], None, ""),
    ("bw6_761", "bw6-761", "Bw6_761", [("G1", "bw6_761", False, None, False), ("G2", "bw6_761", False, None, True)], None,
     "G2 (curve y² = x³ + 4 over the same F_p, φ with thirdRootOneG2) carries the KNOWN FINDING: `C02sub_G2Jac_order3_point_passes`."),
    ("bw6_633", "bw6-633", "Bw6_633", [("G1", "bw6_633", True, None, True), ("G2", "bw6_633", True, None, False)], None,
     "G1 (curve y² = x³ + 4) carries the KNOWN FINDING: `C02sub_G1Jac_order3_point_passes`."),
]
AFFJ = "G1Jac.IsOnCurve (G1Jac.FromAffine p).1 b"
PRIMES = [("bn254", "bn254", "Bn254", "", "", "G1Affine.IsOnCurve p b"), ("secp256k1", "secp256k1", "Secp256k1", " (b : F)", " b", AFFJ),
          ("grumpkin", "grumpkin", "Grumpkin", " (b : F)", " b", AFFJ), ("stark_curve", "stark-curve", "Stark_curve", " (b : F)", " b", AFFJ)]


def sub(t, d):
    for k, v in d.items():
        t = t.replace("@" + k + "@", v)
    return t


def main():
    audit = ["import GnarkVerif.Props.C02_subgroup",
             "#print axioms GV.Subgroup.phiPt_add", "#print axioms GV.Subgroup.JacPt.phi", "#print axioms GV.Subgroup.JacPt.Z_eq_zero_iff",
             "#print axioms GV.Subgroup.eigen_on_cyclic", "#print axioms GV.Subgroup.torsion_on_cyclic", "#print axioms GV.Subgroup.zsmul_eq_zero_of_dvd"]
    for n in ["C02sub_G1Jac_mulBySeed", "C02sub_G1Jac_mulBySeed_inplace", "C02sub_G1Jac_phi", "C02sub_G1Jac_IsInSubGroup_spec",
              "C02sub_G1Jac_IsOnCurve_of_rep", "C02sub_g1_seed_lambda_r", "C02sub_G1Jac_IsInSubGroup_complete",
              "C02sub_G1Jac_IsInSubGroup_on_generated", "C02sub_G1Jac_IsInSubGroup_sound", "C02sub_G1Affine_IsInSubGroup_spec",
              "C02sub_G1Jac_ClearCofactor", "C02sub_G1Affine_ClearCofactor", "C02sub_G1Jac_ClearCofactor_torsion"]:
        audit.append("#print axioms GV.Gen.Curve.bls12_381." + n)
    mods = ["bls12_381"]
    for ns, d, mod, groups, _, note in CURVES:
        imports = ["import GnarkVerif.Props.C02_gen_" + ns]
        if any(g == "G2" for g, *_ in groups):
            imports.append("import GnarkVerif.Props.C02_gen_" + ns + "_g2")
        out = sub(HEADER, dict(IMPORTS="\n".join(imports), NS=ns, DIR=d, MOD=mod, NOTE=note))
        for g, fam, win, clear, order3 in groups:
            f = FAMILIES[fam]
            tok = dict(NS=ns, DIR=d, G=g, g=g.lower(), J=g + "Jac", A=g + "Affine", ROOT="thirdRootOne" + g,
                       WB=" {W : @J@ F → @J@ F} (hW : @J@.SeedSpec b W)" if win else "", WA=" W" if win else "",
                       HWA=" hW" if win else "",
                       MS="C02sub_@J@_mulBySeed hW hc" if win else "C02sub_@J@_mulBySeed hc",
                       MSI="C02sub_@J@_mulBySeed_inplace hW hc" if win else "C02sub_@J@_mulBySeed_inplace hc",
                       SOUNDNOTE=(" It is FALSE on this curve when b is a square: `C02sub_@J@_order3_point_passes`." if order3 else ""))
            body = PRELUDE + (SEED_WINDOWED if win else SEED_CHAIN) + PHI + TEST
            names = ["mulBySeed", "mulBySeed_inplace", "phi", "IsInSubGroup_spec", "IsInSubGroup_complete",
                     "IsInSubGroup_on_generated", "IsInSubGroup_sound"]
            extra = ["C02sub_%sAffine_IsInSubGroup_spec" % g, "%sCriterion_of_eigen" % g.lower(), "C02sub_%s_seed_lambda_r" % g.lower()]
            if order3:
                body += ORDER3
                names.append("order3_point_passes")
                extra.append("C02sub_%s_seed_mod3" % g.lower())
            if clear:
                body += sub(CLEAR, CC[clear])
                names += ["ClearCofactor", "ClearCofactor_torsion"]
            body += "\nend @g@\n"
            body = sub(body, f)
            for _ in range(3):
                body = sub(body, tok)
            out += body
            for n in names:
                audit.append("#print axioms GV.Gen.Curve.%s.C02sub_%sJac_%s" % (ns, g, n))
            for n in extra:
                audit.append("#print axioms GV.Gen.Curve.%s.%s" % (ns, n))
        out += "\nend GV.Gen.Curve.%s\n" % ns
        open(os.path.join(ROOT, "Props", "C02_subgroup_%s.lean" % ns), "w").write(out)
        mods.append(ns)
    # prime-order groups
    out = "/- WRITTEN by bin/mkc02sub.py. DO NOT EDIT. -/\nimport GnarkVerif.Proofs.CurveGen\n"
    for ns, d, mod, pb, pa, ar in PRIMES:
        out += "import GnarkVerif.Gen.Curve.%s\n" % mod
    out += "/- C02 (tie T) — the prime-order groups (bn254 G1, secp256k1, grumpkin, stark-curve): the translated `IsInSubGroup` IS the\n   translated `IsOnCurve` (definitional: the Go text is `return p.IsOnCurve()`), whose SPEC is `C02gen_G1Jac_IsOnCurve`. -/\n"
    for ns, d, mod, pb, pa, ar in PRIMES:
        out += "namespace GV.Gen.Curve.%s\n" % ns + sub(PRIME, dict(PB=pb, PA=pa, AFFRHS=ar)) + "end GV.Gen.Curve.%s\n\n" % ns
        audit.append("#print axioms GV.Gen.Curve.%s.C02sub_G1Jac_IsInSubGroup_eq" % ns)
        audit.append("#print axioms GV.Gen.Curve.%s.C02sub_G1Affine_IsInSubGroup_eq" % ns)
    open(os.path.join(ROOT, "Props", "C02_subgroup_prime.lean"), "w").write(out)
    mods.append("prime")
    top = "".join("import GnarkVerif.Props.C02_subgroup_%s\n" % m for m in mods)
    top += "/- C02 (tie T): the fast subgroup tests and cofactor clearing of the translated g1.go / g2.go (Gen/Curve/*.lean) against\n   Mathlib's group of points. This module only imports the per-curve files (written by bin/mkc02sub.py; bls12_381 is the\n   hand-written master); generic part: Proofs/Subgroup.lean. -/\n"
    open(os.path.join(ROOT, "Props", "C02_subgroup.lean"), "w").write(top)
    open(os.path.join(ROOT, "Audit", "C02_subgroup.lean"), "w").write("\n".join(audit) + "\n")


if __name__ == "__main__":
    main()
