#!/usr/bin/env python3
"""bin/mkc12gen.py — writes lean/GnarkVerif/Props/C12_gen*.lean and Audit/C12_gen.lean.

The theorems are about the defs that tools/goslp (slpgroup.go + slpsig.go) regenerates from ecc/<curve>/ecdsa/{ecdsa,marshal}.go on every
run (Gen/Verifier/Ecdsa_<curve>.lean). The 10 packages come from one gnark-crypto template: per package the script instantiates
`generated = template (Proofs/SigGen.lean) at the model's sizes` (proved by `rfl`, so any changed statement breaks it) and the corollaries
of the generic theorems of Proofs/SigGen.lean. The script supplies nothing but the package names.
"""
import os

ROOT = os.path.dirname(os.path.dirname(os.path.abspath(__file__)))
PROPS = os.path.join(ROOT, "lean", "GnarkVerif", "Props")
AUDIT = os.path.join(ROOT, "lean", "GnarkVerif", "Audit")
ECDSA = ["bn254", "bls12_377", "bls12_381", "bls24_315", "bls24_317", "bw6_633", "bw6_761", "secp256k1", "stark_curve", "grumpkin"]
HEAD = "/- INSTANTIATED by bin/mkc12gen.py (one proof template for all packages). DO NOT EDIT: edit the script and re-run it. -/\n"
CLS = "{G Fp : Type} [Add G] [Sub G] [Neg G] [Zero G] [SMul Int G] [Add Fp] [Sub Fp] [Mul Fp] [Inv Fp] [Zero Fp] [BEq Fp]"


PROOF = """  subst hh hL hR
  simp only [{ns}.PublicKey_Verify_hash]
  by_cases c1 : isOnCurve A = true
  case neg => simp [c1]
  by_cases c2 : perr sig = Res.ok
  case neg => simp [c1, c2]
  by_cases c3 : wok (fpBytes (affX (pR sig))) = true
  case neg => simp [c1, c2, c3]
  by_cases c4 : wok (fpBytes (affY (pR sig))) = true
  case neg => simp [c1, c2, c3, c4]
  by_cases c5 : wok (fpBytes (affX A)) = true
  case neg => simp [c1, c2, c3, c4, c5]
  by_cases c6 : wok (fpBytes (affY A)) = true
  case neg => simp [c1, c2, c3, c4, c5, c6]
  by_cases c7 : wok msg = true
  case neg => simp [c1, c2, c3, c4, c5, c6, c7]
  simp only [c1, c2, c3, c4, c5, c6, c7, Bool.not_true, Bool.false_eq_true, if_false, bne_self_eq_false, true_and]
  split_ifs <;> simp_all <;> (rename_i h; intro ha; rcases h with h | h <;> simp_all)
"""


def ecdsa_file(c):
    ns = f"ecdsa_{c}"
    P = f"SigParams.ec_{c}"
    names = [f"C12gen_{c}_ecdsa_order", f"C12gen_{c}_ecdsa_setbytes_shape", f"C12gen_{c}_ecdsa_verify_hash_shape",
             f"C12gen_{c}_ecdsa_verify_nohash_shape", f"C12gen_{c}_ecdsa_verify_hash", f"C12gen_{c}_ecdsa_verify_nohash",
             f"C12gen_{c}_ecdsa_sigparse", f"C12gen_{c}_ecdsa_verify_abstract"]
    body = HEAD + f"""import GnarkVerif.Proofs.SigGen
import GnarkVerif.Gen.Verifier.Ecdsa_{c}
import GnarkVerif.Gen.Fields
import GnarkVerif.Model.SigParams
/-
C12, tie T for ecc/{c.replace("_", "-")}/ecdsa: `Signature.SetBytes` and `(*PublicKey).Verify` (with and without a hash object) as REGENERATED
from the Go text (Gen/Verifier/Ecdsa_{c}.lean). `_shape`: the generated def IS the template of Proofs/SigGen.lean at this curve's scalar
size and group order (`rfl`). `_verify_hash` / `_verify_nohash`: run with the hand model's dictionary the generated Verify equals
`ECParams.verifyPK` of Model/Sig.lean (key validation - not the infinity, ON THE CURVE, `isOnCurve` = the model's curve equation - then
`ECParams.verify`) on every input, so `C12_ecdsa_verify_decides` etc. hold
of the translated text. `_verify_abstract`: over any types, the exact conjunction under which the Go text returns (true, nil).
Hypothesis `hred` of the model theorems: the x-coordinate of the point [u1]G + [u2]Q the model computes is reduced (< p); the Go code
reduces by construction, the model's `Pt Nat` does not carry that invariant.
-/
set_option linter.unusedVariables false
open GV GV.Alg GV.Sig GV.Gen.Verifier GV.SigGen
namespace GV.C12gen

/-- the group order the Go code uses (`fr.Modulus()`, re-read on this run) is the model's `n` and the modulus of Gen/Fields.lean -/
theorem C12gen_{c}_ecdsa_order : {ns}.frModulus = (({P}).n : Int) ∧ {ns}.frModulus = ((GV.Gen.{c}_fr).q : Int) := ⟨rfl, rfl⟩

theorem C12gen_{c}_ecdsa_setbytes_shape {CLS} :
    {ns}.Signature_SetBytes (G := G) (Fp := Fp) = sigSetBytesT ({P}).frBytes (({P}).n : Int) := rfl

theorem C12gen_{c}_ecdsa_verify_hash_shape {CLS} :
    {ns}.PublicKey_Verify_hash (G := G) (Fp := Fp) = ecdsaVerifyHashT ({P}).frBytes (({P}).n : Int) := rfl

theorem C12gen_{c}_ecdsa_verify_nohash_shape {CLS} :
    {ns}.PublicKey_Verify_nohash (G := G) (Fp := Fp) = ecdsaVerifyNoHashT ({P}).frBytes (({P}).n : Int) := rfl

/-- generated `Verify` with a hash object (Write succeeds iff `wok`, digest `hsum`) = the model's verdict, every input -/
theorem C12gen_{c}_ecdsa_verify_hash (sm : Int → Pt Nat → Pt Nat) (wok : Bytes → Bool) (hsum : List Bytes → Bytes)
    (Q : Pt Nat) (sig msg : Bytes) (hred : ∀ e r s x y, ({P}).verifyPoint sm Q e r s = some (x, y) → x < ({P}).p) :
    {ns}.PublicKey_Verify_hash (G := EG ({P}) sm) (Fp := EF ({P}).p) isInf isOnC modInv wok hsum (fun b => Int.ofNat (({P}).hashToInt b)) ⟨({P}).G⟩
        jacZ jacX fpToInt ⟨Q⟩ sig msg
      = toRes (({P}).verifyPK sm (some (mkHash wok hsum)) Q sig msg) := by
  rw [C12gen_{c}_ecdsa_verify_hash_shape]
  exact ecdsaVerifyHashT_model ({P}) sm (by decide) wok hsum Q sig msg hred

/-- generated `Verify` with `hFunc == nil` (the message is the digest) = the model's verdict, every input -/
theorem C12gen_{c}_ecdsa_verify_nohash (sm : Int → Pt Nat → Pt Nat) (Q : Pt Nat) (sig msg : Bytes)
    (hred : ∀ e r s x y, ({P}).verifyPoint sm Q e r s = some (x, y) → x < ({P}).p) :
    {ns}.PublicKey_Verify_nohash (G := EG ({P}) sm) (Fp := EF ({P}).p) isInf isOnC modInv (fun b => Int.ofNat (({P}).hashToInt b)) ⟨({P}).G⟩
        jacZ jacX fpToInt ⟨Q⟩ sig msg
      = toRes (({P}).verifyPK sm none Q sig msg) := by
  rw [C12gen_{c}_ecdsa_verify_nohash_shape]
  exact ecdsaVerifyNoHashT_model ({P}) sm (by decide) Q sig msg hred

/-- generated `Signature.SetBytes` = the model's `sigParse` (error names, consumed length, the two halves copied) -/
theorem C12gen_{c}_ecdsa_sigparse {CLS} (r0 s0 buf : Bytes) (hr : r0.length = ({P}).frBytes) (hs : s0.length = ({P}).frBytes) :
    {ns}.Signature_SetBytes (G := G) (Fp := Fp) r0 s0 buf =
      match ({P}).sigParse buf with
      | .error e => ((0 : Int), Res.err (errName e), r0, s0)
      | .ok (k, _, _) => ((k : Int), Res.ok, buf.take ({P}).frBytes, buf.drop ({P}).frBytes) := by
  rw [C12gen_{c}_ecdsa_setbytes_shape]
  exact sigSetBytesT_spec ({P}) r0 s0 buf hr hs

/-- abstract level: the exact acceptance condition of the Go text (see `ecdsaVerifyNoHashT_abstract`) -/
theorem C12gen_{c}_ecdsa_verify_abstract {CLS}
    (isInfinity : G → Bool) (isOnCurve : G → Bool) (modInverse : Int → Int → Int) (hashToInt : List UInt8 → Int) (g : G)
    (jacZ jacX : G → Fp) (fpToInt : Fp → Int) (Q : G) (sig msg : List UInt8)
    (r s : Nat) (hr : r = beToNat (sig.take ({P}).frBytes)) (hs : s = beToNat ((sig.drop ({P}).frBytes).take ({P}).frBytes))
    (U : G) (hU : U = (hashToInt msg * modInverse (s : Int) {ns}.frModulus % {ns}.frModulus) • g + ((r : Int) * modInverse (s : Int) {ns}.frModulus % {ns}.frModulus) • Q) :
    {ns}.PublicKey_Verify_nohash isInfinity isOnCurve modInverse hashToInt g jacZ jacX fpToInt Q sig msg = (true, Res.ok) ↔
      (isInfinity Q = false ∧ isOnCurve Q = true ∧ sig.length = 2 * ({P}).frBytes ∧ r ≠ 0 ∧ (r : Int) < {ns}.frModulus ∧ s ≠ 0 ∧ (s : Int) < {ns}.frModulus ∧
        fpToInt ((jacZ U * jacZ U)⁻¹ * jacX U) % {ns}.frModulus = (r : Int)) := by
  rw [C12gen_{c}_ecdsa_verify_nohash_shape]
  exact ecdsaVerifyNoHashT_abstract _ _ isInfinity isOnCurve modInverse hashToInt g jacZ jacX fpToInt Q sig msg r s hr hs U hU

end GV.C12gen
"""
    open(os.path.join(PROPS, f"C12_gen_{c}.lean"), "w").write(body)
    return names


EDDSA = ["bn254", "bls12_377", "bls12_381", "bandersnatch", "bls24_315", "bls24_317", "bw6_633", "bw6_761"]


def eddsa_file(c):
    ns = f"eddsa_{c}"
    names = [f"C12gen_{c}_eddsa_verify_abstract", f"C12gen_{c}_eddsa_verify_nohash"]
    body = HEAD + f"""import GnarkVerif.Gen.Verifier.Eddsa_{c}
import Mathlib.Tactic.SplitIfs
/-
C12, tie T for the EdDSA verifier of package eddsa_{c}: `(*PublicKey).Verify` as REGENERATED from the Go text (Gen/Verifier/Eddsa_{c}.lean).
`Signature.SetBytes` is NOT looked into here (parameters sigParseErr / sigParseR / sigParseS of the signature bytes: the length check,
the range checks of R and S, the decompression of R and its on-curve test stay hand model + K); the curve parameters are the parameters
edBase, edCofactor (twistededwards.GetEdwardsCurve()); the hash object is hashWriteOk / hashSum as for ECDSA.
`_verify_abstract`: over ANY types the Go text returns (true, nil) exactly when A is on the curve, the signature parses, the five Writes
(R.X, R.Y, A.X, A.Y, message) succeed, [c]([S]B) and [c]([h]A + R) are on the curve and have equal X AND equal Y coordinates
(c = cofactor, h = the digest as a big-endian integer; S is NOT reduced modulo the order here).
-/
set_option linter.unusedVariables false
open GV GV.Gen.Verifier
namespace GV.C12gen

theorem C12gen_{c}_eddsa_verify_abstract {CLS}
    (edA edD edCofactor : Fp) (edOrder : Int) (edBase : G) (isOnCurve : G → Bool) (perr : List UInt8 → Res) (pR : List UInt8 → G)
    (pS : List UInt8 → List UInt8) (affX : G → Fp) (fpBytes : Fp → List UInt8) (affY : G → Fp) (wok : List UInt8 → Bool)
    (hsum : List (List UInt8) → List UInt8) (fpToInt : Fp → Int) (A : G) (sig msg : List UInt8)
    (h : Int) (hh : h = Int.ofNat (beToNat (hsum [fpBytes (affX (pR sig)), fpBytes (affY (pR sig)), fpBytes (affX A), fpBytes (affY A), msg])))
    (L R : G) (hL : L = fpToInt edCofactor • (Int.ofNat (beToNat (pS sig)) • edBase)) (hR : R = fpToInt edCofactor • (h • A + pR sig)) :
    {ns}.PublicKey_Verify_hash edA edD edCofactor edOrder edBase isOnCurve perr pR pS affX fpBytes affY wok hsum fpToInt A sig msg = (true, Res.ok) ↔
      (isOnCurve A = true ∧ perr sig = Res.ok ∧ wok (fpBytes (affX (pR sig))) = true ∧ wok (fpBytes (affY (pR sig))) = true ∧
       wok (fpBytes (affX A)) = true ∧ wok (fpBytes (affY A)) = true ∧ wok msg = true ∧
       isOnCurve L = true ∧ isOnCurve R = true ∧ (affX L == affX R) = true ∧ (affY L == affY R) = true) := by
PROOF
/-- without a hash object the verifier refuses before anything else -/
theorem C12gen_{c}_eddsa_verify_nohash {CLS} (A : G) (sig msg : List UInt8) :
    {ns}.PublicKey_Verify_nohash (Fp := Fp) A sig msg = (false, Res.err "errHashNeeded") := rfl

end GV.C12gen
""".replace("PROOF", PROOF.replace("{ns}", ns))
    open(os.path.join(PROPS, f"C12_gen_eddsa_{c}.lean"), "w").write(body)
    return names


def main():
    names = []
    for c in ECDSA:
        names += ecdsa_file(c)
    for c in EDDSA:
        names += eddsa_file(c)
    open(os.path.join(PROPS, "C12_gen.lean"), "w").write(
        HEAD + "".join(f"import GnarkVerif.Props.C12_gen_{c}\n" for c in ECDSA) + "".join(f"import GnarkVerif.Props.C12_gen_eddsa_{c}\n" for c in EDDSA) +
        "/-\nC12 tie T (signature verifiers): see Props/C12_gen_<curve>.lean and Proofs/SigGen.lean. This root module only collects the instances.\n-/\n")
    open(os.path.join(AUDIT, "C12_gen.lean"), "w").write(
        "import GnarkVerif.Props.C12_gen\nopen GV.C12gen GV.SigGen\n" +
        "".join(f"#print axioms {n}\n" for n in
                ["sigSetBytesT_spec", "ecdsaVerifyHashT_model", "ecdsaVerifyNoHashT_model", "ecdsaVerifyNoHashT_abstract"] + names))
    print(f"C12_gen: {len(names)} theorems in {len(ECDSA) + len(EDDSA)} files")


if __name__ == "__main__":
    main()
