#!/bin/bash
# bin/seedall.sh <ID> [check ids…]  — store /tmp/mut/<ID>/out/patch{1,2,3} under seeded/ and run the checks against each
id=$1; shift; checks=${@:-$id}
for i in 1 2 3; do
  src=/tmp/mut/$id/out; [ -f $src/patch$i.diff ] || continue
  d=/verif/seeded/$id-$i; mkdir -p $d
  if [ -f $d/patch.rebased.diff ]; then cp $d/patch.rebased.diff $d/patch.diff; else cp $src/patch$i.diff $d/patch.diff; fi; cp $src/notes$i.md $d/notes.md 2>/dev/null; cp $src/demo$i* $d/ 2>/dev/null; [ -d $src/demo$i ] && cp -r $src/demo$i $d/
  /verif/bin/seedtest $d/patch.diff $checks > $d/result.txt 2>&1
  echo "$id-$i: $(grep -c '^VIOLATION' $d/result.txt) violations; $(grep 'exit=' $d/result.txt | tr '\n' ' ')"
done
