#!/usr/bin/env python3
"""bin/mkc14perm.py — writes lean/GnarkVerif/Props/C14_perm*.lean and Audit/C14_perm.lean.

The theorems are about the defs `Permutation.Permutation_t<w>_rf<rf>_rp<rp>_n<w>` that tools/goslp (slpperm.go) regenerates from
`(*Permutation).Permutation` of the 11 Poseidon2 packages on every run (Gen/Hash/P2_<pkg>.lean): generated def = `permute` of the
hand model Model/Poseidon2.lean, for all inputs and all round keys. The script instantiates one template per package; the data it
supplies are the package table below (S-box kind, M4 variant, name of the hand diagonal table — the same table as bin/mkc14gen.py)
and the list of translated (width, rf, rp), which it READS from Gen/Hash/summary.json (and which each file re-states as a theorem
about the generated constant `Permutation.instances`, so a change of the translated set breaks the build until the script is re-run).
Every proof composes the per-layer theorems of Props/C14_gen_p2_<pkg>.lean round by round. Everything is re-checked by Lean.
"""
import json, os

ROOT = os.path.dirname(os.path.dirname(os.path.abspath(__file__)))
GEN = os.path.join(ROOT, "lean", "GnarkVerif", "Gen", "Hash")
PROPS = os.path.join(ROOT, "lean", "GnarkVerif", "Props")
AUDIT = os.path.join(ROOT, "lean", "GnarkVerif", "Audit")

CURVES = [("bn254", "d5", 5), ("bls12_381", "d5", 5), ("bls12_377", "d17", 17), ("bw6_761", "d5", 5),
          ("bls24_315", "d5", 5), ("bls24_317", "d7a", 7), ("bw6_633", "d5", 5), ("grumpkin", "d5", 5)]
SMALL = [("koalabear", "d3", 3, "plonky", {16: "kbDiag16", 24: "kbDiag24"}),
         ("babybear", "d7b", 7, "plonky", {16: "bbDiag16", 24: "bbDiag24"}),
         ("goldilocks", "d7b", 7, "paper", {8: "glDiag8", 12: "glDiag12"})]
MODELNAME = {"bls12_381": "bls12-381", "bls12_377": "bls12-377", "bw6_761": "bw6-761", "bls24_315": "bls24-315",
             "bls24_317": "bls24-317", "bw6_633": "bw6-633"}
GUARD = "if len(input) != h.params.Width { return ErrInvalidSizebuffer }"

HEAD = """/- INSTANTIATED by bin/mkc14perm.py from the package table of the script and Gen/Hash/summary.json. DO NOT EDIT: edit the script and re-run it. -/
"""
OPTS = """set_option linter.unusedSectionVars false
set_option linter.unusedVariables false
set_option linter.unusedSimpArgs false
set_option linter.unnecessarySeqFocus false
"""


def nest(fs, x):
    for f in fs:
        x = f"({f} {x})"
    return x


def perm_thm(pkg, w, rf, rp, inst, ring):
    name = f"Permutation.Permutation_t{w}_rf{rf}_rp{rp}_n{w}"
    rcarg = " rc" if rf + rp > 0 else ""
    I = inst.format(rf=rf, rp=rp)
    thm = f"C14perm_{pkg}_t{w}_rf{rf}_rp{rp}"
    return thm, f"""set_option maxRecDepth 100000 in
/-- **Permutation, t = {w}, rf = {rf}, rp = {rp}**: the generated composition (external layer, {rf // 2} full rounds, {rp} partial rounds,
{rf - rf // 2} full rounds, as unrolled from the Go loops) is `permute` of the hand model, for every input and every round-key table -/
theorem {thm} (x : Arr{w} {ring}) (rc : Nat → Nat → {ring}) :
    ({name} x{rcarg}).toList = permute (ringOps {ring}) {I} x.toList := by
  simp only [{name}]
  try simp only [fullRound_t{w} {rf} {rp} rc, partialRound_t{w} {rf} {rp} rc, Arr1.toList_mk, Arr{w}.toList_mk]
  rw [ext_t{w} {rf} {rp} rc]
  unfold permute
  simp only [instOf, keysOf]
  simp [List.range_succ]
"""


def exec_thm(pkg, w, rf, rp, kind):
    name = f"Permutation.Permutation_t{w}_rf{rf}_rp{rp}_n{w}"
    rc = "(fun i j => ((rcOf 0 keys i j : ℕ) : ZMod q))"
    rcarg = " " + rc if rf + rp > 0 else ""
    xs = " ".join(f"x{i}" for i in range(w))
    xl = ", ".join(f"x{i}" for i in range(w))
    xc = ", ".join(f"(x{i} : ZMod q)" for i in range(w))
    thm = f"C14perm_{pkg}_t{w}_rf{rf}_rp{rp}_exec"
    return thm, f"""/-- … hence the EXECUTABLE model (arithmetic mod q on `Nat`, the oracle of tie K) on any accepted key table, read in `ZMod q` -/
theorem {thm} (q : ℕ) (keys : List (List ℕ)) (h : keysShapeOk {w} {rf} {rp} keys q = true) ({xs} : ℕ) :
    ({name} (⟨{xc}⟩ : Arr{w} (ZMod q)){rcarg}).toList =
      (permute (natOps q) {{ t := {w}, sb := .{kind}, m4k := .paper, diag := [], rf := {rf}, rp := {rp}, keys := keys }} [{xl}]).map Nat.cast := by
  rw [C14perm_{pkg}_t{w}_rf{rf}_rp{rp} _ {rc}, C14perm_exec q _ h]
  simp [Arr{w}.toList]
"""


def width_lemmas(w, inst, ring, small):
    I = inst.format(rf="rf", rp="rp")
    sb = nest([f"Permutation.sBox_t{w}_{j}_n{w}" for j in range(w)], f"(Permutation.addRoundKeyInPlace_t{w}_n{w} x k)")
    es = " ".join(f"a{i}" for i in range(w))
    lst = ", ".join(f"a{i}" for i in range(w))
    k = "4k" if small else "23"
    return f"""theorem Arr{w}.toList_mk ({es} : {ring}) : (Arr{w}.mk {es}).toList = [{lst}] := rfl

/-- the initial external layer -/
theorem ext_t{w} (rf rp : Nat) (rc : Nat → Nat → {ring}) (x : Arr{w} {ring}) :
    (Permutation.matMulExternalInPlace_t{w}_n{w} x).toList = extL (ringOps {ring}) {I} x.toList := by
  rw [extL_{k} _ _ (by simp [instOf])]; exact matMulExternal_t{w}_eq x

/-- one FULL round of the Go loop body (`addRoundKeyInPlace(i, ·)` with a row of {w} keys, `sBox(j, ·)` for j = 0 … {w - 1},
`matMulExternalInPlace`) is `fullRound` of the hand model: by the layer theorems `matMulExternal_t{w}_eq`, `addRoundKey_t{w}_eq` and the
S-box chains (`rfl`, as in `sBox_eq`) -/
theorem fullRound_t{w} (rf rp : Nat) (rc : Nat → Nat → {ring}) (x k : Arr{w} {ring}) :
    (Permutation.matMulExternalInPlace_t{w}_n{w} {sb}).toList =
      fullRound (ringOps {ring}) {I} x.toList k.toList := by
  rw [matMulExternal_t{w}_eq, fullRound, extL_{k} _ _ (by simp [instOf]), ← addRoundKey_t{w}_eq]
  rfl

/-- one PARTIAL round (`addRoundKeyInPlace(i, ·)` with a row of ONE key, `sBox(0, ·)`, `matMulInternalInPlace`) is `partialRound`:
by the layer theorem `matMulInternal_t{w}_eq` -/
theorem partialRound_t{w} (rf rp : Nat) (rc : Nat → Nat → {ring}) (x : Arr{w} {ring}) (k : Arr1 {ring}) :
    (Permutation.matMulInternalInPlace_t{w}_n{w} (Permutation.sBox_t{w}_0_n{w}
      (Permutation.addRoundKeyInPlace_t{w}_k1_n{w} x k))).toList =
      partialRound (ringOps {ring}) {I} x.toList k.toList := by
  rw [matMulInternal_t{w}_eq, partialRound, intL_{k} _ _ (by simp [instOf])]
  rfl

"""


def p2ref(d, rf, rp, keys, x, q):
    """tiny reference for the non-vacuity example (t = 2)"""
    ext = lambda v: [(2 * v[0] + v[1]) % q, (v[0] + 2 * v[1]) % q]
    itl = lambda v: [(2 * v[0] + v[1]) % q, (v[0] + 3 * v[1]) % q]
    x = ext(x)
    h = rf // 2
    for i in range(rf + rp):
        if h <= i < h + rp:
            x = itl([pow(x[0] + keys[i][0], d, q), x[1]])
        else:
            x = ext([pow(x[0] + keys[i][0], d, q), pow(x[1] + keys[i][1], d, q)])
    return x


def pkg_file(pkg, kind, d, m4, diags, insts, dflt, fast):
    small = diags is not None
    ns = f"GV.Gen.Hash.p2_{pkg}"
    ring = "F" if small else "R"
    ws = sorted({w for w, _, _ in insts})
    src = f"/repo/field/{pkg}/poseidon2" if small else f"/repo/ecc/{pkg.replace('_', '-')}/fr/poseidon2"
    names = []
    t = HEAD + f"""import GnarkVerif.Props.C14_gen_p2_{pkg}
import GnarkVerif.Props.C14_perm_model
/-
C14 (tie T) — Poseidon2 over {pkg}: the COMPOSITION of the layers, `(*Permutation).Permutation(input)` of {src}/poseidon2.go.
`Permutation.Permutation_t<w>_rf<rf>_rp<rp>_n<w>` (Gen/Hash/P2_{pkg}.lean) is REGENERATED by tools/goslp (slpperm.go) on every run: the width
and the round counts are translation-time constants, the three round loops are unrolled with the bounds written in the Go source, the
body is a chain of calls of the generated layer defs; `rc i j` stands for `h.params.RoundKeys[i][j]` (abstract), the LENGTH of each row
is read from `(*Parameters).initRC`. Theorems: the generated def is `permute` of Model/Poseidon2.lean for every input and every key
table, proved by rewriting round by round with the layer theorems of Props/C14_gen_p2_{pkg}.lean (no algebra on the unrolled term).
Error result: the only reachable `return <error>` is the first statement (`lengthGuard`), decided false because the buffer has the width.
{'AVX-512 fast paths (`fastPath`): the def is the generic path (flags false); the assembly is tied by K only.' if fast else ''}
-/
{OPTS}namespace {ns}
open GV.Poseidon2 GV.C14perm{' GV.C14gen' if small else ''}
variable {{{ring} : Type}} [{'Field' if small else 'CommRing'} {ring}]

theorem Arr1.toList_mk (a : {ring}) : (Arr1.mk a).toList = [a] := rfl

"""
    for w in ws:
        diag = f"({diags[w]}.map coef)" if small else "[]"
        inst = f"(instOf {w} .{kind} .{m4} {diag} {{rf}} {{rp}} rc)"
        t += width_lemmas(w, inst, ring, small)
        names += [f"ext_t{w}", f"fullRound_t{w}", f"partialRound_t{w}"]
        for (w2, rf, rp) in insts:
            if w2 == w:
                n, th = perm_thm(pkg, w, rf, rp, inst, ring)
                t += th + "\n"
                names.append(n)
                if not small:
                    n, th = exec_thm(pkg, w, rf, rp, kind)
                    t += th + "\n"
                    names.append(n)
    tl = ", ".join(f"({w}, {rf}, {rp})" for w, rf, rp in insts)
    fl = ", ".join('("%s", "%s")' % kv for kv in sorted(fast.items()))
    mname = MODELNAME.get(pkg, pkg)
    t += f"""/-- what the translator covered and decided: the (width, rf, rp) above are ALL the translated instances; they contain the
registered parameters `NewParameters{tuple(dflt)}` of hash.go, which are the defaults of the model's package table; `Permutation`
returns an error exactly through its first statement, the length guard; the fast-path flags it reads (taken to be false) -/
theorem C14perm_{pkg}_covered :
    Permutation.instances = [{tl}] ∧
    Permutation.defaultParameters ∈ Permutation.instances ∧
    (pkgs.find? (·.name == "{mname}")).map (·.dflt) = some Permutation.defaultParameters ∧
    Permutation.lengthGuard = "{GUARD}" ∧
    Permutation.fastPath = [{fl}] := by
  refine ⟨rfl, by decide, by decide, by decide, by decide⟩
"""
    names.append(f"C14perm_{pkg}_covered")
    if not small and (2, 2, 1) in insts:
        keys = [[1, 2], [3], [4, 5]]
        y = p2ref(d, 2, 1, keys, [1, 2], 7)
        t += f"""
/-- non-vacuity: t = 2, rf = 2, rp = 1 over ZMod 7, keys [[1, 2], [3], [4, 5]], input [1, 2] (the same numbers from the executable model) -/
example : (Permutation.Permutation_t2_rf2_rp1_n2 (⟨1, 2⟩ : Arr2 (ZMod 7)) (rcOf 0 [[1, 2], [3], [4, 5]])).toList = [{y[0]}, {y[1]}] := by decide
example : permute (natOps 7) {{ t := 2, sb := .{kind}, m4k := .paper, diag := [], rf := 2, rp := 1, keys := [[1, 2], [3], [4, 5]] }} [1, 2] = [{y[0]}, {y[1]}] := by decide
"""
    t += f"\nend {ns}\n"
    return t, [f"{ns}.{n}" for n in names]


MODELDOC = """/- written by bin/mkc14perm.py (constant text). DO NOT EDIT: edit the script and re-run it. -/
import GnarkVerif.Props.C14
import GnarkVerif.Proofs.C14Perm
import GnarkVerif.Proofs.Poseidon2Hom
/-
C14 (tie T, composition of the Poseidon2 layers) — the package-independent, MODEL-side facts: when the executable model returns an
error, the shape of the key tables it accepts, and the bridge from the executable `Nat`-mod-q model to the form
`permute (ringOps (ZMod q)) (instOf …)` in which the generated `Permutation` defs are stated (Props/C14_perm_<pkg>.lean).
-/
namespace GV.Poseidon2
open GV.C14perm

/-- the executable model returns an error (`none`) exactly when the length of the buffer is not the width — the model's side of
the length guard `len(input) != h.params.Width` that every `Permutation.lengthGuard` states -/
theorem C14perm_model_error_iff (C : CInst) (x : List Nat) : C.perm x = none ↔ x.length ≠ C.inst.t := by
  unfold CInst.perm; split <;> simp_all

/-- a key table accepted by the model (`keysShapeOk`) has the row lengths `keysOf` produces (the shape the translator read from initRC) -/
theorem C14perm_keys_shape (t rf rp q : Nat) (keys : List (List Nat)) (h : keysShapeOk t rf rp keys q = true) :
    keys.map List.length = (keysOf t rf rp (rcOf 0 keys)).map List.length := by
  have hl : keys.length = rf + rp := by
    simp only [keysShapeOk, Bool.and_eq_true, beq_iff_eq] at h; exact h.1.1.1.1
  apply List.ext_getElem
  · simp [keysOf, hl]
  · intro i h1 h2
    simp only [List.length_map] at h1
    simp only [keysShapeOk, Bool.and_eq_true, beq_iff_eq, List.all_eq_true] at h
    obtain ⟨⟨⟨⟨_, ha⟩, hb⟩, hc⟩, _⟩ := h
    simp only [List.getElem_map, keysOf, List.getElem_range, List.length_map, List.length_range]
    by_cases c1 : i < rf / 2
    · have : keys[i] ∈ keys.take (rf / 2) := by
        rw [List.mem_take_iff_getElem]; exact ⟨i, by omega, rfl⟩
      rw [ha _ this, if_neg (by omega)]
    · by_cases c2 : i < rf / 2 + rp
      · have : keys[i] ∈ (keys.drop (rf / 2)).take rp := by
          rw [List.mem_take_iff_getElem]
          refine ⟨i - rf / 2, by simp; omega, ?_⟩
          simp only [List.getElem_drop]; congr 1; omega
        rw [hb _ this, if_pos (by omega)]
      · have : keys[i] ∈ keys.drop (rf / 2 + rp) := by
          rw [List.mem_drop_iff_getElem]
          refine ⟨i - (rf / 2 + rp), by omega, ?_⟩
          congr 1; omega
        rw [hc _ this, if_neg (by omega)]

theorem list_eq_range_getD {α : Type} (z : α) (l : List α) : l = (List.range l.length).map (fun j => l.getD j z) := by
  apply List.ext_getElem
  · simp
  · intro i h1 h2
    simp [List.getD_eq_getElem?_getD, List.getElem?_eq_getElem h1]

/-- a key table accepted by the model IS `keysOf` of its accessor -/
theorem C14perm_keys_eq (t rf rp q : Nat) (keys : List (List Nat)) (h : keysShapeOk t rf rp keys q = true) :
    keys = keysOf t rf rp (rcOf 0 keys) := by
  have hs := C14perm_keys_shape t rf rp q keys h
  have hl : keys.length = rf + rp := by
    simpa [keysOf] using congrArg List.length hs
  apply List.ext_getElem
  · simp [keysOf, hl]
  · intro i h1 h2
    have hi : (keys[i]).length = if rf / 2 ≤ i ∧ i < rf / 2 + rp then 1 else t := by
      have := congrArg (fun l => l[i]?) hs
      simp only [List.getElem?_map, List.getElem?_eq_getElem h1, List.getElem?_eq_getElem h2, Option.map_some, Option.some.injEq] at this
      rw [this]; simp [keysOf]
    simp only [keysOf, List.getElem_map, List.getElem_range]
    rw [← hi]
    have hr : rcOf 0 keys i = fun j => (keys[i]).getD j 0 := by
      funext j; simp [rcOf, List.getD_eq_getElem?_getD, List.getElem?_eq_getElem h1]
    rw [hr]
    exact list_eq_range_getD 0 _

/-- **the executable model on an accepted key table is the algebraic permutation on `keysOf`** — the right-hand side is the form
in which the generated `Permutation` defs are stated (Props/C14_perm_<pkg>) -/
theorem C14perm_exec (q : ℕ) (I : Inst ℕ) (h : keysShapeOk I.t I.rf I.rp I.keys q = true) (x : List ℕ) :
    (permute (natOps q) I x).map (Nat.cast : ℕ → ZMod q) =
      permute (ringOps (ZMod q)) (instOf I.t I.sb I.m4k (I.diag.map Nat.cast) I.rf I.rp (fun i j => ((rcOf 0 I.keys i j : ℕ) : ZMod q)))
        (x.map Nat.cast) := by
  rw [C14_p2_permute_field]
  congr 1
  simp only [Inst.map, instOf, Inst.mk.injEq, true_and]
  conv_lhs => rw [C14perm_keys_eq I.t I.rf I.rp q I.keys h]
  simp [keysOf, List.map_map, Function.comp_def]
end GV.Poseidon2
"""

ROOTDOC = """/- C14 (tie T): `Permutation` (the composition of the Poseidon2 layers) as regenerated by tools/goslp (slpperm.go) on every run equals
   `permute` of Model/Poseidon2.lean. This module only imports the per-package files and Props/C14_perm_model.lean; written by bin/mkc14perm.py. -/
"""


def main():
    summ = json.load(open(os.path.join(GEN, "summary.json")))
    imports, audits = [], []
    table = [(p, k, d, "paper", None) for p, k, d in CURVES] + SMALL
    for pkg, kind, d, m4, diags in table:
        pi = summ["p2_" + pkg]["permutation"]
        insts = [tuple(x) for x in pi["triples"]]
        t, th = pkg_file(pkg, kind, d, m4, diags, insts, pi["defaultParameters"], pi.get("fastPath") or {})
        open(os.path.join(PROPS, f"C14_perm_{pkg}.lean"), "w").write(t)
        imports.append(f"C14_perm_{pkg}")
        audits += th
    audits += ["GV.Poseidon2." + n for n in ("C14perm_model_error_iff", "C14perm_keys_shape", "C14perm_keys_eq", "C14perm_exec")]
    open(os.path.join(PROPS, "C14_perm_model.lean"), "w").write(MODELDOC)
    root = "import GnarkVerif.Props.C14_perm_model\n" + "".join(f"import GnarkVerif.Props.{m}\n" for m in imports) + ROOTDOC
    open(os.path.join(PROPS, "C14_perm.lean"), "w").write(root)
    open(os.path.join(AUDIT, "C14_perm.lean"), "w").write(
        "import GnarkVerif.Props.C14_perm\n/- axiom audit of the C14 (tie T, composition of the Poseidon2 layers) theorems; written by bin/mkc14perm.py -/\n" +
        "".join(f"#print axioms {t}\n" for t in audits))
    print(len(imports), "packages,", len(audits), "theorems")


if __name__ == "__main__":
    main()
