#!/bin/bash
# bin/integrate.sh <scratch-name>  — copy NEW Lean/Go files of a builder slice into /verif; list changed shared files
S=/verif/scratch/$1
cd $S/lean || exit 1
for f in $(find GnarkVerif -name '*.lean' | grep -v '/Gen/'); do
  if [ ! -f /verif/lean/$f ]; then mkdir -p /verif/lean/$(dirname $f); cp $f /verif/lean/$f; echo "new  lean/$f"; 
  elif ! cmp -s $f /verif/lean/$f; then echo "DIFF lean/$f"; fi
done
cd $S/harness 2>/dev/null || exit 0
for f in $(ls | grep -v '^go\.\(sum\|mod\)$' | grep -v '^gvharness'); do
  [ -f "$f" ] || continue
  if [ ! -f /verif/tools/harness/$f ]; then cp $f /verif/tools/harness/$f; echo "new  harness/$f";
  elif ! cmp -s $f /verif/tools/harness/$f; then echo "DIFF harness/$f"; fi
done
