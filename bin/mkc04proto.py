#!/usr/bin/env python3
"""Instantiates lean/GnarkVerif/Props/C04_proto.lean and Audit/C04_proto.lean (C04, tie T on the goroutine / channel protocol of
the MSM) from the templates below: one statement per function kind x package about the skeletons that tools/goslp/proto.go
regenerates into Gen/MSMProto.lean on every run.  Run once after editing the templates:  python3 bin/mkc04proto.py"""
import os
import re

ROOT = os.path.dirname(os.path.dirname(os.path.abspath(__file__)))
PROPS = os.path.join(ROOT, "lean", "GnarkVerif", "Props")
AUDIT = os.path.join(ROOT, "lean", "GnarkVerif", "Audit")

# package, has G2
PKGS = [("bls12_377", True), ("bls12_381", True), ("bls24_315", True), ("bls24_317", True), ("bn254", True),
        ("bw6_633", True), ("bw6_761", True), ("grumpkin", False), ("secp256k1", False)]

HEADER = open(os.path.join(ROOT, "bin", "c04proto_header.lean.in")).read()
NOSAFE = bool(os.environ.get("NOSAFE"))
if NOSAFE:
    HEADER = re.sub(r"--SAFE-BEGIN.*?--SAFE-END\n", "", HEADER, flags=re.S)
HEADER = HEADER.replace("--SAFE-BEGIN\n", "").replace("--SAFE-END\n", "")

WORKER = """
/-- ecc/%(pkg)s `%(fn)s`: acquire first, ONE release, BEFORE the single result send, nothing after it, nothing deferred -/
theorem %(fn)s_ok : WorkerOK Gen.MSMProto.%(pkg)s.%(fn)s = true := by decide
"""

REDUCE = """
/-- ecc/%(pkg)s `%(fn)s`: receives every `chChunks[j]` exactly once, nothing else -/
theorem %(fn)s_ok : ReduceOK Gen.MSMProto.%(pkg)s.%(fn)s = true := by decide
"""

MAIN = """
/-- ecc/%(pkg)s `%(fn)s`: NbTasks tokens pre-filled, capacity ≥ NbTasks + nbChunks, one extra token per split, `close(sem)` deferred,
every result channel received exactly once before the return; the goroutines it starts are `WorkerOK` chunk processors -/
theorem %(fn)s_ok : MainOK Gen.MSMProto.%(pkg)s.workers Gen.MSMProto.%(pkg)s.reduces Gen.MSMProto.%(pkg)s.f%(fn)s = true := by decide

/-- hence, for every NbTasks ≥ 1 below NumCPU, every number of chunks, every set of overweight chunks, every choice of chunk
processors and EVERY interleaving: no send on a closed channel, a release never blocks, no deadlock -/
theorem %(fn)s_safe (K nb : Nat) (hK : 1 ≤ K) (hnb : 1 ≤ nb) (split : Nat → Bool) (pick : Nat → Fn)
    (hpick : ∀ j, pick j ∈ Gen.MSMProto.%(pkg)s.workers) (s : State)
    (hr : Reachable (capOf (semCapOf Gen.MSMProto.%(pkg)s.f%(fn)s K nb))
      (initState (mainTrace Gen.MSMProto.%(pkg)s.f%(fn)s Gen.MSMProto.%(pkg)s.reduces K nb true split pick)) s) :
    Safe (capOf (semCapOf Gen.MSMProto.%(pkg)s.f%(fn)s K nb)) s :=
  proto_safe _ _ _ %(fn)s_ok K nb hK hnb split pick (fun j => workers_ok _ (hpick j)) s hr
"""

PKG = """
namespace %(pkg)s
/-! ### ecc/%(pkg)s -/

/-- the functions the pass found in this package (a new chunk processor / entry point changes these lists) -/
theorem functions : Gen.MSMProto.%(pkg)s.workers.map (·.name) = %(wnames)s ∧ Gen.MSMProto.%(pkg)s.reduces.map (·.name) = %(rnames)s
    ∧ Gen.MSMProto.%(pkg)s.mains.map (·.name) = %(mnames)s := by decide

theorem workers_ok : ∀ w ∈ Gen.MSMProto.%(pkg)s.workers, WorkerOK w = true := by decide
%(body)s
end %(pkg)s
"""

TAIL = """
end GV.C04proto
"""


def lst(xs):
    return "[" + ", ".join('"%s"' % x for x in xs) + "]"


def main():
    body = ""
    for pkg, g2 in PKGS:
        gs = ["G1", "G2"] if g2 else ["G1"]
        ws = sorted(["processChunk%sBatchAffine" % g for g in gs] + ["processChunk%sJacobian" % g for g in gs])
        rs = ["msmReduceChunk%sAffine" % g for g in gs]
        ms = ["_innerMsm%s" % g for g in gs]
        b = ""
        for w in ws:
            b += WORKER % {"pkg": pkg, "fn": w}
        for r in rs:
            b += REDUCE % {"pkg": pkg, "fn": r}
        for m in ms:
            mm = MAIN % {"pkg": pkg, "fn": m}
            if NOSAFE:
                mm = mm.split("/-- hence")[0]
            b += mm
        body += PKG % {"pkg": pkg, "wnames": lst(ws), "rnames": lst(rs), "mnames": lst(ms), "body": b}
    txt = HEADER + body + TAIL
    with open(os.path.join(PROPS, "C04_proto.lean"), "w") as fh:
        fh.write(txt)
    names = []
    ns = ["GV.C04proto"]
    for line in txt.split("\n"):
        m = re.match(r"namespace (\S+)", line)
        if m and not line.startswith("namespace GV."):
            ns.append(m.group(1))
        m = re.match(r"end (\S+)", line)
        if m and len(ns) > 1 and ns[-1] == m.group(1):
            ns.pop()
        m = re.match(r"theorem (\S+)", line)
        if m:
            names.append(".".join(ns) + "." + m.group(1))
    with open(os.path.join(AUDIT, "C04_proto.lean"), "w") as fh:
        fh.write("import GnarkVerif.Props.C04_proto\n/- axiom audit of the C04 protocol theorems (tie T); written by bin/mkc04proto.py -/\n")
        for n in names:
            fh.write("#print axioms %s\n" % n)
    print("C04_proto: %d theorems" % len(names))


if __name__ == "__main__":
    main()
