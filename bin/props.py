# per-property configuration of bin/check
PROPS = {
 "C15": {
  "shrink_header": 3, "kind_tokens": 1,
  "rule": "bounded-exhaustive histories over {Bind(name|unknown), Compute(name|unknown), caller-side mutation of a slice handed in/out} for 1..k names, then seeded random histories of length ≤ 24; distinct = distinct op lines",
  "trusted": ["correspondence harness tools/harness/c15.go (renders results before later mutations)", "Model/Sha256.lean compared with crypto/sha256 by op SHA256",
              "modelled not verified: hash.Hash implementations; by-value slice semantics is the model's definition, its validity for the Go code is checked by K only"],
  "assumptions": ["challenge names are distinct (duplicates collapse in NewTranscript's map)", "hash is a function of the bytes written since Reset"],
 },
}
