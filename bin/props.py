# per-property configuration of bin/check
PROPS = {
 "C10": {"shrink_header": None, "kind_tokens": 2,
  "rule": "10 fft packages x logn 0..10 (thorough 13/14) x DIF/DIT x coset x precompute x custom shift x nbTasks in {default,1,2,3,5,8,16,64,511,512}; all basis vectors for logn<=3 (thorough 5) + random/sparse/extreme vectors; fft, inv, roundtrip, rtinv; table-less domains reaching the 32/256 kernels at stage 3; BitReverse 0..9 (thorough 12, cobra 2^21..2^23 by digest); domain constants for m in boundary lattice incl. 2^s, 2^s+1 (panic), 2^63+1; WriteTo bytes; ReadFrom on valid/truncated/out-of-range/continued streams through readers of every chunk size; malformed lines; distinct = distinct op lines",
  "trusted": ["tools/harness/c10.go + c10_fields.go (line carries q, omega, shift taken from the real package; executor re-checks them)", "Model/FFT.lean is a hand model (tie = K only)", "ZM q -> ZMod q transport is proved (C10_driver_instance)",
              "modelled not verified: goroutine scheduling / parallel.Execute partitioning (covered by the nbTasks sweep only); assembly FFT kernels (koalabear/babybear AVX-512: not executable on this CPU)"],
  "assumptions": ["PrimRoot gen m (w^(2^(m-1)) = -1) - checked per size by op `C10 domain ... ord` and reduced to the 2-adic root constant by C10_generator_order", "len(a) = Cardinality"]},
 "C09": {
  "kind_tokens": 3, "configs": ["default", "noadx", "purego"],
  "rule": "the C01 op lines (all 23 fields; mul/square/add/sub/double/neg/halve/butterfly/small multiples on the boundary lattice and random operands; vector add/sub/mul/scalarmul/sum/innerproduct of every length 0..4*16+5 (thorough 8*16+7) plus lengths around 112/128/256/1024, sub-slice offsets 1 and 3) are answered by three configurations {default assembly, ADX/BMI2 disabled through the cpu-switch overlay, -tags purego}; each configuration's stream is diffed against the same Lean model stream; distinct = distinct op lines",
  "trusted": ["hooks/mkoverlay.py (derives the GV_NOADX / GV_NOAVX512 switches from utils/cpu on every run; build tag verif; nothing written into /repo)", "tools/harness/field.go",
              "modelled not verified: every assembly body (only corresponded); AVX-512 kernels cannot execute on this sandbox CPU (no avx512vbmi2), so cpu.SupportAVX512 is false in every configuration here and those kernels are NOT exercised"],
  "assumptions": ["kernel block contract (hypothesis hk of C09_zipGlue/mapGlue/foldGlue)"],
 },
 "C01": {
  "kind_tokens": 3,
  "rule": "for each of the 23 field packages: every unary op on the boundary lattice (0,1,2,q-1,q-2,(q±1)/2,R mod q ±1,2^(w·i)±1,2^(w·i-1), q with one limb perturbed/saturated/zeroed, random), binary ops on lattice×lattice (strided in quick) + random pairs, exponents {0,±1,±2,±(q-1),±q,q-2,2^63,2^64±,2^300,random up to 3000 bits, negative}, squares/non-squares, batch inversion and vector ops of every length 0..L with zeros; raw Montgomery limbs compared; distinct = distinct op lines",
  "trusted": ["tools/harness/field.go (raw-limb adapters via unsafe, generic over the 23 packages)", "tools/goslp constants extraction (Gen/Fields.lean; C01_params_ok re-checks every extracted constant block by decide +kernel)",
              "modelled not verified: the limb-level Go/assembly code of each operation is tied to the value-level model by correspondence only; Pornin inversion loop termination; primality of the moduli is a hypothesis [Fact q.Prime] of the theorems that need it"],
  "assumptions": ["operands are reduced (raw value < q), as the property states", "q prime where inverse/exp/sqrt/legendre theorems are used"],
 },
 "C15": {
  "shrink_header": 3, "kind_tokens": 1,
  "rule": "bounded-exhaustive histories over {Bind(name|unknown), Compute(name|unknown), caller-side mutation of a slice handed in/out} for 1..k names, then seeded random histories of length ≤ 24; distinct = distinct op lines",
  "trusted": ["correspondence harness tools/harness/c15.go (renders results before later mutations)", "Model/Sha256.lean compared with crypto/sha256 by op SHA256",
              "modelled not verified: hash.Hash implementations; by-value slice semantics is the model's definition, its validity for the Go code is checked by K only"],
  "assumptions": ["challenge names are distinct (duplicates collapse in NewTranscript's map)", "hash is a function of the bytes written since Reset"],
 },
}
