#!/usr/bin/env python3
"""bin/mkdesign.py — regenerates the machine-written blocks of DESIGN.md:
   <!-- BEGIN findings --> … <!-- END findings -->   from known_findings.json
   <!-- BEGIN seeded -->   … <!-- END seeded -->     from seeded/*/meta.json (+ result.txt)
Everything outside the markers is hand-written and left alone."""
import json, os, re, glob
ROOT = os.path.dirname(os.path.dirname(os.path.abspath(__file__)))

def esc(s): return s.replace("|", "\\|").replace("\n", " ")

def findings():
    k = json.load(open(os.path.join(ROOT, "known_findings.json")))["findings"]
    out = []
    fixed = [f for f in k if f["status"] == "fixed"]
    known = [f for f in k if f["status"] == "known"]
    out.append("**Repaired in /repo (%d, one `fix:` commit each; the entry suppresses nothing — the check reports the violation again if it returns):**\n" % len(fixed))
    out.append("| property | commit | what failed | where |")
    out.append("|---|---|---|---|")
    for f in sorted(fixed, key=lambda f: f["property"]):
        what = re.sub(r"^fixed: property=\S+ \S+ ", "", f["what"])
        out.append("| %s | `%s` | %s | %s |" % (f["property"], f.get("commit", ""), esc(what), esc(f.get("where", ""))))
    out.append("")
    out.append("**Recorded, not repaired (%d; `KNOWN-FINDING:` lines, matched by op / Go answer / model answer regexes so that any other disagreement still fails):**\n" % len(known))
    out.append("| property | what fails | where |")
    out.append("|---|---|---|")
    for f in sorted(known, key=lambda f: f["property"]):
        out.append("| %s | %s | %s |" % (f["property"], esc(f["what"]), esc(f.get("where", ""))))
    return "\n".join(out)

def seeded():
    rows = []
    for d in sorted(glob.glob(os.path.join(ROOT, "seeded", "*", "meta.json"))):
        m = json.load(open(d)); name = os.path.basename(os.path.dirname(d))
        res = os.path.join(os.path.dirname(d), "result.txt")
        txt = open(res).read() if os.path.exists(res) else ""
        how = ""
        if m.get("detected"):
            if "no-failing-input-found" in txt and "-proof-" in txt and not re.search(r"VIOLATION[^\n]*-diff-", txt):
                how = "proof obligation breaks (tie T)"
            elif "-proof-" in txt and re.search(r"VIOLATION[^\n]*-diff-", txt):
                how = "proof obligation breaks (T) and correspondence gives a failing input (K)"
            elif re.search(r"VIOLATION[^\n]*-diff-", txt):
                how = "correspondence: failing input (K)"
            else:
                how = "VIOLATION"
            if "thorough" in txt.split("\n")[1] if len(txt.split("\n")) > 1 else False:
                how += ", thorough tier"
        else:
            how = m.get("detected_by") or "NOT detected"
        checks = re.findall(r"^=== (\S+) on", txt, re.M)
        rows.append((name, m.get("title", "")[:140], " ".join(sorted(set(checks))) or m["property"], "yes" if m.get("detected") else "**no**", how))
    out = ["| mutant | what it breaks | checks run | detected | how |", "|---|---|---|---|---|"]
    for r in rows:
        out.append("| %s | %s | %s | %s | %s |" % tuple(esc(x) for x in r))
    hit = sum(1 for r in rows if r[3] == "yes")
    out.append("")
    out.append("%d of %d seeded changes are detected by the committed checks." % (hit, len(rows)))
    return "\n".join(out)

def status():
    import sys
    sys.path.insert(0, os.path.join(ROOT, "bin"))
    import props
    kf = json.load(open(os.path.join(ROOT, "known_findings.json")))["findings"]
    out = ["| property | Lean modules built + audited (tie T = contains theorems on regenerated defs) | theorems audited | quick-tier op lines (configurations) | known / fixed findings | seeded changes detected |",
           "|---|---|---|---|---|---|"]
    for pid in sorted(props.PROPS):
        c = props.PROPS[pid]
        ev = os.path.join(ROOT, "evidence", pid + ".json")
        e = json.load(open(ev)) if os.path.exists(ev) else {}
        cov = e.get("coverage", {})
        mods = c.get("lean_props") or [pid]
        tieT = [m for m in mods if "_gen" in m or "_limb" in m or "_tower" in m or "_curve" in m or "_primes" in m or m in ("C06",)]
        nk = sum(1 for f in kf if f["property"] == pid and f["status"] == "known")
        nf = sum(1 for f in kf if f["property"] == pid and f["status"] == "fixed")
        metas = [json.load(open(m)) for m in glob.glob(os.path.join(ROOT, "seeded", pid + "*", "meta.json"))]
        hit = sum(1 for m in metas if m.get("detected"))
        cfgs = c.get("configs") or ["default"]
        out.append("| %s | %s%s | %s | %s (%s, tier %s) | %d / %d | %d / %d |" % (
            pid, ", ".join(mods), (" — T: " + ", ".join(tieT)) if tieT else " — K only", cov.get("obligations", "?"),
            cov.get("evaluations", "?"), "+".join(cfgs), e.get("tier", "?"), nk, nf, hit, len(metas)))
    return "\n".join(out)

p = os.path.join(ROOT, "DESIGN.md"); s = open(p).read()
for tag, body in (("findings", findings()), ("seeded", seeded()), ("status", status())):
    b, e = "<!-- BEGIN %s -->" % tag, "<!-- END %s -->" % tag
    if b in s:
        i, j = s.index(b) + len(b), s.index(e)
        s = s[:i] + "\n" + body + "\n" + s[j:]
    else:
        print("marker missing:", tag)
open(p, "w").write(s)
print("DESIGN.md blocks regenerated")
