#!/usr/bin/env python3
import sys, os, re, collections
ROOT = os.path.dirname(os.path.dirname(os.path.abspath(__file__)))
pid = sys.argv[1]; pat = sys.argv[2] if len(sys.argv) > 2 else r"^(\S+ \S+ \S+)"
w = os.path.join(ROOT, "build", "run", pid)
L = open(os.path.join(w, "ops.txt")).read().split("\n"); M = open(os.path.join(w, "lean.out")).read().split("\n")
for f in sorted(os.listdir(w)):
    if not (f.startswith("go.") and f.endswith(".out")): continue
    G = open(os.path.join(w, f)).read().split("\n"); c = collections.Counter(); ex = {}
    for i, ln in enumerate(L):
        if not ln: continue
        g = G[i] if i < len(G) else "crash"; m = M[i] if i < len(M) else "model-crash"
        if g != m:
            mm = re.search(pat, ln); k = (" ".join(x for x in mm.groups() if x) if mm else ln[:30], g[:20], m[:20]); c[k] += 1; ex.setdefault(k, ln)
    print(f, sum(c.values()))
    for k, n in c.most_common(int(sys.argv[3]) if len(sys.argv) > 3 else 40):
        print("%5d %-44s go=%-20s model=%-20s %s" % (n, k[0], k[1], k[2], ex[k][:110]))
