#!/usr/bin/env python3
"""Generates lean/GnarkVerif/Props/C08_gen_<field>.lean (+ Props/C08_gen.lean, Audit/C08_gen.lean): the byte <-> limb conversion code of
the field packages (Gen/Bytes/<Field>.lean, regenerated from /repo on every run by tools/goslp/bytes.go) against Model/Conv.lean and
GV.Field, for ALL inputs. Static reviewed text: the templates know the STANDARD layout (word i of a big-endian array lives in bytes
[(n-1-i)*wb, (n-i)*wb), of a little-endian one in [i*wb, (i+1)*wb)) and never read the generated bounds: a Go text with other bounds,
a missing `smallerThanModulus`, a missing Montgomery conversion makes a proof fail. Usage: bin/mkc08gen.py [field ...] (default: all 23)."""
import re, sys, os
LEAN = os.path.join(os.path.dirname(os.path.abspath(__file__)), '..', os.environ.get('LEANDIR', 'lean'), 'GnarkVerif')

ALL = ["bn254_fr", "bn254_fp", "bls12_377_fr", "bls12_381_fr", "bls24_315_fr", "bls24_317_fr", "grumpkin_fp", "grumpkin_fr",
       "secp256k1_fp", "secp256k1_fr", "stark_curve_fp", "stark_curve_fr", "bls24_315_fp", "bls24_317_fp", "bw6_633_fr",
       "bls12_377_fp", "bls12_381_fp", "bw6_761_fr", "goldilocks", "koalabear", "babybear", "bw6_633_fp", "bw6_761_fp"]


def consts(field):
    s = open(os.path.join(LEAN, 'Gen', 'Fields.lean')).read()
    m = re.search(r'def %s : FieldConsts := \{(.*?)\n\n' % field, s, re.S)
    body = m.group(1)
    g = lambda k: int(re.search(r'\b%s := (\d+)' % k, body).group(1))
    rs = [int(x) for x in re.search(r'rSquare := \[([^\]]*)\]', body).group(1).split(',')]
    return dict(q=g('q'), word=g('word'), limbs=g('limbs'), bytes=g('bytes'), rsq=rs)


def proj(r, i, n):
    if n == 1:
        return r
    return r + ".2" * i + (".1" if i < n - 1 else "")


def multi(f):
    """fields of 4..6 words with whole-function theorems Mul_spec / fromMontGeneric_spec (C01_limb)"""
    c = consts(f)
    q, n, w, NB = c['q'], c['limbs'], c['word'], c['bytes']
    wb = w // 8
    W = 2 ** w
    assert NB == n * wb
    F = f[0].upper() + f[1:]
    G = f"Gen.Bytes.{f}"
    L = f"Gen.Limb.{f}"
    rs = " ".join(str(x) for x in c['rsq'])
    rsl = ", ".join(str(x) for x in c['rsq'])
    I = range(n)
    sp = lambda p: " ".join(f"{p}{i}" for i in I)          # z0 z1 z2 z3
    cm = lambda p: ", ".join(f"{p}{i}" for i in I)         # z0, z1, z2, z3
    bd = lambda p: " ".join(f"(h{p}{i} : {p}{i} < {W})" for i in I)
    hs = lambda p: " ".join(f"h{p}{i}" for i in I)
    tupT = " × ".join(["Nat"] * n)
    lin = lambda p: " + ".join((f"{p}{i}" if i == 0 else f"{W**i} * {p}{i}") for i in I)
    be_lo = lambda i: (n - 1 - i) * wb
    le_lo = lambda i: i * wb
    beW = lambda b, i: f"beUint {wb} (slice {b} {be_lo(i)} {be_lo(i)+wb})"
    leW = lambda b, i: f"leUint {wb} (slice {b} {le_lo(i)} {le_lo(i)+wb})"
    zeros = ", ".join(["0"] * n)
    projs = lambda r: ", ".join(proj(r, i, n) for i in I)
    anon = lambda k: "⟨" + ", ".join(["_"] * k) + "⟩"

    def put_chain(kind, b, vals):
        """nested putSlice terms B_0 = b, B_{k+1} = putSlice B_k lo hi (natToXE wb vals[k]) in the order of the Go text (word 0 first)"""
        enc = "Conv.natToBE" if kind == "BE" else "Conv.natToLE"
        lo = be_lo if kind == "BE" else le_lo
        Bs = [b]
        for i in I:
            Bs.append(f"(putSlice {Bs[-1]} {lo(i)} {lo(i)+wb} ({enc} {wb} {vals[i]}))")
        return Bs

    def put_proof(kind):
        """proof of `B_n = natToXE NB (val vals)` for words r0.. < W, array b of length NB"""
        enc = "Conv.natToBE" if kind == "BE" else "Conv.natToLE"
        dec = "Conv.beToNat" if kind == "BE" else "Conv.leToNat"
        lo = be_lo if kind == "BE" else le_lo
        vals = [f"r{i}" for i in I]
        Bs = put_chain(kind, "b", vals)
        o = []
        o.append(f"  have l0 : b.length = {NB} := hb")
        for k in I:
            o.append(f"  have l{k+1} : {Bs[k+1]}.length = {NB} := by")
            o.append(f"    rw [Conv.length_putSlice _ _ _ _ (by omega) (by omega) (by rw [{enc}_length])]; exact l{k}")
        # the chunk of word i in the final array
        for i in I:
            o.append(f"  have s{i} : slice {Bs[n]} {lo(i)} {lo(i)+wb} = {enc} {wb} r{i} := by")
            steps = []
            for k in range(n - 1, i, -1):   # undo the later writes (disjoint)
                steps.append(f"Conv.slice_putSlice_disj _ _ _ _ _ _ (by omega) (by omega) (by rw [{enc}_length]) (by omega)")
            steps.append(f"Conv.slice_putSlice_same _ _ _ _ (by omega) (by omega) (by rw [{enc}_length])")
            o.append("    rw [" + ",\n      ".join(steps) + "]")
        lims = "Conv.limbsOfBE" if kind == "BE" else "Conv.limbsOfLE"
        uint = "beUint" if kind == "BE" else "leUint"
        o.append(f"  have hw : {lims} {wb} {n} {Bs[n]} = [{cm('r')}] := by")
        o.append(f"    rw [words_{kind}]")
        rw = ", ".join(f"s{i}" for i in I)
        dl = ", ".join(f"Conv.{'beToNat_natToBE' if kind=='BE' else 'leToNat_natToLE'}_of_lt {wb} r{i} (by omega)" for i in I)
        o.append(f"    simp only [{uint}, {rw}, List.take_of_length_le (Nat.le_of_eq ({enc}_length {wb} _)), {dl}]")
        o.append(f"  have := Conv.eq_{'natToBE' if kind=='BE' else 'natToLE'}_of_limbs {wb} {n} _ [{cm('r')}] (by rw [l{n}]) hw")
        o.append(f"  rw [← Conv.limbsVal_eq_ofLimbs] at this")
        o.append(f"  exact this")
        return "\n".join(o)

    T = f"""import GnarkVerif.Proofs.Bytes
import GnarkVerif.Props.C01_limb_{f}
import GnarkVerif.Gen.Bytes.{F}
/-
C08_gen ({f}) — the byte <-> limb conversion code of /repo's {f} package (Gen/Bytes/{F}.lean, regenerated on every run by
tools/goslp/bytes.go; its calls of Mul / fromMontGeneric / smallerThanModulus are the definitions of Gen/Limb/{F}.lean of the same run)
against the hand model `GV.Conv` (Model/Conv.lean) and the value-level field model `GV.Field`, for ALL byte arrays and ALL canonical elements.
`val [l0, …] = Σ lᵢ·2^({w}·i)`; `P` = the parameter set of the regenerated constants; a decoder result is `(limbs…, err)` with err = 0 for nil.
-/
set_option maxRecDepth 100000
set_option maxHeartbeats 2000000
set_option linter.unusedVariables false
set_option linter.unusedSimpArgs false
namespace GV.C08gen.{f}
open GV.Field GV.Limb GV.Bytes GV.Limb.{f}

theorem val_lin ({sp('z')} : Nat) : val [{cm('z')}] = {lin('z')} := by
  simp only [val, limbsVal]; ring

/-- words are determined by the value -/
theorem val_inj ({sp('a')} {sp('c')} : Nat) {bd('a')} {bd('c')}
    (h : val [{cm('a')}] = val [{cm('c')}]) : {" ∧ ".join(f"a{i} = c{i}" for i in I)} := by
  rw [val_lin, val_lin] at h; omega

/-- `q ≤ 256^Bytes` for the regenerated constants: every canonical value has a `Bytes`-long encoding -/
theorem q_le : P.q ≤ 256 ^ {NB} := by rw [P_q]; decide
theorem nBytes_eq : {G}.nBytes = {NB} ∧ GV.Gen.{f}.bytes = {NB} := ⟨rfl, rfl⟩

/-- the Go literal `rSquare` is `R² mod q` of the model -/
theorem rSquare_val : val [{rsl}] = GV.Field.rSquare P := by decide +kernel

/-- `toMont` of the Go text (`z.Mul(z, &rSquare)`) is `GV.Field.toMont` -/
theorem toMont_spec ({sp('z')} : Nat) {bd('z')} (hZ : val [{cm('z')}] < P.q) :
    Good ({L}.Mul {sp('z')} {rs}) ∧ tval ({L}.Mul {sp('z')} {rs}) = GV.Field.toMont P (val [{cm('z')}]) := by
  have hr : val [{rsl}] < P.q := by rw [rSquare_val]; exact rSquare_lt P P_ok
  obtain ⟨g, e⟩ := Mul_spec {sp('z')} {rs} {hs('z')} {" ".join(["(by omega)"] * n)} hZ hr
  exact ⟨g, by rw [e, rSquare_val]; rfl⟩

/-! ### wiring: the words the decoders load are the limbs of the array's value -/

theorem words_BE (b : List UInt8) :
    Conv.limbsOfBE {wb} {n} b = [{", ".join(beW('b', i) for i in I)}] := by
  simp [Conv.limbsOfBE, Conv.chunks, slice, beUint, List.drop_drop, List.take_take]

theorem words_LE (b : List UInt8) :
    Conv.limbsOfLE {wb} {n} b = [{", ".join(leW('b', i) for i in I)}] := by
  simp [Conv.limbsOfLE, Conv.chunks, slice, leUint, List.drop_drop, List.take_take]

theorem words_BE_spec (b : List UInt8) (hb : b.length = {NB}) :
    ({" ∧ ".join(f"{beW('b', i)} < {W}" for i in I)}) ∧
      val [{", ".join(beW('b', i) for i in I)}] = Conv.beToNat b := by
  have hl := Conv.limbsOfBE_lt {wb} {n} b
  have e := Conv.ofLimbs_limbsOfBE {wb} {n} b (by rw [hb])
  rw [words_BE, ← Conv.limbsVal_eq_ofLimbs] at e
  rw [words_BE] at hl
  simp only [List.mem_cons, List.mem_nil_iff, or_false, forall_eq_or_imp, forall_eq, Nat.reducePow] at hl
  exact ⟨hl, e⟩

theorem words_LE_spec (b : List UInt8) (hb : b.length = {NB}) :
    ({" ∧ ".join(f"{leW('b', i)} < {W}" for i in I)}) ∧
      val [{", ".join(leW('b', i) for i in I)}] = Conv.leToNat b := by
  have hl := Conv.limbsOfLE_lt {wb} {n} b
  have e := Conv.ofLimbs_limbsOfLE {wb} {n} b (by rw [hb])
  rw [words_LE, ← Conv.limbsVal_eq_ofLimbs] at e
  rw [words_LE] at hl
  simp only [List.mem_cons, List.mem_nil_iff, or_false, forall_eq_or_imp, forall_eq, Nat.reducePow] at hl
  exact ⟨hl, e⟩

/-! ### decoders: strict — an error EXACTLY when the value is `≥ q`, otherwise the canonical Montgomery element of the value -/

/-- the common tail of both decoders: `if !z.smallerThanModulus() {{ return Element{{}}, err }}; z.toMont(); return z, nil` -/
theorem decode_tail ({sp('z')} : Nat) {bd('z')} :
    (P.q ≤ val [{cm('z')}] → ¬ {L}.smallerThanModulus {sp('z')}) ∧
    (val [{cm('z')}] < P.q → {L}.smallerThanModulus {sp('z')}) := by
  have h := smaller_iff {sp('z')} {hs('z')}
  rw [val_lin, P_q]
  exact ⟨fun hq hs => by have := h.mp hs; omega, fun hq => h.mpr hq⟩
"""
    for kind, dec, words in (("BE", "Conv.beToNat", beW), ("LE", "Conv.leToNat", leW)):
        fn = "bigEndian_Element" if kind == "BE" else "littleEndian_Element"
        gens = "\n".join(f"  generalize {words('b', i)} = z{i} at hw hv ⊢" for i in I)
        T += f"""
/-- **C08_gen** `{fn.replace('_', '.')}` rejects every array whose value is `≥ q` (returns `Element{{}}` and the error) -/
theorem {fn}_reject (b : List UInt8) (hb : b.length = {NB}) (h : P.q ≤ {dec} b) :
    {G}.{fn} b = ({zeros}, 1) := by
  obtain ⟨hw, hv⟩ := words_{kind}_spec b hb
  unfold {G}.{fn}
  simp only []
{gens}
  obtain ⟨{hs('z').replace(' ', ', ')}⟩ := hw
  have hn := (decode_tail {sp('z')} {hs('z')}).1 (by rw [hv]; exact h)
  simp only [hn, not_false_eq_true, if_true]

/-- … and accepts every other one: the result is the canonical Montgomery element of the array's value, error nil -/
theorem {fn}_accept (b : List UInt8) (hb : b.length = {NB}) (h : {dec} b < P.q) :
    ∃ {sp('m')} : Nat, Good ({cm('m')}) ∧ val [{cm('m')}] = GV.Field.toMont P ({dec} b) ∧
      {G}.{fn} b = ({cm('m')}, 0) := by
  obtain ⟨hw, hv⟩ := words_{kind}_spec b hb
  unfold {G}.{fn}
  simp only []
{gens}
  obtain ⟨{hs('z').replace(' ', ', ')}⟩ := hw
  have hs := (decode_tail {sp('z')} {hs('z')}).2 (by rw [hv]; exact h)
  obtain ⟨g, e⟩ := toMont_spec {sp('z')} {hs('z')} (by rw [hv]; exact h)
  rw [hv] at e
  refine ⟨{projs(f'({L}.Mul {sp("z")} {rs})')}, g, e, ?_⟩
  simp only [hs, not_true_eq_false, if_false]

/-- the error flag: nil IFF the value is below `q` ("strict decoders reject non-canonical input", of the Go text) -/
theorem {fn}_err_iff (b : List UInt8) (hb : b.length = {NB}) :
    {proj(f'({G}.{fn} b)', n, n + 1)} ≠ 0 ↔ P.q ≤ {dec} b := by
  by_cases h : {dec} b < P.q
  · obtain ⟨{cm('m')}, _, _, e⟩ := {fn}_accept b hb h
    rw [e]; simp only [ne_eq, not_true_eq_false, false_iff]; omega
  · rw [{fn}_reject b hb (by omega)]; simp only [ne_eq, one_ne_zero, not_false_eq_true, true_iff]; omega

/-- the hand model's decoder (`Conv.element{kind}`, on regular values) is the generated one followed by `fromMont` -/
theorem {fn}_model (b : List UInt8) (hb : b.length = {NB}) :
    Conv.element{kind} P.q b =
      (if {proj(f'({G}.{fn} b)', n, n + 1)} = 0 then
        .ok (GV.Field.fromMont P (val [{", ".join(proj(f'({G}.{fn} b)', i, n + 1) for i in I)}])) else .error .invalid) := by
  by_cases h : {dec} b < P.q
  · obtain ⟨{cm('m')}, _, hm, e⟩ := {fn}_accept b hb h
    rw [e]
    simp only [if_true, hm, fromMont_toMont P P_ok _ h, Conv.element{kind}, h]
  · rw [{fn}_reject b hb (by omega)]
    simp only [one_ne_zero, if_false, Conv.element{kind}, h]
"""
    T += f"""
/-! ### encoders: the bytes are the base-256 digits of the REGULAR value `val z · R⁻¹ mod q` -/
"""
    for kind in ("BE", "LE"):
        fn = "bigEndian_PutElement" if kind == "BE" else "littleEndian_PutElement"
        enc = "Conv.natToBE" if kind == "BE" else "Conv.natToLE"
        Bs = put_chain(kind, "b", [f"r{i}" for i in I])
        T += f"""
theorem put_{kind} (b : List UInt8) (hb : b.length = {NB}) ({sp('r')} : Nat) {bd('r')} :
    {Bs[n]} = {enc} {NB} (val [{cm('r')}]) := by
{put_proof(kind)}

/-- **C08_gen** `{fn.replace('_', '.')}` writes the {'big' if kind == 'BE' else 'little'}-endian base-256 digits (length Bytes) of the regular value of a
canonical Montgomery element, whatever the array held before -/
theorem {fn}_spec (b : List UInt8) (hb : b.length = {NB}) ({sp('z')} : Nat) {bd('z')} (hZ : val [{cm('z')}] < P.q) :
    {G}.{fn} b {sp('z')} = Conv.toBytes{kind} {NB} (GV.Field.fromMont P (val [{cm('z')}])) := by
  obtain ⟨g, e⟩ := fromMontGeneric_spec {sp('z')} {hs('z')} hZ
  unfold {G}.{fn}
  simp only []
  generalize {L}.fromMontGeneric {sp('z')} = r at g e ⊢
  obtain ⟨{cm('r')}⟩ := r
  rw [← e]
  exact put_{kind} b hb {sp('r')} {" ".join(f"g.{'2.' * i}{'1' if i < n - 1 else ''}".rstrip('.') for i in I)}
"""
    T += f"""
/-! ### round trips at the level of the Go text -/
"""
    for kind, dec in (("BE", "Conv.beToNat"), ("LE", "Conv.leToNat")):
        E = "bigEndian" if kind == "BE" else "littleEndian"
        digits = "Conv.beToNat_natToBE" if kind == "BE" else "Conv.leToNat_natToLE"
        inv = "Conv.natToBE_beToNat" if kind == "BE" else "Conv.natToLE_leToNat"
        T += f"""
/-- **C08_gen** `{E}.Element ({E}.PutElement z) = (z, nil)` for every canonical `z` -/
theorem {E}_roundtrip (b : List UInt8) (hb : b.length = {NB}) ({sp('z')} : Nat) {bd('z')} (hZ : val [{cm('z')}] < P.q) :
    {G}.{E}_Element ({G}.{E}_PutElement b {sp('z')}) = ({cm('z')}, 0) := by
  rw [{E}_PutElement_spec b hb {sp('z')} {hs('z')} hZ]
  have hf := fromMont_lt P P_ok _ hZ
  have hl : (Conv.toBytes{kind} {NB} (GV.Field.fromMont P (val [{cm('z')}]))).length = {NB} := by simp [Conv.toBytes{kind}]
  have hv : {dec} (Conv.toBytes{kind} {NB} (GV.Field.fromMont P (val [{cm('z')}]))) = GV.Field.fromMont P (val [{cm('z')}]) := by
    rw [Conv.toBytes{kind}, {digits}, Nat.mod_eq_of_lt (lt_of_lt_of_le hf q_le)]
  obtain ⟨{cm('m')}, g, hm, e⟩ := {E}_Element_accept _ hl (by rw [hv]; exact hf)
  rw [hv, toMont_fromMont P P_ok _ hZ] at hm
  obtain ⟨{cm('e')}⟩ := val_inj {sp('m')} {sp('z')} {" ".join(f"g.{'2.' * i}{'1' if i < n - 1 else ''}".rstrip('.') for i in I)} {hs('z')} hm
  rw [e]; subst {sp('e')}; rfl

/-- **C08_gen** `{E}.PutElement ({E}.Element b) = b` whenever `b` is accepted (into any target array) -/
theorem {E}_roundtrip_inv (b t : List UInt8) (hb : b.length = {NB}) (ht : t.length = {NB}) (h : {dec} b < P.q) :
    {G}.{E}_PutElement t {" ".join(proj(f'({G}.{E}_Element b)', i, n + 1) for i in I)} = b := by
  obtain ⟨{cm('m')}, g, hm, e⟩ := {E}_Element_accept b hb h
  rw [e]
  have hlt := toMont_lt P P_ok _ h
  rw [{E}_PutElement_spec t ht {sp('m')} {" ".join(f"g.{'2.' * i}{'1' if i < n - 1 else ''}".rstrip('.') for i in I)} (by rw [hm]; exact hlt),
    hm, fromMont_toMont P P_ok _ h, Conv.toBytes{kind}, ← hb, {inv}]
"""
    T += f"""
/-! ### `Bytes`, `SetBytesCanonical`, `SetBytes` -/

/-- `Bytes()` is `BigEndian.PutElement` into a fresh (zero) array -/
theorem Bytes_eq ({sp('z')} : Nat) :
    {G}.Bytes {sp('z')} = {G}.bigEndian_PutElement (List.replicate {NB} 0) {sp('z')} := rfl

theorem Bytes_spec ({sp('z')} : Nat) {bd('z')} (hZ : val [{cm('z')}] < P.q) :
    {G}.Bytes {sp('z')} = Conv.toBytesBE {NB} (GV.Field.fromMont P (val [{cm('z')}])) := by
  rw [Bytes_eq, bigEndian_PutElement_spec _ (List.length_replicate ..) {sp('z')} {hs('z')} hZ]

/-- `SetBytesCanonical` as a function of the whole input: a slice of another length is an error and leaves `z` alone; a `Bytes`-long one
goes through `BigEndian.Element`, and `z` is overwritten only on success -/
theorem SetBytesCanonical_eq ({sp('z')} : Nat) (e : List UInt8) :
    {G}.SetBytesCanonical {sp('z')} e =
      if e.length ≠ {NB} then ({cm('z')}, 2)
      else if {proj(f'({G}.bigEndian_Element e)', n, n + 1)} ≠ 0 then ({cm('z')}, {proj(f'({G}.bigEndian_Element e)', n, n + 1)})
      else {G}.bigEndian_Element e := by
  by_cases hl : e.length = {NB}
  · have ha : toArray {NB} e = e := Conv.toArray_eq _ _ hl
    unfold {G}.SetBytesCanonical {G}.bigEndian_Element
    simp only [ha, hl, ne_eq, not_true_eq_false, if_false]
    split <;> rename_i hc
    · simp only [hc, not_false_eq_true, if_true, one_ne_zero]
    · simp only [hc, not_true_eq_false, if_false]
  · unfold {G}.SetBytesCanonical
    simp only [hl, ne_eq, not_false_eq_true, if_true]

/-- **C08_gen** `SetBytesCanonical` accepts EXACTLY the `Bytes`-long big-endian encodings of the integers below `q` and then stores the
canonical Montgomery element; the model's `Conv.setBytesCanonical` is its image under `fromMont` -/
theorem SetBytesCanonical_spec ({sp('z')} : Nat) (e : List UInt8) :
    ({proj(f'({G}.SetBytesCanonical {sp("z")} e)', n, n + 1)} = 0 ↔ (e.length = {NB} ∧ Conv.beToNat e < P.q)) ∧
    (e.length = {NB} → Conv.beToNat e < P.q → ∃ {sp('m')} : Nat, Good ({cm('m')}) ∧ val [{cm('m')}] = GV.Field.toMont P (Conv.beToNat e) ∧
      {G}.SetBytesCanonical {sp('z')} e = ({cm('m')}, 0)) ∧
    (¬ (e.length = {NB} ∧ Conv.beToNat e < P.q) → ∃ c, c ≠ 0 ∧ {G}.SetBytesCanonical {sp('z')} e = ({cm('z')}, c)) := by
  by_cases hl : e.length = {NB}
  · by_cases h : Conv.beToNat e < P.q
    · obtain ⟨{cm('m')}, g, hm, he⟩ := bigEndian_Element_accept e hl h
      have key : {G}.SetBytesCanonical {sp('z')} e = ({cm('m')}, 0) := by
        rw [SetBytesCanonical_eq, he]; simp only [hl, ne_eq, not_true_eq_false, if_false]
      rw [key]
      exact ⟨⟨fun _ => ⟨hl, h⟩, fun _ => rfl⟩, fun _ _ => ⟨{cm('m')}, g, hm, rfl⟩, fun hn => absurd ⟨hl, h⟩ hn⟩
    · have he := bigEndian_Element_reject e hl (by omega)
      have key : {G}.SetBytesCanonical {sp('z')} e = ({cm('z')}, 1) := by
        rw [SetBytesCanonical_eq, he]; simp only [hl, ne_eq, not_true_eq_false, if_false, one_ne_zero, not_false_eq_true, if_true]
      rw [key]
      exact ⟨⟨fun h0 => absurd h0 one_ne_zero, fun hh => absurd hh.2 h⟩, fun _ hh => absurd hh h, fun _ => ⟨1, one_ne_zero, rfl⟩⟩
  · have key : {G}.SetBytesCanonical {sp('z')} e = ({cm('z')}, 2) := by
      rw [SetBytesCanonical_eq]; simp only [hl, ne_eq, not_false_eq_true, if_true]
    rw [key]
    exact ⟨⟨fun h0 => absurd (show (2 : Nat) = 0 from h0) (by omega), fun hh => absurd hh.1 hl⟩, fun hh _ => absurd hh hl, fun _ => ⟨2, by omega, rfl⟩⟩

theorem SetBytesCanonical_model ({sp('z')} : Nat) (e : List UInt8) :
    Conv.setBytesCanonical P.q {NB} e =
      (if {proj(f'({G}.SetBytesCanonical {sp("z")} e)', n, n + 1)} = 0 then
        .ok (GV.Field.fromMont P (val [{", ".join(proj(f'({G}.SetBytesCanonical {sp("z")} e)', i, n + 1) for i in I)}]))
       else if e.length ≠ {NB} then .error .length else .error .invalid) := by
  obtain ⟨h1, h2, h3⟩ := SetBytesCanonical_spec {sp('z')} e
  unfold Conv.setBytesCanonical
  by_cases hl : e.length = {NB}
  · by_cases h : Conv.beToNat e < P.q
    · obtain ⟨{cm('m')}, g, hm, he⟩ := h2 hl h
      rw [he]
      simp only [hl, ne_eq, not_true_eq_false, if_false, if_true, hm, fromMont_toMont P P_ok _ h, Conv.elementBE, h]
    · obtain ⟨c, hc, he⟩ := h3 (fun hh => h hh.2)
      rw [he]
      simp only [hl, ne_eq, not_true_eq_false, if_false, hc, Conv.elementBE, h]
  · obtain ⟨c, hc, he⟩ := h3 (fun hh => hl hh.1)
    rw [he]
    simp only [hl, ne_eq, not_false_eq_true, if_true, hc, if_false]

/-- **C08_gen** `SetBytes`: on a `Bytes`-long input with a canonical value the fast path is taken and the result is that of
`BigEndian.Element` (= `SetBytesCanonical`); on EVERY other input (other length, or value `≥ q`) it is the slow path `setBigIntBE e`.
`setBigIntBE` is a parameter: `big.Int.SetBytes(e)` followed by `Element.SetBigInt` (math/big is not translated). -/
theorem SetBytes_spec (setBigIntBE : List UInt8 → {tupT}) (e : List UInt8) :
    (e.length = {NB} → Conv.beToNat e < P.q →
      {G}.SetBytes setBigIntBE e = ({", ".join(proj(f'({G}.bigEndian_Element e)', i, n + 1) for i in I)})) ∧
    (¬ (e.length = {NB} ∧ Conv.beToNat e < P.q) → {G}.SetBytes setBigIntBE e = setBigIntBE e) := by
  constructor
  · intro hl h
    have ha : toArray {NB} e = e := Conv.toArray_eq _ _ hl
    obtain ⟨{cm('m')}, g, hm, he⟩ := bigEndian_Element_accept e hl h
    have he' := he
    unfold {G}.bigEndian_Element at he
    simp only [Prod.mk.injEq] at he
    unfold {G}.SetBytes
    simp only [ha, hl, if_true, he, he']
  · intro hn
    by_cases hl : e.length = {NB}
    · have h : P.q ≤ Conv.beToNat e := by
        by_contra hc; exact hn ⟨hl, by omega⟩
      have ha : toArray {NB} e = e := Conv.toArray_eq _ _ hl
      have he := bigEndian_Element_reject e hl h
      unfold {G}.bigEndian_Element at he
      simp only [Prod.mk.injEq] at he
      unfold {G}.SetBytes
      simp only [ha, hl, if_true, he, one_ne_zero, if_false]
    · unfold {G}.SetBytes
      simp only [hl, if_false]

/-- with the slow path specified as the model says (`setBigIntBE e` = the canonical Montgomery element of `be(e) mod q`, which is
`Conv.setBigInt` on a non-negative integer) `SetBytes` is `be(e) mod q` in Montgomery form for EVERY input: `C08_setBytes_lenient` of
the Go text, fast path = slow path -/
theorem SetBytes_lenient (setBigIntBE : List UInt8 → {tupT})
    (hslow : ∀ e, Good (setBigIntBE e) ∧ tval (setBigIntBE e) = GV.Field.toMont P (Conv.beToNat e % P.q)) (e : List UInt8) :
    Good ({G}.SetBytes setBigIntBE e) ∧
      tval ({G}.SetBytes setBigIntBE e) = GV.Field.toMont P (Conv.setBytes P.q {NB} e) := by
  have hq : 0 < P.q := by rw [P_q]; omega
  rw [Conv.setBytes_eq P.q {NB} hq]
  obtain ⟨h1, h2⟩ := SetBytes_spec setBigIntBE e
  by_cases hc : e.length = {NB} ∧ Conv.beToNat e < P.q
  · obtain ⟨{cm('m')}, g, hm, he⟩ := bigEndian_Element_accept e hc.1 hc.2
    rw [h1 hc.1 hc.2, he, Nat.mod_eq_of_lt hc.2]
    exact ⟨g, hm⟩
  · rw [h2 hc]; exact hslow e

/-! ### `Bits`, `Uint64`, `IsUint64`, `FitsOnOneWord`, `SetUint64` -/

/-- `Bits()` are the words of the regular value -/
theorem Bits_spec ({sp('z')} : Nat) {bd('z')} (hZ : val [{cm('z')}] < P.q) :
    Good ({G}.Bits {sp('z')}) ∧ tval ({G}.Bits {sp('z')}) = GV.Field.fromMont P (val [{cm('z')}]) := by
  obtain ⟨g, e⟩ := fromMontGeneric_spec {sp('z')} {hs('z')} hZ
  exact ⟨g, e⟩

/-- `Uint64()` is the low word of the regular value (`Conv.uint64`) -/
theorem Uint64_spec ({sp('z')} : Nat) {bd('z')} (hZ : val [{cm('z')}] < P.q) :
    {G}.Uint64 {sp('z')} = Conv.uint64 {w} (GV.Field.fromMont P (val [{cm('z')}])) := by
  obtain ⟨g, e⟩ := fromMontGeneric_spec {sp('z')} {hs('z')} hZ
  unfold {G}.Uint64 Conv.uint64
  simp only []
  rw [← e]
  generalize {L}.fromMontGeneric {sp('z')} = r at g ⊢
  obtain ⟨{cm('r')}⟩ := r
  simp only [tval, val_lin, Nat.reducePow]
  obtain ⟨{cm('g')}⟩ := g
  simp only at g0
  omega

/-- `FitsOnOneWord()` on the words it is given, `IsUint64()` on the regular value (`Conv.isUint64`) -/
theorem FitsOnOneWord_spec ({sp('z')} : Nat) {bd('z')} :
    {G}.FitsOnOneWord {" ".join(f"z{i}" for i in range(1, n))} ↔ val [{cm('z')}] < {W} := by
  unfold {G}.FitsOnOneWord
  rw [val_lin]
  simp only [Nat.or_eq_zero_iff]
  omega

theorem IsUint64_spec ({sp('z')} : Nat) {bd('z')} (hZ : val [{cm('z')}] < P.q) :
    {G}.IsUint64 {sp('z')} ↔ Conv.isUint64 (GV.Field.fromMont P (val [{cm('z')}])) = true := by
  obtain ⟨g, e⟩ := fromMontGeneric_spec {sp('z')} {hs('z')} hZ
  have : {G}.IsUint64 {sp('z')} = {G}.FitsOnOneWord {" ".join(proj(f'({L}.fromMontGeneric {sp("z")})', i, n) for i in range(1, n))} := rfl
  rw [this, ← e]
  generalize {L}.fromMontGeneric {sp('z')} = r at g ⊢
  obtain ⟨{cm('r')}⟩ := r
  rw [FitsOnOneWord_spec {sp('r')} {" ".join(f"g.{'2.' * i}{'1' if i < n - 1 else ''}".rstrip('.') for i in I)}]
  simp only [Conv.isUint64, decide_eq_true_eq, tval, Nat.reducePow]

/-- `SetUint64 v` is the canonical Montgomery element of `v` (`v < 2^64 < q`: `Conv.setUint64` is the identity there) -/
theorem SetUint64_spec (v : Nat) (hv : v < {W}) :
    Good ({G}.SetUint64 v) ∧ tval ({G}.SetUint64 v) = GV.Field.toMont P (Conv.setUint64 P.q v) := by
  have hq : v < P.q := by rw [P_q]; omega
  have hval : val [v, {", ".join(["0"] * (n - 1))}] = v := by rw [val_lin]; omega
  obtain ⟨g, e⟩ := toMont_spec v {" ".join(["0"] * (n - 1))} hv {" ".join(["(by omega)"] * (n - 1))} (by rw [hval]; exact hq)
  rw [hval] at e
  rw [Conv.setUint64, Nat.mod_eq_of_lt hq]
  exact ⟨g, e⟩

end GV.C08gen.{f}
"""
    names = ["toMont_spec", "rSquare_val", "q_le", "words_BE_spec", "words_LE_spec"]
    for E in ("bigEndian", "littleEndian"):
        names += [f"{E}_Element_reject", f"{E}_Element_accept", f"{E}_Element_err_iff", f"{E}_Element_model", f"{E}_PutElement_spec",
                  f"{E}_roundtrip", f"{E}_roundtrip_inv"]
    names += ["Bytes_spec", "SetBytesCanonical_eq", "SetBytesCanonical_spec", "SetBytesCanonical_model", "SetBytes_spec", "SetBytes_lenient",
              "Bits_spec", "Uint64_spec", "FitsOnOneWord_spec", "IsUint64_spec", "SetUint64_spec"]
    return T, names


def single(f):
    """one-word fields: goldilocks (64-bit word, toMont = Mul by rSquare), koalabear / babybear (32-bit word, toMont = (z << 32) % q)"""
    c = consts(f)
    q, n, w, NB = c['q'], c['limbs'], c['word'], c['bytes']
    assert n == 1
    wb = w // 8
    W = 2 ** w
    F = f[0].upper() + f[1:]
    G = f"Gen.Bytes.{f}"
    L = f"Gen.Limb.{f}"
    rs = c['rsq'][0]
    gold = (w == 64)
    imp = f"import GnarkVerif.Props.C01_limb2_{f}" if gold else f"import GnarkVerif.Props.C01_limb_{f}"
    if gold:
        tm = lambda z: f"({L}.Mul {z} {rs})"
        tm_proof = f"""  have hr : ({rs} : Nat) = GV.Field.rSquare P := by decide +kernel
  have hr' : ({rs} : Nat) < P.q := by rw [hr]; exact rSquare_lt P P_ok
  have e := Mul_spec z {rs} hz hr'
  have e2 : {L}.Mul z {rs} = GV.Field.toMont P z := by rw [e]; unfold GV.Field.toMont; rw [← hr]
  exact ⟨by rw [e2]; exact toMont_lt P P_ok z hz, e2⟩"""
    else:
        tm = lambda z: f"(((({z} * {2**32}) % {2**64}) % {q}) % {2**32})"
        tm_proof = f"""  have e := Conv.toMont_eq_mulR P P_ok z hz
  have hR : P.R = {2**32} := by decide +kernel
  rw [hR, P_q] at e
  rw [P_q] at hz
  have h1 : z * {2**32} % {2**64} = z * {2**32} := Nat.mod_eq_of_lt (by omega)
  have h2 : z * {2**32} % {q} % {2**32} = z * {2**32} % {q} := Nat.mod_eq_of_lt (by omega)
  have : {tm('z')} = z * {2**32} % {q} := by rw [h1, h2]
  rw [this, ← e]
  exact ⟨by have := toMont_lt P P_ok z (by rw [P_q]; exact hz); rwa [P_q] at this, rfl⟩"""
    T = f"""import GnarkVerif.Proofs.Bytes
{imp}
import GnarkVerif.Gen.Bytes.{F}
/-
C08_gen ({f}, one {w}-bit word) — the byte <-> word conversion code of /repo's {f} package (Gen/Bytes/{F}.lean, regenerated on every run
by tools/goslp/bytes.go, calling Gen/Limb/{F}.lean of the same run) against the hand model `GV.Conv` and the field model `GV.Field`, for
ALL byte arrays and ALL canonical elements. A decoder result is `(word, err)` with err = 0 for nil.
-/
set_option maxRecDepth 100000
set_option maxHeartbeats 2000000
set_option linter.unusedVariables false
set_option linter.unusedSimpArgs false
namespace GV.C08gen.{f}
open GV.Field GV.Limb GV.Bytes GV.Limb.{f}

theorem q_le : P.q ≤ 256 ^ {NB} := by rw [P_q]; decide
theorem q_lt_W : P.q < {W} := by rw [P_q]; decide
theorem nBytes_eq : {G}.nBytes = {NB} ∧ GV.Gen.{f}.bytes = {NB} := ⟨rfl, rfl⟩

theorem smaller_iff' (z : Nat) : {L}.smallerThanModulus z ↔ z < P.q := by rw [P_q]; rfl

/-- `toMont` of the Go text ({'`z.Mul(z, &rSquare)`' if gold else '`z[0] = uint32((uint64(z[0]) << 32) % q)`'}) is `GV.Field.toMont` -/
theorem toMont_spec (z : Nat) (hz : z < P.q) :
    {tm('z')} < P.q ∧ {tm('z')} = GV.Field.toMont P z := by
{tm_proof}

theorem toMont_def (z : Nat) : {G}.toMont z = {tm('z')} := rfl

theorem words_BE (b : List UInt8) : Conv.limbsOfBE {wb} 1 b = [beUint {wb} (slice b 0 {wb})] := by
  simp [Conv.limbsOfBE, Conv.chunks, slice, beUint, List.take_take]

theorem words_LE (b : List UInt8) : Conv.limbsOfLE {wb} 1 b = [leUint {wb} (slice b 0 {wb})] := by
  simp [Conv.limbsOfLE, Conv.chunks, slice, leUint, List.take_take]

theorem words_BE_spec (b : List UInt8) (hb : b.length = {NB}) :
    beUint {wb} (slice b 0 {wb}) < {W} ∧ beUint {wb} (slice b 0 {wb}) = Conv.beToNat b := by
  have hl := Conv.limbsOfBE_lt {wb} 1 b
  have e := Conv.ofLimbs_limbsOfBE {wb} 1 b (by rw [hb])
  rw [words_BE] at e hl
  simp only [List.mem_cons, List.mem_nil_iff, or_false, forall_eq, Nat.reducePow] at hl
  rw [Conv.ofLimbs_single] at e
  exact ⟨hl, e⟩

theorem words_LE_spec (b : List UInt8) (hb : b.length = {NB}) :
    leUint {wb} (slice b 0 {wb}) < {W} ∧ leUint {wb} (slice b 0 {wb}) = Conv.leToNat b := by
  have hl := Conv.limbsOfLE_lt {wb} 1 b
  have e := Conv.ofLimbs_limbsOfLE {wb} 1 b (by rw [hb])
  rw [words_LE] at e hl
  simp only [List.mem_cons, List.mem_nil_iff, or_false, forall_eq, Nat.reducePow] at hl
  rw [Conv.ofLimbs_single] at e
  exact ⟨hl, e⟩
"""
    for kind, dec in (("BE", "Conv.beToNat"), ("LE", "Conv.leToNat")):
        E = "bigEndian" if kind == "BE" else "littleEndian"
        fn = f"{E}_Element"
        uint = "beUint" if kind == "BE" else "leUint"
        enc = "Conv.natToBE" if kind == "BE" else "Conv.natToLE"
        digits = "Conv.beToNat_natToBE" if kind == "BE" else "Conv.leToNat_natToLE"
        inv = "Conv.natToBE_beToNat" if kind == "BE" else "Conv.natToLE_leToNat"
        T += f"""
/-- **C08_gen** `{E}.Element` rejects every array whose value is `≥ q` -/
theorem {fn}_reject (b : List UInt8) (hb : b.length = {NB}) (h : P.q ≤ {dec} b) : {G}.{fn} b = (0, 1) := by
  obtain ⟨hw, hv⟩ := words_{kind}_spec b hb
  unfold {G}.{fn}
  simp only []
  generalize {uint} {wb} (slice b 0 {wb}) = z at hw hv ⊢
  subst hv
  have hn : ¬ {L}.smallerThanModulus ({dec} b) := by rw [smaller_iff']; omega
  simp only [hn, not_false_eq_true, if_true]

/-- … and accepts every other one: the canonical Montgomery element of the value, error nil -/
theorem {fn}_accept (b : List UInt8) (hb : b.length = {NB}) (h : {dec} b < P.q) :
    ∃ m : Nat, m < P.q ∧ m = GV.Field.toMont P ({dec} b) ∧ {G}.{fn} b = (m, 0) := by
  obtain ⟨hw, hv⟩ := words_{kind}_spec b hb
  unfold {G}.{fn}
  simp only []
  generalize {uint} {wb} (slice b 0 {wb}) = z at hw hv ⊢
  subst hv
  have hs : {L}.smallerThanModulus ({dec} b) := by rw [smaller_iff']; exact h
  obtain ⟨g, e⟩ := toMont_spec ({dec} b) h
  refine ⟨_, g, e, ?_⟩
  simp only [hs, not_true_eq_false, if_false]

theorem {fn}_err_iff (b : List UInt8) (hb : b.length = {NB}) : ({G}.{fn} b).2 ≠ 0 ↔ P.q ≤ {dec} b := by
  by_cases h : {dec} b < P.q
  · obtain ⟨m, _, _, e⟩ := {fn}_accept b hb h
    rw [e]; simp only [ne_eq, not_true_eq_false, false_iff]; omega
  · rw [{fn}_reject b hb (by omega)]; simp only [ne_eq, one_ne_zero, not_false_eq_true, true_iff]; omega

/-- the hand model's decoder is the generated one followed by `fromMont` -/
theorem {fn}_model (b : List UInt8) (hb : b.length = {NB}) :
    Conv.element{kind} P.q b =
      (if ({G}.{fn} b).2 = 0 then .ok (GV.Field.fromMont P ({G}.{fn} b).1) else .error .invalid) := by
  by_cases h : {dec} b < P.q
  · obtain ⟨m, _, hm, e⟩ := {fn}_accept b hb h
    rw [e]
    simp only [if_true, hm, fromMont_toMont P P_ok _ h, Conv.element{kind}, h]
  · rw [{fn}_reject b hb (by omega)]
    simp only [one_ne_zero, if_false, Conv.element{kind}, h]

/-- **C08_gen** `{E}.PutElement` writes the base-256 digits (length Bytes) of the regular value -/
theorem {E}_PutElement_spec (b : List UInt8) (hb : b.length = {NB}) (z : Nat) (hz : z < P.q) :
    {G}.{E}_PutElement b z = Conv.toBytes{kind} {NB} (GV.Field.fromMont P z) := by
  have e := fromMontGeneric_spec z hz
  have hf := fromMont_lt P P_ok z hz
  unfold {G}.{E}_PutElement
  simp only []
  rw [e]
  generalize GV.Field.fromMont P z = r at hf ⊢
  have hr : r < {W} := lt_trans hf q_lt_W
  have l1 : (putSlice b 0 {wb} ({enc} {wb} r)).length = {NB} := by
    rw [Conv.length_putSlice _ _ _ _ (by omega) (by omega) (by rw [{enc}_length])]; exact hb
  have s0 : slice (putSlice b 0 {wb} ({enc} {wb} r)) 0 {wb} = {enc} {wb} r := by
    rw [Conv.slice_putSlice_same _ _ _ _ (by omega) (by omega) (by rw [{enc}_length])]
  have hw : Conv.limbsOf{kind} {wb} 1 (putSlice b 0 {wb} ({enc} {wb} r)) = [r] := by
    rw [words_{kind}]
    simp only [{uint}, s0, List.take_of_length_le (Nat.le_of_eq ({enc}_length {wb} _)), Conv.{'beToNat_natToBE' if kind=='BE' else 'leToNat_natToLE'}_of_lt {wb} r (by omega)]
  have := Conv.eq_{'natToBE' if kind=='BE' else 'natToLE'}_of_limbs {wb} 1 _ [r] (by rw [l1]) hw
  rw [Conv.ofLimbs_single] at this
  exact this

/-- **C08_gen** `{E}.Element ({E}.PutElement z) = (z, nil)` for every canonical `z` -/
theorem {E}_roundtrip (b : List UInt8) (hb : b.length = {NB}) (z : Nat) (hz : z < P.q) :
    {G}.{E}_Element ({G}.{E}_PutElement b z) = (z, 0) := by
  rw [{E}_PutElement_spec b hb z hz]
  have hf := fromMont_lt P P_ok _ hz
  have hl : (Conv.toBytes{kind} {NB} (GV.Field.fromMont P z)).length = {NB} := by simp [Conv.toBytes{kind}]
  have hv : {dec} (Conv.toBytes{kind} {NB} (GV.Field.fromMont P z)) = GV.Field.fromMont P z := by
    rw [Conv.toBytes{kind}, {digits}, Nat.mod_eq_of_lt (lt_of_lt_of_le hf q_le)]
  obtain ⟨m, _, hm, e⟩ := {fn}_accept _ hl (by rw [hv]; exact hf)
  rw [hv, toMont_fromMont P P_ok _ hz] at hm
  rw [e, hm]

/-- **C08_gen** `{E}.PutElement ({E}.Element b) = b` whenever `b` is accepted -/
theorem {E}_roundtrip_inv (b t : List UInt8) (hb : b.length = {NB}) (ht : t.length = {NB}) (h : {dec} b < P.q) :
    {G}.{E}_PutElement t ({G}.{E}_Element b).1 = b := by
  obtain ⟨m, g, hm, e⟩ := {fn}_accept b hb h
  rw [e]
  show {G}.{E}_PutElement t m = b
  rw [{E}_PutElement_spec t ht m g, hm, fromMont_toMont P P_ok _ h, Conv.toBytes{kind}, ← hb, {inv}]
"""
    T += f"""
/-! ### `Bytes`, `SetBytesCanonical`, `SetBytes` -/

theorem Bytes_eq (z : Nat) : {G}.Bytes z = {G}.bigEndian_PutElement (List.replicate {NB} 0) z := rfl

theorem Bytes_spec (z : Nat) (hz : z < P.q) : {G}.Bytes z = Conv.toBytesBE {NB} (GV.Field.fromMont P z) := by
  rw [Bytes_eq, bigEndian_PutElement_spec _ (List.length_replicate ..) z hz]

theorem SetBytesCanonical_eq (z : Nat) (e : List UInt8) :
    {G}.SetBytesCanonical z e =
      if e.length ≠ {NB} then (z, 2)
      else if ({G}.bigEndian_Element e).2 ≠ 0 then (z, ({G}.bigEndian_Element e).2)
      else {G}.bigEndian_Element e := by
  by_cases hl : e.length = {NB}
  · have ha : toArray {NB} e = e := Conv.toArray_eq _ _ hl
    unfold {G}.SetBytesCanonical {G}.bigEndian_Element
    simp only [ha, hl, ne_eq, not_true_eq_false, if_false]
    split <;> rename_i hc
    · simp only [hc, not_false_eq_true, if_true, one_ne_zero]
    · simp only [hc, not_true_eq_false, if_false]
  · unfold {G}.SetBytesCanonical
    simp only [hl, ne_eq, not_false_eq_true, if_true]

/-- **C08_gen** `SetBytesCanonical` accepts EXACTLY the `Bytes`-long big-endian encodings of the integers below `q` -/
theorem SetBytesCanonical_spec (z : Nat) (e : List UInt8) :
    (({G}.SetBytesCanonical z e).2 = 0 ↔ (e.length = {NB} ∧ Conv.beToNat e < P.q)) ∧
    (e.length = {NB} → Conv.beToNat e < P.q → ∃ m : Nat, m < P.q ∧ m = GV.Field.toMont P (Conv.beToNat e) ∧
      {G}.SetBytesCanonical z e = (m, 0)) ∧
    (¬ (e.length = {NB} ∧ Conv.beToNat e < P.q) → ∃ c, c ≠ 0 ∧ {G}.SetBytesCanonical z e = (z, c)) := by
  by_cases hl : e.length = {NB}
  · by_cases h : Conv.beToNat e < P.q
    · obtain ⟨m, g, hm, he⟩ := bigEndian_Element_accept e hl h
      have key : {G}.SetBytesCanonical z e = (m, 0) := by
        rw [SetBytesCanonical_eq, he]; simp only [hl, ne_eq, not_true_eq_false, if_false]
      rw [key]
      exact ⟨⟨fun _ => ⟨hl, h⟩, fun _ => rfl⟩, fun _ _ => ⟨m, g, hm, rfl⟩, fun hn => absurd ⟨hl, h⟩ hn⟩
    · have he := bigEndian_Element_reject e hl (by omega)
      have key : {G}.SetBytesCanonical z e = (z, 1) := by
        rw [SetBytesCanonical_eq, he]; simp only [hl, ne_eq, not_true_eq_false, if_false, one_ne_zero, not_false_eq_true, if_true]
      rw [key]
      exact ⟨⟨fun h0 => absurd h0 one_ne_zero, fun hh => absurd hh.2 h⟩, fun _ hh => absurd hh h, fun _ => ⟨1, one_ne_zero, rfl⟩⟩
  · have key : {G}.SetBytesCanonical z e = (z, 2) := by
      rw [SetBytesCanonical_eq]; simp only [hl, ne_eq, not_false_eq_true, if_true]
    rw [key]
    exact ⟨⟨fun h0 => absurd (show (2 : Nat) = 0 from h0) (by omega), fun hh => absurd hh.1 hl⟩, fun hh _ => absurd hh hl, fun _ => ⟨2, by omega, rfl⟩⟩

theorem SetBytesCanonical_model (z : Nat) (e : List UInt8) :
    Conv.setBytesCanonical P.q {NB} e =
      (if ({G}.SetBytesCanonical z e).2 = 0 then .ok (GV.Field.fromMont P ({G}.SetBytesCanonical z e).1)
       else if e.length ≠ {NB} then .error .length else .error .invalid) := by
  obtain ⟨h1, h2, h3⟩ := SetBytesCanonical_spec z e
  unfold Conv.setBytesCanonical
  by_cases hl : e.length = {NB}
  · by_cases h : Conv.beToNat e < P.q
    · obtain ⟨m, g, hm, he⟩ := h2 hl h
      rw [he]
      simp only [hl, ne_eq, not_true_eq_false, if_false, if_true, hm, fromMont_toMont P P_ok _ h, Conv.elementBE, h]
    · obtain ⟨c, hc, he⟩ := h3 (fun hh => h hh.2)
      rw [he]
      simp only [hl, ne_eq, not_true_eq_false, if_false, hc, Conv.elementBE, h]
  · obtain ⟨c, hc, he⟩ := h3 (fun hh => hl hh.1)
    rw [he]
    simp only [hl, ne_eq, not_false_eq_true, if_true, hc, if_false]

/-- **C08_gen** `SetBytes`: fast path (= `BigEndian.Element`) on a canonical `Bytes`-long input, the slow path `setBigIntBE e` (a PARAMETER:
`big.Int.SetBytes(e)` then `SetBigInt`) on EVERY other input -/
theorem SetBytes_spec (setBigIntBE : List UInt8 → Nat) (e : List UInt8) :
    (e.length = {NB} → Conv.beToNat e < P.q → {G}.SetBytes setBigIntBE e = ({G}.bigEndian_Element e).1) ∧
    (¬ (e.length = {NB} ∧ Conv.beToNat e < P.q) → {G}.SetBytes setBigIntBE e = setBigIntBE e) := by
  constructor
  · intro hl h
    have ha : toArray {NB} e = e := Conv.toArray_eq _ _ hl
    obtain ⟨m, g, hm, he⟩ := bigEndian_Element_accept e hl h
    have he' := he
    unfold {G}.bigEndian_Element at he
    simp only [Prod.mk.injEq] at he
    unfold {G}.SetBytes
    simp only [ha, hl, if_true, he, he']
  · intro hn
    by_cases hl : e.length = {NB}
    · have h : P.q ≤ Conv.beToNat e := by
        by_contra hc; exact hn ⟨hl, by omega⟩
      have ha : toArray {NB} e = e := Conv.toArray_eq _ _ hl
      have he := bigEndian_Element_reject e hl h
      unfold {G}.bigEndian_Element at he
      simp only [Prod.mk.injEq] at he
      unfold {G}.SetBytes
      simp only [ha, hl, if_true, he, one_ne_zero, if_false]
    · unfold {G}.SetBytes
      simp only [hl, if_false]

/-- with the slow path specified as the model says, `SetBytes` is `be(e) mod q` in Montgomery form for EVERY input -/
theorem SetBytes_lenient (setBigIntBE : List UInt8 → Nat)
    (hslow : ∀ e, setBigIntBE e = GV.Field.toMont P (Conv.beToNat e % P.q)) (e : List UInt8) :
    {G}.SetBytes setBigIntBE e = GV.Field.toMont P (Conv.setBytes P.q {NB} e) := by
  have hq : 0 < P.q := by rw [P_q]; omega
  rw [Conv.setBytes_eq P.q {NB} hq]
  obtain ⟨h1, h2⟩ := SetBytes_spec setBigIntBE e
  by_cases hc : e.length = {NB} ∧ Conv.beToNat e < P.q
  · obtain ⟨m, g, hm, he⟩ := bigEndian_Element_accept e hc.1 hc.2
    rw [h1 hc.1 hc.2, he, Nat.mod_eq_of_lt hc.2]
    exact hm
  · rw [h2 hc]; exact hslow e

/-! ### `Bits`, `Uint64`, `IsUint64`, `FitsOnOneWord`, `SetUint64` -/

theorem Bits_spec (z : Nat) (hz : z < P.q) : {G}.Bits z = GV.Field.fromMont P z := fromMontGeneric_spec z hz

theorem Uint64_spec (z : Nat) (hz : z < P.q) : {G}.Uint64 z = Conv.uint64 {w} (GV.Field.fromMont P z) := by
  have hf := lt_trans (fromMont_lt P P_ok z hz) q_lt_W
  have : {G}.Uint64 z = {L}.fromMontGeneric z := rfl
  rw [this, fromMontGeneric_spec z hz, Conv.uint64, Nat.mod_eq_of_lt (by simpa using hf)]

/-- a one-word field: `IsUint64()` and `FitsOnOneWord()` are the constant `true`, as in the model (every value is below 2^64) -/
theorem IsUint64_spec (z : Nat) (hz : z < P.q) :
    {G}.IsUint64 ∧ {G}.FitsOnOneWord ∧ Conv.isUint64 (GV.Field.fromMont P z) = true := by
  have hf := lt_trans (fromMont_lt P P_ok z hz) q_lt_W
  refine ⟨trivial, trivial, ?_⟩
  simp only [Conv.isUint64, decide_eq_true_eq]; omega
"""
    if gold:
        T += f"""
/-- `SetUint64 v` (`*z = Element{{v}}; z.Mul(z, &rSquare)`) for `v < q`: the canonical Montgomery element of `v`
(for `q ≤ v < 2^64` the Go code relies on Mul accepting an unreduced operand: not covered by C01_limb's Mul_spec, K only) -/
theorem SetUint64_spec (v : Nat) (hv : v < P.q) :
    {G}.SetUint64 v = GV.Field.toMont P (Conv.setUint64 P.q v) := by
  rw [Conv.setUint64, Nat.mod_eq_of_lt hv]
  exact (toMont_spec v hv).2
"""
    else:
        T += f"""
/-- `SetUint64 v` (`*z = Element{{uint32(v % uint64(q0))}}; z.toMont()`) for EVERY 64-bit `v`: the canonical Montgomery element of `v mod q` -/
theorem SetUint64_spec (v : Nat) (hv : v < {2**64}) :
    {G}.SetUint64 v = GV.Field.toMont P (Conv.setUint64 P.q v) := by
  have hm : v % P.q < P.q := Nat.mod_lt _ (by rw [P_q]; omega)
  obtain ⟨_, e⟩ := toMont_spec (v % P.q) hm
  rw [Conv.setUint64, ← e, P_q]
  unfold {G}.SetUint64
  have h1 : v % {q} % {2**32} = v % {q} := Nat.mod_eq_of_lt (lt_trans (Nat.mod_lt _ (by omega)) (by omega))
  simp only [h1]
"""
    T += f"""
end GV.C08gen.{f}
"""
    names = ["toMont_spec", "q_le", "words_BE_spec", "words_LE_spec"]
    for E in ("bigEndian", "littleEndian"):
        names += [f"{E}_Element_reject", f"{E}_Element_accept", f"{E}_Element_err_iff", f"{E}_Element_model", f"{E}_PutElement_spec",
                  f"{E}_roundtrip", f"{E}_roundtrip_inv"]
    names += ["Bytes_spec", "SetBytesCanonical_eq", "SetBytesCanonical_spec", "SetBytesCanonical_model", "SetBytes_spec", "SetBytes_lenient",
              "Bits_spec", "Uint64_spec", "IsUint64_spec", "SetUint64_spec"]
    return T, names


def big(f):
    """bw6_633_fp (10 words), bw6_761_fp (12 words): C01_limb has per-round theorems for Mul and none for fromMontGeneric, so the two
    Montgomery conversions enter as ONE explicit hypothesis `MontSpec` (everything else — wiring, strictness, dispatch — is proved)"""
    T, names = multi(f)
    c = consts(f)
    n, W = c['limbs'], 2 ** c['word']
    L = f"Gen.Limb.{f}"
    I = range(n)
    sp = lambda p: " ".join(f"{p}{i}" for i in I)
    cm = lambda p: ", ".join(f"{p}{i}" for i in I)
    bd = lambda p: " ".join(f"(h{p}{i} : {p}{i} < {W})" for i in I)
    rs = " ".join(str(x) for x in c['rsq'])
    a = T.index("/-- `toMont` of the Go text")
    b = T.index("/-! ### wiring")
    head, tail = T[:a], T[b:]
    mid = f"""/-- ASSUMED for this field: the two Montgomery conversions of the Go text meet their value-level specification. C01_limb proves every CIOS
round of `Mul` and the final subtraction for this field (Props/C01_limb_{f}.lean) but not the composed function, and has no theorem for
`_fromMontGeneric`; K (C01 ops mul / C08 ops tobytes, setcanonical) covers both. Everything below is proved from this single hypothesis. -/
def MontSpec : Prop :=
  (∀ {sp('z')} : Nat, {" → ".join(f"z{i} < {W}" for i in I)} → val [{cm('z')}] < P.q →
    Good ({L}.Mul {sp('z')} {rs}) ∧ tval ({L}.Mul {sp('z')} {rs}) = GV.Field.toMont P (val [{cm('z')}])) ∧
  (∀ {sp('z')} : Nat, {" → ".join(f"z{i} < {W}" for i in I)} → val [{cm('z')}] < P.q →
    Good ({L}.fromMontGeneric {sp('z')}) ∧ tval ({L}.fromMontGeneric {sp('z')}) = GV.Field.fromMont P (val [{cm('z')}]))

variable (hM : MontSpec)
include hM

theorem toMont_spec ({sp('z')} : Nat) {bd('z')} (hZ : val [{cm('z')}] < P.q) :
    Good ({L}.Mul {sp('z')} {rs}) ∧ tval ({L}.Mul {sp('z')} {rs}) = GV.Field.toMont P (val [{cm('z')}]) :=
  hM.1 {sp('z')} {" ".join(f"hz{i}" for i in I)} hZ

theorem fromMontGeneric_spec ({sp('z')} : Nat) {bd('z')} (hZ : val [{cm('z')}] < P.q) :
    Good ({L}.fromMontGeneric {sp('z')}) ∧ tval ({L}.fromMontGeneric {sp('z')}) = GV.Field.fromMont P (val [{cm('z')}]) :=
  hM.2 {sp('z')} {" ".join(f"hz{i}" for i in I)} hZ

"""
    later = sorted(set(re.findall(r"^theorem ([A-Za-z_0-9']+)", tail, re.M)) | {"toMont_spec", "fromMontGeneric_spec"}, key=len, reverse=True)
    for nm in later:
        tail = re.sub(r"(?<!theorem )(?<![A-Za-z_0-9.])" + re.escape(nm) + r"(?![A-Za-z_0-9'])", nm + " hM", tail)
    T = head + mid + tail
    T = T.replace("set_option maxHeartbeats 2000000", "set_option maxHeartbeats 16000000\nset_option linter.unusedSectionVars false")
    T = T.replace("for ALL byte arrays and ALL canonical elements.", "for ALL byte arrays and ALL canonical elements — UNDER the hypothesis `MontSpec` (toMont / fromMont of this 10/12-word field meet GV.Field).")
    return T, names


def write(f, T):
    p = os.path.join(LEAN, 'Props', f'C08_gen_{f}.lean')
    if not os.path.exists(p) or open(p).read() != T:
        open(p, 'w').write(T)


KIND = {}
for _f in ALL[:18]:
    KIND[_f] = multi
for _f in ALL[18:21]:
    KIND[_f] = single
for _f in ALL[21:]:
    KIND[_f] = big

SUMMARY = """/-
C08_gen — tie T for the byte <-> limb conversions of the field packages: every theorem below is about definitions REGENERATED from
/repo on every run (Gen/Bytes/<Field>.lean by tools/goslp/bytes.go, calling Gen/Limb/<Field>.lean by tools/goslp/limb.go).
Per field (namespace GV.C08gen.<field>), for ALL byte arrays / slices and ALL canonical elements:
* `bigEndian_PutElement_spec`, `littleEndian_PutElement_spec`: the bytes written are `Conv.toBytesBE/LE Bytes (fromMont (val z))`;
* `bigEndian_Element_reject / _accept / _err_iff / _model` (and littleEndian): error IFF value >= q, otherwise the canonical Montgomery
  element of the value; the hand model `Conv.elementBE/LE` is the generated decoder followed by `fromMont`;
* `bigEndian_roundtrip`, `bigEndian_roundtrip_inv` (and littleEndian): Element (PutElement z) = (z, nil); PutElement (Element b) = b when accepted;
* `Bytes_spec`, `SetBytesCanonical_eq / _spec / _model`, `SetBytes_spec` (fast path on canonical Bytes-long input, the PARAMETER
  `setBigIntBE e` on every other input), `SetBytes_lenient` (with the parameter specified as be(e) mod q: = `Conv.setBytes`);
* `Bits_spec`, `Uint64_spec`, `FitsOnOneWord_spec`, `IsUint64_spec`, `SetUint64_spec`.
21 fields unconditionally (18 fields of 4/5/6 words through C01_limb's Mul_spec / fromMontGeneric_spec; goldilocks; koalabear and babybear, whose
toMont is a shift and a remainder). bw6_633_fp (10 words) and bw6_761_fp (12 words): every theorem takes the hypothesis `MontSpec` (toMont = Mul by
rSquare and _fromMontGeneric meet GV.Field.toMont / fromMont): C01_limb has per-round theorems only for these two fields, the composed functions are
not proved there; wiring, strictness, dispatch and round trips are proved from that one hypothesis. goldilocks `SetUint64_spec` needs v < q (Mul_spec
of C01_limb wants a reduced operand). NOT covered: SetBigInt / SetString / Text / JSON / vectors (math/big, io: hand model + K).
-/
"""


def umbrella(done):
    T = "".join(f"import GnarkVerif.Props.C08_gen_{f}\n" for f in done) + SUMMARY
    p = os.path.join(LEAN, 'Props', 'C08_gen.lean')
    if not os.path.exists(p) or open(p).read() != T:
        open(p, 'w').write(T)
    A = "import GnarkVerif.Props.C08_gen\nopen GV.C08gen\n"
    for f in done:
        _, names = KIND[f](f)
        A += "".join(f"#print axioms {f}.{n}\n" for n in names)
    p = os.path.join(LEAN, 'Audit', 'C08_gen.lean')
    if not os.path.exists(p) or open(p).read() != A:
        open(p, 'w').write(A)


if __name__ == '__main__':
    fields = sys.argv[1:] or [f for f in ALL if f in KIND]
    tot = 0
    for f in fields:
        T, names = KIND[f](f)
        write(f, T)
        tot += len(names)
    umbrella([f for f in ALL if f in KIND])
    print(len(fields), "fields,", tot, "theorems")
