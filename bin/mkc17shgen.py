#!/usr/bin/env python3
"""bin/mkc17shgen.py — writes lean/GnarkVerif/Props/C17_gen_sh*.lean and Audit/C17_gen_sh.lean.

Theorems about the defs that tools/goslp (slpgroup.go) regenerates from ecc/<curve>/shplonk/shplonk.go on every run
(Gen/Verifier/Shplonk_<curve>.lean: BatchVerify specialised to the shapes below, helper functions executed in place, loops unrolled).
One proof template, instantiated per package and shape; the script supplies only the package names and the argument lists of the shapes.
"""
import os

ROOT = os.path.dirname(os.path.dirname(os.path.abspath(__file__)))
PROPS = os.path.join(ROOT, "lean", "GnarkVerif", "Props")
AUDIT = os.path.join(ROOT, "lean", "GnarkVerif", "Audit")
PKGS = ["bn254", "bls12_377", "bls12_381", "bls24_315", "bls24_317", "bw6_633", "bw6_761"]
SHAPES = [[1], [2], [1, 1], [2, 1], [2, 2]]   # points per polynomial
HEAD = "/- INSTANTIATED by bin/mkc17shgen.py (one proof template for the 7 packages and 5 shapes). DO NOT EDIT: edit the script and re-run it. -/\n"
INST = "(G := Ex q) (G2 := Unit) (S := Ex q) (L := ℕ × ℕ)"


def sname(sh):
    return "s" + "".join(str(n) for n in sh)


def shape_thms(pkg, sh):
    ns = f"shplonk_{pkg}"
    k = len(sh)
    tag = sname(sh)
    vs = [[f"v{i}{j}" for j in range(sh[i])] for i in range(k)]
    xs = [[f"x{i}{j}" for j in range(sh[i])] for i in range(k)]
    ds = [f"d{i}" for i in range(k)]
    flat = lambda ll: [a for l in ll for a in l]
    allv = " ".join(["W", "W'"] + flat(vs) + ds + flat(xs))
    bound = ", ".join([f"mS {a}" for a in flat(xs)] + [f"mS {a}" for a in flat(vs)] + [f"mG {d}" for d in ds])
    gam = f'fsC "gamma" [{bound}] []'
    vl = "[" + ", ".join("[" + ", ".join(a + ".v" for a in l) + "]" for l in vs) + "]"
    xl = "[" + ", ".join("[" + ", ".join(a + ".v" for a in l) + "]" for l in xs) + "]"
    dl = "[" + ", ".join(d + ".v" for d in ds) + "]"
    names = [f"C17gen_{pkg}_sh_{tag}", f"C17gen_{pkg}_sh_{tag}_binding"]
    text = f"""/-- shape {sh}: the generated `BatchVerify` (exponent model, dictionary `fp q`) accepts iff `Model.ArgPairing.shVerify` accepts, with
γ = the challenge derived from (points, CLAIMED VALUES, digests) and z = the challenge derived from W after γ — every input -/
theorem C17gen_{pkg}_sh_{tag} (mS : Ex q → List UInt8) (mG : Ex q → List UInt8)
    (fsC : String → List (List UInt8) → List (List UInt8) → List UInt8) (frB : List UInt8 → Ex q) (h2 : 2 < q)
    ({allv} g1 : Ex q) (l : ℕ × ℕ) (q0 q1 : Unit) :
    {ns}.BatchVerify_{tag} {INST} Ex.toInt mS mG fsC frB (pcFixed q) {allv} q0 q1 g1 l = Res.ok ↔
      shVerify (fp q) g1.v l.1 l.2 ⟨W.v, W'.v, {vl}⟩ {dl} {xl}
        (frB ({gam})).v
        (frB (fsC "z" [mG W] [{gam}])).v = some true := by
  have hq : NeZero q := ⟨(Fact.out : q.Prime).ne_zero⟩
  simp only [{ns}.BatchVerify_{tag}, pcFixed_eq_pc]
  simp only [shVerify, List.length_cons, List.length_nil, ne_eq, not_true_eq_false, if_false, Option.some.injEq]
  apply res_ok_iff_of_eq
  apply fp_pairingCheck_congr
  simp [ArgPairing.dot, shFolded, shGz, shRi, interpolate, lagrange, vanishing, mulLin, ztMinusSi, evalP, sumP, sumN, scaleP, subP, addP,
    npow, cast_fp_inv q h2, cast_fp_sub, (by decide : List.range 2 = [0, 1]), (by decide : List.range 1 = [0]),
    -mul_eq_mul_right_iff, -mul_eq_mul_left_iff, -mul_eq_zero, -add_left_inj, -add_right_inj, -sub_left_inj,
    -sub_right_inj]
  try ring

/-- BINDING (what /repo fix 420bc96 repaired): in the generated def the challenge γ is a function of the claimed values — two runs that
differ only in what the transcript returns for the list (points, claimed values, digests) are run with the corresponding γ; the list
handed to `fsChallenge "gamma"` is exactly [points…, claimed values…, digests…] and z is derived from W after γ -/
theorem C17gen_{pkg}_sh_{tag}_binding {{G G2 S L : Type}} [AddCommGroup G] [Field S] [BEq G2] (toInt : S → Int) (mS : S → List UInt8)
    (mG : G → List UInt8) (fsC fsC' : String → List (List UInt8) → List (List UInt8) → List UInt8) (frB : List UInt8 → S)
    (pcf : List G → L → Bool) (W W' : G) ({" ".join(flat(vs))} : S) ({" ".join(ds)} : G) ({" ".join(flat(xs))} : S) (q0 q1 : G2) (g1 : G) (lines : L)
    (hg : fsC' "gamma" [{bound}] [] = fsC "gamma" [{bound}] [])
    (hz : fsC' "z" [mG W] [{gam}] = fsC "z" [mG W] [{gam}]) :
    {ns}.BatchVerify_{tag} toInt mS mG fsC' frB pcf {allv} q0 q1 g1 lines
      = {ns}.BatchVerify_{tag} toInt mS mG fsC frB pcf {allv} q0 q1 g1 lines := by
  simp only [{ns}.BatchVerify_{tag}, hg, hz]
"""
    # abstract level
    S = "(ofField S)"
    pts = "[" + ", ".join("[" + ", ".join(l) + "]" for l in xs) + "]"
    vals = "[" + ", ".join("[" + ", ".join(l) + "]" for l in vs) + "]"
    gz = lambda i: f"shGz {S} {pts} γ z {i}"
    comb = " + ".join(f"toInt ({gz(i)}) • d{i}" for i in range(k))
    names.append(f"C17gen_{pkg}_sh_{tag}_abstract")
    text += f"""
/-- abstract level, shape {sh}: over ANY commutative group `G` and field `S` the Go text returns nil iff the pairing check holds of
`−(Σᵢ [γⁱ·Z_(T∖Sᵢ)(z)]Cᵢ − [Σᵢ γⁱ·Z_(T∖Sᵢ)(z)·rᵢ(z)]G₁ − [Z_T(z)]W + [z]W')` and `W'` (the scalars written with the polynomial functions of
Model/ArgPairing.lean over the field itself), γ and z being the two transcript challenges -/
theorem C17gen_{pkg}_sh_{tag}_abstract {{G G2 S L : Type}} [AddCommGroup G] [Field S] [DecidableEq S] [BEq G2] (toInt : S → Int)
    (mS : S → List UInt8) (mG : G → List UInt8) (fsC : String → List (List UInt8) → List (List UInt8) → List UInt8)
    (frB : List UInt8 → S) (pcf : List G → L → Bool) (W W' : G) ({" ".join(flat(vs))} : S) ({" ".join(ds)} : G) ({" ".join(flat(xs))} : S)
    (q0 q1 : G2) (g1 : G) (lines : L) (γ z : S) (hγ : γ = frB ({gam})) (hz : z = frB (fsC "z" [mG W] [{gam}])) :
    {ns}.BatchVerify_{tag} toInt mS mG fsC frB pcf {allv} q0 q1 g1 lines = Res.ok ↔
      pcf [-({comb}
            - toInt (sumN {S} (fun i => shGz {S} {pts} γ z i * evalP {S} (shRi {S} {pts} {vals} i) z) {k}) • g1
            - toInt (evalP {S} (vanishing {S} [{", ".join(flat(xs))}]) z) • W + toInt z • W'), W'] lines = true := by
  subst hγ hz
  simp only [{ns}.BatchVerify_{tag}, verdict_ok_iff]
  refine iff_of_eq (congrArg (fun t => pcf [-t, W'] lines = true) ?_)
  simp [shGz, shRi, interpolate, lagrange, vanishing, mulLin, ztMinusSi, evalP, sumP, sumN, scaleP, subP, addP, npow,
    -mul_eq_mul_right_iff, -mul_eq_mul_left_iff, -mul_eq_zero, -add_left_inj, -add_right_inj, -sub_left_inj, -sub_right_inj]
  try ring_nf
"""
    return names, text


def pkg_file(pkg):
    names, T = [], []
    for sh in SHAPES:
        n, t = shape_thms(pkg, sh)
        names += n
        T.append(t)
    body = HEAD + f"""import GnarkVerif.Proofs.VerifierGenPed
import GnarkVerif.Gen.Verifier.Shplonk_{pkg}
import Mathlib.Tactic.Ring
import Mathlib.Tactic.FieldSimp
import Mathlib.Tactic.Abel
/-
C17 (SHPLONK), tie T for ecc/{pkg.replace("_", "-")}/shplonk/shplonk.go: `BatchVerify` as REGENERATED from the Go text, specialised to
(number of polynomials, points per polynomial) ∈ {{(1,[1]), (1,[2]), (2,[1,1]), (2,[2,1]), (2,[2,2])}} (Gen/Verifier/Shplonk_{pkg}.lean).
`deriveChallenge`, `buildZtMinusSi`, `buildVanishingPoly`, `multiplyLinearFactor`, `interpolate`, `buildLagrangeFromDomain`, `mulByConstant`,
`eval`, `flatten` are executed in place (loops unrolled, slices with Go's aliasing); the Fiat–Shamir transcript is the PARAMETER
`fsChallenge name (data bound to that name, in order) (challenges computed before)`, so the generated def SHOWS what each challenge is bound to.
-/
set_option linter.unusedVariables false
set_option linter.unusedSimpArgs false
set_option linter.unusedTactic false
set_option linter.unreachableTactic false
open GV GV.Alg GV.KZG GV.Gen.Verifier GV.VerifierGen GV.ArgPairing
namespace GV.C17gen
variable (q : ℕ) [Fact q.Prime]

omit [Fact q.Prime] in
theorem verdict_ok_iff (b : Bool) (e : String) : (if (!b) = true then Res.err e else Res.ok) = Res.ok ↔ b = true := by
  cases b <;> simp

""" + "\n".join(T) + "\nend GV.C17gen\n"
    open(os.path.join(PROPS, f"C17_gen_sh_{pkg}.lean"), "w").write(body)
    return names


FCLS = "{G G2 S L : Type} [Add G] [Sub G] [Neg G] [Zero G] [SMul Int G] [Add S] [Sub S] [Mul S] [Neg S] [Zero S] [One S] [BEq G2] [Inv S] [BEq S]"
FPAR = ("(toInt : S → Int) (root : Int → S) (rootErr : Int → Bool) (mS : S → List UInt8) (mG : G → List UInt8) "
        "(fsC : String → List (List UInt8) → List (List UInt8) → List UInt8) (frB : List UInt8 → S) (pcf : List G → L → Bool)")


def ff_file(pkg):
    ns, sh = f"fflonk_{pkg}", f"shplonk_{pkg}"
    names = [f"C17gen_{pkg}_ff_inner_s1", f"C17gen_{pkg}_ff_inner_s2", f"C17gen_{pkg}_ff_t1_m1", f"C17gen_{pkg}_ff_t2_m1"]
    body = HEAD + f"""import GnarkVerif.Gen.Verifier.Fflonk_{pkg}
import GnarkVerif.Gen.Verifier.Shplonk_{pkg}
import Mathlib.Tactic.SplitIfs
/-
C17 (fflonk), tie T for ecc/{pkg.replace("_", "-")}/fflonk/fflonk.go: `BatchVerify` as REGENERATED from the Go text for ONE pack of t = 1 resp. t = 2
polynomials opened at one point (Gen/Verifier/Fflonk_{pkg}.lean; `eval`, `extendSet` executed in place; `getIthRootOne` = PARAMETERS
ithRootOne / ithRootOneErr; the call of shplonk.BatchVerify is a call of the shplonk def translated from shplonk.go at the extended shape).
`_ff_inner_*`: the shplonk def emitted into the fflonk file IS the def of Gen/Verifier/Shplonk_{pkg}.lean at shape (1,[1]) resp. (1,[2]) (`rfl`), so
the theorems of Props/C17_gen_sh_{pkg}.lean apply to it. `_ff_t*_m1`: over ANY types the Go text returns nil iff the root exists, every folded
claimed value equals Horner of the pack's claimed values at x·ωˡ, and the inner SHPLONK verification on the extended points [x, x·ω, …] returns nil.
No equality with Model/ArgPairing.lean `ffVerify` is proved here.
-/
set_option linter.unusedVariables false
open GV GV.Gen.Verifier
namespace GV.C17gen

theorem C17gen_{pkg}_ff_inner_s1 {FCLS} :
    {ns}.shplonk_BatchVerify_k1 (G := G) (G2 := G2) (S := S) (L := L) = {sh}.BatchVerify_s1 (G := G) (G2 := G2) (S := S) (L := L) := rfl

theorem C17gen_{pkg}_ff_inner_s2 {FCLS} :
    {ns}.shplonk_BatchVerify_n1_2_1_1_2 (G := G) (G2 := G2) (S := S) (L := L) = {sh}.BatchVerify_s2 (G := G) (G2 := G2) (S := S) (L := L) := rfl

theorem C17gen_{pkg}_ff_t1_m1 {FCLS} {FPAR}
    (W W' : G) (s0 a : S) (d0 : G) (x : S) (q0 q1 : G2) (g1 : G) (lines : L) :
    {ns}.BatchVerify_t1_m1 toInt root rootErr mS mG fsC frB pcf W W' s0 a d0 x q0 q1 g1 lines = Res.ok ↔
      (rootErr 1 = false ∧ ((0 : S) * x + a == s0) = true ∧
        {sh}.BatchVerify_s1 toInt mS mG fsC frB pcf W W' s0 d0 x q0 q1 g1 lines = Res.ok) := by
  simp only [{ns}.BatchVerify_t1_m1, C17gen_{pkg}_ff_inner_s1]
  split_ifs <;> simp_all

theorem C17gen_{pkg}_ff_t2_m1 {FCLS} {FPAR}
    (W W' : G) (s0 s1 a b : S) (d0 : G) (x : S) (q0 q1 : G2) (g1 : G) (lines : L) :
    {ns}.BatchVerify_t2_m1 toInt root rootErr mS mG fsC frB pcf W W' s0 s1 a b d0 x q0 q1 g1 lines = Res.ok ↔
      (rootErr 2 = false ∧ (((0 : S) * x + b) * x + a == s0) = true ∧
        (((0 : S) * (x * root 2) + b) * (x * root 2) + a == s1) = true ∧
        {sh}.BatchVerify_s2 toInt mS mG fsC frB pcf W W' s0 s1 d0 x (x * root 2) q0 q1 g1 lines = Res.ok) := by
  simp only [{ns}.BatchVerify_t2_m1, C17gen_{pkg}_ff_inner_s2]
  split_ifs <;> simp_all

end GV.C17gen
"""
    open(os.path.join(PROPS, f"C17_gen_ff_{pkg}.lean"), "w").write(body)
    return names


def main():
    names = []
    for pkg in PKGS:
        names += pkg_file(pkg)
    for pkg in PKGS:
        names += ff_file(pkg)
    open(os.path.join(PROPS, "C17_gen_sh.lean"), "w").write(
        HEAD + "".join(f"import GnarkVerif.Props.C17_gen_sh_{p}\nimport GnarkVerif.Props.C17_gen_ff_{p}\n" for p in PKGS) +
        "/-\nC17 tie T (SHPLONK BatchVerify): see Props/C17_gen_sh_<curve>.lean. This root module only collects the 7 instances.\n-/\n")
    open(os.path.join(AUDIT, "C17_gen_sh.lean"), "w").write(
        "import GnarkVerif.Props.C17_gen_sh\nopen GV.C17gen\n" + "".join(f"#print axioms {n}\n" for n in names))
    print(f"C17_gen_sh: {len(names)} theorems in {len(PKGS)} files")


if __name__ == "__main__":
    main()
