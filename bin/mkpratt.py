#!/usr/bin/env python3
"""mkpratt.py -- primality certificates for the field moduli of lean/GnarkVerif/Gen/Fields.lean.

  bin/mkpratt.py gen      (pure python3, fast; part of the normal build)
      reads  lean/GnarkVerif/Gen/Fields.lean           (names + moduli, regenerated from the Go source)
             bin/pratt/factors.json                    (stored factorisations of n-1, never recomputed)
      writes lean/GnarkVerif/Proofs/PrattCerts.lean    (certificate terms, `GV.Pratt.cert_<field>`)
             lean/GnarkVerif/Props/C01_primes.lean     (theorems `C01_prime_<field>`, instances, summary, corollaries)
             lean/GnarkVerif/Audit/C01_primes.lean
      A modulus whose n-1 chain is not in factors.json is left uncertified (listed in the summary theorem).

  python3-vt bin/mkpratt.py factor [maxlevel]   (needs sympy; optional: gcc + libgmp for bin/pratt/ecm.c, siqs.c)
      extends bin/pratt/factors.json: factors n-1 recursively for every modulus (trial division, sympy for
      cofactors <= 110 bits, the ECM helper above that, the quadratic sieve helper for what ECM leaves up to ~100 digits).  Only needed when a modulus changes.

factors.json:  { "<n>": {"factors": {"<p>": e, ...}, "cofactor": "<R>"} }  with  n-1 = R * prod p^e,
R = 1 for a complete factorisation; a composite/unknown R > 1 is allowed (Pocklington needs (F+1)^2 > n,
the Brillhart-Lehmer-Selfridge step F^3 >= n).
"""
import json, os, re, sys, random, subprocess, time

ROOT = os.path.dirname(os.path.dirname(os.path.abspath(__file__)))
DB = os.path.join(ROOT, 'bin', 'pratt', 'factors.json')
FIELDS = os.path.join(ROOT, 'lean', 'GnarkVerif', 'Gen', 'Fields.lean')
SMALL = 1 << 16          # primes below this are certified by trial division inside the checker


def read_fields():
    s = open(FIELDS).read()
    names = re.findall(r'def (\w+) : FieldConsts', s)
    qs = [int(x) for x in re.findall(r'\n  q := (\d+),', s)]
    assert len(names) == len(qs)
    order = re.search(r'def allFields : List FieldConsts := \[([^\]]*)\]', s).group(1).replace(' ', '').split(',')
    d = dict(zip(names, qs))
    return [(n, d[n]) for n in order]


def is_probable_prime(n, rounds=24):
    if n < 2:
        return False
    for p in (2, 3, 5, 7, 11, 13, 17, 19, 23, 29, 31, 37):
        if n % p == 0:
            return n == p
    d, s = n - 1, 0
    while d % 2 == 0:
        d //= 2
        s += 1
    rng = random.Random(n)
    for _ in range(rounds):
        a = rng.randrange(2, n - 1)
        x = pow(a, d, n)
        if x in (1, n - 1):
            continue
        for _ in range(s - 1):
            x = x * x % n
            if x == n - 1:
                break
        else:
            return False
    return True


def small_prime(n):
    if n < 2:
        return False
    d = 2
    while d * d <= n:
        if n % d == 0:
            return False
        d += 1
    return True


# ---------------------------------------------------------------- certificate chains

class Chain:
    """topologically ordered steps (n, a, [(p, e)]) certifying a set of primes"""

    def __init__(self, db):
        self.db = db
        self.memo = {}     # n -> list of (p, e) used, or None when not certifiable

    def usable(self, n):
        """the (p, e) list for the step of n, or None"""
        if n in self.memo:
            return self.memo[n]
        self.memo[n] = None
        ent = self.db.get(str(n))
        if ent is None:
            return None
        fs = []
        F = 1
        for p, e in sorted((int(p), e) for p, e in ent['factors'].items()):
            assert (n - 1) % p ** e == 0 and (n - 1) // p ** e % p != 0, (n, p, e)
            if p < SMALL:
                assert small_prime(p), p
            elif self.usable(p) is None:
                continue
            fs.append((p, e))
            F *= p ** e
        if (F + 1) * (F + 1) <= n and not (n <= F ** 3 and bls_witness(n, F) is not None):
            return None
        self.memo[n] = fs
        return fs

    def steps(self, n, out, seen):
        """append the steps needed for n (dependencies first)"""
        if n < SMALL or n in seen:
            return
        seen.add(n)
        fs = self.usable(n)
        assert fs is not None
        for p, _ in fs:
            self.steps(p, out, seen)
        a = 2
        while True:
            if pow(a, n - 1, n) != 1:
                raise ValueError('%d is not prime' % n)
            if all(gcd(pow(a, (n - 1) // p, n) - 1, n) == 1 for p, _ in fs):
                break
            a += 1
        F = prod(fs)
        s = 0 if n < (F + 1) * (F + 1) else bls_witness(n, F)
        out.append((n, a, fs, s))


def isqrt(n):
    if n < 2:
        return n
    x = 1 << ((n.bit_length() + 1) // 2)
    while True:
        y = (x + n // x) // 2
        if y >= x:
            return x
        x = y


def bls_witness(n, F):
    """Brillhart-Lehmer-Selfridge step (cube-root bound): (n-1)/F = c2*F + c1; returns s with s^2 < c1^2-4c2 < (s+1)^2,
    0 when c1^2 < 4c2, None when c1^2-4c2 is a perfect square (then the test does not apply)"""
    R = (n - 1) // F
    c1, c2 = R % F, R // F
    if c1 * c1 < 4 * c2:
        return 0
    D = c1 * c1 - 4 * c2
    s = isqrt(D)
    return None if s * s == D else s


def gcd(a, b):
    while b:
        a, b = b, a % b
    return abs(a)


# ---------------------------------------------------------------- Lean output

def lean_cert(name, n, steps):
    lines = ['def cert_%s : PrattCert := {' % name, '  n := %d,' % n, '  steps := [']
    body = []
    for (m, a, fs, s) in steps:
        body.append('    ⟨%d, %d, [%s], %d⟩' % (m, a, ', '.join('(%d, %d)' % pe for pe in fs), s))
    lines.append(',\n'.join(body))
    lines.append('  ] }')
    return '\n'.join(lines)


def gen():
    db = json.load(open(DB))
    fields = read_fields()
    chain = Chain(db)
    first = {}            # modulus -> first field name carrying it
    for name, q in fields:
        first.setdefault(q, name)
    certified, missing = [], []
    certs = []
    for q, name in first.items():
        if q < SMALL or chain.usable(q) is not None:
            steps = []
            chain.steps(q, steps, set())
            certs.append((name, q, steps))
    ok = {q for _, q, _ in certs}
    for name, q in fields:
        (certified if q in ok else missing).append(name)

    L = os.path.join(ROOT, 'lean', 'GnarkVerif')
    # --- Proofs/PrattCerts.lean
    with open(os.path.join(L, 'Proofs', 'PrattCerts.lean'), 'w') as f:
        f.write('import GnarkVerif.Proofs.Pratt\n')
        f.write('/- GENERATED by bin/mkpratt.py gen from bin/pratt/factors.json. DO NOT EDIT.\n'
                'Primality certificates (chains of Lucas/Pocklington steps, see Proofs/Pratt.lean) of the field moduli. -/\n')
        f.write('namespace GV.Pratt\n\n')
        for name, q, steps in certs:
            f.write('/-- %d bits, %d steps%s -/\n' % (q.bit_length(), len(steps),
                    '' if all(prod(fs) == m - 1 for m, _, fs, _ in steps) else ' (some steps use a partial factorisation: Pocklington / Brillhart-Lehmer-Selfridge)'))
            f.write(lean_cert(name, q, steps) + '\n\n')
        f.write('end GV.Pratt\n')

    # --- Props/C01_primes.lean
    thm = []
    for name, q, steps in certs:
        same = [n for n, qq in fields if qq == q]
        thm.append('/-- the modulus of `%s` (%d bits) is prime%s -/' % (
            name, q.bit_length(), '' if len(same) == 1 else '; same modulus: ' + ', '.join('`%s`' % s for s in same[1:])))
        thm.append('theorem C01_prime_%s : Nat.Prime GV.Gen.%s.q :=\n  prime_of_cert _ cert_%s (by decide +kernel)' % (name, name, name))
        for s in same[1:]:
            thm.append('theorem C01_prime_%s : Nat.Prime GV.Gen.%s.q :=\n  prime_of_cert _ cert_%s (by decide +kernel)' % (s, s, name))
        thm.append('')
    inst = ['instance : Fact (ofConsts GV.Gen.%s).q.Prime := ⟨C01_prime_%s⟩' % (n, n) for n in certified]
    allcases = []
    for name, q in fields:
        if name in certified:
            allcases.append('fun _ => C01_prime_%s' % name)
        else:
            allcases.append('fun h => absurd (by decide) h')
    miss_list = '[' + ', '.join('"%s"' % m for m in missing) + ']'
    with open(os.path.join(L, 'Props', 'C01_primes.lean'), 'w') as f:
        f.write(PROPS_HEAD % {
            'ncert': len(certified), 'nfields': len(fields), 'ndist': len(first), 'ncertdist': len(certs),
            'missing': ('\n'.join('  * `%s` (%d bits)' % (m, dict(fields)[m].bit_length()) for m in missing)) or '  (none)'})
        f.write('\n'.join(thm))
        f.write('\n/-! ## instances: the `[Fact p.q.Prime]` hypotheses of the C01 theorems, discharged -/\n\n')
        f.write('\n'.join(inst) + '\n')
        compl = [n for n, q, st in certs if all(prod(fs) == m - 1 for m, _, fs, _ in st)]
        part = [n for n, q, st in certs if n not in compl]
        f.write(PROPS_SUMMARY % {'miss': miss_list, 'cases': ',\n    '.join(allcases), 'ncert': len(certified),
                                 'nfields': len(fields), 'completeList': ', '.join('cert_' + n for n in compl),
                                 'partial': ', '.join('`cert_%s`' % n for n in part) or 'none'})
        f.write(PROPS_COR % {'miss': miss_list})
    # --- Audit
    with open(os.path.join(L, 'Audit', 'C01_primes.lean'), 'w') as f:
        f.write('import GnarkVerif.Props.C01_primes\nopen GV.Field GV.Pratt\n')
        f.write('#print axioms GV.Pratt.check_sound\n#print axioms GV.Pratt.check_sound_lucas\n#print axioms GV.Pratt.pocklington\n#print axioms GV.Pratt.bls_cube\n')
        for n in certified:
            f.write('#print axioms C01_prime_%s\n' % n)
        for t in ['C01_primes_covered', 'C01_primes_complete', 'C01_inv_bn254_fr', 'C01_exp_bn254_fr', 'C01_batchInv_bn254_fr',
                  'C01_legendre_bn254_fr', 'C01_inv_bls12_381_fr', 'C01_inv_all']:
            f.write('#print axioms %s\n' % t)
    print('certified %d/%d fields (%d/%d distinct moduli); not certified: %s' % (
        len(certified), len(fields), len(certs), len(first), ', '.join(missing) or '-'))


def prod(fs):
    r = 1
    for p, e in fs:
        r *= p ** e
    return r


PROPS_HEAD = '''import GnarkVerif.Props.C01
import GnarkVerif.Proofs.PrattCerts
/- GENERATED by bin/mkpratt.py gen (statements and proofs are fixed text; only the list of fields varies). DO NOT EDIT.

C01 (primes) — the moduli of the generated field packages are prime: the `[Fact p.q.Prime]` hypotheses of the
C01 theorems (inverse, integer exponent, division, batch inversion, Legendre, square roots) are discharged for
%(ncert)d of the %(nfields)d field packages (%(ncertdist)d of %(ndist)d distinct moduli).

Every `C01_prime_<field>` states `Nat.Prime GV.Gen.<field>.q`: the modulus is read from the constant block that is
regenerated from the Go source on every run, so a changed constant breaks the proof.  The proof evaluates the
certificate checker `GV.Pratt.check` (Proofs/Pratt.lean: chain of Lucas / Pocklington / BLS "N−1" steps, trial division
below 2^16) in the kernel (`decide +kernel`) and applies its soundness theorem
`GV.Pratt.check_sound` (Mathlib's `lucas_primality` for complete factorisations, `check_sound_lucas`; Pocklington's
criterion and the Brillhart–Lehmer–Selfridge cube-root refinement for partially factored `n − 1`).

NOT certified (n−1 could not be factored far enough; for these the C01 theorems keep their primality hypothesis):
%(missing)s
-/
namespace GV.Field
open GV.Pratt

/-! ## primality of the moduli -/

'''

PROPS_SUMMARY = '''
/-! ## summary -/

/-- coverage: every generated field package, except the listed ones, has a prime modulus -/
theorem C01_primes_covered : ∀ c ∈ GV.Gen.allFields,
    c.name ∉ %(miss)s → Nat.Prime c.q := by
  unfold GV.Gen.allFields
  simp only [List.forall_mem_cons, List.not_mem_nil, false_imp_iff, implies_true, and_true]
  exact ⟨%(cases)s⟩
example : (GV.Gen.allFields.filter (fun c => !(%(miss)s).contains c.name)).length = %(ncert)d := by decide

/-- these certificates are Pratt certificates in the strict sense: every step of the chain lists the complete
factorisation of `n − 1` (pure Lucas test, `GV.Pratt.stepOK_sound_lucas`); the remaining ones
(%(partial)s) contain Pocklington / Brillhart–Lehmer–Selfridge steps with a partially factored `n − 1` -/
theorem C01_primes_complete : ∀ c ∈ [%(completeList)s], c.complete = true := by
  decide +kernel
'''

PROPS_COR = '''
/-! ## corollaries: headline C01 theorems with NO primality hypothesis -/

/-- parameters of a generated package are well-formed (from `C01_params_ok`) -/
theorem ok_of_mem {c : GV.Gen.FieldConsts} (hc : c ∈ GV.Gen.allFields) : (ofConsts c).OK :=
  (C01_params_ok c hc).1

private theorem bn254_fr_mem : GV.Gen.bn254_fr ∈ GV.Gen.allFields := by
  unfold GV.Gen.allFields; simp
private theorem bls12_381_fr_mem : GV.Gen.bls12_381_fr ∈ GV.Gen.allFields := by
  unfold GV.Gen.allFields; simp

/-- bn254 scalar field: `Inverse` is the field inverse (`0 ↦ 0`), for every canonical element -/
theorem C01_inv_bn254_fr (x : Nat) (hx : x < GV.Gen.bn254_fr.q) :
    inv (ofConsts GV.Gen.bn254_fr) x < GV.Gen.bn254_fr.q ∧
    abs (ofConsts GV.Gen.bn254_fr) (inv (ofConsts GV.Gen.bn254_fr) x) = (abs (ofConsts GV.Gen.bn254_fr) x)⁻¹ :=
  C01_inv _ (ok_of_mem bn254_fr_mem) x hx
example : inv (ofConsts GV.Gen.bn254_fr) 5 < GV.Gen.bn254_fr.q := (C01_inv_bn254_fr 5 (by decide)).1

/-- bn254 scalar field: `Exp` for every integer exponent -/
theorem C01_exp_bn254_fr (x : Nat) (hx : x < GV.Gen.bn254_fr.q) (k : ℤ) :
    exp (ofConsts GV.Gen.bn254_fr) x k < GV.Gen.bn254_fr.q ∧
    abs (ofConsts GV.Gen.bn254_fr) (exp (ofConsts GV.Gen.bn254_fr) x k) = abs (ofConsts GV.Gen.bn254_fr) x ^ k :=
  C01_exp _ (ok_of_mem bn254_fr_mem) x hx k
example : exp (ofConsts GV.Gen.bn254_fr) 5 (-3) < GV.Gen.bn254_fr.q := (C01_exp_bn254_fr 5 (by decide) (-3)).1

/-- bn254 scalar field: `BatchInvert` is the element-wise inverse, for every list of canonical elements -/
theorem C01_batchInv_bn254_fr (xs : List Nat) (hxs : ∀ x ∈ xs, x < GV.Gen.bn254_fr.q) :
    batchInv (ofConsts GV.Gen.bn254_fr) xs = xs.map (inv (ofConsts GV.Gen.bn254_fr)) :=
  C01_batchInv _ (ok_of_mem bn254_fr_mem) xs hxs
example : batchInv (ofConsts GV.Gen.bn254_fr) [3, 0, 7] = [3, 0, 7].map (inv (ofConsts GV.Gen.bn254_fr)) :=
  C01_batchInv_bn254_fr _ (by decide)

/-- bn254 scalar field: `Legendre` is 0 / 1 / −1 exactly on zero / nonzero squares / non-squares -/
theorem C01_legendre_bn254_fr (x : Nat) (hx : x < GV.Gen.bn254_fr.q) :
    (legendre (ofConsts GV.Gen.bn254_fr) x = 0 ↔ x = 0) ∧
    (legendre (ofConsts GV.Gen.bn254_fr) x = 1 ↔
      IsSquare (abs (ofConsts GV.Gen.bn254_fr) x) ∧ abs (ofConsts GV.Gen.bn254_fr) x ≠ 0) ∧
    (legendre (ofConsts GV.Gen.bn254_fr) x = -1 ↔ ¬ IsSquare (abs (ofConsts GV.Gen.bn254_fr) x)) :=
  C01_legendre _ (ok_of_mem bn254_fr_mem) x hx
example : legendre (ofConsts GV.Gen.bn254_fr) 0 = 0 := ((C01_legendre_bn254_fr 0 (by decide)).1).2 rfl

/-- BLS12-381 scalar field: `Inverse` is the field inverse -/
theorem C01_inv_bls12_381_fr (x : Nat) (hx : x < GV.Gen.bls12_381_fr.q) :
    inv (ofConsts GV.Gen.bls12_381_fr) x < GV.Gen.bls12_381_fr.q ∧
    abs (ofConsts GV.Gen.bls12_381_fr) (inv (ofConsts GV.Gen.bls12_381_fr) x) =
      (abs (ofConsts GV.Gen.bls12_381_fr) x)⁻¹ :=
  C01_inv _ (ok_of_mem bls12_381_fr_mem) x hx
example : inv (ofConsts GV.Gen.bls12_381_fr) 5 < GV.Gen.bls12_381_fr.q := (C01_inv_bls12_381_fr 5 (by decide)).1

/-- every certified package at once: `Inverse` is the field inverse, no hypothesis on the modulus left -/
theorem C01_inv_all (c : GV.Gen.FieldConsts) (hc : c ∈ GV.Gen.allFields)
    (hm : c.name ∉ %(miss)s) (x : Nat) (hx : x < c.q) :
    inv (ofConsts c) x < c.q ∧ abs (ofConsts c) (inv (ofConsts c) x) = (abs (ofConsts c) x)⁻¹ :=
  haveI : Fact (ofConsts c).q.Prime := ⟨C01_primes_covered c hc hm⟩
  C01_inv _ (ok_of_mem hc) x hx
example : inv (ofConsts GV.Gen.koalabear) 5 < GV.Gen.koalabear.q :=
  (C01_inv_all GV.Gen.koalabear (by unfold GV.Gen.allFields; simp) (by decide) 5 (by decide)).1

end GV.Field
'''


# ---------------------------------------------------------------- factoring (optional tooling)

ECM_LEVELS = [(2000, 30), (11000, 100), (50000, 300), (250000, 800), (1000000, 2000), (3000000, 5000), (11000000, 12000)]


def helper_binary(name):
    """compile bin/pratt/<name>.c (gcc + libgmp) on first use; None when that is not possible"""
    d = os.path.join(ROOT, 'bin', 'pratt')
    exe = os.path.join(d, name)
    if not os.path.exists(exe) or os.path.getmtime(exe) < os.path.getmtime(exe + '.c'):
        r = subprocess.run(['gcc', '-O2', '-o', exe, exe + '.c', '-lgmp', '-lm'])
        if r.returncode != 0:
            return None
    return exe


def ecm_binary():
    return helper_binary('ecm')


SIQS_PARAMS = [(140, 2000, 15, 40), (180, 5000, 15, 40), (220, 12000, 16, 50), (250, 20000, 16, 50),
               (280, 30000, 17, 60), (310, 50000, 17, 80), (340, 80000, 18, 100)]   # (max bits, fb, logM, lpmult)


def siqs_split(n, nw):
    """quadratic sieve (bin/pratt/siqs.c) for composites up to ~100 digits with no small factor"""
    exe = helper_binary('siqs')
    par = [p for p in SIQS_PARAMS if n.bit_length() <= p[0]]
    if exe is None or not par:
        return None
    _, fbs, logm, lpm = par[0]
    import tempfile
    tmp = tempfile.mkdtemp(prefix='siqs')
    files = [os.path.join(tmp, 'w%d.rel' % i) for i in range(nw)]
    t = time.time()
    procs = [subprocess.Popen([exe, 'sieve', str(n), str(fbs), str(logm), str(lpm), str(random.getrandbits(40)), f],
                              stderr=subprocess.DEVNULL) for f in files]
    try:
        while True:
            time.sleep(10)
            o = subprocess.run([exe, 'count', str(n), str(fbs)] + files, capture_output=True, text=True).stdout.split()
            full, part, cyc, need = [int(x) for x in o]
            print('    siqs %d bits: full=%d partial=%d cycles=%d need=%d (%.0fs)' % (
                n.bit_length(), full, part, cyc, need, time.time() - t), file=sys.stderr, flush=True)
            if full + cyc >= need + need // 20:
                break
    finally:
        for p in procs:
            p.kill()
    time.sleep(1)
    r = subprocess.run([exe, 'solve', str(n), str(fbs)] + files, capture_output=True, text=True)
    for f in files:
        if os.path.exists(f):
            os.remove(f)
    os.rmdir(tmp)
    if r.returncode == 0 and r.stdout.strip():
        d = int(r.stdout.strip())
        if 1 < d < n and n % d == 0:
            return d
    return None


def ecm_split(n, maxlevel, nw):
    exe = ecm_binary()
    if exe is None:
        return None
    for B1, nc in ECM_LEVELS[:maxlevel]:
        per = (nc + nw - 1) // nw
        t = time.time()
        procs = [subprocess.Popen([exe, str(n), str(B1), str(per), str(random.getrandbits(62))],
                                  stdout=subprocess.PIPE, text=True) for _ in range(nw)]
        found = None
        while procs and not found:
            time.sleep(0.2)
            for p in list(procs):
                if p.poll() is not None:
                    procs.remove(p)
                    o = p.stdout.read().strip()
                    if p.returncode == 0 and o:
                        found = int(o)
                        break
        for p in procs:
            p.kill()
        print('    ecm B1=%d: %s (%.0fs)' % (B1, 'factor of %d bits' % found.bit_length() if found else 'nothing',
                                              time.time() - t), file=sys.stderr, flush=True)
        if found:
            return found
    return None


def factor_nm1(n, maxlevel, nw):
    """(factors, cofactor) of n-1"""
    from sympy import isprime, primerange, factorint, perfect_power
    m = n - 1
    f = {}
    for p in primerange(2, 10 ** 5):
        while m % p == 0:
            f[p] = f.get(p, 0) + 1
            m //= p
    stack = [m] if m > 1 else []
    cof = 1
    while stack:
        m = stack.pop()
        if m == 1:
            continue
        if isprime(m):
            f[m] = f.get(m, 0) + 1
            continue
        pp = perfect_power(m)
        if pp:
            stack += [pp[0]] * pp[1]
            continue
        if m.bit_length() <= 110:
            for p, e in factorint(m).items():
                f[p] = f.get(p, 0) + e
            continue
        print('  composite cofactor of %d bits' % m.bit_length(), file=sys.stderr, flush=True)
        d = ecm_split(m, min(maxlevel, 3 if m.bit_length() <= 340 else maxlevel), nw)
        if d is None:
            d = siqs_split(m, nw)
        if d is None:
            cof *= m
            continue
        stack += [d, m // d]
    return f, cof


def factor_cmd(maxlevel):
    nw = int(os.environ.get('NW', str(max(1, (os.cpu_count() or 2) - 2))))
    db = json.load(open(DB)) if os.path.exists(DB) else {}

    def rec(n):
        if n < SMALL:
            return
        ent = db.get(str(n))
        if ent is None or (ent['cofactor'] != '1' and os.environ.get('RETRY')):
            print('factoring %d-bit n-1' % n.bit_length(), file=sys.stderr, flush=True)
            f, cof = factor_nm1(n, maxlevel, nw)
            ent = {'factors': {str(p): e for p, e in f.items()}, 'cofactor': str(cof)}
            db[str(n)] = ent
            json.dump(db, open(DB, 'w'), indent=0, sort_keys=True)
        for p in ent['factors']:
            rec(int(p))

    for name, q in read_fields():
        assert is_probable_prime(q), name
        rec(q)


if __name__ == '__main__':
    cmd = sys.argv[1] if len(sys.argv) > 1 else 'gen'
    if cmd == 'gen':
        gen()
    elif cmd == 'factor':
        factor_cmd(int(sys.argv[2]) if len(sys.argv) > 2 else 4)
    else:
        sys.exit(__doc__)
