#!/usr/bin/env python3
"""bin/mkc10top.py — writes lean/GnarkVerif/Props/C10_top*.lean and Audit/C10_top.lean.

The theorems are about the defs that tools/goslp (slpffttop.go) regenerates from the fft packages' Go sources on every run
(Gen/FFT/<Pkg>Top.lean): `(*Domain).FFT` and `(*Domain).FFTInverse` specialised per size (2..32), decimation, coset option and
withPrecompute, with nbTasks = 1, and `bitReverseNaive` / `bitReverseCobra` on 2..32 elements (C10top_<pkg>_bitReverse*: = the model's bitReverse). Per generated target the script instantiates
  <target>_go              generated def = the Go-shaped list program goFFT / goFFTInverse of Proofs/C10Top.lean   (kernel, `kernel_rfl`)
  C10top_<pkg>_<target>    = `FFT` / `FFTInverse` of Model/FFT.lean on the domain with these fields, on every input, when the input
                           tables satisfy their defining equations (cosetTable[i] = g^i, twiddles as buildTwiddles builds them)
  C10top_<pkg>_<target>_spec (FFT only)  = (bit-reversed) evaluations of the polynomial on the (coset of the) domain, w^(n/2) = -1
  C10top_<pkg>_roundtrip_<n>_<DIF|DIT>_<opts>   FFTInverse(other decimation) ∘ FFT(decimation) = id on the generated defs
The only data it takes from the generated files are the NAMES and BINDERS of the target defs; everything is re-checked by Lean, and
the files it writes are static: a change of the Go text changes the regenerated def and breaks the `_go` theorem.
"""
import json, os, re, sys

sys.path.insert(0, os.path.dirname(os.path.abspath(__file__)))
from mkc10gen import PKGS, GEN, PROPS, AUDIT, HEAD, OPTS, mod, log2, binders

SIZES = [2, 4, 8, 16, 32]


def tw_card(n, pre):
    return n if pre else 1


def pkg_file(pkg, godir, kers):
    ns = f"GV.Gen.FFT.{pkg}"
    gen = open(os.path.join(GEN, mod(pkg) + "Top.lean")).read()
    sig = {}
    for m in re.finditer(r"^def (\S+) \{F : Type\}.*$", gen, re.M):
        sig[m.group(1)] = (binders(m.group(0)), m.group(0))
    alltargets = json.load(open(os.path.join(GEN, "summary.json")))[pkg]["translated"]
    targets = [t for t in alltargets if t.startswith("Domain.")]
    brtargets = [t for t in alltargets if t.startswith("bitReverse")]
    KERS = "[" + ", ".join(map(str, kers)) + "]"
    body, thms = [], []
    info = {}
    for t in targets:
        mt = re.fullmatch(r"Domain\.(FFT|FFTInverse)_n(\d+)_(DIF|DIT)_(coset|plain)_(pre|nopre)", t)
        assert mt, t
        fn, n, dec, cos, prec = mt.group(1), int(mt.group(2)), mt.group(3), mt.group(4), mt.group(5)
        inv = fn == "FFTInverse"
        dif, coset, pre = dec == "DIF", cos == "coset", prec == "pre"
        m = log2(n)
        bs, line = sig[t]
        sfx = "Inv" if inv else ""
        # binder of the generated def -> (variable, its type, list-level term)
        known = {"a": ("a", f"Arr{n} R"),
                 "Generator" + sfx: ("w", "R"),
                 "FrMultiplicativeGen" + sfx: ("g", "R"),
                 "cosetTable" + sfx: ("ct", f"Arr{n} R"),
                 "twiddles" + sfx: ("tw", None)}
        if inv:
            known["CardinalityInv"] = ("ci", "R")
        args, decl = [], []
        for b in bs:
            assert b in known, (t, b)
            v, ty = known[b]
            if ty is None:
                mm = re.search(r"\(" + b + r" : \(Tw(\d+) F\)\)", line)
                assert mm and int(mm.group(1)) == tw_card(n, pre), (t, line)
                ty = f"Tw{mm.group(1)} R"
            args.append(v)
            decl.append(f"({v} : {ty})")
        have = set(args)
        assert "a" in have and "w" in have and (not inv or "ci" in have), (t, bs)
        free = []  # list-level arguments of goFFT the generated def does not take (not read in this configuration)
        if "g" not in have:
            free.append("(g : R)")
        ctl = "ct.toList" if "ct" in have else "ctl"
        if "ct" not in have:
            free.append("(ctl : List R)")
        twl = "tw.toLists" if "tw" in have else "twl"
        if "tw" not in have:
            free.append("(twl : List (List R))")
        B = lambda b: "true" if b else "false"
        call = f"({t} {' '.join(args)}).toList"
        if inv:
            go = f"goFFTInverse {KERS} {B(pre)} {B(dif)} {B(coset)} {m} ci w g {ctl} {twl} a.toList"
        else:
            go = f"goFFT {KERS} {B(pre)} {B(dif)} {B(coset)} {m} w g {ctl} {twl} a.toList"
        short = f"{fn}_{n}_{dec}_{cos}_{prec}"
        g_, c_ = f"{short}_go", f"C10top_{pkg}_{short}"
        D = " ".join(decl)
        Fr = (" " + " ".join(free)) if free else ""
        body.append(f"""/-- `{fn}` on {n} elements, {dec}, {'OnCoset' if coset else 'no coset'}, {'with' if pre else 'without'} precomputed tables, `nbTasks = 1`: the def translated from the Go text is the Go-shaped list program -/
theorem {g_} {D}{Fr} :
    {call} = {go} := by kernel_rfl
""")
        # the domain of the model: ⟨m, cardInv, gen, genInv, g, gInv, precomp⟩; the fields the def does not read are arbitrary
        if inv:
            extra = "(gen gen' : R)" if False else "(w' g' : R)"  # Generator, FrMultiplicativeGen of the forward direction
            dom = f"⟨{m}, ci, w', w, g', g, {B(pre)}⟩"
            hyp, hargs = [], []
            if pre and coset:
                hyp.append(f"(hct : {ctl} = powers g {n})")
            if pre:
                hyp.append(f"(htw : {twl} = buildTwiddles w {m})")
            prf = (f"goFFTInverse_eq {KERS} {B(pre)} {B(dif)} {B(coset)} {m} ci w' w g' g _ _ _ rfl "
                   + ("(fun _ _ => hct) " if pre and coset else ("(fun h _ => absurd h (by decide)) " if not pre else "(fun _ h => absurd h (by decide)) "))
                   + ("(fun _ => htw)" if pre else "(fun h => absurd h (by decide))"))
            rhs = f"_root_.GV.FFT.FFTInverse {KERS} {dom} {B(dif)} {B(coset)} a.toList"
        else:
            extra = "(ci w' g' : R)"  # CardinalityInv, GeneratorInv, FrMultiplicativeGenInv
            dom = f"⟨{m}, ci, w, w', g, g', {B(pre)}⟩"
            hyp = []
            if pre and coset:
                hyp.append(f"(hct : {ctl} = powers g {n})")
            if pre:
                hyp.append(f"(htw : {twl} = buildTwiddles w {m})")
            prf = (f"goFFT_eq {KERS} {B(pre)} {B(dif)} {B(coset)} {m} ci w w' g g' _ _ _ rfl "
                   + ("(fun _ _ => hct) " if pre and coset else ("(fun h _ => absurd h (by decide)) " if not pre else "(fun _ h => absurd h (by decide)) "))
                   + ("(fun _ => htw)" if pre else "(fun h => absurd h (by decide))"))
            rhs = f"_root_.GV.FFT.FFT {KERS} {dom} {B(dif)} {B(coset)} a.toList"
        H = (" " + " ".join(hyp)) if hyp else ""
        gofree = " ".join(x.split(" : ")[0][1:] for x in free)
        body.append(f"""/-- C10top ({pkg}): the generated `{fn}` ({n} elements, {dec}, {cos}, {prec}) IS the model's `{fn}` on the domain with these fields, on every
    input{', for input tables satisfying their defining equations' if pre else ''} -/
theorem {c_} {D}{Fr} {extra}{H} :
    {call} = {rhs} := by
  rw [{g_} {' '.join(args)}{(' ' + gofree) if gofree else ''}]
  exact {prf}
""")
        thms += [g_, c_]
        info[(fn, n, dec, cos, prec)] = dict(args=args, decl=decl, free=free, hyp=hyp, name=t, thm=c_, ctl=ctl, twl=twl)
        if not inv:
            s_ = c_ + "_spec"
            hw = f"(hw : PrimRoot w {m})"
            if dif:
                spec = f"bitReverse {m} (evals {dom} {B(coset)} a.toList)"
                what = "the evaluations of the polynomial `Σ aᵢ Xⁱ` on the " + ("coset `g·⟨w⟩`" if coset else "domain `⟨w⟩`") + ", in bit-reversed order"
                p2 = f"exact C10_FFT_DIF {KERS} {dom} {B(coset)} a.toList hw rfl"
            else:
                spec = f"evals {dom} {B(coset)} (bitReverse {m} a.toList)"
                what = ("the evaluations, in natural order, on the " + ("coset `g·⟨w⟩`" if coset else "domain `⟨w⟩`")
                        + " of the polynomial whose coefficients are the bit-reversal of the input (DIT: the input is expected in bit-reversed order)")
                p2 = (f"have h := C10_FFT_DIT {KERS} {dom} {B(coset)} (bitReverse {m} a.toList) hw (by simp [Arr{n}.toList])\n"
                      f"  rwa [bitReverse_bitReverse {m} a.toList rfl] at h")
            allvars = " ".join(args) + ((" " + gofree) if gofree else "") + " ci w' g'" + "".join(" " + h.split(" : ")[0][1:] for h in hyp)
            body.append(f"""/-- C10top ({pkg}): `FFT` ({n} elements, {dec}, {cos}, {prec}) computes {what} (`w^{max(n // 2, 1)} = -1`) -/
theorem {s_} {D}{Fr} {extra}{H} {hw} :
    {call} = {spec} := by
  rw [{c_} {allvars}]
  {p2}
""")
            thms.append(s_)
    # round trips: FFTInverse(other decimation) ∘ FFT(decimation) = id
    for n in SIZES:
        m = log2(n)
        for dec in ("DIF", "DIT"):
            other = "DIT" if dec == "DIF" else "DIF"
            for cos in ("plain", "coset"):
                for prec in ("pre", "nopre"):
                    f, i = info[("FFT", n, dec, cos, prec)], info[("FFTInverse", n, other, cos, prec)]
                    pre, coset = prec == "pre", cos == "coset"
                    # forward: a w g ct tw ; inverse: its own ci w g ct tw renamed
                    ren = {"a": "a", "w": "wi", "g": "gi", "ct": "cti", "tw": "twi", "ci": "ci"}
                    fdecl = " ".join(f["decl"])
                    idecl = " ".join("(" + ren[d.split(" : ")[0][1:]] + " : " + d.split(" : ")[1] for d in i["decl"] if not d.startswith("(a :"))
                    iargs = [ren[x] for x in i["args"]]
                    inner = f"({f['name']} {' '.join(f['args'])})"
                    iargs[0] = inner
                    call = f"({i['name']} {' '.join(iargs)}).toList"
                    need = []
                    if "g" not in f["args"]:
                        need.append("(g : R)")
                    if "g" not in i["args"]:
                        need.append("(gi : R)")
                    hyps = []
                    if pre and coset:
                        hyps += [f"(hct : ct.toList = powers g {n})", f"(hcti : cti.toList = powers gi {n})"]
                    if pre:
                        hyps += [f"(htw : tw.toLists = buildTwiddles w {m})", f"(htwi : twi.toLists = buildTwiddles wi {m})"]
                    hyps += ["(hgen : w * wi = 1)", "(hg : g * gi = 1)", f"(hc : (2:R)^{m} * ci = 1)"]
                    dom = f"⟨{m}, ci, w, wi, g, gi, {'true' if pre else 'false'}⟩"
                    # arguments of the two model theorems
                    def targs(d, rn, hnames):
                        out = [rn.get(x, x) for x in d["args"]]
                        for fr in d["free"]:
                            v = fr.split(" : ")[0][1:]
                            out.append({"g": rn.get("g", "g"), "ctl": "[]", "twl": "[]"}[v])
                        return out
                    fa = targs(f, {}, None) + ["ci", "wi", "gi"] + (["hct"] if pre and coset else []) + (["htw"] if pre else [])
                    ia = targs(i, ren, None)
                    ia[0] = inner
                    ia += ["w", "g"] + (["hcti"] if pre and coset else []) + (["htwi"] if pre else [])
                    lem = "C10_inverse_DIT_of_DIF" if dec == "DIF" else "C10_inverse_DIF_of_DIT"
                    r_ = f"C10top_{pkg}_roundtrip_{n}_{dec}_{cos}_{prec}"
                    body.append(f"""/-- C10top ({pkg}): on the generated defs, `FFTInverse(·, {other})` undoes `FFT(·, {dec})` ({n} elements, {cos}, {prec}) -/
theorem {r_} {fdecl} {idecl}{(' ' + ' '.join(need)) if need else ''}
    {' '.join(hyps)} :
    {call} = a.toList := by
  rw [{i['thm']} {' '.join(ia)}, {f['thm']} {' '.join(fa)}]
  exact {lem} {KERS} {dom} {'true' if coset else 'false'} a.toList hgen hg hc rfl
""")
                    thms.append(r_)
    # BitReverse on 2..32 elements
    for t in brtargets:
        mt = re.fullmatch(r"bitReverse(Naive|Cobra)_n(\d+)", t)
        assert mt and sig[t][0] == ["v"], t
        n = int(mt.group(2))
        m = log2(n)
        c_ = f"C10top_{pkg}_{t}"
        how = ("the swap loop `v[i], v[iRev] = v[iRev], v[i]` for `iRev > i`, unrolled" if mt.group(1) == "Naive"
               else "the dispatcher: `switch len(v)` decided at translation time, default branch, `bitReverseNaive`")
        body.append(f"""/-- C10top ({pkg}): `bitReverse{mt.group(1)}` on {n} elements ({how}) is the index map `i ↦ bitrev {m} i` of the model
    (`BitReverse` calls it for every length below 2^21: text compared by the translator), every entry checked by the kernel -/
theorem {c_} {{α : Type}} [Zero α] (v : Arr{n} α) :
    ({t} v).toList = bitReverse {m} v.toList := by kernel_rfl
""")
        thms.append(c_)
    ex = """/-- a concrete instance (non-vacuity): `ZMod 5`, 4 points, `w = 2` (`2² = -1`), shift `g = 2`: the tables of the domain exist, the
    hypotheses hold, and the statements are not trivial -/
example : ([1, 2, 4, 3] : List (ZMod 5)) = powers 2 4 ∧ ([[1, 2, 4], [1, 4]] : List (List (ZMod 5))) = buildTwiddles 2 2 ∧
    PrimRoot (2 : ZMod 5) 2 := ⟨by decide, by decide, by show (2 : ZMod 5)^(2^1) = -1; decide⟩
example : (Domain.FFT_n4_DIF_coset_pre ⟨1, 2, 3, 4⟩ 2 ⟨1, 2, 4, 3⟩ ⟨⟨1, 2, 4⟩, ⟨1, 4⟩⟩ : Arr4 (ZMod 5)).toList
    = bitReverse 2 (evals (exD true) true [1, 2, 3, 4]) := by decide
example : (Domain.FFT_n4_DIF_coset_pre ⟨1, 2, 3, 4⟩ 2 ⟨1, 2, 4, 3⟩ ⟨⟨1, 2, 4⟩, ⟨1, 4⟩⟩ : Arr4 (ZMod 5)).toList ≠ [1, 2, 3, 4] := by decide
example : (Domain.FFTInverse_n4_DIT_coset_nopre (Domain.FFT_n4_DIF_coset_nopre ⟨1, 2, 3, 4⟩ 2 2 ⟨⟩) 4 3 3 ⟨⟩ : Arr4 (ZMod 5)).toList
    = [1, 2, 3, 4] := by decide
"""
    txt = HEAD.replace("mkc10gen.py", "mkc10top.py") + f"""import GnarkVerif.Proofs.C10Top
import GnarkVerif.Props.C10
import GnarkVerif.Props.C10_gen_{pkg}
import GnarkVerif.Gen.FFT.{mod(pkg)}Top
/-
C10 (tie T) — the TOP-LEVEL transforms of /repo/{godir}: `(*Domain).FFT` and `(*Domain).FFTInverse` as the Go code computes them with one task.
Every theorem is about a def of Gen/FFT/{mod(pkg)}Top.lean, REGENERATED by tools/goslp (slpffttop.go) from fft.go on every run, specialised per
size (2..32), decimation, coset option and withPrecompute: the option record is fixed at translation time (`nbTasks = 1`),
`parallel.Execute(n, work, 1)` is one call `work(0, n)` (the text of Execute's single-task branch is compared on every run), the coset
scaling loops are unrolled (`bits.Reverse64(i) >> nn` evaluated by the translator), the fields and tables of the domain are PARAMETERS
(`w` = Generator / GeneratorInv, `g` = FrMultiplicativeGen(Inv), `ct` = cosetTable(Inv), `tw` = twiddles(Inv), `ci` = CardinalityInv),
`BuildExpTable` / `buildTwiddles` text-compared primitives, the final `difFFT` / `ditFFT` call is the def of Gen/FFT/{mod(pkg)}.lean.
`*_go`: generated def = Go-shaped list program (Proofs/C10Top.lean), checked entry by entry by the kernel, no hypothesis;
`C10top_*`: hence `FFT` / `FFTInverse` of Model/FFT.lean, the evaluation statements and the round trips of Props/C10.lean, over every
commutative ring.
-/
{OPTS}namespace {ns}
open GV.FFT
variable {{R : Type}} [CommRing R]

""" + "\n".join(body) + "\n" + ex + f"\nend {ns}\n"
    return txt, [f"{ns}.{t}" for t in thms]


def main():
    only = sys.argv[1:]
    imports, audits = [], []
    for pkg, godir, kers in PKGS:
        if only and pkg not in only:
            continue
        t, th = pkg_file(pkg, godir, kers)
        open(os.path.join(PROPS, f"C10_top_{pkg}.lean"), "w").write(t)
        imports.append(f"C10_top_{pkg}")
        audits += th
    if only:
        print("partial run:", len(audits), "theorems")
        return
    root = "".join(f"import GnarkVerif.Props.{m}\n" for m in imports)
    root += ("/- C10 (tie T): the theorems about the top-level transforms `(*Domain).FFT` / `(*Domain).FFTInverse` that tools/goslp regenerates\n"
             "   from the Go source on every run (Gen/FFT/*Top.lean). This module imports the per-package files (written by bin/mkc10top.py).\n"
             f"   {len(imports)} packages, {len(audits)} theorems (listed with their axioms in Audit/C10_top.lean). -/\n")
    open(os.path.join(PROPS, "C10_top.lean"), "w").write(root)
    open(os.path.join(AUDIT, "C10_top.lean"), "w").write(
        "import GnarkVerif.Props.C10_top\n/- axiom audit of the C10 (tie T, top-level transforms) theorems; written by bin/mkc10top.py -/\n" +
        "".join(f"#print axioms {t}\n" for t in audits))
    print(len(imports), "packages,", len(audits), "theorems")


if __name__ == "__main__":
    main()
