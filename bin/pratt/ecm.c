// minimal GMP ECM (Montgomery curves, Suyama parametrisation, stage 1 + BSGS stage 2)
// usage: ecm <n> <B1> <ncurves> <seed>   -> prints a nontrivial factor and exits 0, or exits 1
#include <stdio.h>
#include <stdlib.h>
#include <string.h>
#include <gmp.h>
#include <stdint.h>
static mpz_t n, a24, t1, t2, t3, t4;
typedef struct { mpz_t X, Z; } pt;
static void pinit(pt *p){ mpz_init(p->X); mpz_init(p->Z);} 
static void pset(pt *d, const pt *s){ mpz_set(d->X,s->X); mpz_set(d->Z,s->Z);} 
static void xdbl(pt *r, const pt *p){
  mpz_add(t1,p->X,p->Z); mpz_mul(t1,t1,t1); mpz_mod(t1,t1,n);
  mpz_sub(t2,p->X,p->Z); mpz_mul(t2,t2,t2); mpz_mod(t2,t2,n);
  mpz_sub(t3,t1,t2);
  mpz_mul(r->X,t1,t2); mpz_mod(r->X,r->X,n);
  mpz_mul(t4,a24,t3); mpz_add(t4,t4,t2); mpz_mul(r->Z,t3,t4); mpz_mod(r->Z,r->Z,n);
}
static void xadd(pt *r, const pt *p, const pt *q, const pt *d){ // r = p+q, d = p-q ; r may alias p or q, not d
  mpz_sub(t1,p->X,p->Z); mpz_add(t2,q->X,q->Z); mpz_mul(t1,t1,t2); mpz_mod(t1,t1,n);
  mpz_add(t3,p->X,p->Z); mpz_sub(t2,q->X,q->Z); mpz_mul(t3,t3,t2); mpz_mod(t3,t3,n);
  mpz_add(t2,t1,t3); mpz_mul(t2,t2,t2); mpz_mod(t2,t2,n);
  mpz_sub(t4,t1,t3); mpz_mul(t4,t4,t4); mpz_mod(t4,t4,n);
  mpz_mul(t2,t2,d->Z); mpz_mul(t4,t4,d->X);
  mpz_mod(r->X,t2,n); mpz_mod(r->Z,t4,n);
}
static pt L0,L1,LT;
static void ladder(pt *r, const pt *p, uint64_t k){ // r=[k]p, k>=1
  if(k==1){ pset(r,p); return; }
  pset(&L0,p); xdbl(&L1,p);
  int top=63; while(!((k>>top)&1)) top--;
  for(int i=top-1;i>=0;i--){
    if((k>>i)&1){ xadd(&L0,&L0,&L1,p); xdbl(&L1,&L1);} else { xadd(&L1,&L0,&L1,p); xdbl(&L0,&L0);} 
  }
  pset(r,&L0);
}
static uint64_t rs; static uint64_t rnd(){ rs+=0x9E3779B97F4A7C15ULL; uint64_t z=rs; z=(z^(z>>30))*0xBF58476D1CE4E5B9ULL; z=(z^(z>>27))*0x94D049BB133111EBULL; return z^(z>>31);} 
int main(int argc,char**argv){
  if(argc<5) return 2;
  mpz_init_set_str(n,argv[1],10); uint64_t B1=strtoull(argv[2],0,10); long nc=atol(argv[3]); rs=strtoull(argv[4],0,10);
  uint64_t B2=B1*100; 
  mpz_inits(a24,t1,t2,t3,t4,NULL); pinit(&L0);pinit(&L1);pinit(&LT);
  // sieve
  char *sv=calloc(B2+1,1); for(uint64_t i=2;i*i<=B2;i++) if(!sv[i]) for(uint64_t j=i*i;j<=B2;j+=i) sv[j]=1;
  const int D=2310; int nj=0; int jidx[D]; memset(jidx,-1,sizeof(jidx));
  for(int j=1;j<D/2;j+=2){ if(j%3&&j%5&&j%7&&j%11){ jidx[j]=nj++; } }
  pt *S=malloc(sizeof(pt)*(D/2+2)); for(int j=0;j<D/2+2;j++) pinit(&S[j]);
  mpz_t u,v,g,acc,sig; mpz_inits(u,v,g,acc,sig,NULL); pt Q,T0,T1,T2,TD; pinit(&Q);pinit(&T0);pinit(&T1);pinit(&T2);pinit(&TD);
  for(long c=0;c<nc;c++){
    mpz_set_ui(sig, 6+ (rnd()>>1)); 
    mpz_mul(u,sig,sig); mpz_sub_ui(u,u,5); mpz_mod(u,u,n); mpz_mul_ui(v,sig,4); mpz_mod(v,v,n);
    mpz_powm_ui(Q.X,u,3,n); mpz_powm_ui(Q.Z,v,3,n);
    // a24 = (v-u)^3 (3u+v) / (16 u^3 v)
    mpz_sub(t1,v,u); mpz_powm_ui(t1,t1,3,n); mpz_mul_ui(t2,u,3); mpz_add(t2,t2,v); mpz_mul(t1,t1,t2); mpz_mod(t1,t1,n);
    mpz_mul(t2,Q.X,v); mpz_mul_ui(t2,t2,16); mpz_mod(t2,t2,n);
    if(!mpz_invert(t3,t2,n)){ mpz_gcd(g,t2,n); if(mpz_cmp_ui(g,1)>0&&mpz_cmp(g,n)<0){ gmp_printf("%Zd\n",g); return 0;} continue; }
    mpz_mul(a24,t1,t3); mpz_mod(a24,a24,n);
    // stage 1
    for(uint64_t p=2;p<=B1;p++) if(!sv[p]){ uint64_t q=p; while(q<=B1/p) q*=p; ladder(&Q,&Q,q); }
    mpz_gcd(g,Q.Z,n); if(mpz_cmp_ui(g,1)>0){ if(mpz_cmp(g,n)<0){ gmp_printf("%Zd\n",g); return 0;} continue; }
    // stage 2: S[j]=[j]Q odd j
    pset(&S[1],&Q); xdbl(&S[2],&Q); ladder(&S[3],&Q,3);
    for(int j=5;j<D/2;j+=2) xadd(&S[j],&S[j-2],&S[2],&S[j-4]);
    ladder(&TD,&Q,D);
    uint64_t k=(B1+D/2)/D; if(k<1)k=1;
    ladder(&T1,&Q,k*(uint64_t)D); if(k>1) ladder(&T0,&Q,(k-1)*(uint64_t)D); else {mpz_set_ui(T0.X,0);mpz_set_ui(T0.Z,0);} 
    mpz_set_ui(acc,1);
    for(; k*(uint64_t)D < B2 + D; k++){
      uint64_t base=k*(uint64_t)D;
      for(int j=1;j<D/2;j+=2) if(jidx[j]>=0){
        int hit=0; if(base+j<=B2 && !sv[base+j]) hit=1; if(base>(uint64_t)j && base-j<=B2 && !sv[base-j]) hit=1;
        if(hit){ mpz_mul(t1,T1.X,S[j].Z); mpz_mul(t2,S[j].X,T1.Z); mpz_sub(t1,t1,t2); mpz_mul(acc,acc,t1); mpz_mod(acc,acc,n);} }
      if(k==1 && mpz_sgn(T0.Z)==0 && mpz_sgn(T0.X)==0){ xdbl(&T2,&T1); } else xadd(&T2,&T1,&TD,&T0);
      pset(&T0,&T1); pset(&T1,&T2);
    }
    mpz_gcd(g,acc,n); if(mpz_cmp_ui(g,1)>0&&mpz_cmp(g,n)<0){ gmp_printf("%Zd\n",g); return 0;}
  }
  return 1;
}
