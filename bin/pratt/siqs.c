// siqs.c -- self-initialising quadratic sieve (single large prime variation), GMP.  Tooling only (finds factors of the
// cofactors of n-1 for bin/mkpratt.py; results are stored in bin/pratt/factors.json and checked by the Lean kernel).
//   siqs sieve <N> <fbsize> <logM> <lpmult> <seed> <outfile>      worker: appends relations until killed
//   siqs count <N> <fbsize> <relfile>...                           prints  fulls partials cycles needed
//   siqs solve <N> <fbsize> <relfile>...                           prints a nontrivial factor of N
#include <stdio.h>
#include <stdlib.h>
#include <string.h>
#include <stdint.h>
#include <math.h>
#include <gmp.h>

typedef struct { uint32_t p, t; uint8_t lg; } fbe;
static fbe *fb; static int nfb;
static mpz_t N, kN; static int mult;

static uint32_t powmod32(uint64_t b, uint32_t e, uint32_t m){ uint64_t r=1; b%=m; while(e){ if(e&1) r=r*b%m; b=b*b%m; e>>=1;} return (uint32_t)r; }
static uint32_t invmod32(uint32_t a, uint32_t p){ int64_t t=0,nt=1,r=p,nr=a%p; while(nr){ int64_t q=r/nr,x; x=t-q*nt;t=nt;nt=x; x=r-q*nr;r=nr;nr=x;} if(t<0)t+=p; return (uint32_t)t; }
static uint32_t sqrtmod(uint32_t n, uint32_t p){ // p odd prime, n a nonzero QR mod p
  if(p%4==3) return powmod32(n,(p+1)/4,p);
  uint32_t q=p-1,s=0; while(!(q&1)){q>>=1;s++;}
  uint32_t z=2; while(powmod32(z,(p-1)/2,p)!=p-1) z++;
  uint64_t c=powmod32(z,q,p), r=powmod32(n,(q+1)/2,p), t=powmod32(n,q,p); uint32_t m=s;
  while(t!=1){ uint32_t i=0; uint64_t tt=t; while(tt!=1){ tt=tt*tt%p; i++; }
    uint64_t b=c; for(uint32_t j=0;j+i+1<m;j++) b=b*b%p; r=r*b%p; c=b*b%p; t=t*c%p; m=i; }
  return (uint32_t)r;
}
static uint32_t *primes; static int nprimes;
static void gen_primes(uint32_t lim){ char *sv=calloc(lim+1,1); primes=malloc(sizeof(uint32_t)*(lim/8+100)); nprimes=0;
  for(uint32_t i=2;i<=lim;i++){ if(!sv[i]){ primes[nprimes++]=i; for(uint64_t j=(uint64_t)i*i;j<=lim;j+=i) sv[j]=1; } } free(sv);}
static void choose_mult(){ static const int ks[]={1,2,3,5,6,7,10,11,13,14,15,17,19,21,22,23,26,29,30,31,33,34,35,37,38,39,41,42,43,46,47,51,53,55,57,58,59,61,62,65,66,67,69,70,71,73};
  double best=-1e9; mult=1; mpz_t t; mpz_init(t);
  for(unsigned ki=0;ki<sizeof(ks)/sizeof(int);ki++){ int k=ks[ki]; mpz_mul_ui(t,N,k); double s=-0.5*log(k);
    unsigned m8=mpz_fdiv_ui(t,8); if(m8==1) s+=2*log(2.0); else if(m8==5) s+=log(2.0); else if(m8==3||m8==7) s+=0.5*log(2.0);
    for(int i=1;i<400;i++){ uint32_t p=primes[i]; uint32_t r=mpz_fdiv_ui(t,p); if(k%p==0) s+=log(p)/p; else if(r&&powmod32(r,(p-1)/2,p)==1) s+=2*log(p)/(p-1); }
    if(s>best){best=s;mult=k;} }
  mpz_clear(t);
}
static void build_fb(int size){ gen_primes(40000000); choose_mult(); mpz_init(kN); mpz_mul_ui(kN,N,mult);
  fb=malloc(sizeof(fbe)*size); nfb=0;
  for(int i=0;i<nprimes&&nfb<size;i++){ uint32_t p=primes[i]; uint32_t r=mpz_fdiv_ui(kN,p);
    if(p==2){ fb[nfb].p=2; fb[nfb].t=1; fb[nfb].lg=1; nfb++; continue; }
    if(r==0){ fb[nfb].p=p; fb[nfb].t=0; fb[nfb].lg=(uint8_t)(log2(p)+0.5); nfb++; continue; }
    if(powmod32(r,(p-1)/2,p)!=1) continue;
    fb[nfb].p=p; fb[nfb].t=sqrtmod(r,p); fb[nfb].lg=(uint8_t)(log2(p)+0.5); nfb++; }
  if(nfb<size){ fprintf(stderr,"prime table too small\n"); exit(2);} }

static uint64_t rs; static uint64_t rnd(){ rs+=0x9E3779B97F4A7C15ULL; uint64_t z=rs; z=(z^(z>>30))*0xBF58476D1CE4E5B9ULL; z=(z^(z>>27))*0x94D049BB133111EBULL; return z^(z>>31);}

/* ------------------------------------------------------------------ sieving */
#define MAXS 24
static void sieve_main(int logM, int lpmult, const char *outfile){
  FILE *out=fopen(outfile,"a"); if(!out){perror("out");exit(2);}
  int64_t M=1LL<<logM; int64_t L=2*M; uint8_t *S=malloc(L+8);
  uint64_t LPB=(uint64_t)lpmult*fb[nfb-1].p;
  int sstart=0; while(fb[sstart].p<40) sstart++;   // tiny primes are not sieved
  int kbits=mpz_sizeinbase(kN,2);
  double thr_d=logM+kbits/2.0-0.5-log2((double)LPB)-8.0; int thresh=(int)thr_d; if(thresh<20)thresh=20;
  fprintf(stderr,"mult=%d nfb=%d pmax=%u M=2^%d LPB=%lu thresh=%d\n",mult,nfb,fb[nfb-1].p,logM,(unsigned long)LPB,thresh);
  // window for the primes of a
  mpz_t ta,a,b,c,t,u,v,X,B[MAXS]; mpz_inits(ta,a,b,c,t,u,v,X,NULL); for(int i=0;i<MAXS;i++) mpz_init(B[i]);
  mpz_mul_ui(ta,kN,2); mpz_sqrt(ta,ta); mpz_fdiv_q_2exp(ta,ta,logM);
  int wlo=0,whi=0; while(fb[wlo].p<1000) wlo++; whi=wlo; while(whi<nfb&&fb[whi].p<4500) whi++;
  double la=mpz_sizeinbase(ta,2)*log(2.0); double avg=log((double)fb[(wlo+whi)/2].p); int s=(int)((la-log(3000.0))/avg+0.5)+1; if(s<3)s=3; if(s>=MAXS)s=MAXS-1;
  int clo=0; while(fb[clo].p<300) clo++; int chi=whi; while(chi<nfb&&fb[chi].p<30000) chi++;
  uint32_t *soln1=malloc(4*nfb),*soln2=malloc(4*nfb); uint32_t **Bi=malloc(sizeof(uint32_t*)*MAXS); for(int j=0;j<MAXS;j++) Bi[j]=malloc(4*nfb);
  char *skip=calloc(nfb,1); int qi[MAXS]; int eps[MAXS]; int *eidx=malloc(sizeof(int)*(nfb+8)), *eexp=malloc(sizeof(int)*(nfb+8));
  long nfull=0,npart=0,npoly=0;
  for(;;){
    // ---- choose a
    for(;;){ mpz_set_ui(a,1); int ok=1;
      for(int j=0;j<s-1;j++){ int k; for(;;){ k=wlo+rnd()%(whi-wlo); int d=0; for(int l=0;l<j;l++) if(qi[l]==k) d=1; if(!d)break;} qi[j]=k; mpz_mul_ui(a,a,fb[k].p);}
      mpz_fdiv_q(t,ta,a); if(!mpz_fits_ulong_p(t)) continue; unsigned long want=mpz_get_ui(t); if(want<fb[clo].p||want>fb[chi-1].p) continue;
      int lo=clo,hi=chi-1; while(lo<hi){int m=(lo+hi)/2; if(fb[m].p<want)lo=m+1; else hi=m;}
      int k=lo; for(int tries=0;tries<8&&ok;tries++){ int d=0; for(int l=0;l<s-1;l++) if(qi[l]==k) d=1; if(fb[k].t==0||fb[k].p==2) d=1; if(!d)break; k++; if(k>=chi) ok=0; }
      if(!ok) continue; { int d=0; for(int l=0;l<s-1;l++) if(qi[l]==k) d=1; if(d) continue; }
      qi[s-1]=k; mpz_mul_ui(a,a,fb[k].p); break; }
    memset(skip,0,nfb); for(int j=0;j<s;j++) skip[qi[j]]=1;
    // ---- B_j
    mpz_set_ui(b,0);
    for(int j=0;j<s;j++){ uint32_t q=fb[qi[j]].p; mpz_divexact_ui(t,a,q); uint32_t r=mpz_fdiv_ui(t,q); uint64_t g=(uint64_t)fb[qi[j]].t*invmod32(r,q)%q; if(g>q/2) g=q-g; mpz_mul_ui(B[j],t,g); mpz_add(b,b,B[j]); eps[j]=1; }
    // ---- per prime data
    for(int i=0;i<nfb;i++){ uint32_t p=fb[i].p; if(skip[i]||p==2){ continue; }
      uint32_t ai=invmod32(mpz_fdiv_ui(a,p),p); uint32_t bm=mpz_fdiv_ui(b,p); uint32_t tt=fb[i].t;
      soln1[i]=(uint32_t)(((uint64_t)ai*((tt+p-bm)%p)+ (uint64_t)(M%p))%p); soln2[i]=(uint32_t)(((uint64_t)ai*((2*(uint64_t)p-tt-bm)%p)+(uint64_t)(M%p))%p);
      for(int j=0;j<s;j++){ Bi[j][i]=(uint32_t)((uint64_t)2*mpz_fdiv_ui(B[j],p)%p*ai%p); } }
    for(uint32_t gi=0; gi < (1u<<(s-1)); gi++){
      if(gi>0){ int nu=__builtin_ctz(gi); eps[nu]=-eps[nu];
        if(eps[nu]>0){ mpz_addmul_ui(b,B[nu],2); for(int i=0;i<nfb;i++){ if(skip[i]||fb[i].p==2)continue; uint32_t p=fb[i].p,d=Bi[nu][i]; soln1[i]=soln1[i]>=d?soln1[i]-d:soln1[i]+p-d; soln2[i]=soln2[i]>=d?soln2[i]-d:soln2[i]+p-d; } }
        else { mpz_submul_ui(b,B[nu],2); for(int i=0;i<nfb;i++){ if(skip[i]||fb[i].p==2)continue; uint32_t p=fb[i].p,d=Bi[nu][i]; soln1[i]+=d; if(soln1[i]>=p)soln1[i]-=p; soln2[i]+=d; if(soln2[i]>=p)soln2[i]-=p; } } }
      mpz_mul(c,b,b); mpz_sub(c,c,kN); mpz_divexact(c,c,a); npoly++;
      // ---- sieve
      memset(S,128-thresh,L);
      for(int i=sstart;i<nfb;i++){ if(skip[i])continue; uint32_t p=fb[i].p; uint8_t lg=fb[i].lg; int64_t x; for(x=soln1[i];x<L;x+=p) S[x]+=lg; if(soln2[i]!=soln1[i]) for(x=soln2[i];x<L;x+=p) S[x]+=lg; }
      // ---- scan
      for(int64_t w=0;w<L;w+=8){ uint64_t ww; memcpy(&ww,S+w,8); if(!(ww&0x8080808080808080ULL)) continue;
        for(int64_t idx=w;idx<w+8&&idx<L;idx++){ if(!(S[idx]&0x80)) continue;
          int64_t x=idx-M; // v = a x^2 + 2 b x + c
          mpz_set_si(t,x); mpz_mul(v,a,t); mpz_addmul_ui(v,b,2); mpz_mul(v,v,t); mpz_add(v,v,c);
          int neg=mpz_sgn(v)<0; if(mpz_sgn(v)==0) continue; mpz_abs(v,v); int ne=0;
          for(int i=0;i<nfb;i++){ uint32_t p=fb[i].p; int e=0;
            if(i<sstart||skip[i]){ while(mpz_divisible_ui_p(v,p)){ mpz_divexact_ui(v,v,p); e++; } if(skip[i]) e++; }
            else { uint32_t r=((uint32_t)idx)%p; if(r==soln1[i]||r==soln2[i]){ while(mpz_divisible_ui_p(v,p)){ mpz_divexact_ui(v,v,p); e++; } } }
            if(e){ eidx[ne]=i; eexp[ne]=e; ne++; } }
          uint64_t lp=1; if(mpz_cmp_ui(v,1)!=0){ if(!mpz_fits_ulong_p(v)) continue; lp=mpz_get_ui(v); if(lp>LPB) continue; }
          mpz_set_si(t,x); mpz_mul(X,a,t); mpz_add(X,X,b); mpz_mod(X,X,N);
          gmp_fprintf(out,"%Zx %d %lu %d",X,neg,(unsigned long)lp,ne); for(int k=0;k<ne;k++) fprintf(out," %d %d",eidx[k],eexp[k]); fprintf(out,"\n");
          if(lp==1) nfull++; else npart++;
        } }
      if((npoly&255)==0){ fflush(out); }
    }
    fflush(out);
    if((npoly>>(s-1))%8==0) fprintf(stderr,"polys=%ld full=%ld partial=%ld\n",npoly,nfull,npart);
  }
}

/* ------------------------------------------------------------------ linear algebra + square root */
typedef struct { mpz_t X; mpz_t Y; int neg; uint64_t lp; int ne; int *idx; int *ex; } rel;
static rel *rels; static long nrels, caprels;
static void addrel(rel r){ if(nrels==caprels){ caprels=caprels?caprels*2:4096; rels=realloc(rels,sizeof(rel)*caprels);} rels[nrels++]=r; }
static int cmp_lp(const void*a,const void*b){ const rel*x=a,*y=b; if(x->lp<y->lp)return -1; if(x->lp>y->lp)return 1; return mpz_cmp(x->X,y->X); }
static void load(int argc,char**argv,int first){ char *line=malloc(1<<20);
  for(int f=first;f<argc;f++){ FILE*in=fopen(argv[f],"r"); if(!in) continue;
    while(fgets(line,1<<20,in)){ size_t ln=strlen(line); if(ln==0||line[ln-1]!='\n') break; // incomplete last line
      char *sp; char *tok=strtok_r(line," \n",&sp); if(!tok) continue; rel r; mpz_init(r.X); mpz_init_set_ui(r.Y,1); if(mpz_set_str(r.X,tok,16)) continue;
      tok=strtok_r(0," \n",&sp); if(!tok)continue; r.neg=atoi(tok); tok=strtok_r(0," \n",&sp); if(!tok)continue; r.lp=strtoull(tok,0,10);
      tok=strtok_r(0," \n",&sp); if(!tok)continue; r.ne=atoi(tok); r.idx=malloc(sizeof(int)*r.ne); r.ex=malloc(sizeof(int)*r.ne); int ok=1;
      for(int k=0;k<r.ne;k++){ char*a=strtok_r(0," \n",&sp),*b=strtok_r(0," \n",&sp); if(!a||!b){ok=0;break;} r.idx[k]=atoi(a); r.ex[k]=atoi(b); }
      if(ok) addrel(r); }
    fclose(in); }
  free(line);
  qsort(rels,nrels,sizeof(rel),cmp_lp);
  // dedupe
  long w=0; for(long i=0;i<nrels;i++){ if(w>0&&rels[w-1].lp==rels[i].lp&&mpz_cmp(rels[w-1].X,rels[i].X)==0) continue; rels[w++]=rels[i]; } nrels=w;
}
static rel combine(const rel*p,const rel*q){ rel r; mpz_init(r.X); mpz_init(r.Y); mpz_mul(r.X,p->X,q->X); mpz_mod(r.X,r.X,N); mpz_set_ui(r.Y,p->lp); r.neg=p->neg^q->neg; r.lp=1;
  r.idx=malloc(sizeof(int)*(p->ne+q->ne)); r.ex=malloc(sizeof(int)*(p->ne+q->ne)); int i=0,j=0,n=0;
  while(i<p->ne||j<q->ne){ if(j>=q->ne||(i<p->ne&&p->idx[i]<q->idx[j])){ r.idx[n]=p->idx[i]; r.ex[n]=p->ex[i]; i++; n++; }
    else if(i>=p->ne||q->idx[j]<p->idx[i]){ r.idx[n]=q->idx[j]; r.ex[n]=q->ex[j]; j++; n++; }
    else { r.idx[n]=p->idx[i]; r.ex[n]=p->ex[i]+q->ex[j]; i++; j++; n++; } }
  r.ne=n; return r; }
static void solve_main(int countonly){
  // fulls + combined partials
  rel *m=0; long nm=0,cap=0; long nfull=0,npart=0,ncyc=0;
  for(long i=0;i<nrels;){ if(rels[i].lp==1){ if(nm==cap){cap=cap?cap*2:4096;m=realloc(m,sizeof(rel)*cap);} m[nm++]=rels[i]; nfull++; i++; continue; }
    long j=i+1; while(j<nrels&&rels[j].lp==rels[i].lp) j++; npart+=j-i;
    for(long k=i+1;k<j;k++){ if(!countonly){ if(nm==cap){cap=cap?cap*2:4096;m=realloc(m,sizeof(rel)*cap);} m[nm++]=combine(&rels[i],&rels[k]); } ncyc++; }
    i=j; }
  if(countonly){ printf("%ld %ld %ld %d\n",nfull,npart,ncyc,nfb+1+64); return; }
  fprintf(stderr,"full=%ld partial=%ld cycles=%ld rows=%ld cols=%d\n",nfull,npart,ncyc,nm,nfb+1);
  int ncol=nfb+1; long nrow=nm;
  // singleton pruning
  char *alive=malloc(nrow); memset(alive,1,nrow); int *cnt=malloc(sizeof(int)*ncol);
  for(;;){ memset(cnt,0,sizeof(int)*ncol); for(long r=0;r<nrow;r++) if(alive[r]){ if(m[r].neg)cnt[0]++; for(int k=0;k<m[r].ne;k++) if(m[r].ex[k]&1) cnt[1+m[r].idx[k]]++; }
    long removed=0; for(long r=0;r<nrow;r++) if(alive[r]){ int bad=0; if(m[r].neg&&cnt[0]==1)bad=1; for(int k=0;k<m[r].ne&&!bad;k++) if((m[r].ex[k]&1)&&cnt[1+m[r].idx[k]]==1) bad=1; if(bad){alive[r]=0;removed++;} }
    if(!removed)break; }
  int *colmap=malloc(sizeof(int)*ncol); int nc=0; for(int c=0;c<ncol;c++) colmap[c]=cnt[c]?nc++:-1;
  long *rowid=malloc(sizeof(long)*nrow); long nr=0; for(long r=0;r<nrow;r++) if(alive[r]) rowid[nr++]=r;
  fprintf(stderr,"after pruning: rows=%ld cols=%d\n",nr,nc);
  if(nr<=nc){ fprintf(stderr,"not enough relations\n"); exit(3);}
  if(nr>nc+200) nr=nc+200;
  long wc=(nc+63)/64, wh=(nr+63)/64, W=wc+wh; uint64_t *mat=calloc((size_t)nr*W,8);
  for(long i=0;i<nr;i++){ rel*r=&m[rowid[i]]; uint64_t*row=mat+(size_t)i*W; if(r->neg) row[colmap[0]/64]^=1ULL<<(colmap[0]%64);
    for(int k=0;k<r->ne;k++) if(r->ex[k]&1){ int c=colmap[1+r->idx[k]]; row[c/64]^=1ULL<<(c%64);} row[wc+i/64]|=1ULL<<(i%64); }
  char *used=calloc(nr,1);
  for(int c=0;c<nc;c++){ long piv=-1; for(long i=0;i<nr;i++) if(!used[i]&&(mat[(size_t)i*W+c/64]>>(c%64)&1)){piv=i;break;} if(piv<0)continue; used[piv]=1; uint64_t*pr=mat+(size_t)piv*W;
    for(long i=0;i<nr;i++) if(!used[i]&&(mat[(size_t)i*W+c/64]>>(c%64)&1)){ uint64_t*row=mat+(size_t)i*W; for(long w=0;w<W;w++) row[w]^=pr[w]; } }
  fprintf(stderr,"elimination done\n");
  mpz_t X,Y,g,t; mpz_inits(X,Y,g,t,NULL); int *E=malloc(sizeof(int)*nfb);
  for(long i=0;i<nr;i++){ if(used[i])continue; uint64_t*row=mat+(size_t)i*W; int z=1; for(long w=0;w<wc;w++) if(row[w]){z=0;break;} if(!z)continue;
    mpz_set_ui(X,1); mpz_set_ui(Y,1); memset(E,0,sizeof(int)*nfb); int sg=0;
    for(long j=0;j<nr;j++) if(row[wc+j/64]>>(j%64)&1){ rel*r=&m[rowid[j]]; mpz_mul(X,X,r->X); mpz_mod(X,X,N); mpz_mul(Y,Y,r->Y); mpz_mod(Y,Y,N); sg^=r->neg; for(int k=0;k<r->ne;k++) E[r->idx[k]]+=r->ex[k]; }
    int bad=sg; for(int k=0;k<nfb;k++){ if(E[k]&1){bad=1;break;} if(E[k]){ mpz_set_ui(t,fb[k].p); mpz_powm_ui(t,t,E[k]/2,N); mpz_mul(Y,Y,t); mpz_mod(Y,Y,N);} }
    if(bad){ fprintf(stderr,"bad dependency\n"); continue; }
    mpz_sub(t,X,Y); mpz_gcd(g,t,N); if(mpz_cmp_ui(g,1)>0&&mpz_cmp(g,N)<0){ gmp_printf("%Zd\n",g); return; } }
  fprintf(stderr,"no factor from dependencies\n"); exit(4);
}
int main(int argc,char**argv){ if(argc<4) return 2; mpz_init_set_str(N,argv[2],10); build_fb(atoi(argv[3]));
  if(!strcmp(argv[1],"sieve")){ rs=strtoull(argv[6],0,10); sieve_main(atoi(argv[4]),atoi(argv[5]),argv[7]); }
  else if(!strcmp(argv[1],"count")){ load(argc,argv,4); solve_main(1); }
  else if(!strcmp(argv[1],"solve")){ load(argc,argv,4); solve_main(0); }
  return 0; }
