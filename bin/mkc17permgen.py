#!/usr/bin/env python3
"""bin/mkc17permgen.py — writes lean/GnarkVerif/Props/C17_gen_perm*.lean and Audit/C17_gen_perm.lean.

Theorems about the defs that tools/goslp (slpgperm.go, group-level mode) regenerates from ecc/<curve>/fr/permutation/permutation.go on every run
(Gen/Verifier/Permutation_<curve>.lean). One template for the 7 packages; the curve-independent proofs are in Proofs/PermGen.lean.
"""
import os

ROOT = os.path.dirname(os.path.dirname(os.path.abspath(__file__)))
PROPS = os.path.join(ROOT, "lean", "GnarkVerif", "Props")
AUDIT = os.path.join(ROOT, "lean", "GnarkVerif", "Audit")
PKGS = ["bn254", "bls12_377", "bls12_381", "bls24_315", "bls24_317", "bw6_633", "bw6_761"]
HEAD = "/- INSTANTIATED by bin/mkc17permgen.py (one proof template for the 7 packages). DO NOT EDIT: edit the script and re-run it. -/\n"
INST = "(G := Ex q) (G2 := Unit) (S := Ex q) (L := ℕ × ℕ)"
THMS = ["kzg_same", "ref", "abstract", "binding", "order", "ex", "ex_sound"]

TEMPLATE = HEAD + """import GnarkVerif.Proofs.PermGen
import GnarkVerif.Gen.Verifier.Permutation_PKG
import GnarkVerif.Props.C11_gen_PKG
import GnarkVerif.Props.C17c
/-
C17 (permutation argument), tie T for ecc/CURVE/fr/permutation/permutation.go: `Verify(vk, proof)` as REGENERATED from the Go text on every run
(Gen/Verifier/Permutation_PKG.lean; tools/goslp/slpgperm.go): the three Fiat–Shamir challenges (`deriveRandomness` executed in place), the quotient
identity at η, the calls of kzg.BatchVerifySinglePoint (4 digests) and kzg.Verify (re-translated from kzg.go on this run, prefix `kzg_`, proved
identical to the defs of Gen/Verifier/Kzg_PKG.lean), the size test and the generator test in the order of the Go text.
PARAMETERS (not translated): the transcript `fsChallenge name bound-data earlier-challenges` (Bind / ComputeChallenge errors nil: the names are the
literals given to NewTranscript; C15), `rawBytesG` = G1Affine.RawBytes, `frOfBytes` = fr.Element.SetBytes, `expS` = fr.Element.Exp (C01), fr ring
operations / Inverse / Equal, Div x y = x·y⁻¹, `toInt` = BigInt, `deriveGamma` (+ error flag) of kzg, `pairingCheckFixedQ` (C05), G1 operations (C03/C04);
`proof.size` is an exact Int with Go's int64 operations of Model/VerifierInt.lean.
ASSUMED in the exponent-model theorem (hypotheses): q prime > 2, 0 ≤ size < 2^63 (size is the model's natural number), Exp(x, k) = x^k for k ≥ 0 (the
instance `expEx`); the two KZG flags of the model are the verdicts of the two generated kzg verifications (their own exactness is C11_gen).
-/
set_option linter.unusedVariables false
set_option linter.unusedSectionVars false
open GV GV.Alg GV.KZG GV.Gen.Verifier GV.VerifierGen GV.ArgPairing GV.C11gen
namespace GV.C17gen

/-- the kzg defs emitted into Permutation_PKG.lean are the defs of Kzg_PKG.lean -/
theorem C17gen_PKG_perm_kzg_same {G G2 S L : Type} [AddCommGroup G] [Field S] [BEq S] [BEq G2] (toInt : S → Int)
    (dg : S → List G → List S → S) (dgErr : Bool) (pcf : List G → L → Bool) (d0 d1 d2 d3 H g1 : G) (v0 v1 v2 v3 v z : S) (q0 q1 : G2) (lines : L) :
    permutation_PKG.kzg_Verify toInt pcf d0 H v z q0 q1 g1 lines = kzg_PKG.Verify toInt pcf d0 H v z q0 q1 g1 lines ∧
    permutation_PKG.kzg_BatchVerifySinglePoint_k4 toInt dg dgErr pcf d0 d1 d2 d3 H v0 v1 v2 v3 z q0 q1 g1 lines
      = kzg_PKG.BatchVerifySinglePoint_k4 toInt dg dgErr pcf d0 d1 d2 d3 H v0 v1 v2 v3 z q0 q1 g1 lines := ⟨rfl, rfl⟩

/-- THE TIE: the generated `Verify` IS the reference program `permRef` of Proofs/PermGen.lean (statement by statement, `rfl`), with the two kzg calls
`BatchVerifySinglePoint([t1,t2,z,q], batchedProof, η)` and `Verify(z, shiftedProof, η·g)` of Kzg_PKG.lean -/
theorem C17gen_PKG_perm_ref {G G2 S L : Type} [AddCommGroup G] [Field S] [BEq S] [BEq G2] (toInt : S → Int) (rawG : G → List UInt8)
    (fsC : String → List (List UInt8) → List (List UInt8) → List UInt8) (frB : List UInt8 → S) (expS : S → Int → S)
    (dg : S → List G → List S → S) (dgErr : Bool) (pcf : List G → L → Bool) (q0 q1 : G2) (g1 : G) (lines : L) (size : Int) (g : S)
    (t1 t2 z qd bH : G) (c0 c1 c2 c3 : S) (sH : G) (sv : S) :
    permutation_PKG.Verify toInt rawG fsC frB expS dg dgErr pcf q0 q1 g1 lines size g t1 t2 z qd bH c0 c1 c2 c3 sH sv
      = permRef rawG fsC frB expS size g t1 t2 z qd c0 c1 c2 c3 sv
          (fun η => kzg_PKG.BatchVerifySinglePoint_k4 toInt dg dgErr pcf t1 t2 z qd bH c0 c1 c2 c3 η q0 q1 g1 lines)
          (fun x => kzg_PKG.Verify toInt pcf z sH sv x q0 q1 g1 lines) := rfl

/-- ABSTRACT FORM over ANY commutative group and field: `Verify` returns nil iff the field identity holds at η, the pairing check holds of
`[Σ vᵢγⁱ]G₁ + [−η]H − Σ[γⁱ]Cᵢ` and `H` (batched opening of t1, t2, z, q at η; γ = deriveGamma), the pairing check holds of `[z(gη)]G₁ + [−ηg]H' − Z` and `H'`
(shifted opening), `size & (size−1) = 0`, `g^(size/2) ≠ 1` and `(g^(size/2))² = 1` -/
theorem C17gen_PKG_perm_abstract {G G2 S L : Type} [AddCommGroup G] [Field S] [BEq S] [BEq G2] (toInt : S → Int) (rawG : G → List UInt8)
    (fsC : String → List (List UInt8) → List (List UInt8) → List UInt8) (frB : List UInt8 → S) (expS : S → Int → S)
    (dg : S → List G → List S → S) (pcf : List G → L → Bool) (q0 q1 : G2) (g1 : G) (lines : L) (size : Int) (g : S)
    (t1 t2 z qd bH : G) (c0 c1 c2 c3 : S) (sH : G) (sv : S) :
    permutation_PKG.Verify toInt rawG fsC frB expS dg false pcf q0 q1 g1 lines size g t1 t2 z qd bH c0 c1 c2 c3 sH sv = Res.ok ↔
      (let ε := frB (permChallenges rawG fsC t1 t2 z qd).1
       let ω := frB (permChallenges rawG fsC t1 t2 z qd).2.1
       let η := frB (permChallenges rawG fsC t1 t2 z qd).2.2
       let γ := dg η [t1, t2, z, qd] [c0, c1, c2, c3]
       ((c2 - 1) * ((expS η size - 1) * (η - 1)⁻¹) * ω + ((ε - c1) * sv - (ε - c0) * c2) == (expS η size - 1) * c3) = true ∧
       pcf [toInt (c0 * 1 + c1 * γ + c2 * (γ * γ) + c3 * ((γ * γ) * γ)) • g1 + toInt (-η) • bH
              - (toInt 1 • t1 + toInt γ • t2 + toInt (γ * γ) • z + toInt ((γ * γ) * γ) • qd), bH] lines = true ∧
       pcf [toInt sv • g1 + toInt (-(η * g)) • sH - z, sH] lines = true ∧
       i64and size (i64sub size 1) = 0 ∧
       (expS g (i64quo size 2) == 1) = false ∧ (expS g (i64quo size 2) * expS g (i64quo size 2) == 1) = true) := by
  rw [C17gen_PKG_perm_ref, permRef_ok_iff]
  simp only [C11gen_PKG_batchSingle_k4_abstract, C11gen_PKG_verify_abstract]

/-- BINDING: `Verify` depends on the transcript only through `fsChallenge "epsilon" [t1, t2] []`, `fsChallenge "omega" [z] [ε]`,
`fsChallenge "eta" [q] [ε, ω]` (RawBytes of the commitments, in this order): a text that derives a challenge from less (weak Fiat–Shamir) is not
equal to `permRef` and fails `C17gen_PKG_perm_ref` -/
theorem C17gen_PKG_perm_binding {G G2 S L : Type} [AddCommGroup G] [Field S] [BEq S] [BEq G2] (toInt : S → Int) (rawG : G → List UInt8)
    (fsC fsC' : String → List (List UInt8) → List (List UInt8) → List UInt8) (frB : List UInt8 → S) (expS : S → Int → S)
    (dg : S → List G → List S → S) (dgErr : Bool) (pcf : List G → L → Bool) (q0 q1 : G2) (g1 : G) (lines : L) (size : Int) (g : S)
    (t1 t2 z qd bH : G) (c0 c1 c2 c3 : S) (sH : G) (sv : S)
    (h : permChallenges rawG fsC' t1 t2 z qd = permChallenges rawG fsC t1 t2 z qd) :
    permutation_PKG.Verify toInt rawG fsC' frB expS dg dgErr pcf q0 q1 g1 lines size g t1 t2 z qd bH c0 c1 c2 c3 sH sv
      = permutation_PKG.Verify toInt rawG fsC frB expS dg dgErr pcf q0 q1 g1 lines size g t1 t2 z qd bH c0 c1 c2 c3 sH sv := by
  rw [C17gen_PKG_perm_ref, C17gen_PKG_perm_ref]
  exact permRef_binding rawG fsC fsC' frB expS size g t1 t2 z qd c0 c1 c2 c3 sv _ _ h

example : permChallenges (G := ℕ) (fun _ => []) (fun _ _ _ => []) 0 0 0 0 = permChallenges (fun _ => []) (fun _ _ _ => []) 0 0 0 0 := rfl

/-- ORDER of the checks: ErrSize is returned only after the batched opening passed (or is that call's own error), with both openings passing a size with
`size & (size−1) ≠ 0` gives ErrSize (never ErrGenerator, never nil), and a failing batched opening is what is returned once the identity holds -/
theorem C17gen_PKG_perm_order {G G2 S L : Type} [AddCommGroup G] [Field S] [BEq S] [BEq G2] (toInt : S → Int) (rawG : G → List UInt8)
    (fsC : String → List (List UInt8) → List (List UInt8) → List UInt8) (frB : List UInt8 → S) (expS : S → Int → S)
    (dg : S → List G → List S → S) (dgErr : Bool) (pcf : List G → L → Bool) (q0 q1 : G2) (g1 : G) (lines : L) (size : Int) (g : S)
    (t1 t2 z qd bH : G) (c0 c1 c2 c3 : S) (sH : G) (sv : S) (r : Res)
    (hr : permutation_PKG.Verify toInt rawG fsC frB expS dg dgErr pcf q0 q1 g1 lines size g t1 t2 z qd bH c0 c1 c2 c3 sH sv = r) :
    let η := frB (permChallenges rawG fsC t1 t2 z qd).2.2
    let batch := kzg_PKG.BatchVerifySinglePoint_k4 toInt dg dgErr pcf t1 t2 z qd bH c0 c1 c2 c3 η q0 q1 g1 lines
    let shift := kzg_PKG.Verify toInt pcf z sH sv (η * g) q0 q1 g1 lines
    (r = Res.err "ErrSize" → batch = Res.ok ∨ batch = Res.err "ErrSize") ∧
    (batch = Res.ok → shift = Res.ok → i64and size (i64sub size 1) ≠ 0 → r = Res.err "ErrSize" ∨ r = Res.err "ErrPermutationProof") ∧
    (batch ≠ Res.ok → r = batch ∨ r = Res.err "ErrPermutationProof") := by
  rw [C17gen_PKG_perm_ref] at hr
  exact permRef_order rawG fsC frB expS size g t1 t2 z qd c0 c1 c2 c3 sv _ _ r hr

example : permutation_PKG.Verify (G := Int) (G2 := Unit) (S := ℚ) (L := Unit) (fun _ => 0) (fun _ => []) (fun _ _ _ => []) (fun _ => 0) (fun _ _ => 0)
    (fun _ _ _ => 0) false (fun _ _ => true) () () 0 () 0 0 0 0 0 0 0 0 0 0 1 0 0 = Res.err "ErrPermutationProof" := by
  rw [C17gen_PKG_perm_ref]; norm_num [permRef]

variable (q : ℕ) [Fact q.Prime]

/-- EXPONENT MODEL (dictionary `fp q`): the generated `Verify` accepts iff `Model.ArgPairing.permVerify` accepts, for every input with 0 ≤ size < 2^63:
ε, ω, η = the challenges the transcript derives from (t1, t2), z, q; kzgBatch / kzgShift = the verdicts of the generated kzg verifications at η / η·g -/
theorem C17gen_PKG_perm_ex (h2 : 2 < q) (rawG : Ex q → List UInt8) (fsC : String → List (List UInt8) → List (List UInt8) → List UInt8)
    (frB : List UInt8 → Ex q) (dg : Ex q → List (Ex q) → List (Ex q) → Ex q) (dgErr : Bool) (n : ℕ) (hn : n < 2 ^ 63)
    (g t1 t2 z qd bH c0 c1 c2 c3 sH sv g1 : Ex q) (l : ℕ × ℕ) (q0 q1 : Unit) :
    permutation_PKG.Verify INST Ex.toInt rawG fsC frB (expEx q) dg dgErr (pcFixed q) q0 q1 g1 l (n : Int) g t1 t2 z qd bH c0 c1 c2 c3 sH sv = Res.ok ↔
      permVerify (fp q) n g.v [c0.v, c1.v, c2.v, c3.v] sv.v
        (frB (permChallenges rawG fsC t1 t2 z qd).1).v (frB (permChallenges rawG fsC t1 t2 z qd).2.1).v
        (frB (permChallenges rawG fsC t1 t2 z qd).2.2).v
        (decide (kzg_PKG.BatchVerifySinglePoint_k4 INST Ex.toInt dg dgErr (pcFixed q) t1 t2 z qd bH c0 c1 c2 c3
                  (frB (permChallenges rawG fsC t1 t2 z qd).2.2) q0 q1 g1 l = Res.ok))
        (decide (kzg_PKG.Verify INST Ex.toInt (pcFixed q) z sH sv (frB (permChallenges rawG fsC t1 t2 z qd).2.2 * g) q0 q1 g1 l = Res.ok)) = true := by
  have hq : NeZero q := ⟨(Fact.out : q.Prime).ne_zero⟩
  have e : permutation_PKG.Verify INST Ex.toInt rawG fsC frB (expEx q) dg dgErr (pcFixed q) q0 q1 g1 l (n : Int) g t1 t2 z qd bH c0 c1 c2 c3 sH sv
      = permRef rawG fsC frB (expEx q) (n : Int) g t1 t2 z qd c0 c1 c2 c3 sv
          (fun η => kzg_PKG.BatchVerifySinglePoint_k4 INST Ex.toInt dg dgErr (pcFixed q) t1 t2 z qd bH c0 c1 c2 c3 η q0 q1 g1 l)
          (fun x => kzg_PKG.Verify INST Ex.toInt (pcFixed q) z sH sv x q0 q1 g1 l) := rfl
  rw [e]
  exact permRef_ex q h2 rawG fsC frB n hn g t1 t2 z qd c0 c1 c2 c3 sv _ _

example : (2 : ℕ) < 13 ∧ (4 : ℕ) < 2 ^ 63 := by decide

/-- transfer of C17c_perm_consist_iff to the Go text: when the identity and both generated KZG verifications pass, `Verify` with size = 2^(k+1) < 2^63
accepts exactly when the prover-supplied g is a PRIMITIVE size-th root of unity in ZMod q -/
theorem C17gen_PKG_perm_ex_sound (h2 : 2 < q) (rawG : Ex q → List UInt8) (fsC : String → List (List UInt8) → List (List UInt8) → List UInt8)
    (frB : List UInt8 → Ex q) (dg : Ex q → List (Ex q) → List (Ex q) → Ex q) (dgErr : Bool) (k : ℕ) (hn : 2 ^ (k + 1) < 2 ^ 63)
    (g t1 t2 z qd bH c0 c1 c2 c3 sH sv g1 : Ex q) (l : ℕ × ℕ) (q0 q1 : Unit)
    (hid : permIdentity (fp q) (2 ^ (k + 1)) [c0.v, c1.v, c2.v, c3.v] sv.v (frB (permChallenges rawG fsC t1 t2 z qd).1).v
        (frB (permChallenges rawG fsC t1 t2 z qd).2.1).v (frB (permChallenges rawG fsC t1 t2 z qd).2.2).v = true)
    (hb : kzg_PKG.BatchVerifySinglePoint_k4 INST Ex.toInt dg dgErr (pcFixed q) t1 t2 z qd bH c0 c1 c2 c3
                  (frB (permChallenges rawG fsC t1 t2 z qd).2.2) q0 q1 g1 l = Res.ok)
    (hs : kzg_PKG.Verify INST Ex.toInt (pcFixed q) z sH sv (frB (permChallenges rawG fsC t1 t2 z qd).2.2 * g) q0 q1 g1 l = Res.ok) :
    permutation_PKG.Verify INST Ex.toInt rawG fsC frB (expEx q) dg dgErr (pcFixed q) q0 q1 g1 l ((2 ^ (k + 1) : ℕ) : Int) g t1 t2 z qd bH c0 c1 c2 c3 sH sv = Res.ok ↔
      orderOf ((g.v : ℕ) : ZMod q) = 2 ^ (k + 1) := by
  rw [C17gen_PKG_perm_ex q h2 rawG fsC frB dg dgErr _ hn, hb, hs]
  simp only [decide_true]
  exact C17c_perm_consist_iff (lawful_fp q h2) k g.v _ _ _ _ _ hid

end GV.C17gen
"""

PLK_THMS = ["kzg_same", "batch6_abstract", "ref", "abstract", "binding", "ex", "ex_sound"]

PLK_TEMPLATE = HEAD + """import GnarkVerif.Proofs.PlkGen
import GnarkVerif.Gen.Verifier.Plookup_PKG
import GnarkVerif.Props.C11_gen_PKG
import GnarkVerif.Props.C17c
/-
C17 (plookup, vector proofs), tie T for ecc/CURVE/fr/plookup/vector.go: `VerifyLookupVector(vk, proof)` as REGENERATED from the Go text on every run
(Gen/Verifier/Plookup_PKG.lean; tools/goslp/slpgperm.go): the four Fiat–Shamir challenges (`deriveRandomness` of table.go executed in place), the two calls
of kzg.BatchVerifySinglePoint (6 digests at ν, 4 digests at ν·g; re-translated from kzg.go on this run, prefix `kzg_`; the 4-digest def proved identical to
the one of Gen/Verifier/Kzg_PKG.lean, the 6-digest def has no counterpart there and is expanded to its pairing operands by C17gen_PKG_plk_batch6_abstract), the size test
(`size` is a Go uint64), the generator test and the quotient identity, in the order of the Go text. PARAMETERS and ASSUMPTIONS: as in Props/C17_gen_perm_PKG.lean.
-/
set_option linter.unusedVariables false
set_option linter.unusedSectionVars false
open GV GV.Alg GV.KZG GV.Gen.Verifier GV.VerifierGen GV.ArgPairing GV.C11gen
namespace GV.C17gen

/-- the 4-digest kzg def emitted into Plookup_PKG.lean is the def of Kzg_PKG.lean -/
theorem C17gen_PKG_plk_kzg_same {G G2 S L : Type} [AddCommGroup G] [Field S] [BEq S] [BEq G2] (toInt : S → Int)
    (dg : S → List G → List S → S) (dgErr : Bool) (pcf : List G → L → Bool) (d0 d1 d2 d3 H g1 : G) (v0 v1 v2 v3 z : S) (q0 q1 : G2) (lines : L) :
    plookup_PKG.kzg_BatchVerifySinglePoint_k4 toInt dg dgErr pcf d0 d1 d2 d3 H v0 v1 v2 v3 z q0 q1 g1 lines
      = kzg_PKG.BatchVerifySinglePoint_k4 toInt dg dgErr pcf d0 d1 d2 d3 H v0 v1 v2 v3 z q0 q1 g1 lines := rfl

/-- the 6-digest batch verification (re-translated from kzg.go; Kzg_PKG.lean stops at 4) over ANY commutative group / ring: `kzg.Verify` of the folded
digest Σ [γⁱ]dᵢ and folded value Σ vᵢ·γⁱ, γ = deriveGamma(point, digests, values) -/
theorem C17gen_PKG_plk_batch6_abstract {G G2 S L : Type} [AddCommGroup G] [Field S] [BEq S] [BEq G2] (toInt : S → Int)
    (pcf : List G → L → Bool) (dg : S → List G → List S → S) (d0 d1 d2 d3 d4 d5 H g1 : G) (v0 v1 v2 v3 v4 v5 z : S) (q0 q1 : G2) (lines : L) :
    plookup_PKG.kzg_BatchVerifySinglePoint_k6 toInt dg false pcf d0 d1 d2 d3 d4 d5 H v0 v1 v2 v3 v4 v5 z q0 q1 g1 lines
      = (let γ := dg z [d0, d1, d2, d3, d4, d5] [v0, v1, v2, v3, v4, v5]
         kzg_PKG.Verify toInt pcf
           (toInt 1 • d0 + toInt γ • d1 + toInt (γ * γ) • d2 + toInt ((γ * γ) * γ) • d3 + toInt (((γ * γ) * γ) * γ) • d4 + toInt ((((γ * γ) * γ) * γ) * γ) • d5) H
           (v0 * 1 + v1 * γ + v2 * (γ * γ) + v3 * ((γ * γ) * γ) + v4 * (((γ * γ) * γ) * γ) + v5 * ((((γ * γ) * γ) * γ) * γ)) z q0 q1 g1 lines) := by
  have hv : ∀ (c : G) (hh : G) (v zz : S), plookup_PKG.kzg_Verify toInt pcf c hh v zz q0 q1 g1 lines = kzg_PKG.Verify toInt pcf c hh v zz q0 q1 g1 lines :=
    fun _ _ _ _ => rfl
  simp only [plookup_PKG.kzg_BatchVerifySinglePoint_k6, plookup_PKG.kzg_FoldProof_k6, plookup_PKG.kzg_fold_k6, Bool.false_eq_true, if_false,
    bne_self_eq_false, hv, add_zero, zero_add, add_assoc]

/-- THE TIE: the generated `VerifyLookupVector` IS the reference program `plkRef` of Proofs/PlkGen.lean (`rfl`) -/
theorem C17gen_PKG_plk_ref {G G2 S L : Type} [AddCommGroup G] [Field S] [BEq S] [BEq G2] (toInt : S → Int) (rawG : G → List UInt8)
    (fsC : String → List (List UInt8) → List (List UInt8) → List UInt8) (frB : List UInt8 → S) (expS : S → Int → S)
    (dg : S → List G → List S → S) (dgErr : Bool) (pcf : List G → L → Bool) (q0 q1 : G2) (g1 : G) (lines : L) (size : Int) (g : S)
    (h1 h2 t z f h bH : G) (c0 c1 c2 c3 c4 c5 : S) (sH : G) (s0 s1 s2 s3 : S) :
    plookup_PKG.VerifyLookupVector toInt rawG fsC frB dg dgErr pcf expS q0 q1 g1 lines size g h1 h2 t z f h bH c0 c1 c2 c3 c4 c5 sH s0 s1 s2 s3
      = plkRef rawG fsC frB expS size g h1 h2 t z f h c0 c1 c2 c3 c4 c5 s0 s1 s2 s3
          (fun ν => plookup_PKG.kzg_BatchVerifySinglePoint_k6 toInt dg dgErr pcf h1 h2 t z f h bH c0 c1 c2 c3 c4 c5 ν q0 q1 g1 lines)
          (fun x => kzg_PKG.BatchVerifySinglePoint_k4 toInt dg dgErr pcf h1 h2 t z sH s0 s1 s2 s3 x q0 q1 g1 lines) := rfl

/-- ABSTRACT FORM over ANY commutative group and field: nil iff the pairing check of the batch at ν holds of `[Σ cᵢδⁱ]G₁ + [−ν]H − Σ[δⁱ]Dᵢ` and `H` (h1, h2, t, z, f, h), the pairing check of the shifted batch
holds of `[Σ sᵢγ'ⁱ]G₁ + [−νg]H' − Σ[γ'ⁱ]Cᵢ` and `H'` (h1, h2, t, z at ν·g), `size & (size−1) = 0`, `g^(size/2) ≠ 1`, `(g^(size/2))² = 1`, and the field identity holds -/
theorem C17gen_PKG_plk_abstract {G G2 S L : Type} [AddCommGroup G] [Field S] [BEq S] [BEq G2] (toInt : S → Int) (rawG : G → List UInt8)
    (fsC : String → List (List UInt8) → List (List UInt8) → List UInt8) (frB : List UInt8 → S) (expS : S → Int → S)
    (dg : S → List G → List S → S) (pcf : List G → L → Bool) (q0 q1 : G2) (g1 : G) (lines : L) (size : Int) (g : S)
    (h1 h2 t z f h bH : G) (c0 c1 c2 c3 c4 c5 : S) (sH : G) (s0 s1 s2 s3 : S) :
    plookup_PKG.VerifyLookupVector toInt rawG fsC frB dg false pcf expS q0 q1 g1 lines size g h1 h2 t z f h bH c0 c1 c2 c3 c4 c5 sH s0 s1 s2 s3 = Res.ok ↔
      (let ch := plkChallenges rawG fsC t f h1 h2 z h
       let ν := frB ch.2.2.2
       let γ := dg (ν * g) [h1, h2, t, z] [s0, s1, s2, s3]
       (let δ := dg ν [h1, h2, t, z, f, h] [c0, c1, c2, c3, c4, c5]
        pcf [toInt (c0 * 1 + c1 * δ + c2 * (δ * δ) + c3 * ((δ * δ) * δ) + c4 * (((δ * δ) * δ) * δ) + c5 * ((((δ * δ) * δ) * δ) * δ)) • g1 + toInt (-ν) • bH
              - (toInt 1 • h1 + toInt δ • h2 + toInt (δ * δ) • t + toInt ((δ * δ) * δ) • z + toInt (((δ * δ) * δ) * δ) • f + toInt ((((δ * δ) * δ) * δ) * δ) • h), bH] lines = true) ∧
       pcf [toInt (s0 * 1 + s1 * γ + s2 * (γ * γ) + s3 * ((γ * γ) * γ)) • g1 + toInt (-(ν * g)) • sH
              - (toInt 1 • h1 + toInt γ • h2 + toInt (γ * γ) • t + toInt ((γ * γ) * γ) • z), sH] lines = true ∧
       u64and size (u64sub size 1) = 0 ∧
       (expS g (wrap64 (u64quo size 2)) == 1) = false ∧ (expS g (wrap64 (u64quo size 2)) * expS g (wrap64 (u64quo size 2)) == 1) = true ∧
       plkIdent expS size g c0 c1 c2 c3 c4 c5 s0 s1 s2 s3 (frB ch.1) (frB ch.2.1) (frB ch.2.2.1) ν = true) := by
  rw [C17gen_PKG_plk_ref, plkRef_ok_iff]
  simp only [C17gen_PKG_plk_batch6_abstract, C11gen_PKG_batchSingle_k4_abstract, C11gen_PKG_verify_abstract]

/-- BINDING: `VerifyLookupVector` depends on the transcript only through `fsChallenge "beta" [t, f, h1, h2] []`, `fsChallenge "gamma" [] [β]`,
`fsChallenge "alpha" [z] [β, γ]`, `fsChallenge "nu" [h] [β, γ, α]` (RawBytes of the commitments, in this order) -/
theorem C17gen_PKG_plk_binding {G G2 S L : Type} [AddCommGroup G] [Field S] [BEq S] [BEq G2] (toInt : S → Int) (rawG : G → List UInt8)
    (fsC fsC' : String → List (List UInt8) → List (List UInt8) → List UInt8) (frB : List UInt8 → S) (expS : S → Int → S)
    (dg : S → List G → List S → S) (dgErr : Bool) (pcf : List G → L → Bool) (q0 q1 : G2) (g1 : G) (lines : L) (size : Int) (g : S)
    (h1 h2 t z f h bH : G) (c0 c1 c2 c3 c4 c5 : S) (sH : G) (s0 s1 s2 s3 : S)
    (hc : plkChallenges rawG fsC' t f h1 h2 z h = plkChallenges rawG fsC t f h1 h2 z h) :
    plookup_PKG.VerifyLookupVector toInt rawG fsC' frB dg dgErr pcf expS q0 q1 g1 lines size g h1 h2 t z f h bH c0 c1 c2 c3 c4 c5 sH s0 s1 s2 s3
      = plookup_PKG.VerifyLookupVector toInt rawG fsC frB dg dgErr pcf expS q0 q1 g1 lines size g h1 h2 t z f h bH c0 c1 c2 c3 c4 c5 sH s0 s1 s2 s3 := by
  rw [C17gen_PKG_plk_ref, C17gen_PKG_plk_ref]
  exact plkRef_binding rawG fsC fsC' frB expS size g h1 h2 t z f h c0 c1 c2 c3 c4 c5 s0 s1 s2 s3 _ _ hc

example : plkChallenges (G := ℕ) (fun _ => []) (fun _ _ _ => []) 0 0 0 0 0 0 = plkChallenges (fun _ => []) (fun _ _ _ => []) 0 0 0 0 0 0 := rfl

variable (q : ℕ) [Fact q.Prime]

/-- EXPONENT MODEL (dictionary `fp q`): the generated `VerifyLookupVector` accepts iff `Model.ArgPairing.plkVerify` accepts, for every input with
0 ≤ size < 2^63: β, γ, α, ν = the challenges the transcript derives; kzgBatch / kzgShift = the verdicts of the generated kzg verifications at ν / ν·g -/
theorem C17gen_PKG_plk_ex (h2 : 2 < q) (rawG : Ex q → List UInt8) (fsC : String → List (List UInt8) → List (List UInt8) → List UInt8)
    (frB : List UInt8 → Ex q) (dg : Ex q → List (Ex q) → List (Ex q) → Ex q) (dgErr : Bool) (n : ℕ) (hn : n < 2 ^ 63)
    (g h1 h2' t z f h bH c0 c1 c2 c3 c4 c5 sH s0 s1 s2 s3 g1 : Ex q) (l : ℕ × ℕ) (q0 q1 : Unit) :
    plookup_PKG.VerifyLookupVector INST Ex.toInt rawG fsC frB dg dgErr (pcFixed q) (expEx q) q0 q1 g1 l (n : Int) g h1 h2' t z f h bH c0 c1 c2 c3 c4 c5 sH s0 s1 s2 s3 = Res.ok ↔
      plkVerify (fp q) n g.v [c0.v, c1.v, c2.v, c3.v, c4.v, c5.v] [s0.v, s1.v, s2.v, s3.v]
        (frB (plkChallenges rawG fsC t f h1 h2' z h).1).v (frB (plkChallenges rawG fsC t f h1 h2' z h).2.1).v
        (frB (plkChallenges rawG fsC t f h1 h2' z h).2.2.1).v (frB (plkChallenges rawG fsC t f h1 h2' z h).2.2.2).v
        (decide (plookup_PKG.kzg_BatchVerifySinglePoint_k6 INST Ex.toInt dg dgErr (pcFixed q) h1 h2' t z f h bH c0 c1 c2 c3 c4 c5
                  (frB (plkChallenges rawG fsC t f h1 h2' z h).2.2.2) q0 q1 g1 l = Res.ok))
        (decide (kzg_PKG.BatchVerifySinglePoint_k4 INST Ex.toInt dg dgErr (pcFixed q) h1 h2' t z sH s0 s1 s2 s3
                  (frB (plkChallenges rawG fsC t f h1 h2' z h).2.2.2 * g) q0 q1 g1 l = Res.ok)) = true := by
  have hq : NeZero q := ⟨(Fact.out : q.Prime).ne_zero⟩
  have e : plookup_PKG.VerifyLookupVector INST Ex.toInt rawG fsC frB dg dgErr (pcFixed q) (expEx q) q0 q1 g1 l (n : Int) g h1 h2' t z f h bH c0 c1 c2 c3 c4 c5 sH s0 s1 s2 s3
      = plkRef rawG fsC frB (expEx q) (n : Int) g h1 h2' t z f h c0 c1 c2 c3 c4 c5 s0 s1 s2 s3
          (fun ν => plookup_PKG.kzg_BatchVerifySinglePoint_k6 INST Ex.toInt dg dgErr (pcFixed q) h1 h2' t z f h bH c0 c1 c2 c3 c4 c5 ν q0 q1 g1 l)
          (fun x => kzg_PKG.BatchVerifySinglePoint_k4 INST Ex.toInt dg dgErr (pcFixed q) h1 h2' t z sH s0 s1 s2 s3 x q0 q1 g1 l) := rfl
  rw [e]
  exact plkRef_ex q h2 rawG fsC frB n hn g h1 h2' t z f h c0 c1 c2 c3 c4 c5 s0 s1 s2 s3 _ _

example : (2 : ℕ) < 13 ∧ (4 : ℕ) < 2 ^ 63 := by decide

/-- transfer of C17c_plookup_consist_iff to the Go text: when the identity and both generated KZG verifications pass, `VerifyLookupVector` with
size = 2^(k+1) < 2^63 accepts exactly when the prover-supplied g is a PRIMITIVE size-th root of unity in ZMod q -/
theorem C17gen_PKG_plk_ex_sound (h2 : 2 < q) (rawG : Ex q → List UInt8) (fsC : String → List (List UInt8) → List (List UInt8) → List UInt8)
    (frB : List UInt8 → Ex q) (dg : Ex q → List (Ex q) → List (Ex q) → Ex q) (dgErr : Bool) (k : ℕ) (hn : 2 ^ (k + 1) < 2 ^ 63)
    (g h1 h2' t z f h bH c0 c1 c2 c3 c4 c5 sH s0 s1 s2 s3 g1 : Ex q) (l : ℕ × ℕ) (q0 q1 : Unit)
    (hid : plkIdentity (fp q) (2 ^ (k + 1)) g.v [c0.v, c1.v, c2.v, c3.v, c4.v, c5.v] [s0.v, s1.v, s2.v, s3.v]
        (frB (plkChallenges rawG fsC t f h1 h2' z h).1).v (frB (plkChallenges rawG fsC t f h1 h2' z h).2.1).v
        (frB (plkChallenges rawG fsC t f h1 h2' z h).2.2.1).v (frB (plkChallenges rawG fsC t f h1 h2' z h).2.2.2).v = true)
    (hb : plookup_PKG.kzg_BatchVerifySinglePoint_k6 INST Ex.toInt dg dgErr (pcFixed q) h1 h2' t z f h bH c0 c1 c2 c3 c4 c5
                  (frB (plkChallenges rawG fsC t f h1 h2' z h).2.2.2) q0 q1 g1 l = Res.ok)
    (hs : kzg_PKG.BatchVerifySinglePoint_k4 INST Ex.toInt dg dgErr (pcFixed q) h1 h2' t z sH s0 s1 s2 s3
                  (frB (plkChallenges rawG fsC t f h1 h2' z h).2.2.2 * g) q0 q1 g1 l = Res.ok) :
    plookup_PKG.VerifyLookupVector INST Ex.toInt rawG fsC frB dg dgErr (pcFixed q) (expEx q) q0 q1 g1 l ((2 ^ (k + 1) : ℕ) : Int) g h1 h2' t z f h bH c0 c1 c2 c3 c4 c5 sH s0 s1 s2 s3 = Res.ok ↔
      orderOf ((g.v : ℕ) : ZMod q) = 2 ^ (k + 1) := by
  rw [C17gen_PKG_plk_ex q h2 rawG fsC frB dg dgErr _ hn, hb, hs]
  simp only [decide_true]
  exact C17c_plookup_consist_iff (lawful_fp q h2) k g.v _ _ _ _ _ _ hid

end GV.C17gen
"""


def main():
    names = []
    for pkg in PKGS:
        curve = pkg.replace("_", "-")
        t = TEMPLATE.replace("PKG", pkg).replace("CURVE", curve).replace("INST", INST)
        open(os.path.join(PROPS, f"C17_gen_perm_{pkg}.lean"), "w").write(t)
        names += [f"C17gen_{pkg}_perm_{x}" for x in THMS]
        t = PLK_TEMPLATE.replace("PKG", pkg).replace("CURVE", curve).replace("INST", INST)
        open(os.path.join(PROPS, f"C17_gen_plk_{pkg}.lean"), "w").write(t)
        names += [f"C17gen_{pkg}_plk_{x}" for x in PLK_THMS]
    root = HEAD + "".join(f"import GnarkVerif.Props.C17_gen_perm_{p}\nimport GnarkVerif.Props.C17_gen_plk_{p}\n" for p in PKGS) + \
        "/-\nC17 tie T (permutation.Verify): see Props/C17_gen_perm_<curve>.lean and Proofs/PermGen.lean. This root module only collects the 7 instances.\n-/\n"
    open(os.path.join(PROPS, "C17_gen_perm.lean"), "w").write(root)
    aud = HEAD + "import GnarkVerif.Props.C17_gen_perm\nopen GV.C17gen GV.VerifierGen\n" + \
        "".join(f"#print axioms {n}\n" for n in ["permRef_ok_iff", "permRef_binding", "permRef_order", "permRef_ex", "i64_size_test", "i64_half", "plkRef_ok_iff", "plkRef_binding", "plkRef_ex", "u64_size_test"] + names)
    open(os.path.join(AUDIT, "C17_gen_perm.lean"), "w").write(aud)


if __name__ == "__main__":
    main()
