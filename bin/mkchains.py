#!/usr/bin/env python3
"""bin/mkchains.py — writes lean/GnarkVerif/Props/C01_chains.lean (and C06_chains / C03_chains) and the matching Audit files.

The theorems are about the chain DATA that tools/goslp/chains.go regenerates on every run (Gen/Chains/*.lean). The script
only instantiates statement templates per package / curve. Which Sqrt algorithm a field package uses (q = 3 mod 4,
q = 5 mod 8, Tonelli-Shanks) is computed here from the modulus in Gen/Fields.lean to CHOOSE the statement; the statement
itself re-proves the congruence from the regenerated modulus and the kind reported by the translator (decide +kernel).
Run after `build/gvgoslp -repo /repo -out lean/GnarkVerif/Gen`:   bin/mkchains.py [C01] [C06] [C03]
"""
import os, re, sys

ROOT = os.path.dirname(os.path.dirname(os.path.abspath(__file__)))
GEN = os.path.join(ROOT, "lean", "GnarkVerif", "Gen")
PROPS = os.path.join(ROOT, "lean", "GnarkVerif", "Props")
AUDIT = os.path.join(ROOT, "lean", "GnarkVerif", "Audit")

NOTE = "/- WRITTEN by bin/mkchains.py (generic part and per-package templates are in the script). DO NOT EDIT: edit the script and re-run it. -/\n"


def write(path, text):
    old = open(path).read() if os.path.exists(path) else None
    if old != text:
        open(path, "w").write(text)


# ------------------------------------------------------------------------------------------------ C01

C01_IMPORTS = r'''import GnarkVerif.Props.C01
import GnarkVerif.Proofs.Chain
import GnarkVerif.Gen.Chains.Fields
import Mathlib.NumberTheory.LegendreSymbol.QuadraticReciprocity
import Mathlib.Tactic.LinearCombination
'''

C01_DOC = r'''/-
C01 (tie T for the fixed-exponent addition chains) — `expBySqrtExp` / `expByLegendreExp` of element_exp.go of the 22 field
packages that have one, re-translated on every run by tools/goslp/chains.go into chain DATA (Gen/Chains/Fields.lean).

(a) `C01_chain_monoid`: in EVERY monoid, EVERY chain `c` with exponent reading `expoNat c = some n` computes `x ^ n`
    (`Proofs/Chain.lean`, induction over the step list with the register-file invariant "register i holds x^(e i)");
(b) per package, by `decide +kernel` on the regenerated chain and the regenerated modulus `GV.Gen.<pkg>.q`:
    `expoNat expByLegendreExp = (q-1)/2`, and `expoNat expBySqrtExp` = the exponent that `Sqrt` of element.go needs:
    `(q+1)/4` for q ≡ 3 (mod 4), `(q-5)/8` for q ≡ 5 (mod 8) (Atkin), `(s-1)/2` with q-1 = 2^e·s, s odd (Tonelli–Shanks),
    the congruence / decomposition re-proved from q; WHICH of the three texts `Sqrt` is (and that `Legendre` is the chain
    followed by IsZero / IsOne) is checked by the translator (text comparison, fatal otherwise) and reported in `sqrtUse`;
    for Tonelli–Shanks the literals `r` and `g` of `Sqrt` are tied to q: r = e and g has order exactly 2^e;
(c) on the value-level Montgomery model of C01 (`GV.Field`): the translated chain run with `mul` / `square` of the model
    equals `expNat` (`C01_chain_mont`), `Legendre` through the chain is the model's `legendre` (`C01_chain_legendre`, so
    `C01_legendre` applies to it), and the three `Sqrt` front ends succeed exactly on the squares / produce x^((s+1)/2), x^s.
-/
'''

C01_GENERIC = r'''namespace GV.Chain
open GV.Field

/-! ## (a) generic -/

theorem C01_chain_monoid {M : Type} [Monoid M] (c : Chain) (n : Nat) (hn : expoNat c = some n) (x : M) :
    eval (monoidOps M) c x = x ^ n := eval_monoid c n hn x

def toy13 : Chain := { nregs := 3, out := 1, steps := [.sq 2 0 1, .mul 2 0 2, .sq 2 2 2, .mul 1 2 0] }
example : expoNat toy13 = some 13 := by decide
example : eval (monoidOps Nat) toy13 3 = 3 ^ 13 := C01_chain_monoid toy13 13 (by decide) 3
example : eval (monoidOps Nat) toy13 3 = 1594323 := by decide
/-- an ill-formed chain (register 2 read before it is written) has no exponent reading -/
example : expoNat { nregs := 3, out := 1, steps := [.mul 1 0 2] } = none := by decide

/-! ## (c) on the Montgomery model -/

def montOps (p : Params) : Ops Nat :=
  { mul := mul p, sq := square p, inv := id, sqc := square p, dec := id }

theorem mont_sim (p : Params) (h : p.OK) (x : Nat) :
    Sim natDom (montOps p) (fun t e => t < p.q ∧ abs p t = abs p x ^ e) (fun t e => t < p.q ∧ abs p t = abs p x ^ e) where
  weaken := fun _ _ h => h
  mul := by
    rintro a b e f ⟨ha, ha'⟩ ⟨hb, hb'⟩
    exact ⟨C01_mul_canonical p h a b ha hb, by
      show abs p (mul p a b) = abs p x ^ (e + f)
      rw [C01_mul_exact p h a b ha hb, ha', hb', pow_add]⟩
  sq := by
    rintro a e ⟨ha, ha'⟩
    exact ⟨(C01_square p h a ha).1, by
      show abs p (square p a) = abs p x ^ (2 * e)
      rw [(C01_square p h a ha).2, ha', ← pow_mul, Nat.mul_comm]⟩
  invF := by intro ng h; cases h
  invC := by intro ng h; cases h
  sqc := by
    rintro a e ⟨ha, ha'⟩
    exact ⟨(C01_square p h a ha).1, by
      show abs p (square p a) = abs p x ^ (2 * e)
      rw [(C01_square p h a ha).2, ha', ← pow_mul, Nat.mul_comm]⟩
  dec := fun _ _ h => h

theorem C01_chain_mont (p : Params) (h : p.OK) (c : Chain) (n : Nat) (hn : expoNat c = some n) (x : Nat) (hx : x < p.q) :
    eval (montOps p) c x < p.q ∧ abs p (eval (montOps p) c x) = abs p x ^ n ∧
    eval (montOps p) c x = expNat p x n := by
  have h1 := (mont_sim p h x).eval_spec c n hn x ⟨hx, (pow_one _).symm⟩
  obtain ⟨h2, h3⟩ := C01_expNat p h x n hx
  exact ⟨h1.1, h1.2, C01_abs_injective p h _ _ h1.1 h2 (by rw [h1.2, h3])⟩

def legendreVia (p : Params) (c : Chain) (x : Nat) : Int :=
  if x = 0 then 0 else if eval (montOps p) c x = one p then 1 else -1

theorem C01_chain_legendre (p : Params) (h : p.OK) (c : Chain) (hc : expoNat c = some ((p.q - 1) / 2))
    (x : Nat) (hx : x < p.q) : legendreVia p c x = legendre p x := by
  unfold legendreVia legendre
  rw [(C01_chain_mont p h c _ hc x hx).2.2]


/-! ## Sqrt -/

/-- `q ≡ 3 (mod 4)` (`Sqrt` of element.go: `y.expBySqrtExp(*x); square.Square(&y); if square.Equal(x) { return z.Set(&y) }; return nil`):
with a chain whose exponent reading is `(q+1)/4`, the test `y² = x` succeeds exactly for the squares, and then `y` is a root -/
theorem C01_chain_sqrt_3mod4 (p : Params) [Fact p.q.Prime] (h : p.OK) (h4 : p.q % 4 = 3) (c : Chain)
    (hc : expoNat c = some ((p.q + 1) / 4)) (x : Nat) (hx : x < p.q) :
    square p (eval (montOps p) c x) = x ↔ IsSquare (abs p x) := by
  obtain ⟨hy, hy', _⟩ := C01_chain_mont p h c _ hc x hx
  obtain ⟨hs, hs'⟩ := C01_square p h _ hy
  constructor
  · intro e
    have e' := congrArg (abs p) e
    rw [hs'] at e'
    exact ⟨abs p (eval (montOps p) c x), by rw [← e', sq]⟩
  · intro hsq
    apply C01_abs_injective p h _ _ hs hx
    rw [hs', hy', ← pow_mul]
    have e2 : (p.q + 1) / 4 * 2 = p.q / 2 + 1 := by omega
    rw [e2, pow_succ]
    by_cases h0 : abs p x = 0
    · rw [h0, mul_zero]
    · rw [(ZMod.euler_criterion p.q h0).1 hsq, one_mul]

/-- Tonelli–Shanks (`q - 1 = 2^e·s`, `s` odd; `Sqrt` of element.go: `w.expBySqrtExp(*x); y.Mul(x, &w); b.Mul(&w, &y)`):
with a chain whose exponent reading is `(s-1)/2`, `y = x^((s+1)/2)` and `b = x^s` -/
theorem C01_chain_sqrt_TS (p : Params) (h : p.OK) (s : Nat) (hs : s % 2 = 1) (c : Chain)
    (hc : expoNat c = some ((s - 1) / 2)) (x : Nat) (hx : x < p.q) :
    let w := eval (montOps p) c x
    let y := mul p x w
    let b := mul p w y
    y < p.q ∧ b < p.q ∧ abs p y = abs p x ^ ((s + 1) / 2) ∧ abs p b = abs p x ^ s ∧ abs p y ^ 2 = abs p x * abs p b := by
  intro w y b
  obtain ⟨hw, hw', _⟩ := C01_chain_mont p h c _ hc x hx
  have hy : y < p.q := C01_mul_canonical p h x w hx hw
  have hy' : abs p y = abs p x ^ ((s + 1) / 2) := by
    show abs p (mul p x w) = _
    rw [C01_mul_exact p h x w hx hw, hw', ← pow_succ']
    congr 1; omega
  have hb' : abs p b = abs p x ^ s := by
    show abs p (mul p w y) = _
    rw [C01_mul_exact p h w y hw hy, hw', hy', ← pow_add]
    congr 1; omega
  refine ⟨hy, C01_mul_canonical p h w y hw hy, hy', hb', ?_⟩
  rw [hy', hb', ← pow_mul, ← pow_succ']
  congr 1; omega

/-- Atkin, `q ≡ 5 (mod 8)` (`Sqrt` of element.go: `tx.Double(x); alpha.expBySqrtExp(tx);
beta.Square(&alpha).Mul(&beta, &tx).Sub(&beta, &one).Mul(&beta, x).Mul(&beta, &alpha)`): with a chain whose exponent reading is
`(q-5)/8`, the test `beta² = x` succeeds exactly for the squares -/
theorem C01_chain_sqrt_atkin (p : Params) [Fact p.q.Prime] (h : p.OK) (h8 : p.q % 8 = 5) (c : Chain)
    (hc : expoNat c = some ((p.q - 5) / 8)) (x : Nat) (hx : x < p.q) :
    let tx := double p x
    let alpha := eval (montOps p) c tx
    let beta := mul p (mul p (sub p (mul p (square p alpha) tx) (one p)) x) alpha
    square p beta = x ↔ IsSquare (abs p x) := by
  intro tx alpha beta
  obtain ⟨htx, htx'⟩ := C01_double p x hx
  obtain ⟨hal, hal', _⟩ := C01_chain_mont p h c _ hc tx htx
  obtain ⟨h1, h1'⟩ := C01_square p h alpha hal
  have h2 := C01_mul_canonical p h _ tx h1 htx
  have h2' := C01_mul_exact p h _ tx h1 htx
  obtain ⟨h3, h3'⟩ := C01_sub p _ (one p) h2 (C01_one p h).1
  have h4 := C01_mul_canonical p h _ x h3 hx
  have h4' := C01_mul_exact p h _ x h3 hx
  have h5 : beta < p.q := C01_mul_canonical p h _ alpha h4 hal
  have h5' : abs p beta = _ := C01_mul_exact p h _ alpha h4 hal
  obtain ⟨h6, h6'⟩ := C01_square p h beta h5
  rw [h4', h3', h2', h1', (C01_one p h).2] at h5'
  constructor
  · intro e
    have e' := congrArg (abs p) e
    rw [h6'] at e'
    exact ⟨abs p beta, by rw [← e', sq]⟩
  · intro hsq
    apply C01_abs_injective p h _ _ h6 hx
    rw [h6', h5']
    generalize abs p x = a at *
    generalize abs p alpha = al at *
    by_cases h0 : a = 0
    · subst h0; ring
    have hq2 : p.q ≠ 2 := by omega
    have two_ne : (2 : ZMod p.q) ≠ 0 := by
      intro e2
      have := (ZMod.natCast_eq_zero_iff 2 p.q).1 (by exact_mod_cast e2)
      have := Nat.le_of_dvd (by norm_num) this
      omega
    have e2 : (2 : ZMod p.q) ^ (p.q / 2) = -1 := by
      rcases ZMod.pow_div_two_eq_neg_one_or_one p.q two_ne with e | e
      · have := (ZMod.exists_sq_eq_two_iff hq2).1 ((ZMod.euler_criterion p.q two_ne).2 e)
        omega
      · exact e
    have ea : a ^ (p.q / 2) = 1 := (ZMod.euler_criterion p.q h0).1 hsq
    have hi : al ^ 4 * (2 * a) ^ 2 = -1 := by
      rw [hal', htx', ← pow_mul, ← pow_add]
      have : (p.q - 5) / 8 * 4 + 2 = p.q / 2 := by omega
      rw [this, mul_pow, e2, ea, mul_one]
    have ht : (2 * a) ≠ 0 := mul_ne_zero two_ne h0
    apply mul_right_cancel₀ ht
    rw [htx']
    linear_combination (al ^ 2 * (2 * a) * a ^ 2 - 2 * a ^ 2) * hi

'''

C01_COMMON = r'''namespace @P@
abbrev P : Params := ofConsts GV.Gen.@P@
theorem P_ok : P.OK := Params.OK_of_okb _ (by decide +kernel)
/-- `expByLegendreExp` raises to `(q-1)/2` -/
theorem legendre_expo : expoNat Gen.Chains.@P@.expByLegendreExp = some ((GV.Gen.@P@.q - 1) / 2) := by decide +kernel
/-- `Legendre` computed through the translated chain is the model's `legendre` (Euler's criterion: `C01_legendre`) -/
theorem legendre_chain (x : Nat) (hx : x < GV.Gen.@P@.q) :
    legendreVia P Gen.Chains.@P@.expByLegendreExp x = legendre P x := C01_chain_legendre P P_ok _ legendre_expo x hx
'''

C01_PKG = {
    "q3mod4": C01_COMMON + r'''/-- q ≡ 3 (mod 4), `Sqrt` is the `y = x^k; y² = x ?` text, and `expBySqrtExp` raises to `k = (q+1)/4` -/
theorem sqrt_expo : GV.Gen.@P@.q % 4 = 3 ∧ Gen.Chains.@P@.sqrtUse.kind = 0 ∧
    expoNat Gen.Chains.@P@.expBySqrtExp = some ((GV.Gen.@P@.q + 1) / 4) := by decide +kernel
/-- the test `square.Equal(x)` of `Sqrt` succeeds exactly for the squares (and then `y` is a root) -/
theorem sqrt_chain [Fact P.q.Prime] (x : Nat) (hx : x < GV.Gen.@P@.q) :
    square P (eval (montOps P) Gen.Chains.@P@.expBySqrtExp x) = x ↔ IsSquare (Field.abs P x) :=
  C01_chain_sqrt_3mod4 P P_ok sqrt_expo.1 _ sqrt_expo.2.2 x hx
end @P@
''',
    "atkin": C01_COMMON + r'''/-- q ≡ 5 (mod 8), `Sqrt` is Atkin's text, and `expBySqrtExp` raises to `(q-5)/8` -/
theorem sqrt_expo : GV.Gen.@P@.q % 8 = 5 ∧ Gen.Chains.@P@.sqrtUse.kind = 1 ∧
    expoNat Gen.Chains.@P@.expBySqrtExp = some ((GV.Gen.@P@.q - 5) / 8) := by decide +kernel
/-- the test `square.Equal(x)` of `Sqrt` succeeds exactly for the squares (and then `beta` is a root) -/
theorem sqrt_chain [Fact P.q.Prime] (x : Nat) (hx : x < GV.Gen.@P@.q) :
    let tx := double P x
    let alpha := eval (montOps P) Gen.Chains.@P@.expBySqrtExp tx
    let beta := mul P (mul P (sub P (mul P (square P alpha) tx) (one P)) x) alpha
    square P beta = x ↔ IsSquare (Field.abs P x) :=
  C01_chain_sqrt_atkin P P_ok sqrt_expo.1 _ sqrt_expo.2.2 x hx
end @P@
''',
    "ts": C01_COMMON + r'''/-- `Sqrt` is the Tonelli–Shanks text, its literal `r` is the 2-adic valuation `e` of `q-1 = 2^e·s` (`s` odd), and
`expBySqrtExp` raises to `(s-1)/2` -/
theorem sqrt_expo : Gen.Chains.@P@.sqrtUse.kind = 2 ∧ 0 < Gen.Chains.@P@.sqrtUse.e ∧
    GV.Gen.@P@.q - 1 = 2 ^ Gen.Chains.@P@.sqrtUse.e * oddPart (GV.Gen.@P@.q - 1) ∧ oddPart (GV.Gen.@P@.q - 1) % 2 = 1 ∧
    expoNat Gen.Chains.@P@.expBySqrtExp = some ((oddPart (GV.Gen.@P@.q - 1) - 1) / 2) := by decide +kernel
/-- the literal `g` of `Sqrt` (Montgomery limbs) is canonical and has order exactly `2^e`: `g^(2^(e-1)) = -1` -/
theorem sqrt_g : limbsVal GV.Gen.@P@.word Gen.Chains.@P@.sqrtUse.g < GV.Gen.@P@.q ∧
    expNat P (limbsVal GV.Gen.@P@.word Gen.Chains.@P@.sqrtUse.g) (2 ^ (Gen.Chains.@P@.sqrtUse.e - 1)) = neg P (one P) := by
  decide +kernel
/-- the straight-line front end of `Sqrt`: `w = x^((s-1)/2)`, `y = x·w = x^((s+1)/2)`, `b = w·y = x^s`, `y² = x·b` -/
theorem sqrt_chain (x : Nat) (hx : x < GV.Gen.@P@.q) :
    let w := eval (montOps P) Gen.Chains.@P@.expBySqrtExp x
    let y := mul P x w
    let b := mul P w y
    y < P.q ∧ b < P.q ∧ Field.abs P y = Field.abs P x ^ ((oddPart (GV.Gen.@P@.q - 1) + 1) / 2) ∧
      Field.abs P b = Field.abs P x ^ oddPart (GV.Gen.@P@.q - 1) ∧ Field.abs P y ^ 2 = Field.abs P x * Field.abs P b :=
  C01_chain_sqrt_TS P P_ok _ sqrt_expo.2.2.2.1 _ sqrt_expo.2.2.2.2 x hx
end @P@
'''}

C01_PKG_THMS = {'q3mod4': ['P_ok', 'legendre_expo', 'legendre_chain', 'sqrt_expo', 'sqrt_chain'], 'atkin': ['P_ok', 'legendre_expo', 'legendre_chain', 'sqrt_expo', 'sqrt_chain'], 'ts': ['P_ok', 'legendre_expo', 'legendre_chain', 'sqrt_expo', 'sqrt_g', 'sqrt_chain']}

C01_GENERIC_THMS = ['GV.Chain.Sim.eval_spec', 'GV.Chain.eval_monoid', 'GV.Chain.eval_group', 'GV.Chain.C01_chain_monoid', 'GV.Chain.mont_sim', 'GV.Chain.C01_chain_mont', 'GV.Chain.C01_chain_legendre', 'GV.Chain.C01_chain_sqrt_3mod4', 'GV.Chain.C01_chain_sqrt_TS', 'GV.Chain.C01_chain_sqrt_atkin']


def field_moduli():
    s = open(os.path.join(GEN, "Fields.lean")).read()
    return {m.group(1): int(m.group(2)) for m in re.finditer(r'name := "(\w+)",[^\n]*\n\s*q := (\d+),', s)}


def field_chain_pkgs():
    s = open(os.path.join(GEN, "Chains", "Fields.lean")).read()
    pk = {}
    for m in re.finditer(r'\("(\w+)", "(\w+)", ', s):
        pk.setdefault(m.group(1), []).append(m.group(2))
    return pk


def c01():
    qs = field_moduli()
    pk = field_chain_pkgs()
    body, audit = [], []
    for pkg, fns in pk.items():
        q = qs[pkg]
        if sorted(fns) != ["expByLegendreExp", "expBySqrtExp"]:
            sys.exit("mkchains: %s has chains %s: add a statement template for the new one" % (pkg, fns))
        kind = "q3mod4" if q % 4 == 3 else "atkin" if q % 8 == 5 else "ts"
        body.append(C01_PKG[kind].replace("@P@", pkg))
        audit += ["GV.Chain.%s.%s" % (pkg, t) for t in C01_PKG_THMS[kind]]
    txt = (C01_IMPORTS + NOTE + C01_DOC + C01_GENERIC + "/-! ## (b), (c) per package -/\n\n" + "\n".join(body)
           + "\n/-- the packages covered (every field package that has an element_exp.go) -/\n"
           + "theorem C01_chains_packages : GV.Gen.Chains.fieldChains.map (fun e => (e.1, e.2.1)) = [%s] := by decide\n\nend GV.Chain\n"
           % ", ".join('("%s", "%s")' % (p, f) for p, fns in pk.items() for f in fns))
    write(os.path.join(PROPS, "C01_chains.lean"), txt)
    au = "import GnarkVerif.Props.C01_chains\n" + "".join("#print axioms %s\n" % t for t in C01_GENERIC_THMS + audit + ["GV.Chain.C01_chains_packages"])
    write(os.path.join(AUDIT, "C01_chains.lean"), au)
    print("C01_chains: %d packages, %d theorems" % (len(pk), len(C01_GENERIC_THMS) + len(audit) + 1))


# ------------------------------------------------------------------------------------------------ C06

C06_HEAD = r"""import GnarkVerif.Proofs.Chain
import GnarkVerif.Gen.Chains.Tower
import GnarkVerif.Gen.CurveConsts
import Mathlib.Algebra.Group.Int.Defs
import Mathlib.Algebra.Group.TypeTags.Basic
""" + NOTE + r"""/-
C06 (tie T for the cyclotomic exponentiation chains) — `Expt`, `ExptHalf`, `ExptMinus1`, `ExptMinus1Squared` / `ExptMinus1Square`,
`ExptPlus1`, `ExptSquarePlus1`, `ExptMinus1Div3`, `Expc1`, `Expc2` of ecc/<curve>/internal/fptower/e{12,24,6}_pairing.go of the 7
pairing curves, re-translated on every run by tools/goslp/chains.go into chain DATA (Gen/Chains/Tower.lean): ops `Mul`,
`CyclotomicSquare` / `Square`, `nSquare(n)`, `nSquareCompressed(n)`, `DecompressKarabina` / `BatchDecompressKarabina`,
`Conjugate`, `Set`, calls of another chain (inlined). Every function is translated twice: called with distinct variables
(`F`) and in place, `v.F(&v)` (`F_inplace`, receiver and argument are ONE register; pairing.go does call them in place).

(a) `C06_chain_cyclotomic` (once, for every chain): let `rep t g` say "the tower value t represents the element g of a group G"
    (G = the cyclotomic subgroup) and `crep t g` "the four coordinates of t kept by Karabina's compression are those of g".
    If Mul / CyclotomicSquare / Conjugate / CyclotomicSquareCompressed / DecompressKarabina realise g·h, g·g, g⁻¹, g·g (on
    compressed forms), the identity (compressed → full), then a chain with exponent reading `expoInt c = some k ∈ ℤ` maps a
    representation of g to a representation of g^k. The exponent reading also checks that no register is read before it is
    written and that a compressed value is only squared (compressed), conjugated, copied or decompressed.
    The hypotheses are what C06 establishes for the translated tower code on the cyclotomic subgroup:
    `E12.Mul_spec` (product), `E12.CyclotomicSquare_spec` (x cyclotomic → x·x), `E12.Conjugate_spec` (= conj, the inverse on
    x·x̄ = 1), `E12.CyclotomicSquareCompressed_eq` (the four kept coordinates are those of CyclotomicSquare),
    `E12.DecompressKarabina_general_partial` / `_g2_zero` (PARTIAL, see Props/C06.lean) — they are NOT discharged here.
    `C06_chain_group`: the same with functions on the group itself.
(b) per curve, by `decide +kernel` on the regenerated chains and the regenerated seed `GV.Gen.CurveConsts.<curve>.xGen` = |x₀|
    (Props/C03_gen*: `seed_doc` relates it to the package comment, the seed relations to p and r): with t = ±xGen as the
    code has it, Expt = t, ExptHalf = t/2, ExptMinus1 = t−1, ExptMinus1Squared = (t−1)², ExptPlus1 = t+1,
    ExptSquarePlus1 = t²+1, ExptMinus1Div3 = (t−1)/3 (with 3 ∣ t−1); Expc1 / Expc2 are the small cofactor exponents stated
    in their Go comments (literals). The in-place variants have the same exponents.
-/
namespace GV.Chain

/-! ## (a) generic -/

section
variable {T G : Type} [Group G]

theorem C06_chain_cyclotomic (o : Ops T) (rep crep : T → G → Prop)
    (hw : ∀ t g, rep t g → crep t g)
    (hmul : ∀ a b g h, rep a g → rep b h → rep (o.mul a b) (g * h))
    (hsq : ∀ a g, rep a g → rep (o.sq a) (g * g))
    (hconj : ∀ a g, rep a g → rep (o.inv a) g⁻¹)
    (hconjC : ∀ a g, crep a g → crep (o.inv a) g⁻¹)
    (hsqc : ∀ a g, crep a g → crep (o.sqc a) (g * g))
    (hdec : ∀ a g, crep a g → rep (o.dec a) g)
    (c : Chain) (k : Int) (hk : expoInt c = some k) (x : T) (g : G) (hx : rep x g) :
    rep (eval o c x) (g ^ k) := by
  have S : Sim intDom o (fun t e => rep t (g ^ e)) (fun t e => crep t (g ^ e)) :=
    { weaken := fun t e h => hw t _ h
      mul := by
        intro a b e f ha hb
        show rep (o.mul a b) (g ^ (e + f))
        rw [zpow_add]; exact hmul a b _ _ ha hb
      sq := by
        intro a e ha
        show rep (o.sq a) (g ^ (2 * e))
        rw [Int.two_mul, zpow_add]; exact hsq a _ ha
      invF := by
        intro ng h a e ha; cases h
        show rep (o.inv a) (g ^ (-e))
        rw [zpow_neg]; exact hconj a _ ha
      invC := by
        intro ng h a e ha; cases h
        show crep (o.inv a) (g ^ (-e))
        rw [zpow_neg]; exact hconjC a _ ha
      sqc := by
        intro a e ha
        show crep (o.sqc a) (g ^ (2 * e))
        rw [Int.two_mul, zpow_add]; exact hsqc a _ ha
      dec := fun a e ha => hdec a _ ha }
  exact S.eval_spec c k hk x (by show rep x (g ^ (1 : Int)); rw [zpow_one]; exact hx)

/-- the same with operations on the group itself -/
theorem C06_chain_group (o : Ops G)
    (hmul : ∀ a b, o.mul a b = a * b) (hsq : ∀ a, o.sq a = a * a) (hconj : ∀ a, o.inv a = a⁻¹)
    (hsqc : ∀ a, o.sqc a = a * a) (hdec : ∀ a, o.dec a = a)
    (c : Chain) (k : Int) (hk : expoInt c = some k) (x : G) : eval o c x = x ^ k :=
  (group_sim o x hmul hsq hconj hsqc hdec).eval_spec c k hk x (zpow_one x).symm

end

/-- non-vacuity: x ↦ x^(-3) the way bw6-633 `Expc1` does it, run in the group `Multiplicative ℤ` -/
def toyNeg3 : Chain := { nregs := 3, out := 1, steps := [.sq 2 0 1, .mul 2 0 2, .inv 1 2] }
example : expoInt toyNeg3 = some (-3) := by decide
example (x : Multiplicative ℤ) : eval (groupOps _) toyNeg3 x = x ^ (-3 : ℤ) :=
  C06_chain_group _ (fun _ _ => rfl) (fun _ => rfl) (fun _ => rfl) (fun _ => rfl) (fun _ => rfl) toyNeg3 (-3) (by decide) x
example : eval (groupOps (Multiplicative ℤ)) toyNeg3 (Multiplicative.ofAdd 5) = Multiplicative.ofAdd (-15) := by decide
/-- a compressed value must be decompressed before it is multiplied; a chain that does not is rejected -/
example : expoInt { nregs := 3, out := 1, steps := [.sqc 2 0 4, .mul 1 2 0] } = none := by decide
example : expoInt { nregs := 3, out := 1, steps := [.sqc 2 0 4, .dec 2 2, .mul 1 2 0] } = some 17 := by decide
example {T G : Type} [Group G] (o : Ops T) (rep crep : T → G → Prop) (hw : ∀ t g, rep t g → crep t g)
    (hmul : ∀ a b g h, rep a g → rep b h → rep (o.mul a b) (g * h)) (hsq : ∀ a g, rep a g → rep (o.sq a) (g * g))
    (hconj : ∀ a g, rep a g → rep (o.inv a) g⁻¹) (hconjC : ∀ a g, crep a g → crep (o.inv a) g⁻¹)
    (hsqc : ∀ a g, crep a g → crep (o.sqc a) (g * g)) (hdec : ∀ a g, crep a g → rep (o.dec a) g)
    (x : T) (g : G) (hx : rep x g) :
    rep (eval o { nregs := 3, out := 1, steps := [.sqc 2 0 4, .dec 2 2, .mul 1 2 0] } x) (g ^ (17 : ℤ)) :=
  C06_chain_cyclotomic o rep crep hw hmul hsq hconj hconjC hsqc hdec _ 17 (by decide) x g hx

/-! ## (b) per curve -/

open GV.Gen.Chains.Tower
"""

# exponent of each function in terms of t (the signed seed as the code has it)
C06_EXPR = {
    "Expt": ("t", None),
    "ExptHalf": ("t / 2", "t % 2 = 0"),
    "ExptMinus1": ("t - 1", None),
    "ExptMinus1Squared": ("(t - 1) ^ 2", None),
    "ExptMinus1Square": ("(t - 1) ^ 2", None),
    "ExptPlus1": ("t + 1", None),
    "ExptSquarePlus1": ("t ^ 2 + 1", None),
    "ExptMinus1Div3": ("(t - 1) / 3", "(t - 1) % 3 = 0"),
}
# cofactor exponents as documented in the Go comments of e6_pairing.go
C06_LIT = {("bw6_633", "Expc1"): "-3", ("bw6_633", "Expc2"): "13", ("bw6_761", "Expc1"): "11", ("bw6_761", "Expc2"): "103"}


def tower_chains():
    s = open(os.path.join(GEN, "Chains", "Tower.lean")).read()
    pk = {}
    for m in re.finditer(r'\("(\w+)", "(\w+)", ', s):
        pk.setdefault(m.group(1), []).append(m.group(2))
    return pk


def seed_signs():
    s = open(os.path.join(GEN, "CurveConsts.lean")).read()
    out = {}
    for m in re.finditer(r'^namespace (\w+)\n(.*?)^end \1', s, re.M | re.S):
        d = re.search(r'def docSeed : Int := \(?(-?\d+)\)?', m.group(2))
        x = re.search(r'def xGen : Int := \(?(-?\d+)\)?', m.group(2))
        if d and x:
            out[m.group(1)] = "-" if int(d.group(1)) < 0 else "+"
    return out


def c06():
    pk = tower_chains()
    sg = seed_signs()
    body, audit = [], []
    for curve, fns in pk.items():
        t = ("(-GV.Gen.CurveConsts.%s.xGen)" if sg[curve] == "-" else "GV.Gen.CurveConsts.%s.xGen") % curve
        body.append("namespace %s\n/-- the seed as the code has it: t = %sxGen -/\nabbrev t : Int := %s\n" % (curve, "−" if sg[curve] == "-" else "", t))
        for fn in fns:
            base = fn[:-len("_inplace")] if fn.endswith("_inplace") else fn
            if (curve, base) in C06_LIT:
                expr, side = C06_LIT[(curve, base)], None
                doc = "`%s` raises to the cofactor exponent %s of its Go comment" % (fn, expr)
            elif base in C06_EXPR:
                expr, side = C06_EXPR[base]
                doc = "`%s` raises to `%s`" % (fn, expr)
            else:
                sys.exit("mkchains: %s.%s: add the expected exponent of this new chain" % (curve, fn))
            st = "expoInt %s.%s = some (%s)" % (curve, fn, expr)
            if side:
                st = side + " ∧ " + st
            body.append("/-- %s -/\ntheorem %s_expo : %s := by decide +kernel\n" % (doc, fn, st))
            audit.append("GV.Chain.%s.%s_expo" % (curve, fn))
        body.append("end %s\n" % curve)
    tail = ("/-- the chains covered -/\ntheorem C06_chains_functions : GV.Gen.Chains.Tower.towerChains.map (fun e => (e.1, e.2.1)) = [%s] := by decide\n\nend GV.Chain\n"
            % ", ".join('("%s", "%s")' % (c, f) for c, fns in pk.items() for f in fns))
    write(os.path.join(PROPS, "C06_chains.lean"), C06_HEAD + "\n".join(body) + "\n" + tail)
    gen = ["GV.Chain.Sim.eval_spec", "GV.Chain.C06_chain_cyclotomic", "GV.Chain.C06_chain_group"]
    au = "import GnarkVerif.Props.C06_chains\n" + "".join("#print axioms %s\n" % t for t in gen + audit + ["GV.Chain.C06_chains_functions"])
    write(os.path.join(AUDIT, "C06_chains.lean"), au)
    print("C06_chains: %d curves, %d theorems" % (len(pk), len(gen) + len(audit) + 1))


# ------------------------------------------------------------------------------------------------ C03

C03_HEAD = r"""import GnarkVerif.Proofs.Chain
import GnarkVerif.Gen.Chains.Curve
import GnarkVerif.Gen.CurveConsts
import Mathlib.Algebra.Group.Int.Defs
""" + NOTE + r"""/-
C03 / C02 (tie T for the seed-multiplication chains) — `mulBySeed` of G1Jac / G2Jac (ecc/<curve>/g1.go, g2.go; used by the
cofactor clearing and the subgroup membership tests), re-translated on every run by tools/goslp/chains.go into ADDITIVE chain
DATA (Gen/Chains/Curve.lean): `Double` / `DoubleAssign` (sq), `AddAssign` (mul), `SubAssign` / `Neg` (inv), `Set`,
literal-bound loops. Each is translated as p.mulBySeed(q) and as the in-place call p.mulBySeed(p).

(a) `C03_chain_addGroup` (once, for every chain): in every additive group, with `+`, doubling and negation,
    a chain with exponent reading `expoInt c = some k` computes `k • P`; `C03_chain_points`: the same through a
    representation relation (Jacobian triples representing points of the curve group), whose hypotheses are what Props/C02_gen
    proves for the translated `AddAssign` / `Double` / `Neg` formulas (`generated def = group operation` bridge lemmas);
(b) per curve by `decide +kernel` against the regenerated seed: `mulBySeed` multiplies by `xGen` = |x₀| (the callers handle
    the sign), for G1 and G2 of bn254, bls12-377, bls12-381, bw6-761; the other curves implement `mulBySeed` as
    `mulWindowed(q, &xGen)` (`C03_chains_windowed`: the list of those and the constant they pass).
-/
namespace GV.Chain

/-! ## (a) generic -/

section
variable {A : Type} [AddGroup A]

/-- the additive reading of the operations -/
def addGroupOps (A : Type) [AddGroup A] : Ops A :=
  { mul := (· + ·), sq := fun a => a + a, inv := fun a => -a, sqc := fun a => a + a, dec := id }

theorem C03_chain_points {T : Type} (o : Ops T) (rep : T → A → Prop)
    (hadd : ∀ a b P Q, rep a P → rep b Q → rep (o.mul a b) (P + Q))
    (hdbl : ∀ a P, rep a P → rep (o.sq a) (P + P))
    (hneg : ∀ a P, rep a P → rep (o.inv a) (-P))
    (hsqc : ∀ a P, rep a P → rep (o.sqc a) (P + P)) (hdec : ∀ a P, rep a P → rep (o.dec a) P)
    (c : Chain) (k : Int) (hk : expoInt c = some k) (x : T) (P : A) (hx : rep x P) :
    rep (eval o c x) (k • P) := by
  have S : Sim intDom o (fun t e => rep t (e • P)) (fun t e => rep t (e • P)) :=
    { weaken := fun _ _ h => h
      mul := by
        intro a b e f ha hb
        show rep (o.mul a b) ((e + f) • P)
        rw [add_zsmul]; exact hadd a b _ _ ha hb
      sq := by
        intro a e ha
        show rep (o.sq a) ((2 * e) • P)
        rw [Int.two_mul, add_zsmul]; exact hdbl a _ ha
      invF := by
        intro ng h a e ha; cases h
        show rep (o.inv a) ((-e) • P)
        rw [neg_zsmul]; exact hneg a _ ha
      invC := by
        intro ng h a e ha; cases h
        show rep (o.inv a) ((-e) • P)
        rw [neg_zsmul]; exact hneg a _ ha
      sqc := by
        intro a e ha
        show rep (o.sqc a) ((2 * e) • P)
        rw [Int.two_mul, add_zsmul]; exact hsqc a _ ha
      dec := fun a e ha => hdec a _ ha }
  exact S.eval_spec c k hk x (by show rep x ((1 : Int) • P); rw [one_zsmul]; exact hx)

theorem C03_chain_addGroup (c : Chain) (k : Int) (hk : expoInt c = some k) (P : A) :
    eval (addGroupOps A) c P = k • P :=
  C03_chain_points (addGroupOps A) (fun t Q => t = Q)
    (by intro a b P Q ha hb; subst ha; subst hb; rfl) (by intro a P ha; subst ha; rfl)
    (by intro a P ha; subst ha; rfl) (by intro a P ha; subst ha; rfl) (by intro a P ha; exact ha) c k hk P P rfl

end

/-- non-vacuity: 2P + P, doubled twice, minus P = 11·P, in ℤ -/
def toy11 : Chain := { nregs := 4, out := 1, steps := [.sq 2 0 1, .mul 2 2 0, .sq 2 2 2, .inv 3 0, .mul 2 2 3, .set 1 2] }
example : expoInt toy11 = some 11 := by decide
example (P : ℤ) : eval (addGroupOps ℤ) toy11 P = (11 : ℤ) • P := C03_chain_addGroup toy11 11 (by decide) P
example : eval (addGroupOps ℤ) toy11 7 = 77 := by decide

/-! ## (b) per curve -/

open GV.Gen.Chains.Curve
"""


# C03_chains_points: the hypotheses of C03_chain_points discharged with the C02_gen group-law theorems of the translated
# AddAssign / Double / Neg (per curve: extra instance arguments of the G2 file, coordinate field of G2)
C03P_CURVES = {
    "bn254": ("[QuadExt.NonSquare (-1 : F)]", "K2 F"),
    "bls12_377": ("[QuadExt.NonSquare (-5 : F)]", "K2 F"),
    "bls12_381": ("[QuadExt.NonSquare (-1 : F)]", "K2 F"),
    "bw6_761": ("", "F"),
}

C03P_HEAD = r"""@IMPORTS@import GnarkVerif.Props.C03_chains
""" + NOTE + r"""/-
C03 / C02 — `mulBySeed` END TO END on the curve group: the hypotheses of `C03_chain_points` (Props/C03_chains.lean) are
discharged with the group-law theorems of Props/C02_gen_<curve>* about the point formulas that tools/goslp/slp.go
regenerates from the same g1.go / g2.go (`C02gen_G1Jac_AddAssign`, `C02gen_G1Jac_Double`, `C02gen_G1Jac_Neg`, and G2).
Hence: for every field of characteristic ≠ 2 (G2: over the translated quadratic extension), every coefficient b and every
Jacobian triple q representing a point Q of Mathlib's group `(sw 0 b).Point` — infinity, 2-torsion, any scaling —
running the translated `mulBySeed` chain with the translated `AddAssign` / `Double` / `Neg` yields a representation of
`xGen • Q`, `xGen` the regenerated seed. (`DoubleAssign` is `Double` on the same variable: both are `jacDouble`, C02_gen.)
-/
set_option linter.unusedSectionVars false
set_option linter.unusedVariables false
"""

C03P_CURVE = r"""
namespace GV.Gen.Curve.@C@
open GV.Chain GV.Curve GV.C02 GV.CurveGen GV.Tower WeierstrassCurve

section g1
variable {F : Type} [Field F] [DecidableEq F]

/-- the translated G1 point operations as chain operations -/
def g1ChainOps : Ops (G1Jac F) :=
  { mul := fun a b => (G1Jac.AddAssign a b).1, sq := fun a => (G1Jac.Double a).1, inv := fun a => (G1Jac.Neg a).1,
    sqc := fun a => (G1Jac.Double a).1, dec := id }

theorem C03_mulBySeed_G1 (hc : (2 : F) ≠ 0) {b : F} {q : G1Jac F} {Q : (sw 0 b).Point} (hq : q.Rep b Q) :
    (eval g1ChainOps GV.Gen.Chains.Curve.@C@.g1_mulBySeed q).Rep b (GV.Gen.CurveConsts.@C@.xGen • Q) ∧
    (eval g1ChainOps GV.Gen.Chains.Curve.@C@.g1_mulBySeed_inplace q).Rep b (GV.Gen.CurveConsts.@C@.xGen • Q) :=
  ⟨C03_chain_points g1ChainOps (fun t P => G1Jac.Rep b t P) (fun _ _ _ _ ha hb => C02gen_G1Jac_AddAssign hc ha hb)
      (fun _ _ ha => C02gen_G1Jac_Double hc ha) (fun _ _ ha => C02gen_G1Jac_Neg ha) (fun _ _ ha => C02gen_G1Jac_Double hc ha)
      (fun _ _ ha => ha) _ _ GV.Chain.@C@.g1_mulBySeed_expo q Q hq,
   C03_chain_points g1ChainOps (fun t P => G1Jac.Rep b t P) (fun _ _ _ _ ha hb => C02gen_G1Jac_AddAssign hc ha hb)
      (fun _ _ ha => C02gen_G1Jac_Double hc ha) (fun _ _ ha => C02gen_G1Jac_Neg ha) (fun _ _ ha => C02gen_G1Jac_Double hc ha)
      (fun _ _ ha => ha) _ _ GV.Chain.@C@.g1_mulBySeed_inplace_expo q Q hq⟩
end g1

section g2
variable {F : Type} [Field F] [DecidableEq F] @INST@

/-- the translated G2 point operations as chain operations -/
def g2ChainOps : Ops (G2Jac F) :=
  { mul := fun a b => (G2Jac.AddAssign a b).1, sq := fun a => (G2Jac.Double a).1, inv := fun a => (G2Jac.Neg a).1,
    sqc := fun a => (G2Jac.Double a).1, dec := id }

theorem C03_mulBySeed_G2 (hc : (2 : @K@) ≠ 0) {b : @K@} {q : G2Jac F} {Q : (sw 0 b).Point} (hq : q.Rep b Q) :
    (eval g2ChainOps GV.Gen.Chains.Curve.@C@.g2_mulBySeed q).Rep b (GV.Gen.CurveConsts.@C@.xGen • Q) ∧
    (eval g2ChainOps GV.Gen.Chains.Curve.@C@.g2_mulBySeed_inplace q).Rep b (GV.Gen.CurveConsts.@C@.xGen • Q) :=
  ⟨C03_chain_points g2ChainOps (fun t P => G2Jac.Rep b t P) (fun _ _ _ _ ha hb => C02gen_G2Jac_AddAssign hc ha hb)
      (fun _ _ ha => C02gen_G2Jac_Double hc ha) (fun _ _ ha => C02gen_G2Jac_Neg ha) (fun _ _ ha => C02gen_G2Jac_Double hc ha)
      (fun _ _ ha => ha) _ _ GV.Chain.@C@.g2_mulBySeed_expo q Q hq,
   C03_chain_points g2ChainOps (fun t P => G2Jac.Rep b t P) (fun _ _ _ _ ha hb => C02gen_G2Jac_AddAssign hc ha hb)
      (fun _ _ ha => C02gen_G2Jac_Double hc ha) (fun _ _ ha => C02gen_G2Jac_Neg ha) (fun _ _ ha => C02gen_G2Jac_Double hc ha)
      (fun _ _ ha => ha) _ _ GV.Chain.@C@.g2_mulBySeed_inplace_expo q Q hq⟩
end g2
end GV.Gen.Curve.@C@
"""


def c03_points(pk):
    body, audit, imports = [], [], ""
    for curve, fns in pk.items():
        if curve not in C03P_CURVES or sorted(fns) != ["g1_mulBySeed", "g1_mulBySeed_inplace", "g2_mulBySeed", "g2_mulBySeed_inplace"]:
            sys.exit("mkchains: %s %s: add the C02_gen instantiation data for this curve (C03P_CURVES)" % (curve, fns))
        inst, k = C03P_CURVES[curve]
        imports += "import GnarkVerif.Props.C02_gen_%s\nimport GnarkVerif.Props.C02_gen_%s_g2\n" % (curve, curve)
        body.append(C03P_CURVE.replace("@C@", curve).replace("@INST@", inst).replace("@K@", k))
        audit += ["GV.Gen.Curve.%s.C03_mulBySeed_G1" % curve, "GV.Gen.Curve.%s.C03_mulBySeed_G2" % curve]
    write(os.path.join(PROPS, "C03_chains_points.lean"), C03P_HEAD.replace("@IMPORTS@", imports) + "".join(body))
    au = "import GnarkVerif.Props.C03_chains_points\n" + "".join("#print axioms %s\n" % t for t in audit)
    write(os.path.join(AUDIT, "C03_chains_points.lean"), au)
    print("C03_chains_points: %d theorems" % len(audit))


def curve_chains():
    s = open(os.path.join(GEN, "Chains", "Curve.lean")).read()
    pk = {}
    for m in re.finditer(r'\("(\w+)", "(\w+)", \w+\.\w+\)', s):
        pk.setdefault(m.group(1), []).append(m.group(2))
    w = re.search(r'def windowed : [^\n]* := (\[.*\])', s).group(1)
    return pk, w


def c03():
    pk, w = curve_chains()
    body, audit = [], []
    for curve, fns in pk.items():
        body.append("namespace %s" % curve)
        for fn in fns:
            body.append("/-- `%s` multiplies by `xGen` = |x₀| -/\ntheorem %s_expo : expoInt %s.%s = some GV.Gen.CurveConsts.%s.xGen := by decide +kernel"
                        % (fn.replace("_", " ", 1), fn, curve, fn, curve))
            audit.append("GV.Chain.%s.%s_expo" % (curve, fn))
        body.append("end %s\n" % curve)
    tail = ("/-- the chains covered -/\ntheorem C03_chains_functions : GV.Gen.Chains.Curve.curveChains.map (fun e => (e.1, e.2.1)) = [%s] := by decide\n\n"
            % ", ".join('("%s", "%s")' % (c, f) for c, fns in pk.items() for f in fns))
    tail += ("/-- the `mulBySeed` that are `p.mulWindowed(q, &xGen)` (the generic windowed multiplication by the extracted constant `xGen`; C03 correspondence) -/\n"
             "theorem C03_chains_windowed : GV.Gen.Chains.Curve.windowed = %s := by decide\n\nend GV.Chain\n" % w)
    write(os.path.join(PROPS, "C03_chains.lean"), C03_HEAD + "\n".join(body) + "\n" + tail)
    gen = ["GV.Chain.Sim.eval_spec", "GV.Chain.C03_chain_points", "GV.Chain.C03_chain_addGroup"]
    au = "import GnarkVerif.Props.C03_chains\n" + "".join("#print axioms %s\n" % t for t in gen + audit + ["GV.Chain.C03_chains_functions", "GV.Chain.C03_chains_windowed"])
    write(os.path.join(AUDIT, "C03_chains.lean"), au)
    print("C03_chains: %d curves, %d theorems" % (len(pk), len(gen) + len(audit) + 2))
    c03_points(pk)


# ------------------------------------------------------------------------------------------------ main

if __name__ == "__main__":
    which = sys.argv[1:] or ["C01", "C06", "C03"]
    if "C01" in which:
        c01()
    if "C06" in which:
        c06()
    if "C03" in which:
        c03()
