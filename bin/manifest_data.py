CHECKS = {
 "C10": {
  "technique": "Lean 4 proof (induction on log-size; kernels and stage tables proved equal to the recursion; homomorphism transport to the executed instance) + differential correspondence on 10 fft packages",
  "text": "Theorems over any commutative ring and every size 2^m: DIF FFT = bit-reversed evaluations on the domain/coset, DIT on bit-reversed input = evaluations, inverse∘forward = id for both decimations with/without coset, BitReverse is an involution and equals the index map, the unrolled 32/256 kernels and on-the-fly twiddles from stage 3 do not change the result (options irrelevant), generator order, Domain WriteTo/ReadFrom round-trip independent of reader chunking; C10_driver_instance transports the theorems to the mod-q instance the driver executes. Tied to the Go code of all 10 packages by running both on the same option/size/vector lattice.",
  "note": "Hand model (tie K only); task splitting/goroutines not modelled (nbTasks sweep); cobra bit-reversal variants only by digest; assembly kernels by K only and not executable here (no AVX-512 VBMI2).",
 },
 "C09": {
  "technique": "Lean 4 proof of the dispatch/glue (all lengths, tails, flag values) + correspondence of three build/run configurations against one Lean model",
  "text": "Partial by nature: assembly is never the subject of a theorem (no ISA semantics available). Proved: the Go glue around vector kernels (full blocks to the kernel, tail to portable code, size guards) returns the element-wise specification for every length, tail and feature-flag value given the kernel's block contract, and every operation has one specification (C01). Tied: the same op stream is answered by {default asm, ADX disabled, purego} and each is diffed against the same Lean model output for all 23 fields, vector lengths 0..4*block+tail and sub-slice alignments.",
  "note": "AVX-512 kernels cannot run on this CPU (no avx512vbmi2): not exercised, stated in evidence. ADX switch injected by a build overlay derived from utils/cpu on every run. E2 assembly / FFT / Poseidon2 / SIS kernels are added to the op stream as the corresponding models land.",
 },
 "C01": {
  "technique": "Lean 4 proof (Montgomery/CIOS invariant by induction over words, exponent bits, list lengths; ZMod) + regenerated constants (decide +kernel) + differential correspondence on raw limbs for 23 fields",
  "text": "37 kernel-checked theorems about the value-level model of a generated field package, for every well-formed parameter set (any word size, any number of words, any odd modulus), every canonical operand, every integer exponent and every vector length: the word-serial CIOS product is exact and canonical, add/sub/neg/double/halve/small multiples, Exp over Z, Inverse (0↦0), Div, BatchInvert (Montgomery trick with zeros skipped = map inverse), Legendre (Euler), Sqrt (exact for q≡3 mod 4; Tonelli-Shanks partial), Cmp/LexicographicallyLargest, vector ops. C01_params_ok re-proves on every run that the constants extracted from the 23 packages satisfy the theorems' hypotheses. The model is tied to the Go code (asm or purego, all 23 fields) by comparing raw Montgomery limbs on the boundary lattice and random operands.",
  "note": "Trusted: Lean kernel, Mathlib, axioms propext/Classical.choice/Quot.sound; the constants extractor and the Go harness. Limb-level code (unrolled Go, assembly) is reached by correspondence only; primality of the moduli is a hypothesis; Tonelli-Shanks completeness is conditional on the least non-residue being < 1001 (C01_sqrt_TS).",
 },
 "C15": {
  "technique": "Lean 4 proof (invariant by induction over call histories) + differential correspondence Go vs Lean model",
  "text": "Kernel-checked theorems over an executable model of the transcript for every hash, name list and finite history: refusals leave the state unchanged, computed challenges always form a prefix, every returned challenge equals the sequential specification H(name‖previous‖bindings), recompute is idempotent. The model is tied to fiat-shamir/transcript.go by running both on the same histories (bounded-exhaustive + random, with caller-side mutation of every slice handed in or out).",
  "note": "Trusted: Lean kernel; axioms propext, Classical.choice, Quot.sound; the Go harness and the Lean SHA-256 (itself compared to crypto/sha256). The no-aliasing half is carried by the correspondence only (the model is by-value). Names assumed distinct.",
 },
}
NOT_APPLICABLE = {}
