CHECKS = {
 "C15": {
  "technique": "Lean 4 proof (invariant by induction over call histories) + differential correspondence Go vs Lean model",
  "text": "Kernel-checked theorems over an executable model of the transcript for every hash, name list and finite history: refusals leave the state unchanged, computed challenges always form a prefix, every returned challenge equals the sequential specification H(name‖previous‖bindings), recompute is idempotent. The model is tied to fiat-shamir/transcript.go by running both on the same histories (bounded-exhaustive + random, with caller-side mutation of every slice handed in or out).",
  "note": "Trusted: Lean kernel; axioms propext, Classical.choice, Quot.sound; the Go harness and the Lean SHA-256 (itself compared to crypto/sha256). The no-aliasing half is carried by the correspondence only (the model is by-value). Names assumed distinct.",
 },
}
NOT_APPLICABLE = {}
