#!/usr/bin/env python3
"""bin/kf.py — (re)writes known_findings.json from bin/kf_data.py (single source, reviewed by hand)"""
import json, os, sys
ROOT = os.path.dirname(os.path.dirname(os.path.abspath(__file__)))
sys.path.insert(0, os.path.join(ROOT, "bin"))
from kf_data import FINDINGS
out = []
for f in FINDINGS:
    e = {"property": f["p"], "key": f["key"], "status": f["status"], "what": f["what"]}
    if f["status"] == "fixed":
        e["commit"] = f["commit"]
        e["what"] = "fixed: property=%s %s %s" % (f["p"], f["commit"], f["what"])
    if "match" in f: e["match"] = f["match"]
    if "replay" in f: e["replay"] = f["replay"]
    if "where" in f: e["where"] = f["where"]
    out.append(e)
json.dump({"comment": "Genuine defects of gnark-crypto shown by a failing input against the real code (generated from bin/kf_data.py). status=known: recorded, the check prints KNOWN-FINDING and does not fail for disagreements matching `match` (regexes on the minimised op line, the Go answer and the model answer); any other disagreement of the same property is still a VIOLATION. status=fixed: repaired by a fix: commit in /repo; suppresses nothing.", "findings": out}, open(os.path.join(ROOT, "known_findings.json"), "w"), indent=1)
print(len(out), "findings:", sum(1 for f in out if f["status"] == "known"), "known,", sum(1 for f in out if f["status"] == "fixed"), "fixed")
