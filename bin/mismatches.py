#!/usr/bin/env python3
"""bin/mismatches.py <ID> [ntok] — summarise Go/model disagreements of the last bin/check run of <ID>"""
import sys, os, collections
ROOT = os.path.dirname(os.path.dirname(os.path.abspath(__file__)))
pid = sys.argv[1]; ntok = int(sys.argv[2]) if len(sys.argv) > 2 else 3
w = os.path.join(ROOT, "build", "run", pid)
L = open(os.path.join(w, "ops.txt")).read().split("\n")
M = open(os.path.join(w, "lean.out")).read().split("\n")
for f in sorted(os.listdir(w)):
    if not (f.startswith("go.") and f.endswith(".out")): continue
    G = open(os.path.join(w, f)).read().split("\n")
    c = collections.Counter(); ex = {}
    for i, ln in enumerate(L):
        if not ln: continue
        g = G[i] if i < len(G) else "crash"; m = M[i] if i < len(M) else "model-crash"
        if g != m:
            k = (" ".join(ln.split(" ")[:ntok]), g[:24], m[:24])
            c[k] += 1; ex.setdefault(k, ln)
    print(f, sum(c.values()), "mismatches")
    for k, n in c.most_common(60):
        print("  %5d  %-40s go=%-26s model=%-26s e.g. %s" % (n, k[0], k[1], k[2], ex[k][:150]))
