#!/usr/bin/env python3
"""Instantiates lean/GnarkVerif/Props/C03_gen*.lean (+ Audit/C03_gen.lean) from the per-family proof templates below.

The theorems are about `GV.Gen.CurveConsts.*` (REGENERATED on every run by tools/goslp/curveconsts.go from init() of
ecc/<curve>/<curve>.go and initCurveParams() of the twisted-Edwards packages) and `GV.Gen.*_fp/_fr` (Gen/Fields.lean).
Every proof is a closed kernel computation (`decide +kernel`); nothing here depends on the values, only on which
curve belongs to which family (BN / BLS12 / BLS24 / BW6 / plain) and on the documented loop scalars.
Run once after editing the templates:  python3 bin/mkc03gen.py
"""
import os

ROOT = os.path.dirname(os.path.dirname(os.path.abspath(__file__)))
PROPS = os.path.join(ROOT, "lean", "GnarkVerif", "Props")
AUDIT = os.path.join(ROOT, "lean", "GnarkVerif", "Audit")

HEADER = '''import GnarkVerif.Model.CurveCheck
import GnarkVerif.Gen.CurveConsts
import GnarkVerif.Gen.Fields
/-
C03 (tie T) — %(title)s.  Written by bin/mkc03gen.py; DO NOT EDIT by hand.

Kernel-checked facts about the constants that `tools/goslp/curveconsts.go` re-extracts from the CURRENT Go text on every
run (`GV.Gen.CurveConsts.<curve>.*`: init() of ecc/<curve>/<curve>.go, package comment) and the regenerated moduli
(`GV.Gen.<curve>_fp.q`, `_fr.q`).  Changing one digit of a generator, of thirdRootOneG1, lambdaGLV, xGen, a LoopCounter
entry, the twist … in the Go source breaks the corresponding proof below before any input is run.
The towers F_p² / F_p⁴ (non-residues) are those of `Model/Pairing` (C05/C06); scalar multiplications are the
inversion-free ladders of `Model/CurveCheck` (cross-checked against `Alg.Curve.smulNat` by the `ladder_agrees` theorems).
-/
namespace GV.C03gen
open GV GV.Alg GV.Gen GV.CurveCheck
'''

# ---------------------------------------------------------------------------------------------------------------------
# short Weierstrass

SW_DEFS = '''
namespace %(ns)s
/-! ### %(dir)s -/
def p : Nat := %(ns)s_fp.q
def r : Nat := %(ns)s_fr.q
def E1 : Curve Nat := { F := fp p, a := red p CurveConsts.%(ns)s.aCurveCoeff, b := red p CurveConsts.%(ns)s.bCurveCoeff }
def G1 : Nat × Nat := (red p CurveConsts.%(ns)s.g1Gen_X, red p CurveConsts.%(ns)s.g1Gen_Y)

/-- the package comment states the moduli of the field packages -/
theorem doc_moduli : CurveConsts.%(ns)s.docP = p ∧ CurveConsts.%(ns)s.docR = r := by decide +kernel

/-- the G1 generator literals are canonical (`0 ≤ · < p`, `Z = 1`) -/
theorem g1_literals_canonical :
    (canon p [CurveConsts.%(ns)s.g1Gen_X, CurveConsts.%(ns)s.g1Gen_Y] && CurveConsts.%(ns)s.g1Gen_Z == 1) = true := by decide +kernel

/-- `g1Gen` satisfies `y² = x³ + a·x + b` over F_p and `[r]g1Gen = O` -/
theorem g1_on_curve_and_order_r : genOk E1 r G1 = true := by decide +kernel

/-- the Jacobian ladder used above agrees with the textbook affine law on `[0]G … [5]G` -/
theorem g1_ladder_agrees : ladderAgrees E1 6 G1 = true := by decide +kernel
'''

GLV1 = '''
def ω : Nat := red p CurveConsts.%(ns)s.thirdRootOneG1
def lam : Nat := CurveConsts.%(ns)s.lambdaGLV.toNat

/-- `thirdRootOneG1` is a primitive cube root of unity of F_p (canonical literal) -/
theorem thirdRootOneG1_ok :
    canon p [CurveConsts.%(ns)s.thirdRootOneG1] = true ∧ ω ^ 3 %% p = 1 ∧ ω ≠ 1 := by decide +kernel

/-- `lambdaGLV` is a primitive cube root of unity modulo r: λ² + λ + 1 ≡ 0, λ > 0 -/
theorem lambdaGLV_ok :
    0 < CurveConsts.%(ns)s.lambdaGLV ∧ (lam * lam + lam + 1) %% r = 0 := by decide +kernel
%(lamred)s
/-- eigenvalue relation on the generator: φ(G) = (ω·x, y) = [λ]G -/
theorem glv_g1 : glvOk E1 lam ω G1 = true := by decide +kernel

/-- `init()` derives the GLV lattice from these very constants -/
theorem glvBasis_from_lambda : CurveConsts.%(ns)s.glvBasisFromLambda = true := by decide
'''

LAMRED = '''
/-- `lambdaGLV` is reduced modulo r -/
theorem lambdaGLV_reduced : CurveConsts.%(ns)s.lambdaGLV < r := by decide +kernel
'''
LAMNOTRED = '''
/-- NOT reduced: the literal is x₀⁸ = r + x₀⁴ − 1 ≥ r (the relation above only needs its residue) -/
theorem lambdaGLV_not_reduced : (r : Int) ≤ CurveConsts.%(ns)s.lambdaGLV ∧ CurveConsts.%(ns)s.lambdaGLV < 2 * r := by decide +kernel
'''

G2_DEFS = '''
abbrev τ := %(tau)s
def T : FOps τ := Pairing.%(ns)s.T
def ofL (l : List Int) : τ := %(ofl)s p l
def ξ : τ := %(xi)s
def b' : Option τ :=
  bTwistOf T CurveConsts.%(ns)s.bTwistCurveCoeffExpr (ofL CurveConsts.%(ns)s.bTwistCurveCoeff) ξ (red p CurveConsts.%(ns)s.bCurveCoeff)
def E2 : Curve τ := twistCurve T b'
def G2 : τ × τ := (ofL CurveConsts.%(ns)s.g2Gen_X, ofL CurveConsts.%(ns)s.g2Gen_Y)

/-- shape of the G2 literals: degree of the twist field, canonical coordinates, `Z = 1` -/
theorem g2_literals_canonical :
    (CurveConsts.%(ns)s.degTwist == %(deg)d
      && CurveConsts.%(ns)s.g2Gen_X.length == %(deg)d && CurveConsts.%(ns)s.g2Gen_Y.length == %(deg)d
      && canon p (CurveConsts.%(ns)s.g2Gen_X ++ CurveConsts.%(ns)s.g2Gen_Y)
      && CurveConsts.%(ns)s.g2Gen_Z == 1 :: List.replicate (%(deg)d - 1) 0) = true := by decide +kernel

/-- `bTwistCurveCoeff` is computed by a form the model knows, the twist is %(twistkind)s -/
theorem bTwist_known : b'.isSome = true ∧ CurveConsts.%(ns)s.bTwistCurveCoeffExpr = %(btexpr)s := by decide +kernel

/-- `g2Gen` lies on the twist `y² = x³ + b'` over %(fieldname)s and `[r]g2Gen = O` -/
theorem g2_on_curve_and_order_r : genOk E2 r G2 = true := by decide +kernel

theorem g2_ladder_agrees : ladderAgrees E2 4 G2 = true := by decide +kernel

/-- `thirdRootOneG2 = thirdRootOneG1²` (as `init()` computes it) acts on G2 as [λ] -/
theorem glv_g2 :
    CurveConsts.%(ns)s.thirdRootOneG2Expr = "Square(thirdRootOneG1)" ∧ glvOk E2 lam (T.ofNat (ω * ω %% p)) G2 = true := by
  decide +kernel
'''

ENDO = '''
/-- `endo.u`, `endo.v` are the Frobenius-twist coefficients ξ^((p−1)/3), ξ^((p−1)/2) (inverted on an M-twist) -/
theorem endo_ok :
    (CurveConsts.%(ns)s.endo_u.length == %(deg)d && CurveConsts.%(ns)s.endo_v.length == %(deg)d
      && canon p (CurveConsts.%(ns)s.endo_u ++ CurveConsts.%(ns)s.endo_v)
      && endoOk T ξ p %(mtwist)s (ofL CurveConsts.%(ns)s.endo_u) (ofL CurveConsts.%(ns)s.endo_v)) = true := by decide +kernel
'''

PAIRING_TIE = '''
/-- the hand-written curve table of `Model/Pairing` (C05) carries the same constants as the Go source -/
theorem pairing_model_constants :
    Pairing.%(ns)s.p = p ∧ Pairing.%(ns)s.r = r ∧ Pairing.%(ns)s.b %% p = red p CurveConsts.%(ns)s.bCurveCoeff
      ∧ Pairing.%(ns)s.g1 = G1 ∧ Pairing.%(ns)s.g2 = G2 ∧ Pairing.%(ns)s.mTwist = %(mtwist)s
      ∧ (T.beq Pairing.%(ns)s.bT (b'.getD T.zero)) = true%(xitie)s := by
  decide +kernel
'''

SEED_DOC = '''
/-- the seed: `xGen` is %(sgn)sx₀ of the package comment -/
theorem seed_doc : CurveConsts.%(ns)s.docSeed = %(sgn)sCurveConsts.%(ns)s.xGen ∧ 0 < CurveConsts.%(ns)s.xGen := by decide +kernel
'''

SEED_BN = '''
/-- BN parametrisation: p = 36x⁴+36x³+24x²+6x+1, r = 36x⁴+36x³+18x²+6x+1, λ = 36x³+18x²+6x+1 -/
theorem seed_relations :
    let x := CurveConsts.%(ns)s.docSeed
    (p : Int) = 36*x^4 + 36*x^3 + 24*x^2 + 6*x + 1 ∧ (r : Int) = 36*x^4 + 36*x^3 + 18*x^2 + 6*x + 1
      ∧ CurveConsts.%(ns)s.lambdaGLV = 36*x^3 + 18*x^2 + 6*x + 1 := by decide +kernel

/-- `LoopCounter` = NAF of 6x₀+2: fits the declared array, digits in {−1,0,1}, Σ dᵢ·2ⁱ = 6x₀+2 -/
theorem loopCounter_ok :
    loopOk CurveConsts.%(ns)s.LoopCounterLen CurveConsts.%(ns)s.LoopCounterIsNaf CurveConsts.%(ns)s.LoopCounterNafOf
      CurveConsts.%(ns)s.LoopCounter (6 * CurveConsts.%(ns)s.docSeed + 2) = true := by decide +kernel

theorem pairing_model_loop : loopCode Pairing.%(ns)s.loop = [0, CurveConsts.%(ns)s.docSeed] := by decide +kernel
'''

SEED_BLS12 = '''
/-- BLS12 parametrisation: r = x⁴ − x² + 1, p = (x−1)²·r/3 + x, λ = x² − 1 -/
theorem seed_relations :
    let x := CurveConsts.%(ns)s.docSeed
    (r : Int) = x^4 - x^2 + 1 ∧ 3 * ((p : Int) - x) = (x - 1)^2 * r ∧ CurveConsts.%(ns)s.lambdaGLV = x^2 - 1 := by decide +kernel

/-- `LoopCounter` (literal): declared length, digits in {−1,0,1}, Σ dᵢ·2ⁱ = |x₀| = xGen -/
theorem loopCounter_ok :
    loopOk CurveConsts.%(ns)s.LoopCounterLen CurveConsts.%(ns)s.LoopCounterIsNaf CurveConsts.%(ns)s.LoopCounterNafOf
      CurveConsts.%(ns)s.LoopCounter CurveConsts.%(ns)s.xGen = true := by decide +kernel

theorem pairing_model_loop : loopCode Pairing.%(ns)s.loop = [1, CurveConsts.%(ns)s.docSeed] := by decide +kernel
'''

SEED_BLS24 = '''
/-- BLS24 parametrisation: r = x⁸ − x⁴ + 1, p = (x−1)²·r/3 + x, λ = x⁸ (≡ x⁴ − 1 mod r).
(The package comment says `r = x₀^8-x₀^4+2`; that formula does NOT hold, see `doc_r_formula_wrong`.) -/
theorem seed_relations :
    let x := CurveConsts.%(ns)s.docSeed
    (r : Int) = x^8 - x^4 + 1 ∧ 3 * ((p : Int) - x) = (x - 1)^2 * r ∧ CurveConsts.%(ns)s.lambdaGLV = x^8 := by decide +kernel

theorem doc_r_formula_wrong : (r : Int) ≠ CurveConsts.%(ns)s.docSeed^8 - CurveConsts.%(ns)s.docSeed^4 + 2 := by decide +kernel

/-- `LoopCounter` = NAF of |x₀| = xGen -/
theorem loopCounter_ok :
    loopOk CurveConsts.%(ns)s.LoopCounterLen CurveConsts.%(ns)s.LoopCounterIsNaf CurveConsts.%(ns)s.LoopCounterNafOf
      CurveConsts.%(ns)s.LoopCounter CurveConsts.%(ns)s.xGen = true := by decide +kernel

theorem pairing_model_loop : loopCode Pairing.%(ns)s.loop = [1, CurveConsts.%(ns)s.docSeed] := by decide +kernel
'''

SEED_BW6 = '''
/-- two-chain: the scalar field of %(ns)s is the base field of %(inner)s, same seed -/
theorem two_chain :
    r = %(inner)s_fp.q ∧ CurveConsts.%(ns)s.docSeed = CurveConsts.%(inner)s.docSeed
      ∧ CurveConsts.%(ns)s.lambdaGLV = CurveConsts.%(inner)s.thirdRootOneG1 := by decide +kernel

/-- λ is the documented polynomial in the seed (%(lamdoc)s)%(lammod)s -/
theorem lambdaGLV_doc :
    let x := CurveConsts.%(ns)s.docSeed
    %(lamrel)s := by decide +kernel

/-- the two Miller-loop counters (comments of init() / pairing.go): `LoopCounter` ↔ %(l0doc)s, `LoopCounter1` ↔ %(l1doc)s -/
theorem loopCounters_ok :
    let x := CurveConsts.%(ns)s.docSeed
    (loopOk CurveConsts.%(ns)s.LoopCounterLen CurveConsts.%(ns)s.LoopCounterIsNaf CurveConsts.%(ns)s.LoopCounterNafOf
        CurveConsts.%(ns)s.LoopCounter (%(l0)s)
      && loopOk CurveConsts.%(ns)s.LoopCounter1Len CurveConsts.%(ns)s.LoopCounter1IsNaf CurveConsts.%(ns)s.LoopCounter1NafOf
        CurveConsts.%(ns)s.LoopCounter1 (%(l1)s)
      && CurveConsts.%(ns)s.LoopCounterLen == CurveConsts.%(ns)s.LoopCounter1Len) = true := by decide +kernel

/-- `pairing.go`: "cases -4, -2, 2, 4 do not occur, given the static LoopCounters": 3·LoopCounter1[i] + LoopCounter[i] ∈ {−3,−1,0,1,3} -/
theorem loopCounters_joint_cases :
    (match loopArray CurveConsts.%(ns)s.LoopCounterLen CurveConsts.%(ns)s.LoopCounterIsNaf CurveConsts.%(ns)s.LoopCounterNafOf CurveConsts.%(ns)s.LoopCounter,
           loopArray CurveConsts.%(ns)s.LoopCounter1Len CurveConsts.%(ns)s.LoopCounter1IsNaf CurveConsts.%(ns)s.LoopCounter1NafOf CurveConsts.%(ns)s.LoopCounter1 with
     | some l0, some l1 => (List.zipWith (fun a b => 3 * b + a) l0 l1).all (fun j => j == -3 || j == -1 || j == 0 || j == 1 || j == 3)
     | _, _ => false) = true := by decide +kernel

theorem pairing_model_loop :
    let x := CurveConsts.%(ns)s.docSeed
    loopCode Pairing.%(ns)s.loop = %(ploop)s := by decide +kernel
'''

CROSS_GRUMPKIN = '''
/-- grumpkin is the bn254 cycle partner: fields swapped, cube roots swapped, same seed -/
theorem cycle_with_bn254 :
    p = bn254_fr.q ∧ r = bn254_fp.q ∧ CurveConsts.grumpkin.xGen = CurveConsts.bn254.xGen
      ∧ CurveConsts.grumpkin.thirdRootOneG1 = CurveConsts.bn254.lambdaGLV
      ∧ CurveConsts.grumpkin.lambdaGLV = CurveConsts.bn254.thirdRootOneG1 := by decide +kernel
'''

END = '''
end %(ns)s
'''

# ---------------------------------------------------------------------------------------------------------------------
# twisted Edwards

TE = '''
namespace %(ns)s
/-! ### %(dir)s (over the scalar field of %(outer)s) -/
def q : Nat := %(outer)s_fr.q
def E : TECurve := { q := q, a := red q CurveConsts.%(ns)s.A, d := red q CurveConsts.%(ns)s.D }
def B : Nat × Nat := (red q CurveConsts.%(ns)s.BaseX, red q CurveConsts.%(ns)s.BaseY)
def n : Nat := CurveConsts.%(ns)s.Order.toNat
def h : Nat := CurveConsts.%(ns)s.Cofactor.toNat

/-- literals: `D`, `Base`, `Order`, `Cofactor` canonical / positive; a, d non-zero, a ≠ d -/
theorem params_ok :
    (canon q [CurveConsts.%(ns)s.D, CurveConsts.%(ns)s.BaseX, CurveConsts.%(ns)s.BaseY]
      && decide (0 < CurveConsts.%(ns)s.Order) && decide (0 < CurveConsts.%(ns)s.Cofactor)
      && E.a != 0 && E.d != 0 && E.a != E.d) = true := by decide +kernel

/-- `Base` satisfies a·x² + y² = 1 + d·x²y², is not the identity and `[Order]Base = (0,1)` -/
theorem base_on_curve_and_order : teGenOk E n B = true := by decide +kernel

/-- the projective ladder used above agrees with the textbook affine law on `[0]B … [5]B` -/
theorem ladder_agrees : teLadderAgrees E 6 B = true := by decide +kernel

/-- `Cofactor·Order` lies in the Hasse interval of F_q, and `Order² > 16 q`: a group of order divisible by the
(prime) `Order` has exactly this order -/
theorem cofactor_order_hasse :
    (((h * n : Nat) : Int) - (q + 1)) ^ 2 ≤ 4 * q ∧ 16 * q < n * n ∧ h %% 4 = 0 := by decide +kernel
%(extra)s
end %(ns)s
'''

BANDER = '''
def lam : Nat := CurveConsts.te_bandersnatch.lambda.toNat

/-- `endo[0]`, `endo[1]`, `lambda` canonical; λ² ≡ −2 (mod Order) as documented in endomorpism.go -/
theorem lambda_ok :
    (canon q [CurveConsts.te_bandersnatch.endo0, CurveConsts.te_bandersnatch.endo1]
      && canon n [CurveConsts.te_bandersnatch.lambda] && (lam * lam + 2) % n == 0
      && CurveConsts.te_bandersnatch.glvBasisFromLambda) = true := by decide +kernel

/-- eigenvalue relation on the base point: `phi(Base)` (formulas of endomorpism.go with Z = 1) = [λ]Base -/
theorem phi_is_lambda :
    teEq E (bandersnatchPhi E (red q CurveConsts.te_bandersnatch.endo0) (red q CurveConsts.te_bandersnatch.endo1) B) (teSmul E lam B) = true := by
  decide +kernel
'''

# ---------------------------------------------------------------------------------------------------------------------

def sw(ns, dir_, glv=True, lamred=True):
    d = {"ns": ns, "dir": dir_}
    s = SW_DEFS % d
    if glv:
        d["lamred"] = (LAMRED if lamred else LAMNOTRED) % d
        s += GLV1 % d
    return s


def g2(ns, deg, mtwist, btexpr, twistkind):
    tau = {1: "Nat", 2: "Pairing.T2", 4: "Pairing.T4"}[deg]
    ofl = {1: "toT1", 2: "toT2", 4: "toT4"}[deg]
    d = {"ns": ns, "deg": deg, "tau": tau, "ofl": ofl, "mtwist": "true" if mtwist else "false",
         "btexpr": '"%s"' % btexpr, "twistkind": twistkind,
         "fieldname": {1: "F_p", 2: "F_p²", 4: "F_p⁴"}[deg],
         "xi": ("ofL CurveConsts.%s.twist" % ns) if deg > 1 else "T.zero",
         "xitie": (" ∧ Pairing.%s.xi = ξ ∧ CurveConsts.%s.twist.length = %d" % (ns, ns, deg)) if deg > 1 else ""}
    s = G2_DEFS % d
    if deg > 1:
        s += ENDO % d
    s += PAIRING_TIE % d
    return s


def seed_doc(ns, neg):
    return SEED_DOC % {"ns": ns, "sgn": "-" if neg else ""}


FILES = {}

FILES["C03_gen_sw"] = ("bn254, grumpkin, secp256k1, stark-curve", "".join([
    sw("bn254", "ecc/bn254"), g2("bn254", 2, False, "Inverse(twist).MulByElement(bTwistCurveCoeff,bCurveCoeff)", "D-type: b' = b/ξ"),
    seed_doc("bn254", False), SEED_BN % {"ns": "bn254"}, END % {"ns": "bn254"},
    sw("grumpkin", "ecc/grumpkin"), CROSS_GRUMPKIN, END % {"ns": "grumpkin"},
    sw("secp256k1", "ecc/secp256k1"), END % {"ns": "secp256k1"},
    sw("stark_curve", "ecc/stark-curve", glv=False), END % {"ns": "stark_curve"},
]))

FILES["C03_gen_bls12"] = ("bls12-377, bls12-381", "".join([
    sw("bls12_377", "ecc/bls12-377"), g2("bls12_377", 2, False, "Inverse(twist)", "D-type: b' = b/ξ (b = 1)"),
    seed_doc("bls12_377", False), SEED_BLS12 % {"ns": "bls12_377"}, END % {"ns": "bls12_377"},
    sw("bls12_381", "ecc/bls12-381"), g2("bls12_381", 2, True, "MulByElement(twist,bCurveCoeff)", "M-type: b' = b·ξ"),
    seed_doc("bls12_381", True), SEED_BLS12 % {"ns": "bls12_381"}, END % {"ns": "bls12_381"},
]))

FILES["C03_gen_bls24"] = ("bls24-315, bls24-317", "".join([
    sw("bls24_315", "ecc/bls24-315", lamred=False), g2("bls24_315", 4, False, "Inverse(twist)", "D-type: b' = b/ξ (b = 1)"),
    seed_doc("bls24_315", True), SEED_BLS24 % {"ns": "bls24_315"}, END % {"ns": "bls24_315"},
    sw("bls24_317", "ecc/bls24-317", lamred=False), g2("bls24_317", 4, True, "MulByElement(twist,bCurveCoeff)", "M-type: b' = b·ξ"),
    seed_doc("bls24_317", False), SEED_BLS24 % {"ns": "bls24_317"}, END % {"ns": "bls24_317"},
]))

FILES["C03_gen_bw6"] = ("bw6-633, bw6-761", "".join([
    sw("bw6_633", "ecc/bw6-633"), g2("bw6_633", 1, True, "literal", "given as a literal of F_p (M-type)"),
    seed_doc("bw6_633", True),
    SEED_BW6 % {"ns": "bw6_633", "inner": "bls24_315",
                "lamdoc": "1−x+2x²−2x³+3x⁵−4x⁶+4x⁷−3x⁸+x⁹", "lammod": "; the polynomial is negative at x₀ < 0, the literal is its residue mod r",
                "lamrel": "CurveConsts.bw6_633.lambdaGLV = (1 - x + 2*x^2 - 2*x^3 + 3*x^5 - 4*x^6 + 4*x^7 - 3*x^8 + x^9) + r",
                "l0doc": "−(x₀+1)", "l1doc": "−(x₀⁵−x₀⁴−x₀)", "l0": "-(x + 1)", "l1": "-(x^5 - x^4 - x)",
                "ploop": "[2, x ^ 5 - x ^ 4 - x, x + 1]"},
    END % {"ns": "bw6_633"},
    sw("bw6_761", "ecc/bw6-761"), g2("bw6_761", 1, True, "literal", "given as a literal of F_p (M-type)"),
    seed_doc("bw6_761", False),
    SEED_BW6 % {"ns": "bw6_761", "inner": "bls12_377",
                "lamdoc": "x⁵−3x⁴+3x³−x+1", "lammod": "",
                "lamrel": "CurveConsts.bw6_761.lambdaGLV = x^5 - 3*x^4 + 3*x^3 - x + 1",
                "l0doc": "x₀+1", "l1doc": "x₀³−x₀²−x₀", "l0": "x + 1", "l1": "x^3 - x^2 - x",
                "ploop": "[2, x + 1, x ^ 3 - x ^ 2 - x]"},
    END % {"ns": "bw6_761"},
]))

TES = [("te_bn254", "ecc/bn254/twistededwards", "bn254"), ("te_bls12_377", "ecc/bls12-377/twistededwards", "bls12_377"),
       ("te_bls12_381", "ecc/bls12-381/twistededwards", "bls12_381"), ("te_bandersnatch", "ecc/bls12-381/bandersnatch", "bls12_381"),
       ("te_bls24_315", "ecc/bls24-315/twistededwards", "bls24_315"), ("te_bls24_317", "ecc/bls24-317/twistededwards", "bls24_317"),
       ("te_bw6_633", "ecc/bw6-633/twistededwards", "bw6_633"), ("te_bw6_761", "ecc/bw6-761/twistededwards", "bw6_761")]
FILES["C03_gen_te"] = ("twisted Edwards companion curves and bandersnatch", "".join(
    TE % {"ns": ns, "dir": d, "outer": o, "extra": BANDER if ns == "te_bandersnatch" else ""} for ns, d, o in TES))


# ---------------------------------------------------------------------------------------------------------------------
# C04: MSM dispatch

C04_HEADER = """import GnarkVerif.Model.MSM
import GnarkVerif.Model.CurveCheck
import GnarkVerif.Gen.CurveConsts
import GnarkVerif.Gen.Fields
/-
C04 (tie T) — the MSM dispatch constants.  Written by bin/mkc03gen.py; DO NOT EDIT by hand.

`Model/MSM.curveCfgs` (implementedCs, case labels of getChunkProcessor, batch sizes, default window) is a hand-written
table.  `tools/goslp/curveconsts.go` re-extracts the same data from multiexp.go / multiexp_affine.go /
multiexp_jacobian.go / g1.go / g2.go of every curve package on every run (`GV.Gen.CurveConsts.<curve>.*`); the theorems
below state that the two agree, so a change of the window set, of a case label, of a batch size or of a bucket-array
length in the Go source breaks a proof instead of silently diverging from the model that C04's theorems are about.
-/
namespace GV.C04gen
open GV GV.MSM GV.Gen GV.CurveCheck

/-- what the model keeps of one curve: (implementedCs, case labels, (label, batchSize), bucket count of `default:`, fr.Bits, fr.Limbs) -/
def modelRow (name : String) : Option (List Nat × List Nat × List (Nat × Nat) × Nat × Nat × Nat) :=
  (curveCfgs.lookup name).map (fun c => (c.cs, c.procCases, c.batchCases, 2 ^ (c.defaultCase - 1), c.bits, c.limbs))

/-- every bucket array `bucket…C<c>` has 2^(c−1) entries -/
def halfWindows (l : List (Nat × Nat)) : Bool := l.all (fun cn => cn.2 == 2 ^ (cn.1 - 1))

/-- the dispatch is total on what `_innerMsm` asks for: `implementedCs` is non-empty and strictly increasing, every `c` has
its own case, `lastC(c)` has a case or fits the bucket array of `default:`, and both fit the digit type of partitionScalars -/
def dispatchOk (bits digitBits : Nat) (cs labels : List Nat) (dfltBuckets : Nat) : Bool :=
  !cs.isEmpty && strictlySorted cs && strictlySorted labels &&
  cs.all (fun c => labels.contains c && c ≤ digitBits && 1 ≤ lastC bits c && lastC bits c ≤ digitBits
    && (labels.contains (lastC bits c) || 2 ^ (lastC bits c - 1) ≤ dfltBuckets))

/-- the text the model functions `MSM.computeNbChunks` / `MSM.lastC` were transcribed from -/
def computeNbChunksText : String := "func computeNbChunks(c uint64) uint64 {\\nreturn (fr.Bits + c - 1) / c\\n}"
def lastCText : String :=
  "func lastC(c uint64) uint64 {\\nnbAvailableBits := (computeNbChunks(c) * c) - fr.Bits\\nreturn c + 1 - nbAvailableBits\\n}"
"""

C04_CURVE = """
namespace %(ns)s
/-! ### %(dir)s -/

/-- `MSM.curveCfgs` row "%(go)s" = the lists extracted from (*G1Jac).MultiExp / getChunkProcessorG1 and fr.Bits / fr.Limbs -/
theorem model_table_matches :
    modelRow "%(go)s" = some (CurveConsts.%(ns)s.implementedCsG1, CurveConsts.%(ns)s.switchLabelsG1, CurveConsts.%(ns)s.batchSizesG1,
      CurveConsts.%(ns)s.defaultBucketsG1, %(ns)s_fr.bits, %(ns)s_fr.limbs) := by decide +kernel

/-- bucket arrays: one Jacobian array per case label, one affine array per batch-affine case, all of 2^(c−1) entries -/
theorem buckets_ok :
    (CurveConsts.%(ns)s.jacBucketsG1.map (·.1) == CurveConsts.%(ns)s.switchLabelsG1
      && CurveConsts.%(ns)s.affBucketsG1.map (·.1) == CurveConsts.%(ns)s.batchSizesG1.map (·.1)
      && halfWindows CurveConsts.%(ns)s.jacBucketsG1 && halfWindows CurveConsts.%(ns)s.affBucketsG1
      && CurveConsts.%(ns)s.batchSizesG1.all (fun cb => 0 < cb.2 && cb.2 ≤ 2 ^ (cb.1 - 1))) = true := by decide +kernel

/-- every implemented window and its last window are dispatched to a large enough bucket array; digits fit `uint%(db)d` -/
theorem dispatch_ok :
    dispatchOk %(ns)s_fr.bits CurveConsts.%(ns)s.digitBits CurveConsts.%(ns)s.implementedCsG1 CurveConsts.%(ns)s.switchLabelsG1
      CurveConsts.%(ns)s.defaultBucketsG1 = true ∧ CurveConsts.%(ns)s.digitBits = %(db)d := by decide +kernel

/-- literal bounds the model hard-codes: `config.NbTasks > 1024`; BatchScalarMultiplication searches c in 2..16 skipping lastC(c) > 16 -/
theorem literal_bounds :
    CurveConsts.%(ns)s.nbTasksMaxG1 = 1024 ∧ CurveConsts.%(ns)s.bsmCMinG1 = 2 ∧ CurveConsts.%(ns)s.bsmCMaxG1 = 16
      ∧ CurveConsts.%(ns)s.bsmLastCGuardG1 = CurveConsts.%(ns)s.digitBits := by decide +kernel

/-- `computeNbChunks` and `lastC` still read as the text `MSM.computeNbChunks` / `MSM.lastC` model -/
theorem window_functions_text :
    CurveConsts.%(ns)s.computeNbChunksSrc = computeNbChunksText ∧ CurveConsts.%(ns)s.lastCSrc = lastCText := by decide +kernel
%(g2)s
end %(ns)s
"""

C04_G2 = """
/-- the G2 copy of the dispatch carries the same constants (the model has one row per curve) -/
theorem g2_same_as_g1 :
    CurveConsts.%(ns)s.implementedCsG2 = CurveConsts.%(ns)s.implementedCsG1 ∧ CurveConsts.%(ns)s.switchLabelsG2 = CurveConsts.%(ns)s.switchLabelsG1
      ∧ CurveConsts.%(ns)s.batchSizesG2 = CurveConsts.%(ns)s.batchSizesG1 ∧ CurveConsts.%(ns)s.jacBucketsG2 = CurveConsts.%(ns)s.jacBucketsG1
      ∧ CurveConsts.%(ns)s.affBucketsG2 = CurveConsts.%(ns)s.affBucketsG1 ∧ CurveConsts.%(ns)s.defaultBucketsG2 = CurveConsts.%(ns)s.defaultBucketsG1
      ∧ CurveConsts.%(ns)s.nbTasksMaxG2 = CurveConsts.%(ns)s.nbTasksMaxG1 ∧ CurveConsts.%(ns)s.bsmCMinG2 = CurveConsts.%(ns)s.bsmCMinG1
      ∧ CurveConsts.%(ns)s.bsmCMaxG2 = CurveConsts.%(ns)s.bsmCMaxG1 ∧ CurveConsts.%(ns)s.bsmLastCGuardG2 = CurveConsts.%(ns)s.bsmLastCGuardG1 := by
  decide +kernel
"""

C04_TAIL = """
/-- the model table has exactly the nine MSM packages -/
theorem model_table_names :
    curveCfgs.map (·.1) = ["bn254", "bls12-377", "bls12-381", "bls24-315", "bls24-317", "bw6-633", "bw6-761", "grumpkin", "secp256k1"] := by
  decide +kernel

end GV.C04gen
"""

MSM = [("bn254", "bn254", True), ("bls12_377", "bls12-377", True), ("bls12_381", "bls12-381", True), ("bls24_315", "bls24-315", True),
       ("bls24_317", "bls24-317", True), ("bw6_633", "bw6-633", True), ("bw6_761", "bw6-761", True), ("grumpkin", "grumpkin", False),
       ("secp256k1", "secp256k1", False)]


def c04():
    body = ""
    for ns, go, has_g2 in MSM:
        d = {"ns": ns, "go": go, "dir": "ecc/" + go, "db": 16}
        d["g2"] = (C04_G2 % d) if has_g2 else ""
        body += C04_CURVE % d
    with open(os.path.join(PROPS, "C04_gen.lean"), "w") as fh:
        fh.write(C04_HEADER + body + C04_TAIL)
    names = [n.replace("GV.C03gen", "GV.C04gen") for n in theorems(body)] + ["GV.C04gen.model_table_names"]
    with open(os.path.join(AUDIT, "C04_gen.lean"), "w") as fh:
        fh.write("import GnarkVerif.Props.C04_gen\n/- axiom audit of the C04 (tie T) theorems; written by bin/mkc03gen.py -/\n")
        fh.write("".join("#print axioms %s\n" % n for n in names))
    print("C04_gen: %d theorems" % len(names))


def theorems(body):
    """fully qualified names of the theorems of a generated body"""
    out, stack = [], []
    for ln in body.split("\n"):
        if ln.startswith("namespace "):
            stack.append(ln.split()[1])
        elif ln.startswith("end ") and stack and ln.split()[1] == stack[-1]:
            stack.pop()
        elif ln.startswith("theorem "):
            out.append(".".join(["GV.C03gen"] + stack + [ln.split()[1]]))
    return out


def main():
    names = []
    for f, (title, body) in FILES.items():
        with open(os.path.join(PROPS, f + ".lean"), "w") as fh:
            fh.write(HEADER % {"title": title} + body + "\nend GV.C03gen\n")
        names += theorems(body)
    with open(os.path.join(PROPS, "C03_gen.lean"), "w") as fh:
        fh.write("".join("import GnarkVerif.Props.%s\n" % f for f in FILES))
        fh.write("/- C03 (tie T): theorems about the regenerated curve constants; the per-family files are written by bin/mkc03gen.py -/\n")
    with open(os.path.join(AUDIT, "C03_gen.lean"), "w") as fh:
        fh.write("import GnarkVerif.Props.C03_gen\n/- axiom audit of the C03 (tie T) theorems; written by bin/mkc03gen.py -/\n")
        fh.write("".join("#print axioms %s\n" % n for n in names))
    print("C03_gen: %d theorems in %d files" % (len(names), len(FILES)))
    c04()


if __name__ == "__main__":
    main()
