#!/usr/bin/env python3
"""bin/adddriver.py <ModelModule> '<dispatch line>' [PropsId]  — adds an import + dispatch line to lean/Driver.lean and a root import"""
import sys, os
ROOT = os.path.dirname(os.path.dirname(os.path.abspath(__file__)))
mod, line = sys.argv[1], sys.argv[2]
p = os.path.join(ROOT, "lean", "Driver.lean")
s = open(p).read()
imp = "import GnarkVerif.Model.%s\n" % mod
if imp not in s:
    s = s.replace("/-\nLine-protocol driver", imp + "/-\nLine-protocol driver", 1)
if line not in s:
    s = s.replace('  | _ => "bad-op"\n\npartial def loop', "  " + line + '\n  | _ => "bad-op"\n\npartial def loop', 1)
open(p, "w").write(s)
if len(sys.argv) > 3:
    r = os.path.join(ROOT, "lean", "GnarkVerif.lean")
    t = open(r).read()
    imp2 = "import GnarkVerif.Props.%s\n" % sys.argv[3]
    if imp2 not in t:
        open(r, "w").write(t + imp2)
