#!/usr/bin/env python3
"""bin/mkc13gen.py — writes lean/GnarkVerif/Props/C13_gen*.lean and Audit/C13_gen.lean.

The theorems are about the hash-to-curve defs that tools/goslp regenerates from the Go source (Gen/H2C/<Pkg>.lean).
This script only instantiates two proof templates (SvdW: bn254, grumpkin, secp256k1, stark-curve; SSWU + isogeny:
bls12-381, bls12-377, bls24-315, bls24-317, bw6-761, bw6-633) with the constants it reads from the GENERATED Lean files
and with arithmetic witnesses (multiples of the modulus, modular square roots, Bezout coefficients, the cofactor
polynomial of the isogeny identity) that it computes; every witness is re-checked by the Lean kernel, so a wrong
witness or a changed Go constant makes `lake build` fail. Run it after gvgoslp when the Go constants change.
"""
import os, re, sys

ROOT = os.path.dirname(os.path.dirname(os.path.abspath(__file__)))
GEN = os.path.join(ROOT, "lean", "GnarkVerif", "Gen")
PROPS = os.path.join(ROOT, "lean", "GnarkVerif", "Props")
AUDIT = os.path.join(ROOT, "lean", "GnarkVerif", "Audit")

W64 = 18446744073709551616


def field_q(name):
    src = open(os.path.join(GEN, "Fields.lean")).read()
    m = re.search(r"def %s : FieldConsts := \{.*?\bq := (\d+)" % name, src, re.S)
    return int(m.group(1))


def sqrt_mod(a, p):
    """Tonelli-Shanks; None when a is not a square"""
    a %= p
    if a == 0:
        return 0
    if pow(a, (p - 1) // 2, p) != 1:
        return None
    if p % 4 == 3:
        return pow(a, (p + 1) // 4, p)
    s, t = 0, p - 1
    while t % 2 == 0:
        s, t = s + 1, t // 2
    z = 2
    while pow(z, (p - 1) // 2, p) != p - 1:
        z += 1
    m, c, u, r = s, pow(z, t, p), pow(a, t, p), pow(a, (t + 1) // 2, p)
    while u != 1:
        i, v = 0, u
        while v != 1:
            v, i = v * v % p, i + 1
        b = pow(c, 1 << (m - i - 1), p)
        m, c = i, b * b % p
        u, r = u * c % p, r * b % p
    return r


def mod_name(pkg):
    return pkg[0].upper() + pkg[1:]


# ------------------------------------------------------------------------------------------------ SvdW

SVDW = [  # package, Go directory, field
    ("bn254", "bn254", "bn254_fp"),
    ("grumpkin", "grumpkin", "grumpkin_fp"),
    ("secp256k1", "secp256k1", "secp256k1_fp"),
    ("stark_curve", "stark-curve", "stark_curve_fp"),
]


def svdw_file(pkg, godir, field):
    src = open(os.path.join(GEN, "H2C", mod_name(pkg) + ".lean")).read()
    body = re.search(r"\ndef MapToCurve1 .*?\n\n", src, re.S).group(0)
    num = lambda pat: int(re.search(pat, body).group(1))
    c1 = num(r"tv1_2 := tv1_1 \* \(\((\d+) : Nat\) : F\)")
    c3 = num(r"tv4_3 := tv4_2 \* \(\((\d+) : Nat\) : F\)")
    c2 = num(r"x1_1 := \(\((\d+) : Nat\) : F\) - tv4_3")
    c4 = num(r"x3_4 := x3_3 \* \(\((\d+) : Nat\) : F\)")
    Z = num(r"x3_5 := x3_4 \+ \(\((\d+) : Nat\) : F\)")
    A = 1 if "gx1_2 := gx1_1 + (1 : F)" in body else 0
    sgn = re.search(r"ret_1 := \((\w+) u toNat\)\.1", body).group(1)
    q = field_q(field)
    b = (c1 - (Z * Z + A) * Z) % q
    h = 3 * Z * Z + 4 * A

    def mult(v):
        assert v % q == 0 and v >= 0, "constant relation does not hold"
        return v // q

    k1 = mult((Z * Z + A) * Z + b - c1)
    k2 = mult(2 * c2 + Z)
    k3 = mult(c3 * c3 + c1 * h)
    k4 = mult(c4 * h + 4 * c1)
    s4 = sqrt_mod(c4, q)
    assert s4 is not None, "c4 is not a square"
    ks4 = mult(s4 * s4 - c4)
    s1 = sqrt_mod(c1, q)
    if s1 is not None:
        zsq = f"""  z_sq := by
    left
    refine ⟨(({s1} : Nat) : F), ?_⟩
    have h := natCast_eq_of_eq_add_mul (F := F) q ({s1} * {s1}) {c1} {mult(s1 * s1 - c1)} hq rfl
    simp only [P]; push_cast at h ⊢; linear_combination -h"""
    else:
        g2 = ((c2 * c2 + A) * c2 + b) % q
        s2 = sqrt_mod(g2, q)
        assert s2 is not None, "neither g(Z) nor g(-Z/2) is a square"
        zsq = f"""  z_sq := by
    right
    refine ⟨(({s2} : Nat) : F), ?_⟩
    have h1 := natCast_eq_of_eq_add_mul (F := F) q ({s2} * {s2}) {g2} {mult(s2 * s2 - g2)} hq rfl
    have h2 := natCast_eq_of_eq_add_mul (F := F) q (({c2} * {c2} + {A}) * {c2} + {b}) {g2} {mult((c2 * c2 + A) * c2 + b - g2)} hq rfl
    subst hb; simp only [P]; push_cast at h1 h2 ⊢; linear_combination h2 - h1"""
    a_lean = "1" if A else "0"
    gx = "(x * x + 1) * x + b" if A else "x * x * x + b"
    rhs = "p.X * p.X * p.X + p.X + b" if A else "p.X * p.X * p.X + b"
    curve_eq = "y² = x³ + x + b" if A else "y² = x³ + b"
    T = f"""/- INSTANTIATED by bin/mkc13gen.py (SvdW template) with the constants of Gen/H2C/{mod_name(pkg)}.lean. DO NOT EDIT: edit the script. -/
import GnarkVerif.Props.C13
import GnarkVerif.Proofs.H2CGen
import GnarkVerif.Gen.H2C.{mod_name(pkg)}
/-
C13 (tie T) — {godir} G1: the Shallue–van de Woestijne map `MapToCurve1` of /repo/ecc/{godir}/hash_to_g1.go.

Every theorem below is about `GV.Gen.H2C.{pkg}.MapToCurve1`, a def that tools/goslp REGENERATES from the Go source on
every run (Gen/H2C/{mod_name(pkg)}.lean): the constants `Z, c1..c4` are the Go literals (converted from Montgomery form), the
candidate selection is the Go flag arithmetic (`Legendre() >> 1`, `|`, `^`, `Select`), `Sqrt` / `Legendre` are parameters
with their specification `LegSqrtOK` as hypothesis, `{sgn}` is the translated parity of the canonical representative.
`MapToCurve1_eq` is the proof-level tie to the hand transcription `Model.HashToField.svdw`; the relations between the
constants (RFC 9380 §F.1) are PROVED here from the literals, in any field in which the base modulus vanishes.
-/
set_option linter.unusedSectionVars false
set_option linter.unusedVariables false
set_option linter.unusedSimpArgs false
set_option linter.unusedTactic false
set_option linter.unreachableTactic false
namespace GV.Gen.H2C.{pkg}
open GV GV.HashToField GV.H2CGen

/-- the base-field modulus (Gen/Fields.lean, regenerated) -/
abbrev q : Nat := {q}
theorem q_eq : q = Gen.{field}.q := by decide +kernel

variable {{F : Type}} [Field F] [DecidableEq F]

/-- the SvdW constants as they appear in the generated def -/
def P (b : F) : SvdwParams F where
  A := {a_lean}
  B := b
  Z := (({Z} : Nat) : F)
  c1 := (({c1} : Nat) : F)
  c2 := (({c2} : Nat) : F)
  c3 := (({c3} : Nat) : F)
  c4 := (({c4} : Nat) : F)

/-- `{sgn}` as a Boolean: parity of the canonical representative (`z.Bits()[0] % 2`) -/
def sgn0 (toNat : F → Nat) (z : F) : Bool := decide (toNat z % {W64} % 2 = 1)

theorem {sgn}_eq (toNat : F → Nat) (z : F) : ({sgn} z toNat).1 = toNat z % {W64} % 2 := rfl

/-- bridge: the generated def is the hand-transcribed straight-line map on the Go constants -/
theorem MapToCurve1_eq (b u : F) (legendre : F → Int) (sqrt : F → Option F) (toNat : F → Nat)
    (hl : ∀ a, legendre a = -1 ∨ legendre a = 0 ∨ legendre a = 1) :
    (MapToCurve1 u b legendre sqrt toNat).1 =
      let r := svdw (fieldOps F) (fun a => decide (legendre a >>> 1 = 0)) (fun a => (sqrt a).getD 0)
        (sgn0 toNat) (P b) u
      ⟨r.1, r.2⟩ := by
  dsimp only [MapToCurve1, {sgn}, svdw, svdwX, svdwCandidates, gOf, fieldOps, P, sgn0]
  simp only [add_zero, decide_eq_true_eq]
  rw [svdw_select _ _ (shr1_of_leg _ (hl _)).2 (shr1_of_leg _ (hl _)).2]
  congr 1
  all_goals first | exact select_xor_parity _ _ _ _ | rfl

/-- the relations of RFC 9380 §F.1 between the Go constants, in any field where the modulus is 0 and `b` is the curve
coefficient (multiples of the modulus and square roots computed offline, checked by the kernel) -/
theorem consts_ok (b : F) (hq : ((q : Nat) : F) = 0) (hb : b = (({b} : Nat) : F)) : SvdwConstsOK (P b) where
  two_ne := two_ne_zero_of_odd_char {q // 2} hq
  c1_def := by
    have h := natCast_eq_of_eq_add_mul (F := F) q (({Z} * {Z} + {A}) * {Z} + {b}) {c1} {k1} hq rfl
    subst hb; simp only [P]; push_cast at h ⊢; linear_combination -h
  c2_def := by
    have h := natCast_eq_of_eq_add_mul (F := F) q (2 * {c2} + {Z}) 0 {k2} hq rfl
    simp only [P]; push_cast at h ⊢; linear_combination h
  c3_def := by
    have h := natCast_eq_of_eq_add_mul (F := F) q ({c3} ^ 2 + {c1} * (3 * {Z} ^ 2 + 4 * {A})) 0 {k3} hq rfl
    simp only [P]; push_cast at h ⊢; linear_combination h
  c4_def := by
    have h := natCast_eq_of_eq_add_mul (F := F) q ({c4} * (3 * {Z} ^ 2 + 4 * {A}) + 4 * {c1}) 0 {k4} hq rfl
    simp only [P]; push_cast at h ⊢; linear_combination h
  c4_sq := by
    refine ⟨(({s4} : Nat) : F), ?_⟩
    have h := natCast_eq_of_eq_add_mul (F := F) q ({s4} * {s4}) {c4} {ks4} hq rfl
    simp only [P]; push_cast at h ⊢; linear_combination -h
{zsq}

variable (legendre : F → Int) (sqrt : F → Option F) (toNat : F → Nat)

/-- C13gen.1 ({godir}) for EVERY `u` the point returned by the translated `MapToCurve1` is on `{curve_eq}` -/
theorem C13gen_{pkg}_svdw_on_curve (b : F) (hq : ((q : Nat) : F) = 0) (hb : b = (({b} : Nat) : F))
    (hprim : LegSqrtOK legendre sqrt)
    (hmul : ∀ a b : F, ¬ IsSquare a → ¬ IsSquare b → IsSquare (a * b)) (u : F) :
    let p := (MapToCurve1 u b legendre sqrt toNat).1
    p.Y * p.Y = {rhs} := by
  intro p
  have h := C13_svdw_on_curve (fun a => (sqrt a).getD 0) (sgn0 toNat) (P b) (consts_ok b hq hb)
    (fun a => decide (legendre a >>> 1 = 0)) hprim.isSq_iff hmul (fun a ha => hprim.sqrt_getD a ha) u
  simp only [p, MapToCurve1_eq b u legendre sqrt toNat hprim.leg_range]
  simpa [P] using h

/-- C13gen.2 ({godir}) the same over a finite field (product of two non-residues is a residue: proved) -/
theorem C13gen_{pkg}_svdw_on_curve_finite [Fintype F] (b : F) (hq : ((q : Nat) : F) = 0) (hb : b = (({b} : Nat) : F))
    (hprim : LegSqrtOK legendre sqrt) (u : F) :
    let p := (MapToCurve1 u b legendre sqrt toNat).1
    p.Y * p.Y = {rhs} :=
  C13gen_{pkg}_svdw_on_curve legendre sqrt toNat b hq hb hprim finite_field_nonsquare_mul u

/-- C13gen.3 ({godir}) sign convention: `{sgn}(y) = {sgn}(u)`; the parity of the canonical representative flips under
negation of a non-zero element (the modulus is odd) and the curve has no point with `y = 0` -/
theorem C13gen_{pkg}_svdw_sign [Fintype F] (b : F) (hq : ((q : Nat) : F) = 0) (hb : b = (({b} : Nat) : F))
    (hprim : LegSqrtOK legendre sqrt)
    (hpar : ∀ y : F, y ≠ 0 → toNat (-y) % {W64} % 2 ≠ toNat y % {W64} % 2)
    (hnr : ∀ x : F, {gx} ≠ 0) (u : F) :
    ({sgn} (MapToCurve1 u b legendre sqrt toNat).1.Y toNat).1 = ({sgn} u toNat).1 := by
  have hsgn : ∀ y : F, y ≠ 0 → sgn0 toNat (-y) = !sgn0 toNat y := by
    intro y hy
    have := hpar y hy
    simp only [sgn0]
    rcases Nat.mod_two_eq_zero_or_one (toNat (-y) % {W64}) with h1 | h1 <;>
      rcases Nat.mod_two_eq_zero_or_one (toNat y % {W64}) with h2 | h2 <;> simp_all
  have h := C13_svdw_sign (fun a => (sqrt a).getD 0) (sgn0 toNat) (P b) (consts_ok b hq hb)
    (fun a => decide (legendre a >>> 1 = 0)) hprim.isSq_iff finite_field_nonsquare_mul
    (fun a ha => hprim.sqrt_getD a ha) hsgn
    (fun x => by simpa [gOf, fieldOps, P] using hnr x) u
  rw [MapToCurve1_eq b u legendre sqrt toNat hprim.leg_range, {sgn}_eq, {sgn}_eq]
  simp only [sgn0] at h
  rcases Nat.mod_two_eq_zero_or_one (toNat u % {W64}) with h1 | h1 <;>
    rcases Nat.mod_two_eq_zero_or_one
      (toNat (svdw (fieldOps F) (fun a => decide (legendre a >>> 1 = 0)) (fun a => (sqrt a).getD 0)
        (sgn0 toNat) (P b) u).2 % {W64}) with h2 | h2 <;> simp_all [sgn0]

/-- non-vacuity: the hypotheses on the constants hold in `ZMod q` (a field as soon as `q` is prime), those on the
primitives are satisfiable in every field -/
example [Fact (Nat.Prime q)] : SvdwConstsOK (P ((({b} : Nat) : ZMod q))) := consts_ok _ (ZMod.natCast_self q) rfl
example : ∃ (l : F → Int) (s : F → Option F), LegSqrtOK l s := legSqrtOK_exists

end GV.Gen.H2C.{pkg}
"""
    thms = [f"GV.Gen.H2C.{pkg}.{n}" for n in ("MapToCurve1_eq", "consts_ok", f"C13gen_{pkg}_svdw_on_curve",
                                              f"C13gen_{pkg}_svdw_on_curve_finite", f"C13gen_{pkg}_svdw_sign")]
    return T, thms, dict(b=b, A=A)


# ------------------------------------------------------------------------------------------------ SSWU + isogeny

SSWU = [  # package, Go directory, field, b of the target curve y² = x³ + b
    ("bls12_381", "bls12-381", "bls12_381_fp", 4),
    ("bls12_377", "bls12-377", "bls12_377_fp", 1),
    ("bls24_315", "bls24-315", "bls24_315_fp", 1),
    ("bls24_317", "bls24-317", "bls24_317_fp", 4),
    ("bw6_761", "bw6-761", "bw6_761_fp", -1),
    ("bw6_633", "bw6-633", "bw6_633_fp", 4),
]

LETS = ("r_1 tv1_1 tv1_2 tv2_1 tv2_2 tv3_1 tv3_2 ret_1 ret_2 tv2_3 tv4_1 tv4_2 tv2_4 tv6_1 tv5_1 tv2_5 tv2_6 tv6_2\n"
        "    tv5_2 tv2_7 x_1 r_2 gx1NSquare_1 y_1 y_2 x_2 y_3 y1_1 ret_3 ret_4 y_4 x_3 p")


def sswu_files(pkg, godir, field, btarget):
    M = mod_name(pkg)
    src = open(os.path.join(GEN, "H2C", M + ".lean")).read()
    q = field_q(field)

    def sc(name):
        return int(re.search(r"def const_" + name + r" .*?:=\n  \(\((\d+) : Nat\) : F\)", src, re.S).group(1))

    def arr(name):
        m = re.search(r"def const_" + name + r" .*?:=\n  \((Arr\d+)\.mk (.*?)\)\n\n", src, re.S)
        return [int(v) for v in re.findall(r"\(\((\d+) : Nat\) : F\)", m.group(2))]

    A, B, Z = sc("g1sswuCurveACoeff"), sc("g1sswuCurveBCoeff"), sc("g1sswuCurveZ")
    ai, zi = pow(A, -1, q), pow(Z, -1, q)
    x1 = B * pow(Z * A, -1, q) % q
    kx = (Z * A * x1 - B) // q
    g = x1 ** 3 + A * x1 + B
    w = sqrt_mod(g, q)
    # shape of G1SqrtRatio: the optimised q = 3 (mod 4) version?
    sr = re.search(r"\ndef G1SqrtRatio .*?\n\n", src, re.S).group(0)
    m3 = re.search(r"let y1_1 := tv1_2 \^ \((\d+) : Nat\)\n  let y1_2 := y1_1 \* tv2_1\n  let y2_1 := y1_2 \* \(\((\d+) : Nat\) : F\)\n"
                   r"  let tv3_1 := y1_2 \* y1_2\n  let tv3_2 := tv3_1 \* v\n  let isQNr_1 := \(notEqual tv3_2 u\)\n"
                   r"  let z_1 := if isQNr_1 = 0 then y1_2 else y2_1\n  \(isQNr_1, z_1, u, v\)", sr)
    three_mod_four = m3 is not None and 4 * int(m3.group(1)) + 3 == q and (int(m3.group(2)) ** 2 + Z) % q == 0

    head = f"""/- INSTANTIATED by bin/mkc13gen.py (SSWU template) with the constants of Gen/H2C/{M}.lean. DO NOT EDIT: edit the script. -/
import GnarkVerif.Props.C13
import GnarkVerif.Proofs.H2CGen
import GnarkVerif.Gen.H2C.{M}
/-
C13 (tie T) — {godir} G1: the simplified SWU map `MapToCurve1` of /repo/ecc/{godir}/hash_to_g1.go with `G1MulByZ`,
`G1NotZero`, `G1Sgn0`, `G1SqrtRatio` of /repo/ecc/{godir}/hash_to_curve/g1.go.

Every theorem is about defs of Gen/H2C/{M}.lean, which tools/goslp REGENERATES from the Go source on every run. The
proofs name the intermediate values of the generated def (`extract_lets`), so an edit of the Go straight-line program
(another operand, another flag, another constant) breaks them. Limb-level primitives are parameters with their
specification as hypothesis: `limbOr` (OR of all Montgomery limbs, `G1NotZero`), `notEqual` (`Element.NotEqual`),
`toNat` (canonical representative, `Bits()`).
-/
set_option linter.unusedSectionVars false
set_option linter.unusedVariables false
namespace GV.Gen.H2C.{pkg}
open GV GV.HashToField GV.H2CGen

abbrev q : Nat := {q}
theorem q_eq : q = Gen.{field}.q := by decide +kernel

variable {{F : Type}} [Field F] [DecidableEq F]

/-- coefficients of the isogenous curve and the SSWU constant, as regenerated from the Go literals -/
abbrev A : F := const_g1sswuCurveACoeff
abbrev B : F := const_g1sswuCurveBCoeff
abbrev Z : F := const_g1sswuCurveZ

/-- specification of `G1SqrtRatio` (RFC 9380 §F.2.1) about the GENERATED def: `r.1 = 0` iff `n/d` is a square -/
def SqrtRatioOK (notEqual : F → F → Nat) : Prop :=
  ∀ n d : F, d ≠ 0 →
    ((G1SqrtRatio n d notEqual).1 = 0 → (G1SqrtRatio n d notEqual).2.1 ^ 2 * d = n) ∧
    ((G1SqrtRatio n d notEqual).1 ≠ 0 →
      (G1SqrtRatio n d notEqual).2.1 ^ 2 * d = Z * n ∧ ¬ IsSquare (n / d))

variable (toNat : F → Nat) (notEqual : F → F → Nat) (limbOr : F → Nat)

/-- the addition chain `G1MulByZ` multiplies by the constant `Z` -/
theorem G1MulByZ_eq (x : F) : G1MulByZ_z_eq_x x = Z * x := by
  simp only [G1MulByZ_z_eq_x, Z, const_g1sswuCurveZ]; push_cast; ring

/-- C13gen.4 ({godir}) SSWU lands on the ISOGENOUS curve `y² = x³ + A·x + B` for every `u`; for the exceptional inputs
`Z²u⁴ + Zu² = 0` (`u = 0` is one) this needs criterion 4 of `find_z_sswu`: `g(B/(Z·A))` is a square -/
theorem C13gen_{pkg}_sswu_on_curve (hlimb : ∀ x : F, limbOr x = 0 ↔ x = 0)
    (hA : (A : F) ≠ 0) (hZ : (Z : F) ≠ 0) (hsr : SqrtRatioOK notEqual)
    (u : F)
    (hcrit4 : Z * (u * u) * (Z * (u * u)) + Z * (u * u) = 0 →
      IsSquare (((B : F) / (Z * A)) ^ 3 + A * (B / (Z * A)) + B)) :
    let p := (MapToCurve1 u toNat notEqual limbOr).1
    p.Y * p.Y = p.X * p.X * p.X + A * p.X + B := by
  unfold MapToCurve1
  extract_lets {LETS}
  have hrA : r_1.1 = A := rfl
  have hrB : r_1.2 = B := rfl
  have ht : tv1_2 = Z * (u * u) := G1MulByZ_eq _
  have hret1 : ret_1 = 0 ↔ tv2_2 = 0 := hlimb tv2_2
  have hret2 : ret_2 = Z := rfl
  have hy4 : y_4 * y_4 = y_3 * y_3 := by simp only [y_4, y1_1]; split <;> ring
  show y_4 * y_4 = x_3 * x_3 * x_3 + A * x_3 + B
  rw [hy4]
  have h4 : tv4_2 ≠ 0 := by
    simp only [tv4_2, tv4_1, hrA]
    split
    · exact mul_ne_zero (hret2 ▸ hZ) hA
    · rename_i h; exact mul_ne_zero (neg_ne_zero.mpr (fun h0 => h (hret1.mpr h0))) hA
  have hd3 : tv6_2 ≠ 0 := mul_ne_zero (mul_ne_zero h4 h4) h4
  obtain ⟨hs1, hs2⟩ := hsr tv2_7 tv6_2 hd3
  by_cases hr : gx1NSquare_1 = 0
  · -- first candidate x1 = tv3/tv4
    have h1 : r_2.2.1 ^ 2 * tv6_2 = tv2_7 := hs1 hr
    have hx : x_3 = tv3_2 * tv4_2⁻¹ := by simp only [x_3, x_2, if_pos hr]
    have hy : y_3 = r_2.2.1 := by simp only [y_3, if_pos hr]
    rw [hx, hy]
    refine sswu_frac_on_curve A B tv3_2 tv4_2 r_2.2.1 h4 ?_
    simp only [tv6_2, tv6_1, tv2_7, tv2_6, tv2_5, tv2_4, tv5_1, tv5_2, hrA, hrB] at h1
    linear_combination h1
  · obtain ⟨h2, hns⟩ := hs2 hr
    replace h2 : r_2.2.1 ^ 2 * tv6_2 = Z * tv2_7 := h2
    by_cases h0 : tv2_2 = 0
    · -- exceptional input: x1 = B/(Z·A), and g(x1) is a square by criterion 4 of find_z_sswu
      exfalso
      apply hns
      have e4 : tv4_2 = Z * A := by simp only [tv4_2, tv4_1, if_pos (hret1.mpr h0), hret2, hrA]
      have e3 : tv3_2 = B := by simp only [tv3_2, tv3_1, h0, hrB]; ring
      have : tv2_7 / tv6_2 = ((B : F) / (Z * A)) ^ 3 + A * (B / (Z * A)) + B := by
        simp only [tv6_2, tv6_1, tv2_7, tv2_6, tv2_5, tv2_4, tv5_1, tv5_2, hrA, hrB, e4, e3]
        field_simp
      rw [this]
      have hexc : tv1_2 * tv1_2 + tv1_2 = 0 := h0
      rw [ht] at hexc
      exact hcrit4 hexc
    · have hdd : tv4_2 = A * -(Z * (u * u) * (Z * (u * u)) + Z * (u * u)) := by
        simp only [tv4_2, tv4_1, if_neg (fun h => h0 (hret1.mp h)), tv2_3, tv2_2, tv2_1, hrA, ht]; ring
      have key := sswu_second_on_curve A B Z u tv4_2 r_2.2.1 h4 hdd (by
        simp only [tv6_2, tv6_1, tv2_7, tv2_6, tv2_5, tv2_4, tv5_1, tv5_2, tv3_2, tv3_1, tv2_2, tv2_1, hrA, hrB, ht] at h2
        linear_combination h2)
      simp only [x_3, x_2, y_3, y_2, y_1, x_1, if_neg hr, tv3_2, tv3_1, tv2_2, tv2_1, hrB, ht]
      linear_combination key

/-! ### the constants: side conditions PROVED from the Go literals, in any field in which the base modulus vanishes
(Bézout coefficients / square roots computed offline, checked by the kernel) -/

theorem A_ne_zero (hq : ((q : Nat) : F) = 0) : (A : F) ≠ 0 := by
  have h : (({A} * {ai} : Nat) : F) = ((1 + {(A * ai - 1) // q} * q : Nat) : F) := by congr 1
  rw [Nat.cast_add, Nat.cast_mul _ q, hq, mul_zero, add_zero, Nat.cast_mul, Nat.cast_one] at h
  intro h0
  simp only [A, const_g1sswuCurveACoeff] at h0
  rw [h0, zero_mul] at h
  exact zero_ne_one h

theorem Z_ne_zero (hq : ((q : Nat) : F) = 0) : (Z : F) ≠ 0 := by
  have h : (({Z} * {zi} : Nat) : F) = ((1 + {(Z * zi - 1) // q} * q : Nat) : F) := by congr 1
  rw [Nat.cast_add, Nat.cast_mul _ q, hq, mul_zero, add_zero, Nat.cast_mul, Nat.cast_one] at h
  intro h0
  simp only [Z, const_g1sswuCurveZ] at h0
  rw [h0, zero_mul] at h
  exact zero_ne_one h
"""
    thms = [f"C13gen_{pkg}_sswu_on_curve"]
    crit_ok = w is not None
    if crit_ok:
        kw = (g - w * w) // q
        assert (g - w * w) % q == 0 and kw >= 0
        head += f"""
/-- criterion 4 of `find_z_sswu` (RFC 9380 §H.2): `g(B/(Z·A))` is a square — this is what makes the exceptional
inputs harmless -/
theorem crit4 (hq : ((q : Nat) : F) = 0) : IsSquare (((B : F) / (Z * A)) ^ 3 + A * (B / (Z * A)) + B) := by
  have hi : (({Z} * {A} * {x1} : Nat) : F) = (({B} + {kx} * q : Nat) : F) := by congr 1
  rw [Nat.cast_add, Nat.cast_mul _ q, hq, mul_zero, add_zero] at hi
  have hx : (B : F) / (Z * A) = (({x1} : Nat) : F) := by
    rw [div_eq_iff (mul_ne_zero (Z_ne_zero hq) (A_ne_zero hq))]
    simp only [A, B, Z, const_g1sswuCurveACoeff, const_g1sswuCurveBCoeff, const_g1sswuCurveZ]
    push_cast at hi ⊢
    linear_combination -hi
  have hw : (({x1} ^ 3 + {A} * {x1} + {B} : Nat) : F) = (({w} * {w} + {kw} * q : Nat) : F) := by congr 1
  rw [Nat.cast_add _ (_ * q), Nat.cast_mul _ q, hq, mul_zero, add_zero] at hw
  refine ⟨(({w} : Nat) : F), ?_⟩
  rw [hx]
  simp only [A, B, const_g1sswuCurveACoeff, const_g1sswuCurveBCoeff]
  push_cast at hw ⊢
  linear_combination hw

/-- C13gen.4' ({godir}) the same with every condition on the constants discharged: only the specification of
`G1SqrtRatio` and of the limb-level `G1NotZero` remain as hypotheses -/
theorem C13gen_{pkg}_sswu_on_curve_consts (hq : ((q : Nat) : F) = 0) (hlimb : ∀ x : F, limbOr x = 0 ↔ x = 0)
    (hsr : SqrtRatioOK notEqual) (u : F) :
    let p := (MapToCurve1 u toNat notEqual limbOr).1
    p.Y * p.Y = p.X * p.X * p.X + A * p.X + B :=
  C13gen_{pkg}_sswu_on_curve toNat notEqual limbOr hlimb (A_ne_zero hq) (Z_ne_zero hq) hsr u (fun _ => crit4 hq)
"""
        thms.append(f"C13gen_{pkg}_sswu_on_curve_consts")
    else:
        head += f"""
/- `crit4` (criterion 4 of `find_z_sswu`: `g(B/(Z·A))` is a square) is NOT provable for this curve: the script found
that `g(B/(Z·A))` is a NON-residue for the Go constants of {godir} G1 (FINDING: the SSWU constant Z violates criterion 4).
For the exceptional inputs `Z²u⁴ + Zu² = 0` - `u = 0` always is one - the Go map returns `(0, 0)`-like points that are not
on the isogenous curve. The theorem below therefore excludes exactly these inputs. -/

/-- C13gen.4' ({godir}) every NON-exceptional `u` is mapped to the isogenous curve (constants discharged) -/
theorem C13gen_{pkg}_sswu_on_curve_nonexceptional (hq : ((q : Nat) : F) = 0) (hlimb : ∀ x : F, limbOr x = 0 ↔ x = 0)
    (hsr : SqrtRatioOK notEqual) (u : F) (hu : Z * (u * u) * (Z * (u * u)) + Z * (u * u) ≠ (0 : F)) :
    let p := (MapToCurve1 u toNat notEqual limbOr).1
    p.Y * p.Y = p.X * p.X * p.X + A * p.X + B :=
  C13gen_{pkg}_sswu_on_curve toNat notEqual limbOr hlimb (A_ne_zero hq) (Z_ne_zero hq) hsr u (fun h => absurd h hu)
"""
        thms.append(f"C13gen_{pkg}_sswu_on_curve_nonexceptional")
    finite = three_mod_four and crit_ok
    if three_mod_four:
        c1, c2 = int(m3.group(1)), int(m3.group(2))
        head += f"""
/-! ### `G1SqrtRatio` (optimised version for q ≡ 3 mod 4) meets its specification over the field with `q` elements -/

/-- `c2² = -Z` for the constant `c2` of `G1SqrtRatio` -/
theorem c2_sq (hq : ((q : Nat) : F) = 0) :
    ((({c2} : Nat) : F)) * ((({c2} : Nat) : F)) = -(Z : F) := by
  have h : (({c2} * {c2} + {Z} : Nat) : F) = (({(c2 * c2 + Z) // q} * q : Nat) : F) := by congr 1
  rw [Nat.cast_mul _ q, hq, mul_zero] at h
  simp only [Z, const_g1sswuCurveZ]
  push_cast at h ⊢
  linear_combination h

theorem sqrtRatio_ok [Fintype F] (hcard : Fintype.card F = q) (hne : ∀ a b : F, notEqual a b = 0 ↔ a = b) :
    SqrtRatioOK notEqual := by
  intro n d hd
  have hq : ((q : Nat) : F) = 0 := by rw [← hcard]; exact FiniteField.cast_card_eq_zero F
  have key := sqrtRatio_3mod4 {c1} (({c2} : Nat) : F) (Z : F) n d (by rw [hcard]) (c2_sq hq) hd
  simp only [G1SqrtRatio]
  constructor
  · intro h
    rw [hne] at h
    rw [if_pos ((hne _ _).mpr h)]
    exact key.1 h
  · intro h
    rw [Ne, hne] at h
    rw [if_neg (fun h' => h ((hne _ _).mp h'))]
    exact key.2 h
"""
        thms.append("sqrtRatio_ok")
    if finite:
        head += f"""
/-- C13gen.5 ({godir}) over the field with `q` elements NOTHING is assumed besides the specification of the two
limb-level primitives (`NotEqual`, the OR of all limbs): for every `u` the translated `MapToCurve1` returns a point of the
isogenous curve `y² = x³ + A·x + B` -/
theorem C13gen_{pkg}_sswu_on_curve_finite [Fintype F] (hcard : Fintype.card F = q)
    (hlimb : ∀ x : F, limbOr x = 0 ↔ x = 0) (hne : ∀ a b : F, notEqual a b = 0 ↔ a = b) (u : F) :
    let p := (MapToCurve1 u toNat notEqual limbOr).1
    p.Y * p.Y = p.X * p.X * p.X + A * p.X + B := by
  have hq : ((q : Nat) : F) = 0 := by rw [← hcard]; exact FiniteField.cast_card_eq_zero F
  exact C13gen_{pkg}_sswu_on_curve toNat notEqual limbOr hlimb (A_ne_zero hq) (Z_ne_zero hq)
    (sqrtRatio_ok notEqual hcard hne) u (fun _ => crit4 hq)
"""
        thms.append(f"C13gen_{pkg}_sswu_on_curve_finite")
    head += f"""
/-- C13gen.6 ({godir}) sign convention `G1Sgn0(y) = G1Sgn0(u)` whenever `y ≠ 0` (`sgn0(0) = 0` cannot be flipped); the
parity of the canonical representative flips under negation of a non-zero element (odd modulus) -/
theorem C13gen_{pkg}_sswu_sign
    (hpar : ∀ y : F, y ≠ 0 → toNat (-y) % {W64} % 2 ≠ toNat y % {W64} % 2) (u : F) :
    let p := (MapToCurve1 u toNat notEqual limbOr).1
    p.Y ≠ 0 → (G1Sgn0 p.Y toNat).1 = (G1Sgn0 u toNat).1 := by
  unfold MapToCurve1
  extract_lets {LETS}
  show y_4 ≠ 0 → (G1Sgn0 y_4 toNat).1 = (G1Sgn0 u toNat).1
  have e3 : ret_3 = toNat u % {W64} % 2 := rfl
  have e4 : ret_4 = toNat y_3 % {W64} % 2 := rfl
  intro hy
  simp only [G1Sgn0]
  by_cases hx : ret_3 ^^^ ret_4 = 0
  · have : y_4 = y_3 := by simp only [y_4, if_pos hx]
    rw [this]
    rw [e3, e4, xor_parity_eq_zero] at hx
    exact hx.symm
  · have h4 : y_4 = -y_3 := by simp only [y_4, y1_1, if_neg hx]
    have hy3 : y_3 ≠ 0 := by intro h0; apply hy; rw [h4, h0, neg_zero]
    have hp := hpar y_3 hy3
    rw [h4, ← e3]
    rw [e3, e4, xor_parity_eq_zero] at hx
    rcases Nat.mod_two_eq_zero_or_one (toNat u % {W64}) with a | a <;>
      rcases Nat.mod_two_eq_zero_or_one (toNat y_3 % {W64}) with b | b <;>
      rcases Nat.mod_two_eq_zero_or_one (toNat (-y_3) % {W64}) with c | c <;> simp_all

/-- non-vacuity of the hypotheses on the limb-level primitives: they hold for `limbOr x = if x = 0 then 0 else 1`,
`notEqual a b = if a = b then 0 else 1` in every field -/
example : ∃ (l : F → Nat) (n : F → F → Nat), (∀ x, l x = 0 ↔ x = 0) ∧ (∀ a b, n a b = 0 ↔ a = b) :=
  ⟨fun x => if x = 0 then 0 else 1, fun a b => if a = b then 0 else 1,
    fun x => by by_cases h : x = 0 <;> simp [h], fun a b => by by_cases h : a = b <;> simp [h]⟩

end GV.Gen.H2C.{pkg}
"""
    thms.append(f"C13gen_{pkg}_sswu_sign")

    # ---- isogeny
    XN, XD = arr("g1IsogenyXNumeratorMap"), arr("g1IsogenyXDenominatorMap") + [1]
    YN, YD = arr("g1IsogenyYNumeratorMap"), arr("g1IsogenyYDenominatorMap") + [1]
    bt = btarget % q

    def mul(p, r):
        o = [0] * (len(p) + len(r) - 1)
        for i, a in enumerate(p):
            for j, c in enumerate(r):
                o[i + j] += a * c
        return o

    def add(p, r):
        n = max(len(p), len(r))
        return [(p[i] if i < len(p) else 0) + (r[i] if i < len(r) else 0) for i in range(n)]

    def pw(p, k):
        o = [1]
        for _ in range(k):
            o = mul(o, p)
        return o

    D = add(mul(mul([B, A, 0, 1], pw(YN, 2)), pw(XD, 3)),
            [-c for c in mul(add(pw(XN, 3), [bt * c for c in pw(XD, 3)]), pw(YD, 2))])
    assert all(c % q == 0 for c in D), "the coefficient tables are not an isogeny onto y^2 = x^3 + b"
    E = [c // q for c in D]

    def poly(cs):
        return " + ".join((f"({c} : F) * x ^ {k}" if k > 0 else f"({c} : F)") for k, c in enumerate(cs) if c != 0) or "(0 : F)"

    pos, neg = [max(c, 0) for c in E], [max(-c, 0) for c in E]
    nm = lambda base, n, monic: f"g1EvalPolynomial_{'true' if monic else 'false'}_n{n}"
    evals = sorted({nm(0, len(XN), False) + "_z_eq_x", nm(0, len(XD) - 1, True), nm(0, len(YN), False), nm(0, len(YD) - 1, True)})
    iso = f"""/- INSTANTIATED by bin/mkc13gen.py (isogeny template) with the coefficient tables of Gen/H2C/{M}.lean. DO NOT EDIT. -/
import GnarkVerif.Props.C13_gen_{pkg}
/-
C13 (tie T) — {godir} G1: the isogeny `G1Isogeny` of /repo/ecc/{godir}/hash_to_curve/g1.go (rational maps whose
coefficient tables are the Go literals `g1Isogeny{{X,Y}}{{Numerator,Denominator}}Map`, evaluated by the unrolled Horner
loops of `g1EvalPolynomial`) maps the isogenous curve `y² = x³ + A·x + B` into the target curve `y² = x³ + b`.
The polynomial identity (degree {len(D) - 1} in x) holds modulo the base modulus only; its cofactor polynomial was computed by
the script and is checked by `ring` (no `decide`).
-/
set_option linter.unusedSectionVars false
set_option linter.unusedVariables false
set_option maxRecDepth 100000
namespace GV.Gen.H2C.{pkg}
open GV GV.HashToField GV.H2CGen

variable {{F : Type}} [Field F] [DecidableEq F]

/-- the denominators of the translated rational maps -/
def isoXDen (x : F) : F := (g1IsogenyXDenominator x).1
def isoYDen (x : F) : F := (g1IsogenyYDenominator x).1

set_option maxHeartbeats 4000000 in
theorem iso_poly_identity (hq : ((q : Nat) : F) = 0) (x y : F) (hxy : y * y = x * x * x + A * x + B) :
    (g1IsogenyYNumerator_dst_eq_y y x).1 ^ 2 * isoXDen x ^ 3 =
      ((g1IsogenyXNumerator_dst_eq_x x) ^ 3 + (({bt} : Nat) : F) * isoXDen x ^ 3) * isoYDen x ^ 2 := by
  simp only [isoXDen, isoYDen, g1IsogenyYNumerator_dst_eq_y, g1IsogenyXNumerator_dst_eq_x, g1IsogenyXDenominator,
    g1IsogenyYDenominator, {', '.join(evals)},
    const_g1IsogenyXNumeratorMap, const_g1IsogenyXDenominatorMap,
    const_g1IsogenyYNumeratorMap, const_g1IsogenyYDenominatorMap, A, B, const_g1sswuCurveACoeff,
    const_g1sswuCurveBCoeff] at hxy ⊢
  push_cast at hq hxy ⊢
  linear_combination (exp := 1) (({poly(YN)}) ^ 2 * ({poly(XD)}) ^ 3) * hxy + (({poly(pos)}) - ({poly(neg)})) * hq

/-- C13gen.7 ({godir}) the translated isogeny sends every point of the isogenous curve at which both denominators are
non-zero to a point of the target curve `y² = x³ + b` -/
theorem C13gen_{pkg}_isogeny (b : F) (hq : ((q : Nat) : F) = 0) (hb : b = (({bt} : Nat) : F)) (x y : F)
    (hxy : y * y = x * x * x + A * x + B) (hXD : isoXDen x ≠ 0) (hYD : isoYDen x ≠ 0) :
    let r := G1Isogeny x y
    r.2 * r.2 = r.1 * r.1 * r.1 + b := by
  intro r
  have key := iso_poly_identity hq x y hxy
  have e1 : r.1 = g1IsogenyXNumerator_dst_eq_x x * (isoXDen x)⁻¹ := rfl
  have e2 : r.2 = (g1IsogenyYNumerator_dst_eq_y y x).1 * (isoYDen x)⁻¹ := rfl
  rw [e1, e2, hb]
  field_simp
  linear_combination key
"""
    ithms = ["iso_poly_identity", f"C13gen_{pkg}_isogeny"]
    if finite:
        iso += f"""
variable (toNat : F → Nat) (notEqual : F → F → Nat) (limbOr : F → Nat)

/-- C13gen.8 ({godir}) `MapToG1` before cofactor clearing: SSWU followed by the isogeny lands on `y² = x³ + b` for every
`u` whose SSWU image avoids the kernel of the isogeny (the zeros of the two denominators) -/
theorem C13gen_{pkg}_sswu_isogeny_on_curve [Fintype F] (hcard : Fintype.card F = q) (b : F) (hb : b = (({bt} : Nat) : F))
    (hlimb : ∀ x : F, limbOr x = 0 ↔ x = 0) (hne : ∀ a b : F, notEqual a b = 0 ↔ a = b) (u : F) :
    let p := (MapToCurve1 u toNat notEqual limbOr).1
    isoXDen p.X ≠ 0 → isoYDen p.X ≠ 0 →
    let r := G1Isogeny p.X p.Y
    r.2 * r.2 = r.1 * r.1 * r.1 + b := by
  intro p hXD hYD
  have hq : ((q : Nat) : F) = 0 := by rw [← hcard]; exact FiniteField.cast_card_eq_zero F
  exact C13gen_{pkg}_isogeny b hq hb p.X p.Y
    (C13gen_{pkg}_sswu_on_curve_finite toNat notEqual limbOr hcard hlimb hne u) hXD hYD
"""
        ithms.append(f"C13gen_{pkg}_sswu_isogeny_on_curve")
    iso += f"\nend GV.Gen.H2C.{pkg}\n"
    full = [f"GV.Gen.H2C.{pkg}.{n}" for n in thms + ithms]
    return head, iso, full, dict(crit4=crit_ok, three_mod_four=three_mod_four, iso_degree=len(D) - 1, finite=finite, bt=bt)


NOPRIME = {"bw6_633_fp"}  # moduli without a primality certificate in Props/C01_primes


def closed_file(imports, info):
    t = "import GnarkVerif.Props.C01_primes\n" + "".join(f"import GnarkVerif.Props.{m}\n" for m in imports)
    t += """/-
C13 (tie T), closed instances — written by bin/mkc13gen.py. The theorems of Props/C13_gen_* hold in any field in which the base
modulus vanishes / with `q` elements. Here they are instantiated at `ZMod q`, a field by the primality certificates of
Props/C01_primes (kernel-checked Pratt certificates of the REGENERATED moduli), the limb-level primitives replaced by their
specifications (`limbOr x = if x = 0 then 0 else 1`, `notEqual a b = if a = b then 0 else 1`): no hypothesis on the constants
or on the field is left. These are the non-vacuity witnesses of the C13_gen theorems.
-/
set_option linter.unusedSectionVars false
set_option linter.unusedVariables false
"""
    th = []
    for pkg, godir, field in SVDW:
        if field in NOPRIME or pkg not in info:
            continue
        b, A = info[pkg]["b"], info[pkg]["A"]
        rhs = f"p.X * p.X * p.X + p.X + (({b} : Nat) : ZMod q)" if A else f"p.X * p.X * p.X + (({b} : Nat) : ZMod q)"
        t += f"""
namespace GV.Gen.H2C.{pkg}
open GV GV.H2CGen
instance instPrimeQ : Fact (Nat.Prime q) := ⟨q_eq ▸ GV.Field.C01_prime_{field}⟩
instance instNeZeroQ : NeZero q := ⟨(Fact.out : Nat.Prime q).ne_zero⟩
/-- C13gen (closed, {godir}): over `ZMod q` the translated SvdW map lands on the curve for EVERY `u`, for every pair of
functions meeting the specification of `Legendre` / `Sqrt` (such pairs exist: `legSqrtOK_exists`) -/
theorem C13gen_{pkg}_svdw_closed (legendre : ZMod q → Int) (sqrt : ZMod q → Option (ZMod q)) (toNat : ZMod q → Nat)
    (hprim : LegSqrtOK legendre sqrt) (u : ZMod q) :
    let p := (MapToCurve1 u (({b} : Nat) : ZMod q) legendre sqrt toNat).1
    p.Y * p.Y = {rhs} :=
  C13gen_{pkg}_svdw_on_curve_finite legendre sqrt toNat _ (ZMod.natCast_self q) rfl hprim u
end GV.Gen.H2C.{pkg}
"""
        th.append(f"GV.Gen.H2C.{pkg}.C13gen_{pkg}_svdw_closed")
    for pkg, godir, field, _ in SSWU:
        if field in NOPRIME or pkg not in info:
            continue
        inf = info[pkg]
        t += f"""
namespace GV.Gen.H2C.{pkg}
open GV GV.H2CGen
instance instPrimeQ : Fact (Nat.Prime q) := ⟨q_eq ▸ GV.Field.C01_prime_{field}⟩
instance instNeZeroQ : NeZero q := ⟨(Fact.out : Nat.Prime q).ne_zero⟩
theorem limbOr_spec (x : ZMod q) : (if x = 0 then 0 else 1 : Nat) = 0 ↔ x = 0 := by by_cases h : x = 0 <;> simp [h]
theorem notEqual_spec (a b : ZMod q) : (if a = b then 0 else 1 : Nat) = 0 ↔ a = b := by by_cases h : a = b <;> simp [h]
"""
        if inf["finite"]:
            t += f"""/-- C13gen (closed, {godir}): over `ZMod q` the translated SSWU map (with the translated `G1SqrtRatio`) lands on the
isogenous curve for EVERY `u`; nothing is assumed -/
theorem C13gen_{pkg}_sswu_closed (toNat : ZMod q → Nat) (u : ZMod q) :
    let p := (MapToCurve1 u toNat (fun a b => if a = b then 0 else 1) (fun x => if x = 0 then 0 else 1)).1
    p.Y * p.Y = p.X * p.X * p.X + A * p.X + B :=
  C13gen_{pkg}_sswu_on_curve_finite toNat _ _ (ZMod.card q) limbOr_spec notEqual_spec u
"""
        elif inf["crit4"]:
            t += f"""/-- C13gen (closed, {godir}): over `ZMod q` the translated SSWU map lands on the isogenous curve for EVERY `u`, given the
specification of the (generic, loop-based) `G1SqrtRatio` -/
theorem C13gen_{pkg}_sswu_closed (toNat : ZMod q → Nat) (hsr : SqrtRatioOK (F := ZMod q) (fun a b => if a = b then 0 else 1))
    (u : ZMod q) :
    let p := (MapToCurve1 u toNat (fun a b => if a = b then 0 else 1) (fun x => if x = 0 then 0 else 1)).1
    p.Y * p.Y = p.X * p.X * p.X + A * p.X + B :=
  C13gen_{pkg}_sswu_on_curve_consts toNat _ _ (ZMod.natCast_self q) limbOr_spec hsr u
"""
        else:
            t += f"""/-- C13gen (closed, {godir}): over `ZMod q` the translated SSWU map lands on the isogenous curve for every NON-exceptional
`u` (the constant Z of this curve violates criterion 4: see Props/C13_gen_{pkg}.lean), given the specification of `G1SqrtRatio` -/
theorem C13gen_{pkg}_sswu_closed (toNat : ZMod q → Nat) (hsr : SqrtRatioOK (F := ZMod q) (fun a b => if a = b then 0 else 1))
    (u : ZMod q) (hu : Z * (u * u) * (Z * (u * u)) + Z * (u * u) ≠ (0 : ZMod q)) :
    let p := (MapToCurve1 u toNat (fun a b => if a = b then 0 else 1) (fun x => if x = 0 then 0 else 1)).1
    p.Y * p.Y = p.X * p.X * p.X + A * p.X + B :=
  C13gen_{pkg}_sswu_on_curve_nonexceptional toNat _ _ (ZMod.natCast_self q) limbOr_spec hsr u hu
"""
        t += f"""/-- C13gen (closed, {godir}): over `ZMod q` the translated isogeny maps the isogenous curve into `y² = x³ + b` -/
theorem C13gen_{pkg}_isogeny_closed (x y : ZMod q) (hxy : y * y = x * x * x + A * x + B)
    (hXD : isoXDen x ≠ 0) (hYD : isoYDen x ≠ 0) :
    let r := G1Isogeny x y
    r.2 * r.2 = r.1 * r.1 * r.1 + (({inf['bt']} : Nat) : ZMod q) :=
  C13gen_{pkg}_isogeny _ (ZMod.natCast_self q) rfl x y hxy hXD hYD
end GV.Gen.H2C.{pkg}
"""
        th += [f"GV.Gen.H2C.{pkg}.C13gen_{pkg}_sswu_closed", f"GV.Gen.H2C.{pkg}.C13gen_{pkg}_isogeny_closed"]
    return t, th


def main():
    only = set(sys.argv[1:])
    imports, audits, info = [], [], {}
    for pkg, godir, field in SVDW:
        if only and pkg not in only:
            continue
        t, thms, inf = svdw_file(pkg, godir, field)
        open(os.path.join(PROPS, f"C13_gen_{pkg}.lean"), "w").write(t)
        imports.append(f"C13_gen_{pkg}")
        audits += thms
        info[pkg] = inf
    for pkg, godir, field, b in SSWU:
        if only and pkg not in only:
            continue
        h, iso, thms, inf = sswu_files(pkg, godir, field, b)
        open(os.path.join(PROPS, f"C13_gen_{pkg}.lean"), "w").write(h)
        open(os.path.join(PROPS, f"C13_gen_{pkg}_iso.lean"), "w").write(iso)
        imports.append(f"C13_gen_{pkg}_iso")
        audits += thms
        info[pkg] = inf
    if only:
        print(info)
        return
    closed, cth = closed_file(imports, info)
    open(os.path.join(PROPS, "C13_gen_closed.lean"), "w").write(closed)
    imports.append("C13_gen_closed")
    audits += cth
    root = "".join(f"import GnarkVerif.Props.{m}\n" for m in imports)
    root += ("/- C13 (tie T): the hash-to-curve theorems about the defs that tools/goslp regenerates from the Go source on every run\n"
             "   (Gen/H2C/*.lean). This module only imports the per-curve files; written by bin/mkc13gen.py.\n"
             f"   {len(imports)} curves, {len(audits)} theorems (listed with their axioms in Audit/C13_gen.lean). -/\n")
    open(os.path.join(PROPS, "C13_gen.lean"), "w").write(root)
    open(os.path.join(AUDIT, "C13_gen.lean"), "w").write(
        "import GnarkVerif.Props.C13_gen\n/- axiom audit of the C13 (tie T) theorems; written by bin/mkc13gen.py -/\n" +
        "".join(f"#print axioms {t}\n" for t in audits))
    print(info)
    print(len(audits), "theorems")


if __name__ == "__main__":
    main()
