# Single source of known_findings.json. p = property, key = stable identifier (entry point + input class).
def K(p, key, what, op=".", go=".", model=".", where="", replay=""):
    return {"p": p, "key": key, "status": "known", "what": what, "match": {"op": op, "go": go, "model": model}, "where": where, "replay": replay}
def F(p, key, commit, what, replay="", where=""):
    return {"p": p, "key": key, "status": "fixed", "commit": commit, "what": what, "replay": replay, "where": where}

FINDINGS = [
 # ---------------------------------------------------------------- fixed
 F("C15", "C15 Transcript.ComputeChallenge recompute returns internal slice", "a133d3f", "recomputing a challenge returned the internal slice; history `C:a C:a M:<returned slice> C:a|C:b` changed the recomputed value and the next challenge", "C15 sha256 61,62 C:61 C:61 M:1 C:62", "fiat-shamir/transcript.go"),
 F("C01", "C01 Vector.Add/Sub empty vector panics (amd64, 4-limb fields)", "67453f9", "Vector.Add / Vector.Sub on empty vectors panicked (index out of range) in the 4-limb amd64 path while purego returns", "C01 bn254_fr vadd - -", "ecc/*/f?/vector_amd64.go"),
 F("C09", "C09 Vector.InnerProduct empty receiver vs non-empty argument", "b6a47ca", "Vector.InnerProduct with an empty receiver and a non-empty argument returned 0 on the amd64 path but panics (documented) on the purego path", "C01 bls12_377_fr vinner - 1"),
 F("C10", "C10 fft.Domain.ReadFrom short reads", "b4229db", "Domain.ReadFrom used r.Read instead of io.ReadFull: readers returning fewer than fr.Bytes bytes per call made it fail or decode garbage (all 10 fft packages + template)", "C10 read koalabear 7f000001 4 1 00000000000000107710000108dbd69c572031df000000032a55555601bb"),
 F("C11", "C11 kzg.Open constant polynomial", "1aad452", "Open / BatchOpenSinglePoint on length-1 (constant) polynomials failed with ErrInvalidPolynomialSize: the empty quotient was passed to Commit", "C11 open bn254 2 5 7 3"),
 F("C11", "C11 kzg.MpcSetup.ReadFrom loses Vk.G1", "517dde1", "MpcSetup.ReadFrom never restored srs.Vk.G1: sealing a deserialised setup gave a verifying key that rejects honest proofs", "C11 ser bn254 2 1 mpc1"),
 F("C19", "C19 DecompressKarabina z!=x (bw6-633/761 E6, bls24-315/317 E24)", "ed8e3f5", "DecompressKarabina squared x's undefined g4 instead of the g4 just written into z: only the aliased call z==x was right", "C19 ecc/bw6-761/internal/fptower.E6 DecompressKarabina 01 3:1"),
 F("C19", "C19 eisenstein.ComplexNumber.QuoRem aliasing", "2a19327", "QuoRem clobbered x or y before their last use when z or r aliased them", "C19 field/eisenstein.ComplexNumber QuoRem 01|2|3 333:1"),
 F("C16", "C16 vortex MerkleProof.Verify ignores high/negative index bits", "c9134c4", "vortex MerkleProof.Verify accepted i + k*2^depth and negative indices like i; MerkleTree.Open panicked on negative indices", "C16 vx 1 0 d 5df3e0c idx 1"),
 # ---------------------------------------------------------------- known
 K("C11", "C11 kzg.MpcSetup fresh setup WriteTo/ReadFrom", "a never-contributed kzg.MpcSetup does not round-trip: WriteTo writes a nil challenge as 0 bytes, ReadFrom expects 32 (EOF); not repaired because WriteTo feeds the ceremony hash (format change)", r"^C11 ser \S+ \S+ \S+ mpc0", r"^0:read", r"^1$", "ecc/*/kzg/mpcsetup.go WriteTo:62 / ReadFrom:90", "C11 ser bn254 4 1 mpc0"),
 K("C16", "C16 accumulator/merkletree no leaf/node domain separation", "accumulator VerifyProof accepts an internal node's preimage presented as a leaf with a shortened proof (leafSum=H(data), nodeSum=H(a||b) share a domain; number of trailing siblings unchecked); repair = RFC-6962 prefixes, which changes every root", r"^C16 acct \S+ \S+ \S+ \S+ collapse ", r"^1$", r"^0$", "accumulator/merkletree/tree.go leafSum/nodeSum, verify.go", "C16 acct sha256 3 2 39866116 collapse 1"),
 K("C16", "C16 vortex Merkle padding positions and proof length", "vortex MerkleProof.Verify has no notion of the leaf count or tree depth: padding positions n <= i < 2^depth open/verify with the zero leaf, and an internal node with a shortened proof verifies at index i>>k", r"^C16 vx \S+ \S+ \S+ \S+ (lift|none|idxpad) ", r"^ok 1$", r"^ok 0$", "field/koalabear/vortex/merkle.go Verify/Open", "C16 vx 2 0 d 30efac4e lift 0"),
]

FINDINGS += [
 F("C13", "C13 hash.ExpandMsgXmd lenInBytes<32", "b70ef64", "ExpandMsgXmd panicked (slice bounds) whenever lenInBytes < 32: Hash(msg,dst,0) of every field, Hash(msg,dst,1) of koalabear/babybear/goldilocks", "C13 xmd - - 0", "field/hash/hashutils.go:62"),
 F("C03", "C03 stark-curve mulWindowed ignores the sign", "14949a4", "stark-curve ScalarMultiplication(Base) returned [|s|]P for negative s", "C03 sm aff stark-curve g1 ... -1", "ecc/stark-curve/g1.go:386"),
 F("C17", "C17 kzg.MpcSetup.Verify checks the previous SRS", "13cb1dd", "kzg MpcSetup.Verify ran SameRatioMany on the previous SRS: contributions with arbitrary G1 elements were accepted", "C17 mpcsetup bn254 kind=step n=2 t0=1 x=5 mut=g1Set i=1 m=7", "ecc/*/kzg/mpcsetup.go:156"),
 F("C03", "C03 JointScalarMultiplication |s| >= 2^(64*Limbs) panics", "90fc5e6", "G1/G2 JointScalarMultiplication(Base) indexed out of range when a scalar had more than 64*fr.Limbs bits", "C03 jointbig gen bn254 g1 ...", "ecc/*/g1.go, g2.go hiWordIndex"),
 F("C14", "C14 mimc.Write length / partial absorb", "b1dbdf3", "MiMC Write sliced before checking the length (panic or read beyond len(p)) and kept the absorbed prefix on error", "C14 mimc new bn254 ... W:<40 bytes>", "ecc/*/fr/mimc/mimc.go:113"),
 F("C07", "C07 Decoder.Decode nested vectors hide errors", "e71aab4", "Decoder.Decode of [][]fr.Element / [][][]fr.Element overwrote err in the loop: an invalid inner vector that is not the last one was accepted", "C07 sdec bn254 1 0 frss 000000020000000130644e72e131a029b85045b68181585d2833e84879b9709143e1f593f000000100000000", "ecc/*/marshal.go"),
 F("C02", "C02 twistededwards PointExtended.Add before curve init", "84a6445", "PointExtended.Add read curveParams.D without initOnce: wrong sum in a fresh process", "C02 te bn254.te ... eAddFresh", "ecc/*/twistededwards/point.go:497"),
 F("C07", "C07 secp256k1 SetBytes short input panics", "558fb64", "secp256k1 G1Affine.SetBytes checked len < 32 but read 64 bytes: 32..63-byte inputs panicked", "C07 dec secp256k1 G1 1 <32 zero bytes>", "ecc/secp256k1/marshal.go:47"),
 F("C17", "C17 vortex verifier: no column-vs-UAlpha check, proof shape unchecked", "10af212", "vortex Params.Verify never compared opened columns with UAlpha[c] (false claim accepted after shifting UAlpha by a codeword), nor len(UAlpha), nor the numbers of selected/opened columns and Merkle proofs", "C17 vortex forge_ualpha_shift 1 2 1 1,0,0,0 ...", "field/koalabear/vortex/verifier.go"),
 F("C17", "C17 fri.VerifyOpening ignores ClaimedValue", "e55341c", "FRI VerifyOpening never compared ClaimedValue with the opened leaf: any claimed value opened", "C17 friopen claimed_plus1 ...", "ecc/*/fr/fri/fri.go VerifyOpening"),
 F("C17", "C17 fri round verifier: neighbour root unbound, malformed proofs panic", "2922db0", "FRI verifyProofOfProximitySingleRound checked the two openings of a step against their own (unbound) roots: forge_highdeg_neighbor_root accepted; short/missing proof sets panicked", "C17 fri forge_highdeg_neighbor_root ...", "ecc/*/fr/fri/fri.go"),
]

FINDINGS += [
 # ---- C17 (remaining)
 K("C17", "C17 plookup.VerifyLookupTables never uses comt", "plookup VerifyLookupTables computes the folded commitment `comt` and never uses it: an unrelated honest permutation proof / other table rows are accepted (table binding check missing); not repaired here (needs the intended relation between comt and the permutation proof)", r"^C17 plookup \S+ kind=table .*bind=0", r"^1$", r"^0$", "ecc/*/fr/plookup/table.go:195-216", "C17 plookup bn254 kind=table tau=5 n=40 f=1,1,3 t=1,2,3,4 fb=_ tb=_ pa=5,6,7,8 mut=permFresh i=0 m=9 cf=1 perm=1 bind=0 vec=1"),
 F("C17", 'C17 fri.VerifyProofOfProximity never compares numLeaves with its domain', "b2f6792", "fri verifyProofOfProximitySingleRound takes numLeaves of every Merkle proof from the proof (it only requires the two entries of a step to agree) and never compares it with the verifier's own domain size |domain|/2^i: a proof re-derived consistently for oracles with one extra leaf, twice as many leaves, or fewer leaves (when the queried pair survives) is accepted; with the accumulator's missing leaf/node domain separation a different numLeaves also re-interprets the same root as a tree of another shape. Proposed repair: reject unless Interactions[i][k].numLeaves == domain.Cardinality >> i (same for OpeningProof.numLeaves in VerifyOpening)", "C17 fri consist_nl_all_plus1 bn254 8 ...   (Go accept before the repair; model reject: theorem C17b_friSpec_iff)", "ecc/*/fr/fri/fri.go verifyProofOfProximitySingleRound, VerifyOpening"),
 F('C17', 'C17 pedersen.BatchVerifyMultiVk empty batch panics', '3e34233', 'pedersen BatchVerifyMultiVk panicked on the empty batch', "", ""),
 F('C17', 'C17 mpcsetup.SameRatioMany with a length-2 slice first', '36731cd', "mpcsetup.SameRatioMany panicked or rejected honest input when a group's first slices had length 2", "", ""),
 F('C17', 'C17 shplonk.BatchVerify short claimed-value row panics', 'ee9fcd5', 'shplonk/fflonk BatchVerify panicked on a claimed-value row shorter than its point set', "", ""),
 F('C17', 'C17 fri size-1 domain panics', '408aeed', 'fri BuildProofOfProximity panicked for a size-1 polynomial', "", ""),
 # ---- C18
 F("C18", "C18 MillerLoopFixedQ mutates the caller's precomputed lines", "0106fef", "MillerLoopFixedQ / PairFixedQ / PairingCheckFixedQ scaled the caller's precomputed lines in place: a second call with the same lines returned a different value and concurrent callers raced (7 curves)", "C18 pairfixedq bn254 4 5 8 5a7136ad92e8", "ecc/*/pairing.go MillerLoopFixedQ"),
 F("C18", "C18 merkleDamgardHasher aliasing", "16b5b84", "hash.merkleDamgardHasher Sum/State returned the live state slice and Reset/SetState/constructor kept caller slices", "C18 mdhasher bn254 4 2 2 a7201a46bc51", "hash/merkle-damgard.go"),
 # ---- C08
 K("C08", "C08 Vector.ReadFrom allocates the attacker-chosen length", "Vector.ReadFrom / UnmarshalBinary allocate make(Vector, sliceLen) from the 4-byte prefix before reading a single element: a 4-byte input 0xffffffff kills the process (out of memory, not recoverable)", r"^C08 \S+ vecread ", r"^crash:(oom|timeout)", r"^err:short", "ecc/*/f?/vector.go ReadFrom", "C08 bn254_fr vecread ffffffff"),
 F('C08', 'C08 Vector.AsyncReadFrom uint32 overflow', '0c57d15', 'Vector.AsyncReadFrom computed sliceLen*Bytes in uint32: success on truncated input, then a goroutine panic', "", ""),
 # ---- C07
 K("C07", "C07 NoSubgroupChecks skips the on-curve check (uncompressed)", "with NoSubgroupChecks() the uncompressed branch of setBytes performs no on-curve check: an off-curve point is accepted, also inside slices (documented as a trusted-input mode; behavioural change, not repaired)", r"^C07 (dec \S+ \S+ 0|sdec \S+ 0) ", r"^(ok |g[12]s:)", r"err:(offcurve|batch)", "ecc/*/marshal.go setBytes uncompressed branch", "C07 dec bn254 G1 0 <x=1,y=3>"),
 K("C07", "C07 (x,0) decodes from both sign flags with checks off", "on curves with 2-torsion, the 2-torsion point (x,0) decodes from both the 'smallest' and the 'largest' compressed flag when subgroup checks are off (non-canonical alias)", r"^C07 dec \S+ \S+ 0 ", r"^ok ", r"^err:lex", "ecc/*/marshal.go:927-937", ""),
 F('C07', 'C07 stark-curve infinity flag with arbitrary payload', '7f7dab1', 'stark-curve SetBytes accepted the infinity flag with a non-zero payload', "", ""),
 K("C07", "C07 IsInSubGroup accepts order-3 points (bw6-633 G1, bw6-761 G2)", "bw6-633 G1 and bw6-761 G2 IsInSubGroup accept the order-3 points (0, ±sqrt b) outside the r-torsion (the test is [3r]P = 0), so SetBytes with subgroup checks accepts them; also visible through C02 IsInSubGroup and C12 ECDSA key parsing", r"^C07 (dec|insub) bw6-(633 G1|761 G2) ", r"^(ok 0;|1 0)", r"^(err:subgroup|0 0)", "ecc/bw6-633/g1.go:483, ecc/bw6-761/g2.go:493", "C07 insub bw6-633 G1 0;2"),
 F('C07', 'C07 BytesRead under-counts a short integer read', '9465791', 'Decoder.BytesRead was not advanced when a fixed-size integer read was short', "", ""),
]

FINDINGS += [
 # ---- C12
 K("C12", "C12 EdDSA Verify accepts non-canonical R (x=0 with sign bit)", "EdDSA Verify accepts a signature whose R encodes x = 0 with the sign bit set (point decompression only negates when signs differ and -0 = 0): two encodings of the same valid signature verify", r"^C12 EDVNC ", r"^1$", r"^err:noncanonical", "ecc/*/twistededwards/point.go SetBytes:94-119", ""),
 K("C12", "C12 EdDSA PublicKey.SetBytes accepts non-canonical keys", "EdDSA PublicKey.SetBytes silently reduces an ordinate y >= q and accepts x = 0 with the sign bit set: Bytes(SetBytes(b)) != b", r"^C12 EDPKNC ", r".", r"^err:noncanonical", "ecc/*/twistededwards/eddsa/marshal.go:40-55, point.go:105", ""),
 F('C12', 'C12 EdDSA PrivateKey.SetBytes panics on a longer buffer', '5f799b3', 'EdDSA PrivateKey.SetBytes panicked on a buffer with trailing bytes', "", ""),
 F('C12', 'C12 EdDSA PrivateKey.SetBytes consumed length', '8ea03ab', 'EdDSA PrivateKey.SetBytes reported 3*sizeFr consumed instead of 2*sizeFr+32', "", ""),
 F('C12', 'C12 secp256k1 ECDSA PublicKey.SetBytes consumed length', '010409c', 'secp256k1 ECDSA PublicKey.SetBytes reported 32 bytes consumed for a 64-byte encoding', "", ""),
 F("C12", "C12 ECDSA accepts the point at infinity as a public key", "bef084c", "ECDSA PublicKey.SetBytes accepted the encoding of the point at infinity and Verify performed no key validation: with Q = O a forged (r = x([t]G) mod n, s = e/t) verified for any message (10 curves)", "C12 ECVINF bn254 sha256 0 0 <r||s> <msg> ~ ~", "ecc/*/ecdsa/ecdsa.go Verify, marshal.go"),
 K("C12", "C12 bw6-633 ECDSA key outside the r-torsion", "bw6-633 IsInSubGroup accepts the order-3 points (0,±2) (see C07): ECDSA public keys outside the r-torsion are accepted", r"^C12 ECPKT bw6_633 ", r".", r"^err:subgroup", "ecc/bw6-633/g1.go:483", ""),
 # ---- C13
 K("C13", "C13 bw6-761 MapToG1 off-curve at Z*u^2 = -1", "bw6-761 MapToG1 returns a point that is not on the curve for the two u with Z·u² = −1 (the SSWU constant Z = 2 violates find_z_sswu criterion 4)", r"^C13 map bw6-761 g1 ", r"^1 0 0 1", r"^1 X X 1", "ecc/bw6-761/hash_to_curve/g1.go:21, hash_to_g1.go:99-129", ""),
 K("C13", "C13 bls24 G2 map: sgn0 convention and c4 uninitialised", "bls24-315/317 MapToCurve2 joins the sign tests with && instead of == (sgn0(y) != sgn0(u) on ~45% of inputs); bls24-315 also never initialises c4 (x3 ≡ Z: a quarter of all inputs collide on one abscissa). Points remain valid", r"^C13 (map|distinct) bls24-31[57] g2 ", r"^(1 1 1 0|0)$", r"^(1 1 1 1|1)$", "ecc/bls24-315/hash_to_g2.go:19,62,77; ecc/bls24-317/hash_to_g2.go:76", ""),
 K("C13", "C13 secp256k1 does not implement the RFC 9380 suite", "secp256k1 HashToG1 uses the SvdW map instead of SSWU + 3-isogeny, so the RFC 9380 J.8.1 vectors are not reproduced (u values do match)", r"^C13 rfc secp256k1:g1:", r".", r".", "ecc/secp256k1/hash_to_g1.go:57", ""),
 # ---- C02
 K("C02", "C02 twistededwards PointExtended.MixedAdd same point with Z != 1", "PointExtended.MixedAdd(p1,p2) with p1 and p2 the same point and p1.Z != 1 calls MixedDouble, which assumes Z = 1: off-curve result", r"^C02 te \S+ \S+ \S+ \S+ eMixedAdd ", r".", r".", "ecc/*/twistededwards/point.go:530", ""),
 K("C02", "C02 IsInSubGroup accepts order-3 points (bw6-633 G1, bw6-761 G2)", "IsInSubGroup (affine and Jacobian) accepts (0, ±sqrt b) of order 3 on bw6-633 G1 and bw6-761 G2 (see C07)", r"^C02 sw bw6-(633\.G1|761\.G2) .* [aj]InSub ", r"^1$", r"^0$", "ecc/bw6-633/g1.go:483, ecc/bw6-761/g2.go:493", ""),
 F("C02", "C02 stark-curve g1JacExtended doubleMixed uses ZZ² instead of a = 1", "09230d9", "stark-curve g1JacExtended.doubleMixed / doubleNegMixed (and the same-point branch of addMixed/subMixed) added the receiver's ZZ² instead of the curve coefficient a = 1 (unexported, reached through the c02shim wrappers)", "C02 sw stark-curve.G1 … xDoubleMixed …", "ecc/stark-curve/g1.go:802,832"),
 # ---- C03
 F("C03", "C03 bandersnatch GLV: huge scalars", "66c35a8", "bandersnatch scalarMulGLV stored the sub-scalars in fr.Element words (reduced modulo the base field): wrong results from |s| of about 2^640", "C03 tex aff bandersnatch … <±(k·r+t), 1000 bits>", "ecc/bls12-381/bandersnatch/endomorpism.go scalarMulGLV"),
 F("C03", "C03 bandersnatch GLV: [s]O", "65ba1db", "phi(O) has Z = 0, so [s]O = (0,0,0) whenever the second sub-scalar was non-zero", "C03 te aff bandersnatch … 0 1 <s>", "ecc/bls12-381/bandersnatch/endomorpism.go scalarMulGLV, phi"),
]

FINDINGS += [
 F("C14", "C14 merkleDamgardHasher Sum/Write/SetState/aliasing", "16b5b84", "hash.merkleDamgardHasher: Sum(b) absorbed b and returned the internal slice, a refused Write set the state to nil, SetState accepted anything, Sum/State/Reset/SetState/constructor aliased caller slices", "C14 md reg bn254 ... S:<1> S:-", "hash/merkle-damgard.go"),
]

FINDINGS += [
 F("C14", "C14 mimc.Sum package function nil byteOrder", "ffc0a2b", "package-level mimc.Sum(msg) panicked for every non-empty message (zero-value digest, nil byteOrder)", "C14 mimc fn bn254 ... <32 B>", "ecc/*/fr/mimc/mimc.go:166"),
 F("C14", "C14 registered small-field Poseidon2 hashers cannot hash", "9dff8ae", "POSEIDON2_KOALABEAR / _BABYBEAR / _GOLDILOCKS: NewMerkleDamgardHasher used BlockSize() = fr.Bytes (4 or 8) and an iv of that size, but Compress demands (t/2)·Bytes = 32 bytes: every non-empty Write failed", "C14 md koalabear …", "field/*/poseidon2/hash.go, poseidon2.go BlockSize"),
 F('C14', 'C14 sis.NewRSis logTwoBound = 0 divides by zero', '31f1c7c', 'NewRSis(_,_,0,_) divided by zero', "", ""),
]

FINDINGS += [
 F("C04", "C04 secp256k1 BatchScalarMultiplicationG1 with >= 3585 scalars", "59511a2", "secp256k1.BatchScalarMultiplicationG1 picked window 16 (unsupported: lastC(16)=17) from 3585 scalars on: goroutine panic or silently wrong points", "C04 BSM secp256k1 … n=3585", "ecc/*/g1.go BatchScalarMultiplicationG1"),
]

FINDINGS += [
 F('C20', 'C20 iop.Polynomial.Evaluate shift>5 or shift<0', 'c4c91a6', 'iop Polynomial.Evaluate evaluated at 0 for shift > 5 (g.Exp on a zero g) and for negative shifts (smallExp returns 0)', 'C20 shift bn254 <q> 7 <w128> <g> 20 cr 1,2 S6,E3   (Go 1 = P(0); model 7 = P(3*w^6))', 'ecc/*/fr/iop/polynomial.go Evaluate:116-131 (var g fr.Element; ... g = *g.Exp(g, bs)); utils.go smallExp:49-68'),
 F('C20', 'C20 Lagrange-form Evaluate at a domain point', 'ef1f9bd', 'Lagrange / LagrangeCoset Evaluate returned 0 at every point of the domain / coset', 'C20 evalpt bn254 <q> 7 <w128> <g> 20 lr 1,2 E1   (Go 0; model 1)', 'ecc/*/fr/iop/polynomial.go evaluate/evalLagrange:204-241'),
 F('C20', 'C20 GetCoeff with negative shift', '94e1bed', 'GetCoeff panicked (negative index) for a negative shift', 'C20 getcoeff bn254 <q> 7 <w128> <g> 20 lr 1,2 S-1,G   (Go panic; model 2,1)', 'ecc/*/fr/iop/polynomial.go GetCoeff:151-162'),
 F('C20', 'C20 iop.Evaluate with a negatively shifted operand', '94e1bed', 'iop.Evaluate with a negatively shifted operand aborted the process (GetCoeff panic inside a parallel.Execute goroutine)', 'C20 expr bn254 <q> 7 <w128> <g> lr nil 0 1 lr 1,2 -1 2', 'ecc/*/fr/iop/expressions.go Evaluate:57-65; polynomial.go GetCoeff:156'),
 F('C20', 'C20 WriteTo/ReadFrom negative shift', '05a063a', 'WriteTo stores uint32(shift), ReadFrom read int(uint32): a negative shift came back as 2^32-|s|', 'C20 ser bn254 <q> 7 <w128> <g> 20 cr 1,2 S-1,w', 'ecc/*/fr/iop/polynomial.go WriteTo:405 / ReadFrom:456'),
 F('C20', 'C20 ToLagrangeCoset on a domain of size 1', 'de7cbd2', 'ToLagrangeCoset panicked on a domain of size 1 (cosetTable[1])', "", ""),
 F('C20', 'C20 BuildRatioShuffledVectors with a single pair', '2e0cf2c', 'checkSize iterated j over len(pols): BuildRatioShuffledVectors with a single pair panicked, extra polynomials went unchecked', "", ""),
 F('C20', 'C20 ratio builders, LagrangeCoset result: coset shift not recorded', '6c9b665', 'ratio builders / iop.Evaluate results in LagrangeCoset form left coset = 0 so Evaluate divided by 0', "", ""),
 F('C20', 'C20 EvalEq of zero variables', '8ab2819', 'EvalEq([],[]) returned 0 instead of 1', "", ""),
 F('C20', 'C20 Polynomial.Add with empty receiver and an empty operand', '272c0a9', 'Polynomial.Add panicked with an empty receiver and an empty operand', "", ""),
]

FINDINGS += [
 K("C13", "C13 MapToCurve1(0) off the isogenous curve (bls12-377 G1, bw6-761 G1)", "MapToCurve1(0) returns (0,0), which is not on the isogenous curve, on bls12-377 G1 (Z = 5) and bw6-761 G1 (Z = 2): g(B'/(Z·A')) is a non-square, i.e. the SSWU constant Z violates find_z_sswu criterion 4 (same root cause as the bw6-761 MapToG1 finding); MapToG1(0) then becomes infinity, which is a valid subgroup point, so only the pre-isogeny op sees it", r"^C13 mapc (bls12-377|bw6-761) g1 .* 0 inf$", r"^1 0 1 1", r"^1 X X X", "ecc/bls12-377/hash_to_curve/g1.go (Z), hash_to_g1.go steps 17-22", "C13 mapc bls12-377 g1 1 <p> <A'> 16 sswu 5 0 inf"),
]

FINDINGS += [
 F("C06", "C06 MulAccE4 on empty slices panics (AVX-512 path)", "36b4eb1", "koalabear/babybear MulAccE4 with empty slices panicked (&scale[0]) on the AVX-512 path while the generic path is a no-op", "C06 koalabear E4 mulacc 1,2,3,4 0", "field/{koalabear,babybear}/extensions/e4.go MulAccE4"),
]

FINDINGS += [
 F("C06", "C06 E12.DecompressKarabina tests g5 instead of g3 (bn254, bls12-381, bls12-377)", "fda1d37", "E12.DecompressKarabina / BatchDecompressKarabina branched on g5 while dividing by 4*g3: wrong g4/g0 for cyclotomic elements with g3 = 0 != g5 or g5 = 0 != g3 (also visible as the theorem E12.DecompressKarabina_g2_zero, which had to be restated after the fix)", "C06 bn254 E12 ksq 0 <X with C1.B0 = 0>", "ecc/{bn254,bls12-381,bls12-377}/internal/fptower/e12.go:231,311"),
]

FINDINGS += [
 F("C06", "C06 GT.IsInSubGroup(0) is true (bn254, bls12-377, bls24-315, bw6-761, bw6-633)", "d82b8dc", "E12/E24/E6.IsInSubGroup reported the zero element (not a unit, accepted by SetBytes) as a member of GT on bn254, bls12-377, bls24-315, bw6-761 and bw6-633: every test is of the form Frobenius^i(z) == chain(z) and both sides are 0", "C06 bn254 E12 insub 0,0,0,0,0,0,0,0,0,0,0,0", "ecc/*/internal/fptower/e12.go|e24.go|e6.go IsInSubGroup"),
]

FINDINGS += [
 F("C17", "C17 shplonk: claimed values not bound to gamma (overlapping opening sets)", "420bc96", "shplonk BatchOpen/BatchVerify derived the folding challenge gamma from the points and digests only; when a point belongs to two opening sets the false values y0 = f0(x)+d, y1 = f1(x)-d/gamma (chosen after reading gamma) verified without any trapdoor (7 curves; reported by the round-2 C17 seeding agent as a side observation on the clean tree)", "C17 shplonk bn254 ... mut=overlap i=0 j=0 m=<d>   (Go 1 before the fix; specification 0)", "ecc/*/shplonk/shplonk.go deriveChallenge, BatchOpen, BatchVerify"),
]

FINDINGS += [
 F("C11", "C11 kzg FoldProof / BatchVerifySinglePoint on the empty batch", "a88cea6", "FoldProof / BatchVerifySinglePoint panicked on an empty batch (gammai[0].SetOne() on an empty slice) while BatchVerifyMultiPoints returns ErrZeroNbDigests", "C11 batch1 bn254 <tau> <z> <H> <v> - -   (Go panic before the repair; model follows it: C11_batchSingle_empty)", "ecc/*/kzg/kzg.go FoldProof"),
 F("C07", "C07 Encoder.Encode hides a write error of an inner vector", "67f33d2", "Encoder.Encode of [][]fr.Element / [][][]fr.Element overwrote err in the loop over the inner vectors: a failed write of any inner vector but the last returned nil for a truncated stream (counterpart of the Decoder defect e71aab4)", "C07 senc <curve> frss with a writer failing inside the first inner vector", "ecc/*/marshal.go encode / encodeRaw"),
]

FINDINGS += [
 F("C17", "C17 permutation.Verify: size never checked to be a power of two", "a837c8b", "permutation.Verify (and through it plookup.VerifyLookupTables; same code in plookup.VerifyLookupVector) took size and g from the proof, never checked that size is a power of two and tested g only by g^(size/2) != 1, (g^(size/2))^2 = 1: size = 3 with g = -1, size = 6 with g = -1, size = 12 with g of order 4 passed, and a complete proof derived consistently for that (size, g) was accepted for two vectors that are not permutations of each other (theorem C17c_genCheck_not_primitive_np2; found by the mut=consist ops added for seed C17r3-2)", "C17 permutation bn254 tau=5 n=a t1=1,2,3 t2=a,14,1e t1b=- t2b=- mut=consist i=0 m=7 fm=3 pw2=0 fg=30644e72e131a029b85045b68181585d2833e84879b9709143e1f593f0000000   (Go 1 before the repair; model 0)", "ecc/*/fr/permutation/permutation.go Verify, ecc/*/fr/plookup/vector.go VerifyLookupVector"),
]

FINDINGS += [
 K("C07", 'C07 Encoder.BytesWritten miscounts a failed binary.Write', 'Encoder.BytesWritten is not the number of bytes the writer accepted when a Write issued through binary.Write fails (binary.Write drops the count): a failed write of a uint32 length prefix (encode / encodeRaw of []G1Affine, []G2Affine, [][]fr.Element, [][][]fr.Element; fr/fp.Vector.WriteTo for []fr.Element, fr.Vector, ...) of which the writer accepted 1..3 bytes is not counted at all, a failed write of a fixed-size integer (default case, uint8..uint64) is counted in full although only part of it was accepted. The error itself is reported. Only calls annotated `<accepted>!-a@4:a` (a in 1..3) or `<accepted>!+(len-a)@len:a` (len in 1,2,4,8) match; the other calls of the line must be plain numbers (compared exactly on lines without such a call) Not repaired: the exact count needs every binary.Write of marshal.go (10 packages + template) and the 0-on-error return of Vector.WriteTo (23 packages + template) rewritten; the error itself is always reported.', '^C07 sencn ', '^n=(?:(?:[0-9a-f]+|[0-9a-f]+!-([123])@4:\\1|[0-9a-f]+!\\+(?:1@1:0|2@2:0|1@2:1|4@4:0|3@4:1|2@4:2|1@4:3|8@8:0|7@8:1|6@8:2|5@8:3|4@8:4|3@8:5|2@8:6|1@8:7))(?:,|$))+$', '^n=[0-9a-f,]*$', 'ecc/*/marshal.go encode / encodeRaw (binary.Write of the slice length; default case enc.n += int64(n) on error), field/*/vector.go WriteTo (return 0, err)', 'C07 sencn bn254 0 2 frs:1  (go: n=2!-2@4:2, model: n=2);  C07 sencn bn254 0 3 u64:1  (go: n=3!+5@8:3, model: n=3)'),
]

FINDINGS += [
 F("C10", "C10 Domain.ReadFrom keeps the receiver's tables when the source has no precomputation", "31f68a3", "ReadFrom of a domain serialised WithoutPrecompute into a receiver that already held tables left the old twiddles / coset tables in place: CosetTable(), CosetTableInv(), Twiddles(), TwiddlesInv() returned the previous domain's tables (other shift, other size) with a nil error (found by the readintotab ops added for seed C10r3-1)", "C10 readintotab 8 5:1:7:n koalabear 7f000001 6832fe4a 3 dif 1 0 0 3 0 f017,20b6,aef6,a097,bc41,91af,58e9,82d   (Go: stale x4 before the repair; model: err x4)", "ecc/*/fr/fft/domain.go, field/*/fft/domain.go ReadFrom"),
]

FINDINGS += [
 # ---------------------------------------------------------------- fourth session (re-derived by the `obj` ops added after the round-4 seeding agents' side observations)
 F('C20', 'C20 grow of a BitReverse-layout polynomial', '459dbf6', 'polynomial.grow appended the zero coefficients at the end of the vector whatever the layout: a Canonical polynomial stored in BitReverse layout and converted (ToLagrange / ToCanonical / ToLagrangeCoset) on a LARGER domain became another polynomial (Evaluate changed; theorem C20_grow had the hypothesis Canonical/Regular, the excluded point was the defect; now C20_grow_bitreverse)', 'C20 obj bn254 <q> 7 <w> <g> <n> cb 1,1 D10,Ex,C2,B,Ex,F,K3,…  (Go cb/0/2/1,1,0,0; model cb/0/2/1,0,1,0)', 'ecc/*/fr/iop/polynomial.go grow'),
 F('C20', 'C20 ShallowClone keeps a stale coset shift', '6bf0f4d', 'Form lives in the shared *polynomial, coset was a field of the wrapper: after q := p.ShallowClone(); p.ToLagrangeCoset(d) the clone q is in LagrangeCoset form with coset = 0 and q.Evaluate(x) divides x by 0 (returns the constant coefficient)', 'C20 obj bn254 <q> 7 <w> <g> <n> cr <8 coeffs> D18,Ex,H,K4,Ex,x,F,Ex,…', 'ecc/*/fr/iop/polynomial.go Polynomial.coset / ShallowClone'),
 K('C20', 'C20 ToLagrangeCoset on an object already in LagrangeCoset form overwrites the coset shift', 'ToLagrangeCoset(d) stores d.FrMultiplicativeGen into p.coset BEFORE its early return for objects that are already in LagrangeCoset form: a second call with a domain of another shift leaves the values untouched but replaces the shift, so Evaluate (and everything built on it) denotes another polynomial. Not repaired: that early assignment is currently the only way an object CREATED directly in LagrangeCoset form (NewPolynomial(v, Form{LagrangeCoset, …})) receives its shift, so the repair needs a design decision (constructor argument or "set only when zero"); only `obj` lines whose script converts onto a coset, evaluates, then calls K again under another d<shift> match', r'^C20 obj \S+ [0-9a-f]+ 7 [0-9a-f]+ [0-9a-f]+ [0-9a-f]+ [clk][rb] \S+ (?:d[0-9a-f]+,)?(?:K[0-9a-f]+,){1,2}(?:d[0-9a-f]+,K[0-9a-f]+,)?E[0-9a-f]+,d[0-9a-f]+,K[0-9a-f]+,F,E', r'^[0-9a-f]+ k[rb]/0/[0-9a-f]+/[0-9a-f,]+ [0-9a-f]+ ', r'^[0-9a-f]+ k[rb]/0/[0-9a-f]+/[0-9a-f,]+ [0-9a-f]+ ', 'ecc/*/fr/iop/polynomial.go ToLagrangeCoset:369', ''),
]
