#!/usr/bin/env python3
"""Generates lean/GnarkVerif/Props/C01_limb_<f>.lean for the one-word 31-bit fields (koalabear, babybear): the word-level Go
code (montReduce with a 64-bit accumulator, Mul, Square, fromMont, reduce, Add, Sub, Neg, Double, Halve; Gen/Limb/<F>.lean is
regenerated on every run) equals the value-level model GV.Field as EQUALITIES on all canonical inputs.
Static reviewed text. Usage: bin/mkc01limb3.py koalabear babybear"""
import re, sys, os
LEAN = os.path.join(os.path.dirname(os.path.abspath(__file__)), '..', os.environ.get('LEANDIR', 'lean'), 'GnarkVerif')

def consts(field):
    s = open(os.path.join(LEAN, 'Gen', 'Fields.lean')).read()
    m = re.search(r'def %s : FieldConsts := \{(.*?)rSquare' % field, s, re.S)
    body = m.group(1)
    return int(re.search(r'\bq := (\d+)', body).group(1)), int(re.search(r'qInvNeg := (\d+)', body).group(1))

def gen(f):
    q, qinv = consts(f)
    F = f[0].upper() + f[1:]
    W = 2**32
    T = f"""import GnarkVerif.Proofs.Limb
import GnarkVerif.Gen.Limb.{F}
/-
C01_limb ({f}, one 32-bit word, products in a 64-bit accumulator) — the limb code of field/{f} (Gen/Limb/{F}.lean, regenerated
on every run) equals the value-level model `GV.Field` on ALL canonical inputs, as equalities `Op x y = GV.Field.op P x y`:
`montReduce` (REDC of a 64-bit value `v < q·2^32`: `m = (v mod 2^32)·qInvNeg mod 2^32`, `t = (v + m·q) / 2^32`, one conditional
subtraction), `Mul`, `Square`, `fromMontGeneric`, `reduceGeneric`, `Add`, `Sub`, `Neg`, `Double`, `Halve`, `smallerThanModulus`.
-/
set_option maxRecDepth 100000
namespace GV.Limb.{f}
open GV.Field GV.Limb GV.Gen.Limb.{f}

abbrev P : Params := ofConsts GV.Gen.{f}
theorem P_ok : P.OK := Params.OK_of_okb _ (by decide +kernel)
theorem P_q : P.q = {q} := by decide +kernel
theorem P_W : P.W = {W} := by decide +kernel

/-- REDC on the 64-bit accumulator: for every `v < q·2^32` the result is `< q`, and `result·2^32 ≡ v (mod q)` through the
explicit quotient `R = (v + m·q)/2^32 < 2q` with a word-sized Montgomery factor `m` -/
theorem montReduce_lin (v : Nat) (hv : v < {q} * {W}) :
    ∃ R m, m < {W} ∧ R * {W} = v + m * {q} ∧ R < 2 * {q} ∧
      montReduce v = (if R ≥ {q} then R - {q} else R) := by
  unfold montReduce
  limb_start
  have hdiv : (v + m_1 * {q}) % {W} = 0 := by omega
  refine ⟨(v + m_1 * {q}) / {W}, m_1, by omega, by omega, by omega, ?_⟩
  have ht : t_1 = (v + m_1 * {q}) / {W} := by omega
  rw [← ht]
  by_cases hge : t_1 ≥ {q}
  · subst_ites [hge]
    rw [if_pos hge]
    omega
  · subst_ites [hge]
    rw [if_neg hge]

theorem montReduce_spec (x y : Nat) (hx : x < P.q) (hy : y < P.q) :
    montReduce (x * y) = GV.Field.mul P x y := by
  have hq := P_q
  have hv : x * y < {q} * {W} := by
    rw [hq] at hx hy
    calc x * y ≤ {q} * y := Nat.mul_le_mul_right _ (by omega)
      _ < {q} * {W} := Nat.mul_lt_mul_of_pos_left (by omega) (by omega)
  obtain ⟨R, m, hm, e, hR2, hres⟩ := montReduce_lin (x * y) hv
  have hy' : y < P.W := by rw [P_W]; rw [hq] at hy; omega
  have hR : R = ciosStep P x 0 y := by
    apply ciosStep_of_lin P P_ok _ _ _ _ m (by rw [P_W]; exact hm)
    rw [P_W, P_q]
    linarith
  rw [hres]
  unfold GV.Field.mul
  rw [show y = limbsVal P.w [y] from by simp [limbsVal],
    montRaw_limbs P _ [y] (by intro z hz; simp only [List.mem_cons, List.not_mem_nil, or_false] at hz; subst hz; exact hy') rfl]
  rw [List.foldl_cons, List.foldl_nil, ← hR]
  unfold reduceOnce
  rw [P_q]

/-- **C01_limb Mul** (the 32×32→64 product does not wrap) -/
theorem Mul_spec (x y : Nat) (hx : x < P.q) (hy : y < P.q) :
    Gen.Limb.{f}.Mul x y = GV.Field.mul P x y := by
  rw [← montReduce_spec x y hx hy]
  have hq := P_q
  rw [hq] at hx hy
  have hv : x * y < 18446744073709551616 := by
    calc x * y ≤ {q} * y := Nat.mul_le_mul_right _ (by omega)
      _ < {q} * {W} := Nat.mul_lt_mul_of_pos_left (by omega) (by omega)
      _ < 18446744073709551616 := by decide
  unfold Gen.Limb.{f}.Mul montReduce
  rw [Nat.mod_eq_of_lt hv]
example := Mul_spec 5 7 (by decide +kernel) (by decide +kernel)

theorem Square_spec (x : Nat) (hx : x < P.q) : Gen.Limb.{f}.Square x = GV.Field.square P x := by
  have : Gen.Limb.{f}.Square x = Gen.Limb.{f}.Mul x x := rfl
  rw [this, Mul_spec x x hx hx]; rfl

/-- `fromMont` is REDC of the value itself -/
theorem fromMontGeneric_spec (z : Nat) (hz : z < P.q) :
    Gen.Limb.{f}.fromMontGeneric z = GV.Field.fromMont P z := by
  have h1 : Gen.Limb.{f}.fromMontGeneric z = montReduce (z * 1) := by rw [Nat.mul_one]; rfl
  have hq := P_q
  rw [h1, montReduce_spec z 1 hz (by rw [hq]; decide)]
  rfl

theorem reduceGeneric_spec (z : Nat) (hz : z < 2 * P.q) (hw : z < {W}) :
    Gen.Limb.{f}.reduceGeneric z = GV.Field.reduceOnce P z := by
  unfold GV.Field.reduceOnce
  rw [P_q] at hz ⊢
  unfold Gen.Limb.{f}.reduceGeneric
  limb_start
  by_cases h : z < {q}
  · have h' : ¬ ¬ z < {q} := fun c => c h
    subst_ites [h']
    rw [if_neg (by omega)]
  · subst_ites [h]
    rw [if_pos (by omega)]
    omega

theorem Add_spec (x y : Nat) (hx : x < P.q) (hy : y < P.q) :
    Gen.Limb.{f}.Add x y = GV.Field.add P x y := by
  unfold GV.Field.add reduceOnce
  rw [P_q] at hx hy ⊢
  unfold Gen.Limb.{f}.Add
  limb_start
  by_cases h : t_1 ≥ {q}
  · subst_ites [h]
    rw [if_pos (by omega)]; omega
  · subst_ites [h]
    rw [if_neg (by omega)]; omega
example := Add_spec 5 7 (by decide +kernel) (by decide +kernel)

theorem Double_spec (x : Nat) (hx : x < P.q) :
    Gen.Limb.{f}.Double x = GV.Field.double P x := by
  unfold GV.Field.double reduceOnce
  rw [P_q] at hx ⊢
  unfold Gen.Limb.{f}.Double
  limb_start
  by_cases h : t_1 ≥ {q}
  · subst_ites [h]
    rw [if_pos (by omega)]; omega
  · subst_ites [h]
    rw [if_neg (by omega)]; omega

theorem Sub_spec (x y : Nat) (hx : x < P.q) (hy : y < P.q) :
    Gen.Limb.{f}.Sub x y = GV.Field.sub P x y := by
  unfold GV.Field.sub
  rw [P_q] at hx hy ⊢
  unfold Gen.Limb.{f}.Sub
  limb_start
  by_cases hcond : b_1 ≠ 0
  · subst_ites [hcond]
    by_cases h : x < y
    · rw [if_pos h]; omega
    · rw [if_neg h]; omega
  · subst_ites [hcond]
    by_cases h : x < y
    · rw [if_pos h]; omega
    · rw [if_neg h]; omega
example := Sub_spec 5 7 (by decide +kernel) (by decide +kernel)

theorem Neg_spec (x : Nat) (hx : x < P.q) :
    Gen.Limb.{f}.Neg x = GV.Field.neg P x := by
  unfold GV.Field.neg
  rw [P_q] at hx ⊢
  unfold Gen.Limb.{f}.Neg
  limb_start
  by_cases h : x = 0
  · subst_ites [h]
    rw [if_pos h]
  · subst_ites [h]
    rw [if_neg h]
    omega

/-- **C01_limb Halve** (q < 2^31, so `z + q` never wraps the 32-bit word) -/
theorem Halve_spec (x : Nat) (hx : x < P.q) :
    Gen.Limb.{f}.Halve x = GV.Field.halve P x := by
  unfold GV.Field.halve
  rw [P_q] at hx ⊢
  unfold Gen.Limb.{f}.Halve
  limb_start
  by_cases h : x % 2 = 1
  · subst_ites [h]
    rw [if_pos h]; omega
  · subst_ites [h]
    rw [if_neg h]; omega
example := Halve_spec 5 (by decide +kernel)

theorem smaller_iff (z : Nat) : Gen.Limb.{f}.smallerThanModulus z ↔ z < P.q := by
  rw [P_q]; rfl

end GV.Limb.{f}
"""
    open(os.path.join(LEAN, 'Props', f'C01_limb_{f}.lean'), 'w').write(T)

if __name__ == "__main__":
    for f in sys.argv[1:]:
        gen(f)
