import GnarkVerif.Props.C19_curve
#print axioms GV.Gen.Curve.bn254.C19_G1Jac_AddAssign_p_eq_q
#print axioms GV.Gen.Curve.bn254.C19_G1Jac_SubAssign_p_eq_q
#print axioms GV.Gen.Curve.bn254.C19_G1Jac_Double_p_eq_q
#print axioms GV.Gen.Curve.bn254.C19_G1Affine_Add_all
#print axioms GV.Gen.Curve.bn254.C19_G1Affine_Add_p_eq_a
#print axioms GV.Gen.Curve.bn254.C19_g1JacExtended_add_p_eq_q
#print axioms GV.Gen.Curve.te_bn254.C19_PointExtended_Add_all
#print axioms GV.Gen.Curve.bn254.G2Affine.Add_all_alias
#print axioms GV.Gen.Curve.bls24_315.G2Jac.AddAssign_p_eq_q_alias
#print axioms GV.Gen.Curve.stark_curve.g1JacExtended.add_p_eq_q_alias
