import GnarkVerif.Props.C01_expgen
open GV.ExpGen
#print axioms C01expgen_nat
#print axioms C01expgen_zpow
#print axioms Exp_hom
#print axioms C01expgen_field
#print axioms C01expgen_eq_model
#print axioms C01expgen_all_zpow
#print axioms C01expgen_all_field
#print axioms C01expgen_all_packages
