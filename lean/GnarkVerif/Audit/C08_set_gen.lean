import GnarkVerif.Props.C08_set_gen
open GV.SetGen
#print axioms C08setgen_consts
#print axioms C08setgen_setBigInt_dispatch
#print axioms C08setgen_setBigInt
#print axioms C08setgen_setString
#print axioms C08setgen_setInt64
#print axioms GV.Gen.Imp.SetAll.allPkgs_same
