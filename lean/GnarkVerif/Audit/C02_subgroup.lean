import GnarkVerif.Props.C02_subgroup
#print axioms GV.Subgroup.phiPt_add
#print axioms GV.Subgroup.JacPt.phi
#print axioms GV.Subgroup.eigen_on_cyclic
#print axioms GV.Gen.Curve.bls12_381.C02sub_G1Jac_mulBySeed
#print axioms GV.Gen.Curve.bls12_381.C02sub_G1Jac_mulBySeed_inplace
#print axioms GV.Gen.Curve.bls12_381.C02sub_G1Jac_phi
#print axioms GV.Gen.Curve.bls12_381.C02sub_G1Jac_IsInSubGroup_spec
#print axioms GV.Gen.Curve.bls12_381.C02sub_G1Jac_IsOnCurve_of_rep
#print axioms GV.Gen.Curve.bls12_381.C02sub_g1_seed_lambda_r
#print axioms GV.Gen.Curve.bls12_381.C02sub_G1Jac_IsInSubGroup_complete
#print axioms GV.Gen.Curve.bls12_381.C02sub_G1Jac_IsInSubGroup_on_generated
#print axioms GV.Gen.Curve.bls12_381.C02sub_G1Jac_IsInSubGroup_sound
#print axioms GV.Gen.Curve.bls12_381.C02sub_G1Affine_IsInSubGroup_spec
#print axioms GV.Gen.Curve.bls12_381.C02sub_G1Jac_ClearCofactor
#print axioms GV.Gen.Curve.bls12_381.C02sub_G1Affine_ClearCofactor
#print axioms GV.Gen.Curve.bls12_381.C02sub_G1Jac_ClearCofactor_torsion
