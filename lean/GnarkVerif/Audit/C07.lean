import GnarkVerif.Props.C07
open GV.PointCodec
#print axioms C07_roundtrip_compressed
#print axioms C07_roundtrip_raw
#print axioms C07_accept
#print axioms C07_accept_flag
#print axioms C07_canonical
#print axioms C07_local
#print axioms C07_decode_point_iff
#print axioms C07_stream_roundtrip_value
#print axioms C07_stream_roundtrip
#print axioms C07_counter_bounded
#print axioms C07_counter_bounded_seq
#print axioms C07_counter_prefix
#print axioms C07_counter_written
#print axioms C07_error_propagates
#print axioms C07_error_propagates_nested
#print axioms C07_error_propagates_nested3
#print axioms C07_nested_accept
#print axioms C07_slice_items_validated
#print axioms C07_slice_error_phase1
#print axioms C07_slice_error_phase2
#print axioms C07_base_OK
#print axioms C07_G1_OK
#print axioms C07_G2fp_OK
#print axioms C07_history_independent
#print axioms toy_OK
