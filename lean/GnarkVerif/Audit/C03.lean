import GnarkVerif.Props.C03
open GV.ScalarMul
#print axioms C03_mulWindowed
#print axioms C03_teScalarMul
#print axioms C03_split_any_rounding
#print axioms C03_splitScalar
#print axioms C03_precomputeLattice
#print axioms C03_split_precomputed
#print axioms C03_jointScalarMul
#print axioms C03_jointScalarMulC
#print axioms C03_mulGLV
#print axioms C03_mulGLVLattice
#print axioms C03_variants_agree
#print axioms C03_selectDigit
#print axioms C03_recode_sum
#print axioms C03_recode_bounds
#print axioms C03_decode_encode
#print axioms C03_batchWith
#print axioms C03_winScalar_lt
#print axioms C03_winScalar_window
#print axioms C03_batchSampleWin
#print axioms lazyTable_eq
#print axioms batchOneF_getD
#print axioms C03_jointPanics_iff
#print axioms C03_alias_by_value
#print axioms C03_alias_irrelevant
