import GnarkVerif.Props.C13_h2f_gen
open GV.H2FGen
#print axioms C13h2fgen_consts
#print axioms C13h2fgen_setBigInt
#print axioms C13h2fgen_setBigInt_dispatch
#print axioms C13h2fgen_eq
#print axioms C13h2fgen_sha256
#print axioms C13h2fgen_count_reduced
#print axioms C13h2fgen_errors
#print axioms C13h2fgen_elements
#print axioms C13h2fgen_count_zero
#print axioms C13h2fgen_negative_count_dst
#print axioms GV.Gen.Imp.H2FAll.allPkgs_same
