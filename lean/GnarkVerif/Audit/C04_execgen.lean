import GnarkVerif.Props.C04_execgen
open GV.ExecuteGen
#print axioms C04execgen_one
#print axioms C04execgen_default
#print axioms C18execgen_one
#print axioms C04execgen_tiles
#print axioms C04execgen_tiles_default
#print axioms C18execgen_tiles
