import GnarkVerif.Props.C13
open GV.HashToField
#print axioms C13_xmd_length
#print axioms C13_xmdSha256_length
#print axioms C13_xmd_error_iff
#print axioms C13_xmd_sha256_errors
#print axioms C13_xmd_spec
#print axioms C13_xmd_block_chain
#print axioms C13_hashToField_count_reduced
#print axioms C13_hashToField_eq
#print axioms C13_hashToField_error_iff
#print axioms C13_L_table
#print axioms C13_hist_state
#print axioms C13_hist_state_after_reset
#print axioms C13_hist_answer
#print axioms C13_hist_sum
#print axioms C13_hist_sum_fresh
#print axioms C13_hist_concat_only
#print axioms C13_hist_sum_idempotent
#print axioms C13_hist_digest_spec
#print axioms C13_svdw_x_square
#print axioms C13_svdw_on_curve
#print axioms C13_svdw_sign
#print axioms C13_svdw_on_curve_finite
#print axioms C13_sswu_on_curve
