import GnarkVerif.Props.C14_mimc_gen_enc
open GV.MiMC.DigestGen
#print axioms C14mimcgen_enc_bn254
#print axioms C14mimcgen_run_zmod_bn254
#print axioms C14mimcgen_enc_bls12_381
#print axioms C14mimcgen_run_zmod_bls12_381
#print axioms C14mimcgen_enc_bls12_377
#print axioms C14mimcgen_run_zmod_bls12_377
#print axioms C14mimcgen_enc_bw6_761
#print axioms C14mimcgen_run_zmod_bw6_761
#print axioms C14mimcgen_enc_bls24_315
#print axioms C14mimcgen_run_zmod_bls24_315
#print axioms C14mimcgen_enc_bls24_317
#print axioms C14mimcgen_run_zmod_bls24_317
#print axioms C14mimcgen_enc_bw6_633
#print axioms C14mimcgen_run_zmod_bw6_633
#print axioms C14mimcgen_enc_grumpkin
#print axioms C14mimcgen_run_zmod_grumpkin
