import GnarkVerif.Props.C15
open GV.Transcript
#print axioms C15_error_leaves_state
#print axioms C15_inv_step
#print axioms C15_reachable_inv
#print axioms C15_compute_is_spec
#print axioms C15_recompute_same
#print axioms C15_bind_ok
