import GnarkVerif.Props.C15
open GV.Transcript
#print axioms C15_unchanged_or_no_error
#print axioms C15_error_leaves_state
#print axioms C15_inv_step
#print axioms C15_reachable_inv
#print axioms C15_compute_is_spec
#print axioms C15_recompute_same
#print axioms C15_bind_ok
#print axioms C15_refused_write
#print axioms C15_refused_name
#print axioms C15_hash_error_only_if_refused
#print axioms C15_stream_spec
#print axioms C15_stream_no_hash_error
