import GnarkVerif.Props.C11
open GV.KZG
#print axioms C11_toPoly_coeff
#print axioms C11_eval_horner
#print axioms C11_divide_remainder
#print axioms C11_divide
#print axioms C11_divide_length
#print axioms C11_divide_const
#print axioms C11_commit_is_eval
#print axioms C11_verify_iff
#print axioms C11_completeness
#print axioms C11_size_errors
#print axioms C11_reject_altered_value
#print axioms C11_reject_altered_commitment
#print axioms C11_reject_altered_quotient
#print axioms C11_quotient_free_at_trapdoor
#print axioms C11_reject_altered_point
#print axioms C11_key_reuse
#print axioms C11_foldProof
#print axioms C11_batchSingle_is_verify_folded
#print axioms C11_batchSingle_iff
#print axioms C11_batchSingle_errors
#print axioms C11_multi_iff
#print axioms C11_multi_all_true
#print axioms C11_multi_false_exists_reject
#print axioms C11_multi_lambda_unique
#print axioms C11_multi_errors
#print axioms C11_batchOpen_complete
