import GnarkVerif.Props.C18
open GV.ForkJoin
#print axioms C18_step_comm
#print axioms C18_fork_join
#print axioms C18_fork_join_two
#print axioms C18_schedule_irrelevant
#print axioms C18_each_as_alone
#print axioms C18_execute_tiles
#print axioms C18_execute_tiles_numcpu
#print axioms C18_execute_cover
#print axioms C18_execute_bound
#print axioms C18_execute_disjoint
#print axioms C18_execute_nbTasks
#print axioms C18_tiled_kernel_deterministic
#print axioms C18_tiled_kernel_value
#print axioms C18_execute_kernel
#print axioms C18_shared_scratch_not_independent
#print axioms C18_shared_scratch_race
#print axioms C18_once_atomic
#print axioms C18_once_invariant
#print axioms C18_once_all_observe_same
#print axioms C18_once_mutex
#print axioms C18_pool_no_leak
#print axioms C18_overwrite_before_read
#print axioms C18_pool_program_no_leak
