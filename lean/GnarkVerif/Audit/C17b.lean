import GnarkVerif.Props.C17b
open GV.ArgHash
#print axioms C17b_evalLagrange_is_interpolant
#print axioms C17b_rs_iff_low_degree
#print axioms C17b_merkle_complete
#print axioms C17b_merkle_sound
#print axioms C17b_vortex_complete
#print axioms C17b_vortex_accept_structure
#print axioms C17b_forge_UAlpha_shift
#print axioms C17b_forge_claim
#print axioms C17b_forge_rs_spike
#print axioms C17b_forge_col_kernel
#print axioms C17b_forge_merkle_sibling
#print axioms C17b_fold_degree
#print axioms C17b_fold_consistency
#print axioms C17b_fri_round_honest
#print axioms C17b_fri_final_constant
#print axioms C17b_foldVal_inj_left
#print axioms C17b_foldVal_inj_right
#print axioms C17b_convert_unsort
#print axioms C17b_unsort_convert
#print axioms C17b_fiber
#print axioms C17b_koala_root
#print axioms C17b_friSpec_iff
