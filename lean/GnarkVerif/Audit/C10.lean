import GnarkVerif.Props.C10
open GV.FFT
#print axioms C10_evals_spec
#print axioms C10_FFT_DIF
#print axioms C10_FFT_DIT
#print axioms C10_inverse_DIT_of_DIF
#print axioms C10_inverse_DIF_of_DIT
#print axioms C10_bitReverse_involution
#print axioms C10_bitReverse_index
#print axioms C10_bitrevDigest
#print axioms C10_options_irrelevant
#print axioms C10_forward_of_inverse
#print axioms C10_generator_order
#print axioms C10_driver_instance
#print axioms C10_driver_FFT_DIF
#print axioms C10_domain_roundtrip
#print axioms C10_readFrom_chunking
#print axioms C10_readInto_receiver_irrelevant
#print axioms C10_readInto_roundtrip
#print axioms C10_readIntoAnswer_receiver_irrelevant
#print axioms C10_stream_roundtrip
#print axioms C10_generatorOf_defined
