import GnarkVerif.Props.C19_tower
open GV.Gen.Tower.bn254
#print axioms C19_E12_Mul_z_eq_x
#print axioms C19_E12_Mul_z_eq_y
#print axioms C19_E12_Mul_x_eq_y
#print axioms C19_E12_Mul_all
#print axioms C19_E12_Square_z_eq_x
#print axioms C19_E12_Inverse_z_eq_x
#print axioms C19_E12_CyclotomicSquare_z_eq_x
#print axioms C19_E6_Mul_all
#print axioms C19_E6_Inverse_z_eq_x
#print axioms C19_E2_Mul_all
#print axioms C19_E2_Inverse_z_eq_x
#print axioms C19_E12_MulBy034_c_all
#print axioms E12.Mul_all_alias
#print axioms E12.DecompressKarabina_z_eq_x_alias
#print axioms GV.Gen.Tower.bls24_315.E24.Mul_z_eq_x_alias
#print axioms GV.Gen.Tower.koalabear.E4.Mul_all_alias
