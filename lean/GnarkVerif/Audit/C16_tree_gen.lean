import GnarkVerif.Props.C16_tree_gen
open GV.MerkleTreeGen
#print axioms C16tree_abstract_pinned
#print axioms C16tree_new
#print axioms C16tree_push
#print axioms C16tree_root
#print axioms C16tree_prove
#print axioms C16tree_setIndex
#print axioms C16tree_pushSubTree
#print axioms C16tree_step
#print axioms C16tree_run
#print axioms C16tree_history
#print axioms C16tree_start
#print axioms C16tree_root_eq_MTH
#print axioms C16tree_prove_verifies
#print axioms C16tree_readAll
