import GnarkVerif.Props.C19
open GV.Alias
#print axioms C19_copyIn_aliasSafe
#print axioms C19_result_depends_on_values
#print axioms C19_prim_aliasSafe
#print axioms C19_prim_loc_aliasSafe
#print axioms C19_strict_copyIn
#print axioms C19_strict_aliasSafe
#print axioms C19_vec_aliasSafe
#print axioms C19_naiveMul_not_aliasSafe
#print axioms C19_karabinaShape_not_aliasSafe
#print axioms C19_strict_interiorSafe
#print axioms C19_mixed_interiorSafe
#print axioms C19_mulByElementCopy_interiorSafe
#print axioms C19_mulByElementNoCopy_not_interiorSafe
