import GnarkVerif.Props.C07_comp
open GV.PointCodec
#print axioms C07_comp_read_error_first
#print axioms C07_comp_read_no_hidden_error
#print axioms C07_comp_chunks
#print axioms C07_comp_write_no_hidden_error
#print axioms C07_ted_accept
