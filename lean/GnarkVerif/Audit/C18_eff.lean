import GnarkVerif.Props.C18_eff
open GV.Eff
#print axioms C18eff_frame
#print axioms C18eff_closure_sound
#print axioms C18eff_policy_frame
#print axioms C18eff_disjoint_calls
#print axioms C18eff_both_orders
#print axioms C18eff_ids
#print axioms C18eff_closed
#print axioms C18eff_policy
#print axioms C18eff_violators
#print axioms C18eff_exported_frame
#print axioms C18eff_all_frame
#print axioms C18eff_nonempty
