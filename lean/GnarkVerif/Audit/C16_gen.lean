import GnarkVerif.Props.C16_gen
open GV.MerkleGen
#print axioms C16gen_verify
#print axioms C16gen_abstract_pinned
#print axioms C16gen_verify_complete
#print axioms C16gen_verify_sound
#print axioms C16gen_rejects
