import GnarkVerif.Props.C03_loop_gen
open GV.ScalarMulGen
#print axioms C03loop_mulWindowed_refines
#print axioms C03loop_mulWindowed_refines_all
#print axioms C03loop_mulWindowed_smul
#print axioms C03loop_mulWindowed_smul_all
#print axioms C03loop_mulWindowed_frame
#print axioms C03loop_te_refines
#print axioms C03loop_te_refines_all
#print axioms C03loop_te_ScalarMultiplication_all
#print axioms C03loop_te_smul
#print axioms C03loop_te_smul_all
#print axioms C03loop_variants_agree
