import GnarkVerif.Props.C03_loop_gen
open GV.ScalarMulGen
#print axioms C03loop_mulWindowed_refines
#print axioms C03loop_mulWindowed_refines_all
#print axioms C03loop_mulWindowed_smul
#print axioms C03loop_mulWindowed_smul_all
#print axioms C03loop_mulWindowed_frame
#print axioms C03loop_te_refines
#print axioms C03loop_te_refines_all
#print axioms C03loop_te_ScalarMultiplication_all
#print axioms C03loop_te_smul
#print axioms C03loop_te_smul_all
#print axioms C03loop_variants_agree
#print axioms C03loop_joint_word_partial
#print axioms C03loop_joint_loop_partial
#print axioms C03loop_glv_word_partial
#print axioms C03loop_glv_loop_partial
#print axioms C03loop_shamir_all_packages
