import GnarkVerif.Props.C19_recv
open GV.C19
#print axioms C19_receiver_reads
