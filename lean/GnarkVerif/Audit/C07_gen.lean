import GnarkVerif.Props.C07_gen
open GV.PointCodec
#print axioms C07gen_same_curves
#print axioms C07gen_layout
#print axioms C07gen_flag_values
#print axioms C07gen_classify
#print axioms C07gen_invalid
#print axioms C07gen_flags_distinct
#print axioms C07gen_flag_bits_free
#print axioms C07gen_flag_bits_tight
#print axioms C07gen_sizes
