import GnarkVerif.Props.C01_loops_gen
open GV.FieldLoopsGen
#print axioms batchInvert_eq_batchG
#print axioms fnBitsOK
#print axioms C01gen_batchInvert_eq_model
#print axioms C01gen_batchInvert
#print axioms C01gen_batchInvert_abs
#print axioms C01gen_batchInvert_field
#print axioms C01gen_legendre_eq_model
#print axioms C01gen_legendre_chain
#print axioms C01gen_legendre
#print axioms C01gen_inverse_tail
#print axioms C01gen_inverse_tail_zero
