import GnarkVerif.Props.C16
open GV.Merkle
#print axioms C16_MTH_single
#print axioms C16_MTH_split
#print axioms C16_root_eq_MTH
#print axioms C16_prove_eq_PATH
#print axioms C16_prove_unreached
#print axioms C16_verify_complete
#print axioms C16_prove_verifies
#print axioms C16_verify_sound
#print axioms C16_verify_rejects_out_of_range
#print axioms C16_verify_rejects_nil
#print axioms C16_verify_rejects_tampered
#print axioms C16_verify_other_index
#print axioms C16_verify_rejects_wrong_root
#print axioms C16_pushSubTree_refines
#print axioms C16_pushSubTree_refuses_proof_index
#print axioms C16_cached_subtree_same_tree
#print axioms C16_readAll_is_push
#print axioms C16_chunks_flatten
#print axioms C16_vortex_complete
#print axioms C16_vortex_complete_leaf
#print axioms C16_vortex_sound
#print axioms C16_vortex_rejects_out_of_range
#print axioms C16_vortex_open_range
#print axioms C16_vortex_go_ignores_high_index_bits
#print axioms C16_vortex_go_sound_mod
