import GnarkVerif.Props.C04_recode_gen
open GV.RecodeGen
#print axioms C04recode_scalar
#print axioms C04recode_sum
#print axioms C04recode_decodes
#print axioms C04recode_index_inj
#print axioms C04recode_stats
#print axioms C04recode_stats_pinned
#print axioms C04recode_packages
