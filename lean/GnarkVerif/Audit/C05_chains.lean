import GnarkVerif.Props.C05_chains
#print axioms GV.Chain.C05_seed_bn254
#print axioms GV.Chain.C05_seed_bls12_377
#print axioms GV.Chain.C05_seed_bls12_381
