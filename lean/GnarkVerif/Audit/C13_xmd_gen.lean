import GnarkVerif.Props.C13_xmd_gen
open GV.XmdGen
#print axioms C13xmdgen_eq
#print axioms C13xmdgen_sha256
#print axioms C13xmdgen_length
#print axioms C13xmdgen_errors
#print axioms C13xmdgen_spec
