import GnarkVerif.Props.C03_chains_points
#print axioms GV.Gen.Curve.bn254.C03_mulBySeed_G1
#print axioms GV.Gen.Curve.bn254.C03_mulBySeed_G2
#print axioms GV.Gen.Curve.bls12_377.C03_mulBySeed_G1
#print axioms GV.Gen.Curve.bls12_377.C03_mulBySeed_G2
#print axioms GV.Gen.Curve.bls12_381.C03_mulBySeed_G1
#print axioms GV.Gen.Curve.bls12_381.C03_mulBySeed_G2
#print axioms GV.Gen.Curve.bw6_761.C03_mulBySeed_G1
#print axioms GV.Gen.Curve.bw6_761.C03_mulBySeed_G2
