import GnarkVerif.Props.C15_gen
open GV.Transcript.Gen
#print axioms C15gen_init
#print axioms C15gen_bind
#print axioms C15gen_compute
#print axioms C15gen_bind_error_unchanged
#print axioms C15gen_compute_error_unchanged
#print axioms C15gen_step
#print axioms C15gen_run_from
#print axioms C15gen_run
#print axioms C15gen_compute_is_spec
#print axioms C15gen_error_leaves_state
#print axioms C15gen_bind_hasher
#print axioms C15gen_hasher_clean
