import GnarkVerif.Props.C06_dirty
#print axioms GV.TowerOps.C06_dirty_by_value
#print axioms GV.TowerOps.C06_dirty_irrelevant
#print axioms GV.TowerOps.C06_dirty_transparent
#print axioms GV.TowerOps.C06_dirty_lvl
#print axioms GV.TowerOps.C06_dirty_top
#print axioms GV.TowerOps.C06_dirty_ksq
#print axioms GV.TowerOps.C06_dirty_kbatch
