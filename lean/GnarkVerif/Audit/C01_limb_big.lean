import GnarkVerif.Props.C01_limb_big
open GV.Limb
#print axioms bw6_633_fp.Mul_s0_spec
#print axioms bw6_633_fp.Mul_s1_spec
#print axioms bw6_633_fp.Mul_s2_spec
#print axioms bw6_633_fp.Mul_s3_spec
#print axioms bw6_633_fp.Mul_s4_spec
#print axioms bw6_633_fp.Mul_s5_spec
#print axioms bw6_633_fp.Mul_s6_spec
#print axioms bw6_633_fp.Mul_s7_spec
#print axioms bw6_633_fp.Mul_s8_spec
#print axioms bw6_633_fp.Mul_s9_spec
#print axioms bw6_633_fp.Mul_s10_spec
#print axioms bw6_761_fp.Mul_s0_spec
#print axioms bw6_761_fp.Mul_s1_spec
#print axioms bw6_761_fp.Mul_s2_spec
#print axioms bw6_761_fp.Mul_s3_spec
#print axioms bw6_761_fp.Mul_s4_spec
#print axioms bw6_761_fp.Mul_s5_spec
#print axioms bw6_761_fp.Mul_s6_spec
#print axioms bw6_761_fp.Mul_s7_spec
#print axioms bw6_761_fp.Mul_s8_spec
#print axioms bw6_761_fp.Mul_s9_spec
#print axioms bw6_761_fp.Mul_s10_spec
#print axioms bw6_761_fp.Mul_s11_spec
#print axioms bw6_761_fp.Mul_s12_spec
