import GnarkVerif.Props.C20_eval_gen
open GV.Poly
#print axioms C20evalgen_abstraction_surjective
#print axioms C20evalgen_evaluate_eq
#print axioms C20evalgen_Evaluate_eq
#print axioms C20evalgen_GetCoeff_eq
#print axioms C20evalgen_smallExp
#print axioms C20evalgen_getCoeff_index
#print axioms C20evalgen_evaluate
#print axioms C20evalgen_evaluate_invariant
#print axioms C20evalgen_getCoeff_lagrange
#print axioms C20evalgen_revSpec_of_bits
#print axioms exRevSpec
#print axioms exPrimsFor
