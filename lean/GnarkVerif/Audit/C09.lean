import GnarkVerif.Props.C09
open GV.VecGlue
#print axioms C09_zipGlue
#print axioms C09_mapGlue
#print axioms C09_foldGlue
#print axioms C09_flag_irrelevant
