import GnarkVerif.Model.MiMC
import Mathlib.Tactic.Ring
import Mathlib.Data.List.Basic
import Mathlib.Data.List.Induction
/-
Helper lemmas for the MiMC part of C14: S-box chains, byte codec round trips, block decoding, Miyaguchi–Preneel folds.
-/
namespace GV.MiMC

/-! ### S-box / encrypt / compress equal their specifications -/

theorem sbox_eq_spec (P : Params) (t : Nat) : sbox P t = sboxSpec P t := by
  unfold sbox sboxSpec
  split
  · rename_i h; simp only [h, Nat.mod_mul_mod, Nat.mul_mod_mod]; congr 1; ring
  · split
    · rename_i h; simp only [h, Nat.mod_mul_mod, Nat.mul_mod_mod]; congr 1; ring
    · split
      · rename_i h; simp only [h, Nat.mod_mul_mod, Nat.mul_mod_mod]; congr 1; ring
      · rfl

theorem round_eq_spec (P : Params) (k m c : Nat) : round P k m c = roundSpec P k m c := by
  unfold round roundSpec
  rw [sbox_eq_spec, Nat.mod_add_mod]

theorem encrypt_eq_spec (P : Params) (k m : Nat) : encrypt P k m = encryptSpec P k m := by
  unfold encrypt encryptSpec
  have : round P k = roundSpec P k := by funext m c; exact round_eq_spec P k m c
  rw [this]

theorem compress_eq_spec (P : Params) (h m : Nat) : compress P h m = compressSpec P h m := by
  unfold compress compressSpec
  rw [encrypt_eq_spec, Nat.mod_add_mod]

theorem mp_eq_spec (P : Params) (h : Nat) (ms : List Nat) : mp P h ms = mpSpec P h ms := by
  unfold mp mpSpec
  have : compress P = compressSpec P := by funext h m; exact compress_eq_spec P h m
  rw [this]

theorem mp_append (P : Params) (h : Nat) (xs ys : List Nat) : mp P h (xs ++ ys) = mp P (mp P h xs) ys := by
  simp [mp, List.foldl_append]

theorem compress_lt (P : Params) (h m : Nat) (hq : 0 < P.q) : compress P h m < P.q := Nat.mod_lt _ hq

theorem mp_lt (P : Params) (h : Nat) (ms : List Nat) (hh : h < P.q) : mp P h ms < P.q := by
  induction ms generalizing h with
  | nil => simpa [mp] using hh
  | cons m ms ih =>
    have : mp P h (m :: ms) = mp P (compress P h m) ms := by simp [mp]
    rw [this]; exact ih _ (compress_lt P h m (by omega))

/-! ### byte codec -/

theorem beToNat_append_singleton (xs : Bytes) (b : UInt8) : beToNat (xs ++ [b]) = beToNat xs * 256 + b.toNat := by
  simp [beToNat, List.foldl_append]

theorem encBE_length (len n : Nat) : (encBE len n).length = len := by
  induction len generalizing n with
  | zero => rfl
  | succ len ih => simp [encBE, ih]

theorem beToNat_encBE (len n : Nat) : beToNat (encBE len n) = n % 256 ^ len := by
  induction len generalizing n with
  | zero => simp [encBE, beToNat, Nat.mod_one]
  | succ len ih =>
    rw [encBE, beToNat_append_singleton, ih]
    have h1 : (UInt8.ofNat (n % 256)).toNat = n % 256 := by
      simp [UInt8.toNat_ofNat']
    rw [h1, pow_succ, Nat.mul_comm (256 ^ len) 256, Nat.mod_mul]
    ring

theorem beToNat_encBE_of_lt (len n : Nat) (h : n < 256 ^ len) : beToNat (encBE len n) = n := by
  rw [beToNat_encBE, Nat.mod_eq_of_lt h]

theorem encBE_beToNat (bs : Bytes) : encBE bs.length (beToNat bs) = bs := by
  induction bs using List.reverseRecOn with
  | nil => rfl
  | append_singleton xs b ih =>
    rw [List.length_append, List.length_singleton, encBE, beToNat_append_singleton]
    have hb : b.toNat < 256 := by have := b.toNat_lt; omega
    have h1 : (beToNat xs * 256 + b.toNat) / 256 = beToNat xs := by omega
    have h2 : (beToNat xs * 256 + b.toNat) % 256 = b.toNat := by omega
    rw [h1, h2, ih]
    simp

/-- encoding of one block in the byte order of the instance -/
def encBlock (P : Params) (n : Nat) : Bytes := if P.le then (encBE P.size n).reverse else encBE P.size n

theorem encBlock_length (P : Params) (n : Nat) : (encBlock P n).length = P.size := by
  unfold encBlock; split <;> simp [encBE_length]

theorem decBlock_encBlock (P : Params) (n : Nat) (h : n < 256 ^ P.size) : decBlock P (encBlock P n) = n := by
  unfold decBlock encBlock
  split <;> simp [beToNat_encBE_of_lt _ _ h]

theorem encBlock_decBlock (P : Params) (b : Bytes) (h : b.length = P.size) : encBlock P (decBlock P b) = b := by
  unfold decBlock encBlock
  split
  · have := encBE_beToNat b.reverse
    rw [List.length_reverse, h] at this
    rw [this, List.reverse_reverse]
  · have := encBE_beToNat b
    rwa [h] at this

/-! ### block decoding -/

theorem decodeBlocks_nil (P : Params) : decodeBlocks P [] = some [] := by
  rw [decodeBlocks]; simp

theorem decodeBlocks_block (P : Params) (blk rest : Bytes) (hs : 0 < P.size) (hl : blk.length = P.size) :
    decodeBlocks P (blk ++ rest) =
      if decBlock P blk < P.q then (decodeBlocks P rest).map (decBlock P blk :: ·) else none := by
  rw [decodeBlocks]
  have hne : blk ++ rest ≠ [] := by
    intro h; have := congrArg List.length h; rw [List.length_append, List.length_nil] at this; omega
  have hlen : 0 < P.size ∧ P.size ≤ (blk ++ rest).length := by
    constructor
    · exact hs
    · simp; omega
  simp only [hne, hlen, ↓reduceDIte, and_self]
  rw [← hl, List.take_left', List.drop_left']
  · rfl
  · rfl

theorem decodeBlocks_short (P : Params) (p : Bytes) (hne : p ≠ []) (h : P.size = 0 ∨ p.length < P.size) :
    decodeBlocks P p = none := by
  rw [decodeBlocks]
  have : ¬ (0 < P.size ∧ P.size ≤ p.length) := by omega
  simp [hne, this]

/-- concatenation at a block boundary -/
theorem decodeBlocks_append (P : Params) (a b : Bytes) (ha : P.size ∣ a.length) :
    decodeBlocks P (a ++ b) = (decodeBlocks P a).bind (fun xs => (decodeBlocks P b).map (xs ++ ·)) := by
  induction hn : a.length using Nat.strong_induction_on generalizing a with
  | _ n ih =>
    by_cases hnil : a = []
    · subst hnil; simp [decodeBlocks_nil]
    · have hpos : 0 < a.length := List.length_pos_of_ne_nil hnil
      have hs : 0 < P.size := by
        rcases Nat.eq_zero_or_pos P.size with h0 | h0
        · rw [h0] at ha; have := Nat.eq_zero_of_zero_dvd ha; omega
        · exact h0
      have hle : P.size ≤ a.length := Nat.le_of_dvd hpos ha
      have hsplit : a = a.take P.size ++ a.drop P.size := (List.take_append_drop _ _).symm
      have hl : (a.take P.size).length = P.size := by simp [List.length_take]; omega
      have hd : P.size ∣ (a.drop P.size).length := by
        rw [List.length_drop]; obtain ⟨c, hc⟩ := ha; exact ⟨c - 1, by rw [hc, Nat.mul_sub_one]⟩
      have hlt : (a.drop P.size).length < n := by rw [List.length_drop]; omega
      have ih' := ih _ hlt (a.drop P.size) hd rfl
      conv_lhs => rw [hsplit, List.append_assoc, decodeBlocks_block P _ _ hs hl]
      conv_rhs => rw [hsplit, decodeBlocks_block P _ _ hs hl]
      split
      · rw [ih']
        cases decodeBlocks P (a.drop P.size) with
        | none => simp
        | some xs =>
          cases decodeBlocks P b with
          | none => simp
          | some ys => simp
      · simp

theorem decodeBlocks_length (P : Params) (p : Bytes) (xs : List Nat) (h : decodeBlocks P p = some xs) :
    p.length = xs.length * P.size ∧ ∀ x ∈ xs, x < P.q := by
  induction hn : p.length using Nat.strong_induction_on generalizing p xs with
  | _ n ih =>
    by_cases hnil : p = []
    · subst hnil; rw [decodeBlocks_nil] at h; cases h; simp at hn; subst hn; simp
    · by_cases hc : 0 < P.size ∧ P.size ≤ p.length
      · have hsplit : p = p.take P.size ++ p.drop P.size := (List.take_append_drop _ _).symm
        have hl : (p.take P.size).length = P.size := by simp [List.length_take]; omega
        rw [hsplit, decodeBlocks_block P _ _ hc.1 hl] at h
        split at h
        · rename_i hv
          cases hd : decodeBlocks P (p.drop P.size) with
          | none => rw [hd] at h; simp at h
          | some ys =>
            rw [hd] at h; simp at h; subst h
            have hlt : (p.drop P.size).length < n := by rw [List.length_drop]; omega
            have := ih _ hlt (p.drop P.size) ys hd rfl
            constructor
            · have h2 := this.1; rw [List.length_drop] at h2
              simp only [List.length_cons]; rw [Nat.succ_mul]; omega
            · intro x hx; simp at hx; rcases hx with rfl | hx
              · exact hv
              · exact this.2 x hx
        · simp at h
      · rw [decodeBlocks_short P p hnil (by omega)] at h; simp at h

/-- decoding the concatenated encodings of canonical elements gives these elements back -/
theorem decodeBlocks_encode (P : Params) (xs : List Nat) (hs : 0 < P.size) (hq : P.q ≤ 256 ^ P.size)
    (hx : ∀ x ∈ xs, x < P.q) : decodeBlocks P (xs.map (encBlock P)).flatten = some xs := by
  induction xs with
  | nil => simp [decodeBlocks_nil]
  | cons x xs ih =>
    have hx0 : x < P.q := hx x (by simp)
    simp only [List.map_cons, List.flatten_cons]
    rw [decodeBlocks_block P _ _ hs (encBlock_length P x), decBlock_encBlock P x (by omega), if_pos hx0,
      ih (fun y hy => hx y (by simp [hy]))]
    rfl

/-- a successfully decoded byte string is the concatenation of the encodings of its blocks -/
theorem decodeBlocks_canonical (P : Params) (p : Bytes) (xs : List Nat) (h : decodeBlocks P p = some xs) :
    p = (xs.map (encBlock P)).flatten := by
  induction hn : p.length using Nat.strong_induction_on generalizing p xs with
  | _ n ih =>
    by_cases hnil : p = []
    · subst hnil; rw [decodeBlocks_nil] at h; cases h; simp
    · by_cases hc : 0 < P.size ∧ P.size ≤ p.length
      · have hsplit : p = p.take P.size ++ p.drop P.size := (List.take_append_drop _ _).symm
        have hl : (p.take P.size).length = P.size := by simp [List.length_take]; omega
        have h' := h
        rw [hsplit, decodeBlocks_block P _ _ hc.1 hl] at h'
        split at h'
        · cases hd : decodeBlocks P (p.drop P.size) with
          | none => rw [hd] at h'; simp at h'
          | some ys =>
            rw [hd] at h'; simp at h'; subst h'
            have hlt : (p.drop P.size).length < n := by rw [List.length_drop]; omega
            have := ih _ hlt (p.drop P.size) ys hd rfl
            simp only [List.map_cons, List.flatten_cons]
            rw [encBlock_decBlock P _ hl, ← this, List.take_append_drop]
        · simp at h'
      · rw [decodeBlocks_short P p hnil (by omega)] at h; simp at h

theorem pad_of_dvd (P : Params) (p : Bytes) (h : P.size ∣ p.length) : pad P p = p := by
  unfold pad
  split
  · rename_i hc
    have := Nat.le_of_dvd hc.1 h; omega
  · rfl

end GV.MiMC
