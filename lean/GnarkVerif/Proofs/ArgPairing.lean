import GnarkVerif.Model.ArgPairing
import GnarkVerif.Proofs.Field
import Mathlib.Data.ZMod.Basic
import Mathlib.FieldTheory.Finite.Basic
import Mathlib.Tactic.Ring
import Mathlib.Tactic.FieldSimp
import Mathlib.Tactic.LinearCombination
/-
Helper lemmas for C17a (property theorems are in Props/C17a.lean).

The executable models of Model/ArgPairing.lean are generic in a dictionary `F : FOps α`. Proof method:
1. `Lawful F φ`: `φ : α → K` is a denotation of the dictionary in a field `K` (a homomorphism for every operation,
   `beq` decides equality of denotations). `fp r` (the dictionary the driver runs) is lawful for `Nat.cast : ℕ → ZMod r`
   when `r` is a prime `> 2` (`lawful_fp`).
2. parametricity: every model function commutes with `φ` (`*_map` lemmas), so a verdict computed with `F` equals the
   verdict computed with the field's own dictionary `ofField K` on the denotations.
3. the algebra is done once, in `K`.
-/
namespace GV.ArgPairing
open GV GV.Alg

/-- `φ` interprets the dictionary `F` in the field `K` -/
structure Lawful {α K : Type} [Field K] (F : FOps α) (φ : α → K) : Prop where
  zero : φ F.zero = 0
  one : φ F.one = 1
  add : ∀ a b, φ (F.add a b) = φ a + φ b
  sub : ∀ a b, φ (F.sub a b) = φ a - φ b
  neg : ∀ a, φ (F.neg a) = - φ a
  mul : ∀ a b, φ (F.mul a b) = φ a * φ b
  inv : ∀ a, φ (F.inv a) = (φ a)⁻¹
  beq : ∀ a b, F.beq a b = true ↔ φ a = φ b

/-- the dictionary of a field -/
def ofField (K : Type) [Field K] [DecidableEq K] : FOps K where
  zero := 0
  one := 1
  add a b := a + b
  sub a b := a - b
  neg a := -a
  mul a b := a * b
  inv a := a⁻¹
  beq a b := decide (a = b)
  ofNat n := n
  show_ _ := ""

section field
variable {K : Type} [Field K] [DecidableEq K]

@[simp] theorem ofField_zero : (ofField K).zero = 0 := rfl
@[simp] theorem ofField_one : (ofField K).one = 1 := rfl
@[simp] theorem ofField_add (a b : K) : (ofField K).add a b = a + b := rfl
@[simp] theorem ofField_sub (a b : K) : (ofField K).sub a b = a - b := rfl
@[simp] theorem ofField_neg (a : K) : (ofField K).neg a = -a := rfl
@[simp] theorem ofField_mul (a b : K) : (ofField K).mul a b = a * b := rfl
@[simp] theorem ofField_inv (a : K) : (ofField K).inv a = a⁻¹ := rfl
@[simp] theorem ofField_beq (a b : K) : (ofField K).beq a b = decide (a = b) := rfl

theorem lawful_ofField : Lawful (ofField K) (id : K → K) :=
  ⟨rfl, rfl, fun _ _ => rfl, fun _ _ => rfl, fun _ => rfl, fun _ _ => rfl, fun _ => rfl, fun a b => by simp⟩

end field

/-- the driver's dictionary `fp r` denotes `ZMod r` -/
theorem lawful_fp (r : Nat) [hp : Fact r.Prime] (h2 : 2 < r) :
    Lawful (fp r) (fun a : Nat => (a : ZMod r)) := by
  have h1 : 1 < r := by omega
  refine ⟨by simp [fp], by simp [fp], ?_, ?_, ?_, ?_, ?_, ?_⟩
  · intro a b; simp [fp]
  · intro a b
    show (((a + r - b % r) % r : Nat) : ZMod r) = a - b
    rw [ZMod.natCast_mod, Nat.cast_sub (by have := Nat.mod_lt b (by omega : r > 0); omega)]
    simp
  · intro a
    show (((r - a % r) % r : Nat) : ZMod r) = -a
    rw [ZMod.natCast_mod, Nat.cast_sub (by have := Nat.mod_lt a (by omega : r > 0); omega)]
    simp
  · intro a b; simp [fp]
  · intro a
    show ((powMod a (r - 2) r : Nat) : ZMod r) = (a : ZMod r)⁻¹
    rw [GV.Field.powMod_eq _ _ _ h1, ZMod.natCast_mod, Nat.cast_pow]
    by_cases ha : (a : ZMod r) = 0
    · rw [ha, inv_zero, zero_pow (by omega)]
    · have := ZMod.pow_card_sub_one_eq_one ha
      have e : r - 1 = (r - 2) + 1 := by omega
      rw [e, pow_succ] at this
      exact eq_inv_of_mul_eq_one_left this
  · intro a b
    show (a % r == b % r) = true ↔ _
    rw [beq_iff_eq, ZMod.natCast_eq_natCast_iff']

section param
variable {α K : Type} [Field K] [DecidableEq K] {F : FOps α} {φ : α → K} (h : Lawful F φ)
include h

/-! ### parametricity: scalars, dot products, pairing check -/

theorem dot_map (a b : List α) : φ (dot F a b) = dot (ofField K) (a.map φ) (b.map φ) := by
  induction a generalizing b with
  | nil => simp [dot, h.zero]
  | cons x xs ih =>
    cases b with
    | nil => simp [dot, h.zero]
    | cons y ys => simp [dot, h.add, h.mul, ih]

theorem pairingCheck_map (a b : List α) :
    pairingCheck F a b = pairingCheck (ofField K) (a.map φ) (b.map φ) := by
  unfold pairingCheck
  rw [Bool.eq_iff_iff, h.beq, dot_map h, h.zero]
  simp

theorem powersFrom_map (r : α) (n : Nat) (acc : α) :
    (powersFrom F r n acc).map φ = powersFrom (ofField K) (φ r) n (φ acc) := by
  induction n generalizing acc with
  | zero => rfl
  | succ n ih => simp [powersFrom, ih, h.mul]

theorem fold_map (pts : List α) (r : α) : φ (fold F pts r) = fold (ofField K) (pts.map φ) (φ r) := by
  unfold fold
  rw [dot_map h, powersFrom_map h, h.one]; simp

theorem npow_map (x : α) (n : Nat) : φ (npow F x n) = (φ x) ^ n := by
  induction n with
  | zero => simp [npow, h.one]
  | succ n ih => simp [npow, h.mul, ih, pow_succ]

theorem scaleByPowers_map (cs : List α) (r ri : α) :
    (scaleByPowers F cs r ri).map φ = scaleByPowers (ofField K) (cs.map φ) (φ r) (φ ri) := by
  induction cs generalizing ri with
  | nil => rfl
  | cons c cs ih => simp [scaleByPowers, ih, h.mul]

end param

theorem scaleByPowers_length {α : Type} (F : FOps α) (cs : List α) (r ri : α) :
    (scaleByPowers F cs r ri).length = cs.length := by
  induction cs generalizing ri with
  | nil => rfl
  | cons c cs ih => simp [scaleByPowers, ih]

/-! ### algebra in the field -/
section field
variable {K : Type} [Field K] [DecidableEq K]

theorem dot_nil_left (b : List K) : dot (ofField K) [] b = 0 := by simp [dot]
theorem dot_nil_right (a : List K) : dot (ofField K) a [] = 0 := by cases a <;> simp [dot]
@[simp] theorem dot_cons (x y : K) (xs ys : List K) :
    dot (ofField K) (x :: xs) (y :: ys) = x * y + dot (ofField K) xs ys := by simp [dot]

theorem dot_map_mul_left (c : K) (a b : List K) :
    dot (ofField K) (a.map (fun x => c * x)) b = c * dot (ofField K) a b := by
  induction a generalizing b with
  | nil => simp [dot]
  | cons x xs ih => cases b with
    | nil => simp [dot]
    | cons y ys => simp [ih]; ring

theorem dot_map_mul_right (c : K) (a b : List K) :
    dot (ofField K) a (b.map (fun x => x * c)) = c * dot (ofField K) a b := by
  induction a generalizing b with
  | nil => simp [dot]
  | cons x xs ih => cases b with
    | nil => simp [dot]
    | cons y ys => simp [ih]; ring

theorem dot_append (a a' b b' : List K) (hl : a.length = b.length) :
    dot (ofField K) (a ++ a') (b ++ b') = dot (ofField K) a b + dot (ofField K) a' b' := by
  induction a generalizing b with
  | nil => cases b with
    | nil => simp [dot]
    | cons y ys => simp at hl
  | cons x xs ih => cases b with
    | nil => simp at hl
    | cons y ys =>
      simp only [List.length_cons, Nat.add_right_cancel_iff] at hl
      simp [ih _ hl]; ring

theorem pairingCheck_iff (a b : List K) : pairingCheck (ofField K) a b = true ↔ dot (ofField K) a b = 0 := by
  simp [pairingCheck]

theorem powersFrom_length (r : K) (n : Nat) (acc : K) : (powersFrom (ofField K) r n acc).length = n := by
  induction n generalizing acc with
  | zero => rfl
  | succ n ih => simp [powersFrom, ih]

/-- `Σ rⁱ cᵢ` as a recursion: the G1 side of the batched Pedersen pairing against per-key G2 elements -/
theorem dot_scaleByPowers (cs ss : List K) (r ri : K) :
    dot (ofField K) (scaleByPowers (ofField K) cs r ri) ss
      = dot (ofField K) (powersFrom (ofField K) r cs.length ri) (List.zipWith (· * ·) cs ss) := by
  induction cs generalizing ss ri with
  | nil => simp [scaleByPowers, powersFrom, dot]
  | cons c cs ih => cases ss with
    | nil => simp [scaleByPowers, powersFrom, dot_nil_right]
    | cons s ss => simp [scaleByPowers, powersFrom, ih]; ring

/-- the two sides of the batched Pedersen pairing cancel when `pokᵢ = σᵢ·Cᵢ` -/
theorem ped_cancel (g : K) : ∀ (P σs cs : List K),
    dot (ofField K) P (List.zipWith (· * ·) cs (σs.map fun σ => -(σ * g)))
      + dot (ofField K) (List.zipWith (· * ·) σs cs) P * g = 0 := by
  intro P
  induction P with
  | nil => intro σs cs; simp [dot, dot_nil_right]
  | cons p P ih =>
    intro σs cs
    cases σs with
    | nil => simp [dot, dot_nil_right]
    | cons σ σs => cases cs with
      | nil => simp [dot, dot_nil_right]
      | cons c cs => simp; linear_combination ih σs cs

theorem dot_zipWith_replicate (s : K) : ∀ (P C : List K) (n : Nat), C.length ≤ n →
    dot (ofField K) P (List.zipWith (· * ·) C (List.replicate n s)) = s * dot (ofField K) P C := by
  intro P
  induction P with
  | nil => intro C n _; simp [dot]
  | cons p P ih =>
    intro C n hn
    cases C with
    | nil => simp [dot]
    | cons c C =>
      cases n with
      | zero => simp at hn
      | succ n =>
        simp only [List.length_cons, Nat.add_le_add_iff_right] at hn
        simp [List.replicate_succ, ih C n hn]; ring

theorem dot_comm (a b : List K) : dot (ofField K) a b = dot (ofField K) b a := by
  induction a generalizing b with
  | nil => simp [dot, dot_nil_right]
  | cons x xs ih => cases b with
    | nil => simp [dot]
    | cons y ys => simp [ih]; ring

end field
end GV.ArgPairing
