import GnarkVerif.Model.HashToField
import Mathlib.Tactic.Ring
import Mathlib.Tactic.LinearCombination
import Mathlib.Tactic.FieldSimp
import Mathlib.Algebra.Field.Basic
import Mathlib.Algebra.Group.Even
import Mathlib.NumberTheory.LegendreSymbol.QuadraticChar.Basic
/-
Algebra of the Shallue–van de Woestijne map (RFC 9380 §6.6.1 / §F.1) for the straight-line program of
`ecc/bn254/hash_to_g1.go` (`Model.HashToField.svdwCandidates`).

With `h = 3Z²+4A`, `Q(x) = Z² + Zx + x² + A` one has `g(x) − g(Z) = (x − Z)·Q(x)` and, outside the exceptional set,
  x1 + x2 = −Z,  Q(x1) = Q(x2) =: Q,  x3 = Z + y²  with  y²·Q = −g(Z),
hence  g(x1) = Q·(x1−x3),  g(x2) = Q·(x2−x3),  g(x3) = y²·(Q(x3)−Q),  (x1−x3)(x2−x3) = Q(x3) − Q  and
  g(x1)·g(x2)·g(x3) = y²·(Q·(Q(x3)−Q))² = c4·(…)²        (a square because c4 is a square).
-/
namespace GV.HashToField
open GV.Alg

/-- the `FOps` dictionary of a field; Mathlib's `0⁻¹ = 0` is exactly the `inv0` of the RFC / Go's `Inverse` -/
def fieldOps (F : Type) [Field F] [DecidableEq F] : FOps F where
  zero := 0
  one := 1
  add a b := a + b
  sub a b := a - b
  neg a := -a
  mul a b := a * b
  inv a := a⁻¹
  beq a b := decide (a = b)
  ofNat n := (n : F)
  show_ _ := ""

variable {F : Type} [Field F]

theorem svdw_final (Q a b ysq D k c4 : F) (hI : a * b = D) (hysq : ysq = k * k * c4) :
    Q * a * (Q * b) * (ysq * D) = c4 * (Q * D * k) ^ 2 := by
  subst hI hysq; ring

/-- the core identity outside the exceptional set (`tv3` is any inverse of `tv1·tv2`) -/
theorem svdw_product (A B Z c1 c2 c3 c4 u tv3 : F) (h2 : (2 : F) ≠ 0)
    (hc1 : c1 = (Z * Z + A) * Z + B) (hc2 : 2 * c2 = -Z)
    (hc3 : c3 ^ 2 = -c1 * (3 * Z ^ 2 + 4 * A)) (hc4 : c4 * (3 * Z ^ 2 + 4 * A) = -4 * c1)
    (hD : (1 - u * u * c1) * (1 + u * u * c1) * tv3 = 1) :
    ∃ W : F,
      (((c2 - u * (1 - u * u * c1) * tv3 * c3) * (c2 - u * (1 - u * u * c1) * tv3 * c3) + A) *
          (c2 - u * (1 - u * u * c1) * tv3 * c3) + B) *
      (((c2 + u * (1 - u * u * c1) * tv3 * c3) * (c2 + u * (1 - u * u * c1) * tv3 * c3) + A) *
          (c2 + u * (1 - u * u * c1) * tv3 * c3) + B) *
      ((((1 + u * u * c1) * (1 + u * u * c1) * tv3 * ((1 + u * u * c1) * (1 + u * u * c1) * tv3) * c4 + Z) *
          ((1 + u * u * c1) * (1 + u * u * c1) * tv3 * ((1 + u * u * c1) * (1 + u * u * c1) * tv3) * c4 + Z) + A) *
          ((1 + u * u * c1) * (1 + u * u * c1) * tv3 * ((1 + u * u * c1) * (1 + u * u * c1) * tv3) * c4 + Z) + B)
      = c4 * W ^ 2 := by
  -- abbreviations
  set w := u * u * c1 with hw
  set tv1 := 1 - w with htv1
  set tv2 := 1 + w with htv2
  set h := 3 * Z ^ 2 + 4 * A with hh
  set r := tv1 * tv3 with hr
  set t := u * tv1 * tv3 * c3 with ht
  set k := tv2 * tv2 * tv3 with hk
  set ysq := k * k * c4 with hysq
  set x1 := c2 - t with hx1
  set x2 := c2 + t with hx2
  set x3 := ysq + Z with hx3
  set Q := Z ^ 2 + Z * x1 + x1 ^ 2 + A with hQ
  set Q3 := Z ^ 2 + Z * x3 + x3 ^ 2 + A with hQ3
  have hrt : r * tv2 = 1 := by rw [hr]; linear_combination hD
  have ht2 : t ^ 2 = -(w * r ^ 2 * h) := by
    rw [ht, hr, hw]; linear_combination (u ^ 2 * tv1 ^ 2 * tv3 ^ 2) * hc3
  have hB : 4 * Q = 4 * t ^ 2 + h := by
    rw [hQ, hx1, hh]; linear_combination (Z + 2 * c2 - 4 * t) * hc2
  have htv : tv2 ^ 2 - 4 * w = tv1 ^ 2 := by rw [htv1, htv2]; ring
  have hC : 4 * t ^ 2 + h = h * r ^ 2 * tv1 ^ 2 := by
    linear_combination 4 * ht2 - (h * (1 + r * tv2)) * hrt + (h * r ^ 2) * htv
  have hkr : k * (r * tv1) = 1 := by
    rw [hk, hr]; linear_combination (tv1 * tv2 * tv3 + 1) * hD
  have hE4 : 4 * (ysq * Q) = 4 * (-c1) := by
    rw [hysq]
    linear_combination (k * k * c4) * hB + (k * k * c4) * hC + (c4 * h * (k * (r * tv1) + 1)) * hkr + hc4
  have h4 : (4 : F) ≠ 0 := by
    have : (4 : F) = 2 * 2 := by norm_num
    rw [this]; exact mul_ne_zero h2 h2
  have hE : ysq * Q = -c1 := mul_left_cancel₀ h4 hE4
  have hG1 : (x1 * x1 + A) * x1 + B = Q * (x1 - x3) := by
    linear_combination hE - hc1
  have hG2 : (x2 * x2 + A) * x2 + B = Q * (x2 - x3) := by
    linear_combination hE - hc1 + ((x2 - Z) * 2 * t) * hc2
  have hG3 : (x3 * x3 + A) * x3 + B = ysq * (Q3 - Q) := by
    linear_combination hE - hc1
  have hI : (x1 - x3) * (x2 - x3) = Q3 - Q := by
    linear_combination (x1 - x3) * hc2
  refine ⟨Q * (Q3 - Q) * k, ?_⟩
  rw [hG1, hG2, hG3]
  exact svdw_final Q (x1 - x3) (x2 - x3) ysq (Q3 - Q) k c4 hI hysq

/-! ### simplified SWU -/

/-- a point `(n/d, y)` with `y²·d³ = (n² + A·d²)·n + B·d³` is on the curve -/
theorem sswu_frac_on_curve (A B n d y : F) (hd : d ≠ 0)
    (hy : y ^ 2 * (d * d * d) = (n * n + A * (d * d)) * n + B * (d * d * d)) :
    y * y = (n * d⁻¹) * (n * d⁻¹) * (n * d⁻¹) + A * (n * d⁻¹) + B := by
  have hd3 : d * d * d ≠ 0 := mul_ne_zero (mul_ne_zero hd hd) hd
  apply mul_right_cancel₀ hd3
  have hi : d * d⁻¹ = 1 := mul_inv_cancel₀ hd
  linear_combination hy + (-(n ^ 3) * (d ^ 2 * d⁻¹ ^ 2 + d * d⁻¹ + 1) - A * n * d ^ 2) * hi

/-- the second candidate: `x2 = t·x1`, `g(x2) = t³·g(x1)` for `x1 = B(t²+t+1)/(−A(t²+t))` -/
theorem sswu_second_on_curve (A B Z u d r2 : F) (hd : d ≠ 0)
    (hdd : d = A * -(Z * (u * u) * (Z * (u * u)) + Z * (u * u)))
    (hy : r2 ^ 2 * (d * d * d) =
      Z * (((B * (Z * (u * u) * (Z * (u * u)) + Z * (u * u) + 1)) * (B * (Z * (u * u) * (Z * (u * u)) + Z * (u * u) + 1)) +
        A * (d * d)) * (B * (Z * (u * u) * (Z * (u * u)) + Z * (u * u) + 1)) + B * (d * d * d))) :
    (Z * (u * u) * u * r2) * (Z * (u * u) * u * r2) =
      (Z * (u * u) * (B * (Z * (u * u) * (Z * (u * u)) + Z * (u * u) + 1)) * d⁻¹) *
        (Z * (u * u) * (B * (Z * (u * u) * (Z * (u * u)) + Z * (u * u) + 1)) * d⁻¹) *
        (Z * (u * u) * (B * (Z * (u * u) * (Z * (u * u)) + Z * (u * u) + 1)) * d⁻¹) +
      A * (Z * (u * u) * (B * (Z * (u * u) * (Z * (u * u)) + Z * (u * u) + 1)) * d⁻¹) + B := by
  have hd3 : d * d * d ≠ 0 := mul_ne_zero (mul_ne_zero hd hd) hd
  apply mul_right_cancel₀ hd3
  have hi : d * d⁻¹ = 1 := mul_inv_cancel₀ hd
  generalize ht : Z * (u * u) = t at *
  have hu : t * t * (u * u) * Z = t ^ 3 := by rw [← ht]; ring
  -- (t u r2)²·d³ = t²u²·Z·N = t³·N ;  N·t³ − (t³n³ + A t n d² + B d³) = d²·[A n t (t²−1) + B d (t³−1)] = 0
  linear_combination (t * t * (u * u)) * hy +
    ((B * (t * t + t + 1)) ^ 3 + A * (B * (t * t + t + 1)) * d ^ 2 + B * d ^ 3) * hu -
    ((B * (t * t + t + 1)) ^ 3 * t ^ 3 * (d ^ 2 * d⁻¹ ^ 2 + d * d⁻¹ + 1) + A * t * (B * (t * t + t + 1)) * d ^ 2) * hi -
    (-(B * d ^ 2 * (t ^ 3 - 1))) * hdd

/-- in a finite field of odd characteristic the product of two non-squares is a square -/
theorem finite_field_nonsquare_mul {K : Type} [Field K] [Fintype K] [DecidableEq K] (a b : K) (ha : ¬ IsSquare a) (hb : ¬ IsSquare b) : IsSquare (a * b) := by
  have ha0 : a ≠ 0 := fun h => ha (h ▸ IsSquare.zero)
  have hb0 : b ≠ 0 := fun h => hb (h ▸ IsSquare.zero)
  have h1 := (quadraticChar_neg_one_iff_not_isSquare (F := K)).mpr ha
  have h2 := (quadraticChar_neg_one_iff_not_isSquare (F := K)).mpr hb
  have : quadraticChar K (a * b) = 1 := by rw [map_mul, h1, h2]; norm_num
  exact (quadraticChar_one_iff_isSquare (mul_ne_zero ha0 hb0)).mp this

end GV.HashToField
