import GnarkVerif.Proofs.Limb
/-
Generic lemmas for the second batch of the limb-level tie (C01_limb4): predicates on limbs (`IsZero`, `IsOne`, `Equal`,
`NotEqual`), most-significant-word-first comparison (`Cmp`), the borrow chain of `LexicographicallyLargest`, small multiples
(`MulBy3`, `MulBy5` as `Double` / `Add` chains), Go's `int` results as the translator encodes them.
-/
namespace GV.Limb
open GV.Field

/-- is `n` a generated limb program (`GV.Gen.Limb.<field>.<f>`) or a tuple-level helper of a per-field theorem file
(`GV.Limb.<field>.<f>`: `lexTail`, `cmpTail`, `addT`, `dblT`) -/
def limbUnfoldable (n : Lean.Name) : Bool :=
  n.getPrefix.getPrefix == `GV.Gen.Limb || n.getPrefix.getPrefix == `GV.Limb

/-- syntactic normal form of a word program: δ (generated defs and the tuple helpers), ζ, β, and `(a, b).1 ↦ a`, `(a, b).2 ↦ b`;
shared sub-terms stay shared (the transformer caches on the term) -/
def normLimb (e : Lean.Expr) : Lean.MetaM Lean.Expr :=
  Lean.Core.transform e
    (pre := fun e => do
      if e.isLet then return .visit (e.letBody!.instantiate1 e.letValue!)
      if e.isHeadBetaTarget then return .visit e.headBeta
      if let .const n ls := e.getAppFn then
        if limbUnfoldable n then
          if let some info := (← Lean.getEnv).find? n then
            if let some v := info.value? then
              return .visit ((v.instantiateLevelParams info.levelParams ls).beta e.getAppArgs)
      return .continue)
    (post := fun e => do
      match e.getAppFnArgs with
      | (``Prod.fst, #[_, _, p]) => if p.isAppOfArity ``Prod.mk 4 then return .done (p.getArg! 2) else return .done e
      | (``Prod.snd, #[_, _, p]) => if p.isAppOfArity ``Prod.mk 4 then return .done (p.getArg! 3) else return .done e
      | _ => return .done e)

/-- `limb_kernel_rfl` closes `a = b` between two word programs with `Eq.refl a`; the definitional-equality check is left to the
KERNEL when the theorem is added to the environment (no axiom, nothing trusted: if the two sides are not definitionally equal the
kernel rejects the declaration). The elaborator's unifier is skipped (minutes on two inlined `fromMont`s, the kernel needs a second).
Before that, both sides are unfolded syntactically (`normLimb`) and compared: a difference is reported at once, because the kernel,
asked to identify two DIFFERENT word programs, unfolds `Nat` arithmetic on open terms for minutes before it gives up. The
comparison is only a fast filter; the kernel check is what counts. -/
elab "limb_kernel_rfl" : tactic => do
  let g ← Lean.Elab.Tactic.getMainGoal
  g.withContext do
    let t ← Lean.instantiateMVars (← g.getType)
    let some (α, lhs, rhs) := t.eq? | throwError "limb_kernel_rfl: the goal is not an equation"
    let l ← normLimb lhs
    let r ← normLimb rhs
    unless l == r do
      throwError "limb_kernel_rfl: the two word programs differ after unfolding (generated Go limb code ≠ the expected composition)"
    let u ← Lean.Meta.getLevel α
    g.assign (Lean.mkApp2 (Lean.mkConst ``Eq.refl [u]) α lhs)

/-! ### values of limb lists -/

theorem val_cons (l : Nat) (ls : List Nat) : val (l :: ls) = l + 18446744073709551616 * val ls := rfl
theorem val_nil : val [] = 0 := rfl

/-- the limbs of a value are unique -/
theorem val_inj : ∀ (zs xs : List Nat), zs.length = xs.length → (∀ z ∈ zs, z < 18446744073709551616) →
    (∀ x ∈ xs, x < 18446744073709551616) → val zs = val xs → zs = xs
  | [], [], _, _, _, _ => rfl
  | [], _ :: _, h, _, _, _ => by simp at h
  | _ :: _, [], h, _, _, _ => by simp at h
  | z :: zs, x :: xs, hl, hz, hx, e => by
    have hz0 := hz z List.mem_cons_self
    have hx0 := hx x List.mem_cons_self
    rw [val_cons, val_cons] at e
    have e1 : z = x := by omega
    have e2 : val zs = val xs := by omega
    rw [e1, val_inj zs xs (by simpa using hl) (fun a ha => hz a (List.mem_cons_of_mem _ ha))
      (fun a ha => hx a (List.mem_cons_of_mem _ ha)) e2]

theorem val_eq_iff (zs xs : List Nat) (hl : zs.length = xs.length) (hz : ∀ z ∈ zs, z < 18446744073709551616)
    (hx : ∀ x ∈ xs, x < 18446744073709551616) : val zs = val xs ↔ zs = xs :=
  ⟨val_inj zs xs hl hz hx, fun e => by rw [e]⟩

/-- a value is zero iff every limb is -/
theorem val_eq_zero_iff : ∀ (zs : List Nat), val zs = 0 ↔ ∀ z ∈ zs, z = 0
  | [] => by simp [val_nil]
  | z :: zs => by
    rw [val_cons]
    have ih := val_eq_zero_iff zs
    constructor
    · intro h
      have h1 : z = 0 := by omega
      have h2 : val zs = 0 := by omega
      intro a ha
      rcases List.mem_cons.1 ha with rfl | ha
      · exact h1
      · exact ih.1 h2 a ha
    · intro h
      have h1 := h z List.mem_cons_self
      have h2 := ih.2 (fun a ha => h a (List.mem_cons_of_mem _ ha))
      omega

theorem xor_eq_zero (a b : Nat) : a ^^^ b = 0 ↔ a = b := by
  constructor
  · intro h
    apply Nat.eq_of_testBit_eq
    intro i
    have := congrArg (fun n => n.testBit i) h
    simp only [Nat.testBit_xor, Nat.zero_testBit] at this
    cases h1 : a.testBit i <;> cases h2 : b.testBit i <;> simp_all
  · rintro rfl; exact Nat.xor_self _

/-! ### the borrow chain of `LexicographicallyLargest` (`bits.Sub64` from the least significant word, only the borrows are used) -/

def borrowChain : List Nat → List Nat → Nat → Nat
  | z :: zs, h :: hs, b => borrowChain zs hs (subB z h b)
  | _, _, b => b

theorem borrowChain_eq : ∀ (zs hs : List Nat) (b : Nat), zs.length = hs.length → (∀ z ∈ zs, z < 18446744073709551616) →
    (∀ h ∈ hs, h < 18446744073709551616) → b ≤ 1 →
    borrowChain zs hs b = if val zs < val hs + b then 1 else 0
  | [], [], b, _, _, _, hb => by
    simp only [borrowChain, val_nil, Nat.zero_add]
    split <;> omega
  | [], _ :: _, _, h, _, _, _ => by simp at h
  | _ :: _, [], _, h, _, _, _ => by simp at h
  | z :: zs, h :: hs, b, hl, hz, hh, hb => by
    have hz0 := hz z List.mem_cons_self
    have hh0 := hh h List.mem_cons_self
    have hb' : subB z h b ≤ 1 := by unfold subB; split <;> omega
    rw [borrowChain, borrowChain_eq zs hs (subB z h b) (by simpa using hl) (fun a ha => hz a (List.mem_cons_of_mem _ ha))
      (fun a ha => hh a (List.mem_cons_of_mem _ ha)) hb', val_cons, val_cons]
    unfold subB
    generalize val zs = A
    generalize val hs = B
    by_cases c : z < h + b
    · rw [if_pos c]
      split <;> split <;> omega
    · rw [if_neg c]
      split <;> split <;> omega

/-! ### `Cmp`: the Go code compares from the most significant word and returns at the first difference; the translator folds the
early returns from the least significant word upwards (`-1` is the Go `int` value, encoded as `2^64 - 1`) -/

def cmpChain : List Nat → List Nat → Nat → Nat
  | z :: zs, x :: xs, acc => cmpChain zs xs (if z > x then 1 else if z < x then 18446744073709551615 else acc)
  | _, _, acc => acc

theorem cmpChain_eq : ∀ (zs xs : List Nat) (acc : Nat), zs.length = xs.length → (∀ z ∈ zs, z < 18446744073709551616) →
    (∀ x ∈ xs, x < 18446744073709551616) →
    cmpChain zs xs acc = if val zs < val xs then 18446744073709551615 else if val zs > val xs then 1 else acc
  | [], [], acc, _, _, _ => by simp [cmpChain, val_nil]
  | [], _ :: _, _, h, _, _ => by simp at h
  | _ :: _, [], _, h, _, _ => by simp at h
  | z :: zs, x :: xs, acc, hl, hz, hx => by
    have hz0 := hz z List.mem_cons_self
    have hx0 := hx x List.mem_cons_self
    rw [cmpChain, cmpChain_eq zs xs _ (by simpa using hl) (fun a ha => hz a (List.mem_cons_of_mem _ ha))
      (fun a ha => hx a (List.mem_cons_of_mem _ ha)), val_cons, val_cons]
    generalize val zs = A
    generalize val xs = B
    by_cases c1 : A < B
    · rw [if_pos c1, if_pos (by omega)]
    · rw [if_neg c1]
      by_cases c2 : A > B
      · rw [if_pos c2, if_neg (by omega), if_pos (by omega)]
      · rw [if_neg c2]
        have e : A = B := by omega
        subst e
        by_cases c3 : z > x
        · rw [if_pos c3, if_neg (by omega), if_pos (by omega)]
        · rw [if_neg c3]
          by_cases c4 : z < x
          · rw [if_pos c4, if_pos (by omega)]
          · rw [if_neg c4, if_neg (by omega), if_neg (by omega)]

/-- a Go `int` result as the limb translator encodes it (two's complement on 64 bits) -/
def encInt (i : Int) : Nat := (i % 18446744073709551616).toNat

theorem encInt_neg_one : encInt (-1) = 18446744073709551615 := by decide
theorem encInt_zero : encInt 0 = 0 := by decide
theorem encInt_one : encInt 1 = 1 := by decide

/-- the three-way comparison of the regular values, in the translator's encoding, is the model's `cmp` -/
theorem cmp_enc (p : Params) (x y : Nat) :
    (if fromMont p x < fromMont p y then 18446744073709551615 else if fromMont p x > fromMont p y then 1 else 0)
      = encInt (GV.Field.cmp p x y) := by
  unfold GV.Field.cmp toRegular
  simp only []
  by_cases c1 : fromMont p x < fromMont p y
  · rw [if_pos c1, if_pos c1, encInt_neg_one]
  · rw [if_neg c1, if_neg c1]
    by_cases c2 : fromMont p x > fromMont p y
    · rw [if_pos c2, if_pos c2, encInt_one]
    · rw [if_neg c2, if_neg c2, encInt_zero]

/-- `v ≥ (q+1)/2 ↔ v > (q-1)/2` for odd `q`: the borrow test of `LexicographicallyLargest` is the model's `lexLargest` -/
theorem lexLargest_iff (p : Params) (h : p.OK) (z : Nat) :
    ¬ (fromMont p z < (p.q + 1) / 2) ↔ GV.Field.lexLargest p z = true := by
  unfold GV.Field.lexLargest toRegular
  have := h.q_odd
  have := h.q_gt
  simp only [gt_iff_lt, decide_eq_true_eq]
  omega

/-! ### small multiples as `Double` / `Add` chains -/

theorem reduceOnce_eq_mod (p : Params) (t : Nat) (ht : t < 2 * p.q) : reduceOnce p t = t % p.q := by
  unfold reduceOnce
  split
  · rw [Nat.mod_eq_sub_mod ‹_›, Nat.mod_eq_of_lt (by omega)]
  · rw [Nat.mod_eq_of_lt (by omega)]

theorem double_eq_mod (p : Params) (x : Nat) (hx : x < p.q) : double p x = (2 * x) % p.q := by
  unfold double; rw [reduceOnce_eq_mod p _ (by omega)]; congr 1; omega

theorem add_eq_mod (p : Params) (x y : Nat) (hx : x < p.q) (hy : y < p.q) : add p x y = (x + y) % p.q := by
  unfold add; rw [reduceOnce_eq_mod p _ (by omega)]

/-- `MulBy3`: `Double` then `Add` -/
theorem add_double_eq (p : Params) (x : Nat) (hx : x < p.q) : add p (double p x) x = mulBySmall p 3 x := by
  have hq : 0 < p.q := by omega
  rw [add_eq_mod p _ _ (by rw [double_eq_mod p x hx]; exact Nat.mod_lt _ hq) hx, double_eq_mod p x hx, Nat.mod_add_mod]
  unfold mulBySmall; congr 1; omega

/-- `MulBy5`: `Double`, `Double`, `Add` -/
theorem add_double_double_eq (p : Params) (x : Nat) (hx : x < p.q) :
    add p (double p (double p x)) x = mulBySmall p 5 x := by
  have hq : 0 < p.q := by omega
  have h1 : double p x < p.q := by rw [double_eq_mod p x hx]; exact Nat.mod_lt _ hq
  have h2 : double p (double p x) < p.q := by rw [double_eq_mod p _ h1]; exact Nat.mod_lt _ hq
  rw [add_eq_mod p _ _ h2 hx, double_eq_mod p _ h1, double_eq_mod p x hx]
  have A : 2 * x % p.q ≡ 2 * x [MOD p.q] := Nat.mod_modEq _ _
  have B : 2 * (2 * x % p.q) % p.q ≡ 2 * (2 * x) [MOD p.q] := (Nat.mod_modEq _ _).trans (A.mul_left 2)
  have C := B.add_right x
  unfold mulBySmall
  rw [show 5 * x = 2 * (2 * x) + x by omega]
  exact C

/-! ### non-vacuity on a toy parameter set -/
example : borrowChain [3, 1] [4, 1] 0 = 1 := by decide
example : cmpChain [3, 1] [4, 1] 0 = 18446744073709551615 := by decide
example : cmpChain [3, 2] [4, 1] 0 = 1 := by decide
example : add p13 (double p13 7) 7 = mulBySmall p13 3 7 := by decide

end GV.Limb
