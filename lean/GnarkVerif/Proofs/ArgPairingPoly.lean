import GnarkVerif.Proofs.ArgPairing
import Mathlib.Algebra.Polynomial.Div
import Mathlib.Algebra.Polynomial.Roots
import Mathlib.Algebra.Polynomial.BigOperators
import Mathlib.Algebra.BigOperators.Group.Finset.Basic
/-
C17a helper lemmas, part 2: the coefficient-list polynomial helpers of shplonk.go (`eval`, `mul`, `sub`,
`multiplyLinearFactor`, `buildVanishingPoly`, `interpolate`, `buildLagrangeFromDomain`, `div`) denote the corresponding
operations of `Polynomial K`, for every field `K` and all list lengths.
-/
namespace GV.ArgPairing
open GV GV.Alg Polynomial

section poly
variable {K : Type} [Field K] [DecidableEq K]

/-- the polynomial denoted by a coefficient list (low degree first) -/
noncomputable def toPoly : List K → K[X]
  | [] => 0
  | a :: l => C a + X * toPoly l

@[simp] theorem toPoly_nil : toPoly ([] : List K) = 0 := rfl
@[simp] theorem toPoly_cons (a : K) (l : List K) : toPoly (a :: l) = C a + X * toPoly l := rfl

theorem evalP_cons (a : K) (f : List K) (x : K) :
    evalP (ofField K) (a :: f) x = evalP (ofField K) f x * x + a := by
  simp [evalP]

@[simp] theorem evalP_nil (x : K) : evalP (ofField K) [] x = 0 := by simp [evalP]

/-- `eval` (Horner) is polynomial evaluation -/
theorem evalP_eq (f : List K) (x : K) : evalP (ofField K) f x = (toPoly f).eval x := by
  induction f with
  | nil => simp
  | cons a f ih => rw [evalP_cons, ih]; simp; ring

theorem toPoly_addP (f g : List K) : toPoly (addP (ofField K) f g) = toPoly f + toPoly g := by
  induction f generalizing g with
  | nil => simp [addP]
  | cons a f ih =>
    cases g with
    | nil => simp [addP]
    | cons b g => simp [addP, ih]; ring

theorem toPoly_map_neg (g : List K) : toPoly (g.map (ofField K).neg) = - toPoly g := by
  induction g with
  | nil => simp
  | cons b g ih => simp [ih]; ring

theorem toPoly_subP (f g : List K) : toPoly (subP (ofField K) f g) = toPoly f - toPoly g := by
  induction f generalizing g with
  | nil => simp [subP, toPoly_map_neg]
  | cons a f ih =>
    cases g with
    | nil => simp [subP]
    | cons b g => simp [subP, ih]; ring

theorem toPoly_scaleP (c : K) (f : List K) : toPoly (scaleP (ofField K) c f) = C c * toPoly f := by
  induction f with
  | nil => simp [scaleP]
  | cons a f ih =>
    simp only [scaleP, List.map_cons, toPoly_cons, ofField_mul] at ih ⊢
    rw [ih]; simp; ring

theorem toPoly_mulP (f g : List K) : toPoly (mulP (ofField K) f g) = toPoly f * toPoly g := by
  induction g with
  | nil => simp [mulP]
  | cons b g ih => simp [mulP, toPoly_addP, toPoly_scaleP, ih]; ring

theorem toPoly_mulLin (f : List K) (a : K) : toPoly (mulLin (ofField K) f a) = (X - C a) * toPoly f := by
  simp [mulLin, toPoly_subP, toPoly_scaleP]; ring

theorem toPoly_foldl_mulLin (xs : List K) (acc : List K) :
    toPoly (xs.foldl (mulLin (ofField K)) acc) = (xs.map (fun x => X - C x)).prod * toPoly acc := by
  induction xs generalizing acc with
  | nil => simp
  | cons x xs ih => simp [ih, toPoly_mulLin]; ring

/-- `buildVanishingPoly` -/
theorem toPoly_vanishing (xs : List K) :
    toPoly (vanishing (ofField K) xs) = (xs.map (fun x => X - C x)).prod := by
  simp [vanishing, toPoly_foldl_mulLin]

theorem toPoly_append (l1 l2 : List K) : toPoly (l1 ++ l2) = toPoly l1 + X ^ l1.length * toPoly l2 := by
  induction l1 with
  | nil => simp
  | cons a l ih => simp [ih, pow_succ]; ring

theorem toPoly_replicate_zero (n : Nat) : toPoly (List.replicate n (0 : K)) = 0 := by
  induction n with
  | zero => simp
  | succ n ih => simp [List.replicate_succ, ih]

theorem toPoly_padTo (n : Nat) (f : List K) : toPoly (padTo (ofField K) n f) = toPoly f := by
  simp [padTo, toPoly_append, toPoly_replicate_zero]

theorem length_padTo (n : Nat) (f : List K) : (padTo (ofField K) n f).length = max n f.length := by
  simp [padTo]; omega

theorem toPoly_sumP (g : Nat → List K) (n : Nat) :
    toPoly (sumP (ofField K) g n) = ∑ i ∈ Finset.range n, toPoly (g i) := by
  induction n with
  | zero => simp [sumP]
  | succ n ih => simp [sumP, toPoly_addP, ih, Finset.sum_range_succ]

theorem sumN_eq (g : Nat → K) (n : Nat) : sumN (ofField K) g n = ∑ i ∈ Finset.range n, g i := by
  induction n with
  | zero => simp [sumN]
  | succ n ih => simp [sumN, ih, Finset.sum_range_succ]

/-! ### coefficients, degree -/

theorem coeff_toPoly (l : List K) (m : Nat) : (toPoly l).coeff m = l.getD m 0 := by
  induction l generalizing m with
  | nil => simp
  | cons a l ih =>
    cases m with
    | zero => simp
    | succ m => simp [ih, coeff_C_succ]

theorem degree_toPoly_lt (l : List K) : (toPoly l).degree < (l.length : WithBot ℕ) := by
  rw [degree_lt_iff_coeff_zero]
  intro m hm
  rw [coeff_toPoly]
  simp [List.getD_eq_getElem?_getD, List.getElem?_eq_none hm]

/-! ### lengths, leading coefficient -/

theorem length_addP (f g : List K) : (addP (ofField K) f g).length = max f.length g.length := by
  induction f generalizing g with
  | nil => simp [addP]
  | cons a f ih =>
    cases g with
    | nil => simp [addP]
    | cons b g => simp [addP, ih] <;> omega

theorem length_subP (f g : List K) : (subP (ofField K) f g).length = max f.length g.length := by
  induction f generalizing g with
  | nil => simp [subP]
  | cons a f ih =>
    cases g with
    | nil => simp [subP]
    | cons b g => simp [subP, ih] <;> omega

theorem length_scaleP (c : K) (f : List K) : (scaleP (ofField K) c f).length = f.length := by simp [scaleP]

theorem length_mulLin (f : List K) (a : K) : (mulLin (ofField K) f a).length = f.length + 1 := by
  simp [mulLin, length_subP, length_scaleP]

theorem getLast?_subP (f g : List K) (hl : g.length < f.length) :
    (subP (ofField K) f g).getLast? = f.getLast? := by
  induction f generalizing g with
  | nil => simp at hl
  | cons a f ih =>
    cases g with
    | nil => simp [subP]
    | cons b g =>
      simp only [List.length_cons, Nat.add_lt_add_iff_right] at hl
      have hne : f ≠ [] := by intro e; simp [e] at hl
      have hne' : subP (ofField K) f g ≠ [] := by
        apply List.ne_nil_of_length_pos
        rw [length_subP]; omega
      obtain ⟨x, f', rfl⟩ := List.exists_cons_of_ne_nil hne
      obtain ⟨y, s', hs⟩ := List.exists_cons_of_ne_nil hne'
      have := ih g hl
      simp only [subP] at this ⊢
      rw [hs] at this ⊢
      simpa [List.getLast?_cons_cons] using this

theorem getLast?_mulLin (f : List K) (a : K) (hf : f.getLast? = some 1) :
    (mulLin (ofField K) f a).getLast? = some 1 := by
  have hne : f ≠ [] := by intro e; simp [e] at hf
  unfold mulLin
  rw [getLast?_subP _ _ (by simp [length_scaleP])]
  obtain ⟨x, f', rfl⟩ := List.exists_cons_of_ne_nil hne
  simpa [List.getLast?_cons_cons] using hf

theorem foldl_mulLin_props (xs : List K) (acc : List K) (hacc : acc.getLast? = some 1) :
    (xs.foldl (mulLin (ofField K)) acc).getLast? = some 1 ∧
    (xs.foldl (mulLin (ofField K)) acc).length = acc.length + xs.length := by
  induction xs generalizing acc with
  | nil => simp [hacc]
  | cons x xs ih =>
    obtain ⟨h1, h2⟩ := ih (mulLin (ofField K) acc x) (getLast?_mulLin _ _ hacc)
    exact ⟨h1, by rw [List.foldl_cons, h2, length_mulLin]; simp; omega⟩

theorem getLast?_vanishing (xs : List K) : (vanishing (ofField K) xs).getLast? = some 1 :=
  (foldl_mulLin_props xs [1] (by simp)).1

theorem length_vanishing (xs : List K) : (vanishing (ofField K) xs).length = xs.length + 1 := by
  have := (foldl_mulLin_props xs [(1 : K)] (by simp)).2
  simpa [vanishing, Nat.add_comm] using this

/-! ### `div`: long division by a monic polynomial -/

/-- the polynomial denoted by a coefficient list, HIGH degree first -/
noncomputable def toPolyRev (l : List K) : K[X] := toPoly l.reverse

theorem toPolyRev_cons (c : K) (l : List K) : toPolyRev (c :: l) = toPolyRev l + X ^ l.length * C c := by
  simp [toPolyRev, toPoly_append]

@[simp] theorem toPolyRev_nil : toPolyRev ([] : List K) = 0 := rfl

theorem toPolyRev_scaleP (c : K) (l : List K) : toPolyRev (scaleP (ofField K) c l) = C c * toPolyRev l := by
  unfold toPolyRev
  have : (scaleP (ofField K) c l).reverse = scaleP (ofField K) c l.reverse := by simp [scaleP, List.map_reverse]
  rw [this, toPoly_scaleP]

theorem length_subPrefix (f g : List K) : (subPrefix (ofField K) f g).length = f.length := by
  induction f generalizing g with
  | nil => cases g <;> simp [subPrefix]
  | cons a f ih =>
    cases g with
    | nil => simp [subPrefix]
    | cons b g => simp [subPrefix, ih]

theorem toPolyRev_subPrefix (f g : List K) (hl : g.length ≤ f.length) :
    toPolyRev (subPrefix (ofField K) f g) = toPolyRev f - X ^ (f.length - g.length) * toPolyRev g := by
  induction f generalizing g with
  | nil => cases g with
    | nil => simp [subPrefix]
    | cons b g => simp at hl
  | cons a f ih =>
    cases g with
    | nil => simp [subPrefix]
    | cons b g =>
      simp only [List.length_cons, Nat.add_le_add_iff_right] at hl
      simp only [subPrefix, toPolyRev_cons, length_subPrefix, ih g hl, List.length_cons, ofField_sub,
        Nat.add_sub_add_right]
      have e : X ^ f.length = X ^ (f.length - g.length) * (X : K[X]) ^ g.length := by
        rw [← pow_add, Nat.sub_add_cancel hl]
      rw [map_sub, e]; ring

theorem divRev_spec (gt : List K) : ∀ (k : Nat) (l : List K), l.length = k + gt.length →
    (divRev (ofField K) gt k l).length = k ∧
    ∃ R : K[X], R.degree < (gt.length : WithBot ℕ) ∧
      toPolyRev l = (X ^ gt.length + toPolyRev gt) * toPolyRev (divRev (ofField K) gt k l) + R := by
  intro k
  induction k with
  | zero =>
    intro l hl
    refine ⟨by simp [divRev], toPolyRev l, ?_, by simp [divRev]⟩
    have := degree_toPoly_lt l.reverse
    simpa [toPolyRev, hl] using this
  | succ k ih =>
    intro l hl
    cases l with
    | nil => simp at hl; omega
    | cons c rest =>
      have hr : rest.length = k + gt.length := by simp at hl; omega
      have hlen : (subPrefix (ofField K) rest (scaleP (ofField K) c gt)).length = k + gt.length := by
        rw [length_subPrefix, hr]
      obtain ⟨hq, R, hR, hE⟩ := ih _ hlen
      refine ⟨by simp [divRev, hq], R, hR, ?_⟩
      simp only [divRev, toPolyRev_cons, hq]
      rw [toPolyRev_subPrefix _ _ (by rw [length_scaleP, hr]; omega), length_scaleP, hr, toPolyRev_scaleP,
        Nat.add_sub_cancel] at hE
      have e : (X : K[X]) ^ (k + gt.length) = X ^ k * X ^ gt.length := pow_add _ _ _
      rw [hr, e]
      linear_combination hE

/-- `div(f, g)` for a list `g` whose last coefficient is 1 and `len g ≤ len f + 1`: Euclidean division -/
theorem divP_spec (f g : List K) (hg : g.getLast? = some 1) (hl : g.length ≤ f.length + 1) :
    ∃ R : K[X], R.degree < (toPoly g).degree ∧ toPoly f = toPoly g * toPoly (divP (ofField K) f g) + R := by
  have hne : g ≠ [] := by intro e; simp [e] at hg
  have hg' : g = g.dropLast ++ [1] := by
    have := List.dropLast_append_getLast? (l := g) 1 (by rw [Option.mem_def]; exact hg)
    exact this.symm
  set gt := g.reverse.drop 1 with hgt
  have hgt' : gt = g.dropLast.reverse := by rw [hgt, hg']; simp
  have hgl : gt.length = g.length - 1 := by simp [hgt]
  have hgp : toPoly g = X ^ gt.length + toPolyRev gt := by
    conv_lhs => rw [hg']
    rw [toPoly_append, hgt']
    simp [toPolyRev]; ring
  have hlen : f.reverse.length = (f.length - (g.length - 1)) + gt.length := by
    rw [List.length_reverse, hgl]; omega
  obtain ⟨_, R, hR, hE⟩ := divRev_spec gt _ f.reverse hlen
  refine ⟨R, ?_, ?_⟩
  · have hlt : (toPolyRev gt).degree < (gt.length : WithBot ℕ) := by
      have := degree_toPoly_lt gt.reverse; simpa [toPolyRev] using this
    rw [hgp, degree_add_eq_left_of_degree_lt (by rw [degree_X_pow]; exact hlt), degree_X_pow]
    exact hR
  · have : toPolyRev f.reverse = toPoly f := by simp [toPolyRev]
    rw [← this, hE, hgp]
    simp [divP, toPolyRev, hgt]

/-- exact division: when `g` divides `f` as polynomials, `div` returns the cofactor -/
theorem divP_exact (f g : List K) (hg : g.getLast? = some 1) (hl : g.length ≤ f.length + 1)
    (hd : toPoly g ∣ toPoly f) : toPoly f = toPoly g * toPoly (divP (ofField K) f g) := by
  obtain ⟨R, hR, hE⟩ := divP_spec f g hg hl
  have hdR : toPoly g ∣ R := by
    have : R = toPoly f - toPoly g * toPoly (divP (ofField K) f g) := by rw [hE]; ring
    rw [this]; exact dvd_sub hd (dvd_mul_right _ _)
  have : R = 0 := eq_zero_of_dvd_of_degree_lt hdR hR
  rw [hE, this, add_zero]

end poly
end GV.ArgPairing
