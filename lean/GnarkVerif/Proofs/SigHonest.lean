import GnarkVerif.Proofs.Sig
import GnarkVerif.Proofs.SigAlg
import Mathlib.Algebra.Module.Basic
import Mathlib.Tactic.Abel
/-
C12 — from the group-level algebra to the executable model: if the model's point addition is (the image of) a commutative
group law on a set `S` of points closed under it, then double-and-add is scalar multiplication and honest signatures
satisfy the model's verification equation. The group-law hypothesis itself is C02/C03's subject.
-/
namespace GV.Sig
open GV GV.Alg GV.SigAlg

variable {G : Type*} [AddCommGroup G]

/-! ### twisted Edwards -/

section TE
variable (F : FOps Nat) (a d : Nat) (φ : Nat × Nat → G) (S : Nat × Nat → Prop)

theorem teSmulNat_go_hom
    (hS : ∀ X Y, S X → S Y → S (teAdd F a d X Y))
    (hadd : ∀ X Y, S X → S Y → φ (teAdd F a d X Y) = φ X + φ Y) :
    ∀ (fuel k : Nat) (B acc : Nat × Nat), S B → S acc → k < 2 ^ fuel →
      φ (teSmulNat.go F a d fuel k B acc) = φ acc + k • φ B ∧ S (teSmulNat.go F a d fuel k B acc) := by
  intro fuel
  induction fuel with
  | zero =>
    intro k B acc _ hacc hk
    have : k = 0 := by simpa using hk
    subst this
    simp [teSmulNat.go, hacc]
  | succ f ih =>
    intro k B acc hB hacc hk
    have hp := pow_succ 2 f
    unfold teSmulNat.go
    split_ifs with h0 h1
    · subst h0; simp [hacc]
    · obtain ⟨e, hs⟩ := ih (k / 2) (teAdd F a d B B) (teAdd F a d acc B) (hS _ _ hB hB) (hS _ _ hacc hB) (by omega)
      refine ⟨?_, hs⟩
      rw [e, hadd _ _ hB hB, hadd _ _ hacc hB]
      have hk2 : k = 2 * (k / 2) + 1 := by omega
      conv_rhs => rw [hk2]
      simp only [smul_add, add_smul, mul_smul, two_smul, one_smul]
      abel
    · obtain ⟨e, hs⟩ := ih (k / 2) (teAdd F a d B B) acc (hS _ _ hB hB) hacc (by omega)
      refine ⟨?_, hs⟩
      rw [e, hadd _ _ hB hB]
      have hk2 : k = 2 * (k / 2) := by omega
      conv_rhs => rw [hk2]
      simp only [smul_add, mul_smul, two_smul]

/-- double-and-add is scalar multiplication, for every scalar -/
theorem teSmulNat_hom
    (hS : ∀ X Y, S X → S Y → S (teAdd F a d X Y))
    (hadd : ∀ X Y, S X → S Y → φ (teAdd F a d X Y) = φ X + φ Y)
    (h0S : S (0, F.one)) (h0 : φ (0, F.one) = 0) (k : Nat) (X : Nat × Nat) (hX : S X) :
    φ (teSmulNat F a d k X) = k • φ X ∧ S (teSmulNat F a d k X) := by
  unfold teSmulNat
  obtain ⟨e, hs⟩ := teSmulNat_go_hom F a d φ S hS hadd (k.log2 + 1) k X (0, F.one) hX h0S Nat.lt_log2_self
  exact ⟨by rw [e, h0, zero_add], hs⟩

end TE

theorem nsmul_mod_order (β : G) (ℓ m : ℕ) (hℓ : ℓ • β = 0) : (m % ℓ) • β = m • β := by
  conv_rhs => rw [← Nat.div_add_mod m ℓ]
  rw [add_smul, mul_comm, mul_smul, hℓ, smul_zero, zero_add]

/-- EdDSA: every honest signature satisfies the model's cofactored equation – all secret scalars `a`, nonces `r`,
    hash values `h` – provided the model's addition is a group law on a set `S ∋ B` (via an injective `φ`) and `[ℓ]B = O` -/
theorem eddsa_honest_equation (P : EdParams) (φ : Nat × Nat → G) (S : Nat × Nat → Prop)
    (hS : ∀ X Y, S X → S Y → S (P.add X Y)) (hadd : ∀ X Y, S X → S Y → φ (P.add X Y) = φ X + φ Y)
    (h0S : S (0, (fpE P.q).one)) (h0 : φ (0, (fpE P.q).one) = 0)
    (hinj : ∀ X Y, S X → S Y → φ X = φ Y → X = Y) (hB : S P.B) (hℓ : P.order • φ P.B = 0) (a r h : Nat) :
    P.equation P.smul (P.smul a P.B) (P.smul r P.B) ((r + h * a) % P.order) h = true := by
  have hom : ∀ k X, S X → φ (P.smul k X) = k • φ X ∧ S (P.smul k X) :=
    fun k X hX => teSmulNat_hom (fpE P.q) P.a P.d φ S hS hadd h0S h0 k X hX
  obtain ⟨eA, sA⟩ := hom a P.B hB
  obtain ⟨eR, sR⟩ := hom r P.B hB
  obtain ⟨e1, s1⟩ := hom ((r + h * a) % P.order) P.B hB
  obtain ⟨e2, s2⟩ := hom P.cofactor _ s1
  obtain ⟨e3, s3⟩ := hom h _ sA
  have s4 := hS _ _ s3 sR
  have e4 := hadd _ _ s3 sR
  obtain ⟨e5, s5⟩ := hom P.cofactor _ s4
  unfold EdParams.equation EdParams.lhs EdParams.rhs
  rw [beq_iff_eq]
  apply hinj _ _ s2 s5
  rw [e2, e1, e5, e4, e3, eA, eR, nsmul_mod_order _ _ _ hℓ, add_smul, mul_smul, add_comm]

/-! ### short Weierstrass -/

section SW
variable (E : Curve Nat) (φ : Pt Nat → G) (S : Pt Nat → Prop)

theorem smulNat_go_hom
    (hS : ∀ X Y, S X → S Y → S (E.add X Y))
    (hadd : ∀ X Y, S X → S Y → φ (E.add X Y) = φ X + φ Y) :
    ∀ (fuel k : Nat) (B acc : Pt Nat), S B → S acc → k < 2 ^ fuel →
      φ (Curve.smulNat.go E fuel k B acc) = φ acc + k • φ B ∧ S (Curve.smulNat.go E fuel k B acc) := by
  intro fuel
  induction fuel with
  | zero =>
    intro k B acc _ hacc hk
    have : k = 0 := by simpa using hk
    subst this
    simp [Curve.smulNat.go, hacc]
  | succ f ih =>
    intro k B acc hB hacc hk
    have hp := pow_succ 2 f
    unfold Curve.smulNat.go
    split_ifs with h0 h1
    · subst h0; simp [hacc]
    · obtain ⟨e, hs⟩ := ih (k / 2) (E.add B B) (E.add acc B) (hS _ _ hB hB) (hS _ _ hacc hB) (by omega)
      refine ⟨?_, hs⟩
      rw [e, hadd _ _ hB hB, hadd _ _ hacc hB]
      have hk2 : k = 2 * (k / 2) + 1 := by omega
      conv_rhs => rw [hk2]
      simp only [smul_add, add_smul, mul_smul, two_smul, one_smul]
      abel
    · obtain ⟨e, hs⟩ := ih (k / 2) (E.add B B) acc (hS _ _ hB hB) hacc (by omega)
      refine ⟨?_, hs⟩
      rw [e, hadd _ _ hB hB]
      have hk2 : k = 2 * (k / 2) := by omega
      conv_rhs => rw [hk2]
      simp only [smul_add, mul_smul, two_smul]

theorem smul_ofNat_hom
    (hS : ∀ X Y, S X → S Y → S (E.add X Y))
    (hadd : ∀ X Y, S X → S Y → φ (E.add X Y) = φ X + φ Y)
    (h0S : S none) (h0 : φ none = 0) (k : Nat) (X : Pt Nat) (hX : S X) :
    φ (E.smul (Int.ofNat k) X) = k • φ X ∧ S (E.smul (Int.ofNat k) X) := by
  have hk : ¬ (Int.ofNat k < 0) := by simp
  unfold Curve.smul
  rw [if_neg hk]
  have hna : (Int.ofNat k).natAbs = k := rfl
  rw [hna]
  unfold Curve.smulNat
  obtain ⟨e, hs⟩ := smulNat_go_hom E φ S hS hadd (k.log2 + 1) k X none hX h0S Nat.lt_log2_self
  exact ⟨by rw [e, h0, zero_add], hs⟩

end SW

/-- ECDSA: every honest signature passes the model's integer-level verifier – all keys `d`, nonces `k ≢ 0`, digests `e` –
    with `r = x([k]G) mod n`, `s = k⁻¹(e + r·d) mod n` (the signer retries until both are non-zero), provided the model's
    addition is a group law on `S ∋ G` (via an injective `φ`), `n` is prime and `[n]G = O` -/
theorem ecdsa_honest_core (P : ECParams) (φ : Pt Nat → G) (S : Pt Nat → Prop)
    (hS : ∀ X Y, S X → S Y → S (P.E.add X Y)) (hadd : ∀ X Y, S X → S Y → φ (P.E.add X Y) = φ X + φ Y)
    (h0S : S none) (h0 : φ none = 0)
    (hinj : ∀ X Y, S X → S Y → φ X = φ Y → X = Y) (hG : S P.G) (hn : P.n • φ P.G = 0) (hp : P.n.Prime)
    (d k e : Nat) (hk : k % P.n ≠ 0)
    (hr : 0 < P.xModN (P.smul (Int.ofNat k) P.G))
    (hs : 0 < invE P.n k * (e + P.xModN (P.smul (Int.ofNat k) P.G) * d) % P.n) :
    P.verifyCore P.smul (P.smul (Int.ofNat d) P.G) e (P.xModN (P.smul (Int.ofNat k) P.G))
      (invE P.n k * (e + P.xModN (P.smul (Int.ofNat k) P.G) * d) % P.n) = true := by
  have hn0 : 0 < P.n := hp.pos
  set r := P.xModN (P.smul (Int.ofNat k) P.G) with hrdef
  set s := invE P.n k * (e + r * d) % P.n with hsdef
  have hom : ∀ m X, S X → φ (P.smul (Int.ofNat m) X) = m • φ X ∧ S (P.smul (Int.ofNat m) X) :=
    fun m X hX => smul_ofNat_hom P.E φ S hS hadd h0S h0 m X hX
  have hrlt : r < P.n := by
    rw [hrdef]; unfold ECParams.xModN
    split
    · exact hn0
    · exact Nat.mod_lt _ hn0
  have hslt : s < P.n := Nat.mod_lt _ hn0
  have hsn : s % P.n ≠ 0 := by rw [Nat.mod_eq_of_lt hslt]; omega
  -- the scalar identity
  have hki := (invE_spec P.n k hp hk).1
  have hsi := (invE_spec P.n s hp hsn).1
  have hkZ : (invE P.n k : ℤ) * (k : ℤ) ≡ 1 [ZMOD P.n] := by
    have : ((invE P.n k * k : ℕ) : ℤ) ≡ ((1 : ℕ) : ℤ) [ZMOD P.n] :=
      (Int.natCast_modEq_iff).2 (by unfold Nat.ModEq; rw [hki, Nat.mod_eq_of_lt hp.one_lt])
    simpa using this
  have hsiZ : (invE P.n s : ℤ) * (s : ℤ) ≡ 1 [ZMOD P.n] := by
    have : ((invE P.n s * s : ℕ) : ℤ) ≡ ((1 : ℕ) : ℤ) [ZMOD P.n] :=
      (Int.natCast_modEq_iff).2 (by unfold Nat.ModEq; rw [hsi, Nat.mod_eq_of_lt hp.one_lt])
    simpa using this
  have hsZ : (s : ℤ) ≡ (invE P.n k : ℤ) * ((e : ℤ) + (r : ℤ) * (d : ℤ)) [ZMOD P.n] := by
    have : ((s : ℕ) : ℤ) ≡ ((invE P.n k * (e + r * d) : ℕ) : ℤ) [ZMOD P.n] :=
      (Int.natCast_modEq_iff).2 (by rw [hsdef]; exact Nat.mod_modEq _ _)
    simpa using this
  have hscal := ecdsa_scalar P.n d k e r s (invE P.n k) (invE P.n s) hkZ hsZ hsiZ
  set u1 := e * invE P.n s % P.n with hu1
  set u2 := r * invE P.n s % P.n with hu2
  have hu : ((u1 + u2 * d : ℕ) : ℤ) ≡ (k : ℤ) [ZMOD P.n] := by
    have h1 : ((u1 : ℕ) : ℤ) ≡ (e : ℤ) * (invE P.n s : ℤ) [ZMOD P.n] := by
      have : ((u1 : ℕ) : ℤ) ≡ ((e * invE P.n s : ℕ) : ℤ) [ZMOD P.n] :=
        (Int.natCast_modEq_iff).2 (by rw [hu1]; exact Nat.mod_modEq _ _)
      simpa using this
    have h2 : ((u2 : ℕ) : ℤ) ≡ (r : ℤ) * (invE P.n s : ℤ) [ZMOD P.n] := by
      have : ((u2 : ℕ) : ℤ) ≡ ((r * invE P.n s : ℕ) : ℤ) [ZMOD P.n] :=
        (Int.natCast_modEq_iff).2 (by rw [hu2]; exact Nat.mod_modEq _ _)
      simpa using this
    push_cast
    exact ((h1.add (h2.mul_right _)).trans hscal)
  -- the verification point is [k]G
  obtain ⟨eQ, sQ⟩ := hom d P.G hG
  obtain ⟨e1, s1⟩ := hom u1 P.G hG
  obtain ⟨e2, s2⟩ := hom u2 _ sQ
  obtain ⟨ek, sk⟩ := hom k P.G hG
  have hpt : P.verifyPoint P.smul (P.smul (Int.ofNat d) P.G) e r s = P.smul (Int.ofNat k) P.G := by
    unfold ECParams.verifyPoint
    simp only []
    apply hinj _ _ (hS _ _ s1 s2) sk
    rw [hadd _ _ s1 s2, e1, e2, eQ, ek, ← mul_smul, ← add_smul]
    have hnZ : (P.n : ℤ) • φ P.G = 0 := by rw [natCast_zsmul]; exact hn
    have := zsmul_congr (φ P.G) P.n hnZ hu
    rwa [natCast_zsmul, natCast_zsmul] at this
  rw [ECParams.verifyCore, ECParams.equation, hpt, ← hrdef]
  simp [ECParams.inRange, hr, hrlt, hs, hslt]

end GV.Sig
