import GnarkVerif.Gen.Imp.FieldLoops
import GnarkVerif.Model.Field
/-
Helper lemmas for Props/C01_loops_gen.lean: the index loops of the REGENERATED `BatchInvert` (Gen/Imp/FieldLoops.lean) compute the
structural forward / backward passes `fwdG` / `bwdG` (the shape of `Model.Field.batchFwd` / `batchBwd`, over an abstract element type).

Abstraction: the Go slice `res` is the list `rp ++ tail`; forward loop at counter `k`: `rp` = the finished prefix (length `k`), `tail` = the
untouched zero values of `make`; backward loop at counter `k - 1`: `rp` = the not yet multiplied prefix products, `tail` = the finished suffix.
Invariant of the bit set (`ZInv z k`): for every index `j < len a`, `Test j` holds iff `j < k` and `a[j]` is zero.
-/
namespace GV.FieldLoopsGen
open GV.GoImp GV.Gen.Imp.FieldLoops

section
variable {F B : Type} (zero one : F) (mul : F → F → F) (inv : F → F) (isZero : F → Bool)
  (bsNew : Int → B) (bsSet : B → Int → B) (bsTest : B → Int → Bool)

/-- forward pass: prefix products skipping zeros -/
def fwdG : List F → F → List F × F
  | [], acc => ([], acc)
  | a :: as, acc =>
    if isZero a then (zero :: (fwdG as acc).1, (fwdG as acc).2)
    else (acc :: (fwdG as (mul acc a)).1, (fwdG as (mul acc a)).2)

/-- backward pass over the reversed inputs / prefixes -/
def bwdG : List F → List F → F → List F
  | a :: as, r :: rs, acc =>
    if isZero a then zero :: bwdG as rs acc
    else mul r acc :: bwdG as rs (mul acc a)
  | _, _, _ => []

/-- Montgomery's trick with zeros skipped, structurally -/
def batchG (xs : List F) : List F :=
  (bwdG zero mul isZero xs.reverse (fwdG zero mul isZero xs one).1.reverse (inv (fwdG zero mul isZero xs one).2)).reverse

/-- ASSUMED behaviour of the external bit set (github.com/bits-and-blooms/bitset), on non-negative indices -/
structure BitsOK : Prop where
  new : ∀ n j : Int, 0 ≤ j → bsTest (bsNew n) j = false
  set : ∀ (b : B) (i j : Int), 0 ≤ i → 0 ≤ j → bsTest (bsSet b i) j = (decide (i = j) || bsTest b j)

/-- invariant of the bit set at counter `k` -/
def ZInv (a : List F) (z : B) (k : Nat) : Prop :=
  ∀ j : Nat, j < a.length → bsTest z (j : Int) = (decide (j < k) && isZero (a.getD j zero))

theorem fwdG_length (xs : List F) : ∀ acc, (fwdG zero mul isZero xs acc).1.length = xs.length := by
  induction xs with
  | nil => intro acc; simp [fwdG]
  | cons a as ih =>
    intro acc
    by_cases h : isZero a = true <;> simp [fwdG, h, ih]

theorem fwdG_zero (xs : List F) : ∀ acc (j : Nat), j < xs.length → isZero (xs.getD j zero) = true →
    (fwdG zero mul isZero xs acc).1.getD j zero = zero := by
  induction xs with
  | nil => intro acc j hj; simp at hj
  | cons a as ih =>
    intro acc j hj hz
    cases j with
    | zero =>
      have : isZero a = true := by simpa using hz
      simp [fwdG, this]
    | succ j =>
      have hj' : j < as.length := by simpa using hj
      have hz' : isZero (as.getD j zero) = true := by simpa using hz
      by_cases h : isZero a = true
      · simpa [fwdG, h] using ih acc j hj' hz'
      · simpa [fwdG, h] using ih (mul acc a) j hj' hz'

theorem idxD_nat (a : List F) (k : Nat) (h : k < a.length) : idxD zero a (k : Int) = a[k] := by
  simp [idxD, List.getD_eq_getElem?_getD, h]

theorem getD_nat (a : List F) (k : Nat) (h : k < a.length) : a.getD k zero = a[k] := by
  simp [List.getD_eq_getElem?_getD, h]

theorem loop1_spec (hb : BitsOK bsNew bsSet bsTest) (a : List F) : ∀ (m k : Nat) (rp : List F) (z : B) (acc : F),
    k + m = a.length → rp.length = k → ZInv zero isZero bsTest a z k →
    (BatchInvert.loop1 zero one mul inv isZero bsNew bsSet bsTest a m (rp ++ List.replicate m zero) z acc (k : Int)).1
        = rp ++ (fwdG zero mul isZero (a.drop k) acc).1 ∧
    (BatchInvert.loop1 zero one mul inv isZero bsNew bsSet bsTest a m (rp ++ List.replicate m zero) z acc (k : Int)).2.2.1
        = (fwdG zero mul isZero (a.drop k) acc).2 ∧
    ZInv zero isZero bsTest a
      (BatchInvert.loop1 zero one mul inv isZero bsNew bsSet bsTest a m (rp ++ List.replicate m zero) z acc (k : Int)).2.1 a.length := by
  intro m
  induction m with
  | zero =>
    intro k rp z acc hk hr hz
    have hk' : k = a.length := by omega
    have hd : a.drop k = [] := by simp [hk']
    simp only [BatchInvert.loop1, hd, fwdG, List.replicate_zero]
    exact ⟨by simp, by simp, hk' ▸ hz⟩
  | succ m ih =>
    intro k rp z acc hk hr hz
    have hlt : k < a.length := by omega
    have hc : ((k : Int) < len a) := by show (k : Int) < Int.ofNat a.length; exact Int.ofNat_lt.mpr hlt
    have hd : a.drop k = a[k] :: a.drop (k + 1) := List.drop_eq_getElem_cons hlt
    have hi : (k : Int) + 1 = ((k + 1 : Nat) : Int) := by omega
    by_cases h0 : isZero a[k] = true
    · have hrep : rp ++ List.replicate (m + 1) zero = (rp ++ [zero]) ++ List.replicate m zero := by
        simp [List.replicate_succ]
      have hz' : ZInv zero isZero bsTest a (bsSet z (k : Int)) (k + 1) := by
        intro j hj
        rw [hb.set z k j (by omega) (by omega), hz j hj]
        by_cases e : j = k
        · subst e; rw [getD_nat zero a j hj]; simp [h0]
        · have e' : ¬ ((k : Int) = (j : Int)) := by omega
          by_cases l : j < k
          · have : j < k + 1 := by omega
            simp [e', l, this]
          · have : ¬ j < k + 1 := by omega
            simp [e', l, this]
      have := ih (k + 1) (rp ++ [zero]) (bsSet z (k : Int)) acc (by omega) (by simp [hr]) hz'
      simp only [BatchInvert.loop1, hc, decide_true, if_true, idxD_nat zero a k hlt, h0, hd, fwdG, hi, hrep]
      simpa using this
    · have h0' : isZero a[k] = false := by simpa using h0
      have hset : setAt (rp ++ List.replicate (m + 1) zero) (k : Int) acc = (rp ++ [acc]) ++ List.replicate m zero := by
        simp [setAt, hr, List.replicate_succ]
      have hz' : ZInv zero isZero bsTest a z (k + 1) := by
        intro j hj
        rw [hz j hj]
        by_cases e : j = k
        · subst e; rw [getD_nat zero a j hj]; simp [h0']
        · by_cases l : j < k
          · have : j < k + 1 := by omega
            simp [l, this]
          · have : ¬ j < k + 1 := by omega
            simp [l, this]
      have := ih (k + 1) (rp ++ [acc]) z (mul acc a[k]) (by omega) (by simp [hr]) hz'
      simp only [BatchInvert.loop1, hc, decide_true, if_true, idxD_nat zero a k hlt, h0', hd, fwdG, hi, hset,
        Bool.false_eq_true, if_false]
      simpa using this

theorem loop2_spec (a : List F) (z : B) (hz : ZInv zero isZero bsTest a z a.length) :
    ∀ (k : Nat) (rp tail : List F) (acc : F),
    k ≤ a.length → rp.length = k → (∀ j, j < k → isZero (a.getD j zero) = true → rp.getD j zero = zero) →
    (BatchInvert.loop2 zero one mul inv isZero bsNew bsSet bsTest a z k (rp ++ tail) acc ((k : Int) - 1)).1
      = (bwdG zero mul isZero (a.take k).reverse rp.reverse acc).reverse ++ tail := by
  intro k
  induction k with
  | zero =>
    intro rp tail acc _ hr _
    have : rp = [] := List.eq_nil_of_length_eq_zero hr
    subst this
    simp [BatchInvert.loop2, bwdG]
  | succ k ih =>
    intro rp tail acc hk hr hzero
    have hlt : k < a.length := by omega
    obtain ⟨rp', r, rfl⟩ : ∃ rp' r, rp = rp' ++ [r] := by
      refine ⟨rp.dropLast, rp.getLast (by intro e; simp [e] at hr), ?_⟩
      exact (List.dropLast_concat_getLast _).symm
    have hr' : rp'.length = k := by simpa using hr
    have hi : ((k + 1 : Nat) : Int) - 1 = (k : Int) := by omega
    have hc : ((k : Int) ≥ 0) := by omega
    have htake : a.take (k + 1) = a.take k ++ [a[k]] := by
      rw [List.take_succ_eq_append_getElem hlt]
    have htest : bsTest z (k : Int) = isZero a[k] := by
      rw [hz k hlt]; simp [hlt]
    have hzero' : ∀ j, j < k → isZero (a.getD j zero) = true → rp'.getD j zero = zero := by
      intro j hj hzj
      have := hzero j (by omega) hzj
      simpa [List.getD_eq_getElem?_getD, List.getElem?_append_left, hr', hj] using this
    have hres : rp' ++ [r] ++ tail = rp' ++ ([r] ++ tail) := by simp
    have hrev1 : (a.take (k + 1)).reverse = a[k] :: (a.take k).reverse := by rw [htake]; simp
    have hrev2 : (rp' ++ [r]).reverse = r :: rp'.reverse := by simp
    by_cases h0 : isZero a[k] = true
    · have hrz : r = zero := by
        have := hzero k (by omega) (by rw [getD_nat zero a k hlt]; exact h0)
        simpa [List.getD_eq_getElem?_getD, hr'] using this
      have := ih rp' ([r] ++ tail) acc (by omega) hr' hzero'
      rw [hrev1, hrev2, hres]
      simp only [BatchInvert.loop2, hi, hc, decide_true, if_true, htest, h0, bwdG]
      rw [this, hrz]; simp
    · have h0' : isZero a[k] = false := by simpa using h0
      have hidx : idxD zero (rp' ++ [r] ++ tail) (k : Int) = r := by
        simp [idxD, List.getD_eq_getElem?_getD, hr']
      have hset : setAt (rp' ++ [r] ++ tail) (k : Int) (mul r acc) = rp' ++ ([mul r acc] ++ tail) := by
        simp [setAt, hr']
      have := ih rp' ([mul r acc] ++ tail) (mul acc a[k]) (by omega) hr' hzero'
      rw [hrev1, hrev2]
      simp only [BatchInvert.loop2, hi, hc, decide_true, if_true, htest, h0', bwdG, hidx, hset, idxD_nat zero a k hlt,
        Bool.false_eq_true, if_false]
      rw [this]; simp

/-- the regenerated `BatchInvert` is Montgomery's trick in its structural form, for every list -/
theorem batchInvert_eq_batchG (hb : BitsOK bsNew bsSet bsTest) (a : List F) :
    BatchInvert zero one mul inv isZero bsNew bsSet bsTest a = batchG zero one mul inv isZero a := by
  by_cases hn : a = []
  · subst hn; simp [BatchInvert, batchG, fwdG, bwdG, len]
  · have hpos : 0 < a.length := List.length_pos_iff.mpr hn
    have hlen : ((len a) == 0) = false := by
      simp [len, hn]
    have hf1 : (len a - 0).toNat = a.length := by simp [len]
    have hf2 : (((a.length : Nat) : Int) - 1 + 1 - 0).toNat = a.length := by omega
    have hrep : (len a).toNat = a.length := by simp [len]
    have e0 : ((0 : Nat) : Int) = 0 := rfl
    have hi2 : len a - 1 = ((a.length : Nat) : Int) - 1 := by simp [len]
    have hz0 : ZInv zero isZero bsTest a (bsNew (len a)) 0 := by
      intro j _; rw [hb.new _ _ (by omega)]; simp
    obtain ⟨e1, e2, e3⟩ := loop1_spec zero one mul inv isZero bsNew bsSet bsTest hb a a.length 0 [] (bsNew (len a)) one
      (by omega) rfl hz0
    simp only [List.nil_append, List.drop_zero, e0] at e1 e2 e3
    have hl := fwdG_length zero mul isZero a one
    have e4 := loop2_spec zero one mul inv isZero bsNew bsSet bsTest a _ e3 a.length (fwdG zero mul isZero a one).1 []
      (inv (fwdG zero mul isZero a one).2) (Nat.le_refl _) hl
      (fun j hj hzj => fwdG_zero zero mul isZero a one j hj hzj)
    simp only [List.append_nil, List.take_length] at e4
    simp only [BatchInvert, hlen, Bool.false_eq_true, if_false, hf1, hi2, hf2, hrep]
    generalize BatchInvert.loop1 zero one mul inv isZero bsNew bsSet bsTest a a.length (List.replicate a.length zero)
      (bsNew (len a)) one 0 = r at e1 e2 e3 e4 ⊢
    obtain ⟨r1, r2, r3, r4⟩ := r
    simp only at e1 e2 e3 e4 ⊢
    subst e1 e2
    simpa [batchG] using e4

end

end GV.FieldLoopsGen
