import GnarkVerif.Proofs.KzgOpenGen
/-
Helper definitions and lemmas for the `BatchOpenSinglePoint` part of Props/C11_open_gen_<curve>.lean.

REFERENCE loops (`rSizes`, `rLoop2`, `rLoop4`, `rLoop6`, `rLoop5`, `rQuotArr`): the loops of `BatchOpenSinglePoint` as the translator emits
them (Go indices as `Int`, explicit fuel), but package-independent: no per-package structure, the operations as arguments. The instantiated
files prove that the generated loops EQUAL these (induction, the step is the generated equation), so an edit of a Go loop body breaks that
proof; what is proved here about the reference loops (size errors, claimed values = `map eval`, the folded evaluation = Horner in γ) then
holds of the 7 packages at once.
-/
namespace GV.KzgOpenGen
open GV.GoImp GV.KZG

section Ref
variable {F : Type} (zero : F) (add sub mul : F → F → F)

/-- the range loop `for _, p := range polynomials`: (largestPoly at exit, "returned ErrInvalidPolynomialSize") -/
def rSizes (pkLen : Int) : List (List F) → Int → Int × Bool
  | [], L => (L, false)
  | p :: rest, L =>
    if (len p = 0) ∨ (len p > pkLen) then (L, true)
    else rSizes pkLen rest (if len p > L then len p else L)

/-- `for i := 0; i < len(polynomials); i++ { ClaimedValues[i] = eval(polynomials[i], point) }` -/
def rLoop2 (evalf : List F → F) (polys : List (List F)) : Nat → List F → Int → List F × Int
  | 0, cv, i => (cv, i)
  | fuel + 1, cv, i =>
    if i < len polys then rLoop2 evalf polys fuel (setAt cv i (evalf (idxD [] polys i))) (i + 1) else (cv, i)

/-- `for i := 1; i < len(polynomials); i++ { gammas[i] = gammas[i-1]·γ }` -/
def rLoop4 (bound : Int) (γ : F) : Nat → List F → Int → List F × Int
  | 0, g, i => (g, i)
  | fuel + 1, g, i =>
    if i < bound then rLoop4 bound γ fuel (setAt g i (mul (idxD zero g (i - 1)) γ)) (i + 1) else (g, i)

/-- the callback of `parallel.Execute`, called once on [0, n): `pj = polynomials[i][j]·gammas[i-1]; folded[j] += pj` -/
def rLoop6 (polys : List (List F)) (i : Int) (gammas : List F) (end' : Int) : Nat → List F → F → Int → List F × F × Int
  | 0, fp, pj, j => (fp, pj, j)
  | fuel + 1, fp, pj, j =>
    if j < end' then
      rLoop6 polys i gammas end' fuel
        (setAt fp j (add (idxD zero fp j) (mul (idxD zero (idxD [] polys i) j) (idxD zero gammas (i - 1)))))
        (mul (idxD zero (idxD [] polys i) j) (idxD zero gammas (i - 1))) (j + 1)
    else (fp, pj, j)

/-- `for i := 1; i < len(polynomials); i++ { parallel.Execute(len(polynomials[i]), …) }` -/
def rLoop5 (polys : List (List F)) (gammas : List F) : Nat → List F → Int → List F × Int
  | 0, fp, i => (fp, i)
  | fuel + 1, fp, i =>
    if i < len polys then
      rLoop5 polys gammas fuel
        (rLoop6 zero add mul polys i gammas (len (idxD [] polys i)) (len (idxD [] polys i) - 0).toNat fp zero 0).1 (i + 1)
    else (fp, i)

/-- the claimed values as the Go loop fills them -/
def rVals (evalf : List F → F) (polys : List (List F)) : List F :=
  (rLoop2 evalf polys (len polys - 0).toNat (List.replicate (Int.toNat (len polys)) zero) 0).1

/-- the array `foldedPolynomials` after `dividePolyByXminusA(foldedPolynomials, foldedEvaluations, point)`; the quotient `h` is its `drop 1` -/
def rQuotArr (polys : List (List F)) (vals : List F) (γ z : F) (largest : Int) : List F :=
  gDivide add sub mul zero
    (rLoop5 zero add mul polys
      (rLoop4 zero mul (len polys) γ (len polys - 1).toNat (setAt (List.replicate (Int.toNat (len polys)) zero) 0 γ) 1).1
      (len polys - 1).toNat (GoImp.copy (List.replicate (Int.toNat largest) zero) (idxD [] polys 0)) 1).1
    (gEval add mul zero vals γ) z

/-! ### facts about the reference loops (package-independent) -/

/-- the range loop reports ErrInvalidPolynomialSize iff some polynomial is empty or longer than the key -/
theorem rSizes_bad_iff (pkLen : ℕ) (polys : List (List F)) (L : Int) :
    (rSizes (pkLen : Int) polys L).2 = true ↔ ∃ p ∈ polys, p.length = 0 ∨ p.length > pkLen := by
  induction polys generalizing L with
  | nil => simp [rSizes]
  | cons p rest ih =>
    by_cases h : p.length = 0 ∨ p.length > pkLen
    · have h' : (len p = 0) ∨ (len p > (pkLen : Int)) := by simp only [len_eq]; omega
      simp only [rSizes, if_pos h']
      exact ⟨fun _ => ⟨p, List.mem_cons_self, h⟩, fun _ => trivial⟩
    · have h' : ¬ ((len p = 0) ∨ (len p > (pkLen : Int))) := by simp only [len_eq]; omega
      simp only [rSizes, if_neg h', ih]
      constructor
      · rintro ⟨q, hq, hb⟩; exact ⟨q, List.mem_cons_of_mem _ hq, hb⟩
      · rintro ⟨q, hq, hb⟩
        rcases List.mem_cons.1 hq with rfl | hq'
        · exact absurd hb h
        · exact ⟨q, hq', hb⟩

theorem take_succ_set (l : List F) (k : ℕ) (v : F) (h : k < l.length) :
    (l.take (k + 1)).set k v = l.take k ++ [v] := by
  induction l generalizing k with
  | nil => simp at h
  | cons a l ih =>
    cases k with
    | zero => simp
    | succ k => simp at h; simp [ih k h]

theorem rLoop2_length (evalf : List F → F) (polys : List (List F)) (fuel : ℕ) (cv : List F) (i : Int) :
    (rLoop2 evalf polys fuel cv i).1.length = cv.length := by
  induction fuel generalizing cv i with
  | zero => rfl
  | succ n ih =>
    simp only [rLoop2]
    split
    · rw [ih]; simp [setAt]
    · rfl

theorem rVals_length (evalf : List F → F) (polys : List (List F)) :
    (rVals zero evalf polys).length = polys.length := by
  simp [rVals, rLoop2_length, len_eq]

/-- invariant of the claimed-value loop: after the iterations `k, k+1, …` the cells from `k` on hold the evaluations -/
theorem rLoop2_spec (evalf : List F → F) (polys : List (List F)) (m k : ℕ) (cv : List F)
    (hk : k + m = polys.length) (hc : cv.length = polys.length) :
    (rLoop2 evalf polys m cv (k : Int)).1 = cv.take k ++ (polys.drop k).map evalf := by
  induction m generalizing k cv with
  | zero =>
    have hk' : k = polys.length := by omega
    have hd : polys.drop k = [] := by rw [hk']; exact List.drop_length
    have ht : cv.take k = cv := by rw [hk', ← hc]; exact List.take_length
    simp [rLoop2, hd, ht]
  | succ m ih =>
    have hlt : (k : Int) < len polys := by simp only [len_eq]; omega
    have hkl : k < polys.length := by omega
    simp only [rLoop2, if_pos hlt]
    have hi : (k : Int) + 1 = ((k + 1 : ℕ) : Int) := by omega
    rw [hi, ih (k + 1) _ (by omega) (by simp [setAt, hc])]
    have hidx : idxD ([] : List F) polys (k : Int) = polys[k] := by
      simp [idxD, List.getD_eq_getElem?_getD, hkl]
    rw [hidx]
    have hdrop : polys.drop k = polys[k] :: polys.drop (k + 1) := by
      rw [List.drop_eq_getElem_cons hkl]
    rw [hdrop, List.map_cons]
    have hkc : k < cv.length := by omega
    simp only [setAt, Int.toNat_natCast]
    rw [List.take_set, take_succ_set _ _ _ hkc]
    simp

/-- the claimed values ARE the evaluations of the polynomials, in order -/
theorem rVals_eq_map (evalf : List F → F) (polys : List (List F)) :
    rVals zero evalf polys = polys.map evalf := by
  have h := rLoop2_spec evalf polys polys.length 0 (List.replicate polys.length zero) (by omega) (by simp)
  simp only [rVals, len_eq, Int.toNat_natCast, Int.sub_zero]
  simpa using h

end Ref

/-! ### lengths: the folded array has `largest` cells through all loops -/
section Lengths
variable {F : Type} (zero : F) (add sub mul : F → F → F)

theorem rLoop6_length (polys : List (List F)) (i : Int) (gammas : List F) (e : Int) (fuel : ℕ) (fp : List F) (pj : F) (j : Int) :
    (rLoop6 zero add mul polys i gammas e fuel fp pj j).1.length = fp.length := by
  induction fuel generalizing fp pj j with
  | zero => rfl
  | succ n ih =>
    simp only [rLoop6]
    split
    · rw [ih]; simp [setAt]
    · rfl

theorem rLoop5_length (polys : List (List F)) (gammas : List F) (fuel : ℕ) (fp : List F) (i : Int) :
    (rLoop5 zero add mul polys gammas fuel fp i).1.length = fp.length := by
  induction fuel generalizing fp i with
  | zero => rfl
  | succ n ih =>
    simp only [rLoop5]
    split
    · rw [ih, rLoop6_length]
    · rfl

theorem copy_length (dst src : List F) : (GoImp.copy dst src).length = dst.length := by
  simp only [GoImp.copy, List.length_append, List.length_take, List.length_drop]
  omega

theorem rQuotArr_length (polys : List (List F)) (vals : List F) (γ z : F) (largest : Int) :
    (rQuotArr zero add sub mul polys vals γ z largest).length = largest.toNat := by
  simp [rQuotArr, gDivide_length, rLoop5_length, copy_length]

/-- without a size error the largest length is at most the key length (and at least the start value) -/
theorem rSizes_le (pkLen : Int) (polys : List (List F)) (L : Int) (hL : L ≤ pkLen)
    (h : (rSizes pkLen polys L).2 = false) : (rSizes pkLen polys L).1 ≤ pkLen := by
  induction polys generalizing L with
  | nil => simpa [rSizes] using hL
  | cons p rest ih =>
    by_cases hb : (len p = 0) ∨ (len p > pkLen)
    · simp [rSizes, if_pos hb] at h
    · simp only [rSizes, if_neg hb] at h ⊢
      apply ih _ _ h
      split <;> omega

end Lengths

/-! ### in the exponent model -/
section BatchModel
variable (r : ℕ) [NeZero r]

/-- `eval` of the hand model always returns a reduced value -/
theorem eval_lt (p : List ℕ) (x : ℕ) : KZG.eval r p x < r := by
  rw [eval_eq_foldr]
  cases p with
  | nil => exact rpos r
  | cons a p => exact addm_lt r _ _

omit [NeZero r] in
theorem foldEvals_eq_eval (γ : ℕ) (vals : List ℕ) : foldEvals r γ vals = KZG.eval r vals γ := by
  rw [eval_eq_foldr]; rfl

omit [NeZero r] in
/-- the claimed values of the reference loop are the model's (reduced coefficients) -/
theorem rVals_model (polys : List (List ℕ)) (z : ℕ) (hp : ∀ p ∈ polys, ∀ c ∈ p, c < r) :
    rVals 0 (fun p => gEval (addm r) (mulm r) 0 p z) polys = polys.map (fun p => KZG.eval r p z) := by
  rw [rVals_eq_map]
  apply List.map_congr_left
  intro p hpm
  exact gEval_model r p z (hp p hpm)

/-- the folded evaluation of the reference is the model's `foldEvals` -/
theorem fe_model (polys : List (List ℕ)) (z γ : ℕ) :
    gEval (addm r) (mulm r) 0 (polys.map (fun p => KZG.eval r p z)) γ = foldEvals r γ (polys.map (fun p => KZG.eval r p z)) := by
  rw [foldEvals_eq_eval, gEval_model]
  intro v hv
  obtain ⟨p, _, rfl⟩ := List.mem_map.1 hv
  exact eval_lt r p z

end BatchModel

/-! ### the folded polynomial: the reference loops are `foldPolys` of the hand model -/
section FoldModel
variable (r : ℕ)

/-- the largest length as the range loop computes it (start value ≥ −1) is the model's `foldl max` -/
theorem rSizes_largest (pkLen : Int) (polys : List (List ℕ)) (L : Int) (hL : -1 ≤ L)
    (h : (rSizes pkLen polys L).2 = false) :
    (rSizes pkLen polys L).1.toNat = polys.foldl (fun m p => max m p.length) L.toNat := by
  induction polys generalizing L with
  | nil => simp [rSizes]
  | cons p rest ih =>
    by_cases hb : (len p = 0) ∨ (len p > pkLen)
    · simp [rSizes, if_pos hb] at h
    · simp only [rSizes, if_neg hb] at h ⊢
      rw [List.foldl_cons, ih _ (by split <;> omega) h]
      congr 1
      by_cases hc : len p > L
      · rw [if_pos hc]; rw [len_eq] at hc ⊢; omega
      · rw [if_neg hc]; rw [len_eq] at hc; omega

theorem addScaled_nil (s : ℕ) (acc : List ℕ) : addScaled r s acc [] = acc := by
  cases acc <;> rfl

theorem addScaled_length (s : ℕ) (acc p : List ℕ) : (addScaled r s acc p).length = acc.length := by
  induction acc generalizing p with
  | nil => cases p <;> rfl
  | cons a acc ih => cases p with
    | nil => rfl
    | cons x p => simp [addScaled, ih]

/-- the callback loop of `parallel.Execute` over [0, len p) is `addScaled` -/
theorem rLoop6_spec (polys : List (List ℕ)) (i : Int) (gammas : List ℕ) (m j : ℕ) (fp : List ℕ) (pj : ℕ)
    (hj : j + m = (idxD [] polys i).length) (hl : (idxD [] polys i).length ≤ fp.length) :
    (rLoop6 0 (addm r) (mulm r) polys i gammas (len (idxD [] polys i)) m fp pj (j : Int)).1
      = fp.take j ++ addScaled r (idxD 0 gammas (i - 1)) (fp.drop j) ((idxD [] polys i).drop j) := by
  induction m generalizing j fp pj with
  | zero =>
    have hd : (idxD [] polys i).drop j = [] := by
      have : j = (idxD [] polys i).length := by omega
      rw [this]; exact List.drop_length
    simp [rLoop6, hd, addScaled_nil]
  | succ m ih =>
    have hjp : j < (idxD [] polys i).length := by omega
    have hjf : j < fp.length := by omega
    have hlt : (j : Int) < len (idxD [] polys i) := by simp only [len_eq]; omega
    have hi : (j : Int) + 1 = ((j + 1 : ℕ) : Int) := by omega
    simp only [rLoop6, if_pos hlt]
    rw [hi, ih (j + 1) _ _ (by omega) (by simp [setAt]; omega)]
    simp only [setAt, Int.toNat_natCast, idxD_nat]
    rw [List.take_set, take_succ_set _ _ _ hjf, List.drop_set_of_lt (by omega : j < j + 1)]
    rw [List.drop_eq_getElem_cons hjf, List.drop_eq_getElem_cons hjp]
    simp [addScaled, List.getD_eq_getElem?_getD, hjf, hjp]

theorem rLoop6_addScaled (polys : List (List ℕ)) (i : Int) (gammas : List ℕ) (fp : List ℕ) (pj : ℕ)
    (hl : (idxD [] polys i).length ≤ fp.length) :
    (rLoop6 0 (addm r) (mulm r) polys i gammas (len (idxD [] polys i)) (len (idxD [] polys i) - 0).toNat fp pj 0).1
      = addScaled r (idxD 0 gammas (i - 1)) fp (idxD [] polys i) := by
  have h := rLoop6_spec r polys i gammas (idxD [] polys i).length 0 fp pj (by omega) hl
  simpa [len_eq] using h

/-- the outer loop over the polynomials 1, 2, … is the model's `foldl` over `rest.zip gammas` -/
theorem rLoop5_spec (p0 : List ℕ) (rest : List (List ℕ)) (gammas : List ℕ) (m k : ℕ) (fp : List ℕ)
    (hk1 : 1 ≤ k) (hk : k + m = (p0 :: rest).length) (hg : rest.length ≤ gammas.length)
    (hl : ∀ p ∈ rest, p.length ≤ fp.length) :
    (rLoop5 0 (addm r) (mulm r) (p0 :: rest) gammas m fp (k : Int)).1
      = ((rest.drop (k - 1)).zip (gammas.drop (k - 1))).foldl (fun acc pg => addScaled r pg.2 acc pg.1) fp := by
  induction m generalizing k fp with
  | zero =>
    have hd : rest.drop (k - 1) = [] := by
      apply List.drop_eq_nil_of_le; simp at hk; omega
    simp [rLoop5, hd]
  | succ m ih =>
    simp only [List.length_cons] at hk
    have hkr : k - 1 < rest.length := by omega
    have hkg : k - 1 < gammas.length := by omega
    have hlt : (k : Int) < len (p0 :: rest) := by simp only [len_eq, List.length_cons]; omega
    have hidx : idxD ([] : List ℕ) (p0 :: rest) (k : Int) = rest[k - 1] := by
      obtain ⟨k', rfl⟩ : ∃ k', k = k' + 1 := ⟨k - 1, by omega⟩
      simp [idxD, List.getD_eq_getElem?_getD] at hkr ⊢
      simp [hkr]
    have hgi : idxD 0 gammas ((k : Int) - 1) = gammas[k - 1] := by
      have : ((k : Int) - 1).toNat = k - 1 := by omega
      simp [idxD, this, List.getD_eq_getElem?_getD, hkg]
    have hi : (k : Int) + 1 = ((k + 1 : ℕ) : Int) := by omega
    have hpl : (idxD ([] : List ℕ) (p0 :: rest) (k : Int)).length ≤ fp.length := by
      rw [hidx]; exact hl _ (List.getElem_mem _)
    simp only [rLoop5, if_pos hlt]
    rw [rLoop6_addScaled r _ _ _ _ _ hpl, hi, ih (k + 1) _ (by omega) (by simp; omega)
      (by intro p hp; rw [addScaled_length]; exact hl p hp)]
    rw [hidx, hgi]
    have e1 : rest.drop (k - 1) = rest[k - 1] :: rest.drop (k + 1 - 1) := by
      rw [List.drop_eq_getElem_cons hkr]; congr 2; omega
    have e2 : gammas.drop (k - 1) = gammas[k - 1] :: gammas.drop (k + 1 - 1) := by
      rw [List.drop_eq_getElem_cons hkg]; congr 2; omega
    rw [e1, e2]
    simp

/-- `powers` grows at the end by one multiplication of its last entry -/
theorem powers_snoc (τ s k : ℕ) (hk : 1 ≤ k) :
    powers r τ s (k + 1) = powers r τ s k ++ [mulm r ((powers r τ s k).getD (k - 1) 0) τ] := by
  induction k generalizing s with
  | zero => omega
  | succ k ih =>
    cases k with
    | zero => simp [powers]
    | succ k =>
      have := ih (mulm r s τ) (by omega)
      rw [powers, this]
      simp [powers]

omit r in
theorem powers_length' (r τ s n : ℕ) : (powers r τ s n).length = n := by
  induction n generalizing s with
  | zero => rfl
  | succ n ih => simp [powers, ih]

/-- the loop `gammas[i] = gammas[i-1]·γ` produces `[γ, γ², …, γⁿ]` -/
theorem rLoop4_spec (γ n m k : ℕ) (hk1 : 1 ≤ k) (hk : k + m = n) :
    (rLoop4 0 (mulm r) (n : Int) γ m (powers r γ γ k ++ List.replicate (n - k) 0) (k : Int)).1 = powers r γ γ n := by
  induction m generalizing k with
  | zero =>
    have : k = n := by omega
    subst this
    simp [rLoop4]
  | succ m ih =>
    have hlt : (k : Int) < (n : Int) := by omega
    have hi : (k : Int) + 1 = ((k + 1 : ℕ) : Int) := by omega
    have hm1 : ((k : Int) - 1).toNat = k - 1 := by omega
    simp only [rLoop4, if_pos hlt]
    have hstep : setAt (powers r γ γ k ++ List.replicate (n - k) 0) (k : Int)
        (mulm r (idxD 0 (powers r γ γ k ++ List.replicate (n - k) 0) ((k : Int) - 1)) γ)
        = powers r γ γ (k + 1) ++ List.replicate (n - (k + 1)) 0 := by
      have hget : idxD 0 (powers r γ γ k ++ List.replicate (n - k) 0) ((k : Int) - 1) = (powers r γ γ k).getD (k - 1) 0 := by
        simp only [idxD, hm1, List.getD_eq_getElem?_getD]
        rw [List.getElem?_append_left (by rw [powers_length']; omega)]
      rw [hget, powers_snoc r γ γ k hk1]
      obtain ⟨d, hd⟩ : ∃ d, n - k = d + 1 := ⟨n - k - 1, by omega⟩
      have hd' : n - (k + 1) = d := by omega
      simp only [setAt, Int.toNat_natCast, hd, hd', List.replicate_succ]
      rw [List.set_append_right _ _ (by rw [powers_length'])]
      simp [powers_length']
    rw [hstep, hi, ih (k + 1) (by omega) (by omega)]

/-- `copy(make(largest), p0)` is `p0` padded with zeros -/
theorem copy_pad (p0 : List ℕ) (n : ℕ) (h : p0.length ≤ n) :
    GoImp.copy (List.replicate n 0) p0 = p0 ++ List.replicate (n - p0.length) 0 := by
  simp [GoImp.copy, Nat.min_eq_right h]

end FoldModel

section QuotModel
variable (r : ℕ) [NeZero r]

omit [NeZero r] in
theorem le_foldl_max (polys : List (List ℕ)) (m : ℕ) :
    m ≤ polys.foldl (fun m p => max m p.length) m ∧ ∀ p ∈ polys, p.length ≤ polys.foldl (fun m p => max m p.length) m := by
  induction polys generalizing m with
  | nil => simp
  | cons q rest ih =>
    obtain ⟨h1, h2⟩ := ih (max m q.length)
    refine ⟨by simp only [List.foldl_cons]; omega, ?_⟩
    intro p hp
    simp only [List.foldl_cons]
    rcases List.mem_cons.1 hp with rfl | hp'
    · omega
    · exact h2 p hp'

/-- the quotient slice of the reference = the model's quotient of the folded polynomial (reduced coefficients, reduced γ, valid sizes) -/
theorem rQuotArr_model (p0 : List ℕ) (rest : List (List ℕ)) (γ z : ℕ) (pkLen : ℕ)
    (hp : ∀ p ∈ p0 :: rest, ∀ c ∈ p, c < r) (hγ : γ < r)
    (h2 : (rSizes (pkLen : Int) (p0 :: rest) (-1)).2 = false) :
    (rQuotArr 0 (addm r) (subm r) (mulm r) (p0 :: rest) ((p0 :: rest).map (fun p => KZG.eval r p z)) γ z
        (rSizes (pkLen : Int) (p0 :: rest) (-1)).1).drop 1
      = KZG.dividePolyByXminusA r
          (foldPolys r ((p0 :: rest).foldl (fun m p => max m p.length) 0) (p0 :: rest) (powers r γ (γ % r) (p0 :: rest).length))
          (foldEvals r γ ((p0 :: rest).map (fun p => KZG.eval r p z))) z := by
  have hL := rSizes_largest (pkLen : Int) (p0 :: rest) (-1) (by omega) h2
  have hL0 : (-1 : Int).toNat = 0 := rfl
  rw [hL0] at hL
  obtain ⟨_, hmax⟩ := le_foldl_max (p0 :: rest) 0
  generalize hLg : (p0 :: rest).foldl (fun m p => max m p.length) 0 = Lg at hL hmax
  have hlen : len (p0 :: rest) = ((rest.length + 1 : ℕ) : Int) := by simp [len_eq]
  have hf1 : (len (p0 :: rest) - 1).toNat = rest.length := by rw [hlen]; omega
  have hf2 : Int.toNat (len (p0 :: rest)) = rest.length + 1 := by rw [hlen]; omega
  have hg0 : setAt (List.replicate (rest.length + 1) 0) 0 γ = powers r γ γ 1 ++ List.replicate (rest.length + 1 - 1) 0 := by
    simp [setAt, powers, List.replicate_succ]
  have hgam : (rLoop4 0 (mulm r) (len (p0 :: rest)) γ rest.length (setAt (List.replicate (rest.length + 1) 0) 0 γ) 1).1
      = powers r γ γ (rest.length + 1) := by
    rw [hg0, hlen]
    exact rLoop4_spec r γ (rest.length + 1) rest.length 1 (by omega) (by omega)
  have hidx0 : idxD ([] : List ℕ) (p0 :: rest) 0 = p0 := by simp [idxD]
  have hfp0 : GoImp.copy (List.replicate Lg 0) p0 = p0 ++ List.replicate (Lg - p0.length) 0 :=
    copy_pad p0 Lg (hmax p0 (by simp))
  have h5 := rLoop5_spec r p0 rest (powers r γ γ (rest.length + 1)) rest.length 1 (p0 ++ List.replicate (Lg - p0.length) 0)
    (by omega) (by simp; omega) (by rw [powers_length']; omega)
    (by intro p hp'; have := hmax p (List.mem_cons_of_mem _ hp'); have := hmax p0 (by simp); simp; omega)
  have hmod : p0.map (· % r) = p0 := by
    conv_rhs => rw [← List.map_id p0]
    apply List.map_congr_left
    intro c hc
    exact Nat.mod_eq_of_lt (hp p0 (by simp) c hc)
  simp only [rQuotArr, gDivide_model, fe_model, hf1, hf2, hL, hgam, hidx0, hfp0]
  have h5' : (rLoop5 0 (addm r) (mulm r) (p0 :: rest) (powers r γ γ (rest.length + 1)) rest.length
      (p0 ++ List.replicate (Lg - p0.length) 0) 1).1
      = foldPolys r Lg (p0 :: rest) (powers r γ (γ % r) (p0 :: rest).length) := by
    have h1 : ((1 : ℕ) : Int) = 1 := rfl
    rw [← h1, h5]
    simp [foldPolys, hmod, Nat.mod_eq_of_lt hγ]
  rw [h5']

end QuotModel

/-- the claimed values of a successful `batchOpenSinglePoint` of the hand model are the evaluations -/
theorem batchOpen_ok_vals (r γ : ℕ) (polys : List (List ℕ)) (n z : ℕ) (pk : List ℕ) (H : ℕ) (vals : List ℕ)
    (h : batchOpenSinglePoint r γ polys n z pk = .ok (H, vals)) : vals = polys.map (fun p => KZG.eval r p z) := by
  unfold batchOpenSinglePoint at h
  split at h
  · cases h
  · split at h
    · cases h
    · split at h
      · cases h
      · simp only [] at h
        split at h
        · cases h
        · injection h with h
          injection h with _ h2
          exact h2.symm

end GV.KzgOpenGen
