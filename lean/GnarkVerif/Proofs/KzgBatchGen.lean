import GnarkVerif.Proofs.KzgOpenGen
/-
Helper definitions and lemmas for the `BatchOpenSinglePoint` part of Props/C11_open_gen_<curve>.lean.

REFERENCE loops (`rSizes`, `rLoop2`, `rLoop4`, `rLoop6`, `rLoop5`, `rQuotArr`): the loops of `BatchOpenSinglePoint` as the translator emits
them (Go indices as `Int`, explicit fuel), but package-independent: no per-package structure, the operations as arguments. The instantiated
files prove that the generated loops EQUAL these (induction, the step is the generated equation), so an edit of a Go loop body breaks that
proof; what is proved here about the reference loops (size errors, claimed values = `map eval`, the folded evaluation = Horner in γ) then
holds of the 7 packages at once.
-/
namespace GV.KzgOpenGen
open GV.GoImp GV.KZG

section Ref
variable {F : Type} (zero : F) (add sub mul : F → F → F)

/-- the range loop `for _, p := range polynomials`: (largestPoly at exit, "returned ErrInvalidPolynomialSize") -/
def rSizes (pkLen : Int) : List (List F) → Int → Int × Bool
  | [], L => (L, false)
  | p :: rest, L =>
    if (len p = 0) ∨ (len p > pkLen) then (L, true)
    else rSizes pkLen rest (if len p > L then len p else L)

/-- `for i := 0; i < len(polynomials); i++ { ClaimedValues[i] = eval(polynomials[i], point) }` -/
def rLoop2 (evalf : List F → F) (polys : List (List F)) : Nat → List F → Int → List F × Int
  | 0, cv, i => (cv, i)
  | fuel + 1, cv, i =>
    if i < len polys then rLoop2 evalf polys fuel (setAt cv i (evalf (idxD [] polys i))) (i + 1) else (cv, i)

/-- `for i := 1; i < len(polynomials); i++ { gammas[i] = gammas[i-1]·γ }` -/
def rLoop4 (bound : Int) (γ : F) : Nat → List F → Int → List F × Int
  | 0, g, i => (g, i)
  | fuel + 1, g, i =>
    if i < bound then rLoop4 bound γ fuel (setAt g i (mul (idxD zero g (i - 1)) γ)) (i + 1) else (g, i)

/-- the callback of `parallel.Execute`, called once on [0, n): `pj = polynomials[i][j]·gammas[i-1]; folded[j] += pj` -/
def rLoop6 (polys : List (List F)) (i : Int) (gammas : List F) (end' : Int) : Nat → List F → F → Int → List F × F × Int
  | 0, fp, pj, j => (fp, pj, j)
  | fuel + 1, fp, pj, j =>
    if j < end' then
      rLoop6 polys i gammas end' fuel
        (setAt fp j (add (idxD zero fp j) (mul (idxD zero (idxD [] polys i) j) (idxD zero gammas (i - 1)))))
        (mul (idxD zero (idxD [] polys i) j) (idxD zero gammas (i - 1))) (j + 1)
    else (fp, pj, j)

/-- `for i := 1; i < len(polynomials); i++ { parallel.Execute(len(polynomials[i]), …) }` -/
def rLoop5 (polys : List (List F)) (gammas : List F) : Nat → List F → Int → List F × Int
  | 0, fp, i => (fp, i)
  | fuel + 1, fp, i =>
    if i < len polys then
      rLoop5 polys gammas fuel
        (rLoop6 zero add mul polys i gammas (len (idxD [] polys i)) (len (idxD [] polys i) - 0).toNat fp zero 0).1 (i + 1)
    else (fp, i)

/-- the claimed values as the Go loop fills them -/
def rVals (evalf : List F → F) (polys : List (List F)) : List F :=
  (rLoop2 evalf polys (len polys - 0).toNat (List.replicate (Int.toNat (len polys)) zero) 0).1

/-- the array `foldedPolynomials` after `dividePolyByXminusA(foldedPolynomials, foldedEvaluations, point)`; the quotient `h` is its `drop 1` -/
def rQuotArr (polys : List (List F)) (vals : List F) (γ z : F) (largest : Int) : List F :=
  gDivide add sub mul zero
    (rLoop5 zero add mul polys
      (rLoop4 zero mul (len polys) γ (len polys - 1).toNat (setAt (List.replicate (Int.toNat (len polys)) zero) 0 γ) 1).1
      (len polys - 1).toNat (GoImp.copy (List.replicate (Int.toNat largest) zero) (idxD [] polys 0)) 1).1
    (gEval add mul zero vals γ) z

/-! ### facts about the reference loops (package-independent) -/

/-- the range loop reports ErrInvalidPolynomialSize iff some polynomial is empty or longer than the key -/
theorem rSizes_bad_iff (pkLen : ℕ) (polys : List (List F)) (L : Int) :
    (rSizes (pkLen : Int) polys L).2 = true ↔ ∃ p ∈ polys, p.length = 0 ∨ p.length > pkLen := by
  induction polys generalizing L with
  | nil => simp [rSizes]
  | cons p rest ih =>
    by_cases h : p.length = 0 ∨ p.length > pkLen
    · have h' : (len p = 0) ∨ (len p > (pkLen : Int)) := by simp only [len_eq]; omega
      simp only [rSizes, if_pos h']
      exact ⟨fun _ => ⟨p, List.mem_cons_self, h⟩, fun _ => trivial⟩
    · have h' : ¬ ((len p = 0) ∨ (len p > (pkLen : Int))) := by simp only [len_eq]; omega
      simp only [rSizes, if_neg h', ih]
      constructor
      · rintro ⟨q, hq, hb⟩; exact ⟨q, List.mem_cons_of_mem _ hq, hb⟩
      · rintro ⟨q, hq, hb⟩
        rcases List.mem_cons.1 hq with rfl | hq'
        · exact absurd hb h
        · exact ⟨q, hq', hb⟩

theorem take_succ_set (l : List F) (k : ℕ) (v : F) (h : k < l.length) :
    (l.take (k + 1)).set k v = l.take k ++ [v] := by
  induction l generalizing k with
  | nil => simp at h
  | cons a l ih =>
    cases k with
    | zero => simp
    | succ k => simp at h; simp [ih k h]

theorem rLoop2_length (evalf : List F → F) (polys : List (List F)) (fuel : ℕ) (cv : List F) (i : Int) :
    (rLoop2 evalf polys fuel cv i).1.length = cv.length := by
  induction fuel generalizing cv i with
  | zero => rfl
  | succ n ih =>
    simp only [rLoop2]
    split
    · rw [ih]; simp [setAt]
    · rfl

theorem rVals_length (evalf : List F → F) (polys : List (List F)) :
    (rVals zero evalf polys).length = polys.length := by
  simp [rVals, rLoop2_length, len_eq]

/-- invariant of the claimed-value loop: after the iterations `k, k+1, …` the cells from `k` on hold the evaluations -/
theorem rLoop2_spec (evalf : List F → F) (polys : List (List F)) (m k : ℕ) (cv : List F)
    (hk : k + m = polys.length) (hc : cv.length = polys.length) :
    (rLoop2 evalf polys m cv (k : Int)).1 = cv.take k ++ (polys.drop k).map evalf := by
  induction m generalizing k cv with
  | zero =>
    have hk' : k = polys.length := by omega
    have hd : polys.drop k = [] := by rw [hk']; exact List.drop_length
    have ht : cv.take k = cv := by rw [hk', ← hc]; exact List.take_length
    simp [rLoop2, hd, ht]
  | succ m ih =>
    have hlt : (k : Int) < len polys := by simp only [len_eq]; omega
    have hkl : k < polys.length := by omega
    simp only [rLoop2, if_pos hlt]
    have hi : (k : Int) + 1 = ((k + 1 : ℕ) : Int) := by omega
    rw [hi, ih (k + 1) _ (by omega) (by simp [setAt, hc])]
    have hidx : idxD ([] : List F) polys (k : Int) = polys[k] := by
      simp [idxD, List.getD_eq_getElem?_getD, hkl]
    rw [hidx]
    have hdrop : polys.drop k = polys[k] :: polys.drop (k + 1) := by
      rw [List.drop_eq_getElem_cons hkl]
    rw [hdrop, List.map_cons]
    have hkc : k < cv.length := by omega
    simp only [setAt, Int.toNat_natCast]
    rw [List.take_set, take_succ_set _ _ _ hkc]
    simp

/-- the claimed values ARE the evaluations of the polynomials, in order -/
theorem rVals_eq_map (evalf : List F → F) (polys : List (List F)) :
    rVals zero evalf polys = polys.map evalf := by
  have h := rLoop2_spec evalf polys polys.length 0 (List.replicate polys.length zero) (by omega) (by simp)
  simp only [rVals, len_eq, Int.toNat_natCast, Int.sub_zero]
  simpa using h

end Ref

end GV.KzgOpenGen
