import GnarkVerif.Proofs.Poseidon2
import Mathlib.Algebra.Field.Defs
/-
Helper for Props/C14_gen_*: the value in a field of a coefficient of the hand diagonal tables of Model/Poseidon2.lean
(`kbDiag16`, `bbDiag24`, `glDiag8`, …), so that the generated internal layers can be compared with `intDiag` on them.
-/
namespace GV.C14gen
open GV.Poseidon2

/-- the value of a diagonal coefficient of `Model.Poseidon2` in a field -/
def coef {F : Type} [Field F] : Coef → F
  | .int z => (z : F)
  | .inv2 neg k => if neg then -((2 : F) ^ k)⁻¹ else ((2 : F) ^ k)⁻¹
  | .lit n => (n : F)

end GV.C14gen
